import PymaVerif.Props.C20
import PymaVerif.Proofs.SharedError
import PymaVerif.Proofs.DriverTotal
import PymaVerif.Proofs.Accepted
#print axioms Pyma.Props.C20_setup_ok_iff_aux
#print axioms Pyma.Props.maskFault_ne_ok
#print axioms Pyma.Props.C20_accepts_exactly_wellposed
#print axioms Pyma.Props.C20_rejection_is_an_error
#print axioms Pyma.Props.rejected_of_check
#print axioms Pyma.Props.C20_not_block_diagonal
#print axioms Pyma.Props.C20_zero_diagonal
#print axioms Pyma.Props.C20_not_biorthonormal
#print axioms Pyma.Props.C20_pairs_in_hermitian_mode
#print axioms Pyma.Props.C20_exclusive_options
#print axioms Pyma.Props.maskFault_isSome_of_asym
#print axioms Pyma.Props.C20_asymmetric_mask
#print axioms Pyma.Props.C20_mask_eliminates_degenerate_pair
#print axioms Pyma.Props.C20_shared_hermitian
#print axioms Pyma.Props.C20_shared_run
#print axioms Pyma.Props.C20_shared_nonhermitian
#print axioms Pyma.Props.C20_accepted_answers
#print axioms Pyma.BlockDiag.Problem.C20_shared
#print axioms Pyma.BlockDiag.Problem.C20_shared_run
#print axioms Pyma.BlockDiag.Problem.C20_shared_nh
#print axioms Pyma.BlockDiag.Problem.driver_total
