import PymaVerif.Props.C04
import PymaVerif.Proofs.Trace
import PymaVerif.Proofs.Accepted
#print axioms Pyma.Props.C04_power_traces
#print axioms Pyma.Props.C04_characteristic_polynomial
#print axioms Pyma.Props.C04_truncated
#print axioms Pyma.Props.C04_rayleigh_schrodinger
#print axioms Pyma.BlockDiag.Problem.C04_traces
#print axioms Pyma.BlockDiag.Problem.C04_truncated
#print axioms Pyma.BlockDiag.Problem.C04_rayleigh_schrodinger
