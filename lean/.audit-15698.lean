import PymaVerif.Props.C14
import PymaVerif.Proofs.Rotation
import PymaVerif.Proofs.SemNatural
import PymaVerif.Proofs.Natural
import PymaVerif.Proofs.FormatsThm
#print axioms Pyma.Props.C14_eigenbasis
#print axioms Pyma.Props.C14_carriers
#print axioms Pyma.Props.C14_taylor_expansion
#print axioms Pyma.Props.C14_subspace_indices
#print axioms Pyma.BlockDiag.Problem.C14_rotation
#print axioms Pyma.Dsl.sem_natural
#print axioms Pyma.Dsl.Holds.map
#print axioms Pyma.Formats.subspaces_partition
