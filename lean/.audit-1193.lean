import PymaVerif.Props.C07
import PymaVerif.Proofs.NofFermion
import PymaVerif.Proofs.NofSylvester
import PymaVerif.Proofs.NofAdjoint
import PymaVerif.Proofs.NofAssoc
import PymaVerif.Proofs.NofRoundTrip
import PymaVerif.Proofs.Natural
#print axioms Pyma.Props.C07_rep_mul
#print axioms Pyma.Props.C07_rep_add
#print axioms Pyma.Props.C07_rep_adjoint
#print axioms Pyma.Props.C07_solver
#print axioms Pyma.Props.C07_naturality
#print axioms Pyma.Nof.rep_mul3
#print axioms Pyma.Nof.rep_adjoint
#print axioms Pyma.Nof.solveScalar_spec
#print axioms Pyma.Nof.rep_mul_assoc
#print axioms Pyma.Nof.roundtrip
#print axioms Pyma.Dsl.Holds.map
