import PymaVerif.Props.C10
import PymaVerif.Proofs.MachineThm
import PymaVerif.Proofs.MachineOnce
import PymaVerif.Proofs.DslDet
#print axioms Pyma.Props.replay_inv
#print axioms Pyma.Props.C10_history_independent
#print axioms Pyma.Props.C10_two_histories_agree
#print axioms Pyma.Props.C10_semantics_deterministic
#print axioms Pyma.Props.demo_consistent
#print axioms Pyma.Machine.sound
#print axioms Pyma.Machine.no_leftover
#print axioms Pyma.Dsl.Holds.det
