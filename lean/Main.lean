/-
JSON-lines driver for the executable model.  One request object per input line, one answer per
output line.  Imports nothing from Mathlib.
-/
import Lean.Data.Json
import PymaVerif.Model.BlockDiag
import PymaVerif.Model.Generated.Algorithms
import PymaVerif.Model.Nof
import PymaVerif.Model.Machine
import PymaVerif.Model.Cauchy
import PymaVerif.Model.Projector
import PymaVerif.Model.Validate
import PymaVerif.Model.Kpm
import PymaVerif.Model.Taylor
import PymaVerif.Model.Formats
import PymaVerif.Model.Index

open Lean Pyma Pyma.Dsl Pyma.BlockDiag

def parseRat (s : String) : Except String Rat :=
  match s.trim.splitOn "/" with
  | [a] => match a.toInt? with
    | some n => pure (n : Rat)
    | none => throw s!"bad rational {s}"
  | [a, b] => match a.toInt?, b.toNat? with
    | some n, some d => if d == 0 then throw s!"zero denominator {s}" else pure ((n : Rat) / (d : Rat))
    | _, _ => throw s!"bad rational {s}"
  | _ => throw s!"bad rational {s}"

def parseGRat (s : String) : Except String GRat :=
  match s.splitOn "," with
  | [a] => do pure ⟨← parseRat a, 0⟩
  | [a, b] => do pure ⟨← parseRat a, ← parseRat b⟩
  | _ => throw s!"bad scalar {s}"

def getArr (j : Json) (k : String) : Except String (Array Json) := do
  match (← j.getObjVal? k) with
  | .arr a => pure a
  | _ => throw s!"{k}: array expected"

def natList (a : Array Json) : Except String (List Nat) := a.toList.mapM fun x => x.getNat?

def parseMat (d : Nat) (j : Json) : Except String (Mat GRat) := do
  match j with
  | .arr a =>
      if a.size != d * d then throw "matrix size mismatch"
      let xs ← a.mapM fun x => do parseGRat (← x.getStr?)
      pure ⟨d, xs⟩
  | _ => throw "matrix: array expected"

def parseFD (d : Nat) (j : Json) : Except String FD := do
  let kind ← j.getObjValAs? String "kind"
  match kind with
  | "none" => pure .none
  | "tuple" => do pure (.tuple (← natList (← getArr j "blocks")))
  | "dict" => do
      let ms ← getArr j "masks"
      let l ← ms.toList.mapM fun m => do
        let b ← m.getObjValAs? Nat "block"
        let bits ← natList (← getArr m "mask")
        if bits.length != d * d then throw "mask size mismatch"
        pure (b, (bits.map (· != 0)).toArray)
      pure (.dict l)
  | k => throw s!"unknown fd kind {k}"

def parseProblem (j : Json) : Except String (Problem GRat) := do
  let d ← j.getObjValAs? Nat "d"
  let blocks ← natList (← getArr j "blocks")
  let nblocks ← j.getObjValAs? Nat "nblocks"
  let nparams ← j.getObjValAs? Nat "nparams"
  let ts ← getArr j "terms"
  let terms ← ts.toList.mapM fun t => do
    let o ← natList (← getArr t "order")
    let m ← parseMat d (← t.getObjVal? "mat")
    pure (o, m)
  let herm ← j.getObjValAs? Bool "hermitian"
  let fd ← parseFD d (← j.getObjVal? "fd")
  let atol ← parseRat (← j.getObjValAs? String "atol")
  pure { d, blockOf := blocks.toArray, nblocks, nparams, terms, hermitian := herm, fd, atol }

def showVal (env : Env GRat) (i : Nat) : SVal GRat → String
  | .zero => "zero"
  | .one => "one " ++ (env.blockOne i).entriesToString
  | .val m => "val " ++ m.entriesToString

def showErr : Err → String
  | .fuel => "err fuel"
  | .cycle x _ => s!"err cycle {x}"
  | .unknown x => s!"err unknown {x}"
  | .oneInArithmetic => "err one-in-arithmetic"
  | .scope m => s!"err scope {m}"

def runBD (j : Json) : Except String (List String) := do
  let p ← parseProblem j
  let algo ← j.getObjValAs? String "algo"
  let prog ← match algo with
    | "main" => pure Generated.main
    | "nonhermitian" => pure Generated.nonhermitian
    | a => throw s!"unknown algorithm {a}"
  let env := p.env
  let reqs ← getArr j "requests"
  let fuel := 100000
  let mut cache : Cache GRat := {}
  let mut out : List String := []
  for r in reqs.toList do
    let name ← r.getObjValAs? String "name"
    let i ← r.getObjValAs? Nat "i"
    let jj ← r.getObjValAs? Nat "j"
    let n ← natList (← getArr r "n")
    match getElem prog env fuel name ⟨i, jj, n⟩ cache with
    | .ok (v, c) => cache := c; out := showVal env i v :: out
    | .error e => out := showErr e :: out
  pure out.reverse

/-! ### NumberOrderedForm requests -/

def parseKind : String → Except String Nof.Kind
  | "b" => pure .boson | "l" => pure .ladder | "s" => pure .spin | "f" => pure .fermion
  | k => throw s!"unknown kind {k}"

partial def evalNof (c : Nof.Ctx) (j : Json) : Except String Nof.Form := do
  let op ← j.getObjValAs? String "op"
  match op with
  | "gen" => do
      let m ← j.getObjValAs? Nat "mode"
      let cr ← j.getObjValAs? Bool "cr"
      pure (Nof.gen c m cr)
  | "num" => do pure (Nof.number c (← j.getObjValAs? Nat "mode"))
  | "fnum" => do
      -- a function of one number operator (a term without generators whose coefficient is that function of the occupation)
      let m ← j.getObjValAs? Nat "mode"
      let kind ← j.getObjValAs? String "kind"
      let f : Int → Rat ← match kind with
        | "pow2" => pure fun n => if n ≥ 0 then (2 : Rat) ^ n.toNat else 1 / (2 : Rat) ^ (-n).toNat
        | "inv" => pure fun n => 2 / (2 * (n : Rat) + 1)                  -- 1 / (N + 1/2)
        | "abs" => pure fun n => ((n - 1).natAbs : Rat)                   -- |N - 1|
        | "abs0" => pure fun n => (n.natAbs : Rat)                        -- |N|
        | "sqrtsq" => pure fun n => (n.natAbs : Rat)                      -- sqrt(N^2)
        | "sq" => pure fun n => ((n : Rat) + 1) ^ 2                       -- (N + 1)^2
        | k => throw s!"unknown function {k}"
      pure [{ powers := List.replicate c.n 0, coeff := fun N => GRat.ofRat (f (Nof.Occ.get N m)) }]
  | "const" => do pure (Nof.scalar c (← parseGRat (← j.getObjValAs? String "val")))
  | "mul" => do
      let args ← getArr j "args"
      let fs ← args.toList.mapM (evalNof c)
      match fs with
      | [] => pure (Nof.scalar c 1)
      | f :: rest => pure (rest.foldl (Nof.mul c) f)
  | "add" => do
      let args ← getArr j "args"
      let fs ← args.toList.mapM (evalNof c)
      pure (fs.foldl Nof.add [])
  | "pow" => do
      let b ← evalNof c (← j.getObjVal? "base")
      let e ← j.getObjValAs? Nat "exp"
      pure (Nof.npow c b e)
  | "adj" => do pure (Nof.adjoint (← evalNof c (← j.getObjVal? "arg")))
  | "neg" => do pure (Nof.neg (← evalNof c (← j.getObjVal? "arg")))
  | o => throw s!"unknown op {o}"

def runNof (j : Json) : Except String String := do
  let ks ← getArr j "kinds"
  let kinds ← ks.toList.mapM fun k => do parseKind (← k.getStr?)
  let c : Nof.Ctx := ⟨kinds⟩
  let f ← evalNof c (← j.getObjVal? "expr")
  let sts ← getArr j "states"
  let outs ← sts.toList.mapM fun s => do
    match s with
    | .arr a => do
        let st ← a.toList.mapM fun x => x.getInt?
        let img := Nof.act c f st
        pure (String.intercalate ";" (img.map fun (t, a) =>
          String.intercalate "," (t.map toString) ++ ":" ++ a.toString))
    | _ => throw "state: array expected"
  pure (String.intercalate "|" outs)

/-! ### BlockSeries machine requests -/

namespace Mach
open Pyma.Machine

structure Dep where
  s : Nat
  flip : Bool      -- use the other finite index
  delta : Nat      -- order offset
  guard : Bool     -- test `in` first and skip when false
  pop : Bool       -- pop the element after reading it
  deriving Inhabited

structure Spec where
  base : Option Int          -- order-0 value; none = the zero sentinel
  deps : List Dep
  cb : Option Nat
  deriving Inhabited

def vsum (vs : List Val) : Val :=
  vs.foldl (fun acc v => match acc, v with
    | .zero, x => x
    | x, .zero => x
    | .num a, .num b => .num (a + b)) .zero

def userSem (cb : Nat) (args : List Val) : Val :=
  match vsum args with
  | .zero => .num cb
  | .num a => .num ((cb + 1) * a + cb)

/-- script of series `s` at index `[i, n]` -/
def script (specs : Array Spec) (s : Nat) (idx : List Nat) : Script Val :=
  match idx with
  | [i, n] =>
    let sp := specs.getD s default
    if n == 0 then
      match sp.base with
      | some b => .pure (.num (b + i))
      | none => .pure .zero
    else
      let rec go (ds : List Dep) (acc : List Val) : Script Val :=
        match ds with
        | [] =>
            match sp.cb with
            | some cb => .user cb acc.reverse fun v => .pure (vsum [v, .num n])
            | none => .pure (vsum (.num n :: acc.reverse))
        | d :: rest =>
            if d.delta > n then go rest acc else
            let tgt : List Nat := [if d.flip then 1 - i else i, n - d.delta]
            let readIt : Script Val := .get d.s tgt fun v =>
              if d.pop then .pop d.s tgt (go rest (v :: acc)) else go rest (v :: acc)
            if d.guard then .contains d.s tgt fun b => if b then readIt else go rest acc
            else readIt
      go sp.deps []
  | _ => .fail .index

def parseSpec (j : Json) : Except String Spec := do
  let base : Option Int ← match j.getObjVal? "base" with
    | .ok (.num n) => pure (some n.mantissa)
    | _ => pure none
  let deps ← (← getArr j "deps").toList.mapM fun d => do
    pure { s := ← d.getObjValAs? Nat "s", flip := ← d.getObjValAs? Bool "flip", delta := ← d.getObjValAs? Nat "delta",
           guard := ← d.getObjValAs? Bool "guard", pop := ← d.getObjValAs? Bool "pop" : Dep }
  let cb : Option Nat ← match j.getObjVal? "cb" with
    | .ok (.num n) => pure (some n.mantissa.toNat)
    | _ => pure none
  pure { base, deps, cb }

def showVal : Machine.Val → String
  | .zero => "zero"
  | .num n => toString n

def showErr : Machine.Err → String
  | .recursion => "E:recursion" | .wrapped => "E:wrapped" | .runtime _ => "E:runtime"
  | .user t => s!"E:user{t}" | .index => "E:index" | .fuel => "E:fuel"

def runMachine (j : Json) : Except String String := do
  let specs ← (← getArr j "series").mapM parseSpec
  let faults ← (← getArr j "faults").toList.mapM fun f => do
    let at_ ← f.getObjValAs? Nat "at"
    let kind ← f.getObjValAs? String "kind"
    pure (at_, kind)
  let sys : Sys Val := {
    defs := script specs
    isZero := fun v => v == .zero
    userSem := userSem
    fault := fun k => match faults.find? (·.1 == k) with
      | some (_, "runtime") => some (.runtime 0)
      | some (_, "user") => some (.user 0)
      | some (_, "base") => some (.user 1)
      | _ => none }
  let mut w : World Val := { cache := [], calls := 0, log := [] }
  let mut outs : List String := []
  for r in (← getArr j "requests").toList do
    let op ← r.getObjValAs? String "op"
    let s ← r.getObjValAs? Nat "s"
    let i ← r.getObjValAs? Nat "i"
    let n ← r.getObjValAs? Nat "n"
    match op with
    | "get" =>
        let (res, w') := getItem sys 100000 s [i, n] w
        w := w'
        outs := (match res with | .ok v => showVal v | .error e => showErr e) :: outs
    | "slice" =>   -- series[s][i, 0:n]: the library's multi-element request (`Machine.getMany`) over the positions in C order
        let (res, w') := getMany sys 100000 s ((List.range n).map fun m => [i, m]) w
        w := w'
        outs := (match res with | .error e => showErr e | .ok vs => "[" ++ String.intercalate "," (vs.map showVal) ++ "]") :: outs
    | "box" =>   -- series[s][:, 0:n]: all elements of the request in C order (first index outermost)
        let (res, w') := getMany sys 100000 s ((List.range 2).flatMap fun a => (List.range n).map fun m => [a, m]) w
        w := w'
        outs := (match res with | .error e => showErr e | .ok vs => "[" ++ String.intercalate "," (vs.map showVal) ++ "]") :: outs
    | "pop" => w := w.set s [i, n] none; outs := "ok" :: outs
    | "contains" =>
        let b := match w.get s [i, n] with | some (.val .zero) => false | _ => true
        outs := toString b :: outs
    | o => throw s!"unknown op {o}"
  let pend := w.cache.filter fun e => match e.2 with | .pending => true | _ => false
  let logStr := String.intercalate "," (w.log.map fun (s, i) => s!"{s}:{i}")
  pure (String.intercalate "|" outs.reverse ++ s!"#pending={pend.length}#calls={w.calls}#log={logStr}")

end Mach

/-! ### cauchy_dot_product requests -/

namespace Cau
open Pyma.Machine Pyma.Dsl

def parseSVal (d : Nat) (j : Json) : Except String (SVal GRat) :=
  match j with
  | .str "zero" => pure .zero
  | .str "one" => pure .one
  | other => do pure (.val (← parseMat d other))

def showS : SVal GRat → String
  | .zero => "zero" | .one => "one" | .val m => "val " ++ m.entriesToString

def runCauchy (j : Json) : Except String String := do
  let d ← j.getObjValAs? Nat "d"
  let herm ← j.getObjValAs? Bool "hermitian"
  let fs ← getArr j "factors"
  let k := fs.size
  -- factor tables and shapes
  let tables ← fs.mapM fun f => do
    (← getArr f "elems").toList.mapM fun e => do
      let idx ← natList (← getArr e "idx")
      let v ← parseSVal d (← e.getObjVal? "val")
      pure (idx, v)
  let cols ← fs.mapM fun f => f.getObjValAs? Nat "cols"
  -- series ids: 0..k-1 factors; k + t  =  product of the first t+2 factors
  let nprod := k - 1
  let defs : SId → Machine.Idx → Script (SVal GRat) := fun s idx =>
    if s < k then
      match (tables.getD s []).find? (·.1 == idx) with
      | some (_, v) => .pure v
      | none => .pure .zero
    else
      let t := s - k
      let first := if t == 0 then 0 else k + t - 1
      let second := t + 1
      let last := t + 1 == nprod
      let two := k == 2
      Cauchy.productScript s first second (cols.getD (if t == 0 then 0 else t) 0)
        (herm && last) (herm && last && two) idx
  let sys : Sys (SVal GRat) := { defs, isZero := SVal.isZeroS, userSem := fun _ _ => .zero, fault := fun _ => none }
  let mut w : World (SVal GRat) := { cache := [], calls := 0, log := [] }
  let mut outs : List String := []
  for r in (← getArr j "requests").toList do
    let idx ← natList (match r with | .arr a => a | _ => #[])
    let (res, w') := getItem sys 100000 (k + nprod - 1) idx w
    w := w'
    outs := (match res with | .ok v => showS v | .error e => Mach.showErr e) :: outs
  let logStr := String.intercalate "," ((w.log.filter fun e => e.1 < k).map fun (s, i) => s!"{s}:{i}")
  pure (String.intercalate "|" outs.reverse ++ "#log=" ++ logStr)

end Cau


/-! ## `proj`: the complement projector after a word of `T` / `H` / `C` operations, applied from the left or the right -/
namespace ProjCmd
open Pyma.Projector

def parseRect (j : Json) : Except String (Array (Array GRat)) := do
  match j with
  | .arr rows => rows.mapM fun r => do
      match r with
      | .arr xs => xs.mapM fun x => do parseGRat (← x.getStr?)
      | _ => throw "row: array expected"
  | _ => throw "matrix: array expected"

def entry (A : Array (Array GRat)) (a c : Nat) : GRat := (A.getD a #[]).getD c 0

def runProj (j : Json) : Except String String := do
  let n ← j.getObjValAs? Nat "n"
  let m ← j.getObjValAs? Nat "m"
  let R ← parseRect (← j.getObjVal? "R")
  let L ← parseRect (← j.getObjVal? "L")
  let word ← (← getArr j "word").toList.mapM fun w => w.getStr?
  let side ← j.getObjValAs? String "side"
  let X ← parseRect (← j.getObjVal? "X")
  let P0 : Proj GRat n m := ⟨entry R, entry L⟩
  let P ← word.foldlM (fun (P : Proj GRat n m) w => match w with
    | "T" => pure (transpose P) | "H" => pure (adjoint P) | "C" => pure (conjugate P)
    | w => throw s!"unknown operation {w}") P0
  if side == "left" then
    -- P @ X with X of shape n × k: `_apply` on every column
    let k := (X.getD 0 #[]).size
    let cols := (List.range k).map fun c => apply P (fun a => entry X a c)
    let rows := (List.range n).map fun a => String.intercalate ";" (cols.map fun col => GRat.toString (col a))
    pure (String.intercalate "|" rows)
  else if side == "right" then
    -- X @ P with X of shape k × n: `_apply_left` on the conjugated rows (what `rmatmat` does), conjugated back
    let rows := X.toList.map fun row =>
      let w := applyLeft P (fun a => Scalar.conj (row.getD a 0))
      String.intercalate ";" ((List.range n).map fun a => GRat.toString (Scalar.conj (w a)))
    pure (String.intercalate "|" rows)
  else throw s!"unknown side {side}"
end ProjCmd


/-! ## `validate`: the set-up time decision logic of `block_diagonalize` on a configuration of facts -/
namespace ValCmd
open Pyma.Validate

def getB (j : Json) (k : String) : Except String Bool := j.getObjValAs? Bool k

def parseMaskFacts (m : Json) : Except String (Nat × Bool × Bool × Bool) := do
  pure (← m.getObjValAs? Nat "block", ← getB m "is_array", ← getB m "symmetric", ← getB m "eliminates_degenerate")

def parseFDv (j : Json) : Except String Validate.FD := do
  match (← j.getObjValAs? String "kind") with
  | "empty" => pure .empty
  | "blocks" => do pure (.blocks (← natList (← getArr j "blocks")))
  | "bare" => do pure (.bare (← getB j "is_array") (← getB j "symmetric") (← getB j "eliminates_degenerate"))
  | "dict" => do pure (.dict (← (← getArr j "masks").toList.mapM parseMaskFacts))
  | k => throw s!"unknown fd kind {k}"

def parseZT : String → Except String ZeroTest
  | "zero" => pure .zero | "nonzero" => pure .nonzero | "unknown" => pure .unknown
  | s => throw s!"unknown zero test {s}"

def runValidate (j : Json) : Except String String := do
  let off ← (← getArr j "off").toList.mapM fun e => do
    pure ((← e.getObjValAs? Nat "i", ← e.getObjValAs? Nat "j"), ← parseZT (← e.getObjValAs? String "test"))
  let c : Config := {
    hermitian := ← getB j "hermitian", customSolver := ← getB j "custom_solver", legacySolver := ← getB j "legacy_solver",
    fd := ← parseFDv (← j.getObjVal? "fd"), vectors := ← getB j "vectors", pairForm := ← getB j "pair_form",
    biorthonormal := ← getB j "biorthonormal", implicit := ← getB j "implicit", blockedInput := ← getB j "blocked_input",
    symbolicH0 := ← getB j "symbolic_h0", directSolver := ← getB j "direct_solver", arrayVectors := ← getB j "array_vectors",
    nblocks := ← j.getObjValAs? Nat "nblocks", off := off, diagAllZero := ← getB j "diag_all_zero" }
  pure (match setup c with
    | .ok => "ok"
    | .valueError s => s!"ValueError:{s}"
    | .typeError s => s!"TypeError:{s}"
    | .notImplemented s => s!"NotImplementedError:{s}")
end ValCmd


/-! ## `kpm`: loop control of `kpm.greens_function` on a given sequence of residues -/
namespace KpmCmd
def runKpm (j : Json) : Except String String := do
  let atol ← parseRat (← j.getObjValAs? String "atol")
  let maxM ← j.getObjValAs? Nat "max_moments"
  let rs ← (← getArr j "residues").toList.mapM fun e => do
    pure (← e.getObjValAs? Nat "m", ← parseRat (← e.getObjValAs? String "r"))
  let resid : Nat → Rat := fun m => match rs.find? (·.1 == m) with | some (_, r) => r | none => 0
  let r := Pyma.Kpm.greens resid atol maxM 64
  pure s!"{match r.moments with | some k => toString k | none => "unbound"} {r.warned}"
end KpmCmd



/-! ## `prog`: an arbitrary program of the mini-language (as JSON) evaluated by the reference evaluator in a parametrised scope -/
namespace ProgCmd

partial def parseExpr (j : Json) : Except String Dsl.Expr := do
  let op ← j.getObjValAs? String "op"
  match op with
  | "ser" => do pure (.ser (← j.getObjValAs? String "x"))
  | "adj" => do pure (.adj (← j.getObjValAs? String "x"))
  | "zero" => pure .zero
  | "neg" => do pure (.neg (← parseExpr (← j.getObjVal? "e")))
  | "add" => do pure (.add (← parseExpr (← j.getObjVal? "a")) (← parseExpr (← j.getObjVal? "b")))
  | "sub" => do pure (.sub (← parseExpr (← j.getObjVal? "a")) (← parseExpr (← j.getObjVal? "b")))
  | "divInt" => do pure (.divInt (← parseExpr (← j.getObjVal? "e")) (← j.getObjValAs? Int "k"))
  | "callSer" => do pure (.callSer (← j.getObjValAs? String "f") (← j.getObjValAs? String "x"))
  | "callExpr" => do pure (.callExpr (← j.getObjValAs? String "f") (← parseExpr (← j.getObjVal? "e")))
  | "ite" => do
      let fj ← j.getObjVal? "flag"
      let s ← fj.getObjValAs? String "s"
      let fl : Dsl.Flag := if (← fj.getObjValAs? String "kind") == "indexed" then .indexed s else .name s
      pure (.ite fl (← parseExpr (← j.getObjVal? "t")) (← parseExpr (← j.getObjVal? "e")))
  | o => throw s!"unknown expression {o}"

def parseProg (j : Json) : Except String Dsl.Prog := do
  let series ← (← getArr j "series").toList.mapM fun sj => do
    let name ← sj.getObjValAs? String "name"
    let stj ← sj.getObjVal? "start"
    let start : Dsl.Start ← match (← stj.getObjValAs? String "kind") with
      | "none" => pure .none | "zero" => pure .zero | "one" => pure .one
      | "input" => do pure (.input (← stj.getObjValAs? String "x"))
      | k => throw s!"unknown start {k}"
    let body ← (← getArr sj "body").toList.mapM fun b => do
      match (← b.getObjValAs? String "kind") with
      | "marker" => do pure (Dsl.Stmt.marker (← b.getObjValAs? Bool "anti"))
      | "clause" => do
          let c : Dsl.Cond ← match (← b.getObjValAs? String "cond") with
            | "default" => pure .default | "diagonal" => pure .diagonal | "offdiagonal" => pure .offdiagonal | "lower" => pure .lower
            | k => throw s!"unknown condition {k}"
          pure (Dsl.Stmt.clause c (← parseExpr (← b.getObjVal? "expr")))
      | k => throw s!"unknown statement {k}"
    pure ({ name, start, body } : Dsl.SeriesDef)
  let products ← (← getArr j "products").toList.mapM fun pj => do
    let terms ← (← getArr pj "terms").toList.mapM fun t => t.getStr?
    pure ({ terms, hermitian := ← pj.getObjValAs? Bool "hermitian" } : Dsl.ProdDef)
  let outputs ← (← getArr j "outputs").toList.mapM fun t => t.getStr?
  pure { series, products, outputs }

def scaleMat (m : Mat GRat) (c : GRat) : Mat GRat := Mat.ofFn m.d fun a b => m.get a b * c

def runProg (j : Json) : Except String (List String) := do
  let prog ← parseProg (← j.getObjVal? "prog")
  let d ← j.getObjValAs? Nat "d"
  let blocks := (← natList (← getArr j "blocks")).toArray
  let nblocks ← j.getObjValAs? Nat "nblocks"
  let inputNames ← (← getArr j "input_names").toList.mapM fun t => t.getStr?
  let inputData ← (← getArr j "inputs").toList.mapM fun e => do
    pure ((← e.getObjValAs? String "name", ← natList (← getArr e "idx")), ← parseMat d (← e.getObjVal? "mat"))
  let flags ← (← getArr j "flags").toList.mapM fun e => do pure (← e.getObjValAs? String "name", ← e.getObjValAs? Bool "value")
  let iflags ← (← getArr j "iflags").toList.mapM fun e => do
    pure (← e.getObjValAs? String "name", ← (← getArr e "values").toList.mapM fun b => b.getBool?)
  let fns ← (← getArr j "fns").toList.mapM fun e => do
    pure (← e.getObjValAs? String "name", ← parseGRat (← e.getObjValAs? String "c1"), ← parseGRat (← e.getObjValAs? String "c2"))
  let offd : Option GRat ← match j.getObjVal? "offdiag" with
    | .ok (.str s) => do pure (some (← parseGRat s))
    | _ => pure none
  let blk : Nat → Nat := fun a => blocks.getD a 0
  let input : String → Idx → SVal GRat := fun h idx =>
    match inputData.find? (·.1 == (h, idx.i :: idx.j :: idx.n)) with
    | some (_, m) => .val m
    | none => .zero
  let fac : GRat → GRat → Idx → GRat := fun c1 c2 idx => c1 + c2 * GRat.ofRat (((idx.i + 2 * idx.j : Nat) : Int) : Rat)
  let env : Env GRat := {
    d, nblocks,
    blockOne := fun i => Mat.blockOne d fun a => blk a == i,
    input, inputs := inputNames,
    fn := fun f arg idx => match fns.find? (·.1 == f) with
      | none => throw (.scope s!"unknown function {f}")
      | some (_, c1, c2) =>
          let v : SVal GRat := match arg with
            | .inl x => input x idx           -- a series argument is indexed by the function itself (inputs only)
            | .inr v => v
          match v with
          | .zero => pure .zero
          | .one => throw .oneInArithmetic
          | .val m => pure (.val (scaleMat m (fac c1 c2 idx))),
    flagName := fun s => match flags.find? (·.1 == s) with | some (_, b) => b | none => false,
    flagIdx := fun s i => match iflags.find? (·.1 == s) with | some (_, l) => l.getD i false | none => false,
    diag := fun v _ => v,
    offdiag := offd.map fun c => fun v _ => match v with
      | .val m => .val (scaleMat m c)
      | w => w }
  let mut cache : Cache GRat := {}
  let mut out : List String := []
  for r in (← getArr j "requests").toList do
    let name ← r.getObjValAs? String "name"
    let i ← r.getObjValAs? Nat "i"
    let jj ← r.getObjValAs? Nat "j"
    let n ← natList (← getArr r "n")
    match getElem prog env 100000 name ⟨i, jj, n⟩ cache with
    | .ok (v, c) => cache := c; out := showVal env i v :: out
    | .error e => out := showErr e :: out
  pure out.reverse
end ProgCmd


/-! ## `keys`: key normalisation of Hamiltonian containers -/
namespace KeysCmd
def runKeys (j : Json) : Except String String := do
  match j.getObjVal? "labels" with
  | .ok (.arr a) =>
      let ls ← natList a
      pure (String.intercalate ";" ((Pyma.Formats.subspaces ls).map fun k => String.intercalate "," (k.map toString)))
  | _ =>
  match j.getObjVal? "list_len" with
  | .ok (.num n) =>
      let ks := Pyma.Formats.listKeys n.mantissa.toNat
      pure (String.intercalate ";" (ks.map fun k => String.intercalate "," (k.map toString)))
  | _ =>
    let keys ← (← getArr j "keys").toList.mapM fun kj => do
      (← getArr kj "factors").toList.mapM fun f => do pure (← f.getObjValAs? String "s", ← f.getObjValAs? Nat "e")
    let (syms, tuples) := Pyma.Formats.keysToTuples keys
    pure (String.intercalate "," syms ++ "|" ++ String.intercalate ";" (tuples.map fun k => String.intercalate "," (k.map toString)))
end KeysCmd

/-! ## `taylor`: the Taylor term of a polynomial entry as `_sympy_to_BlockSeries` computes it -/
namespace TaylorCmd
def showRat (q : Rat) : String := s!"{q.num}/{q.den}"
def runTaylor (j : Json) : Except String String := do
  let ms ← (← getArr j "monomials").toList.mapM fun e => do
    pure (← natList (← getArr e "exp"), ← parseRat (← e.getObjValAs? String "coef"))
  let idxs ← (← getArr j "indices").toList.mapM fun e => match e with
    | .arr a => natList a
    | _ => throw "index: array expected"
  let c := Pyma.Taylor.ofMonomials ms
  pure (String.intercalate "|" (idxs.map fun n => showRat (Pyma.Taylor.term c n)))
end TaylorCmd

/-! ## `index`: `BlockSeries.__getitem__` item resolution (NumPy rules + trial array) -/
namespace IndexCmd
open Pyma.Index
def optInt (j : Json) : Except String (Option Int) := match j with
  | .null => pure none
  | _ => do pure (some (← j.getInt?))
def parseAx (j : Json) : Except String Ax := do
  match j.getObjVal? "int" with
  | .ok v => pure (.int (← v.getInt?))
  | _ => match j.getObjVal? "list" with
    | .ok (.arr a) => pure (.list (← a.toList.mapM fun e => e.getInt?))
    | _ => match j.getObjVal? "slice" with
      | .ok (.arr a) =>
          match a.toList with
          | [x, y, z] => do
              let st ← optInt z
              pure (.slice (← optInt x) (← optInt y) (match st with | none => 1 | some v => v.toNat))
          | _ => throw "slice: three entries expected"
      | _ => throw "index entry: int, list or slice expected"
def showIdx (l : List Nat) : String := String.intercalate "," (l.map toString)
def showErr : Pyma.Index.Err → String | .index => "err index" | .other => "err other"
def runIndex (j : Json) : Except String String := do
  let shape ← natList (← getArr j "shape")
  let item ← (← getArr j "item").toList.mapM parseAx
  match j.getObjVal? "dense" with
  | .ok (.arr d) =>                       -- plain NumPy indexing of an array of the given dimensions
      match select (← natList d) item with
      | .ok r => pure s!"ok {showIdx r.shape}|{String.intercalate ";" (r.sources.map showIdx)}"
      | .error e => pure (showErr e)
  | _ =>
    match j.getObjVal? "view" with
    | .ok (.arr o) =>                     -- a view (item on the finite dimensions) read at the orders `o`
        match view shape item (← natList o) with
        | .ok r => pure s!"ok {showIdx r.shape}|{String.intercalate ";" (r.sources.map showIdx)}|{String.intercalate ";" (r.evaluated.map showIdx)}"
        | .error e => pure (showErr e)
    | _ =>
    let ninf ← j.getObjValAs? Nat "ninf"
    match getitem shape ninf item with
    | .ok r => pure s!"ok {showIdx r.shape}|{String.intercalate ";" (r.sources.map showIdx)}|{String.intercalate ";" (r.evaluated.map showIdx)}"
    | .error e => pure (showErr e)
end IndexCmd

partial def loop (h : IO.FS.Stream) : IO Unit := do
  let line ← h.getLine
  if line.isEmpty then return ()
  if line.trim.isEmpty then loop h else
  match Json.parse line with
  | .error e => IO.println s!"bad-json {e}"
  | .ok j =>
    match j.getObjValAs? String "cmd" with
    | .ok "bd" =>
      match runBD j with
      | .ok ls => IO.println (String.intercalate "|" ls)
      | .error e => IO.println s!"bad-request {e}"
    | .ok "cauchy" =>
      match Cau.runCauchy j with
      | .ok l => IO.println l
      | .error e => IO.println s!"bad-request {e}"
    | .ok "machine" =>
      match Mach.runMachine j with
      | .ok l => IO.println l
      | .error e => IO.println s!"bad-request {e}"
    | .ok "nof" =>
      match runNof j with
      | .ok l => IO.println l
      | .error e => IO.println s!"bad-request {e}"
    | .ok "prog" =>
      match ProgCmd.runProg j with
      | .ok ls => IO.println (String.intercalate "|" ls)
      | .error e => IO.println s!"bad-request {e}"
    | .ok "index" =>
      match IndexCmd.runIndex j with
      | .ok l => IO.println l
      | .error e => IO.println s!"bad-request {e}"
    | .ok "keys" =>
      match KeysCmd.runKeys j with
      | .ok l => IO.println l
      | .error e => IO.println s!"bad-request {e}"
    | .ok "taylor" =>
      match TaylorCmd.runTaylor j with
      | .ok l => IO.println l
      | .error e => IO.println s!"bad-request {e}"
    | .ok "kpm" =>
      match KpmCmd.runKpm j with
      | .ok l => IO.println l
      | .error e => IO.println s!"bad-request {e}"
    | .ok "validate" =>
      match ValCmd.runValidate j with
      | .ok l => IO.println l
      | .error e => IO.println s!"bad-request {e}"
    | .ok "proj" =>
      match ProjCmd.runProj j with
      | .ok l => IO.println l
      | .error e => IO.println s!"bad-request {e}"
    | _ => IO.println "bad-cmd"
  (← IO.getStdout).flush
  loop h

def main : IO Unit := do loop (← IO.getStdin)
