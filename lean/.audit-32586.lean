import PymaVerif.Props.C01
import PymaVerif.Proofs.Accepted
import PymaVerif.Proofs.MainOpt
import PymaVerif.Proofs.DriverSound
import PymaVerif.Proofs.CompiledOk
import PymaVerif.Proofs.Witness
#print axioms Pyma.Props.C01_similarity
#print axioms Pyma.Props.C01_eliminated
#print axioms Pyma.Props.C01_driver_sound
#print axioms Pyma.Props.C01_driver_total
#print axioms Pyma.BlockDiag.Problem.C01
#print axioms Pyma.BlockDiag.Problem.C01_elim
#print axioms Pyma.BlockDiag.Problem.C01_opt
#print axioms Pyma.BlockDiag.Problem.driver_sound
#print axioms Pyma.Dsl.getElem_sound
#print axioms Pyma.BlockDiag.Problem.w3_accepted
