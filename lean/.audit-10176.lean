import PymaVerif.Props.C03
import PymaVerif.Proofs.MainUnique
import PymaVerif.Proofs.CoreU
import PymaVerif.Proofs.Accepted
#print axioms Pyma.Props.C03_gauge
#print axioms Pyma.Props.C03_defining_equations
#print axioms Pyma.Props.C03_unique
#print axioms Pyma.Props.C03_computed_meets_conditions
#print axioms Pyma.BlockDiag.Problem.C03
#print axioms Pyma.BlockDiag.Problem.C03_gauge
#print axioms Pyma.BlockDiag.Problem.C03_unique
#print axioms Pyma.TheoremU.unique
