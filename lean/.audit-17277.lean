import PymaVerif.Props.C08
import PymaVerif.Proofs.NofFermion
import PymaVerif.Proofs.NofAdjoint
import PymaVerif.Proofs.NofAssoc
import PymaVerif.Proofs.NofRoundTrip
import PymaVerif.Proofs.NofSpecEq
#print axioms Pyma.Props.C08_product_monomial
#print axioms Pyma.Props.C08_product
#print axioms Pyma.Props.C08_associative
#print axioms Pyma.Props.C08_distributive
#print axioms Pyma.Props.C08_sum
#print axioms Pyma.Props.C08_neg
#print axioms Pyma.Props.C08_unit
#print axioms Pyma.Props.C08_power
#print axioms Pyma.Props.C08_adjoint
#print axioms Pyma.Props.C08_adjoint_reverses_products
#print axioms Pyma.Props.C08_from_expr_roundtrip
#print axioms Pyma.Props.C08_invariant_mul
#print axioms Pyma.Props.C08_invariant_add
#print axioms Pyma.Props.C08_invariant_adjoint
#print axioms Pyma.Props.C08_invariant_npow
#print axioms Pyma.Props.C08_driver_action
#print axioms Pyma.Nof.rep_mul3
#print axioms Pyma.Nof.rep_adjoint
#print axioms Pyma.Nof.adjoint_mul
#print axioms Pyma.Nof.rep_mul_assoc
#print axioms Pyma.Nof.rep_mul_add
#print axioms Pyma.Nof.rep_add_mul
#print axioms Pyma.Nof.rep_npow_succ
#print axioms Pyma.Nof.roundtrip
