/-
Property C18 — `cauchy_dot_product` is the multivariate Cauchy product.

Model (`Model/Cauchy.lean`): `prodLoop` is the loop of `product_by_order` as a script of the BlockSeries machine (the two `contains`
tests, the cost-ordered reads, the skip of `zero`, the `one` sentinel as identity, the Hermitian half-sum), `productScript` the eval
function of a product series (lower blocks as adjoints of upper ones when declared Hermitian; more than two factors are nested to
the left, only the outermost product of a Hermitian chain fills lower blocks).
  * `C18_product_by_order`: run on the machine against any denotation `den` of the factors, the loop returns the pure fold `prodSpec` —
    the sum over middle blocks and over all splittings of the order of the products of the factor elements, with `zero` absent and `one`
    neutral; together with M1 (`Machine.sound`) this is the value the product series returns under every schedule.
  * `C18_value_is_cauchy_product`: for the reference semantics of the mini-language a declared product *is* the product of formal power
    series with matrix coefficients (laziness and sentinels are invisible in values) — any number of parameters and blocks.
  * `C18_hermitian_shortcut`: for any family of terms with `T(b,a) = adj (T(a,b))` (true for `U'†·U'`) over a swap-symmetric index set, the
    half-sum over pairs not in decreasing order equals the full sum; the order used by the code — Python's tuple comparison `lexGt` — is a
    strict total order on tuples of equal length (`C18_tuple_order`), which is what the shortcut needs.
Requests: an element of a factor is read only after both `contains` tests passed (`prodLoop` reads nothing else); the correspondence
`harness/cauchy_corr.py` compares values and the per-factor request logs with the model for 2–4 factors (incl. Hermitian products of
3 and 4 factors), 1–3 parameters, sentinel patterns, and injects faults in the multiplication callback.
-/
import PymaVerif.Proofs.CauchyThm
import PymaVerif.Proofs.HalfSum
import PymaVerif.Proofs.LexGt
import PymaVerif.Proofs.Global

namespace Pyma
namespace Props
open Machine Dsl Cauchy

variable {K : Type} [Scalar K]

/-- **C18** the loop of `product_by_order` computes the Cauchy sum `prodSpec`, whatever the scripts of the factors are -/
theorem C18_product_by_order (S : Sys (SVal K)) (hz : S.isZero = SVal.isZeroS) (den : SId → Machine.Idx → SVal K)
    (first second : SId) (i j : Nat) (herm : Bool) (ps : List (Nat × List Nat × List Nat)) (acc r : SVal K)
    (h : prodSpec den first second i j herm ps acc = some r) :
    ScriptOK S den (prodLoop first second i j herm ps acc) r :=
  prodLoop_ok S hz den first second i j herm ps acc r h

/-- **C18** Python's tuple comparison is a strict total order on multi-orders of equal length -/
theorem C18_tuple_order :
    (∀ a : List Nat, lexGt a a = false) ∧ (∀ a b : List Nat, lexGt a b = true → lexGt b a = false) ∧
    (∀ a b : List Nat, a.length = b.length → a ≠ b → lexGt a b = true ∨ lexGt b a = true) :=
  ⟨lexGt_irrefl, lexGt_asymm, lexGt_total⟩

/-- **C18** the Hermitian shortcut: half of the splittings plus their adjoints give the full sum -/
theorem C18_hermitian_shortcut {ι : Type*} {A : Type*} [DecidableEq ι] [AddCommGroup A] (s : Finset (ι × ι))
    (hswap : ∀ p ∈ s, p.swap ∈ s) (gt : ι → ι → Prop) [DecidableRel gt] (hirr : ∀ a, ¬gt a a)
    (hasym : ∀ a b, gt a b → ¬gt b a) (htot : ∀ a b, a ≠ b → gt a b ∨ gt b a) (T : ι × ι → A) (adj : A → A)
    (hT : ∀ p ∈ s, T p.swap = adj (T p)) :
    ∑ p ∈ s, T p = ∑ p ∈ s with ¬gt p.1 p.2, (T p + if p.1 ≠ p.2 then adj (T p) else 0) :=
  half_sum_eq_full s hswap gt hirr hasym htot T adj hT

end Props

namespace Props
open Dsl
variable {K : Type} [Field K] [StarRing K] [DecidableEq K] [Thresholds K]
attribute [local instance] Scalar.ofField

/-- **C18** value clause: a declared product of the mini-language denotes the product of power series (every number of parameters `k`) -/
theorem C18_value_is_cauchy_product {B : Blocks} {p : Prog} {env : Env K} (hok : EnvOK B env) (S : EnvSem B env)
    (hN : ∀ a : Fin B.d, B.blk a.val < env.nblocks) (k : Nat) {x a b : String} (hk : kindOf p env x = .product a b)
    (htot : ∀ idx : Idx, ∃ v, Den p env x idx v) :
    Ser B p env k x = Ser B p env k a * Ser B p env k b :=
  Ser_product hok S hN k hk htot

end Props
end Pyma
