/-
Property C15 — covariance under relabelling, degenerate rotation, shift, conjugation, (scaling, direct sums).

Two generic tools carry it, neither of which reasons about upper/lower blocks, first/last block or block 0:
  * transport through uniqueness (`C13_transport`, C03): instance `C15_shift` — two accepted problems whose Hamiltonians differ by `c·1` (real `c`) and keep
    the same entries have the same `U` (so `H̃` differs by `c·1` at order zero only);
  * ring-level naturality of the reference semantics (`sem_natural`): for every certified program, an additive, multiplicative, adjoint-preserving map `Φ`
    that commutes with inputs, solver and masks maps every element of every series of one run to that of the other.  Instances:
    `C15_conjugation` (entrywise complex conjugation of the Hamiltonian conjugates every series; real unperturbed energies) and
    `C15_rotation` (`X ↦ W†XW` for a unitary `W` mixing only states of the same block, the same unperturbed energy and the same keep/eliminate
    status: rotation inside degenerate levels, permutation of such states, relabelling inside a block).
Relabelling of *blocks*, positive scaling of the whole Hamiltonian and direct sums are not yet instantiated in Lean (scaling by `s > 0` is not a ring map: it
is checked on the defining equations; direct sums need a block-diagonal embedding) — for them the property rests on the generic theorems plus the
correspondence `harness/covar_corr.py`, which checks all the relations between pairs of real runs.  PARTIAL in that sense.
-/
import PymaVerif.Proofs.Covariance
import PymaVerif.Proofs.Conjugation
import PymaVerif.Proofs.Rotation

namespace Pyma
namespace Props
open Dsl Generated MvPowerSeries BlockDiag BlockDiag.Problem

variable {K : Type} [Field K] [StarRing K] [DecidableEq K] [Thresholds K]
attribute [local instance] Scalar.ofField

/-- **C15** shift: `H ↦ H + c·1` leaves `U` unchanged -/
theorem C15_shift [LawfulThresholds K] (p : Problem K) (ts : List (List ℕ × Mat K)) (hp : p.Accepted) (hq : (p.withTerms ts).Accepted)
    (h2 : (2 : K) ≠ 0) (c : K) (hc : star c = c)
    (hkept : ∀ a b : Fin p.d, (p.withTerms ts).keptE a.val b.val = p.keptE a.val b.val)
    (hH : p.sr "H" = (p.withTerms ts).sr "H" + p.scalarS c) :
    p.sr "U'" = (p.withTerms ts).sr "U'" :=
  Problem.C15_shift p ts hp hq h2 c hc hkept hH

/-- **C15** complex conjugation of the Hamiltonian conjugates every element of every series of `main` -/
theorem C15_conjugation (p : Problem K) (ts : List (List ℕ × Mat K)) (hwf : p.WF) (hwf' : (p.withTerms ts).WF) (hns : p.NoShared)
    (hns' : (p.withTerms ts).NoShared) (hen : ∀ a : ℕ, (p.withTerms ts).energy a = p.energy a)
    (hreal : ∀ a : ℕ, star (p.energy a) = p.energy a)
    (habs : ∀ (x : K) (t : ℚ), Thresholds.absGt (star x) t = Thresholds.absGt x t)
    (hin : ∀ idx : Idx, sem (p.withTerms ts).blocks idx ((p.withTerms ts).inputH idx) = p.conjM ts (sem p.blocks idx (p.inputH idx)))
    (x : String) (hx : x ∈ mainNames) (idx : Idx) :
    mat (p.withTerms ts).blocks main (p.withTerms ts).env x idx = p.conjM ts (mat p.blocks main p.env x idx) :=
  Problem.C15_conjugation p ts hwf hwf' hns hns' hen hreal habs hin x hx idx

/-- **C15** a unitary that only mixes states of the same block, unperturbed energy and keep/eliminate status rotates every series -/
theorem C15_rotation (p : Problem K) (ts : List (List ℕ × Mat K)) (hwf : p.WF) (hwf' : (p.withTerms ts).WF) (hns : p.NoShared)
    (hns' : (p.withTerms ts).NoShared) (W : MatK K p.blocks) (hW : p.Compatible W)
    (hen : ∀ a : ℕ, (p.withTerms ts).energy a = p.energy a)
    (hin : ∀ idx : Idx, sem (p.withTerms ts).blocks idx ((p.withTerms ts).inputH idx) = p.rotM ts W (sem p.blocks idx (p.inputH idx)))
    (x : String) (hx : x ∈ mainNames) (idx : Idx) :
    mat (p.withTerms ts).blocks main (p.withTerms ts).env x idx = p.rotM ts W (mat p.blocks main p.env x idx) :=
  Problem.C14_rotation p ts hwf hwf' hns hns' W hW hen hin x hx idx

end Props
end Pyma
