/-
Property C15 — covariance under relabelling, degenerate rotation, shift, conjugation, (scaling, direct sums).

Two generic tools carry it, neither of which reasons about upper/lower blocks, first/last block or block 0:
  * transport through uniqueness (`C13_transport`, C03): instance `C15_shift` — two accepted problems whose Hamiltonians differ by `c·1` (real `c`) and keep
    the same entries have the same `U` (so `H̃` differs by `c·1` at order zero only);
  * ring-level naturality of the reference semantics (`sem_natural`): for every certified program, an additive, multiplicative, adjoint-preserving map `Φ`
    that commutes with inputs, solver and masks maps every element of every series of one run to that of the other.  Instances:
    `C15_conjugation` (entrywise complex conjugation of the Hamiltonian conjugates every series; real unperturbed energies) and
    `C15_rotation` (`X ↦ W†XW` for a unitary `W` mixing only states of the same block, the same unperturbed energy and the same keep/eliminate
    status: rotation inside degenerate levels, permutation of such states, relabelling inside a block).
  * `C15_same_pattern`, `C15_relabel`: `U` depends on the problem only through the Hamiltonian series and the *set of kept entries* — two accepted problems on the
    same states with any block labels, number of blocks, form of `fully_diagonalize` (indices or masks) and tolerance, the same Hamiltonian (up to `c·1`) and the same
    kept entries have the same `U`: relabelling or regrouping blocks, describing the same elimination pattern differently;
  * `C15_scale_whole`: `H ↦ s·H` leaves `U` unchanged (checked on the defining equations: scaling is not a ring map) — hence `H̃ ↦ s·H̃`.
Permutation of basis states across blocks and direct sums are not instantiated in Lean (they change the index type / need a block-diagonal embedding); for them the
property rests on the generic theorems plus the correspondence `harness/covar_corr.py`, which checks all the relations between pairs of real runs.  PARTIAL in that sense.
-/
import PymaVerif.Proofs.Covariance
import PymaVerif.Proofs.Conjugation
import PymaVerif.Proofs.Rotation
import PymaVerif.Proofs.Covariance4
import PymaVerif.Proofs.Witness

namespace Pyma
namespace Props
open Dsl Generated MvPowerSeries BlockDiag BlockDiag.Problem

variable {K : Type} [Field K] [StarRing K] [DecidableEq K] [Thresholds K]
attribute [local instance] Scalar.ofField

/-- **C15** shift: `H ↦ H + c·1` leaves `U` unchanged -/
theorem C15_shift [LawfulThresholds K] (p : Problem K) (ts : List (List ℕ × Mat K)) (hp : p.Accepted) (hq : (p.withTerms ts).Accepted)
    (h2 : (2 : K) ≠ 0) (c : K) (hc : star c = c)
    (hkept : ∀ a b : Fin p.d, (p.withTerms ts).keptE a.val b.val = p.keptE a.val b.val)
    (hH : p.sr "H" = (p.withTerms ts).sr "H" + p.scalarS c) :
    p.sr "U'" = (p.withTerms ts).sr "U'" :=
  Problem.C15_shift p ts hp hq h2 c hc hkept hH

/-- **C15** complex conjugation of the Hamiltonian conjugates every element of every series of `main` -/
theorem C15_conjugation (p : Problem K) (ts : List (List ℕ × Mat K)) (hwf : p.WF) (hwf' : (p.withTerms ts).WF) (hns : p.NoShared)
    (hns' : (p.withTerms ts).NoShared) (hen : ∀ a : ℕ, (p.withTerms ts).energy a = p.energy a)
    (hreal : ∀ a : ℕ, star (p.energy a) = p.energy a)
    (habs : ∀ (x : K) (t : ℚ), Thresholds.absGt (star x) t = Thresholds.absGt x t)
    (hin : ∀ idx : Idx, sem (p.withTerms ts).blocks idx ((p.withTerms ts).inputH idx) = p.conjM ts (sem p.blocks idx (p.inputH idx)))
    (x : String) (hx : x ∈ mainNames) (idx : Idx) :
    mat (p.withTerms ts).blocks main (p.withTerms ts).env x idx = p.conjM ts (mat p.blocks main p.env x idx) :=
  Problem.C15_conjugation p ts hwf hwf' hns hns' hen hreal habs hin x hx idx

/-- **C15** a unitary that only mixes states of the same block, unperturbed energy and keep/eliminate status rotates every series -/
theorem C15_rotation (p : Problem K) (ts : List (List ℕ × Mat K)) (hwf : p.WF) (hwf' : (p.withTerms ts).WF) (hns : p.NoShared)
    (hns' : (p.withTerms ts).NoShared) (W : MatK K p.blocks) (hW : p.Compatible W)
    (hen : ∀ a : ℕ, (p.withTerms ts).energy a = p.energy a)
    (hin : ∀ idx : Idx, sem (p.withTerms ts).blocks idx ((p.withTerms ts).inputH idx) = p.rotM ts W (sem p.blocks idx (p.inputH idx)))
    (x : String) (hx : x ∈ mainNames) (idx : Idx) :
    mat (p.withTerms ts).blocks main (p.withTerms ts).env x idx = p.rotM ts W (mat p.blocks main p.env x idx) :=
  Problem.C14_rotation p ts hwf hwf' hns hns' W hW hen hin x hx idx

/-- **C15** the transformation depends only on the Hamiltonian (up to `c·1`) and on the set of kept entries -/
theorem C15_same_pattern [LawfulThresholds K] (p : Problem K) (ts : List (List ℕ × Mat K)) (bo : Array ℕ) (nb : ℕ) (fd : FD) (at_ : ℚ)
    (hp : p.Accepted) (hq : (p.reshape ts bo nb fd at_).Accepted) (h2 : (2 : K) ≠ 0) (c : K)
    (hkept : ∀ a b : Fin p.d, (p.reshape ts bo nb fd at_).keptE a.val b.val = p.keptE a.val b.val)
    (hH : p.sr "H" = (p.reshape ts bo nb fd at_).sr "H" + p.scalarS c) :
    p.sr "U'" = (p.reshape ts bo nb fd at_).sr "U'" :=
  Problem.C15_same_pattern p ts bo nb fd at_ hp hq h2 c hkept hH

/-- **C15** relabelling / regrouping blocks -/
theorem C15_relabel [LawfulThresholds K] (p : Problem K) (ts : List (List ℕ × Mat K)) (bo : Array ℕ) (nb : ℕ) (fd : FD) (at_ : ℚ)
    (hp : p.Accepted) (hq : (p.reshape ts bo nb fd at_).Accepted) (h2 : (2 : K) ≠ 0)
    (hkept : ∀ a b : Fin p.d, (p.reshape ts bo nb fd at_).keptE a.val b.val = p.keptE a.val b.val)
    (hH : p.sr "H" = (p.reshape ts bo nb fd at_).sr "H") :
    p.sr "U'" = (p.reshape ts bo nb fd at_).sr "U'" :=
  Problem.C15_relabel p ts bo nb fd at_ hp hq h2 hkept hH

/-- **C15** scaling the whole Hamiltonian leaves `U` unchanged -/
theorem C15_scale_whole [LawfulThresholds K] (p : Problem K) (ts : List (List ℕ × Mat K)) (bo : Array ℕ) (nb : ℕ) (fd : FD) (at_ : ℚ)
    (hp : p.Accepted) (hq : (p.reshape ts bo nb fd at_).Accepted) (h2 : (2 : K) ≠ 0) (s : K)
    (hkept : ∀ a b : Fin p.d, (p.reshape ts bo nb fd at_).keptE a.val b.val = p.keptE a.val b.val)
    (hH : (p.reshape ts bo nb fd at_).sr "H" = p.scalarS s * p.sr "H") :
    (p.reshape ts bo nb fd at_).sr "U'" = p.sr "U'" :=
  Problem.C15_scale_whole p ts bo nb fd at_ hp hq h2 s hkept hH

/-! non-vacuity: the three-block witness `w3` with its blocks relabelled `0,1,2 ↦ 2,0,1` -/
def w3r : Problem ℚ := w3.reshape w3.terms #[2, 0, 1] 3 .none w3.atol

theorem w3r_accepted : w3r.Accepted where
  wf := by decide
  blocks_lt := by decide
  atol_nonneg := by decide +kernel
  herm := by decide
  h0_diag := by decide
  elim_symm := by decide
  diag_kept := by decide
  gap := by decide +kernel
  comm_trans := by decide
  no_shared := by decide

example : w3.sr "U'" = w3r.sr "U'" := by
  apply C15_relabel w3 w3.terms #[2, 0, 1] 3 .none w3.atol w3_accepted w3r_accepted (by norm_num)
  · decide +kernel
  · ext m a b
    have h1 : coeff m (w3.sr "H") a b = _ := g_H w3_accepted.wf (toList m) a b
    have h2 : coeff m (w3r.sr "H") a b = _ := g_H (p := w3r) w3r_accepted.wf (toList m) a b
    exact h1.trans h2.symm

end Props
end Pyma
