/-
Property C16 — Sylvester and Green's-function solvers return solutions of their equations.

  * `C16_diagonal`: the model of `solve_sylvester_diagonal` (`Problem.solveSem`, exact arithmetic; the dense, sparse and symbolic branches are
    the same rule, tied by `harness/solver_corr.py` and the carrier variants of `harness/bd_corr.py`) satisfies `H_0 V − V H_0 = Y` on every entry of
    the block pair whose energies differ by more than `atol`, and vanishes elsewhere.
  * `C16_direct_greens_function`: linear algebra over any field with involution.  `A = E − H`, right / left kernel bases `K`, `L` with
    `L†K = 1`, `P = 1 − K L†`, a pivot set `piv` on which the left kernel is injective (`w` supported on `piv` with `L†w = 0` is zero), `Ã` = `A`
    with the rows in `piv` replaced by unit rows: if `Ã z = (P v)` with the `piv` entries zeroed, then `x = P z` solves `A x = P v` and lies in the
    range of `P`.  The theorem holds for ANY admissible pivot set; SciPy's pivoted QR is trusted to return one (tested).  This is the statement the
    repaired code implements (defect D10: equations dropped where the *left* kernel has full rank).
  * `C16_second_quantized`: the model of `solve_scalar` (with `_cancel_binary_operator_numbers`) satisfies `H_ii·X − X·H_jj = Y` as kernels on
    occupation states wherever the denominators do not vanish — an operator identity, corollary of the product theorem of C08.
  * `C16_kpm_*`: control flow of `kpm.greens_function`: it terminates, returns a solution whose residue is within the requested accuracy, or
    issues the convergence warning (then the accuracy was not reached).  Chebyshev/Jackson convergence itself is numerical and not modelled:
    `resid` is a parameter; `harness/kpm_corr.py` feeds the model the recomputed residues and checks the defining equation on the real output.
  * sparse LU / MUMPS, grouping of close energies in `solve_sylvester_direct`, projections in the implicit block: correspondence only
    (`harness/implicit_corr.py`: both orientations of the implicit block, degenerate and biorthogonal explicit levels, real/complex).
-/
import PymaVerif.Proofs.SylvesterThm
import PymaVerif.Proofs.GreensThm
import PymaVerif.Proofs.NofSylvester
import PymaVerif.Proofs.KpmThm

namespace Pyma
namespace Props

section diagonal
open Dsl BlockDiag BlockDiag.Problem
variable {K : Type} [Field K] [StarRing K] [DecidableEq K] [Thresholds K]
attribute [local instance] Scalar.ofField

/-- **C16** diagonal solver: `H_0 V − V H_0 = Y` entrywise on the block pair where `|E_a − E_b| > atol`, zero elsewhere -/
theorem C16_diagonal (p : Problem K) (hne : ∀ (x : K) (t : ℚ), Thresholds.absGt x t = true → x ≠ 0)
    (M : MatK K p.blocks) (idx : Idx) (a b : Fin p.d) :
    (p.H0m * p.solveSem M idx - p.solveSem M idx * p.H0m) a b =
      if p.inBlock idx.i idx.j a.val b.val = true ∧ Thresholds.absGt (p.energy a.val - p.energy b.val) p.atol = true then M a b
      else 0 :=
  p.solveSem_sylvester hne M idx a b
end diagonal

section direct
variable {K : Type} [Field K] [StarRing K] {n m : Type} [Fintype n] [Fintype m] [DecidableEq n] [DecidableEq m]

/-- **C16** `direct_greens_function`: the constrained solve returns the solution of `(E − H) x = P v` that lies in the range of `P` -/
theorem C16_direct_greens_function (A : Matrix n n K) (Kv Lv : Matrix n m K) (piv : n → Prop) [DecidablePred piv]
    (hK : A * Kv = 0) (hL : Lv.conjTranspose * A = 0) (hbi : Lv.conjTranspose * Kv = 1)
    (hpiv : ∀ w : n → K, (∀ r, ¬piv r → w r = 0) → Lv.conjTranspose.mulVec w = 0 → w = 0)
    (v z : n → K)
    (hz : (Greens.constrain A piv).mulVec z = fun r => if piv r then 0 else (1 - Kv * Lv.conjTranspose).mulVec v r) :
    A.mulVec ((1 - Kv * Lv.conjTranspose).mulVec z) = (1 - Kv * Lv.conjTranspose).mulVec v ∧
    (1 - Kv * Lv.conjTranspose).mulVec ((1 - Kv * Lv.conjTranspose).mulVec z) = (1 - Kv * Lv.conjTranspose).mulVec z :=
  Greens.direct_solve A Kv Lv piv hK hL hbi hpiv v z hz
omit [StarRing K] in
/-- **C16** the direct solver, right-implicit orientation `(i, B)`: the rows it solves one by one (constrained solves of the transposed problem
for the levels `e a`) assemble to a solution of `E_i V − V H_0 = Y P` that lies in the range of the projector — for any `H_0`, any `P` -/
theorem C16_direct_right_implicit {α : Type} [Fintype α] [DecidableEq α] (H P : Matrix n n K) (e : α → K) (x y : α → n → K)
    (hsolve : ∀ a, (e a • (1 : Matrix n n K) - H.transpose).mulVec (x a) = P.transpose.mulVec (y a))
    (hrange : ∀ a, P.transpose.mulVec (x a) = x a) :
    Matrix.diagonal e * Matrix.of x - Matrix.of x * H = Matrix.of y * P ∧ Matrix.of x * P = Matrix.of x :=
  Greens.rows_assemble H P e x y hsolve hrange

omit [StarRing K] in
/-- **C16** the direct solver, left-implicit orientation `(B, i)`: the columns assemble to a solution of `H_0 V − V E_i = P Y` in the range -/
theorem C16_direct_left_implicit {α : Type} [Fintype α] [DecidableEq α] (H P : Matrix n n K) (e : α → K) (x y : α → n → K)
    (hsolve : ∀ a, (H - e a • (1 : Matrix n n K)).mulVec (x a) = P.mulVec (y a))
    (hrange : ∀ a, P.mulVec (x a) = x a) :
    H * (Matrix.of x).transpose - (Matrix.of x).transpose * Matrix.diagonal e = P * (Matrix.of y).transpose ∧
      P * (Matrix.of x).transpose = (Matrix.of x).transpose :=
  Greens.cols_assemble H P e x y hsolve hrange
end direct

section secondquant
open Nof
/-- **C16** second-quantised solver: `H_ii·X − X·H_jj = Y` as operators on occupation states -/
theorem C16_second_quantized (c : Ctx) (hl : FermionsLast c) (hi hj : Occ → GRat) (Y : Form) (hY : WF2 c Y) (s s'' : Occ)
    (hs : Valid c s) (hden : ∀ t ∈ Y, annAmp c t s ≠ 0 → hi (tgt t s) - hj s ≠ 0) :
    ampF' c (mul c (numberForm c hi) (solveScalar c hi hj Y)) s s'' - ampF' c (mul c (solveScalar c hi hj Y) (numberForm c hj)) s s''
      = ampF' c Y s s'' :=
  solveScalar_spec c hl hi hj Y hY s s'' hs hden
end secondquant

section kpm
open Kpm
/-- **C16** KPM: for every `max_moments ≥ 1` the call returns a solution; without warning its residue is within `atol`, with the warning it is
not; the loop terminates (`max_moments` iterations always suffice) -/
theorem C16_kpm_accuracy_or_warning (resid : Nat → Rat) (atol : Rat) (maxM : Nat) (h1 : 1 ≤ maxM) :
    ∃ k, (greens resid atol maxM maxM).moments = some k ∧
      ((greens resid atol maxM maxM).warned = false → resid k ≤ atol) ∧
      ((greens resid atol maxM maxM).warned = true → resid k > atol) :=
  greens_spec resid atol maxM maxM (greens_fuel maxM h1)

example : greens (fun m => 1 / (m : Rat)) (1 / 100) 1000 5 = ⟨some 160, false⟩ := by decide +kernel
end kpm

end Props
end Pyma
