/-
Property C08 — NumberOrderedForm arithmetic faithfully represents the operator algebra.

Model (`Model/Nof.lean`, `Model/NofExpr.lean`): a form is a list of terms (powers per mode ↦ coefficient as a *function* of the
occupation numbers), the context `c` lists the kinds of the modes (boson, ladder, spin, fermion); `mul`, `add`, `adjoint`, `npow`,
`fromExpr` are models of `__mul__` (with `_multiply_op`, `_multiply_expr`), `__add__`, `adjoint`, `__pow__`, `from_expr`.
`ampF' c x s s''` is the matrix element `(s''| x |s)` of the form in the unnormalised occupation basis (`a|n) = n|n-1)`,
`a†|n) = |n+1)`, Jordan–Wigner signs for fermions), computed from the closed-form action `specAmpS` of a normal-ordered monomial.
Hypotheses: `FermionsLast c` (fermionic modes come last — the ordering invariant of the Python class), `WF2 c x` (the representation
invariant: finite modes carry powers in {-1,0,1} and a coefficient does not depend on `N_i` of a finite mode the term raises or lowers;
preserved by every operation: `C08_invariant_*`), `Valid c s` / `Phys c s` (occupations of finite modes are 0/1, of bosons ≥ 0).

Statements: the product is composition of kernels (`C08_product`), hence associativity, distributivity, units, powers; the adjoint is
the adjoint for the weighted form of the unnormalised basis and reverses products; `from_expr` of an operator expression has the kernel
of the composition of the generator actions (`C08_from_expr_roundtrip`), so converting and computing denotes the original operator.
Tied to the code by `harness/nof_corr.py` (implementation vs model vs an independent Fock / Jordan–Wigner oracle, exhaustive strata
of short words first).  Not modelled: SymPy's simplifier, functions of number operators other than polynomials, `as_expr` printing.
-/
import PymaVerif.Proofs.NofFermion
import PymaVerif.Proofs.NofAdjoint
import PymaVerif.Proofs.NofAssoc
import PymaVerif.Proofs.NofRoundTrip
import PymaVerif.Proofs.NofSpecEq

namespace Pyma
namespace Props
open Nof

/-- **C08** the product of two forms acts as the composition: `(s''| x·y |s) = Σ_{t ∈ y} (tgt t s| t |s) · (s''| x |tgt t s)` -/
theorem C08_product_monomial (c : Ctx) (hl : FermionsLast c) (x y : Form) (s s'' : Occ) (hx : WF2 c x) (hy : WF2 c y)
    (hs : Valid c s) :
    ampF' c (mul c x y) s s'' = (List.map (fun t => specAmpS c t s * ampF' c x (tgt t s) s'') y).sum :=
  rep_mul3 c hl x y s s'' hx hy hs

/-- **C08** … as a sum over any finite set of intermediate states containing the targets: composition of kernels -/
theorem C08_product (c : Ctx) (hl : FermionsLast c) (x y : Form) (s s'' : Occ) (hx : WF2 c x) (hy : WF2 c y) (hs : Valid c s)
    (M : Finset Occ) (hM : targets y s ⊆ M) :
    ampF' c (mul c x y) s s'' = ∑ m ∈ M, ampF' c y s m * ampF' c x m s'' :=
  kernel_comp c hl x y s s'' hx hy hs M hM

/-- **C08** multiplication is associative (as operators) -/
theorem C08_associative (c : Ctx) (hl : FermionsLast c) (x y z : Form) (s s'' : Occ) (hx : WF2 c x) (hy : WF2 c y)
    (hz : WF2 c z) (hs : Valid c s) :
    ampF' c (mul c (mul c x y) z) s s'' = ampF' c (mul c x (mul c y z)) s s'' :=
  rep_mul_assoc c hl x y z s s'' hx hy hz hs

/-- **C08** left and right distributivity -/
theorem C08_distributive (c : Ctx) (hl : FermionsLast c) (x y z : Form) (s s'' : Occ) (hx : WF2 c x) (hy : WF2 c y)
    (hz : WF2 c z) (hs : Valid c s) :
    ampF' c (mul c x (add y z)) s s'' = ampF' c (mul c x y) s s'' + ampF' c (mul c x z) s s'' ∧
    ampF' c (mul c (add x y) z) s s'' = ampF' c (mul c x z) s s'' + ampF' c (mul c y z) s s'' :=
  ⟨rep_mul_add c hl x y z s s'' hx hy hz hs, rep_add_mul c hl x y z s s'' hx hy hz hs⟩

/-- **C08** sums, negation, units, integer powers -/
theorem C08_sum (c : Ctx) (x y : Form) (s s' : Occ) : ampF' c (add x y) s s' = ampF' c x s s' + ampF' c y s s' :=
  rep_add c x y s s'
theorem C08_neg (c : Ctx) (x : Form) (s s' : Occ) : ampF' c (neg x) s s' = -ampF' c x s s' := rep_neg c x s s'
theorem C08_unit (c : Ctx) (hl : FermionsLast c) (x : Form) (s s'' : Occ) (hx : WF2 c x) (hs : Valid c s) :
    ampF' c (mul c x (scalar c 1)) s s'' = ampF' c x s s'' ∧ ampF' c (mul c (scalar c 1) x) s s'' = ampF' c x s s'' :=
  ⟨rep_mul_one c hl x s s'' hx hs, rep_one_mul c hl x s s'' hx hs⟩
theorem C08_power (c : Ctx) (hl : FermionsLast c) (x : Form) (k : ℕ) (s s'' : Occ) (hx : WF2 c x) (hs : Valid c s) :
    ampF' c (npow c x (k + 1)) s s'' = ampF' c (mul c (npow c x k) x) s s'' :=
  rep_npow_succ c hl x k s s'' hx hs

/-- **C08** the adjoint is the Hermitian adjoint w.r.t. the weighted form `‖s‖² = Π_bosons s_j!` of the unnormalised basis -/
theorem C08_adjoint (c : Ctx) (x : Form) (s s'' : Occ) (hs : Phys c s) (hs'' : Phys c s'') :
    ampF' c (adjoint x) s'' s * ofInt (norm c s) = (ampF' c x s s'').conj * ofInt (norm c s'') :=
  rep_adjoint c x s s'' hs hs''

/-- **C08** the adjoint reverses products -/
theorem C08_adjoint_reverses_products (c : Ctx) (hl : FermionsLast c) (x y : Form) (s s'' : Occ) (hx : WF2 c x) (hy : WF2 c y)
    (hs : Phys c s) (hs'' : Phys c s'') :
    ampF' c (adjoint (mul c x y)) s'' s = ampF' c (mul c (adjoint y) (adjoint x)) s'' s :=
  adjoint_mul c hl x y s s'' hx hy hs hs''

/-- **C08** conversion: the form obtained from an operator expression has the kernel of the expression's own Fock action
(composition of the generator actions, no normal ordering involved); expressions include arbitrary functions of the number operators -/
theorem C08_from_expr_roundtrip (c : Ctx) (hl : FermionsLast c) (e : OpExpr) (he : OpExpr.wf c e = true) (s s'' : Occ)
    (hs : Valid c s) : ampF' c (fromExpr c e) s s'' = ker (actE c e s) s'' :=
  roundtrip c hl e he s s'' hs

/-- the representation invariant is preserved by every operation, so the hypotheses above are met by everything arithmetic produces -/
theorem C08_invariant_mul (c : Ctx) (hl : FermionsLast c) (x y : Form) (hx : WF2 c x) (hy : WF2 c y) : WF2 c (mul c x y) :=
  wf2_mul c hl x y hx hy
theorem C08_invariant_add (c : Ctx) (x y : Form) (hx : WF2 c x) (hy : WF2 c y) : WF2 c (add x y) := wf2_add c x y hx hy
theorem C08_invariant_adjoint (c : Ctx) (x : Form) (hx : WF2 c x) : WF2 c (adjoint x) := wf2_adjoint c x hx
theorem C08_invariant_npow (c : Ctx) (hl : FermionsLast c) (x : Form) (hx : WF2 c x) (k : ℕ) : WF2 c (npow c x k) :=
  wf2_npow c hl x hx k

/-- the executable closed-form action the driver prints is the specification used above -/
theorem C08_driver_action (c : Ctx) (t : Term) (s : Occ) : specX c t s = (tgt t s, specAmpS c t s) := specX_eq c t s

/-! non-vacuity: `N_a · N_f` written with generators on boson ⊗ fermion, evaluated on `|2,1)` -/
example : ampF' c2 (fromExpr c2 e0) [2, 1] [2, 1] = ker (actE c2 e0 [2, 1]) [2, 1] :=
  C08_from_expr_roundtrip c2 c2_last e0 rfl _ _ c2_valid
example : ker (actE c2 e0 [2, 1]) [2, 1] = ofInt 2 := by decide +kernel

/-! functions of number operators are expressions too (`OpExpr.fn`): `a · 2^N` on boson ⊗ fermion sends `|2,1)` to `2·2^2 |1,1)` — the shifted function
`2^(N+1)·a` of the number-ordered form, not `2^N·a` (defect D29 of the real `from_expr`) -/
def pow2N : Occ → GRat := fun N => ofInt (2 ^ (Occ.get N 0).toNat)
example : ampF' c2 (fromExpr c2 (.mul (.gen 0 false) (.fn pow2N))) [2, 1] [1, 1] = ker (actE c2 (.mul (.gen 0 false) (.fn pow2N)) [2, 1]) [1, 1] :=
  C08_from_expr_roundtrip c2 c2_last _ rfl _ _ c2_valid
example : ker (actE c2 (.mul (.gen 0 false) (.fn pow2N)) [2, 1]) [1, 1] = ofInt 8 := by decide +kernel

end Props
end Pyma
