/-
Property C19 — BlockSeries indexing follows numpy semantics with exactly-once evaluation.

Proved on the machine model (`Model/Machine.lean`): while an element is cached it is not evaluated again (`C19_evaluated_at_most_once`:
the log of evaluations started in any successful pop-free execution from empty caches has no duplicate), a self-referential definition
ends in the recursion error instead of looping (`C19_self_reference_raises`, for every fuel ≥ 3, i.e. whatever recursion depth is allowed), values
returned are the denotation (`C19_value`).
Selection semantics is modelled as well (`Model/Index.lean`): NumPy's rule for items of integers, lists and forward slices (`select`:
negative finite indices, clipping of slices, basic indexing, broadcast lists, placement of the advanced dimension) and the real code's
resolution through a trial array (`getitem`: `_check_finite`, the count of indices, the trial shape, the evaluated positions).  Proved:
`C19_numpy_semantics` — for every accepted item the answer is NumPy's selection on the dense array of *any* sufficiently large truncation
of the series (the trial array suffices); `C19_evaluated_exactly_selected_once` — the evaluated positions are the selected elements, each
once, in lexicographic order; `C19_in_bounds` — only in-range elements are ever addressed; `C19_negative_or_infinite_rejected` and
`C19_wrong_number_rejected` — the IndexError clauses; `C19_request_values`, `C19_item_request_at_most_once` — the two models composed: a request for several
elements returns the element values position by position and evaluates each selected element at most once, also when the elements depend on each other;
`C19_view` — an item on the finite dimensions only gives a view with NumPy's shape whose entry at the orders `o` is the parent element `src ++ o` for the
source `src` NumPy selects, the orders being handed to the parent as slices of length one (`C19_view_rejected`: it raises exactly when NumPy rejects the item;
`C19_shape_consistent`: a selection has as many entries as its shape says, so the `reshape` of the view cannot fail).  The model's `select` is itself compared with NumPy on dense arrays, and `getitem` with
`BlockSeries[item]` (result shape, the source of every entry, the evaluated set, error class, views) by `harness/index_corr.py`;
`harness/machine_corr.py` adds multi-element requests whose elements depend on each other (`box` requests) against the machine model.
Trusted: NumPy's own indexing as the reference the model's `select` is tested (not proved) against; masking of `zero` entries is compared
by the harness only.
-/
import PymaVerif.Proofs.MachineThm
import PymaVerif.Proofs.MachineOnce
import PymaVerif.Proofs.IndexBounds
import PymaVerif.Proofs.MachineMany
import PymaVerif.Proofs.IndexView

namespace Pyma
namespace Props
open Machine

variable {V : Type}

/-- **C19** each element is evaluated at most once while cached -/
theorem C19_evaluated_at_most_once (S : Sys V) (hdefs : ∀ s i, NoPop (S.defs s i)) (f : Nat) (sc : Script V) (hsc : NoPop sc)
    (v : V) (h : (run S f sc ⟨[], 0, []⟩).1 = .ok v) : (run S f sc ⟨[], 0, []⟩).2.log.Nodup :=
  log_nodup S hdefs f sc hsc v h

/-- **C19** what an index returns is the value of the element -/
theorem C19_value (S : Sys V) (den : SId → Idx → V) (hc : Consistent S den) (f : Nat) (s : SId) (i : Idx) (w : World V)
    (hw : Inv den w) (v : V) (h : (getItem S f s i w).1 = .ok v) : v = den s i :=
  ((sound S den hc f).2 s i w hw).2 v h

/-- **C19** a self-referential definition raises the recursion error (wrapped on its way out) instead of recursing forever -/
theorem C19_self_reference_raises (S : Sys V) (s : SId) (i : Idx) (k : V → Script V) (hdef : S.defs s i = .get s i k)
    (f : Nat) (w : World V) (hw : w.get s i = none) :
    (getItem S (f + 3) s i w).1 = .error .wrapped := by
  have hpend : (⟨(w.set s i (some Cell.pending)).cache, (w.set s i (some Cell.pending)).calls, w.log ++ [(s, i)]⟩ : World V).get s i
      = some Cell.pending := by
    have := World.get_set w s i (some Cell.pending) s i
    simpa [World.get] using this
  simp only [getItem, hw, hdef, run, hpend, rewrap]

/-! ### which elements an index expression selects -/
open Index in
/-- **C19** indexing follows NumPy: for an item whose entries on the infinite dimensions are bounded and non-negative, the series answers
with NumPy's selection on the dense array of every truncation at least as large as the trial array — the result shape and, entry by entry,
the element it shows -/
theorem C19_numpy_semantics (shape : List Nat) (fin inf : List Index.Ax) (big : List Nat) (hlen : shape.length = fin.length)
    (hok : ∀ a ∈ inf, Index.AxOk a) (hbig : List.Forall₂ (fun a n => Index.trialLen a ≤ n) inf big) :
    (Index.getitem shape inf.length (fin ++ inf)).map (fun a => (a.shape, a.sources))
      = (Index.select (shape ++ big) (fin ++ inf)).map (fun r => (r.shape, r.sources)) := by
  have hdrop : (fin ++ inf).drop shape.length = inf := by rw [hlen]; simp
  have hcf : Index.checkFinite inf = true := (Index.checkFinite_iff inf).2 hok
  unfold Index.getitem
  rw [hdrop]
  simp only [hcf, Bool.not_true, Bool.false_eq_true, ↓reduceIte, List.length_append, hlen, ne_eq, not_true_eq_false]
  rw [Index.select_trunc shape fin inf big hlen hok hbig]
  cases Index.select (Index.trialDims shape inf) (fin ++ inf) <;> rfl

/-- **C19** exactly the selected elements are evaluated, each once (in lexicographic order) -/
theorem C19_evaluated_exactly_selected_once (shape : List Nat) (ninf : Nat) (item : List Index.Ax) (a : Index.Answer)
    (h : Index.getitem shape ninf item = .ok a) :
    a.evaluated.Nodup ∧ a.evaluated.Pairwise (· < ·) ∧ ∀ t, t ∈ a.evaluated ↔ t ∈ a.sources := by
  obtain ⟨r, _, rfl⟩ := Index.getitem_ok h
  exact ⟨Index.positions_nodup _, Index.positions_sorted _, Index.mem_positions _⟩

/-- **C19** only elements inside the trial array — in-range finite indices, orders below the trial length — are ever addressed -/
theorem C19_in_bounds (shape : List Nat) (ninf : Nat) (item : List Index.Ax) (a : Index.Answer)
    (h : Index.getitem shape ninf item = .ok a) :
    ∀ s ∈ a.sources, List.Forall₂ (· < ·) s (Index.trialDims shape (item.drop shape.length)) := by
  obtain ⟨r, hr, rfl⟩ := Index.getitem_ok h
  exact Index.select_in_bounds hr

/-- **C19** a negative order, a negative slice bound or a missing stop on an infinite dimension raises `IndexError` -/
theorem C19_negative_or_infinite_rejected (shape : List Nat) (ninf : Nat) (item : List Index.Ax) (a : Index.Ax)
    (ha : a ∈ item.drop shape.length) (hbad : ¬ Index.AxOk a) : Index.getitem shape ninf item = .error .index :=
  Index.getitem_rejects shape ninf item a ha hbad

/-- **C19** the wrong number of indices raises `IndexError` -/
theorem C19_wrong_number_rejected (shape : List Nat) (ninf : Nat) (item : List Index.Ax) (h : item.length ≠ shape.length + ninf) :
    Index.getitem shape ninf item = .error .index := by
  unfold Index.getitem
  by_cases hc : Index.checkFinite (item.drop shape.length) = true <;> simp [hc, h]

/-! ### the two models composed: a request `series[item]` -/

/-- **C19** a request for several elements returns, position by position, the values of the elements (and leaves a consistent cache) -/
theorem C19_request_values (S : Sys V) (den : SId → Idx → V) (hc : Consistent S den) (f : Nat) (s : SId) (idxs : List Idx) (w : World V)
    (hw : Inv den w) (vs : List V) (h : (getMany S f s idxs w).1 = .ok vs) : vs = idxs.map (den s) ∧ Inv den (getMany S f s idxs w).2 :=
  ⟨(getMany_sound S den hc f s idxs w hw).2 vs h, (getMany_sound S den hc f s idxs w hw).1⟩

/-- **C19** `series[item]`: the elements the item selects (the evaluated positions of the resolution model) are each evaluated at most once — also when the
elements of the request depend on each other, so that some are evaluated re-entrantly before their turn — and they are looked up without repetition -/
theorem C19_item_request_at_most_once (S : Sys V) (hdefs : ∀ s i, NoPop (S.defs s i)) (f : Nat) (s : SId) (shape : List Nat) (ninf : Nat)
    (item : List Index.Ax) (a : Index.Answer) (ha : Index.getitem shape ninf item = .ok a) (v0 v : V)
    (h : (run S f (manyScript s a.evaluated v0) ⟨[], 0, []⟩).1 = .ok v) :
    (run S f (manyScript s a.evaluated v0) ⟨[], 0, []⟩).2.log.Nodup ∧ a.evaluated.Nodup :=
  ⟨request_log_nodup S hdefs f s a.evaluated v0 v h, (C19_evaluated_exactly_selected_once shape ninf item a ha).1⟩

/-- **C19** a selection has as many entries as its shape says -/
theorem C19_shape_consistent (dims : List Nat) (item : List Index.Ax) (r : Index.Result) (h : Index.select dims item = .ok r) :
    r.sources.length = Index.prodL r.shape :=
  Index.select_length h

/-- **C19** views: an item on the finite dimensions only gives the series of NumPy's shape for the item whose entry at the orders `o` is the
parent element at `src ++ o`, `src` being what NumPy selects; the parent evaluates exactly those elements, each once -/
theorem C19_view (shape : List Nat) (item : List Index.Ax) (o : List Nat) (hlen : item.length = shape.length) (v : Index.Result)
    (hv : Index.select shape item = .ok v) :
    Index.view shape item o = .ok ⟨v.shape, v.sources.map (· ++ o), Index.positions (v.sources.map (· ++ o))⟩ :=
  Index.view_spec shape item o hlen hv

/-- **C19** a view of an item NumPy rejects raises the same error -/
theorem C19_view_rejected (shape : List Nat) (item : List Index.Ax) (o : List Nat) (e : Index.Err) (hv : Index.select shape item = .error e) :
    Index.view shape item o = .error e :=
  Index.view_rejects shape item o hv

-- non-vacuity: `series[-1, :3:2]`, `series[[0, 1], :, [1, 2]]` (advanced indices apart: their dimension comes first), `series[0, :-1]`
example : Index.getitem [2] 1 [.int (-1), .slice none (some 3) 2] = .ok ⟨[2], [[1, 0], [1, 2]], [[1, 0], [1, 2]]⟩ := by decide
example : (Index.getitem [2, 3] 1 [.list [0, 1], .slice none none 1, .list [1, 2]]).map (·.shape) = .ok [2, 3] := by decide
example : Index.getitem [2] 1 [.int 0, .slice (some 0) (some (-1)) 1] = .error .index := by decide
example : Index.getitem [2] 1 [.list [1, 1], .int 2] = .ok ⟨[2], [[1, 2], [1, 2]], [[1, 2]]⟩ := by decide
-- a view with lists apart on the finite dimensions, `series[[0, 1], :, [1, 2]]` at order 4 (the advanced dimension comes first)
example : Index.view [2, 3, 3] [.list [0, 1], .slice none (some 2) 1, .list [1, 2]] [4] =
    .ok ⟨[2, 2], [[0, 0, 1, 4], [0, 1, 1, 4], [1, 0, 2, 4], [1, 1, 2, 4]], [[0, 0, 1, 4], [0, 1, 1, 4], [1, 0, 2, 4], [1, 1, 2, 4]]⟩ := by decide

end Props
end Pyma
