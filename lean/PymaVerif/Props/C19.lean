/-
Property C19 — BlockSeries indexing follows numpy semantics with exactly-once evaluation.

Proved on the machine model (`Model/Machine.lean`): while an element is cached it is not evaluated again (`C19_evaluated_at_most_once`:
the log of evaluations started in any successful pop-free execution from empty caches has no duplicate), a self-referential definition
ends in the recursion error instead of looping (`C19_self_reference_raises`, for every fuel ≥ 3, i.e. whatever recursion depth is allowed), values
returned are the denotation (`C19_value`).
Selection semantics (which cells an index expression of integers, lists and forward slices selects, masking of zero cells, views for
finite-only indices, IndexError for infinite or negative orders) is NumPy's indexing engine plus `_check_finite`: it is *not* re-modelled
in Lean; the correspondence `harness/index_corr.py` compares `BlockSeries[item]` with the same item on the dense object array for random
shapes and index expressions, checks that exactly the selected elements are evaluated, that cached ones are not evaluated again and that
offending orders raise IndexError; `harness/machine_corr.py` adds multi-element requests whose elements depend on each other
(`box` requests) against the machine model.  Partial: NumPy is the trusted reference for the selection rules.
-/
import PymaVerif.Proofs.MachineThm
import PymaVerif.Proofs.MachineOnce

namespace Pyma
namespace Props
open Machine

variable {V : Type}

/-- **C19** each element is evaluated at most once while cached -/
theorem C19_evaluated_at_most_once (S : Sys V) (hdefs : ∀ s i, NoPop (S.defs s i)) (f : Nat) (sc : Script V) (hsc : NoPop sc)
    (v : V) (h : (run S f sc ⟨[], 0, []⟩).1 = .ok v) : (run S f sc ⟨[], 0, []⟩).2.log.Nodup :=
  log_nodup S hdefs f sc hsc v h

/-- **C19** what an index returns is the value of the element -/
theorem C19_value (S : Sys V) (den : SId → Idx → V) (hc : Consistent S den) (f : Nat) (s : SId) (i : Idx) (w : World V)
    (hw : Inv den w) (v : V) (h : (getItem S f s i w).1 = .ok v) : v = den s i :=
  ((sound S den hc f).2 s i w hw).2 v h

/-- **C19** a self-referential definition raises the recursion error (wrapped on its way out) instead of recursing forever -/
theorem C19_self_reference_raises (S : Sys V) (s : SId) (i : Idx) (k : V → Script V) (hdef : S.defs s i = .get s i k)
    (f : Nat) (w : World V) (hw : w.get s i = none) :
    (getItem S (f + 3) s i w).1 = .error .wrapped := by
  have hpend : (⟨(w.set s i (some Cell.pending)).cache, (w.set s i (some Cell.pending)).calls, w.log ++ [(s, i)]⟩ : World V).get s i
      = some Cell.pending := by
    have := World.get_set w s i (some Cell.pending) s i
    simpa [World.get] using this
  simp only [getItem, hw, hdef, run, hpend, rewrap]

end Props
end Pyma
