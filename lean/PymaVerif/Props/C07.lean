/-
Property C07 — second-quantised block diagonalisation agrees with matrices on Fock states.  PARTIAL.

FULL statement (the property): every order of the operator-valued `H̃`, `U` has, between all Fock states, the matrix elements of the matrix computation on a
sufficiently large Fock space; `U†U = 1`, `U†HU = H̃` in the operator algebra.
PROVED: the ingredients that make the Fock representation `rep` (= the kernel `ampF'` of C08 in the unnormalised occupation basis) a `*`-homomorphism that
intertwines the primitives of the two computations —
  * products, sums, adjoints, units, powers of NumberOrderedForms act as the corresponding operators (`C07_rep_*`, from C08);
  * the second-quantised Sylvester solver solves `H_ii·X − X·H_jj = Y` as an operator identity wherever the denominators are non-zero on the states a term
    connects — the non-degeneracy premise of the property (`C07_solver`);
  * value-level naturality of the reference semantics for every program (`C07_naturality`): a value map commuting with the value operations and the primitives of
    two environments carries every derivation of one run to the other.
NOT PROVED: the instance of the naturality theorem for `φ = rep` entrywise (it needs `rep` packaged as a `ValMap`/`EnvMap` between the NumberOrderedForm carrier and
matrices over an infinite index set, and the model of `apply_mask_to_operator` as a Hadamard mask on occupation differences).  Until then the property is decided
by the theorems above plus the correspondence `harness/sq_corr.py`: eight systems (anharmonic boson, three fermions with pairing, Rabi, boson + fermion hopping,
spin + two fermions with number couplings, complex drive, matrix-valued with equal and with different diagonal entries) through order 3 against exact block
diagonalisation of the Fock matrices (truncated, compared away from the edge; unnormalised basis with the inverse-based gauge).
-/
import PymaVerif.Props.C08
import PymaVerif.Proofs.NofSylvester
import PymaVerif.Proofs.Natural

namespace Pyma
namespace Props
open Nof

/-- **C07** the representation is multiplicative … -/
theorem C07_rep_mul (c : Ctx) (hl : FermionsLast c) (x y : Form) (s s'' : Occ) (hx : WF2 c x) (hy : WF2 c y) (hs : Valid c s)
    (M : Finset Occ) (hM : targets y s ⊆ M) : ampF' c (mul c x y) s s'' = ∑ m ∈ M, ampF' c y s m * ampF' c x m s'' :=
  C08_product c hl x y s s'' hx hy hs M hM

/-- … additive, and compatible with the adjoint -/
theorem C07_rep_add (c : Ctx) (x y : Form) (s s' : Occ) : ampF' c (add x y) s s' = ampF' c x s s' + ampF' c y s s' := C08_sum c x y s s'
theorem C07_rep_adjoint (c : Ctx) (x : Form) (s s'' : Occ) (hs : Phys c s) (hs'' : Phys c s'') :
    ampF' c (adjoint x) s'' s * ofInt (norm c s) = (ampF' c x s s'').conj * ofInt (norm c s'') :=
  C08_adjoint c x s s'' hs hs''

/-- **C07** the second-quantised solver solves the Sylvester equation as an operator identity -/
theorem C07_solver (c : Ctx) (hl : FermionsLast c) (hi hj : Occ → GRat) (Y : Form) (hY : WF2 c Y) (s s'' : Occ) (hs : Valid c s)
    (hden : ∀ t ∈ Y, annAmp c t s ≠ 0 → hi (tgt t s) - hj s ≠ 0) :
    ampF' c (mul c (numberForm c hi) (solveScalar c hi hj Y)) s s'' - ampF' c (mul c (solveScalar c hi hj Y) (numberForm c hj)) s s''
      = ampF' c Y s s'' :=
  solveScalar_spec c hl hi hj Y hY s s'' hs hden

/-- **C07** naturality of the semantics between two carriers, for every program -/
theorem C07_naturality {K K' : Type} [Scalar K] [Scalar K'] {φ : Dsl.Idx → Dsl.SVal K → Dsl.SVal K'} {p : Dsl.Prog} {env : Dsl.Env K}
    {env' : Dsl.Env K'} (hφ : Dsl.ValMap φ) (hone : ∀ idx : Dsl.Idx, φ idx .one = .one) (henv : Dsl.EnvMap φ env env') {j : Dsl.J K}
    {v : Dsl.SVal K} (h : Dsl.Holds p env j v) : Dsl.Holds p env' (Dsl.J.map φ j) (φ j.idx v) :=
  Dsl.Holds.map hφ hone henv h

end Props
end Pyma
