/-
Property C13 — multi-parameter order bookkeeping is consistent (scale, merge, permute, pad, substitute).

Method: *transport through uniqueness* (C03).  A star-preserving ring homomorphism `T` of the algebra of formal power series with matrix
coefficients that respects the degree filtration and the kept-part projection maps the solution of the defining equations for `H` to the solution
for `T H` (`C13_transport`); since the computed `U' = U − 1` is that unique solution (C01–C03), `U'(T H) = T (U'(H))` — and likewise for `U†` (its
adjoint) and `H̃ = U† H U`.  Instances proved here:
  * `C13_scale`: `H(λ) ↦ H(cλ)`, `c` real (each parameter: compose), every order `n` of the outputs is multiplied by `c^{|n|}` (`rescaleS`);
  * `C13_permute`: relabelling the multi-orders by any degree-preserving additive equivalence of the exponent lattice — in particular a permutation of
    the parameters (`Finsupp.domCongr`) — relabels every order of the outputs (`permS`).
Merging two parameters, padding with a vanishing parameter and `λ ↦ λ^p` are ring homomorphisms of the same kind between series in different numbers of
variables; their instances are NOT yet proved in Lean (they need the re-indexing of double sums) — for them this property rests on the generic transport
theorem plus the correspondence: `harness/covar_corr.py` checks all five relations (and the C15 ones) between pairs of real runs, `harness/format_corr.py` the
key / symbol-order bookkeeping of the input normalisation.  PARTIAL in that sense; the full statement is the property text.
-/
import PymaVerif.Proofs.Covariance2
import PymaVerif.Proofs.Covariance3
import PymaVerif.Proofs.CoreU

namespace Pyma
namespace Props
open Dsl Generated MvPowerSeries BlockDiag BlockDiag.Problem

/-- **C13/C15** transport: a homomorphism between two defining problems maps the solution of one to the solution of the other -/
theorem C13_transport {S : Type*} [Ring S] [StarRing S] {S' : Type*} [Ring S'] [StarRing S'] {c : TheoremU.Ctx S}
    (c' : TheoremU.Ctx S') {T : S →+* S'} {z : S'} (hT : TheoremU.Hom c c' T z) {P : S} {P' : S'}
    (hP : TheoremU.Sol c P) (hP' : TheoremU.Sol c' P') : T P = P' :=
  TheoremU.transport c' hT hP hP'

variable {K : Type} [Field K] [StarRing K] [DecidableEq K] [Thresholds K] [LawfulThresholds K]
attribute [local instance] Scalar.ofField

/-- **C13** scaling: if the second problem's Hamiltonian is `H(cλ)` (same kept pattern), its `U − 1` is the first one's evaluated at `cλ`, i.e.
order `n` is multiplied by `c^{|n|}` -/
theorem C13_scale (p : Problem K) (ts : List (List ℕ × Mat K)) (hp : p.Accepted) (hq : (p.withTerms ts).Accepted) (h2 : (2 : K) ≠ 0)
    (c : K) (hc : star c = c) (hkept : ∀ a b : Fin p.d, (p.withTerms ts).keptE a.val b.val = p.keptE a.val b.val)
    (hH : (p.withTerms ts).sr "H" = rescaleS c (p.sr "H")) :
    (p.withTerms ts).sr "U'" = rescaleS c (p.sr "U'") :=
  Problem.C13_scale p ts hp hq h2 c hc hkept hH

/-- **C13** permuting (relabelling) the parameters permutes the order indices of the outputs -/
theorem C13_permute (p : Problem K) (ts : List (List ℕ × Mat K)) (hp : p.Accepted) (hq : (p.withTerms ts).Accepted) (h2 : (2 : K) ≠ 0)
    (E : (Fin p.nparams →₀ ℕ) ≃+ (Fin p.nparams →₀ ℕ)) (hdeg : ∀ m, (E m).degree = m.degree)
    (hkept : ∀ a b : Fin p.d, (p.withTerms ts).keptE a.val b.val = p.keptE a.val b.val)
    (hH : (p.withTerms ts).sr "H" = permS E (p.sr "H")) :
    (p.withTerms ts).sr "U'" = permS E (p.sr "U'") :=
  Problem.C13_permute p ts hp hq h2 E hdeg hkept hH

/-- a permutation of the parameters is such an equivalence -/
theorem C13_permutation_preserves_degree {σ : Type} [DecidableEq σ] [Fintype σ] (e : σ ≃ σ) (m : σ →₀ ℕ) : (Finsupp.domCongr e m).degree = m.degree :=
  degree_domCongr e m

end Props
end Pyma
