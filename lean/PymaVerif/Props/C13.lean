/-
Property C13 — multi-parameter order bookkeeping is consistent (scale, merge, permute, pad, substitute).

Method: *transport through uniqueness* (C03).  A star-preserving ring homomorphism `T` of the algebra of formal power series with matrix
coefficients that respects the degree filtration and the kept-part projection maps the solution of the defining equations for `H` to the solution
for `T H` (`C13_transport`); since the computed `U' = U − 1` is that unique solution (C01–C03), `U'(T H) = T (U'(H))` — and likewise for `U†` (its
adjoint) and `H̃ = U† H U`.  Instances proved here:
  * `C13_scale`: `H(λ) ↦ H(cλ)`, `c` real (each parameter: compose), every order `n` of the outputs is multiplied by `c^{|n|}` (`rescaleS`);
  * `C13_permute`: relabelling the multi-orders by any degree-preserving additive equivalence of the exponent lattice — in particular a permutation of
    the parameters (`Finsupp.domCongr`) — relabels every order of the outputs (`permS`).
  * `C13_reindex`: re-indexing along ANY injective additive map `φ` of multi-orders that does not lower the total degree (push-forward `pushS`, a ring
    homomorphism between series in possibly different numbers of variables): order `φ m` of the outputs of the re-indexed problem is order `m` of the original,
    orders outside the image of `φ` vanish.  Instances: `C13_power_substitution` (`λ ↦ λ^r`: `m ↦ r·m`) and `C13_pad` (a vanishing extra parameter:
    `m ↦ (m, 0)`) — "only relabels orders".
  * `C13_fibred`: the same for additive maps with *finite fibres* that need not be injective — order `n` of the push-forward is the sum over the fibre; instance
    `C13_merge`: giving two perturbations the same parameter yields at order `n` the sum of the two-parameter results over `n₁ + n₂ = n`.
All five relations of the property are thus theorems about the model (for `U' = U − 1`; `U† = (U)†` and `H̃ = U†HU` follow by C01/C02).  The key / symbol-order /
Taylor bookkeeping of the input normalisation: `C13_symbols_sorted`, `C13_keys_order_irrelevant`, `C13_list_keys`, `C14_taylor_expansion`; everything is also
compared between pairs of real runs by `harness/covar_corr.py`, `format_corr.py`, `taylor_corr.py`, `keys_corr.py`.
-/
import PymaVerif.Proofs.Covariance2
import PymaVerif.Proofs.Covariance3
import PymaVerif.Proofs.CoreU
import PymaVerif.Proofs.Covariance5
import PymaVerif.Proofs.Covariance6
import PymaVerif.Proofs.FormatsThm

namespace Pyma
namespace Props
open Dsl Generated MvPowerSeries BlockDiag BlockDiag.Problem

/-- **C13/C15** transport: a homomorphism between two defining problems maps the solution of one to the solution of the other -/
theorem C13_transport {S : Type*} [Ring S] [StarRing S] {S' : Type*} [Ring S'] [StarRing S'] {c : TheoremU.Ctx S}
    (c' : TheoremU.Ctx S') {T : S →+* S'} {z : S'} (hT : TheoremU.Hom c c' T z) {P : S} {P' : S'}
    (hP : TheoremU.Sol c P) (hP' : TheoremU.Sol c' P') : T P = P' :=
  TheoremU.transport c' hT hP hP'

variable {K : Type} [Field K] [StarRing K] [DecidableEq K] [Thresholds K] [LawfulThresholds K]
attribute [local instance] Scalar.ofField

/-- **C13** scaling: if the second problem's Hamiltonian is `H(cλ)` (same kept pattern), its `U − 1` is the first one's evaluated at `cλ`, i.e.
order `n` is multiplied by `c^{|n|}` -/
theorem C13_scale (p : Problem K) (ts : List (List ℕ × Mat K)) (hp : p.Accepted) (hq : (p.withTerms ts).Accepted) (h2 : (2 : K) ≠ 0)
    (c : K) (hc : star c = c) (hkept : ∀ a b : Fin p.d, (p.withTerms ts).keptE a.val b.val = p.keptE a.val b.val)
    (hH : (p.withTerms ts).sr "H" = rescaleS c (p.sr "H")) :
    (p.withTerms ts).sr "U'" = rescaleS c (p.sr "U'") :=
  Problem.C13_scale p ts hp hq h2 c hc hkept hH

/-- **C13** permuting (relabelling) the parameters permutes the order indices of the outputs -/
theorem C13_permute (p : Problem K) (ts : List (List ℕ × Mat K)) (hp : p.Accepted) (hq : (p.withTerms ts).Accepted) (h2 : (2 : K) ≠ 0)
    (E : (Fin p.nparams →₀ ℕ) ≃+ (Fin p.nparams →₀ ℕ)) (hdeg : ∀ m, (E m).degree = m.degree)
    (hkept : ∀ a b : Fin p.d, (p.withTerms ts).keptE a.val b.val = p.keptE a.val b.val)
    (hH : (p.withTerms ts).sr "H" = permS E (p.sr "H")) :
    (p.withTerms ts).sr "U'" = permS E (p.sr "U'") :=
  Problem.C13_permute p ts hp hq h2 E hdeg hkept hH

/-- **C13** re-indexing of orders along an injective additive map that does not lower the degree -/
theorem C13_reindex (p : Problem K) (k' : ℕ) (ts : List (List ℕ × Mat K)) (hp : p.Accepted) (hq : (p.reparam k' ts).Accepted) (h2 : (2 : K) ≠ 0)
    (R : Reindex (Fin p.nparams) (Fin k')) (hdeg : ∀ m, m.degree ≤ (R.φ m).degree)
    (hkept : ∀ a b : Fin p.d, (p.reparam k' ts).keptE a.val b.val = p.keptE a.val b.val)
    (hH : (p.reparam k' ts).sr "H" = R.pushS (p.sr "H")) :
    (p.reparam k' ts).sr "U'" = R.pushS (p.sr "U'") :=
  Problem.C13_reindex p k' ts hp hq h2 R hdeg hkept hH

/-- **C13** re-indexing along an additive map with finite fibres: order `n` of the new outputs is the sum over the fibre of `n` -/
theorem C13_fibred (p : Problem K) (k' : ℕ) (ts : List (List ℕ × Mat K)) (hp : p.Accepted) (hq : (p.reparam k' ts).Accepted) (h2 : (2 : K) ≠ 0)
    (R : Fibred (Fin p.nparams) (Fin k')) (hdeg : ∀ m, m.degree ≤ (R.φ m).degree)
    (hkept : ∀ a b : Fin p.d, (p.reparam k' ts).keptE a.val b.val = p.keptE a.val b.val)
    (hH : (p.reparam k' ts).sr "H" = R.pushS (p.sr "H")) :
    (p.reparam k' ts).sr "U'" = R.pushS (p.sr "U'") :=
  Problem.C13_fibred p k' ts hp hq h2 R hdeg hkept hH

/-- **C13** merging: for a two-parameter problem `P₂ = p.reparam 2 ts₂`, giving both perturbations the same parameter (`P₁ = P₂.reparam 1 ts₁` with
`H₁ = merge H₂`) yields at order `n` the sum of the two-parameter results over `n₁ + n₂ = n`:
`coeff n (mergeFibred.pushS f) = Σ_{(a, b) : a + b = n} coeff (a, b) f` -/
theorem C13_merge (p : Problem K) (ts₂ ts₁ : List (List ℕ × Mat K)) (hp : (p.reparam 2 ts₂).Accepted)
    (hq : ((p.reparam 2 ts₂).reparam 1 ts₁).Accepted) (h2 : (2 : K) ≠ 0)
    (hkept : ∀ a b : Fin p.d, ((p.reparam 2 ts₂).reparam 1 ts₁).keptE a.val b.val = (p.reparam 2 ts₂).keptE a.val b.val)
    (hH : ((p.reparam 2 ts₂).reparam 1 ts₁).sr "H" = mergeFibred.pushS ((p.reparam 2 ts₂).sr "H")) :
    ((p.reparam 2 ts₂).reparam 1 ts₁).sr "U'" = mergeFibred.pushS ((p.reparam 2 ts₂).sr "U'") :=
  Problem.C13_fibred (p.reparam 2 ts₂) 1 ts₁ hp hq h2 mergeFibred mergeFibred_degree hkept hH

/-- the merging map does not lower the degree (so `C13_fibred` applies to it) -/
theorem C13_merge_degree (m : Fin 2 →₀ ℕ) : m.degree ≤ (mergeFibred.φ m).degree := mergeFibred_degree m

/-- **C13** substituting `λ ↦ λ^r` only relabels orders: order `r·m` of the new outputs is order `m` of the old ones, all other orders vanish -/
theorem C13_power_substitution (p : Problem K) (ts : List (List ℕ × Mat K)) (hp : p.Accepted) (hq : (p.reparam p.nparams ts).Accepted)
    (h2 : (2 : K) ≠ 0) (r : ℕ) (hr : 0 < r)
    (hkept : ∀ a b : Fin p.d, (p.reparam p.nparams ts).keptE a.val b.val = p.keptE a.val b.val)
    (hH : (p.reparam p.nparams ts).sr "H" = (powerReindex r hr).pushS (p.sr "H")) :
    (p.reparam p.nparams ts).sr "U'" = (powerReindex r hr).pushS (p.sr "U'") :=
  Problem.C13_reindex p p.nparams ts hp hq h2 (powerReindex r hr) (powerReindex_degree r hr) hkept hH

/-- **C13** adding a vanishing perturbation only relabels orders: order `(m, 0)` is order `m`, orders with a non-zero last component vanish -/
theorem C13_pad (p : Problem K) (ts : List (List ℕ × Mat K)) (hp : p.Accepted) (hq : (p.reparam (p.nparams + 1) ts).Accepted)
    (h2 : (2 : K) ≠ 0)
    (hkept : ∀ a b : Fin p.d, (p.reparam (p.nparams + 1) ts).keptE a.val b.val = p.keptE a.val b.val)
    (hH : (p.reparam (p.nparams + 1) ts).sr "H" = (padReindex p.nparams).pushS (p.sr "H")) :
    (p.reparam (p.nparams + 1) ts).sr "U'" = (padReindex p.nparams).pushS (p.sr "U'") :=
  Problem.C13_reindex p (p.nparams + 1) ts hp hq h2 (padReindex p.nparams) (padReindex_degree p.nparams) hkept hH

/-- **C13 (keys)** monomial keys: the symbols are strictly sorted by name as strings and are exactly those that occur -/
theorem C13_symbols_sorted (keys : List Formats.Monomial) :
    (Formats.symbolsOf keys).Pairwise (· < ·) ∧ ∀ t, t ∈ Formats.symbolsOf keys ↔ ∃ m ∈ keys, ∃ e, (t, e) ∈ m :=
  ⟨Formats.symbolsOf_sorted keys, Formats.mem_symbolsOf keys⟩

/-- **C13 (keys)** the order of the dictionary entries and of the factors of a key does not matter -/
theorem C13_keys_order_irrelevant {k₁ k₂ : List Formats.Monomial} (h : k₁.Perm k₂) : Formats.symbolsOf k₁ = Formats.symbolsOf k₂ :=
  Formats.symbolsOf_perm h
theorem C13_factor_order_irrelevant {m₁ m₂ : Formats.Monomial} (h : m₁.Perm m₂) (hn : (m₁.map (·.1)).Nodup) (s : String) :
    Formats.power m₁ s = Formats.power m₂ s :=
  Formats.power_perm h hn s

/-- **C13 (keys)** a list `[h_0, h_1, …, h_k]`: zeroth order, then one first-order term per parameter -/
theorem C13_list_keys (k : Nat) : (Formats.listKeys (k + 1)).head? = some (List.replicate k 0) ∧
    ∀ i, i < k → (Formats.listKeys (k + 1))[i + 1]? = some (Formats.unitVec k i) :=
  Formats.listKeys_spec k

/-- a permutation of the parameters is such an equivalence -/
theorem C13_permutation_preserves_degree {σ : Type} [DecidableEq σ] [Fintype σ] (e : σ ≃ σ) (m : σ →₀ ℕ) : (Finsupp.domCongr e m).degree = m.degree :=
  degree_domCongr e m

end Props
end Pyma
