/-
Property C17 — the complement projector equals the dense matrix `1 − R L†` under every operation.

Model (`Model/Projector.lean`): `Proj K n m` = the pair (R, L) of `n × m` vector sets with the matrix-free actions `apply`
(`_matvec`/`_matmat`: `v − R (L† v)`) and `applyLeft` (`_rmatvec`/`_rmatmat`: `v − L (R† v)`), and the three operations
`adjoint`, `conjugate`, `transpose` on the pair.  `dense P = 1 − R L†`.  Every field with involution, every `n`, `m`.
The cache links of the Python class (which object `.T`, `.H`, `.conjugate()` return after any history of such calls) are covered
by the correspondence `harness/proj_corr.py`: every object produced by a random history is compared with the model's dense matrix of the
*word* of operations that produced it, so a stale or mis-linked cache entry shows as a wrong matrix.  Not modelled: SciPy's
`LinearOperator` composition classes (exercised: `P @ A @ P`, its `.H`, `.T`, right multiplication).
-/
import PymaVerif.Proofs.ProjectorThm

namespace Pyma
namespace Props
open Projector

variable {K : Type} [Field K] [StarRing K] [DecidableEq K] [Thresholds K]
attribute [local instance] Scalar.ofField
variable {n m : Nat} (P : Proj K n m)

/-- **C17** applying the projector to a vector (matrix columns) is multiplication by `1 − R L†` -/
theorem C17_apply (v : Fin n → K) (a : Fin n) :
    apply P (fun b => if h : b < n then v ⟨b, h⟩ else 0) a.val = (dense P).mulVec v a :=
  apply_eq P v a

/-- **C17** the action from the right / the adjoint action is multiplication by `(1 − R L†)†` -/
theorem C17_apply_left (v : Fin n → K) (a : Fin n) :
    applyLeft P (fun b => if h : b < n then v ⟨b, h⟩ else 0) a.val = (dense P).conjTranspose.mulVec v a :=
  applyLeft_eq P v a

/-- **C17** adjoint, conjugate and transpose of the operator are those of the dense matrix -/
theorem C17_adjoint : dense (adjoint P) = (dense P).conjTranspose := dense_adjoint P
theorem C17_conjugate : dense (conjugate P) = (dense P).map star := dense_conjugate P
theorem C17_transpose : dense (transpose P) = (dense P).transpose := dense_transpose P

/-- the three operations generate at most four operators: `P`, `P†`, `conj P`, `Pᵀ`, with the relations the cache links rely on -/
theorem C17_operations_closed :
    dense (adjoint (adjoint P)) = dense P ∧ dense (conjugate (conjugate P)) = dense P ∧
    dense (transpose (transpose P)) = dense P ∧ dense (adjoint (conjugate P)) = dense (transpose P) ∧
    dense (conjugate (adjoint P)) = dense (transpose P) := by
  refine ⟨?_, ?_, ?_, ?_, ?_⟩
  · rw [C17_adjoint, C17_adjoint, Matrix.conjTranspose_conjTranspose]
  · rw [C17_conjugate, C17_conjugate]; ext a b; simp
  · rw [C17_transpose, C17_transpose, Matrix.transpose_transpose]
  · rfl
  · rw [C17_conjugate, C17_adjoint, C17_transpose]; ext a b; simp [Matrix.conjTranspose_apply]

/-- **C17** idempotent when `L† R = 1` -/
theorem C17_idempotent (h : (Lm P).conjTranspose * Rm P = 1) : dense P * dense P = dense P := dense_idempotent P h

end Props
end Pyma
