/-
Property C10 — results are independent of the evaluation history; (values handed out are not mutated: harness only).

Model (`Model/Machine.lean`): the BlockSeries state machine — per series a cache of `pending | val v` cells, `getItem` with the
PENDING mark and the try/except clean-up of `series.py`, eval functions as *scripts* (a free monad of `get`, `contains`, `pop`, a user
callback that may fail, `fail`), so the theorems quantify over ALL eval functions, not the shipped ones.  `den` is any family of values with
which every script is *consistent* (`Consistent`: run against reads answered by `den`, the script of element `(s,i)` returns `den s i`;
a `contains` test may answer `true` for anything and `false` only for the zero sentinel).  For the shipped algorithms `den` is the reference
semantics and consistency of the compiled bodies is C09 (`compile_sound`).

`C10_history_independent`: from the empty caches, after ANY history of requests — element reads on any series, `pop`s of any cached
element (the deletion of once-used intermediates), requests that fail at any callback invocation with any exception, in any
interleaving, with any fuel — every value a read returns is `den`, i.e. the value a fresh computation returns.
The mutation clause of the property (caller's arrays and values already handed out are not modified) cannot be exhibited by a model with
immutable values; it is decided by the correspondence alone (`harness/bd_corr.py`: value-level snapshots of the input containers, arrays and
returned values before and after every run).
-/
import PymaVerif.Proofs.MachineThm
import PymaVerif.Proofs.MachineOnce
import PymaVerif.Proofs.DslDet

namespace Pyma
namespace Props
open Machine

variable {V : Type}

/-- the requests a caller (or another series) can make -/
inductive Req where
  | get (s : SId) (i : Idx)
  | pop (s : SId) (i : Idx)

/-- replay a history; the observable outcome of each `get` is recorded -/
def replay (S : Sys V) (fuel : Nat) : List Req → World V → List (SId × Idx × Except Err V) × World V
  | [], w => ([], w)
  | .get s i :: rest, w =>
      let (r, w') := getItem S fuel s i w
      let (out, w'') := replay S fuel rest w'
      ((s, i, r) :: out, w'')
  | .pop s i :: rest, w => replay S fuel rest (w.set s i none)

theorem replay_inv (S : Sys V) (den : SId → Idx → V) (hc : Consistent S den) (fuel : Nat) (reqs : List Req) (w : World V)
    (hw : Inv den w) :
    Inv den (replay S fuel reqs w).2 ∧
    ∀ s i v, (s, i, Except.ok v) ∈ (replay S fuel reqs w).1 → v = den s i := by
  induction reqs generalizing w with
  | nil => exact ⟨hw, fun _ _ _ h => by cases h⟩
  | cons r rest ih =>
    cases r with
    | get s i =>
      have h1 := (sound S den hc fuel).2 s i w hw
      have h2 := ih (getItem S fuel s i w).2 h1.1
      simp only [replay]
      refine ⟨h2.1, ?_⟩
      intro s' i' v hmem
      rcases List.mem_cons.mp hmem with h | h
      · injection h with hs h; injection h with hi hr
        subst hs; subst hi
        exact h1.2 v hr.symm
      · exact h2.2 s' i' v h
    | pop s i =>
      simp only [replay]
      exact ih _ (inv_set_nonval hw s i none (fun v h => by cases h))

/-- **C10** every value returned anywhere in any history equals the denotation — the value of a fresh computation -/
theorem C10_history_independent (S : Sys V) (den : SId → Idx → V) (hc : Consistent S den) (fuel : Nat) (reqs : List Req)
    (s : SId) (i : Idx) (v : V)
    (h : (s, i, Except.ok v) ∈ (replay S fuel reqs { cache := [], calls := 0, log := [] }).1) : v = den s i :=
  (replay_inv S den hc fuel reqs _ (fun _ _ _ h => by simp [World.get] at h)).2 s i v h

/-- two histories agree on every element both of them obtain -/
theorem C10_two_histories_agree (S : Sys V) (den : SId → Idx → V) (hc : Consistent S den) (f₁ f₂ : Nat) (h₁ h₂ : List Req)
    (s : SId) (i : Idx) (v₁ v₂ : V)
    (a : (s, i, Except.ok v₁) ∈ (replay S f₁ h₁ { cache := [], calls := 0, log := [] }).1)
    (b : (s, i, Except.ok v₂) ∈ (replay S f₂ h₂ { cache := [], calls := 0, log := [] }).1) : v₁ = v₂ := by
  rw [C10_history_independent S den hc f₁ h₁ s i v₁ a, C10_history_independent S den hc f₂ h₂ s i v₂ b]

/-- the reference semantics the denotation comes from assigns at most one value to every element (so "the value of a fresh
computation" is well defined for every program of the mini-language) -/
theorem C10_semantics_deterministic {K : Type} [Scalar K] {p : Dsl.Prog} {env : Dsl.Env K} {j : Dsl.J K} {v w : Dsl.SVal K}
    (hv : Dsl.Holds p env j v) (hw : Dsl.Holds p env j w) : v = w :=
  Dsl.Holds.det hv w hw

/-! non-vacuity: a two-series system (series 1 reads series 0 and pops it) is consistent, and a history with a pop in between
returns the same value twice -/
def demoSys : Sys Val where
  defs := fun s i => match s with
    | 0 => .pure (.num 7)
    | _ => .get 0 i fun v => .pop 0 i (.pure v)
  isZero := fun v => v == .zero
  userSem := fun _ _ => .zero
  fault := fun _ => none

theorem demo_consistent : Consistent demoSys (fun _ _ => .num 7) := by
  intro s i
  cases s with
  | zero => exact .pure _
  | succ n => exact .get _ _ _ _ (.pop _ _ _ _ (.pure _))

example : (replay demoSys 10 [.get 1 [0], .pop 1 [0], .get 1 [0], .get 0 [0]] { cache := [], calls := 0, log := [] }).1
    = [(1, [0], .ok (.num 7)), (1, [0], .ok (.num 7)), (0, [0], .ok (.num 7))] := by rfl

end Props
end Pyma
