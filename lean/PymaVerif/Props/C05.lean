/-
Property C05 — non-Hermitian mode.  PARTIAL, and the full statement is refuted for the shipped recurrences.

FULL statement (the property): for every accepted `hermitian=False` problem, `U_inv·U = U·U_inv = 1`, `U_inv·H·U = H̃` on kept
entries and `0` on eliminated ones (asymmetric masks included), `U − U_inv` has no kept entry; on Hermitian input the outputs
coincide with the Hermitian mode.

PROVED (`C05_partial`, `C05_hermitian_limit_partial`): exactly that, for the program `Generated.nonhermitian` translated from the
current `algorithms.py`, on every problem satisfying `AcceptedN` — which asks neither Hermiticity nor a symmetric mask, but
requires every *kept* pair of states to have equal unperturbed energies (`kept_deg`).

REFUTED beyond that hypothesis (`C05_full_statement_fails`, kernel-evaluated on the translated program): `H_0 = diag(0,1,3)`,
blocks `{0,1}|{2}`, `H_1` = ones off the diagonal, default flags: `(U_inv·H·U)_2[0,1] = −5/12` but `(H̃)_2[0,1] = −1/2`.
The implementation returns the same numbers: this is the known finding D5 (`known_findings.json`), the dropped `[H_0, U'_S]`
in the diagonal clause of `X`.
-/
import PymaVerif.Proofs.NhAccepted
import PymaVerif.Proofs.NhWitness
import PymaVerif.Proofs.D5Witness
import PymaVerif.Proofs.DriverTotal

namespace Pyma
namespace Props
open Dsl Generated MvPowerSeries BlockDiag BlockDiag.Problem

variable {K : Type} [Field K] [StarRing K] [DecidableEq K] [Thresholds K] [LawfulThresholds K]
attribute [local instance] Scalar.ofField
variable {p : Problem K}

/-- **C05 (partial)** inverse pair, similarity, elimination and gauge for every `AcceptedN` problem -/
theorem C05_partial (h : p.AcceptedN) (h2 : (2 : K) ≠ 0) :
    Nh.sr p "U†" * Nh.sr p "U" = 1 ∧ Nh.sr p "U" * Nh.sr p "U†" = 1 ∧
    Nh.sr p "U†" * Nh.sr p "H" * Nh.sr p "U" = Nh.sr p "H_tilde" ∧
    (∀ m (a b : Fin p.d), p.keptE a.val b.val = false → coeff m (Nh.sr p "H_tilde") a b = 0) ∧
    (∀ m (a b : Fin p.d), p.keptE a.val b.val = true → coeff m (Nh.sr p "U" - Nh.sr p "U†") a b = 0) :=
  Problem.C05_partial h h2

/-- **C05 (partial)** on Hermitian accepted input with degenerate kept pairs the non-Hermitian program returns exactly the
three series of the Hermitian program -/
theorem C05_hermitian_limit_partial (h : p.Accepted)
    (hk : ∀ a b : Fin p.d, p.keptE a.val b.val = true → p.energy a.val = p.energy b.val) (h2 : (2 : K) ≠ 0) :
    Nh.sr p "U" = p.sr "U" ∧ Nh.sr p "U†" = p.sr "U†" ∧ Nh.sr p "H_tilde" = p.sr "H_tilde" :=
  Problem.C05_hermitian_limit h hk h2

omit [LawfulThresholds K] in
/-- the evaluator answers every element of `nonhermitian` on every `AcceptedN` problem -/
theorem C05_driver_total (h : p.AcceptedN) (x : String) (hx : x ∈ nhNames) (idx : Idx) :
    ∃ fuel v c', getElem nonhermitian p.env fuel x idx ∅ = .ok (v, c') :=
  Problem.driver_total_nh h x hx idx

/-- **the full statement fails** for the shipped recurrences (kernel-evaluated counterexample on the translated program) -/
theorem C05_full_statement_fails : d5lhs = some (-5/12) ∧ d5entry "H_tilde" 2 0 1 = some (-1/2) ∧
    d5lhs ≠ d5entry "H_tilde" 2 0 1 :=
  ⟨d5_lhs, d5_rhs, D5_witness⟩

/-- non-vacuity of the partial theorem -/
example : Nh.sr n2 "U†" * Nh.sr n2 "U" = 1 := (C05_partial n2_accepted (by norm_num)).1

end Props
end Pyma
