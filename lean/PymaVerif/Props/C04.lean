/-
Property C04 — the truncated effective Hamiltonian has the exact spectrum to the requested order.
Stated through power traces: `trS x` is the coefficientwise trace of a series with matrix coefficients.  For every `k`
the power traces `tr (H̃^k)` and `tr (H^k)` agree as series, and the truncation of `H̃` at total degree `N` has the exact
power traces in every coefficient of total degree `≤ N`.  In characteristic zero the power traces `k = 1..d` determine
the characteristic polynomial (Newton's identities), so this is "the characteristic polynomial of `Σ_{|n|≤N} λⁿ H̃_n`
agrees with that of `H(λ)` in all coefficients of total order `≤ N`"; the statements never mention `U`.
`C04_rayleigh_schrodinger`: if state `a` is decoupled from every other state (all `(c,a)`, `c ≠ a`, eliminated — a fully
diagonalised non-degenerate block, or a 1×1 block), then column `a` of `U` is an eigenvector series of `H(λ)` with
eigenvalue series `H̃_aa` — the defining property of the Rayleigh–Schrödinger series.
`C04_characteristic_polynomial`: the literal statement — viewing a series of matrices as a matrix of series (`toMatS`, a ring homomorphism), the characteristic
polynomial of `H̃` equals that of `H(λ)` as polynomials whose coefficients are power series in the parameters: every coefficient agrees at every order
(`U` is a unit with inverse `U†`, and the characteristic polynomial is invariant under conjugation by a unit).
Same subject and quantification as C01.
-/
import PymaVerif.Proofs.Trace
import PymaVerif.Proofs.Charpoly
import PymaVerif.Proofs.Witness
import PymaVerif.Proofs.LevelsThm

namespace Pyma
namespace Props
open Dsl Generated MvPowerSeries BlockDiag BlockDiag.Problem

variable {K : Type} [Field K] [StarRing K] [DecidableEq K] [Thresholds K] [LawfulThresholds K]
attribute [local instance] Scalar.ofField
variable {p : Problem K}

/-- **C04** all power traces of `H̃` and of `H` agree, at every order -/
theorem C04_power_traces (h : p.Accepted) (h2 : (2 : K) ≠ 0) (k : ℕ) :
    trS (p.sr "H_tilde" ^ k) = trS (p.sr "H" ^ k) :=
  Problem.C04_traces h h2 k

/-- **C04** without the transitivity clause of `Accepted` (a theorem of the model of the repaired code): the power traces agree also when levels are equal
within `atol` only through a chain of neighbours -/
theorem C04_chains_of_close_levels (h : p.AcceptedCore) (h2 : (2 : K) ≠ 0) (k : ℕ) :
    trS (p.sr "H_tilde" ^ k) = trS (p.sr "H" ^ k) :=
  C04_power_traces h.accepted h2 k

/-- **C04** for every well-formed input with the list form (or the absence) of `fully_diagonalize`, and for masks of the caller that pass the two checks -/
theorem C04_every_list_form_problem (h : p.InputOK) (h2 : (2 : K) ≠ 0) (k : ℕ) : trS (p.sr "H_tilde" ^ k) = trS (p.sr "H" ^ k) :=
  C04_power_traces h.accepted h2 k
theorem C04_every_masked_problem (h : p.MasksOK) (h2 : (2 : K) ≠ 0) (k : ℕ) : trS (p.sr "H_tilde" ^ k) = trS (p.sr "H" ^ k) :=
  C04_power_traces h.accepted h2 k

/-- **C04** the characteristic polynomials of `H̃` and `H(λ)` coincide, coefficient by coefficient and order by order -/
theorem C04_characteristic_polynomial (h : p.Accepted) (h2 : (2 : K) ≠ 0) :
    (toMatS (p.sr "H_tilde")).charpoly = (toMatS (p.sr "H")).charpoly :=
  Problem.C04_charpoly h h2

/-- **C04** truncation at total degree `N` keeps the power traces exact up to degree `N` -/
theorem C04_truncated (h : p.Accepted) (h2 : (2 : K) ≠ 0) (N k : ℕ) (m : Fin p.nparams →₀ ℕ) (hm : m.degree ≤ N) :
    coeff m (trS (truncS N (p.sr "H_tilde") ^ k)) = coeff m (trS (p.sr "H" ^ k)) :=
  Problem.C04_truncated h h2 N k m hm

/-- **C04** Rayleigh–Schrödinger: `H · U e_a = U e_a · H̃_aa` as series, for a decoupled state `a` -/
theorem C04_rayleigh_schrodinger (h : p.Accepted) (h2 : (2 : K) ≠ 0) (a : Fin p.d)
    (ha : ∀ c : Fin p.d, c ≠ a → p.keptE c.val a.val = false) (m : Fin p.nparams →₀ ℕ) (b : Fin p.d) :
    coeff m (p.sr "H" * p.sr "U") b a
      = ∑ q ∈ Finset.antidiagonal m, coeff q.1 (p.sr "U") b a * coeff q.2 (p.sr "H_tilde") a a :=
  Problem.C04_rayleigh_schrodinger h h2 a ha m b

example (k : ℕ) : trS (wd.sr "H_tilde" ^ k) = trS (wd.sr "H" ^ k) := C04_power_traces wd_accepted (by norm_num) k
/-- in `w3` (three 1×1 blocks) every state is decoupled, so the Rayleigh–Schrödinger statement applies to each -/
example : ∀ a c : Fin w3.d, c ≠ a → w3.keptE c.val a.val = false := by decide +kernel

end Props
end Pyma
