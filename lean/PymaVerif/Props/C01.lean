/-
Property C01 — Hermitian mode: `U† H U` equals `H̃` on kept entries and vanishes on eliminated ones, at every order.

Subject of the theorems: `p.sr x`, the formal power series (in `p.nparams` parameters, with `d × d` matrix coefficients)
of the values that the reference semantics of the mini-language assigns to series `x` of the program
`Generated.main` — the program *translated from the current `pymablock/algorithms.py`* — in the scope that the model of
`block_diagonalize` (`BlockDiag.Problem.env`) wires up.  `driver_sound` ties these series to what the executable
evaluator (the Lean driver compared with the implementation in the correspondence run) returns.
`p.sr "H"` is the *input* series; the statement reads `U`, `U†` and `H`, it is not read off the masked `H̃`.

Quantification: every field `K` with involution and `2 ≠ 0`, every dimension, number and sizes of blocks, number of
parameters, set of perturbation terms at arbitrary multi-orders, `fully_diagonalize` absent / tuple / dict of masks,
both settings of the two-block optimisation and every commuting-block pattern — all problems satisfying the decidable
predicate `Accepted` (what `block_diagonalize` accepts on its exact Hermitian path).

Tolerance.  The model decides "equal unperturbed energies" as the code does, with `atol` (`equalEigs`), and a fully diagonalised block keeps together the
levels connected by steps below `atol` (`sameLevel` = `Closure.closure`, the model of `_transitive_closure`).  `Accepted` used to carry the clause
`comm_trans` — the kept part of a block the algorithm treats as commuting is transitive — as a hypothesis the proof of `B`/`Yadj` had forced; the code
of that time decided "equal within atol" pair by pair and did *not* meet it for chains of close levels (defect D37: the hypothesis marked the spot).  With
the repaired code and the model of its closure the clause is a theorem (`C01_kept_pattern_transitive`), and `C01_chains_of_close_levels` states C01 for
`AcceptedCore` = `Accepted` without it.
-/
import PymaVerif.Proofs.Accepted
import PymaVerif.Proofs.DriverSound
import PymaVerif.Proofs.DriverTotal
import PymaVerif.Proofs.Witness
import PymaVerif.Proofs.LevelsThm

namespace Pyma
namespace Props
open Dsl Generated MvPowerSeries BlockDiag BlockDiag.Problem

variable {K : Type} [Field K] [StarRing K] [DecidableEq K] [Thresholds K] [LawfulThresholds K]
attribute [local instance] Scalar.ofField
variable {p : Problem K}

/-- **C01** the Cauchy product `U† · H · U` of the returned series with the input series is the returned `H̃`,
as formal power series, i.e. at every multi-order and every matrix entry. -/
theorem C01_similarity (h : p.Accepted) (h2 : (2 : K) ≠ 0) :
    p.sr "U†" * p.sr "H" * p.sr "U" = p.sr "H_tilde" :=
  Problem.C01 h h2

/-- **C01** elimination: every entry of `U† · H · U` that is not kept (other block, or selected for elimination by the
mask of a fully diagonalised block) vanishes at every order. -/
theorem C01_eliminated (h : p.Accepted) (h2 : (2 : K) ≠ 0) (m : Fin p.nparams →₀ ℕ) (a b : Fin p.d)
    (hk : p.keptE a.val b.val = false) :
    coeff m (p.sr "U†" * p.sr "H" * p.sr "U") a b = 0 :=
  Problem.C01_elim h h2 m a b hk

omit [LawfulThresholds K] in
/-- what the executable evaluator returns *is* the coefficient of the series of the theorems -/
theorem C01_driver_sound (fuel : Nat) (x : String) (m : Fin p.nparams →₀ ℕ) (a b : Fin p.d)
    (v : SVal K) (c' : Cache K)
    (hrun : getElem main p.env fuel x ⟨p.blk a.val, p.blk b.val, toList m⟩ ∅ = .ok (v, c')) :
    coeff m (p.sr x) a b = sem p.blocks ⟨p.blk a.val, p.blk b.val, toList m⟩ v a b :=
  Problem.driver_sound p fuel x m a b v c' hrun

omit [LawfulThresholds K] in
/-- on every accepted problem the evaluator does return a value for every element of every series of `main` -/
theorem C01_driver_total (h : p.Accepted) (x : String) (hx : x ∈ mainNames) (idx : Idx) :
    ∃ fuel v c', getElem main p.env fuel x idx ∅ = .ok (v, c') :=
  Problem.driver_total h x hx idx

/-- **C01** the transitivity clause of `Accepted` (the kept part of a block whose masks the algorithm may treat as commuting is closed under multiplication) is
not a condition on the input: a fully diagonalised block keeps together the levels connected by steps below `atol` (the code's `_transitive_closure` of
"equal within atol"), which is an equivalence whatever the energies and the tolerance -/
theorem C01_kept_pattern_transitive (a b c : Fin p.d) (hc : p.commuting (p.blk a.val) = true)
    (hab : p.keptE a.val b.val = true) (hcb : p.keptE c.val b.val = true) : p.keptE a.val c.val = true :=
  comm_trans_holds a b c hc hab hcb

omit [LawfulThresholds K] in
/-- **C01** what a fully diagonalised block keeps together, spelled out: two states are kept together exactly when a chain of states of the block joins them whose
consecutive levels are equal within `atol` (the model of `_transitive_closure(equal_eigs)`, i.e. of the labels of `connected_components`) -/
theorem C01_kept_together_iff_chain (a b : Nat) :
    p.sameLevel a b = true ↔ Relation.TransGen (fun x y => x < p.d ∧ y < p.d ∧ p.closeIn x y = true) a b :=
  Closure.closure_iff_chain p.closeIn

/-- **C01** masks and denominators agree: inside a block fully diagonalised by the list form, an entry that is not kept is one whose energy difference the
diagonal solver divides by (`|ΔE| > atol`); "equal" is `|ΔE| ≤ atol`, the complement (D38: it used to be `<`, leaving `|ΔE| = atol` to neither) -/
theorem C01_masks_and_denominators_agree (a b : Fin p.d) (hblk : p.blk a.val = p.blk b.val) (l : List Nat) (hfd : p.fdEff = .tuple l)
    (hk : p.keptE a.val b.val = false) : Scalar.absGt (p.energy a.val - p.energy b.val) p.atol = true :=
  gap_same_block_tuple a.isLt b.isLt hblk hfd hk

/-- **C01** without the transitivity clause: `U†·H·U = H̃` and the zeros on the eliminated entries for every problem that meets the remaining clauses
(`AcceptedCore`), in particular when levels are equal within `atol` only through a chain of neighbours -/
theorem C01_chains_of_close_levels (h : p.AcceptedCore) (h2 : (2 : K) ≠ 0) :
    p.sr "U†" * p.sr "H" * p.sr "U" = p.sr "H_tilde" ∧
      ∀ (m : Fin p.nparams →₀ ℕ) (a b : Fin p.d), p.keptE a.val b.val = false → coeff m (p.sr "U†" * p.sr "H" * p.sr "U") a b = 0 :=
  ⟨Problem.C01 h.accepted h2, fun m a b hk => Problem.C01_elim h.accepted h2 m a b hk⟩

/-- **C01** for the list form (or the absence) of `fully_diagonalize` nothing is asked of the masks — symmetry, kept diagonal, gap and transitivity are
theorems about the model of the code's mask construction —: `U†·H·U = H̃` and the zeros on the eliminated entries for every problem whose *input* is
well-formed (`InputOK`: shapes, `atol ≥ 0`, Hermitian terms, diagonal `H_0`, energies of different blocks apart), whatever the levels inside a block -/
theorem C01_every_list_form_problem (h : p.InputOK) (h2 : (2 : K) ≠ 0) :
    p.sr "U†" * p.sr "H" * p.sr "U" = p.sr "H_tilde" ∧
      ∀ (m : Fin p.nparams →₀ ℕ) (a b : Fin p.d), p.keptE a.val b.val = false → coeff m (p.sr "U†" * p.sr "H" * p.sr "U") a b = 0 :=
  ⟨Problem.C01 h.accepted h2, fun m a b hk => Problem.C01_elim h.accepted h2 m a b hk⟩

/-- **C01** for masks given by the caller: besides the input facts, exactly the two facts about the masks that `block_diagonalize` checks (C20:
`C20_asymmetric_mask`, `C20_mask_eliminates_degenerate_pair`) — symmetric, and no entry selected between levels equal within `atol` — are needed -/
theorem C01_every_masked_problem (h : p.MasksOK) (h2 : (2 : K) ≠ 0) :
    p.sr "U†" * p.sr "H" * p.sr "U" = p.sr "H_tilde" ∧
      ∀ (m : Fin p.nparams →₀ ℕ) (a b : Fin p.d), p.keptE a.val b.val = false → coeff m (p.sr "U†" * p.sr "H" * p.sr "U") a b = 0 :=
  ⟨Problem.C01 h.accepted h2, fun m a b hk => Problem.C01_elim h.accepted h2 m a b hk⟩

/-! Non-vacuity: concrete accepted problems over ℚ — three 1×1 blocks; two blocks with a partial mask on one of them and a
degenerate kept pair; the default two-block call (optimised flags on); a single block with two parameters. -/
example : w3.sr "U†" * w3.sr "H" * w3.sr "U" = w3.sr "H_tilde" := C01_similarity w3_accepted (by norm_num)
example : wd.sr "U†" * wd.sr "H" * wd.sr "U" = wd.sr "H_tilde" := C01_similarity wd_accepted (by norm_num)
example : w2.sr "U†" * w2.sr "H" * w2.sr "U" = w2.sr "H_tilde" := C01_similarity w2_accepted (by norm_num)
-- two blocks, `fully_diagonalize=[0]`, the two levels of the first block exactly `atol` apart
example : wlist.sr "U†" * wlist.sr "H" * wlist.sr "U" = wlist.sr "H_tilde" := (C01_every_list_form_problem wlist_input (by norm_num)).1
example : wall.sr "U†" * wall.sr "H" * wall.sr "U" = wall.sr "H_tilde" := (C01_every_list_form_problem wall_input (by norm_num)).1
example : wd.sr "U†" * wd.sr "H" * wd.sr "U" = wd.sr "H_tilde" := (C01_every_masked_problem wd_masks (by norm_num)).1
-- a chain of levels 0, 7, 14 under `atol = 10` in a fully diagonalised block: the ends are farther apart than `atol` and kept together all the same
example : wchain.sr "U†" * wchain.sr "H" * wchain.sr "U" = wchain.sr "H_tilde" := (C01_chains_of_close_levels wchain_core (by norm_num)).1
example : w1.sr "U†" * w1.sr "H" * w1.sr "U" = w1.sr "H_tilde" := C01_similarity w1_accepted (by norm_num)
example : wd.keptE 0 1 = false ∧ wd.keptE 2 3 = true ∧ wd.twoBlockOptimized = false ∧ w2.twoBlockOptimized = true := by
  decide +kernel

end Props
end Pyma
