/-
Property C09 — compiling a series mini-language algorithm preserves its meaning.

Chain of obligations (the first two are re-checked by kernel evaluation against data REGENERATED from the current source on every run):
  (a) `C09_translated_*`: `Generated.main` / `Generated.nonhermitian` are the programs `tools/translate.py` reads from `pymablock/algorithms.py`;
      the compiled `series_eval` bodies that the real `_parse_algorithm` produces for them (`Generated.compiled_*`, dumped by
      `tools/dump_compiled.py`) are exactly what the reference compiler `Dsl.compileProg` (a model of the with-block, Hermitian-fill, sum,
      divide, function and literal transformers) emits — so a change of the compiler that alters a shipped body, or of a shipped algorithm,
      breaks an obligation here;
  (b) `C09_compile_sound`: whatever a compiled body returns — run with any lookup whose answers are the denotations of the program — is the
      one-step semantics `bodySem` of the source clauses (flattening, re-association and sign pushing of sums disappear into ring laws);
  (c) `C09_evaluator_sound/complete`, `C09_deterministic`: the executable evaluator (what the driver runs in the correspondence) returns
      exactly the values of the relational reference semantics `Den` — the "direct, unoptimised interpretation";
  (d) deletion of once-used terms, request order, faults: Machine theorems of C10/C11 (for ALL eval functions);
  (e) Hermiticity shortcuts: C18 (`C18_hermitian_shortcut`) and the fill lemmas inside C01/C02; two-block and commuting-block flags: C01–C03 hold
      for both flag settings and the solution is unique (C03), so the flags cannot change a value;
  (f) `C09_well_founded_total`: every program that passes the decidable certificate `Cert.ok` (ranks for same-order references) has a value for
      every element in every environment with total primitives — "well-founded" made precise; both shipped programs are certified by `decide`.
For arbitrary user programs there is no per-program proof: `harness/prog_corr.py` compiles hand-written programs covering every feature of the grammar
with the real `series_computation` and compares with the direct interpretation of their source text.  Linear-operator mode: correspondence (C06).
-/
import PymaVerif.Proofs.CompiledOk
import PymaVerif.Proofs.CompileEval
import PymaVerif.Proofs.DslSound
import PymaVerif.Proofs.DslDet
import PymaVerif.Proofs.DslComplete
import PymaVerif.Proofs.Total
import PymaVerif.Proofs.MainTotal
import PymaVerif.Proofs.NhBasics

namespace Pyma
namespace Props
open Dsl Generated

/-- **C09 (a)** the real compiler's output for the shipped programs is the reference compiler's output (regenerated data, kernel-checked) -/
theorem C09_translated_main : compileProg main = compiled_main := compiled_main_ok
theorem C09_translated_nonhermitian : compileProg nonhermitian = compiled_nonhermitian := compiled_nonhermitian_ok

section
variable {K : Type} [Field K] [StarRing K] [DecidableEq K] [Thresholds K]
attribute [local instance] Scalar.ofField

/-- **C09 (b)** compiled bodies compute the clause semantics of their source -/
theorem C09_compile_sound {B : Blocks} {p : Prog} {env : Env K} (S : EnvSem B env) (hok : EnvOK B env) (lookup : Lookup K)
    (hl : LookupSem B p env lookup) (idx : Idx) (self : String) (body : List Stmt) (hres : ∀ st ∈ body, st.noReserved = true)
    (acc : SVal K) (c : Cache K) (v : SVal K) (c' : Cache K) (hacc : Supp B idx acc)
    (hrun : evalCStmts env lookup idx (List.flatMap (compileStmt self) body) acc c = .ok (v, c')) :
    Supp B idx v ∧ sem B idx v = bodySem S p self idx body (sem B idx acc) :=
  compile_sound S hok lookup hl idx self body hres acc c v c' hacc hrun
end

section
variable {K : Type} [Scalar K]

/-- **C09 (c)** the evaluator is sound for the reference semantics, from any sound memo table, with any fuel … -/
theorem C09_evaluator_sound (p : Prog) (env : Env K) (fuel : Nat) : LookupSound p env (getElem p env fuel) :=
  getElem_sound p env fuel

/-- … complete: every derivable value is found with enough fuel … -/
theorem C09_evaluator_complete {p : Prog} {env : Env K} {x : String} {idx : Idx} {v : SVal K} (h : Den p env x idx v) :
    ∃ fuel c', getElem p env fuel x idx ∅ = .ok (v, c') :=
  getElem_complete h

/-- … and the reference semantics assigns at most one value -/
theorem C09_deterministic {p : Prog} {env : Env K} {j : J K} {v w : SVal K} (hv : Holds p env j v) (hw : Holds p env j w) : v = w :=
  Holds.det hv w hw

/-- **C09 (f)** certified (well-founded) programs are total -/
theorem C09_well_founded_total {p : Prog} {env : Env K} {c : Cert} (hc : c.ok p = true) (henv : EnvTot c env) (t : Nat) (x : String)
    (hx : x ∈ c.names) (idx : Idx) (hd : deg idx.n = t) : Goal p env c x idx :=
  Dsl.total hc henv t x hx idx hd
end

/-- both shipped programs pass the certificate (kernel-checked on the regenerated data) -/
theorem C09_shipped_programs_certified : mainCert.ok main = true ∧ nhCert.ok nonhermitian = true :=
  ⟨mainCert_ok, nhCert_ok⟩

end Props
end Pyma
