/-
Property C02 — Hermitian mode: `U` is unitary at every order, the third returned series is its adjoint, `H̃` is Hermitian.
Same subject and quantification as C01 (`Props/C01.lean`).
-/
import PymaVerif.Proofs.Accepted
import PymaVerif.Proofs.Witness
import PymaVerif.Proofs.LevelsThm

namespace Pyma
namespace Props
open Dsl Generated MvPowerSeries BlockDiag BlockDiag.Problem

variable {K : Type} [Field K] [StarRing K] [DecidableEq K] [Thresholds K] [LawfulThresholds K]
attribute [local instance] Scalar.ofField
variable {p : Problem K}

/-- **C02** `U†·U = 1` and `U·U† = 1` as Cauchy products (the identity at order zero, zero at every other order) -/
theorem C02_unitary (h : p.Accepted) (h2 : (2 : K) ≠ 0) :
    p.sr "U†" * p.sr "U" = 1 ∧ p.sr "U" * p.sr "U†" = 1 :=
  ⟨(Problem.C02 h h2).1, (Problem.C02 h h2).2.1⟩

/-- **C02** the third returned series is the adjoint of `U`: coefficientwise conjugate transpose, i.e. element
`(i,j,n)` of `U†` is the conjugate transpose of element `(j,i,n)` of `U` -/
theorem C02_adjoint (h : p.Accepted) (h2 : (2 : K) ≠ 0) : star (p.sr "U") = p.sr "U†" :=
  (Problem.C02 h h2).2.2

/-- the same, entry by entry -/
theorem C02_adjoint_entry (h : p.Accepted) (h2 : (2 : K) ≠ 0) (m : Fin p.nparams →₀ ℕ) (a b : Fin p.d) :
    coeff m (p.sr "U†") a b = star (coeff m (p.sr "U") b a) := by
  rw [← C02_adjoint h h2, coeff_star_apply]

/-- **C02** `H̃` is Hermitian at every order -/
theorem C02_Htilde_hermitian (h : p.Accepted) (h2 : (2 : K) ≠ 0) : star (p.sr "H_tilde") = p.sr "H_tilde" :=
  Problem.C02_Ht_herm h h2

/-- **C02** without the transitivity clause of `Accepted` (it is a theorem of the model of the repaired code, see `C01_kept_pattern_transitive`): unitarity, the
adjoint and the Hermiticity of `H̃` also when levels are equal within `atol` only through a chain of neighbours -/
theorem C02_chains_of_close_levels (h : p.AcceptedCore) (h2 : (2 : K) ≠ 0) :
    p.sr "U†" * p.sr "U" = 1 ∧ p.sr "U" * p.sr "U†" = 1 ∧ star (p.sr "U") = p.sr "U†" ∧ star (p.sr "H_tilde") = p.sr "H_tilde" :=
  ⟨(C02_unitary h.accepted h2).1, (C02_unitary h.accepted h2).2, C02_adjoint h.accepted h2, C02_Htilde_hermitian h.accepted h2⟩

/-- **C02** for every well-formed input with the list form (or the absence) of `fully_diagonalize`, and for masks of the caller that pass the two checks -/
theorem C02_every_list_form_problem (h : p.InputOK) (h2 : (2 : K) ≠ 0) :
    p.sr "U†" * p.sr "U" = 1 ∧ p.sr "U" * p.sr "U†" = 1 ∧ star (p.sr "U") = p.sr "U†" ∧ star (p.sr "H_tilde") = p.sr "H_tilde" :=
  ⟨(C02_unitary h.accepted h2).1, (C02_unitary h.accepted h2).2, C02_adjoint h.accepted h2, C02_Htilde_hermitian h.accepted h2⟩
theorem C02_every_masked_problem (h : p.MasksOK) (h2 : (2 : K) ≠ 0) :
    p.sr "U†" * p.sr "U" = 1 ∧ p.sr "U" * p.sr "U†" = 1 ∧ star (p.sr "U") = p.sr "U†" ∧ star (p.sr "H_tilde") = p.sr "H_tilde" :=
  ⟨(C02_unitary h.accepted h2).1, (C02_unitary h.accepted h2).2, C02_adjoint h.accepted h2, C02_Htilde_hermitian h.accepted h2⟩

example : wlist.sr "U†" * wlist.sr "U" = 1 := (C02_every_list_form_problem wlist_input (by norm_num)).1
example : wchain.sr "U†" * wchain.sr "U" = 1 := (C02_chains_of_close_levels wchain_core (by norm_num)).1
example : w2.sr "U†" * w2.sr "U" = 1 ∧ w2.sr "U" * w2.sr "U†" = 1 := C02_unitary w2_accepted (by norm_num)
example : star (wd.sr "H_tilde") = wd.sr "H_tilde" := C02_Htilde_hermitian wd_accepted (by norm_num)

end Props
end Pyma
