/-
Property C20 — ill-posed problems are rejected, never answered with silent garbage.

Two models carry it.
(1) `Validate.setup`: the set-up time decision logic of `block_diagonalize` as an ordered list of checks over the facts they
    consult (`Validate.Config`); tied to the code by the correspondence `harness/reject_corr.py`, which builds a concrete call for
    every configuration it generates (an exhaustive stratum over the positions of an offending `H_0` block, both modes, all
    carriers, first) and compares exception class and time.  Theorems below: the model accepts *exactly* the configurations with no
    ill-posed feature (`C20_setup_ok_iff`), every rejection is a ValueError / TypeError / NotImplementedError
    (`C20_rejection_is_an_error`), and each ill-posed class of the property statement is rejected at set-up
    (`C20_not_block_diagonal` — in *both* modes and for an offending block on either side of the diagonal —, `C20_zero_diagonal`,
    `C20_not_biorthonormal`, `C20_asymmetric_mask`, `C20_mask_eliminates_degenerate_pair`, `C20_pairs_in_hermitian_mode`,
    `C20_exclusive_options`).
(2) the evaluation semantics of the translated algorithms with the model of `solve_sylvester_diagonal`: coupled blocks sharing an
    unperturbed energy (the `isclose` test) make every evaluation that needs the ill-defined quantity end in the solver's
    ValueError — no value is ever returned for it (`C20_shared_*`); on accepted problems the evaluator answers every element
    (`C20_accepted_answers`, finiteness in the exact model: no division by a small number, `gap` in `Accepted`).
The two models are bridged for masks given by the caller (`C20_accepted_masks_are_what_C01_needs`): the facts about the masks that the set-up phase consults are
computed from a `BlockDiag.Problem` (`configOf`), and when `Validate.setup` accepts them the masks are symmetric inside their blocks and select no entry between
levels equal within `atol` — the mask clauses under which C01–C04 are proved (`MasksOK`).
Not modelled: the Hermiticity test of symbolic terms (SymPy's `is_hermitian`), the numerical (bi)orthonormality test itself
(the model takes its verdict as a fact), finiteness in floating point — exercised by the correspondence only.
-/
import PymaVerif.Model.Validate
import PymaVerif.Proofs.SharedError
import PymaVerif.Proofs.DriverTotal
import PymaVerif.Proofs.ValidateBridge

namespace Pyma
namespace Props
open Validate

/-- a configuration without any ill-posed feature, spelled out -/
def WellPosed (c : Config) : Prop :=
  ∀ ch ∈ checks c, ch.1 = false

instance (c : Config) : Decidable (WellPosed c) := by unfold WellPosed; infer_instance

/-- **C20** the set-up phase accepts exactly the configurations in which no check fires -/
theorem C20_setup_ok_iff_aux (c : Config) (hmask : ∀ o, maskFault c.hermitian (dictOf (fdNorm c)) = some o → o ≠ .ok) :
    setup c = .ok ↔ WellPosed c := by
  unfold setup WellPosed
  constructor
  · intro h
    cases hf : (checks c).find? (·.1) with
    | none => exact fun ch hch => by simpa using (List.find?_eq_none.mp hf) ch hch
    | some x =>
      rw [hf] at h
      exfalso
      have hx1 := List.find?_some hf
      have hmem := List.mem_of_find?_eq_some hf
      simp only [checks, List.mem_cons, List.not_mem_nil, or_false] at hmem
      rcases hmem with rfl | rfl | rfl | rfl | rfl | rfl | rfl | rfl | rfl | rfl | rfl | rfl | rfl | rfl | rfl | rfl <;>
        simp only at h <;> try (exact absurd h (by decide))
      -- the mask entry: its outcome is whatever `maskFault` found
      simp only [Option.isSome_iff_exists] at hx1
      obtain ⟨o, ho⟩ := hx1
      rw [ho] at h
      exact hmask o ho (by simpa using h)
  · intro h
    have : (checks c).find? (·.1) = none := List.find?_eq_none.mpr fun ch hch => by simpa using h ch hch
    rw [this]

/-- `maskFault` never reports `ok` -/
theorem maskFault_ne_ok (herm : Bool) (l : List (Nat × Bool × Bool × Bool)) (o : Outcome)
    (h : maskFault herm l = some o) : o ≠ .ok := by
  induction l with
  | nil => simp [maskFault] at h
  | cons x rest ih =>
    obtain ⟨b, isArr, sym, e⟩ := x
    unfold maskFault at h
    split at h
    · cases h; decide
    · split at h
      · cases h; decide
      · exact ih h

/-- **C20** acceptance characterised without side condition -/
theorem C20_accepts_exactly_wellposed (c : Config) : setup c = .ok ↔ WellPosed c :=
  C20_setup_ok_iff_aux c fun o h => maskFault_ne_ok _ _ o h

/-- whichever check fires, what it raises is an error of one of the three announced classes -/
theorem C20_rejection_is_an_error (c : Config) (h : ¬ WellPosed c) :
    ∃ s, setup c = .valueError s ∨ setup c = .typeError s ∨ setup c = .notImplemented s := by
  have hne : setup c ≠ .ok := fun hok => h ((C20_accepts_exactly_wellposed c).mp hok)
  cases hs : setup c with
  | ok => exact absurd hs hne
  | valueError s => exact ⟨s, .inl rfl⟩
  | typeError s => exact ⟨s, .inr (.inl rfl)⟩
  | notImplemented s => exact ⟨s, .inr (.inr rfl)⟩

/-- a check that fires means rejection -/
theorem rejected_of_check (c : Config) (ch : Bool × Outcome) (hmem : ch ∈ checks c) (hfire : ch.1 = true) :
    setup c ≠ .ok := by
  intro hok
  have := (C20_accepts_exactly_wellposed c).mp hok ch hmem
  rw [hfire] at this; cases this

/-- **C20** `H_0` not block diagonal ⇒ rejected at set-up.  The offending block `(i, j)`, `i ≠ j`, may lie on either side of the
diagonal in non-Hermitian mode; in Hermitian mode the input is Hermitian, so its zero pattern is symmetric (`hsym`) and the
inspection of the upper triangle suffices. -/
theorem C20_not_block_diagonal (c : Config) (i j : Nat) (hi : i < c.nblocks) (hj : j < c.nblocks) (hij : i ≠ j)
    (hnz : c.offAt i j = .nonzero) (hsym : c.hermitian = true → c.offAt j i = .nonzero) :
    setup c ≠ .ok := by
  apply rejected_of_check c (offFault c, .valueError "H_0 is not block diagonal")
  · simp [checks]
  · show offFault c = true
    unfold offFault
    rw [List.any_eq_true]
    have key : ∀ a b : Nat, a < c.nblocks → b < c.nblocks → (a == b || (c.hermitian && decide (a > b))) = false →
        (a, b) ∈ inspected c := by
      intro a b ha hb hcond
      unfold inspected
      rw [List.mem_flatMap]
      refine ⟨a, List.mem_range.mpr ha, ?_⟩
      rw [List.mem_filterMap]
      refine ⟨b, List.mem_range.mpr hb, ?_⟩
      simp only [hcond]
      rfl
    by_cases hh : c.hermitian = true
    · rcases Nat.lt_or_gt_of_ne hij with hlt | hgt
      · refine ⟨(i, j), key i j hi hj ?_, by simp [hnz]⟩
        have : ¬ i > j := by omega
        simp [hij, this]
      · refine ⟨(j, i), key j i hj hi ?_, by simp [hsym hh]⟩
        have : ¬ j > i := by omega
        simp [Ne.symm hij, this]
    · have hf : c.hermitian = false := by simpa using hh
      refine ⟨(i, j), key i j hi hj ?_, by simp [hnz]⟩
      simp [hij, hf]

/-- **C20** identically zero diagonal of `H_0` ⇒ rejected -/
theorem C20_zero_diagonal (c : Config) (h : c.diagAllZero = true) : setup c ≠ .ok :=
  rejected_of_check c (c.diagAllZero, .valueError "the diagonal of H_0 is zero") (by simp [checks]) h

/-- **C20** eigenvectors that are not (bi)orthonormal ⇒ rejected -/
theorem C20_not_biorthonormal (c : Config) (hv : c.vectors = true) (h : c.biorthonormal = false) : setup c ≠ .ok :=
  rejected_of_check c (c.vectors && !c.biorthonormal, .valueError "eigenvectors not (bi)orthonormal") (by simp [checks])
    (by simp [hv, h])

/-- **C20** `(right, left)` pairs in Hermitian mode ⇒ rejected -/
theorem C20_pairs_in_hermitian_mode (c : Config) (hv : c.vectors = true) (hh : c.hermitian = true) (hp : c.pairForm = true) :
    setup c ≠ .ok :=
  rejected_of_check c (c.vectors && c.hermitian && c.pairForm, .valueError "(right, left) pairs in Hermitian mode")
    (by simp [checks]) (by simp [hv, hh, hp])

/-- **C20** mutually exclusive options: a custom Sylvester solver together with `fully_diagonalize` ⇒ NotImplementedError, and
this is the first check, so nothing else is reported instead -/
theorem C20_exclusive_options (c : Config) (hs : c.customSolver = true) (hf : c.fd.truthy = true) :
    setup c = .notImplemented "full diagonalization with a custom Sylvester solver" := by
  simp [setup, checks, hs, hf]

theorem maskFault_isSome_of_asym (l : List (Nat × Bool × Bool × Bool)) (b : Nat) (isArr e : Bool)
    (hm : (b, isArr, false, e) ∈ l) : (maskFault true l).isSome = true := by
  induction l with
  | nil => cases hm
  | cons x rest ih =>
    obtain ⟨b', a', s', e'⟩ := x
    unfold maskFault
    rcases List.mem_cons.mp hm with h | h
    · cases h
      cases isArr <;> simp
    · cases a' <;> cases s' <;> simp [ih h]

/-- **C20** an asymmetric mask in Hermitian mode ⇒ rejected (dict form, any number of blocks) -/
theorem C20_asymmetric_mask (c : Config) (l : List (Nat × Bool × Bool × Bool)) (hfd : fdNorm c = .dict l)
    (hh : c.hermitian = true) (b : Nat) (isArr e : Bool) (hm : (b, isArr, false, e) ∈ l) : setup c ≠ .ok := by
  have hsome : (maskFault c.hermitian (dictOf (fdNorm c))).isSome = true := by
    rw [hfd, hh]
    exact maskFault_isSome_of_asym l b isArr e hm
  exact rejected_of_check c ((maskFault c.hermitian (dictOf (fdNorm c))).isSome,
    (maskFault c.hermitian (dictOf (fdNorm c))).getD .ok) (by simp [checks]) hsome

/-- **C20** a mask that eliminates a pair of equal unperturbed energies ⇒ rejected -/
theorem C20_mask_eliminates_degenerate_pair (c : Config) (l : List (Nat × Bool × Bool × Bool)) (hfd : fdNorm c = .dict l)
    (b : Nat) (isArr s : Bool) (hm : (b, isArr, s, true) ∈ l) : setup c ≠ .ok := by
  apply rejected_of_check c ((dictOf (fdNorm c)).any (·.2.2.2), .valueError "mask eliminates a degenerate pair")
  · simp [checks]
  · rw [hfd]
    show l.any (·.2.2.2) = true
    rw [List.any_eq_true]
    exact ⟨_, hm, rfl⟩

/-! ### non-vacuity and the two sides of the diagonal -/

/-- a well-posed two-block configuration … -/
def cfgOk : Config :=
  { hermitian := false, customSolver := false, legacySolver := false, fd := .empty, vectors := false, pairForm := false,
    biorthonormal := true, implicit := false, blockedInput := false, symbolicH0 := false, directSolver := true,
    arrayVectors := true, nblocks := 3, off := [], diagAllZero := false }
example : setup cfgOk = .ok := by decide
/-- … and the same with a non-zero block *below* the diagonal only (non-Hermitian mode): rejected -/
example : setup { cfgOk with off := [((2, 0), .nonzero)] } = .valueError "H_0 is not block diagonal" := by decide
/-- an undecided symbolic block is not a rejection (the code warns and assumes zero) -/
example : setup { cfgOk with off := [((0, 1), .unknown)] } = .ok := by decide
example : setup { cfgOk with hermitian := true, fd := .dict [(1, true, false, false)] } = .valueError "mask is not symmetric" := by
  decide

/-! ### shared unperturbed energies: rejection at the first evaluation that needs the pair -/

open Dsl Generated BlockDiag BlockDiag.Problem
variable {K : Type} [Field K] [StarRing K] [DecidableEq K] [Thresholds K]
attribute [local instance] Scalar.ofField
variable (p : Problem K)

/-- **C20** Hermitian algorithm: if blocks `i < j` share an energy, element `(i,j,n)` of `V` has a value only if it is pinned by
its start or the right-hand side handed to the solver is the `zero` sentinel (the blocks are not coupled at that order) -/
theorem C20_shared_hermitian (i j : Nat) (n : List Nat) (hij : i < j) (hsh : p.sharedPair i j = true) (v : SVal K)
    (h : Den main p.env "V" ⟨i, j, n⟩ v) :
    startVal p.env .zero ⟨i, j, n⟩ = some v ∨ DenE main p.env Vrhs ⟨i, j, n⟩ .zero :=
  p.C20_shared i j n hij hsh v h

/-- the same for what the executable evaluator returns, from any sound cache and with any fuel -/
theorem C20_shared_run (i j : Nat) (n : List Nat) (hij : i < j) (hsh : p.sharedPair i j = true)
    (fuel : Nat) (c c' : Cache K) (hc : CacheOK main p.env c) (v : SVal K)
    (hrun : getElem main p.env fuel "V" ⟨i, j, n⟩ c = .ok (v, c')) :
    startVal p.env .zero ⟨i, j, n⟩ = some v ∨ DenE main p.env Vrhs ⟨i, j, n⟩ .zero :=
  p.C20_shared_run i j n hij hsh fuel c c' hc v hrun

/-- **C20** non-Hermitian algorithm, both orientations of the pair -/
theorem C20_shared_nonhermitian (i j : Nat) (n : List Nat) (hij : i ≠ j) (hsh : p.sharedPair i j = true) (v : SVal K)
    (h : Den nonhermitian p.env "U'" ⟨i, j, n⟩ v) :
    startVal p.env .zero ⟨i, j, n⟩ = some v ∨ DenE nonhermitian p.env Urhs ⟨i, j, n⟩ .zero :=
  p.C20_shared_nh i j n hij hsh v h

/-- **C20** accepted problems are answered: the evaluator returns a value for every element of every series of `main` -/
theorem C20_accepted_answers (h : p.Accepted) (x : String) (hx : x ∈ mainNames) (idx : Idx) :
    ∃ fuel v c', getElem main p.env fuel x idx ∅ = .ok (v, c') :=
  Problem.driver_total h x hx idx

example : wShared.sharedPair 0 1 = true := wShared_shared

/-- **C20 ↔ C01** what the set-up phase checks of masks given by the caller is what the theorems C01–C04 need of them: if the model of the set-up phase
(`Validate.setup` on the facts computed from the problem, `configOf`) accepts, the masks are symmetric inside their blocks and select no entry between levels
equal within `atol` — the two mask clauses of `MasksOK` -/
theorem C20_accepted_masks_are_what_C01_needs [LawfulThresholds K] (hn : p.nblocks ≠ 1) (l : List (Nat × Array Bool)) (hfd : p.fd = .dict l) (hne : l ≠ [])
    (hok : Validate.setup p.configOf = .ok) :
    (∀ a b : Fin p.d, p.blk a.val = p.blk b.val → p.elim a.val b.val = p.elim b.val a.val) ∧
    (∀ a b : Fin p.d, p.blk a.val = p.blk b.val → p.elim a.val b.val = true → p.equalEigs a.val b.val = false) :=
  masks_ok_of_setup hn hfd hne hok

/-- **C20 → C01** … and so, for a well-formed input with masks of the caller, acceptance by the set-up phase puts the problem under C01: `U†·H·U = H̃` -/
theorem C20_accepted_problem_meets_C01 [LawfulThresholds K] (hin : p.InputFacts) (hn : p.nblocks ≠ 1) (l : List (Nat × Array Bool)) (hfd : p.fd = .dict l)
    (hne : l ≠ []) (hok : Validate.setup p.configOf = .ok) (h2 : (2 : K) ≠ 0) :
    p.sr "U†" * p.sr "H" * p.sr "U" = p.sr "H_tilde" :=
  Problem.C01 (accepted_of_setup hin hn hfd hne hok) h2

-- the dict-mask witness is accepted by the model of the set-up phase; a mask that selects a pair of equal levels (`wd` with both levels of its first block at 2) is not
example : Validate.setup wd.configOf = .ok := by decide +kernel
example : Validate.setup ({ wd with terms := [([0], ⟨4, #[2,0,0,0, 0,2,0,0, 0,0,5,0, 0,0,0,5]⟩)] } : Problem ℚ).configOf =
    .valueError "mask eliminates a degenerate pair" := by decide +kernel

end Props
end Pyma
