/-
Registry of the property theorems of the prototype, by property.  `#check` fails if a name disappears;
the audit script prints the axioms of every name listed here.
-/
import PymaVerif

open Pyma

-- C01  U†HU = H̃ on kept, 0 on eliminated
#check @BlockDiag.Problem.C01
#check @BlockDiag.Problem.C01_elim
#check @BlockDiag.Problem.driver_sound
#check @GRat.scalar_eq
#check @BlockDiag.Problem.w3_accepted
#check @BlockDiag.Problem.w2_accepted
-- C02  unitarity, adjoint pairing, H̃ Hermitian
#check @BlockDiag.Problem.C02
#check @BlockDiag.Problem.C02_Ht_herm
-- C03  least-action gauge and uniqueness
#check @BlockDiag.Problem.C03
#check @BlockDiag.Problem.C03_gauge
#check @TheoremU.unique
-- C04  spectrum
#check @BlockDiag.Problem.C04_traces
#check @BlockDiag.Problem.C04_truncated
#check @BlockDiag.Problem.C04_rayleigh_schrodinger
-- C05  non-Hermitian mode (partial) and the counterexample to the full statement
#check @BlockDiag.Problem.C05_partial
#check @BlockDiag.Problem.C05_hermitian_limit
#check @BlockDiag.Problem.D5_witness
#check @TheoremUN.unique
#check @BlockDiag.Problem.n2_accepted
-- C06 C07 C14  naturality
#check @Dsl.Den.map
#check @Dsl.sem_natural
-- C08  NumberOrderedForm
#check @Nof.rep_mul3
#check @Nof.specX_eq
#check @Nof.rep_add
#check @Nof.rep_adjoint
#check @Nof.adjoint_mul
#check @Nof.kernel_comp
#check @Nof.rep_mul_assoc
#check @Nof.rep_mul_add
#check @Nof.rep_add_mul
#check @Nof.rep_mul_one
#check @Nof.rep_one_mul
#check @Nof.rep_npow_succ
#check @Nof.wf2_mul
#check @Nof.wf2_adjoint
#check @Nof.roundtrip
#check @Nof.ampF'_gen
#check @Nof.rep_neg
#check @Nof.fermion_parity
-- C09  compilation
#check @Dsl.compiled_main_ok
#check @Dsl.compiled_nonhermitian_ok
#check @Dsl.compile_sound
#check @Dsl.getElem_sound
#check @Dsl.getElem_complete
#check @Dsl.Holds.det
#check @Dsl.total
#check @BlockDiag.Problem.total_main
#check @BlockDiag.Problem.total_nh
-- C10 C11 C19  the BlockSeries machine
#check @Machine.sound
#check @Machine.no_leftover
#check @Machine.log_nodup
-- C12  causality
#check @Dsl.Den.causal
-- C13 C15  transport
#check @TheoremU.transport
#check @BlockDiag.Problem.C15_shift
#check @BlockDiag.Problem.C13_scale
#check @BlockDiag.Problem.C13_permute
#check @degree_domCongr
#check @BlockDiag.Problem.C15_conjugation
#check @BlockDiag.Problem.C14_rotation
-- C06 implicit mode
#check @BlockDiag.Problem.C06_implicit
#check @BlockDiag.Problem.implicit_offdiag_solver
#check @Dsl.sylvester_embedded_unique
#check @Dsl.isoM_mul
#check @Dsl.sem_natural
-- C16  solvers
#check @Greens.direct_solve
#check @BlockDiag.Problem.solveSem_sylvester
#check @Nof.solveScalar_spec
-- C17  projector
#check @Projector.apply_eq
#check @Projector.applyLeft_eq
#check @Projector.dense_adjoint
#check @Projector.dense_conjugate
#check @Projector.dense_transpose
#check @Projector.dense_idempotent
-- C18  Cauchy products
#check @Cauchy.prodLoop_ok
#check @half_sum_eq_full
#check @Dsl.Ser_product

-- C20  accepted problems are answered (model level)
#check @BlockDiag.Problem.driver_total
#check @BlockDiag.Problem.driver_total_nh
-- C20 shared eigenvalue ⇒ no value / error
#check @BlockDiag.Problem.C20_shared
#check @BlockDiag.Problem.C20_shared_run
#check @BlockDiag.Problem.C20_shared_nh
