/-
Property C11 — an exception during evaluation leaves the computation consistent and reusable.

Same model as C10 (`Model/Machine.lean`).  A *fault plan* `S.fault : Nat → Option Err` says which callback invocation (counted over
the whole history) raises which exception (`runtime` = RuntimeError family, re-raised wrapped; `user` = anything else including
BaseException-like ones).  The theorems hold for EVERY fault plan, every system of scripts, every crash point:
  * `C11_no_marker_left_behind`: no in-flight marker that was not there before a request survives it, whether it succeeds or fails;
  * `C11_fault_containment`: after any history of requests, failed ones included, every later successful read returns the value of the
    undisturbed computation (`den`) — no partially computed or stale value is ever returned;
  * `C11_reusable`: a request made again after the faults are over (any plan that does not fire any more) on the state left behind by
    any history behaves as on a cache whose cells are all correct.
Tied to the code by `harness/machine_corr.py` (random networks of series, fault plans with Exception / RuntimeError / BaseException at the
k-th callback, the whole observable history compared, leftover PENDING cells counted) and by the operator-fault phase of
`harness/cauchy_corr.py` (the multiplication callback raises; exception must propagate, the repeated request must give the clean value).
-/
import PymaVerif.Props.C10

namespace Pyma
namespace Props
open Machine

variable {V : Type}

/-- **C11** a request — successful or failed at any point — leaves no new in-flight marker behind -/
theorem C11_no_marker_left_behind (S : Sys V) (fuel : Nat) (s : SId) (i : Idx) (w : World V) :
    PendSub (getItem S fuel s i w).2 w :=
  (no_leftover S fuel).2 s i w

/-- … and so does any history of requests started from clean caches: no cell is ever left pending -/
theorem C11_history_leaves_no_marker (S : Sys V) (fuel : Nat) (reqs : List Req) (w : World V)
    (hw : ∀ s i, w.get s i ≠ some .pending) : ∀ s i, (replay S fuel reqs w).2.get s i ≠ some .pending := by
  induction reqs generalizing w with
  | nil => exact hw
  | cons r rest ih =>
    cases r with
    | get s i =>
      simp only [replay]
      apply ih
      intro s' i' h
      exact hw s' i' (C11_no_marker_left_behind S fuel s i w s' i' h)
    | pop s i =>
      simp only [replay]
      apply ih
      intro s' i' h
      rw [World.get_set] at h
      split at h
      · cases h
      · exact hw s' i' h

/-- **C11** fault containment: whatever the fault plan, every value returned at any point of any history is the value of the
undisturbed computation -/
theorem C11_fault_containment (S : Sys V) (den : SId → Idx → V) (hc : Consistent S den) (fuel : Nat) (reqs : List Req)
    (s : SId) (i : Idx) (v : V)
    (h : (s, i, Except.ok v) ∈ (replay S fuel reqs { cache := [], calls := 0, log := [] }).1) : v = den s i :=
  C10_history_independent S den hc fuel reqs s i v h

/-- **C11** reusable: the state left behind by any history (with any faults) is a state in which every cached value is correct and
nothing is pending — so a later request is indistinguishable from one on a fresh computation that has evaluated a subset of the elements -/
theorem C11_reusable (S : Sys V) (den : SId → Idx → V) (hc : Consistent S den) (fuel : Nat) (reqs : List Req) :
    Inv den (replay S fuel reqs { cache := [], calls := 0, log := [] }).2 ∧
    ∀ s i, (replay S fuel reqs { cache := [], calls := 0, log := [] }).2.get s i ≠ some .pending :=
  ⟨(replay_inv S den hc fuel reqs _ (fun _ _ _ h => by simp [World.get] at h)).1,
   C11_history_leaves_no_marker S fuel reqs _ (fun _ _ h => by simp [World.get] at h)⟩

/-! non-vacuity: a system whose first callback raises a RuntimeError: the request fails (wrapped), the repetition succeeds -/
def faultySys : Sys Val where
  defs := fun _ _ => .user 0 [] fun _ => .pure (.num 3)
  isZero := fun v => v == .zero
  userSem := fun _ _ => .zero
  fault := fun k => if k == 0 then some (.runtime 0) else none

example : (replay faultySys 10 [.get 0 [1], .get 0 [1]] { cache := [], calls := 0, log := [] }).1
    = [(0, [1], .error .wrapped), (0, [1], .ok (.num 3))] := by rfl

end Props
end Pyma
