/-
Property C12 — lazy and causal: order `n` uses only Hamiltonian terms of order `≤ n`.

  * `C12_causal` (every program of the mini-language, hence both shipped algorithms and every flag setting): if two input series agree at
    all orders `≤ n` componentwise, every element at order `n` has the same value — "the returned value does not change when any other
    Hamiltonian term is altered".  Induction over derivations; the product rule only visits splittings of `n`.
  * `C12_each_term_at_most_once`: inputs are never deleted, so on the machine every input element is evaluated at most once (exactly-once
    theorem of the BlockSeries machine, pop-free scripts).
  * definition-time laziness (nothing but order zero is evaluated when the computation is defined) is a fact about the wiring in
    `block_diagonalize`/`series_computation`; it is decided by the correspondence `harness/lazy_corr.py` on a logging Hamiltonian (explicit and
    implicit set-ups, both algorithms, scalar / list / zipped-list requests, garbage and raising terms outside the cone).
-/
import PymaVerif.Proofs.Causal
import PymaVerif.Proofs.MachineOnce

namespace Pyma
namespace Props
open Dsl

variable {K : Type} [Scalar K]

/-- **C12** causality of the reference semantics, for every program -/
theorem C12_causal {p : Prog} {env : Env K} (inp : String → Idx → SVal K) {x : String} {idx : Idx} {v : SVal K}
    (h : Den p env x idx v) (hag : AgreeUpTo env inp idx.n) : Den p (env.withInput inp) x idx v :=
  Den.causal inp h hag

/-- the same for every kind of judgement (expressions, clause lists, product loops) -/
theorem C12_causal_all {p : Prog} {env : Env K} (inp : String → Idx → SVal K) {j : J K} {v : SVal K}
    (h : Holds p env j v) (hok : j.ok) (hag : AgreeUpTo env inp j.ord) : Holds p (env.withInput inp) j v :=
  Holds.causal inp h hok hag

/-- **C12** at most once: in any successful pop-free execution from empty caches no element is evaluated twice -/
theorem C12_each_term_at_most_once {V : Type} (S : Machine.Sys V) (hdefs : ∀ s i, Machine.NoPop (S.defs s i)) (f : Nat)
    (sc : Machine.Script V) (hsc : Machine.NoPop sc) (v : V) (h : (Machine.run S f sc ⟨[], 0, []⟩).1 = .ok v) :
    (Machine.run S f sc ⟨[], 0, []⟩).2.log.Nodup :=
  Machine.log_nodup S hdefs f sc hsc v h

end Props
end Pyma
