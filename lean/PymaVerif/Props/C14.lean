/-
Property C14 — all input formats and eigenbases give the same result.

What is a theorem here:
  * `C14_eigenbasis`: passing a unitary eigenbasis that differs from another one by a rotation `W` inside blocks / degenerate levels is equivalent to rotating
    the Hamiltonian first: every element of every series is rotated (`= C15_rotation`; a change of eigenbasis *between* different levels is not an allowed input,
    since `H_0` must be diagonal in the given basis);
  * `C14_carriers`: naturality of the reference semantics at the level of values (`Holds.map`): for every program, a family of value maps `φ` between two carriers
    (possibly over different scalar types) that commutes with the value operations and with the primitives of the two environments carries derivations to
    derivations, sentinel tests included.  With `φ = id` on payloads this is "dense, sparse and symbolic carriers give the same element whenever their primitives
    (`+`, `@`, adjoint, division by integers, masks, solver) agree" — agreement of the primitives themselves is what the correspondence tests.
  * `C14_taylor_expansion`: the Taylor expansion the code performs on a SymPy matrix with symbols (model `Taylor.term`: normalised derivatives through the
    first symbol of non-zero order, divided by that order, evaluated at the origin) returns, for a polynomial entry, exactly the coefficient of the monomial of
    each multi-order — mixed orders `x^a y^b` included (`1/(a! b!)`, not `1/(a+b)!`).  Tied to `_sympy_to_BlockSeries` by `harness/taylor_corr.py`.
What is correspondence only (input normalisation is glue around SymPy / SciPy objects, not re-modelled): list / dict / monomial-key / nested-block / BlockSeries /
SymPy-matrix inputs with Taylor expansion, `subspace_indices` vs eigenvector matrices, `operator_to_BlockSeries = L_i† A R_j` — `harness/format_corr.py`
(13 formats incl. mixed orders, analytic dependence, both symbol orders, interleaved indices) and the presentation variants of `harness/bd_corr.py` (carriers incl.
legacy sparse matrices and mixtures, integer `H_0`, containers, designations, rotated eigenbasis) against the exact model.  PARTIAL in that sense.
-/
import PymaVerif.Proofs.FormatsThm
import PymaVerif.Props.C15
import PymaVerif.Proofs.Natural
import PymaVerif.Proofs.TaylorThm

namespace Pyma
namespace Props
open Dsl Generated BlockDiag BlockDiag.Problem

section
variable {K : Type} [Field K] [StarRing K] [DecidableEq K] [Thresholds K]
attribute [local instance] Scalar.ofField

/-- **C14** a rotated eigenbasis is equivalent to rotating the Hamiltonian -/
theorem C14_eigenbasis (p : Problem K) (ts : List (List ℕ × Mat K)) (hwf : p.WF) (hwf' : (p.withTerms ts).WF) (hns : p.NoShared)
    (hns' : (p.withTerms ts).NoShared) (W : MatK K p.blocks) (hW : p.Compatible W)
    (hen : ∀ a : ℕ, (p.withTerms ts).energy a = p.energy a)
    (hin : ∀ idx : Idx, sem (p.withTerms ts).blocks idx ((p.withTerms ts).inputH idx) = p.rotM ts W (sem p.blocks idx (p.inputH idx)))
    (x : String) (hx : x ∈ mainNames) (idx : Idx) :
    mat (p.withTerms ts).blocks main (p.withTerms ts).env x idx = p.rotM ts W (mat p.blocks main p.env x idx) :=
  C15_rotation p ts hwf hwf' hns hns' W hW hen hin x hx idx
end

/-- **C14** carriers: value-level naturality of the semantics, for every program and between any two scalar types -/
theorem C14_carriers {K K' : Type} [Scalar K] [Scalar K'] {φ : Idx → SVal K → SVal K'} {p : Prog} {env : Env K} {env' : Env K'}
    (hφ : ValMap φ) (hone : ∀ idx : Idx, φ idx .one = .one) (henv : EnvMap φ env env') {j : J K} {v : SVal K} (h : Holds p env j v) :
    Holds p env' (J.map φ j) (φ j.idx v) :=
  Holds.map hφ hone henv h

/-- **C14** Taylor expansion of a polynomial entry: the term of multi-order `n` is the coefficient of the monomial `n` -/
theorem C14_taylor_expansion (c : Taylor.Coef) (n : List Nat) : Taylor.term c n = c n := Taylor.term_eq_coeff c n

example : Taylor.term (Taylor.ofMonomials [([1, 1], 5), ([2, 1], 7), ([0, 0], 1)]) [2, 1] = 7 := by
  rw [C14_taylor_expansion]; decide +kernel

/-- **C14** designation by `subspace_indices`: every state belongs to exactly the block its label names, and inside a block the states
keep their order of appearance (so the blocks are the ones the corresponding eigenvector matrices — columns of the identity — give) -/
theorem C14_subspace_indices (labels : List Nat) :
    (∀ a (ha : a < labels.length), ∃ hb : labels[a] < (Formats.subspaces labels).length, a ∈ (Formats.subspaces labels)[labels[a]] ∧
        ∀ b (hb' : b < (Formats.subspaces labels).length), a ∈ (Formats.subspaces labels)[b] → b = labels[a]) ∧
    ∀ blk ∈ Formats.subspaces labels, blk.Pairwise (· < ·) := by
  refine ⟨fun a ha => Formats.subspaces_partition labels a ha, ?_⟩
  intro blk hblk
  obtain ⟨b, _, rfl⟩ := List.mem_map.mp hblk
  exact Formats.blockStates_sorted labels b

example : Formats.subspaces [1, 0, 1, 3, 0] = [[1, 4], [0, 2], [], [3]] := by decide

end Props
end Pyma
