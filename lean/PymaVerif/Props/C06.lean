/-
Property C06 — implicit (incomplete eigenvectors) mode equals the explicit computation.  PARTIAL.

Proved (Hermitian algorithm `main`): `C06_implicit` — let `E` be a block-compatible isometry (`E†E = 1`; concretely `1_A ⊕ Ψ_B`, the columns of `Ψ_B` spanning the
implicit subspace in the ambient space) and let `env'` be ANY environment meeting the specification `ImplicitSpec`: its inputs are the embedded explicit inputs
`E·X·E†`; on off-diagonal block pairs its solver returns *some* solution of the projected Sylvester equation that lies in the range of the projector `E·E†` — no
formula for the solver is assumed, which is exactly what `direct_greens_function` delivers (C16) —; on diagonal blocks (reached only for fully diagonalised,
hence explicit, blocks) solver and masks commute with the embedding.  Then every series of `main` other than `U`, `U†` has, at every block and every order, the
embedded value of the explicit run: `mat' x idx = E · mat x idx · E†`.  (`U`, `U†` start with the `one` sentinel on diagonal blocks, which has no counterpart in the
implicit carrier; they agree modulo the projector — covered by `U'`, `U'†` being in the theorem.)
Key lemma `C06_embedded_solution_unique`: a solution of the projected equation in the range of the projector, supported on the block pair, IS the embedding of the
explicit solution (pull back with `E†·E`, entrywise uniqueness for separated energies).  `C06_spec_consistent`: the specification is met by the explicit
environment itself with `E = 1`.
`C06_ambient_solution_meets_spec` + C16's `C16_direct_greens_function`, `C16_direct_right/left_implicit`: the equation and range clauses of the solver part of
the specification follow from the contract of `direct_greens_function` (the code solves with the ambient `H_0`, never with the projected one).
Not proved: that an *executable* model of the whole implicit environment (ComplementProjector products for the inputs, the support clause, LU solves) meets `ImplicitSpec`; the non-Hermitian
algorithm; KPM.  These rest on the correspondence `harness/implicit_corr.py` (implicit vs explicit real runs: Hermitian and non-Hermitian, arbitrary vector order,
degenerate levels, direct solver and KPM with/without auxiliary vectors, all blocks incl. both orientations of the implicit one).
-/
import PymaVerif.Proofs.Implicit
import PymaVerif.Proofs.Isometry

namespace Pyma
namespace Props
open Dsl Generated BlockDiag BlockDiag.Problem

variable {K : Type} [Field K] [StarRing K] [DecidableEq K] [Thresholds K]
attribute [local instance] Scalar.ofField

/-- **C06** implicit = explicit, embedded: every series of `main` except `U`, `U†`, every block, every order -/
theorem C06_implicit (p : Problem K) {B' : Blocks} {E : Matrix (Fin B'.d) (Fin p.blocks.d) K}
    (hgt : ∀ (x : K) (t : ℚ), Thresholds.absGt x t = true → x ≠ 0) (hwf : p.WF) (hns : p.NoShared) (env' : Env K) (S' : EnvSem B' env')
    (hspec : p.ImplicitSpec E hwf env' S') (hok : EnvOK B' env') (htot : EnvTot mainCert env') (x : String) (hx : x ∈ mainCertNoU.names)
    (idx : Idx) :
    mat B' main env' x idx = isoM E (mat p.blocks main p.env x idx) :=
  Problem.C06_implicit p hgt hwf hns env' S' hspec hok htot x hx idx

/-- the series the theorem covers: all of `main` but the two that start with the identity; in particular the outputs `H_tilde`, `U'`, `U'†` -/
example : "H_tilde" ∈ mainCertNoU.names ∧ "U'" ∈ mainCertNoU.names ∧ "U'†" ∈ mainCertNoU.names ∧ "V" ∈ mainCertNoU.names ∧
    "U" ∉ mainCertNoU.names ∧ mainCertNoU.names.length + 2 = mainNames.length := by decide

/-- **C06** a solution of the projected Sylvester equation in the range of the projector is the embedded explicit solution -/
theorem C06_embedded_solution_unique {B B' : Blocks} {E : Matrix (Fin B'.d) (Fin B.d) K} (hE : Isometry E) (en : Fin B.d → K) (i j : ℕ)
    (hsep : ∀ a b : Fin B.d, B.blk a.val = i → B.blk b.val = j → en a ≠ en b) (Y V : MatK K B) (hV : SuppM B i j V)
    (hVeq : Matrix.diagonal en * V - V * Matrix.diagonal en = Y) (V' : MatK K B') (hrange : proj E * V' * proj E = V')
    (hV' : SuppM B' i j V') (hV'eq : isoM E (Matrix.diagonal en) * V' - V' * isoM E (Matrix.diagonal en) = isoM E Y) :
    V' = isoM E V :=
  sylvester_embedded_unique hE en i j hsep Y V hV hVeq V' hrange hV' hV'eq

/-- **C06** what the direct solver delivers is what the specification asks: the code solves with the *ambient* `H_0` (it never forms the projected one); since that
commutes with the projector and compresses to the embedded `H_0`, an ambient solution in the range of the projector solves the projected Sylvester equation of
`ImplicitSpec.solver_off`.  Together with `C16_direct_greens_function` (each constrained solve returns the solution in the range) and
`C16_direct_right_implicit` / `C16_direct_left_implicit` (the rows / columns assemble to the ambient equation) this derives the equation and range clauses of the
specification from the contract of `direct_greens_function`. -/
theorem C06_ambient_solution_meets_spec {B B' : Blocks} {E : Matrix (Fin B'.d) (Fin B.d) K} (hE : Isometry E) (A' V' Y' H0' : MatK K B')
    (hcomm : proj E * A' = A' * proj E) (hcomp : proj E * A' * proj E = H0') (hrange : proj E * V' * proj E = V')
    (hamb : A' * V' - V' * A' = Y') : H0' * V' - V' * H0' = Y' :=
  ambient_to_projected hE A' V' Y' H0' hcomm hcomp hrange hamb

/-- non-vacuity: the explicit environment meets the specification with the identity embedding -/
theorem C06_spec_consistent (p : Problem K) (hgt : ∀ (x : K) (t : ℚ), Thresholds.absGt x t = true → x ≠ 0) (hwf : p.WF)
    (hsep : ∀ i j : ℕ, i ≠ j → ∀ a b : Fin p.d, p.blk a.val = i → p.blk b.val = j →
      Thresholds.absGt (p.energy a.val - p.energy b.val) p.atol = true) :
    p.ImplicitSpec 1 hwf p.env (p.envSem hwf) :=
  Problem.implicitSpec_refl p hgt hwf hsep

end Props
end Pyma
