/-
Property C03 — the result is the unique least-action (Schrieffer–Wolff) transformation.
Same subject and quantification as C01.  The gauge: the anti-Hermitian part of `U − 1` has no kept entry.
Uniqueness: *any* series `U₂` starting with the identity that is unitary, satisfies the gauge and eliminates the
non-kept entries of `U₂† H U₂` is the computed `U` — hence any independent order-by-order solver of the defining
equations returns the same `U`, `U†` and `H̃`.
-/
import PymaVerif.Proofs.MainUnique
import PymaVerif.Proofs.Witness
import PymaVerif.Proofs.LevelsThm

namespace Pyma
namespace Props
open Dsl Generated MvPowerSeries BlockDiag BlockDiag.Problem

variable {K : Type} [Field K] [StarRing K] [DecidableEq K] [Thresholds K] [LawfulThresholds K]
attribute [local instance] Scalar.ofField
variable {p : Problem K}

/-- **C03** gauge: `U − U†` (twice the anti-Hermitian part of `U − 1`) has no kept entry, at any order -/
theorem C03_gauge (h : p.Accepted) (h2 : (2 : K) ≠ 0) (m : Fin p.nparams →₀ ℕ) (a b : Fin p.d)
    (hk : p.keptE a.val b.val = true) : coeff m (p.sr "U" - p.sr "U†") a b = 0 := by
  have hg := p.C03_gauge h.ready h.sym h.acc h2 m a b hk
  have hadj := (Problem.C02 h h2).2.2
  have hU := p.sr_U h.ready
  rw [← hadj, hU]
  have : (1 : Sr (Fin p.nparams) K p.d) + p.sr "U'" - star (1 + p.sr "U'") = p.sr "U'" - star (p.sr "U'") := by
    rw [star_add, star_one]; abel
  rw [this]; exact hg

/-- **C03** the computed `U' = U − 1` solves the defining equations and is the only solution -/
theorem C03_defining_equations (h : p.Accepted) (h2 : (2 : K) ≠ 0) :
    TheoremU.Sol (p.ctx h.ready h.acc h2) (p.sr "U'") ∧
    ∀ P₂, TheoremU.Sol (p.ctx h.ready h.acc h2) P₂ → P₂ = p.sr "U'" :=
  p.C03 h h2

/-- **C03** uniqueness in self-contained form -/
theorem C03_unique (h : p.Accepted) (h2 : (2 : K) ≠ 0) (U₂ : Sr (Fin p.nparams) K p.d)
    (h0 : coeff 0 U₂ = 1)
    (hunit : star U₂ * U₂ = 1)
    (hgauge : ∀ m (a b : Fin p.d), p.keptE a.val b.val = true → coeff m (U₂ - star U₂) a b = 0)
    (helim : ∀ m (a b : Fin p.d), p.keptE a.val b.val = false → coeff m (star U₂ * p.sr "H" * U₂) a b = 0) :
    U₂ = p.sr "U" := by
  have hU := p.sr_U h.ready
  have e1 : (1 : Sr (Fin p.nparams) K p.d) + (U₂ - 1) = U₂ := by abel
  have es : (1 : Sr (Fin p.nparams) K p.d) + star (U₂ - 1) = star U₂ := by rw [star_sub, star_one]; abel
  have hsol : TheoremU.Sol (p.ctx h.ready h.acc h2) (U₂ - 1) := by
    refine ⟨?_, ?_, ?_, ?_⟩
    · intro m hm
      have hm0 : m = 0 := by
        have : m.degree = 0 := by omega
        exact (Finsupp.degree_eq_zero_iff m).mp this
      subst hm0
      rw [map_sub, h0]; simp
    · rw [es, e1]; exact hunit
    · show p.SelS _ = 0
      ext m a b
      rw [coeff_SelS]
      have : U₂ - 1 - star (U₂ - 1) = U₂ - star U₂ := by rw [star_sub, star_one]; abel
      rw [this]
      by_cases hk : p.keptE a.val b.val = true
      · simp only [hk, ↓reduceIte]; exact hgauge m a b hk
      · simp [hk]
    · have hH : p.H0s + (p.sr "H'_diag" + p.sr "H'_offdiag") = p.sr "H" := by
        rw [p.sr_H h.ready h.acc]; abel
      have hx : (1 + star (U₂ - 1)) * ((p.ctx h.ready h.acc h2).H0 + (p.ctx h.ready h.acc h2).H') * (1 + (U₂ - 1))
          = star U₂ * p.sr "H" * U₂ := by
        rw [es, e1]
        show star U₂ * (p.H0s + (p.sr "H'_diag" + p.sr "H'_offdiag")) * U₂ = _
        rw [hH]
      rw [hx]
      show _ - p.SelS _ = 0
      ext m a b
      rw [map_sub, Matrix.sub_apply, coeff_SelS]
      by_cases hk : p.keptE a.val b.val = true
      · simp [hk]
      · have hk' : p.keptE a.val b.val = false := by simpa using hk
        simp only [hk', Bool.false_eq_true, ↓reduceIte, sub_zero]
        simpa using helim m a b hk'
  have := (C03_defining_equations h h2).2 _ hsol
  rw [hU, ← this]; abel

/-- the computed `U` itself meets the four conditions of `C03_unique` (so the theorem is not vacuous) -/
theorem C03_computed_meets_conditions (h : p.Accepted) (h2 : (2 : K) ≠ 0) :
    coeff 0 (p.sr "U") = 1 ∧ star (p.sr "U") * p.sr "U" = 1 ∧
    (∀ m (a b : Fin p.d), p.keptE a.val b.val = true → coeff m (p.sr "U" - star (p.sr "U")) a b = 0) ∧
    (∀ m (a b : Fin p.d), p.keptE a.val b.val = false →
      coeff m (star (p.sr "U") * p.sr "H" * p.sr "U") a b = 0) := by
  obtain ⟨u1, _, hadj⟩ := Problem.C02 h h2
  refine ⟨?_, ?_, ?_, ?_⟩
  · rw [p.sr_U h.ready, map_add]
    have := p.F1_P h.ready (0 : Fin p.nparams →₀ ℕ) (by simp)
    rw [this, add_zero]; rfl
  · rw [hadj]; exact u1
  · intro m a b hk; rw [hadj]; exact C03_gauge h h2 m a b hk
  · intro m a b hk; rw [hadj]; exact Problem.C01_elim h h2 m a b hk

example : ∀ m (a b : Fin wd.d), wd.keptE a.val b.val = true → coeff m (wd.sr "U" - wd.sr "U†") a b = 0 :=
  fun m a b hk => C03_gauge wd_accepted (by norm_num) m a b hk

/-- **C03** uniqueness for every well-formed input with the list form (or the absence) of `fully_diagonalize` — no condition on the masks, which the model of
the code constructs — and for masks of the caller that pass the two checks of `block_diagonalize` -/
theorem C03_unique_every_list_form_problem (h : p.InputOK) (h2 : (2 : K) ≠ 0) (U₂ : Sr (Fin p.nparams) K p.d) (h0 : coeff 0 U₂ = 1)
    (hunit : star U₂ * U₂ = 1)
    (hgauge : ∀ m (a b : Fin p.d), p.keptE a.val b.val = true → coeff m (U₂ - star U₂) a b = 0)
    (helim : ∀ m (a b : Fin p.d), p.keptE a.val b.val = false → coeff m (star U₂ * p.sr "H" * U₂) a b = 0) : U₂ = p.sr "U" :=
  C03_unique h.accepted h2 U₂ h0 hunit hgauge helim

theorem C03_unique_every_masked_problem (h : p.MasksOK) (h2 : (2 : K) ≠ 0) (U₂ : Sr (Fin p.nparams) K p.d) (h0 : coeff 0 U₂ = 1)
    (hunit : star U₂ * U₂ = 1)
    (hgauge : ∀ m (a b : Fin p.d), p.keptE a.val b.val = true → coeff m (U₂ - star U₂) a b = 0)
    (helim : ∀ m (a b : Fin p.d), p.keptE a.val b.val = false → coeff m (star U₂ * p.sr "H" * U₂) a b = 0) : U₂ = p.sr "U" :=
  C03_unique h.accepted h2 U₂ h0 hunit hgauge helim

end Props
end Pyma
