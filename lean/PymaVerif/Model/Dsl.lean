/-
The series mini-language: deep embedding and an executable reference evaluator
(DESIGN.md Appendix B).  Core Lean only.
-/
import PymaVerif.Model.Mat
import Std.Data.HashMap

namespace Pyma
namespace Dsl

/-! ## Syntax -/

inductive Flag where
  | name (s : String)          -- `two_block_optimized`
  | indexed (s : String)       -- `commuting_blocks[index[0]]`
  deriving DecidableEq, Repr, Inhabited

inductive Expr where
  | ser (x : String)                       -- "X"
  | adj (x : String)                       -- "X".adj
  | neg (e : Expr)
  | add (a b : Expr)
  | sub (a b : Expr)
  | divInt (e : Expr) (k : Int)            -- e / k
  | callSer (f : String) (x : String)      -- f("X")
  | callExpr (f : String) (e : Expr)       -- f(e)
  | zero
  | ite (flag : Flag) (t e : Expr)         -- t if flag else e
  deriving DecidableEq, Repr, Inhabited

inductive Cond where
  | default | diagonal | offdiagonal | lower
  deriving DecidableEq, Repr, Inhabited

inductive Stmt where
  | marker (antihermitian : Bool)
  | clause (c : Cond) (e : Expr)
  deriving DecidableEq, Repr, Inhabited

inductive Start where
  | none | zero | one | input (x : String)
  deriving DecidableEq, Repr, Inhabited

structure SeriesDef where
  name : String
  start : Start
  body : List Stmt
  deriving DecidableEq, Repr, Inhabited

structure ProdDef where
  terms : List String
  hermitian : Bool
  deriving DecidableEq, Repr, Inhabited

structure Prog where
  series : List SeriesDef
  products : List ProdDef
  outputs : List String
  deriving DecidableEq, Repr, Inhabited

/-! ## Values and indices -/

/-- A series element: the two sentinels or a matrix. -/
inductive SVal (K : Type) where
  | zero
  | one
  | val (m : Mat K)
  deriving Inhabited

structure Idx where
  i : Nat
  j : Nat
  n : List Nat
  deriving DecidableEq, Repr, Inhabited, Hashable

def Idx.swap (x : Idx) : Idx := ⟨x.j, x.i, x.n⟩
def Idx.isOrderZero (x : Idx) : Bool := x.n.all (· == 0)

inductive Err where
  | fuel
  | cycle (name : String) (idx : Idx)
  | unknown (name : String)
  | oneInArithmetic
  | scope (msg : String)
  deriving Repr, Inhabited

/-- all splits `a + b = n` in `itertools.product` order -/
def splits : List Nat → List (List Nat × List Nat)
  | [] => [([], [])]
  | n :: ns => (List.range (n+1)).flatMap fun a =>
      (splits ns).map fun (as, bs) => (a :: as, (n - a) :: bs)

def cost (n : List Nat) : Nat := n.foldl (fun acc x => acc * (x+1) * (x+1)) 1

/-! ## Environment -/

structure Env (K : Type) where
  d : Nat
  nblocks : Nat
  /-- identity on block `i` (for the `one` sentinel) -/
  blockOne : Nat → Mat K
  input : String → Idx → SVal K
  inputs : List String
  /-- scope functions; the argument is either a series name or a value -/
  fn : String → (String ⊕ SVal K) → Idx → Except Err (SVal K)
  flagName : String → Bool
  flagIdx : String → Nat → Bool
  diag : SVal K → Idx → SVal K
  offdiag : Option (SVal K → Idx → SVal K)

variable {K : Type} [Scalar K]

/-! ## Arithmetic on values (`_zero_sum`, `_safe_divide`, `Dagger`, unary minus) -/

def SVal.isZeroS : SVal K → Bool
  | .zero => true
  | _ => false

def vadd : SVal K → SVal K → Except Err (SVal K)
  | .zero, y => pure y
  | x, .zero => pure x
  | .val a, .val b => pure (.val (a.add b))
  | _, _ => throw .oneInArithmetic

def vneg : SVal K → Except Err (SVal K)
  | .zero => pure .zero
  | .val a => pure (.val a.neg)
  | .one => throw .oneInArithmetic

def vadj : SVal K → SVal K
  | .zero => .zero
  | .one => .one
  | .val a => .val a.adj

def vdiv : SVal K → Int → Except Err (SVal K)
  | .zero, _ => pure .zero
  | .val a, k => pure (.val (a.divInt k))
  | .one, _ => throw .oneInArithmetic

def vsub (x y : SVal K) : Except Err (SVal K) := do
  let y' ← vneg y
  vadd x y'

/-- contribution of the lower-triangle fill to the accumulator -/
def markerVal (anti : Bool) (acc v : SVal K) : Except Err (SVal K) := do
  let v' ← if anti then vneg (vadj v) else pure (vadj v)
  vadd acc v'

/-- product of two elements with `one` neutral; `zero` never reaches here -/
def vmul : SVal K → SVal K → SVal K
  | .one, y => y
  | x, .one => x
  | .val a, .val b => .val (a.mul b)
  | _, _ => .zero

/-! ## Evaluator

Explicit state passing (`Cache → Except Err (α × Cache)`), structural recursion only, so that the
soundness proof against the relational semantics (`Proofs/DslSound.lean`) is a plain induction.
-/

abbrev Cache (K : Type) := Std.HashMap (String × Idx) (SVal K)
abbrev Res (K : Type) (α : Type) := Except Err (α × Cache K)
abbrev Lookup (K : Type) := String → Idx → Cache K → Res K (SVal K)

def evalFlag (env : Env K) (idx : Idx) : Flag → Bool
  | .name s => env.flagName s
  | .indexed s => env.flagIdx s idx.i

def liftE {α} (x : Except Err α) (c : Cache K) : Res K α :=
  match x with
  | .ok v => .ok (v, c)
  | .error e => .error e

/-- expression evaluation, parametric in the element lookup -/
def evalExpr (env : Env K) (lookup : Lookup K) (idx : Idx) : Expr → Cache K → Res K (SVal K)
  | .ser x, c => lookup x idx c
  | .adj x, c =>
      match lookup x idx.swap c with
      | .ok (v, c) => .ok (vadj v, c)
      | .error e => .error e
  | .neg e, c =>
      match evalExpr env lookup idx e c with
      | .ok (v, c) => liftE (vneg v) c
      | .error e => .error e
  | .add a b, c =>
      match evalExpr env lookup idx a c with
      | .ok (x, c) =>
          match evalExpr env lookup idx b c with
          | .ok (y, c) => liftE (vadd x y) c
          | .error e => .error e
      | .error e => .error e
  | .sub a b, c =>
      match evalExpr env lookup idx a c with
      | .ok (x, c) =>
          match evalExpr env lookup idx b c with
          | .ok (y, c) => liftE (vsub x y) c
          | .error e => .error e
      | .error e => .error e
  | .divInt e k, c =>
      match evalExpr env lookup idx e c with
      | .ok (v, c) => liftE (vdiv v k) c
      | .error e => .error e
  | .callSer f x, c => liftE (env.fn f (.inl x) idx) c
  | .callExpr f e, c =>
      match evalExpr env lookup idx e c with
      | .ok (v, c) => liftE (env.fn f (.inr v) idx) c
      | .error e => .error e
  | .zero, c => .ok (.zero, c)
  | .ite fl t e, c =>
      if evalFlag env idx fl then evalExpr env lookup idx t c else evalExpr env lookup idx e c

def startVal (env : Env K) (st : Start) (idx : Idx) : Option (SVal K) :=
  if idx.isOrderZero then
    match st with
    | .none => none
    | .zero => some .zero
    | .one => if idx.i == idx.j then some .one else none
    | .input h => some (env.input h idx)
  else none

/-- evaluate `e`, transform the value, add it to `acc` -/
def addExpr (env : Env K) (lookup : Lookup K) (idx : Idx) (e : Expr) (wrap : SVal K → SVal K) (acc : SVal K)
    (c : Cache K) : Res K (SVal K) :=
  match evalExpr env lookup idx e c with
  | .ok (v, c) => liftE (vadd acc (wrap v)) c
  | .error err => .error err

/-- the statements of a `with` body, in order; `acc` is `result` -/
def evalBody (env : Env K) (lookup : Lookup K) (self : String) (idx : Idx) :
    List Stmt → SVal K → Cache K → Res K (SVal K)
  | [], acc, c => .ok (acc, c)
  | .marker anti :: rest, acc, c =>
      if idx.i > idx.j then
        match lookup self idx.swap c with
        | .ok (v, c) =>
            liftE (markerVal anti acc v) c
        | .error e => .error e
      else evalBody env lookup self idx rest acc c
  | .clause .lower e :: rest, acc, c =>
      if idx.i > idx.j then addExpr env lookup idx e id acc c
      else evalBody env lookup self idx rest acc c
  | .clause .diagonal e :: rest, acc, c =>
      if idx.i == idx.j then
        match addExpr env lookup idx e (fun v => env.diag v idx) acc c with
        | .ok (acc, c) => evalBody env lookup self idx rest acc c
        | .error err => .error err
      else evalBody env lookup self idx rest acc c
  | .clause .offdiagonal e :: rest, acc, c =>
      if idx.i != idx.j then
        match addExpr env lookup idx e id acc c with
        | .ok (acc, c) => evalBody env lookup self idx rest acc c
        | .error err => .error err
      else match env.offdiag with
        | some od =>
            match addExpr env lookup idx e (fun v => od v idx) acc c with
            | .ok (acc, c) => evalBody env lookup self idx rest acc c
            | .error err => .error err
        | none => evalBody env lookup self idx rest acc c
  | .clause .default e :: rest, acc, c =>
      match addExpr env lookup idx e id acc c with
      | .ok (acc, c) => evalBody env lookup self idx rest acc c
      | .error err => .error err

/-- the (middle block, left order, right order) triples of a product element, in Python's order -/
def pairsOf (nblocks : Nat) (n : List Nat) : List (Nat × List Nat × List Nat) :=
  (List.range nblocks).flatMap fun m => (splits n).map fun (na, nb) => (m, na, nb)

/-- plain (reference) Cauchy product of two named series at `idx`, lazily: the cheaper factor
first, the other one only if the first is not the `zero` sentinel -/
def evalPairs (lookup : Lookup K) (a b : String) (idx : Idx) :
    List (Nat × List Nat × List Nat) → SVal K → Cache K → Res K (SVal K)
  | [], acc, c => .ok (acc, c)
  | (m, na, nb) :: rest, acc, c =>
      let li : Idx := ⟨idx.i, m, na⟩
      let ri : Idx := ⟨m, idx.j, nb⟩
      if cost na ≤ cost nb then
        match lookup a li c with
        | .ok (l, c) =>
            if l.isZeroS then evalPairs lookup a b idx rest acc c
            else match lookup b ri c with
              | .ok (r, c) =>
                  if r.isZeroS then evalPairs lookup a b idx rest acc c
                  else match vadd acc (vmul l r) with
                    | .ok acc => evalPairs lookup a b idx rest acc c
                    | .error e => .error e
              | .error e => .error e
        | .error e => .error e
      else
        match lookup b ri c with
        | .ok (r, c) =>
            if r.isZeroS then evalPairs lookup a b idx rest acc c
            else match lookup a li c with
              | .ok (l, c) =>
                  if l.isZeroS then evalPairs lookup a b idx rest acc c
                  else match vadd acc (vmul l r) with
                    | .ok acc => evalPairs lookup a b idx rest acc c
                    | .error e => .error e
              | .error e => .error e
        | .error e => .error e

def findSeries (p : Prog) (x : String) : Option SeriesDef := p.series.find? (·.name == x)

def joinName (ts : List String) : String := String.intercalate " @ " ts

/-- the (left, right) factors of the product named `x`: a declared product or one of the
left-associated prefixes of a declared product with more than two factors -/
def findProduct (p : Prog) (x : String) : Option (String × String) :=
  p.products.findSome? fun pd =>
    (List.range (pd.terms.length + 1)).findSome? fun l =>
      if l ≥ 2 && joinName (pd.terms.take l) == x then
        some (joinName (pd.terms.take (l - 1)), pd.terms.getD (l - 1) "")
      else none

/-- what an element is defined by -/
inductive Kind where
  | input
  | series (d : SeriesDef)
  | product (a b : String)
  | unknown
  deriving DecidableEq

/-- `kindOf` as a function of the input names only -/
def kindI (p : Prog) (inputs : List String) (x : String) : Kind :=
  if inputs.contains x then .input
  else match findSeries p x with
    | some d => .series d
    | none => match findProduct p x with
      | some (a, b) => .product a b
      | none => .unknown

def kindOf (p : Prog) (env : Env K) (x : String) : Kind :=
  if env.inputs.contains x then .input
  else match findSeries p x with
    | some d => .series d
    | none => match findProduct p x with
      | some (a, b) => .product a b
      | none => .unknown

/-- the uncached value of an element -/
def compute (p : Prog) (env : Env K) (lookup : Lookup K) (x : String) (idx : Idx) (c : Cache K) : Res K (SVal K) :=
  match kindOf p env x with
  | .input => .ok (env.input x idx, c)
  | .series d =>
      match startVal env d.start idx with
      | some v => .ok (v, c)
      | none => evalBody env lookup x idx d.body .zero c
  | .product a b => evalPairs lookup a b idx (pairsOf env.nblocks idx.n) .zero c
  | .unknown => .error (.unknown x)

/-- memoised element evaluation; `fuel` bounds the recursion depth -/
def getElem (p : Prog) (env : Env K) : Nat → Lookup K
  | 0, _, _, _ => .error .fuel
  | fuel+1, x, idx, c =>
      match c.get? (x, idx) with
      | some v => .ok (v, c)
      | none =>
        match compute p env (getElem p env fuel) x idx c with
        | .ok (v, c) => .ok (v, c.insert (x, idx) v)
        | .error e => .error e

end Dsl
end Pyma
