/-
Operator expressions (the fragment of SymPy expressions that `NumberOrderedForm.from_expr` accepts
structurally: scalars, generators, number operators, functions of the number operators, sums, products, non-negative integer powers), the
model of `from_expr` on them, and the *direct* Fock action of an expression — composition of the
actions of its generators, with no normal ordering involved.  Core Lean only.
-/
import PymaVerif.Model.Nof

namespace Pyma
namespace Nof

inductive OpExpr where
  | scalar (z : GRat)
  | gen (i : Nat) (creation : Bool)
  | number (i : Nat)
  | fn (f : Occ → GRat)              -- any function of the number operators (`exp(N)`, `2**N`, `1/(N + 1/2)`, `Abs(N)`, …): diagonal in the occupation basis
  | add (a b : OpExpr)
  | mul (a b : OpExpr)
  | pow (a : OpExpr) (k : Nat)
  deriving Inhabited

/-- `NumberOrderedForm.from_expr`: convert the factors / summands and combine them with the arithmetic
of the class -/
def fromExpr (c : Ctx) : OpExpr → Form
  | .scalar z => scalar c z
  | .gen i b => gen c i b
  | .number i => number c i
  | .fn f => [{ powers := List.replicate c.n 0, coeff := f }]
  | .add a b => add (fromExpr c a) (fromExpr c b)
  | .mul a b => mul c (fromExpr c a) (fromExpr c b)
  | .pow a k => npow c (fromExpr c a) k

/-- image of a basis state: a formal combination of basis states -/
abbrev Img := List (Occ × GRat)

def Img.scale (z : GRat) (L : Img) : Img := L.map fun e => (e.1, z * e.2)
def Img.bind (L : Img) (g : Occ → Img) : Img := L.flatMap fun e => Img.scale e.2 (g e.1)

def powAct (g : Occ → Img) : Nat → Occ → Img
  | 0, s => [(s, 1)]
  | k+1, s => Img.bind (g s) (powAct g k)

/-- the operator denoted by an expression, acting on a basis state (rightmost factor first) -/
def actE (c : Ctx) : OpExpr → Occ → Img
  | .scalar z, s => [(s, z)]
  | .gen i b, s => (genAct c i b s).toList
  | .number i, s => [(s, ofInt (Occ.get s i))]
  | .fn f, s => [(s, f s)]
  | .add a b, s => actE c a s ++ actE c b s
  | .mul a b, s => Img.bind (actE c b s) (actE c a)
  | .pow a k, s => powAct (actE c a) k s

/-- the coefficient of `|s'')` in an image -/
def ker (L : Img) (s'' : Occ) : GRat := (L.map fun e => if e.1 = s'' then e.2 else 0).sum

/-- the indices of the generators are those of modes of the context -/
def OpExpr.wf (c : Ctx) : OpExpr → Bool
  | .scalar _ => true
  | .gen i _ => decide (i < c.n)
  | .number i => decide (i < c.n)
  | .fn _ => true
  | .add a b => a.wf c && b.wf c
  | .mul a b => a.wf c && b.wf c
  | .pow a _ => a.wf c

end Nof
end Pyma
