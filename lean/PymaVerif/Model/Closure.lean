/-
Model of `_transitive_closure` (block_diagonalization.py): the transitive closure of a relation on the states `0 … n-1`, as the code takes it of
"equal within atol" inside a fully diagonalised block (labels of connected components).  Executable, core Lean only: the relation is tabulated
(`n·n` Booleans, row-major) and `step` — related directly or through one intermediate state — is iterated until nothing changes.
-/
namespace Pyma
namespace Closure

abbrev Tab := List Bool

def get (n : Nat) (t : Tab) (a b : Nat) : Bool := a < n && b < n && t.getD (a * n + b) false

def ofFn (n : Nat) (r : Nat → Nat → Bool) : Tab := (List.range (n * n)).map fun i => r (i / n) (i % n)

/-- related directly, or through one intermediate state -/
def step (n : Nat) (t : Tab) : Tab := ofFn n fun a b => get n t a b || (List.range n).any fun c => get n t a c && get n t c b

def fix (n : Nat) : Nat → Tab → Tab
  | 0, t => t
  | f + 1, t => if step n t == t then t else fix n f (step n t)

/-- the transitive closure of `r` on `0 … n-1` (at most `n·n` entries can be added, so `n·n` rounds suffice) -/
def closure (n : Nat) (r : Nat → Nat → Bool) (a b : Nat) : Bool := get n (fix n (n * n) (ofFn n r)) a b

end Closure
end Pyma
