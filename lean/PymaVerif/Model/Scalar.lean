/-
Gaussian rationals: the exact scalar field of the executable model.  Core Lean only.
-/
namespace Pyma

/-- What the executable model needs from its scalars.  Instantiated by `GRat` for running and, in
`Proofs/`, by any field with an involution for reasoning.  The three threshold tests are kept
abstract: they are the only places where the code compares magnitudes. -/
class Scalar (K : Type) extends Add K, Mul K, Neg K, Sub K, Zero K, One K, Inv K, BEq K where
  conj : K → K
  divInt : K → Int → K
  /-- `abs x > t` -/
  absGt : K → Rat → Bool
  /-- `abs x < t` -/
  absLt : K → Rat → Bool
  /-- `numpy.isclose x y` with default tolerances -/
  isClose : K → K → Bool

structure GRat where
  re : Rat
  im : Rat
  deriving DecidableEq, Repr, Inhabited

namespace GRat

def zero : GRat := ⟨0, 0⟩
def one : GRat := ⟨1, 0⟩
instance : Zero GRat := ⟨zero⟩
instance : One GRat := ⟨one⟩
instance : Add GRat := ⟨fun a b => ⟨a.re + b.re, a.im + b.im⟩⟩
instance : Neg GRat := ⟨fun a => ⟨-a.re, -a.im⟩⟩
instance : Sub GRat := ⟨fun a b => ⟨a.re - b.re, a.im - b.im⟩⟩
instance : Mul GRat := ⟨fun a b => ⟨a.re * b.re - a.im * b.im, a.re * b.im + a.im * b.re⟩⟩

def conj (a : GRat) : GRat := ⟨a.re, -a.im⟩
def ofRat (q : Rat) : GRat := ⟨q, 0⟩
def normSq (a : GRat) : Rat := a.re * a.re + a.im * a.im
/-- total inverse (`0⁻¹ = 0`); callers guard the zero case explicitly -/
def inv (a : GRat) : GRat :=
  let n := a.normSq
  if n = 0 then zero else ⟨a.re / n, -a.im / n⟩
def divInt (a : GRat) (k : Int) : GRat := ⟨a.re / (k : Rat), a.im / (k : Rat)⟩
def isZero (a : GRat) : Bool := a.re == 0 && a.im == 0
/-- `|a| > t` for rational `t ≥ 0`, decided without square roots -/
def absGt (a : GRat) (t : Rat) : Bool := decide (a.normSq > t * t)

/-- `|x - y| ≤ c + r·|y|`, decided exactly without square roots -/
def isClose (x y : GRat) : Bool :=
  let c : Rat := 1 / 100000000
  let r : Rat := 1 / 100000
  let d := (x - y).normSq
  let ay := y.normSq
  -- sqrt d ≤ c + r sqrt ay  ⟺  d - c² - r² ay ≤ 2 c r sqrt ay
  let lhs := d - c * c - r * r * ay
  decide (lhs ≤ 0) || decide (lhs * lhs ≤ 4 * c * c * r * r * ay)

instance : Scalar GRat where
  inv := inv
  beq := fun a b => a.re == b.re && a.im == b.im
  conj := conj
  divInt := divInt
  absGt := absGt
  absLt := fun a t => decide (a.normSq < t * t)
  isClose := isClose

def ratToString (q : Rat) : String := s!"{q.num}/{q.den}"
def toString (a : GRat) : String := s!"{ratToString a.re},{ratToString a.im}"

end GRat
end Pyma
