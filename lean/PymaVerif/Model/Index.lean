/-
Model of `BlockSeries.__getitem__` (series.py): NumPy's indexing rules for items made of integers, lists and forward slices, and the
trial-array construction the real code uses to resolve an item on a series with infinite dimensions.

* `normAx n ax`: what one entry of the item selects on an axis of length `n` (NumPy: negative integers count from the end, slices are
  clipped to the axis, a list is taken as it is).
* `assemble`: NumPy's combination rule.  Without lists the result has one dimension per slice (*basic* indexing).  With a list, the
  integers and the lists are *advanced* indices: they are broadcast together to one dimension, placed where the first of them stands when
  they are adjacent and in front otherwise.
* `getitem`: `_check_finite`, `_check_number_perturbations`, the trial shape, the selected sources, the evaluated positions.

Core Lean only.  A *source* is a full multi-index of the series; the result is its shape and the row-major list of the sources it shows.
-/
namespace Pyma
namespace Index

/-- one entry of an index expression -/
inductive Ax where
  | int (i : Int)
  | list (l : List Int)
  | slice (start stop : Option Int) (step : Nat)      -- `step = 0` is rejected by NumPy; the property quantifies over `step ≥ 1`
  deriving Repr, DecidableEq, Inhabited

/-- a normalised entry: concrete positions on its axis -/
inductive NAx where
  | one (i : Nat)
  | many (l : List Nat)
  | range (l : List Nat)
  deriving Repr, DecidableEq, Inhabited

/-- `index` = the real code raises `IndexError`; `other` = another exception (NumPy's `ValueError` for a zero step) -/
inductive Err where
  | index | other
  deriving Repr, DecidableEq, Inhabited

def normInt (n : Nat) (i : Int) : Option Nat :=
  let j := if i < 0 then i + n else i
  if 0 ≤ j ∧ j < n then some j.toNat else none

/-- a slice bound on an axis of length `n` (`slice.indices` for a positive step) -/
def clip (n : Nat) (x : Int) : Nat :=
  if x < 0 then (if x + n < 0 then 0 else (x + n).toNat) else min x.toNat n

/-- `a, a + step, …` below `b` -/
def stepRange (a b step : Nat) : List Nat := (List.range ((b - a + step - 1) / step)).map fun t => a + t * step

def sliceIdx (n : Nat) (start stop : Option Int) (step : Nat) : List Nat :=
  let a := match start with | none => 0 | some s => clip n s
  let b := match stop with | none => n | some s => clip n s
  stepRange a b step

def normAx (n : Nat) : Ax → Except Err NAx
  | .int i => match normInt n i with | some j => .ok (.one j) | none => .error .index
  | .list l => match l.mapM (normInt n) with | some js => .ok (.many js) | none => .error .index      -- (an empty list selects nothing: a dimension of length 0)
  | .slice a b st => if st = 0 then .error .other else .ok (.range (sliceIdx n a b st))

def normAll : List Nat → List Ax → Except Err (List NAx)
  | [], [] => .ok []
  | n :: ns, a :: as => do let x ← normAx n a; let xs ← normAll ns as; pure (x :: xs)
  | _, _ => .error .index                                               -- too many / too few indices

/-- a group of the result: its alternatives, each assigning positions to some axes; `dim` = it is a dimension of the result -/
structure Group where
  dim : Bool
  alts : List (List (Nat × Nat))
  deriving Repr, Inhabited

def NAx.isRange : NAx → Bool | .range _ => true | _ => false
def NAx.isMany : NAx → Bool | .many _ => true | _ => false

def rangeGroup : NAx × Nat → Group
  | (.range l, k) => ⟨true, l.map fun x => [(k, x)]⟩
  | (.one i, k) => ⟨false, [[(k, i)]]⟩
  | (.many l, k) => ⟨true, l.map fun x => [(k, x)]⟩

def manyLens (l : List (NAx × Nat)) : List Nat := l.filterMap fun | (.many js, _) => some js.length | _ => none

/-- the common length the lists broadcast to: the one that is not 1 (when there is one) -/
def bcLen (lens : List Nat) : Nat := ((lens.filter (· ≠ 1)).head?).getD 1

def pick : NAx → Nat → Nat
  | .one i, _ => i
  | .many l, j => if l.length = 1 then l.getD 0 0 else l.getD j 0
  | .range _, _ => 0

def advGroup (L : Nat) (adv : List (NAx × Nat)) : Group :=
  ⟨true, (List.range L).map fun j => adv.map fun (a, k) => (k, pick a j)⟩

/-- NumPy's combination rule, on the normalised entries paired with their axis number -/
def groups (l : List (NAx × Nat)) : Except Err (List Group) :=
  if l.all (fun p => !p.1.isMany) then .ok (l.map rangeGroup)
  else
    let adv := l.filter (fun p => !p.1.isRange)
    let lens := manyLens l
    let L := bcLen lens
    if lens.all (fun n => n = 1 ∨ n = L) then
      let pre := l.takeWhile (·.1.isRange)
      let rest := l.dropWhile (·.1.isRange)
      let post := (rest.reverse.takeWhile (·.1.isRange)).reverse
      let mid := rest.take (rest.length - post.length)
      if mid.all (fun p => !p.1.isRange) then .ok (pre.map rangeGroup ++ [advGroup L adv] ++ post.map rangeGroup)
      else .ok (advGroup L adv :: (l.filter (·.1.isRange)).map rangeGroup)
    else .error .index                                                  -- "indexing arrays could not be broadcast together"

def product : List Group → List (List (Nat × Nat))
  | [] => [[]]
  | g :: r => g.alts.flatMap fun a => (product r).map fun rest => a ++ rest

def toSource (naxes : Nat) (as : List (Nat × Nat)) : List Nat :=
  (List.range naxes).map fun k => ((as.find? (·.1 == k)).map (·.2)).getD 0

structure Result where
  shape : List Nat
  sources : List (List Nat)
  deriving Repr, DecidableEq, Inhabited

def assemble (l : List NAx) : Except Err Result := do
  let gs ← groups l.zipIdx
  pure ⟨(gs.filter (·.dim)).map (·.alts.length), (product gs).map (toSource l.length)⟩

/-- `dense[item]` for an array of shape `dims`: the shape of the result and, in row-major order, which element each entry shows -/
def select (dims : List Nat) (item : List Ax) : Except Err Result := do assemble (← normAll dims item)

/-! ### the real code's resolution through a trial array -/

def negBound : Option Int → Bool | some b => b < 0 | none => false

/-- `_check_finite` on the entries of the infinite dimensions: `true` = accepted -/
def checkFinite : List Ax → Bool
  | [] => true
  | .slice a b _ :: r => b.isSome && !negBound a && !negBound b && checkFinite r
  | .int i :: r => !(i < 0) && checkFinite r
  | .list l :: r => l.all (fun i => !(i < 0)) && checkFinite r

/-- length of the trial array along an infinite dimension -/
def trialLen : Ax → Nat
  | .slice _ b _ => (b.getD 0).toNat
  | .int i => i.toNat + 1
  | .list l => (l.foldl (fun m i => max m i.toNat) 0) + 1

def trialDims (shape : List Nat) (inf : List Ax) : List Nat := shape ++ inf.map trialLen

def insertSorted (x : List Nat) : List (List Nat) → List (List Nat)
  | [] => [x]
  | y :: ys => if x = y then y :: ys else if x < y then x :: y :: ys else y :: insertSorted x ys

/-- `np.where(trial)` after `trial[item] = 1`: the selected sources, each once, in lexicographic order -/
def positions (srcs : List (List Nat)) : List (List Nat) := srcs.foldl (fun acc s => insertSorted s acc) []

structure Answer where
  shape : List Nat
  sources : List (List Nat)
  evaluated : List (List Nat)
  deriving Repr, DecidableEq, Inhabited

/-- `BlockSeries.__getitem__` for an item that addresses all dimensions -/
def getitem (shape : List Nat) (ninf : Nat) (item : List Ax) : Except Err Answer :=
  let inf := item.drop shape.length
  if !checkFinite inf then .error .index
  else if item.length ≠ shape.length + ninf then .error .index
  else do
    let r ← select (trialDims shape inf) item
    pure ⟨r.shape, r.sources, positions r.sources⟩

/-! ### views: an item on the finite dimensions only -/

def prodL : List Nat → Nat
  | [] => 1
  | x :: xs => x * prodL xs

/-- the item a view hands to its parent for the orders `o`: each order as a slice of length one (an integer next to the lists of the item
would count as an advanced index too) -/
def viewItem (item : List Ax) (o : List Nat) : List Ax :=
  item ++ o.map fun (i : Nat) => Ax.slice (some (i : Int)) (some ((i : Int) + 1)) 1

/-- `series[item][… , o]`: the shape of the view `series[item]` (`np.empty(shape)[item].shape`) and, for the orders `o`, the parent element
behind each of its entries in row-major order (`self[item + slices].filled(zero).reshape(view_shape)`), with what the parent evaluates -/
def view (shape : List Nat) (item : List Ax) (o : List Nat) : Except Err Answer := do
  let v ← select shape item
  let a ← getitem shape o.length (viewItem item o)
  if a.sources.length = prodL v.shape then pure ⟨v.shape, a.sources, a.evaluated⟩ else .error .other      -- `reshape` raises `ValueError`

end Index
end Pyma
