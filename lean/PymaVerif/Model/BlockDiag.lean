/-
Model of the wiring done by `block_diagonalize` (exact, dense carrier): inputs, energies, flags,
keep/eliminate masks, the diagonal Sylvester solver, and the run of a translated algorithm.
Core Lean only.
-/
import PymaVerif.Model.Dsl
import PymaVerif.Model.Closure

namespace Pyma
namespace BlockDiag
open Dsl

inductive FD where
  | none
  | tuple (blocks : List Nat)
  /-- block ↦ eliminate-mask in full coordinates (row-major `d*d` booleans) -/
  | dict (masks : List (Nat × Array Bool))
  deriving Repr, Inhabited

structure Problem (K : Type) where
  d : Nat
  blockOf : Array Nat
  nblocks : Nat
  nparams : Nat
  terms : List (List Nat × Mat K)
  hermitian : Bool
  fd : FD
  atol : Rat
  deriving Inhabited

namespace Problem
variable {K : Type} [Scalar K]

def blk (p : Problem K) (a : Nat) : Nat := p.blockOf.getD a 0
def term (p : Problem K) (n : List Nat) : Option (Mat K) := (p.terms.find? (·.1 == n)).map (·.2)
def zeroOrder (p : Problem K) : List Nat := List.replicate p.nparams 0
def energy (p : Problem K) (a : Nat) : K :=
  match p.term p.zeroOrder with
  | some h0 => h0.get a a
  | none => 0

/-- `fully_diagonalize` after the single-block default -/
def fdEff (p : Problem K) : FD :=
  match p.fd with
  | .none => if p.nblocks == 1 then .tuple [0] else .none
  | .tuple [] => if p.nblocks == 1 then .tuple [0] else .tuple []
  | .dict [] => if p.nblocks == 1 then .tuple [0] else .dict []
  | x => x

def fdIsEmpty : FD → Bool
  | .none => true
  | .tuple l => l.isEmpty
  | .dict l => l.isEmpty

def selected (p : Problem K) (b : Nat) : Bool :=
  match p.fdEff with
  | .none => false
  | .tuple l => l.contains b
  | .dict l => l.any (·.1 == b)

/-- `abs(E_a - E_b) <= atol` as used by `equal_eigs`: exactly the differences the diagonal solver does not divide by (`abs(dE) > atol`) -/
def equalEigs (p : Problem K) (a b : Nat) : Bool :=
  !Scalar.absGt (p.energy a - p.energy b) p.atol

/-- equal within `atol`, inside one block -/
def closeIn (p : Problem K) (a b : Nat) : Bool := p.blk a == p.blk b && p.equalEigs a b

/-- what a fully diagonalised block keeps together: levels connected by steps below `atol` (`_transitive_closure` of `equal_eigs`) -/
def sameLevel (p : Problem K) (a b : Nat) : Bool := Closure.closure p.d p.closeIn a b

/-- is `(a,b)`, inside selected block, an eliminated element? -/
def elim (p : Problem K) (a b : Nat) : Bool :=
  match p.fdEff with
  | .none => false
  | .tuple _ => !p.sameLevel a b
  | .dict l =>
      match l.find? (·.1 == p.blk a) with
      | some (_, m) => m.getD (a * p.d + b) false
      | none => false

def commuting (p : Problem K) (b : Nat) : Bool :=
  match p.fdEff with
  | .dict l => !l.any (·.1 == b)
  | _ => true

def twoBlockOptimized (p : Problem K) : Bool := p.nblocks == 2 && fdIsEmpty p.fdEff

def inBlock (p : Problem K) (i j : Nat) (a b : Nat) : Bool := p.blk a == i && p.blk b == j

/-- the `H` input series, already projected on blocks; exact zero blocks become the sentinel -/
def inputH (p : Problem K) (idx : Idx) : SVal K :=
  match p.term idx.n with
  | none => .zero
  | some h =>
      let b := h.mask (p.inBlock idx.i idx.j)
      if b.isZero then .zero else .val b

/-- Hadamard mask of a model value; the `one` sentinel is materialised first -/
def maskVal (p : Problem K) (keep : Nat → Nat → Bool) (v : SVal K) (idx : Idx) : SVal K :=
  match v with
  | .zero => .zero
  | .one => .val ((Mat.blockOne p.d fun a => p.blk a == idx.i).mask keep)
  | .val m => .val (m.mask keep)

/-- `diag(x, index)`: keep-mask on selected blocks, identity elsewhere -/
def diagW (p : Problem K) (v : SVal K) (idx : Idx) : SVal K :=
  if p.selected idx.i then p.maskVal (fun a b => !p.elim a b) v idx else v

/-- `offdiag(x, index)`: eliminate-mask on selected blocks, `zero` elsewhere -/
def offdiagW (p : Problem K) (v : SVal K) (idx : Idx) : SVal K :=
  if p.selected idx.i then p.maskVal (fun a b => p.elim a b) v idx else .zero

def solveSylvester (p : Problem K) (arg : String ⊕ SVal K) (idx : Idx) : Except Err (SVal K) :=
  match arg with
  | .inl _ => throw (.scope "solve_sylvester on a series")
  | .inr .zero => pure .zero
  | .inr .one => throw .oneInArithmetic
  | .inr (.val y) =>
      let shared := idx.i != idx.j && (List.range p.d).any fun a => (List.range p.d).any fun b =>
        p.inBlock idx.i idx.j a b && Scalar.isClose (p.energy a) (p.energy b)
      if shared then throw (.scope "ValueError: The subspaces must not share eigenvalues.")
      else pure (.val (Mat.ofFn p.d fun a b =>
        if p.inBlock idx.i idx.j a b then
          let de := p.energy a - p.energy b
          if Scalar.absGt de p.atol then y.get a b * de⁻¹ else 0
        else 0))

def env (p : Problem K) : Env K where
  d := p.d
  nblocks := p.nblocks
  blockOne := fun i => Mat.blockOne p.d fun a => p.blk a == i
  input := fun _ idx => p.inputH idx
  inputs := ["H"]
  fn := fun f arg idx =>
    if f == "solve_sylvester" then p.solveSylvester arg idx else throw (.scope s!"unknown function {f}")
  flagName := fun s => s == "two_block_optimized" && p.twoBlockOptimized
  flagIdx := fun s i => s == "commuting_blocks" && p.commuting i
  diag := p.diagW
  offdiag := if fdIsEmpty p.fdEff then none else some p.offdiagW

end Problem
end BlockDiag
end Pyma
