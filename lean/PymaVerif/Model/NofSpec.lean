/-
Executable (core-only) version of the closed-form Fock action of a normal-ordered monomial — the
specification `specAmpS`/`tgt` of `Proofs/NofFermion.lean` — for the driver and for cross-checks
against the step-by-step action `Nof.termAct`.
-/
import PymaVerif.Model.Nof

namespace Pyma
namespace Nof

def modeAmpX (c : Ctx) (j : Nat) (n p : Int) : Int :=
  if c.isInf j then (if c.kind j == .boson && decide (p > 0) then falling n p.toNat else 1)
  else (if p > 0 then n else if p < 0 then 1 - n else 1)

def midX (t : Term) (s : Occ) : Occ := (List.range s.length).map fun j => Occ.get s j - max (pw t j) 0
def tgtX (t : Term) (s : Occ) : Occ := (List.range s.length).map fun j => Occ.get s j - pw t j

def annAmpX (c : Ctx) (t : Term) (s : Occ) : Int :=
  (List.range c.n).foldl (fun acc j => acc * modeAmpX c j (Occ.get s j) (pw t j)) 1

def sigmaX (c : Ctx) (t : Term) (s : Occ) : Nat :=
  let m := midX t s
  (List.range c.n).foldl (fun acc k =>
    if c.kind k == .fermion && pw t k != 0 then
      acc + ((List.range k).filter fun j => c.kind j == .fermion && Occ.get m j == 1).length
    else acc) 0

/-- target state and signed amplitude -/
def specX (c : Ctx) (t : Term) (s : Occ) : Occ × GRat :=
  let sg : Int := if sigmaX c t s % 2 == 1 then -1 else 1
  (tgtX t s, ofInt (sg * annAmpX c t s) * t.coeff (midX t s))

end Nof
end Pyma
