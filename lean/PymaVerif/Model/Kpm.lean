/-
Loop control of `kpm.greens_function`: the number of Chebyshev moments is quadrupled until the residue of the current solution
is at most `atol`, or the number of moments exceeds `max_moments` (warning; the solution computed last is returned).
The numerical content (Chebyshev recursion, Jackson kernel, the residue itself) is a parameter: `resid m` is the residue of the
solution built from `m` moments.  Core Lean only.
-/
namespace Pyma
namespace Kpm

/-- what the call returns: the number of moments of the returned solution (`none`: no solution was computed — cannot happen, `greens_spec`), and whether the convergence warning was issued -/
structure Result where
  moments : Option Nat
  warned : Bool
  deriving DecidableEq, Repr, Inhabited

/-- `loop fuel m last`: `m` = `num_moments` of the coming iteration, `last` = moments of the solution computed so far; the loop body is
entered only while the last residue exceeds `atol` (initially the residue is `∞`).  `fuel` bounds the number of iterations. -/
def loop (resid : Nat → Rat) (atol : Rat) (maxM : Nat) : Nat → Nat → Option Nat → Result
  | fuel, m, last =>
      if m > maxM then ⟨last, true⟩
      else match fuel with
        | 0 => ⟨last, false⟩                   -- out of fuel: excluded by `maxM < m * 4 ^ fuel`
        | fuel + 1 =>
            if resid m > atol then loop resid atol maxM fuel (4 * m) (some m)
            else ⟨some m, false⟩

/-- `greens_function` with the code's starting value `num_moments = min(10, max_moments)` -/
def greens (resid : Nat → Rat) (atol : Rat) (maxM : Nat) (fuel : Nat) : Result := loop resid atol maxM fuel (min 10 maxM) none

end Kpm
end Pyma
