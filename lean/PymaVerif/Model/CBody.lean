/-
The small imperative language of compiled `series_eval` bodies (algorithm_parsing.py), and a
reference compiler from the mini-language into it.  Argument lists are encoded inside `CExpr`
(`anil`/`acons`) so that equality is decidable by `deriving`.  Core Lean only.
-/
import PymaVerif.Model.Dsl

namespace Pyma
namespace Dsl

inductive CExpr where
  | result
  | zero
  | elem (x : String) (swap : Bool)        -- which[x][index]  /  which[x][index[1], index[0], *index[2:]]
  | serArg (x : String)                    -- which[x]  (a series passed to a scope function)
  | dagger (e : CExpr)
  | neg (e : CExpr)
  | zsum (args : CExpr)                    -- _zero_sum(*args)
  | sdiv (e : CExpr) (k : Int)             -- _safe_divide(e, k)
  | call (f : String) (args : CExpr)       -- f(*args, index)
  | ite (flag : Flag) (t e : CExpr)
  | anil
  | acons (head tail : CExpr)
  deriving DecidableEq, Repr, Inhabited

inductive CStmt where
  | assign (e : CExpr)       -- result = e
  | lower (e : CExpr)        -- if index[0] > index[1]: result = e; return result
  | diag (e : CExpr)         -- if index[0] == index[1]: result = e
  | off (e : CExpr)          -- if index[0] != index[1]: result = e
  | offwrap (e : CExpr)      -- if offdiag is not None and index[0] == index[1]: result = e
  deriving DecidableEq, Repr, Inhabited

namespace CExpr

def ofList : List CExpr → CExpr
  | [] => .anil
  | x :: xs => .acons x (ofList xs)

/-- the arguments a node contributes to an enclosing `_zero_sum` (`_SumTransformer`) -/
def sumArgs : CExpr → List CExpr
  | .zsum args => toList args
  | e => [e]
where
  toList : CExpr → List CExpr
    | .acons h t => h :: toList t
    | _ => []

/-- `_SumTransformer._negate` -/
def negate : CExpr → CExpr
  | .neg e => e
  | e => .neg e

end CExpr

/-- the compiler on expressions; `diagonal` = the clause is a diagonal one (adjoint index not swapped) -/
def compileExpr (diagonal : Bool) : Expr → CExpr
  | .ser x => .elem x false
  | .adj x => .dagger (.elem x (!diagonal))
  | .neg e => .neg (compileExpr diagonal e)
  | .add a b => .zsum (CExpr.ofList ((compileExpr diagonal a).sumArgs ++ (compileExpr diagonal b).sumArgs))
  | .sub a b => .zsum (CExpr.ofList ((compileExpr diagonal a).sumArgs ++
      ((compileExpr diagonal b).sumArgs.map CExpr.negate)))
  | .divInt e k => .sdiv (compileExpr diagonal e) k
  | .callSer f x => .call f (CExpr.ofList [.serArg x])
  | .callExpr f e => .call f (CExpr.ofList [compileExpr diagonal e])
  | .zero => .zero
  | .ite fl t e => .ite fl (compileExpr diagonal t) (compileExpr diagonal e)

/-- `result + e`, through the sum transformer -/
def accumulate (e : CExpr) : CExpr := .zsum (CExpr.ofList (.result :: e.sumArgs))

/-- wrapping by `diag(...)` / `offdiag(...)`: a bare series name becomes a series argument -/
def wrapCall (f : String) (diagonal : Bool) : Expr → CExpr
  | .ser x => .call f (CExpr.ofList [.serArg x])
  | e => .call f (CExpr.ofList [compileExpr diagonal e])

def compileStmt (self : String) : Stmt → List CStmt
  | .marker anti =>
      let t : CExpr := .dagger (.elem self true)
      [.lower (accumulate (if anti then .neg t else t))]
  | .clause .default e => [.assign (accumulate (compileExpr false e))]
  | .clause .diagonal e => [.diag (accumulate (wrapCall "diag" true e))]
  | .clause .offdiagonal e =>
      [.off (accumulate (compileExpr false e)), .offwrap (accumulate (wrapCall "offdiag" false e))]
  | .clause .lower e => [.lower (accumulate (compileExpr false e))]

def compileSeries (d : SeriesDef) : List CStmt := d.body.flatMap (compileStmt d.name)

def compileProg (p : Prog) : List (String × List CStmt) := p.series.map fun d => (d.name, compileSeries d)

/-! ## evaluation of compiled bodies (the Python-level reading of `series_eval`) -/

variable {K : Type} [Scalar K]

/-- `_zero_sum`: left fold from the `zero` sentinel (`Zero.__add__` returns the other summand) -/
def sumVals : SVal K → List (SVal K) → Except Err (SVal K)
  | acc, [] => pure acc
  | acc, v :: vs => do
      let a ← vadd acc v
      sumVals a vs

mutual
/-- value of a compiled expression; `res` is the current value of `result` -/
def evalCE (env : Env K) (lookup : Lookup K) (idx : Idx) (res : SVal K) : CExpr → Cache K → Res K (SVal K)
  | .result, c => .ok (res, c)
  | .zero, c => .ok (.zero, c)
  | .elem x sw, c => lookup x (if sw then idx.swap else idx) c
  | .serArg _, _ => .error (.scope "series used as a value")
  | .dagger e, c =>
      match evalCE env lookup idx res e c with
      | .ok (v, c) => .ok (vadj v, c)
      | .error err => .error err
  | .neg e, c =>
      match evalCE env lookup idx res e c with
      | .ok (v, c) => liftE (vneg v) c
      | .error err => .error err
  | .zsum args, c =>
      match evalCArgs env lookup idx res args c with
      | .ok (vs, c) => liftE (sumVals .zero vs) c
      | .error err => .error err
  | .sdiv e k, c =>
      match evalCE env lookup idx res e c with
      | .ok (v, c) => liftE (vdiv v k) c
      | .error err => .error err
  | .call f (.acons (.serArg x) .anil), c =>
      if f == "diag" then
        match lookup x idx c with
        | .ok (v, c) => .ok (env.diag v idx, c)
        | .error err => .error err
      else if f == "offdiag" then
        match env.offdiag with
        | some od =>
            match lookup x idx c with
            | .ok (v, c) => .ok (od v idx, c)
            | .error err => .error err
        | none => .error (.scope "offdiag is None")
      else liftE (env.fn f (.inl x) idx) c
  | .call f (.acons e .anil), c =>
      match evalCE env lookup idx res e c with
      | .ok (v, c) =>
          if f == "diag" then .ok (env.diag v idx, c)
          else if f == "offdiag" then
            match env.offdiag with
            | some od => .ok (od v idx, c)
            | none => .error (.scope "offdiag is None")
          else liftE (env.fn f (.inr v) idx) c
      | .error err => .error err
  | .call _ _, _ => .error (.scope "unsupported call")
  | .ite fl t e, c =>
      if evalFlag env idx fl then evalCE env lookup idx res t c else evalCE env lookup idx res e c
  | .anil, _ => .error (.scope "argument list used as a value")
  | .acons _ _, _ => .error (.scope "argument list used as a value")
/-- arguments of a call, left to right -/
def evalCArgs (env : Env K) (lookup : Lookup K) (idx : Idx) (res : SVal K) : CExpr → Cache K → Res K (List (SVal K))
  | .anil, c => .ok ([], c)
  | .acons h t, c =>
      match evalCE env lookup idx res h c with
      | .ok (v, c) =>
          match evalCArgs env lookup idx res t c with
          | .ok (vs, c) => .ok (v :: vs, c)
          | .error err => .error err
      | .error err => .error err
  | _, _ => .error (.scope "malformed argument list")
end

/-- the statements of a compiled body -/
def evalCStmts (env : Env K) (lookup : Lookup K) (idx : Idx) : List CStmt → SVal K → Cache K → Res K (SVal K)
  | [], res, c => .ok (res, c)
  | .assign e :: rest, res, c =>
      match evalCE env lookup idx res e c with
      | .ok (v, c) => evalCStmts env lookup idx rest v c
      | .error err => .error err
  | .lower e :: rest, res, c =>
      if idx.i > idx.j then evalCE env lookup idx res e c
      else evalCStmts env lookup idx rest res c
  | .diag e :: rest, res, c =>
      if idx.i == idx.j then
        match evalCE env lookup idx res e c with
        | .ok (v, c) => evalCStmts env lookup idx rest v c
        | .error err => .error err
      else evalCStmts env lookup idx rest res c
  | .off e :: rest, res, c =>
      if idx.i != idx.j then
        match evalCE env lookup idx res e c with
        | .ok (v, c) => evalCStmts env lookup idx rest v c
        | .error err => .error err
      else evalCStmts env lookup idx rest res c
  | .offwrap e :: rest, res, c =>
      if env.offdiag.isSome && idx.i == idx.j then
        match evalCE env lookup idx res e c with
        | .ok (v, c) => evalCStmts env lookup idx rest v c
        | .error err => .error err
      else evalCStmts env lookup idx rest res c

end Dsl
end Pyma
