/-
Model of the Taylor expansion in `_sympy_to_BlockSeries` (block_diagonalization.py) for polynomial entries.

A polynomial in `k` symbols is represented by its coefficient function `c : List Nat → Rat` (multi-index of length `k` ↦ coefficient; the
executable driver builds it from a finite list of monomials).  The code keeps a series `operator_derivatives` of *normalised* derivatives:
`D(0) = operator`, and for `index ≠ 0` it picks the first symbol with a non-zero order `n_i`, takes `D(index − e_i)`, differentiates once with
respect to that symbol and divides by `n_i`; the term of order `index` is `D(index)` with all symbols set to zero.
Core Lean only.
-/
namespace Pyma
namespace Taylor

abbrev Coef := List Nat → Rat

/-- `m + e_i` -/
def bump (m : List Nat) (i : Nat) : List Nat := m.set i (m.getD i 0 + 1)
/-- `n − e_i` -/
def lower (n : List Nat) (i : Nat) : List Nat := n.set i (n.getD i 0 - 1)

/-- coefficient function of `∂p/∂x_i`: the coefficient of `x^m` is `(m_i + 1) · c(m + e_i)` -/
def pderiv (i : Nat) (c : Coef) : Coef := fun m => ((m.getD i 0 + 1 : Nat) : Rat) * c (bump m i)

/-- index of the first non-zero entry (`next((i, n) for i, n in enumerate(index) if n)`) -/
def firstNonzero : List Nat → Option Nat
  | [] => none
  | x :: xs => if x != 0 then some 0 else (firstNonzero xs).map (· + 1)

/-- `derivative_eval`: the normalised derivative of multi-order `n`; `fuel` ≥ total order -/
def deriv (c : Coef) : Nat → List Nat → Coef
  | 0, _ => c
  | fuel + 1, n =>
      match firstNonzero n with
      | none => c
      | some i => fun m => pderiv i (deriv c fuel (lower n i)) m / ((n.getD i 0 : Nat) : Rat)

/-- `op_eval` without the monomial factor: the normalised derivative at the origin -/
def term (c : Coef) (n : List Nat) : Rat := deriv c n.sum n (List.replicate n.length 0)

/-- coefficient function of a finite list of monomials (later entries of the same exponent add up) -/
def ofMonomials (ms : List (List Nat × Rat)) : Coef := fun m => (ms.filter (·.1 == m)).foldl (fun acc t => acc + t.2) 0

end Taylor
end Pyma
