/-
The BlockSeries state machine (series.py `BlockSeries.__getitem__`, `__contains__`, `pop`):
caches with PENDING cells, eval scripts as a free monad, the try/except clean-up.
This is the executable twin of the prototype `Machine.lean` on which M1/M2 were proved.
Core Lean only.
-/
namespace Pyma
namespace Machine

inductive Err where
  | recursion                 -- RuntimeError("Infinite recursion loop detected ...")
  | wrapped                   -- RuntimeError("Failed to evaluate ...") from a RuntimeError
  | runtime (tag : Nat)       -- RuntimeError raised by a callback
  | user (tag : Nat)          -- any other exception raised by a callback (incl. BaseException)
  | index                     -- IndexError
  | fuel
  deriving DecidableEq, Repr, Inhabited

/-- element values of the abstract test machine: the `zero` sentinel or an integer payload -/
inductive Val where
  | zero
  | num (n : Int)
  deriving DecidableEq, Repr, Inhabited

inductive Cell (V : Type) where
  | pending
  | val (v : V)
  deriving Repr, Inhabited

abbrev SId := Nat
abbrev Idx := List Nat

structure World (V : Type) where
  cache : List ((SId × Idx) × Cell V)   -- association list, newest first
  calls : Nat                           -- number of callback invocations so far
  log : List (SId × Idx)                -- evaluations started, oldest first
  deriving Inhabited

variable {V : Type}

def World.get (w : World V) (s : SId) (i : Idx) : Option (Cell V) :=
  (w.cache.find? (·.1 == (s, i))).map (·.2)
def World.set (w : World V) (s : SId) (i : Idx) (c : Option (Cell V)) : World V :=
  let rest := w.cache.filter (·.1 != (s, i))
  { w with cache := match c with | some c => ((s, i), c) :: rest | none => rest }

/-- eval scripts -/
inductive Script (V : Type) where
  | pure (v : V)
  | get (s : SId) (i : Idx) (k : V → Script V)
  | contains (s : SId) (i : Idx) (k : Bool → Script V)
  | pop (s : SId) (i : Idx) (k : Script V)
  | user (cb : Nat) (arg : List V) (k : V → Script V)
  | fail (e : Err)

instance : Inhabited (Script V) := ⟨.fail .fuel⟩

structure Sys (V : Type) where
  defs : SId → Idx → Script V
  isZero : V → Bool
  userSem : Nat → List V → V
  fault : Nat → Option Err

abbrev Res (V : Type) := Except Err V × World V

def rewrap : Err → Err
  | .recursion => .wrapped
  | .wrapped => .wrapped
  | .runtime _ => .wrapped
  | e => e

mutual
def run (S : Sys V) : Nat → Script V → World V → Res V
  | 0, _, w => (.error .fuel, w)
  | _+1, .pure v, w => (.ok v, w)
  | _+1, .fail e, w => (.error e, w)
  | f+1, .pop s i k, w => run S f k (w.set s i none)
  | f+1, .contains s i k, w =>
      let b := match w.get s i with
        | some (.val v) => !S.isZero v
        | _ => true
      run S f (k b) w
  | f+1, .user cb arg k, w =>
      let w' := { w with calls := w.calls + 1 }
      match S.fault w.calls with
      | some e => (.error e, w')
      | none => run S f (k (S.userSem cb arg)) w'
  | f+1, .get s i k, w =>
      match getItem S f s i w with
      | (.ok v, w') => run S f (k v) w'
      | (.error e, w') => (.error e, w')
def getItem (S : Sys V) : Nat → SId → Idx → World V → Res V
  | 0, _, _, w => (.error .fuel, w)
  | f+1, s, i, w =>
      match w.get s i with
      | some (.val v) => (.ok v, w)
      | some .pending => (.error .recursion, w)
      | none =>
          let w0 := { (w.set s i (some .pending)) with log := w.log ++ [(s, i)] }
          match run S f (S.defs s i) w0 with
          | (.ok v, w') => (.ok v, w'.set s i (some (.val v)))
          | (.error e, w') => (.error (rewrap e), w'.set s i none)
end

/-! ### a request for several elements (`series[item]` with lists or slices): the elements are looked up one after the other, in the order of
`np.where`, each evaluated only if it is not cached by then (an element evaluated re-entrantly by an earlier one is found in the cache) -/

/-- the loop of `BlockSeries.__getitem__` over the positions of a request; stops at the first error -/
def getMany (S : Sys V) (f : Nat) (s : SId) : List Idx → World V → Except Err (List V) × World V
  | [], w => (.ok [], w)
  | i :: rest, w =>
      match getItem S f s i w with
      | (.ok v, w') =>
          (match getMany S f s rest w' with
           | (.ok vs, w'') => (.ok (v :: vs), w'')
           | (.error e, w'') => (.error e, w''))
      | (.error e, w') => (.error e, w')

/-- the same loop as an eval script (what a series whose element reads several elements of another one does) -/
def manyScript (s : SId) : List Idx → V → Script V
  | [], last => .pure last
  | i :: rest, _ => .get s i fun v => manyScript s rest v

end Machine
end Pyma
