/-
Faithful model of `cauchy_dot_product` / `product_by_order` (series.py) as scripts of the
BlockSeries machine: skip rules, cost-ordered requests, the Hermitian half-sum, the `one`
sentinel, left association for more than two factors.  Core Lean only.
-/
import PymaVerif.Model.Machine
import PymaVerif.Model.Dsl

namespace Pyma
namespace Cauchy
open Machine Dsl

variable {K : Type} [Scalar K]

/-- Python's tuple comparison `a > b` -/
def lexGt : List Nat → List Nat → Bool
  | x :: xs, y :: ys => if x > y then true else if x < y then false else lexGt xs ys
  | _ :: _, [] => true
  | _, _ => false

/-- combine the two factor values: `one` is skipped, otherwise multiply -/
def term (l r : SVal K) : SVal K := vmul l r

/-- `result + term` resp. `result + term + Dagger(term)`; `none` = TypeError in Python -/
def accumulate (acc t : SVal K) (withAdj : Bool) : Option (SVal K) :=
  match vadd acc t with
  | .error _ => none
  | .ok a => if withAdj then (match vadd a (vadj t) with | .ok b => some b | .error _ => none) else some a

/-- the loop body of `product_by_order` over the remaining (middle, orders_1st, orders_2nd) triples -/
def prodLoop (first second : SId) (i j : Nat) (herm : Bool) :
    List (Nat × List Nat × List Nat) → SVal K → Script (SVal K)
  | [], acc => .pure acc
  | (m, na, nb) :: rest, acc =>
      let li : Machine.Idx := i :: m :: na
      let ri : Machine.Idx := m :: j :: nb
      let next := prodLoop first second i j herm rest
      if herm && lexGt na nb then next acc
      else
        .contains first li fun b1 => if !b1 then next acc else
        .contains second ri fun b2 => if !b2 then next acc else
        let finish (l r : SVal K) : Script (SVal K) :=
          match accumulate acc (term l r) (herm && na != nb) with
          | some a => next a
          | none => .fail (.user 99)          -- TypeError: `one` met a matrix in a sum
        if cost na ≤ cost nb then
          .get first li fun l => if l.isZeroS then next acc else
          .get second ri fun r => if r.isZeroS then next acc else finish l r
        else
          .get second ri fun r => if r.isZeroS then next acc else
          .get first li fun l => if l.isZeroS then next acc else finish l r

/-- eval of a two-factor product series with id `self`.  `fill`: lower blocks are adjoints of upper
ones; `half`: diagonal blocks use the half-sum.  A two-factor `hermitian=True` product has both,
the outer product of a longer `hermitian=True` chain only `fill`. -/
def productScript (self first second : SId) (nmiddle : Nat) (fill half : Bool) (idx : Machine.Idx) :
    Script (SVal K) :=
  match idx with
  | i :: j :: n =>
      if i > j && fill then
        .get self (j :: i :: n) fun v => .pure (vadj v)
      else
        prodLoop first second i j (half && i == j) (pairsOf nmiddle n) .zero
  | _ => .fail .index

end Cauchy
end Pyma
