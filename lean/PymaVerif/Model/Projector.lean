/-
Model of `linalg.ComplementProjector`: the record (R, L) with its four cached transforms, and the
matrix-free actions `_apply` / `_apply_left` (the latter as *repaired*, defect D2).  Core Lean only.
-/
import PymaVerif.Model.Mat

namespace Pyma
namespace Projector

/-- rectangular matrices as functions (small model sizes; executable through `Mat` elsewhere) -/
structure Proj (K : Type) (n m : Nat) where  -- ambient dimension `n`, number of vectors `m`
  R : Nat → Nat → K -- right vectors, n × m
  L : Nat → Nat → K -- left vectors, n × m

variable {K : Type} [Scalar K] {n m : Nat}

def sumRange (k : Nat) (f : Nat → K) : K := (List.range k).foldl (fun acc c => acc + f c) 0

/-- `_apply`: `v - R (L† v)` on a vector -/
def apply (P : Proj K n m) (v : Nat → K) : Nat → K :=
  fun a => v a - sumRange m fun c => P.R a c * sumRange n fun b => Scalar.conj (P.L b c) * v b

/-- `_apply_left` (adjoint action): `v - L (R† v)` -/
def applyLeft (P : Proj K n m) (v : Nat → K) : Nat → K :=
  fun a => v a - sumRange m fun c => P.L a c * sumRange n fun b => Scalar.conj (P.R b c) * v b

def adjoint (P : Proj K n m) : Proj K n m := { P with R := P.L, L := P.R }
def conjugate (P : Proj K n m) : Proj K n m :=
  { P with R := fun a c => Scalar.conj (P.R a c), L := fun a c => Scalar.conj (P.L a c) }
def transpose (P : Proj K n m) : Proj K n m := adjoint (conjugate P)

end Projector
end Pyma
