/-
Model of the set-up time decision logic of `block_diagonalize` (block_diagonalization.py): which calls are rejected, with
which exception class, in which order the checks are made.  The *facts* the checks consult are the fields of `Config`; the
correspondence harness (`harness/reject_corr.py`) builds a concrete call for a configuration, runs the real function and
compares the outcome with `setup`.  Core Lean only.
-/
namespace Pyma
namespace Validate

/-- three-valued zero test of an off-diagonal block of `H_0`: the `zero` sentinel (exact / below `atol`), a value known to be
non-zero (any numeric carrier; a SymPy matrix whose `is_zero_matrix` is `False`), or a symbolic value SymPy cannot decide -/
inductive ZeroTest where
  | zero | nonzero | unknown
  deriving DecidableEq, Repr, Inhabited

inductive Outcome where
  | ok
  | valueError (check : String)
  | typeError (check : String)
  | notImplemented (check : String)
  deriving DecidableEq, Repr, Inhabited

def Outcome.isOk : Outcome → Bool
  | .ok => true
  | _ => false

/-- the form of `fully_diagonalize` -/
inductive FD where
  | empty
  /-- block indices -/
  | blocks (l : List Nat)
  /-- a bare mask (allowed for a single block only) -/
  | bare (isArray symmetric eliminatesDegenerate : Bool)
  /-- block ↦ mask facts: value is an ndarray, mask is symmetric, mask eliminates a pair of equal unperturbed energies -/
  | dict (l : List (Nat × Bool × Bool × Bool))
  deriving DecidableEq, Repr, Inhabited

structure Config where
  hermitian : Bool
  /-- a custom `solve_sylvester` is supplied -/
  customSolver : Bool
  /-- … and it takes one argument only (legacy signature) -/
  legacySolver : Bool
  fd : FD
  /-- `subspace_eigenvectors` given (otherwise `subspace_indices` / pre-separated blocks) -/
  vectors : Bool
  /-- some subspace is given as a `(right, left)` pair -/
  pairForm : Bool
  /-- `L†R = 1` within `atol` -/
  biorthonormal : Bool
  /-- fewer vectors than the dimension: implicit mode -/
  implicit : Bool
  /-- the Hamiltonian is given pre-separated into blocks -/
  blockedInput : Bool
  symbolicH0 : Bool
  directSolver : Bool
  /-- vector sets are numpy arrays -/
  arrayVectors : Bool
  nblocks : Nat
  /-- non-`zero` off-diagonal blocks of `H_0` -/
  off : List ((Nat × Nat) × ZeroTest)
  /-- every diagonal block of `H_0` is the `zero` sentinel -/
  diagAllZero : Bool
  deriving Repr, Inhabited

def Config.offAt (c : Config) (i j : Nat) : ZeroTest :=
  match c.off.find? (·.1 == (i, j)) with
  | some (_, z) => z
  | none => .zero

def FD.truthy : FD → Bool
  | .empty => false
  | .blocks l => !l.isEmpty
  | .bare .. => true
  | .dict l => !l.isEmpty

/-- the pairs `(i, j)` the block-diagonality loop inspects, in its order -/
def inspected (c : Config) : List (Nat × Nat) :=
  (List.range c.nblocks).flatMap fun i => (List.range c.nblocks).filterMap fun j =>
    if i == j || (c.hermitian && i > j) then none else some (i, j)

def FD.isBare : FD → Bool
  | .bare .. => true
  | _ => false

/-- `fully_diagonalize` after the single-block normalisation (a bare mask with several blocks is rejected before) -/
def fdNorm (c : Config) : FD :=
  if c.nblocks == 1 then
    match c.fd with
    | .bare a s e => .dict [(0, a, s, e)]
    | .empty => .blocks [0]
    | .blocks [] => .blocks [0]
    | .dict [] => .blocks [0]
    | f => f
  else c.fd

def selects (f : FD) (b : Nat) : Bool :=
  match f with
  | .blocks l => l.contains b
  | .dict l => l.any (·.1 == b)
  | _ => false

/-- first loop over the masks of a dict-valued `fully_diagonalize`: type, then symmetry (Hermitian mode only) -/
def maskFault (herm : Bool) : List (Nat × Bool × Bool × Bool) → Option Outcome
  | [] => none
  | (_, isArr, sym, _) :: rest =>
      if !isArr then some (.valueError "mask is not an ndarray")
      else if herm && !sym then some (.valueError "mask is not symmetric")
      else maskFault herm rest

def dictOf : FD → List (Nat × Bool × Bool × Bool)
  | .dict l => l
  | _ => []

/-- is a known non-zero block among the inspected off-diagonal blocks of `H_0`? -/
def offFault (c : Config) : Bool := (inspected c).any fun ij => c.offAt ij.1 ij.2 == .nonzero

/-- the checks `block_diagonalize` makes before the computation is defined, in source order: (fires?, what is raised) -/
def checks (c : Config) : List (Bool × Outcome) :=
  let imp := c.vectors && c.implicit
  let f := fdNorm c
  [ (c.customSolver && c.fd.truthy, .notImplemented "full diagonalization with a custom Sylvester solver"),
    (c.vectors && c.hermitian && c.pairForm, .valueError "(right, left) pairs in Hermitian mode"),
    (c.vectors && !c.biorthonormal, .valueError "eigenvectors not (bi)orthonormal"),
    (imp && c.blockedInput, .valueError "implicit mode with pre-separated blocks"),
    (imp && c.symbolicH0, .valueError "implicit mode with symbolic Hamiltonian"),
    (imp && !c.hermitian && !c.customSolver && !c.directSolver, .notImplemented "non-Hermitian implicit mode with KPM"),
    (imp && !c.customSolver && !c.arrayVectors, .typeError "implicit problem requires numpy arrays"),
    (imp && !c.customSolver && !c.directSolver && c.pairForm, .notImplemented "implicit KPM with (right, left) pairs"),
    (c.nblocks != 1 && c.fd.isBare, .valueError "fully_diagonalize may not be an ndarray for multiple blocks"),
    (c.customSolver && f.truthy, .notImplemented "full diagonalization (single-block default) with a custom Sylvester solver"),
    (offFault c, .valueError "H_0 is not block diagonal"),
    (c.diagAllZero, .valueError "the diagonal of H_0 is zero"),
    (imp && selects f (c.nblocks - 1), .valueError "fully diagonalizing an implicit block"),
    (c.customSolver && c.legacySolver && !c.hermitian, .notImplemented "legacy one-argument solver in non-Hermitian mode"),
    ((maskFault c.hermitian (dictOf f)).isSome, (maskFault c.hermitian (dictOf f)).getD .ok),
    ((dictOf f).any (·.2.2.2), .valueError "mask eliminates a degenerate pair") ]

/-- outcome of the set-up phase: what the first check that fires raises -/
def setup (c : Config) : Outcome :=
  match (checks c).find? (·.1) with
  | some (_, o) => o
  | none => .ok

end Validate
end Pyma
