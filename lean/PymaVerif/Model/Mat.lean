/-
Dense square matrices over `GRat`, size fixed by the problem (blocks live in corners).
Core Lean only.
-/
import PymaVerif.Model.Scalar

namespace Pyma

/-- `d × d` matrix, row-major. -/
structure Mat (K : Type) where
  d : Nat
  data : Array K
  deriving Repr, Inhabited

namespace Mat
variable {K : Type} [Scalar K]

def get (m : Mat K) (a b : Nat) : K := m.data.getD (a * m.d + b) 0
def ofFn (d : Nat) (f : Nat → Nat → K) : Mat K :=
  ⟨d, Array.ofFn (n := d * d) fun k => f (k.val / d) (k.val % d)⟩
def zero (d : Nat) : Mat K := ofFn d fun _ _ => 0
def add (x y : Mat K) : Mat K := ofFn x.d fun a b => x.get a b + y.get a b
def neg (x : Mat K) : Mat K := ofFn x.d fun a b => -x.get a b
def mul (x y : Mat K) : Mat K :=
  ofFn x.d fun a b => (List.range x.d).foldl (fun acc c => acc + x.get a c * y.get c b) 0
def adj (x : Mat K) : Mat K := ofFn x.d fun a b => Scalar.conj (x.get b a)
def divInt (x : Mat K) (k : Int) : Mat K := ofFn x.d fun a b => Scalar.divInt (x.get a b) k
/-- Hadamard product with a 0/1 mask given as a predicate -/
def mask (x : Mat K) (keep : Nat → Nat → Bool) : Mat K :=
  ofFn x.d fun a b => if keep a b then x.get a b else 0
def isZero (x : Mat K) : Bool := x.data.all fun e => e == 0
/-- identity on the states selected by `sel` -/
def blockOne (d : Nat) (sel : Nat → Bool) : Mat K := ofFn d fun a b => if a == b && sel a then 1 else 0
def entriesToString (x : Mat GRat) : String :=
  String.intercalate ";" (x.data.toList.map GRat.toString)

end Mat
end Pyma
