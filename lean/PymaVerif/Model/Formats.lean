/-
Model of the key normalisation of Hamiltonian containers (block_diagonalization.py):
`_list_to_dict` (a list `[h_0, h_1, …, h_k]` means `k` parameters, `h_i` being first order in parameter `i`) and
`_symbolic_keys_to_tuples` (keys that are monomials in symbols: the symbols are ordered by name *as strings*, a key becomes the tuple of its
exponents in that order; the key `1` is the zeroth order).  Core Lean only.
-/
namespace Pyma
namespace Formats

/-- order tuple of the `i`-th first-order perturbation among `k` -/
def unitVec (k i : Nat) : List Nat := (List.range k).map fun j => if j == i then 1 else 0

/-- keys `_list_to_dict` assigns to a list of `len` entries -/
def listKeys (len : Nat) : List (List Nat) :=
  List.replicate (len - 1) 0 :: (List.range (len - 1)).map (unitVec (len - 1))

/-- a monomial key: symbol name ↦ exponent (`key.as_powers_dict()`), each symbol at most once -/
abbrev Monomial := List (String × Nat)

def insertSorted (s : String) : List String → List String
  | [] => [s]
  | x :: xs => if s == x then x :: xs else if s < x then s :: x :: xs else x :: insertSorted s xs

/-- all symbols of all keys, without repetition, ordered by name as strings -/
def symbolsOf (keys : List Monomial) : List String :=
  (keys.flatMap fun m => m.map (·.1)).foldl (fun acc s => insertSorted s acc) []

def power (m : Monomial) (s : String) : Nat := match m.find? (·.1 == s) with | some (_, e) => e | none => 0

/-- the order tuple of a key -/
def keyTuple (syms : List String) (m : Monomial) : List Nat := syms.map (power m)

/-- `_symbolic_keys_to_tuples`: the symbols and the tuple of every key -/
def keysToTuples (keys : List Monomial) : List String × List (List Nat) :=
  let syms := symbolsOf keys
  (syms, keys.map (keyTuple syms))

/-! ### `_subspaces_from_indices`: the states of each block, in their order of appearance -/

/-- the states (positions) that carry label `b` -/
def blockStates (labels : List Nat) (b : Nat) : List Nat := (List.range labels.length).filter fun a => labels.getD a 0 == b

/-- one list of states per block `0 … max label` (an unused label gives an empty block) -/
def subspaces (labels : List Nat) : List (List Nat) := (List.range (labels.foldl max 0 + 1)).map (blockStates labels)

end Formats
end Pyma
