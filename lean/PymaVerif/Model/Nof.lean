/-
Model of `NumberOrderedForm` (number_ordered_form.py), with coefficients as *functions* of the
occupation numbers.  This is the model of the repaired code (defects D3, D4 of DESIGN.md §6).
Core Lean only.
-/
import PymaVerif.Model.Scalar

namespace Pyma
namespace Nof

inductive Kind where
  | boson | ladder | spin | fermion
  deriving DecidableEq, Repr, Inhabited

/-- values of the number operators, one per mode -/
abbrev Occ := List Int

def Occ.get (N : Occ) (i : Nat) : Int := N.getD i 0
def Occ.set (N : Occ) (i : Nat) (v : Int) : Occ := List.set N i v
def Occ.shift (N : Occ) (i : Nat) (d : Int) : Occ := Occ.set N i (Occ.get N i + d)

structure Term where
  powers : List Int
  coeff : Occ → GRat
  deriving Inhabited

/-- a sum of terms -/
abbrev Form := List Term

structure Ctx where
  kinds : List Kind
  deriving Repr, Inhabited

def Ctx.kind (c : Ctx) (i : Nat) : Kind := c.kinds.getD i .boson
def Ctx.isInf (c : Ctx) (i : Nat) : Bool := c.kind i == .boson || c.kind i == .ladder
def Ctx.n (c : Ctx) : Nat := c.kinds.length

def ofInt (k : Int) : GRat := ⟨(k : Rat), 0⟩

/-- `∏_{k<m} (x - k)` -/
def falling (x : Int) (m : Nat) : Int := (List.range m).foldl (fun (acc : Int) (k : Nat) => acc * (x - (k : Int))) 1
/-- `∏_{k=1..m} (x + k)` -/
def rising (x : Int) (m : Nat) : Int := (List.range m).foldl (fun (acc : Int) (k : Nat) => acc * (x + (k : Int) + 1)) 1

def pw (t : Term) (i : Nat) : Int := t.powers.getD i 0
def setPw (t : Term) (i : Nat) (v : Int) : List Int := t.powers.set i v

/-- `_multiply_op`: right multiplication by `operators[i] ^ q` (`q < 0`: creation) -/
def multiplyOp (c : Ctx) (x : Form) (i : Nat) (q : Int) : Form :=
  if c.isInf i then
    x.map fun t =>
      let orig := pw t i
      let new := orig + q
      let boson := c.kind i == .boson
      let coeff' : Occ → GRat :=
        if q > 0 then
          let toPair := (min q (max (-orig) 0)).toNat
          fun N => t.coeff (Occ.shift N i (-(toPair : Int))) *
            (if boson then ofInt (falling (Occ.get N i) toPair) else 1)
        else
          let toPair := (min (-q) (max orig 0)).toNat
          let newNumbers : Occ → GRat := fun N => if boson then ofInt (rising (Occ.get N i) toPair) else 1
          if new > 0 then
            fun N => t.coeff N * newNumbers (Occ.shift N i new)
          else
            fun N => let N' := Occ.shift N i (-q - toPair); t.coeff N' * newNumbers N'
      { powers := setPw t i new, coeff := coeff' }
  else
    if q.natAbs > 1 then [] else
    x.filterMap fun t =>
      let orig := pw t i
      let new := orig + q
      if new.natAbs > 1 then none else
      let base : Occ → GRat :=
        if q == 1 then
          fun N => (if orig != 0 then ofInt (Occ.get N i) else 1) * t.coeff (Occ.set N i 0)
        else
          fun N => (if orig != 0 then ofInt (1 - Occ.get N i) else 1) * t.coeff (Occ.set N i 1)
      let sign : Bool :=
        if c.kind i == .fermion then
          let idxs := List.range c.n
          let fermions := idxs.filter fun k => c.kind k == .fermion
          let preceding : Nat :=
            if orig == 1 || new == 1 then
              (fermions.filter fun k => k < i && pw t k == 1).length
            else
              (fermions.filter fun k => pw t k == 1).length +
              (idxs.filter fun k => k > i && pw t k == -1).length
          preceding % 2 == 1
        else false
      some { powers := setPw t i new, coeff := fun N => if sign then -(base N) else base N }

/-- `_multiply_expr`: right multiplication by a function of the number operators -/
def multiplyExpr (c : Ctx) (x : Form) (e : Occ → GRat) : Form :=
  x.map fun t =>
    let repl : Occ → Occ := fun N =>
      (List.range c.n).foldl (fun acc i =>
        let p := pw t i
        if p == 0 then acc
        else if c.isInf i then (if p > 0 then Occ.shift acc i p else acc)
        else (if p < 0 then Occ.set acc i 0 else Occ.set acc i 1)) N
    { t with coeff := fun N => t.coeff N * e (repl N) }

/-- `__mul__` -/
def mul (c : Ctx) (x y : Form) : Form :=
  y.flatMap fun t =>
    let idxs := List.range c.n
    let p1 := idxs.foldl (fun acc i => if pw t i < 0 then multiplyOp c acc i (pw t i) else acc) x
    let p2 := multiplyExpr c p1 t.coeff
    idxs.reverse.foldl (fun acc i => if pw t i > 0 then multiplyOp c acc i (pw t i) else acc) p2

def add (x y : Form) : Form := x ++ y
def neg (x : Form) : Form := x.map fun t => { t with coeff := fun N => -(t.coeff N) }
def adjoint (x : Form) : Form :=
  x.map fun t => { powers := t.powers.map (- ·), coeff := fun N => (t.coeff N).conj }
def scalar (c : Ctx) (z : GRat) : Form := [{ powers := List.replicate c.n 0, coeff := fun _ => z }]
def gen (c : Ctx) (i : Nat) (creation : Bool) : Form :=
  [{ powers := (List.replicate c.n (0 : Int)).set i (if creation then -1 else 1), coeff := fun _ => 1 }]
def number (c : Ctx) (i : Nat) : Form :=
  [{ powers := List.replicate c.n 0, coeff := fun N => ofInt (Occ.get N i) }]
def npow (c : Ctx) (x : Form) : Nat → Form
  | 0 => scalar c 1
  | 1 => x
  | k+1 => mul c (npow c x k) x

/-! ## Fock action in the unnormalised basis (`a|n) = n|n-1)`, `a†|n) = |n+1)`) -/

/-- action of one generator on a basis state; `none` = annihilated -/
def genAct (c : Ctx) (i : Nat) (creation : Bool) (s : Occ) : Option (Occ × GRat) :=
  let n := Occ.get s i
  match c.kind i with
  | .boson => if creation then some (Occ.set s i (n+1), 1) else if n == 0 then none else some (Occ.set s i (n-1), ofInt n)
  | .ladder => some (Occ.set s i (if creation then n+1 else n-1), 1)
  | k =>
      let tgt : Option Int := if creation then (if n == 1 then none else some 1) else (if n == 0 then none else some 0)
      match tgt with
      | none => none
      | some v =>
          let sgn : Bool := k == .fermion &&
            ((List.range i).filter fun j => c.kind j == .fermion && Occ.get s j == 1).length % 2 == 1
          some (Occ.set s i v, if sgn then -1 else 1)

def genPowAct (c : Ctx) (i : Nat) (creation : Bool) : Nat → Occ × GRat → Option (Occ × GRat)
  | 0, sa => some sa
  | k+1, (s, a) => match genAct c i creation s with
    | none => none
    | some (s', f) => genPowAct c i creation k (s', a * f)

/-- action of a term on a basis state -/
def termAct (c : Ctx) (t : Term) (s : Occ) : Option (Occ × GRat) := do
  let idxs := List.range c.n
  -- annihilators: rightmost is operators[0], so it acts first
  let sa ← idxs.foldlM (fun sa i => if pw t i > 0 then genPowAct c i false (pw t i).toNat sa else some sa) (s, (1 : GRat))
  let sa := (sa.1, sa.2 * t.coeff sa.1)
  -- creators: leftmost is operators[0], so it acts last
  idxs.reverse.foldlM (fun sa i => if pw t i < 0 then genPowAct c i true (-(pw t i)).toNat sa else some sa) sa

/-- image of a basis state as an association list (zero amplitudes dropped, equal states merged) -/
def act (c : Ctx) (x : Form) (s : Occ) : List (Occ × GRat) :=
  let raw := x.filterMap fun t => termAct c t s
  let merged := raw.foldl (fun (acc : List (Occ × GRat)) (sa : Occ × GRat) =>
    match acc.find? (·.1 == sa.1) with
    | some _ => acc.map fun e => if e.1 == sa.1 then (e.1, e.2 + sa.2) else e
    | none => acc ++ [sa]) []
  merged.filter fun e => !e.2.isZero

end Nof
end Pyma
