/-
Theorems about the model of `BlockSeries.__getitem__` (Model/Index.lean).

* `checkFinite_iff`: `_check_finite` accepts exactly the items whose entries on the infinite dimensions are bounded and non-negative.
* `normAx_trunc`, `select_trunc`: the trial array is large enough — the selection on the trial shape is the selection on *every* larger
  array, so what the series returns is what NumPy returns on the dense array of any sufficiently large truncation.
* `positions_nodup`, `mem_positions`, `positions_sorted`: the positions that get evaluated are the selected sources, each exactly once,
  in lexicographic order.
-/
import PymaVerif.Model.Index
import Mathlib.Data.List.Lex
import Mathlib.Order.Basic
import Mathlib.Tactic

namespace Pyma
namespace Index

/-- an entry of the infinite dimensions that `_check_finite` lets through -/
def AxOk : Ax → Prop
  | .int i => 0 ≤ i
  | .list l => ∀ i ∈ l, (0 : Int) ≤ i
  | .slice a b _ => b.isSome = true ∧ (∀ x, a = some x → 0 ≤ x) ∧ (∀ x, b = some x → 0 ≤ x)

theorem negBound_false_iff (o : Option Int) : negBound o = false ↔ ∀ x, o = some x → 0 ≤ x := by
  cases o with
  | none => simp [negBound]
  | some b => simp [negBound]

theorem checkFinite_iff : ∀ l : List Ax, checkFinite l = true ↔ ∀ a ∈ l, AxOk a
  | [] => by simp [checkFinite]
  | .slice a b st :: r => by
      simp only [checkFinite, Bool.and_eq_true, Bool.not_eq_true', List.mem_cons, forall_eq_or_imp, AxOk, checkFinite_iff r,
        negBound_false_iff]
      tauto
  | .int i :: r => by
      simp only [checkFinite, Bool.and_eq_true, Bool.not_eq_true', decide_eq_false_iff_not, not_lt, List.mem_cons, forall_eq_or_imp, AxOk,
        checkFinite_iff r]
  | .list l :: r => by
      simp only [checkFinite, Bool.and_eq_true, List.all_eq_true, Bool.not_eq_true', decide_eq_false_iff_not, not_lt, List.mem_cons,
        forall_eq_or_imp, AxOk, checkFinite_iff r]

/-- a negative order, a negative bound or a missing stop on an infinite dimension is rejected with `IndexError` -/
theorem getitem_rejects (shape : List Nat) (ninf : Nat) (item : List Ax) (a : Ax) (ha : a ∈ item.drop shape.length) (hbad : ¬ AxOk a) :
    getitem shape ninf item = .error .index := by
  unfold getitem
  have : checkFinite (item.drop shape.length) = false := by
    by_contra h
    have h' : checkFinite (item.drop shape.length) = true := by simpa using h
    exact hbad ((checkFinite_iff _).1 h' a ha)
  simp [this]

/-! ### the trial array is large enough -/

theorem normInt_of_lt {n : Nat} {i : Int} (h0 : 0 ≤ i) (h : i.toNat < n) : normInt n i = some i.toNat := by
  unfold normInt
  have : ¬ i < 0 := not_lt.mpr h0
  simp only [this, ↓reduceIte]
  have h2 : i < (n : Int) := by omega
  simp [h0, h2]

theorem foldl_max_ge (l : List Int) (m : Nat) : m ≤ l.foldl (fun m i => max m i.toNat) m := by
  induction l generalizing m with
  | nil => simp
  | cons x xs ih => exact le_trans (le_max_left _ _) (ih _)

theorem le_foldl_max (l : List Int) (m : Nat) (i : Int) (hi : i ∈ l) : i.toNat ≤ l.foldl (fun m i => max m i.toNat) m := by
  induction l generalizing m with
  | nil => simp at hi
  | cons x xs ih =>
    rcases List.mem_cons.mp hi with rfl | h
    · exact le_trans (le_max_right _ _) (foldl_max_ge xs _)
    · exact ih _ h

theorem mapM_normInt_of_lt {n : Nat} : ∀ (l : List Int), (∀ i ∈ l, (0 : Int) ≤ i ∧ i.toNat < n) → l.mapM (normInt n) = some (l.map Int.toNat)
  | [], _ => by simp
  | x :: xs, h => by
      have hx := h x (List.mem_cons_self ..)
      have ih := mapM_normInt_of_lt xs (fun i hi => h i (List.mem_cons_of_mem _ hi))
      simp [List.mapM_cons, normInt_of_lt hx.1 hx.2, ih]

theorem stepRange_empty {a b st : Nat} (h : b ≤ a) (hst : 0 < st) : stepRange a b st = [] := by
  unfold stepRange
  have : (b - a + st - 1) / st = 0 := by
    have : b - a = 0 := by omega
    rw [this]; simp; omega
  simp [this]

theorem clip_nonneg {n : Nat} {x : Int} (h : 0 ≤ x) : clip n x = min x.toNat n := by
  unfold clip; simp [not_lt.mpr h]

theorem sliceIdx_trunc {a : Option Int} {b : Int} {st n : Nat} (hst : 0 < st) (ha : ∀ x, a = some x → 0 ≤ x) (hb : 0 ≤ b) (hn : b.toNat ≤ n) :
    sliceIdx n a (some b) st = sliceIdx b.toNat a (some b) st := by
  unfold sliceIdx
  simp only [clip_nonneg hb, min_eq_left hn, min_self]
  cases a with
  | none => rfl
  | some x =>
    have hx := ha x rfl
    simp only [clip_nonneg hx]
    by_cases h : x.toNat ≤ b.toNat
    · rw [min_eq_left (le_trans h hn), min_eq_left h]
    · have h' : b.toNat ≤ x.toNat := by omega
      rw [stepRange_empty (a := min x.toNat n) (le_min h' hn) hst, stepRange_empty (a := min x.toNat b.toNat) (le_min h' le_rfl) hst]

/-- one entry of the infinite dimensions selects the same positions on every axis at least as long as the trial axis -/
theorem normAx_trunc {a : Ax} {n : Nat} (hok : AxOk a) (hn : trialLen a ≤ n) : normAx n a = normAx (trialLen a) a := by
  cases a with
  | int i =>
    have h0 : (0 : Int) ≤ i := hok
    simp only [trialLen] at hn ⊢
    simp [normAx, normInt_of_lt h0 (show i.toNat < n by omega), normInt_of_lt h0 (show i.toNat < i.toNat + 1 by omega)]
  | list l =>
    have h0 : ∀ i ∈ l, (0 : Int) ≤ i := hok
    simp only [trialLen] at hn ⊢
    have h1 : ∀ i ∈ l, (0 : Int) ≤ i ∧ i.toNat < n := fun i hi => ⟨h0 i hi, by have := le_foldl_max l 0 i hi; omega⟩
    have h2 : ∀ i ∈ l, (0 : Int) ≤ i ∧ i.toNat < l.foldl (fun m i => max m i.toNat) 0 + 1 :=
      fun i hi => ⟨h0 i hi, by have := le_foldl_max l 0 i hi; omega⟩
    simp [normAx, mapM_normInt_of_lt l h1, mapM_normInt_of_lt l h2]
  | slice s b st =>
    obtain ⟨hb, hs, hb0⟩ := hok
    cases b with
    | none => simp at hb
    | some bb =>
      have hbb := hb0 bb rfl
      simp only [trialLen, Option.getD_some] at hn ⊢
      unfold normAx
      by_cases hst : st = 0
      · simp [hst]
      · simp only [hst, ↓reduceIte]
        rw [sliceIdx_trunc (Nat.pos_of_ne_zero hst) hs hbb hn]

theorem normAll_append {d1 : List Nat} {i1 : List Ax} (h : d1.length = i1.length) (d2 : List Nat) (i2 : List Ax) :
    normAll (d1 ++ d2) (i1 ++ i2) = (do let x ← normAll d1 i1; let y ← normAll d2 i2; pure (x ++ y)) := by
  induction d1 generalizing i1 with
  | nil =>
    cases i1 with
    | nil => simp [normAll]; cases normAll d2 i2 <;> rfl
    | cons _ _ => simp at h
  | cons n ns ih =>
    cases i1 with
    | nil => simp at h
    | cons a as =>
      have h' : ns.length = as.length := by simpa using h
      simp only [List.cons_append, normAll, ih h']
      cases normAx n a <;> simp [bind, Except.bind]
      cases normAll ns as <;> simp
      cases normAll d2 i2 <;> simp [pure, Except.pure]

theorem normAll_trunc : ∀ (inf : List Ax) (big : List Nat), (∀ a ∈ inf, AxOk a) → List.Forall₂ (fun a n => trialLen a ≤ n) inf big →
    normAll big inf = normAll (inf.map trialLen) inf
  | [], [], _, _ => rfl
  | a :: as, n :: ns, hok, h => by
      cases h with
      | cons h1 h2 =>
        simp only [List.map_cons, normAll, normAx_trunc (hok a (List.mem_cons_self ..)) h1,
          normAll_trunc as ns (fun x hx => hok x (List.mem_cons_of_mem _ hx)) h2]
  | [], _ :: _, _, h => by cases h
  | _ :: _, [], _, h => by cases h

/-- **the trial array suffices**: for an accepted item, NumPy's selection on the trial shape is its selection on every array whose infinite
dimensions are at least as long — the dense array of element values of any sufficiently large truncation of the series -/
theorem select_trunc (shape : List Nat) (fin inf : List Ax) (big : List Nat) (hlen : shape.length = fin.length)
    (hok : ∀ a ∈ inf, AxOk a) (hbig : List.Forall₂ (fun a n => trialLen a ≤ n) inf big) :
    select (shape ++ big) (fin ++ inf) = select (trialDims shape inf) (fin ++ inf) := by
  unfold select trialDims
  rw [normAll_append hlen, normAll_append hlen, normAll_trunc inf big hok hbig]

/-! ### evaluated positions: each selected source once, in order -/

theorem mem_insertSorted (x t : List Nat) : ∀ l : List (List Nat), t ∈ insertSorted x l ↔ t = x ∨ t ∈ l
  | [] => by simp [insertSorted]
  | y :: ys => by
    unfold insertSorted
    by_cases h1 : x = y
    · subst h1; simp
    · simp only [h1, ↓reduceIte]
      by_cases h2 : x < y
      · simp [h2]
      · simp only [h2, ↓reduceIte, List.mem_cons, mem_insertSorted x t ys]; tauto

theorem sorted_insertSorted (x : List Nat) : ∀ l : List (List Nat), l.Pairwise (· < ·) → (insertSorted x l).Pairwise (· < ·)
  | [], _ => by simp [insertSorted]
  | y :: ys, h => by
    unfold insertSorted
    have hy := List.pairwise_cons.mp h
    by_cases h1 : x = y
    · simp only [h1, ↓reduceIte]; exact h
    · simp only [h1, ↓reduceIte]
      by_cases h2 : x < y
      · simp only [h2, ↓reduceIte]
        refine List.pairwise_cons.mpr ⟨?_, h⟩
        intro t ht
        rcases List.mem_cons.mp ht with rfl | ht
        · exact h2
        · exact lt_trans h2 (hy.1 t ht)
      · simp only [h2, ↓reduceIte]
        refine List.pairwise_cons.mpr ⟨?_, sorted_insertSorted x ys hy.2⟩
        intro t ht
        rcases (mem_insertSorted x t ys).1 ht with rfl | ht
        · rcases lt_trichotomy t y with h | h | h
          · exact absurd h h2
          · exact absurd h h1
          · exact h
        · exact hy.1 t ht

theorem positions_sorted_aux (l : List (List Nat)) : ∀ acc : List (List Nat), acc.Pairwise (· < ·) →
    (l.foldl (fun acc s => insertSorted s acc) acc).Pairwise (· < ·) := by
  induction l with
  | nil => intro acc h; simpa
  | cons x xs ih => intro acc h; exact ih _ (sorted_insertSorted x acc h)

theorem positions_sorted (l : List (List Nat)) : (positions l).Pairwise (· < ·) := positions_sorted_aux l [] List.Pairwise.nil

theorem mem_positions_aux (l : List (List Nat)) (t : List Nat) : ∀ acc : List (List Nat),
    t ∈ l.foldl (fun acc s => insertSorted s acc) acc ↔ t ∈ l ∨ t ∈ acc := by
  induction l with
  | nil => intro acc; simp
  | cons x xs ih => intro acc; simp only [List.foldl_cons, ih, mem_insertSorted, List.mem_cons]; tauto

/-- exactly the selected elements are evaluated -/
theorem mem_positions (l : List (List Nat)) (t : List Nat) : t ∈ positions l ↔ t ∈ l := by
  simp [positions, mem_positions_aux]

/-- … each of them once -/
theorem positions_nodup (l : List (List Nat)) : (positions l).Nodup :=
  (positions_sorted l).imp (fun h => ne_of_lt h)

/-- an answer of `getitem` is NumPy's selection on the trial array together with the sorted, duplicate-free list of its sources -/
theorem getitem_ok {shape : List Nat} {ninf : Nat} {item : List Ax} {a : Answer} (h : getitem shape ninf item = .ok a) :
    ∃ r, select (trialDims shape (item.drop shape.length)) item = .ok r ∧ a = ⟨r.shape, r.sources, positions r.sources⟩ := by
  unfold getitem at h
  by_cases hc : checkFinite (item.drop shape.length) = true
  · by_cases hl : item.length = shape.length + ninf
    · simp only [hc, hl, Bool.not_true, Bool.false_eq_true, ↓reduceIte, ne_eq, not_true_eq_false] at h
      cases hs : select (trialDims shape (item.drop shape.length)) item with
      | error e => simp [hs, bind, Except.bind] at h
      | ok r =>
        simp only [hs, bind, Except.bind, pure, Except.pure, Except.ok.injEq] at h
        exact ⟨r, rfl, h.symm⟩
    · simp [hc, hl] at h
  · simp [hc] at h

end Index
end Pyma
