/-
Ring-level one-step semantics of the mini-language and the generic theorem that every derivable
element satisfies it (`Holds.sat`).  From here on, recursion, laziness, sentinels and error
handling are gone: what remains are plain matrix equations.
-/
import PymaVerif.Proofs.DenFun

namespace Pyma
namespace Dsl

variable {K : Type} [Field K] [StarRing K] [DecidableEq K] [Thresholds K]
attribute [local instance] Scalar.ofField

/-- ring-level meaning of the scope of an environment -/
structure EnvSem (B : Blocks) (env : Env K) where
  fnVal : String → MatK K B → Idx → MatK K B
  fnSer : String → String → Idx → MatK K B
  diag : MatK K B → Idx → MatK K B
  offdiag : MatK K B → Idx → MatK K B
  fnVal_ok : ∀ f v idx w, Supp B idx v → env.fn f (.inr v) idx = .ok w →
    sem B idx w = fnVal f (sem B idx v) idx
  fnSer_ok : ∀ f x idx w, env.fn f (.inl x) idx = .ok w → sem B idx w = fnSer f x idx
  diag_ok : ∀ v idx, Supp B idx v → sem B idx (env.diag v idx) = diag (sem B idx v) idx
  offdiag_ok : ∀ od v idx, env.offdiag = some od → Supp B idx v →
    sem B idx (od v idx) = offdiag (sem B idx v) idx

variable {B : Blocks} {p : Prog} {env : Env K}

noncomputable def exprSem (S : EnvSem B env) (p : Prog) (idx : Idx) : Expr → MatK K B
  | .ser x => mat B p env x idx
  | .adj x => (mat B p env x idx.swap).conjTranspose
  | .neg e => -exprSem S p idx e
  | .add a b => exprSem S p idx a + exprSem S p idx b
  | .sub a b => exprSem S p idx a - exprSem S p idx b
  | .divInt e k => ((k : K)⁻¹) • exprSem S p idx e
  | .callSer f x => S.fnSer f x idx
  | .callExpr f e => S.fnVal f (exprSem S p idx e) idx
  | .zero => 0
  | .ite fl t e => if evalFlag env idx fl then exprSem S p idx t else exprSem S p idx e

noncomputable def bodySem (S : EnvSem B env) (p : Prog) (self : String) (idx : Idx) :
    List Stmt → MatK K B → MatK K B
  | [], acc => acc
  | .marker anti :: rest, acc =>
      if idx.i > idx.j then
        acc + (if anti then -(mat B p env self idx.swap).conjTranspose
               else (mat B p env self idx.swap).conjTranspose)
      else bodySem S p self idx rest acc
  | .clause .lower e :: rest, acc =>
      if idx.i > idx.j then acc + exprSem S p idx e else bodySem S p self idx rest acc
  | .clause .diagonal e :: rest, acc =>
      if (idx.i == idx.j) = true then bodySem S p self idx rest (acc + S.diag (exprSem S p idx e) idx)
      else bodySem S p self idx rest acc
  | .clause .offdiagonal e :: rest, acc =>
      if (idx.i != idx.j) = true then bodySem S p self idx rest (acc + exprSem S p idx e)
      else match env.offdiag with
        | some _ => bodySem S p self idx rest (acc + S.offdiag (exprSem S p idx e) idx)
        | none => bodySem S p self idx rest acc
  | .clause .default e :: rest, acc => bodySem S p self idx rest (acc + exprSem S p idx e)

noncomputable def elemSem (S : EnvSem B env) (p : Prog) (x : String) (idx : Idx) : MatK K B :=
  match kindOf p env x with
  | .input => sem B idx (env.input x idx)
  | .series d =>
      match startVal env d.start idx with
      | some v => sem B idx v
      | none => bodySem S p x idx d.body 0
  | .product a b => pairSum B p env a b idx.i idx.j (pairsOf env.nblocks idx.n)
  | .unknown => 0

/-- what `Holds.sat` says about each kind of judgement -/
def SatJ (S : EnvSem B env) (p : Prog) : J K → SVal K → Prop
  | .elem x idx, v => sem B idx v = elemSem S p x idx
  | .expr e idx, v => sem B idx v = exprSem S p idx e
  | .body self idx stmts acc, r => Supp B idx acc → sem B idx r = bodySem S p self idx stmts (sem B idx acc)
  | .pairs _ _ _ _ _, _ => True

theorem sem_markerVal {idx : Idx} {anti : Bool} {acc v r : SVal K} (hacc : Supp B idx acc)
    (hv : Supp B idx.swap v) (h : markerVal anti acc v = .ok r) :
    sem B idx r = sem B idx acc + (if anti then -(sem B idx.swap v).conjTranspose
      else (sem B idx.swap v).conjTranspose) := by
  simp only [markerVal, bind, Except.bind] at h
  cases anti
  · simp only [Bool.false_eq_true, ↓reduceIte, pure, Except.pure] at h
    rw [sem_vadd hacc (supp_vadj hv) h, sem_vadj hv]
    simp
  · simp only [↓reduceIte] at h
    split at h
    · cases h
    · rename_i v' hv'
      rw [sem_vadd hacc (supp_vneg (supp_vadj hv) hv') h, sem_vneg (supp_vadj hv) hv', sem_vadj hv]
      simp

theorem Holds.sat (he : EnvOK B env) (S : EnvSem B env) {j : J K} {v : SVal K}
    (h : Holds p env j v) : SatJ S p j v := by
  induction h with
  | @ser x idx v h _ => show sem B idx v = mat B p env x idx; rw [mat, den_eq h]
  | @adj x idx v h _ =>
    show sem B idx (vadj v) = (mat B p env x idx.swap).conjTranspose
    rw [mat, den_eq h, sem_vadj (Holds.supp he h)]
  | @neg e idx v w h hv ih =>
    show sem B idx w = -exprSem S p idx e
    rw [sem_vneg (Holds.supp he h) hv, ih]
  | @add a b idx x y w ha hb hv iha ihb =>
    show sem B idx w = exprSem S p idx a + exprSem S p idx b
    rw [sem_vadd (Holds.supp he ha) (Holds.supp he hb) hv, iha, ihb]
  | @sub a b idx x y w ha hb hv iha ihb =>
    show sem B idx w = exprSem S p idx a - exprSem S p idx b
    rw [sem_vsub (Holds.supp he ha) (Holds.supp he hb) hv, iha, ihb]
  | @divInt e k idx v w h hv ih =>
    show sem B idx w = ((k : K)⁻¹) • exprSem S p idx e
    rw [sem_vdiv (Holds.supp he h) hv, ih]
  | @callSer f x idx w hv => exact S.fnSer_ok _ _ _ _ hv
  | @callExpr f e idx v w h hv ih =>
    show sem B idx w = S.fnVal f (exprSem S p idx e) idx
    rw [S.fnVal_ok _ _ _ _ (Holds.supp he h) hv, ih]
  | zero => rfl
  | @iteT fl t e idx v hf _ ih =>
    show sem B idx v = exprSem S p idx (.ite fl t e)
    simp only [exprSem, hf, ↓reduceIte]; exact ih
  | @iteF fl t e idx v hf _ ih =>
    show sem B idx v = exprSem S p idx (.ite fl t e)
    simp only [exprSem, hf, Bool.false_eq_true, ↓reduceIte]; exact ih
  | bnil => intro _; rfl
  | @markerHit self idx anti rest acc v r hgt hself hv _ =>
    intro hacc
    simp only [bodySem, hgt, ↓reduceIte]
    rw [sem_markerVal hacc (Holds.supp he hself) hv, mat, den_eq hself]
  | @markerMiss self idx anti rest acc r hn _ ih =>
    intro hacc
    simp only [bodySem, hn, ↓reduceIte]; exact ih hacc
  | @lowerHit self idx e rest acc v r hgt he' hv ih =>
    intro hacc
    simp only [bodySem, hgt, ↓reduceIte]
    rw [sem_vadd hacc (Holds.supp he he') hv, ih]
  | @lowerMiss self idx e rest acc r hn _ ih =>
    intro hacc
    simp only [bodySem, hn, ↓reduceIte]; exact ih hacc
  | @diagHit self idx e rest acc v acc' r hc he' hv _ ihe ihb =>
    intro hacc
    have hsd := he.diag _ _ (Holds.supp he he')
    simp only [bodySem, hc, ↓reduceIte]
    rw [ihb (supp_vadd hacc hsd hv), sem_vadd hacc hsd hv, S.diag_ok _ _ (Holds.supp he he'), ihe]
  | @diagMiss self idx e rest acc r hc _ ih =>
    intro hacc
    simp only [bodySem, hc, Bool.false_eq_true, ↓reduceIte]; exact ih hacc
  | @offHit self idx e rest acc v acc' r hc he' hv _ ihe ihb =>
    intro hacc
    have hse := Holds.supp he he'
    simp only [bodySem, hc, ↓reduceIte]
    rw [ihb (supp_vadd hacc hse hv), sem_vadd hacc hse hv, ihe]
  | @offWrap self idx e rest acc v acc' r od hc hod he' hv _ ihe ihb =>
    intro hacc
    have hse := Holds.supp he he'
    have hso := he.offdiag _ _ _ hod hse
    simp only [bodySem, hc, Bool.false_eq_true, ↓reduceIte, hod]
    rw [ihb (supp_vadd hacc hso hv), sem_vadd hacc hso hv, S.offdiag_ok _ _ _ hod hse, ihe]
  | @offSkip self idx e rest acc r hc hod _ ih =>
    intro hacc
    simp only [bodySem, hc, Bool.false_eq_true, ↓reduceIte, hod]; exact ih hacc
  | @default self idx e rest acc v acc' r he' hv _ ihe ihb =>
    intro hacc
    have hse := Holds.supp he he'
    simp only [bodySem]
    rw [ihb (supp_vadd hacc hse hv), sem_vadd hacc hse hv, ihe]
  | pnil => trivial
  | leftZero => trivial
  | leftThenRightZero => trivial
  | rightZero => trivial
  | rightThenLeftZero => trivial
  | both => trivial
  | @input x idx hk =>
    show sem B idx _ = elemSem S p x idx
    simp only [elemSem, hk]
  | @pinned x d idx v hk hs =>
    show sem B idx v = elemSem S p x idx
    simp only [elemSem, hk, hs]
  | @body x d idx v hk hs hb ih =>
    show sem B idx v = elemSem S p x idx
    simp only [elemSem, hk, hs]
    have := ih (show Supp B idx (.zero : SVal K) from trivial)
    simpa [sem] using this
  | @product x a b idx v hk hp _ =>
    show sem B idx v = elemSem S p x idx
    simp only [elemSem, hk]
    have := Holds.pairs_sem he hp (show Supp B idx (.zero : SVal K) from trivial)
    simpa [sem] using this

/-- every derivable element satisfies the one-step equation -/
theorem Den.sat (he : EnvOK B env) (S : EnvSem B env) {x : String} {idx : Idx} {v : SVal K}
    (h : Den p env x idx v) : mat B p env x idx = elemSem S p x idx := by
  rw [mat, den_eq h]; exact Holds.sat he S h

end Dsl
end Pyma
#print axioms Pyma.Dsl.Den.sat
