/-
C01/C02 for `main` when `two_block_optimized` is set (two blocks, no `fully_diagonalize`): the
hypotheses of `TheoremH2` hold for the series the model computes.
-/
import PymaVerif.Proofs.MainH6
import PymaVerif.Proofs.CoreH2

namespace Pyma
namespace BlockDiag
open Dsl Generated MvPowerSeries
namespace Problem

variable {K : Type} [Field K] [StarRing K] [DecidableEq K] [Thresholds K]
attribute [local instance] Scalar.ofField

/-! ## block-parity of matrix products (two blocks) -/

section parity
variable {d : Nat} (e : Fin d → Fin d → Bool)

theorem mul_entry_zero (M N : Mt K d) (a b : Fin d) (h : ∀ c, M a c = 0 ∨ N c b = 0) : (M * N) a b = 0 := by
  rw [Matrix.mul_apply]
  apply Finset.sum_eq_zero
  intro c _
  rcases h c with h | h <;> simp [h]

theorem even_entry {M : Mt K d} (h : maskMap e M = M) {a b : Fin d} (hab : e a b = false) : M a b = 0 := by
  have := congrFun (congrFun h a) b
  rw [maskMap_apply, hab] at this
  simpa using this.symm

theorem odd_entry {M : Mt K d} (h : maskMap e M = 0) {a b : Fin d} (hab : e a b = true) : M a b = 0 := by
  have := congrFun (congrFun h a) b
  rw [maskMap_apply, hab] at this
  simpa using this

/-- `e` is "same block" for a block structure with transitivity, and with only two blocks -/
structure TwoBlocks : Prop where
  trans : ∀ a b c, e a c = true → e c b = true → e a b = true
  symm : ∀ a b, e a b = e b a
  two : ∀ a b c, e a c = false → e c b = false → e a b = true

variable {e}

theorem mask_ee (T : TwoBlocks e) {M N : Mt K d} (hM : maskMap e M = M) (hN : maskMap e N = N) :
    maskMap e (M * N) = M * N := by
  funext a b
  rw [maskMap_apply]
  cases hab : e a b
  · simp only [Bool.false_eq_true, ↓reduceIte]
    symm
    apply mul_entry_zero
    intro c
    cases hac : e a c
    · left; exact even_entry e hM hac
    · right
      apply even_entry e hN
      cases hcb : e c b
      · rfl
      · rw [T.trans a b c hac hcb] at hab; cases hab
  · simp

theorem mask_oo (T : TwoBlocks e) {M N : Mt K d} (hM : maskMap e M = 0) (hN : maskMap e N = 0) :
    maskMap e (M * N) = M * N := by
  funext a b
  rw [maskMap_apply]
  cases hab : e a b
  · simp only [Bool.false_eq_true, ↓reduceIte]
    symm
    apply mul_entry_zero
    intro c
    cases hac : e a c
    · right
      apply odd_entry e hN
      cases hcb : e c b
      · rw [T.two a b c hac hcb] at hab; cases hab
      · rfl
    · left; exact odd_entry e hM hac
  · simp

theorem mask_eo (T : TwoBlocks e) {M N : Mt K d} (hM : maskMap e M = M) (hN : maskMap e N = 0) :
    maskMap e (M * N) = 0 := by
  funext a b
  rw [maskMap_apply]
  cases hab : e a b
  · simp
  · simp only [↓reduceIte, Matrix.zero_apply]
    apply mul_entry_zero
    intro c
    cases hac : e a c
    · left; exact even_entry e hM hac
    · right
      apply odd_entry e hN
      have : e c a = true := by rw [T.symm]; exact hac
      exact T.trans c b a this hab

theorem mask_oe (T : TwoBlocks e) {M N : Mt K d} (hM : maskMap e M = 0) (hN : maskMap e N = N) :
    maskMap e (M * N) = 0 := by
  funext a b
  rw [maskMap_apply]
  cases hab : e a b
  · simp
  · simp only [↓reduceIte, Matrix.zero_apply]
    apply mul_entry_zero
    intro c
    cases hcb : e c b
    · right; exact even_entry e hN hcb
    · left
      apply odd_entry e hM
      have : e b c = true := by rw [T.symm]; exact hcb
      exact T.trans a c b hab this

variable {σ : Type} [DecidableEq σ]

theorem coeff_of_fix {φ : Mt K d →+ Mt K d} {x : Sr σ K d} (h : coeffwise φ x = x) (m : σ →₀ ℕ) :
    φ (coeff m x) = coeff m x := by
  have := congrArg (coeff m) h
  rwa [coeff_coeffwise] at this

theorem coeff_of_kill {φ : Mt K d →+ Mt K d} {x : Sr σ K d} (h : coeffwise φ x = 0) (m : σ →₀ ℕ) :
    φ (coeff m x) = 0 := by
  have := congrArg (coeff m) h
  rwa [coeff_coeffwise, map_zero] at this

theorem coeffwise_mul_fix (φ : Mt K d →+ Mt K d) (x y : Sr σ K d)
    (h : ∀ i j, φ (coeff i x * coeff j y) = coeff i x * coeff j y) : coeffwise φ (x * y) = x * y := by
  ext m : 1
  rw [coeff_coeffwise, coeff_mul, map_sum]
  exact Finset.sum_congr rfl fun q _ => h q.1 q.2

theorem coeffwise_mul_kill (φ : Mt K d →+ Mt K d) (x y : Sr σ K d)
    (h : ∀ i j, φ (coeff i x * coeff j y) = 0) : coeffwise φ (x * y) = 0 := by
  ext m : 1
  rw [coeff_coeffwise, coeff_mul, map_sum, map_zero]
  exact Finset.sum_eq_zero fun q _ => h q.1 q.2

end parity

variable (p : Problem K) (R : p.Ready) (hopt : p.twoBlockOptimized = true) (Y : p.Sym) (A : p.Acc)
  (h2 : (2 : K) ≠ 0)

include hopt in
theorem kp_eq_dgP : p.kp = p.dgP := by
  funext a b
  simp [kp, keptE, dgP, p.elimIn_false_of_empty (p.empty_of_opt hopt)]

include R hopt in
theorem twoBlocks : TwoBlocks p.kp := by
  rw [p.kp_eq_dgP hopt]
  have hN := p.nblocks_of_opt hopt
  refine ⟨?_, ?_, ?_⟩
  · intro a b c h1 h2
    simp only [dgP, beq_iff_eq] at *
    omega
  · intro a b
    simp only [dgP]
    exact Bool.beq_comm
  · intro a b c h1 h2
    have ha := R.hN a
    have hb := R.hN b
    have hc := R.hN c
    simp only [dgP, beq_eq_false_iff_ne, ne_eq, beq_iff_eq] at *
    omega

include hopt in
theorem SelS_eq : p.SelS = coeffwise (maskMap p.dgP) := by
  unfold SelS; rw [p.kp_eq_dgP hopt]

/-- the upper and lower block-off-diagonal parts -/
noncomputable def UpS : Sr (Fin p.nparams) K p.d →+ Sr (Fin p.nparams) K p.d := coeffwise (maskMap p.upP)
noncomputable def LoS : Sr (Fin p.nparams) K p.d →+ Sr (Fin p.nparams) K p.d := coeffwise (maskMap p.loP)

theorem coeff_UpS (x : Sr (Fin p.nparams) K p.d) (m : Fin p.nparams →₀ ℕ) (a b : Fin p.d) :
    coeff m (p.UpS x) a b = if p.blk a.val < p.blk b.val then coeff m x a b else 0 := by
  show maskMap p.upP (coeff m x) a b = _
  simp [maskMap_apply, upP]

theorem coeff_LoS (x : Sr (Fin p.nparams) K p.d) (m : Fin p.nparams →₀ ℕ) (a b : Fin p.d) :
    coeff m (p.LoS x) a b = if p.blk a.val > p.blk b.val then coeff m x a b else 0 := by
  show maskMap p.loP (coeff m x) a b = _
  simp [maskMap_apply, loP]

include hopt in
theorem keptE_opt (a b : Fin p.d) : p.keptE a.val b.val = (p.blk a.val == p.blk b.val) := by
  simp [keptE, p.elimIn_false_of_empty (p.empty_of_opt hopt)]

include R hopt h2 in
/-- the optimised equation of `W` -/
theorem eqW2 : 2 * p.sr "W" = -p.SelS ((p.sr "W" - p.sr "V") * (p.sr "W" + p.sr "V")) := by
  rw [← p.sr_Q R, ← p.sr_P R, ← p.sr_QP R]
  ext m a b
  rw [coeff_two_mul, two_mul_apply, map_neg, Matrix.neg_apply, coeff_SelS, coeff_sr, coeff_sr,
    p.keptE_opt hopt]
  by_cases hm : m = 0
  · subst hm
    have hz := (toList_all_zero (0 : Fin p.nparams →₀ ℕ)).mpr rfl
    have hq := p.coeff_zero_of_F1 (p.F1_QP R)
    rw [← p.sr_QP R, coeff_sr] at hq
    rw [p.g0_W R.wf R.tot _ hz, hq]; simp
  · have hn := toList_all_nonzero m hm
    rcases Nat.lt_trichotomy (p.blk a.val) (p.blk b.val) with h | h | h
    · have hle : ¬ p.blk a.val > p.blk b.val := by omega
      have hne : ¬ p.blk a.val = p.blk b.val := by omega
      rw [p.g_W_upper_opt R.wf R.tot hopt _ hn a b hle, if_neg hne]
      simp [hne]
    · have hle : ¬ p.blk a.val > p.blk b.val := by omega
      rw [p.g_W_upper_opt R.wf R.tot hopt _ hn a b hle, if_pos h, neg_two_inv_mul h2]
      simp [h]
    · have hle : ¬ p.blk b.val > p.blk a.val := by omega
      have hne : ¬ p.blk b.val = p.blk a.val := by omega
      have hne' : ¬ p.blk a.val = p.blk b.val := by omega
      rw [p.g_W_lower R.wf R.tot _ hn a b h, p.g_W_upper_opt R.wf R.tot hopt _ hn b a hle, if_neg hne]
      simp [hne']

include R hopt in
theorem Yev : p.SelS (p.sr "Yadj") = 0 := by
  ext m a b
  rw [coeff_SelS, coeff_sr, p.keptE_opt hopt]
  by_cases hab : p.blk a.val = p.blk b.val
  · by_cases hm : m = 0
    · subst hm
      rw [p.g0_Y R.wf R.tot _ ((toList_all_zero 0).mpr rfl)]; simp
    · have hle : ¬ p.blk a.val > p.blk b.val := by omega
      rw [p.g_Y_upper_opt R.wf R.tot hopt _ (toList_all_nonzero m hm) a b hle, if_pos hab]; simp
  · simp [hab]

include R hopt in
theorem Yup : p.UpS (p.sr "Yadj") = p.UpS (star (p.sr "X")) := by
  ext m a b
  rw [coeff_UpS, coeff_UpS, coeff_star_apply, coeff_sr, coeff_sr]
  by_cases h : p.blk a.val < p.blk b.val
  · simp only [h, ↓reduceIte]
    by_cases hm : m = 0
    · subst hm
      have hz := (toList_all_zero (0 : Fin p.nparams →₀ ℕ)).mpr rfl
      rw [p.g0_Y R.wf R.tot _ hz, p.g0_X R.wf R.tot _ hz]; simp
    · have hle : ¬ p.blk a.val > p.blk b.val := by omega
      have hne : ¬ p.blk a.val = p.blk b.val := by omega
      rw [p.g_Y_upper_opt R.wf R.tot hopt _ (toList_all_nonzero m hm) a b hle, if_neg hne]
  · simp [h]

include R hopt in
theorem Ylo : p.LoS (p.sr "Yadj") = p.LoS (p.sr "X") := by
  ext m a b
  rw [coeff_LoS, coeff_LoS, coeff_sr, coeff_sr]
  by_cases h : p.blk a.val > p.blk b.val
  · simp only [h, ↓reduceIte]
    by_cases hm : m = 0
    · subst hm
      have hz := (toList_all_zero (0 : Fin p.nparams →₀ ℕ)).mpr rfl
      rw [p.g0_Y R.wf R.tot _ hz, p.g0_X R.wf R.tot _ hz]
    · have hn := toList_all_nonzero m hm
      have hle : ¬ p.blk b.val > p.blk a.val := by omega
      have hne : ¬ p.blk b.val = p.blk a.val := by omega
      rw [p.g_Y_lower R.wf R.tot _ hn a b h, p.g_Y_upper_opt R.wf R.tot hopt _ hn b a hle, if_neg hne,
        star_star]
  · simp [h]

include R hopt Y A in
theorem Vodd : p.SelS (p.sr "V") = 0 := by
  ext m a b
  rw [coeff_SelS]
  by_cases hk : p.keptE a.val b.val = true
  · simp only [hk, ↓reduceIte]
    exact p.V_kept_zero R m a b hk
  · simp [hk]

include R hopt Y A h2 in
/-- the data of `TheoremH2` for the optimised `main` -/
noncomputable def hypH2 : TheoremH2.Hyp2 (Sr (Fin p.nparams) K p.d) where
  Φ := p.filt
  two_cancel := two_cancel_series h2
  two_mem := two_mem_series h2
  star_mem := p.star_mem_F
  Ev := p.SelS
  Up := p.UpS
  Lo := p.LoS
  split := by
    intro x
    rw [p.SelS_eq hopt]
    ext m : 1
    rw [map_add, map_add]
    show coeff m x = maskMap p.dgP (coeff m x) + maskMap p.upP (coeff m x) + maskMap p.loP (coeff m x)
    rw [p.split_masks]
  Ev_Ev := by
    intro x
    ext m : 1
    show maskMap p.kp (maskMap p.kp (coeff m x)) = maskMap p.kp (coeff m x)
    rw [maskMap_idem]
  Up_Ev := by
    intro x
    rw [p.SelS_eq hopt]
    ext m a b
    show maskMap p.upP (maskMap p.dgP (coeff m x)) a b = 0
    simp only [maskMap_apply, upP, dgP]
    by_cases h : p.blk a.val < p.blk b.val
    · have : ¬ p.blk a.val = p.blk b.val := by omega
      simp [h, this]
    · simp [h]
  Lo_Ev := by
    intro x
    rw [p.SelS_eq hopt]
    ext m a b
    show maskMap p.loP (maskMap p.dgP (coeff m x)) a b = 0
    simp only [maskMap_apply, loP, dgP]
    by_cases h : p.blk a.val > p.blk b.val
    · have : ¬ p.blk a.val = p.blk b.val := by omega
      simp [h, this]
    · simp [h]
  Ev_star := p.SelS_star Y
  Up_star := fun x => p.star_coeffwise_swap p.upP p.loP (by intro a b; simp [upP, loP]) x
  Ev_mem := fun k x hx => coeffwise_mem _ k x hx
  Up_mem := fun k x hx => coeffwise_mem _ k x hx
  Lo_mem := fun k x hx => coeffwise_mem _ k x hx
  ee := fun x y hx hy => coeffwise_mul_fix _ x y fun i j =>
    mask_ee (p.twoBlocks R hopt) (coeff_of_fix hx i) (coeff_of_fix hy j)
  oo := fun x y hx hy => coeffwise_mul_fix _ x y fun i j =>
    mask_oo (p.twoBlocks R hopt) (coeff_of_kill hx i) (coeff_of_kill hy j)
  eo := fun x y hx hy => coeffwise_mul_kill _ x y fun i j =>
    mask_eo (p.twoBlocks R hopt) (coeff_of_fix hx i) (coeff_of_kill hy j)
  oe := fun x y hx hy => coeffwise_mul_kill _ x y fun i j =>
    mask_oe (p.twoBlocks R hopt) (coeff_of_kill hx i) (coeff_of_fix hy j)
  H0 := p.H0s
  Hd := p.sr "H'_diag"
  Ho := p.sr "H'_offdiag"
  W := p.sr "W"
  V := p.sr "V"
  X := p.sr "X"
  B := p.sr "B"
  Y := p.sr "Yadj"
  Ht := p.sr "H_tilde"
  H0star := p.H0s_star Y
  H0ev := p.H0s_sel A
  Hdstar := p.Hd_star R Y A
  Hdev := p.Hd_sel R
  Hostar := p.Ho_star R Y A
  Hoodd := p.Ho_sel R
  Vstar := p.sr_V_star R Y
  Vodd := p.Vodd R hopt Y A
  Wmem := p.F1_W R
  Vmem := p.F1_V R
  eqW2 := p.eqW2 R hopt h2
  Yev := p.Yev R hopt
  Ylo := p.Ylo R hopt
  Yup := p.Yup R hopt
  eqX := by rw [← p.sr_P R]; exact p.sr_X R
  eqBsel := by
    rw [← p.sr_Q R, ← p.sr_P R, ← p.sr_QB R, ← p.sr_A R, ← p.sr_VH R]
    exact p.eqBsel R Y A h2
  eqBrem := by
    rw [← p.sr_Q R, ← p.sr_QB R]
    exact p.eqBrem R
  eqV := by
    rw [← p.sr_VH R]
    exact p.eqV R Y A
  eqHt := by
    rw [← p.sr_Q R, ← p.sr_P R, ← p.sr_QB R, ← p.sr_A R]
    exact p.eqHt R Y A h2

include R hopt Y A h2 in
/-- **C01 for the model, two-block-optimised flags** -/
theorem C01_opt : p.sr "U†" * p.sr "H" * p.sr "U" = p.sr "H_tilde" := by
  have h := TheoremH2.main_identity (p.hypH2 R hopt Y A h2)
  rw [p.sr_U R, p.sr_Ud R, p.sr_P R, p.sr_Q R, p.sr_H R A]
  exact h

include R hopt Y A h2 in
theorem C02_opt : p.sr "U†" * p.sr "U" = 1 ∧ p.sr "U" * p.sr "U†" = 1 ∧ star (p.sr "U") = p.sr "U†" := by
  have h1 := TheoremH2.unitary (p.hypH2 R hopt Y A h2)
  have h2' := TheoremH2.unitary' (p.hypH2 R hopt Y A h2)
  have hW := TheoremH2.Wstar (p.hypH2 R hopt Y A h2)
  rw [p.sr_U R, p.sr_Ud R, p.sr_P R, p.sr_Q R]
  refine ⟨h1, h2', ?_⟩
  rw [star_add, star_one, star_add]
  show 1 + (star (p.sr "W") + star (p.sr "V")) = _
  have hW' : star (p.sr "W") = p.sr "W" := hW
  rw [hW', p.sr_V_star R Y]; abel

end Problem
end BlockDiag
end Pyma
#print axioms Pyma.BlockDiag.Problem.C01_opt
#print axioms Pyma.BlockDiag.Problem.C02_opt
