/-
Prototype: `MvPowerSeries σ A` (A a non-commutative *-ring) carries the filtration by total degree,
a coefficientwise star, and coefficientwise additive maps; this is the instance Theorems H/U need.
-/
import Mathlib.RingTheory.MvPowerSeries.Basic
import Mathlib.Algebra.Star.Basic
import Mathlib.Algebra.Star.BigOperators
import Mathlib.Algebra.Group.Subgroup.Basic

open MvPowerSeries

variable {σ : Type*} [DecidableEq σ] {A : Type*} [Ring A]

/-- series vanishing below total degree `k` -/
def FDeg (σ A) [Ring A] (k : ℕ) : AddSubgroup (MvPowerSeries σ A) where
  carrier := {f | ∀ m : σ →₀ ℕ, m.degree < k → coeff m f = 0}
  zero_mem' := by intro m _; simp
  add_mem' := by
    intro f g hf hg m hm
    simp only [Set.mem_ofPred_eq] at hf hg
    rw [map_add, hf m hm, hg m hm, add_zero]
  neg_mem' := by
    intro f hf m hm
    simp only [Set.mem_ofPred_eq] at hf
    rw [map_neg, hf m hm, neg_zero]

theorem FDeg_top (f : MvPowerSeries σ A) : f ∈ FDeg σ A 0 := by
  intro m hm; exact absurd hm (Nat.not_lt_zero _)

theorem FDeg_anti (k : ℕ) : FDeg σ A (k+1) ≤ FDeg σ A k := by
  intro f hf m hm; exact hf m (Nat.lt_succ_of_lt hm)

theorem FDeg_sep (f : MvPowerSeries σ A) (h : ∀ k, f ∈ FDeg σ A k) : f = 0 := by
  ext m
  exact h (m.degree + 1) m (Nat.lt_succ_self _)

theorem FDeg_mul {j k : ℕ} {f g : MvPowerSeries σ A} (hf : f ∈ FDeg σ A j) (hg : g ∈ FDeg σ A k) :
    f * g ∈ FDeg σ A (j + k) := by
  intro m hm
  rw [coeff_mul]
  apply Finset.sum_eq_zero
  intro p hp
  rw [Finset.mem_antidiagonal] at hp
  have hdeg : p.1.degree + p.2.degree = m.degree := by
    rw [← hp, map_add]
  by_cases h1 : p.1.degree < j
  · rw [hf p.1 h1, zero_mul]
  · have h2 : p.2.degree < k := by omega
    rw [hg p.2 h2, mul_zero]

/-- coefficientwise star -/
instance [StarRing A] : Star (MvPowerSeries σ A) := ⟨fun f m => star (coeff m f)⟩

theorem coeff_star [StarRing A] (f : MvPowerSeries σ A) (m : σ →₀ ℕ) :
    coeff m (star f) = star (coeff m f) := rfl

instance [StarRing A] : StarRing (MvPowerSeries σ A) where
  star_involutive f := by ext m; simp [coeff_star]
  star_mul f g := by
    ext m
    rw [coeff_star, coeff_mul, coeff_mul, star_sum]
    rw [← Finset.sum_equiv (Equiv.prodComm _ _) (s := Finset.antidiagonal m)
      (t := Finset.antidiagonal m) (f := fun p => star (coeff p.1 f * coeff p.2 g))
      (g := fun p => coeff p.1 (star g) * coeff p.2 (star f))]
    · intro p; simp [Finset.mem_antidiagonal, add_comm]
    · intro p _; simp [coeff_star, star_mul]
  star_add f g := by ext m; simp [coeff_star]

/-- coefficientwise additive map -/
def coeffwise (φ : A →+ A) : MvPowerSeries σ A →+ MvPowerSeries σ A where
  toFun f := fun m => φ (coeff m f)
  map_zero' := by
    ext m; show φ (coeff m (0 : MvPowerSeries σ A)) = coeff m 0; simp
  map_add' f g := by
    ext m
    show φ (coeff m (f + g)) = coeff m _
    rw [map_add, map_add]; rfl

theorem coeffwise_mem (φ : A →+ A) (k : ℕ) (f : MvPowerSeries σ A) (hf : f ∈ FDeg σ A k) :
    coeffwise φ f ∈ FDeg σ A k := by
  intro m hm
  show φ (coeff m f) = 0
  rw [hf m hm, map_zero]

#print axioms FDeg_mul
