/-
C14/C15 (change of eigenbasis, degenerate rotation), as an instance of ring-level naturality: a
unitary `W` that only mixes states of the same block, the same unperturbed energy and the same
keep/eliminate status conjugates every element of every series of `main`.
-/
import PymaVerif.Proofs.SemNatural
import PymaVerif.Proofs.Covariance
import PymaVerif.Proofs.ProblemSupp

namespace Pyma
namespace BlockDiag
open Dsl Generated
namespace Problem

variable {K : Type} [Field K] [StarRing K] [DecidableEq K] [Thresholds K]
attribute [local instance] Scalar.ofField
variable (p : Problem K) (ts : List (List Nat × Mat K))

/-- `X ↦ Wᴴ X W` -/
def rotM (W : MatK K p.blocks) : MatK K p.blocks →+ MatK K (p.withTerms ts).blocks where
  toFun X := W.conjTranspose * X * W
  map_zero' := by simp
  map_add' X Y := by simp [Matrix.mul_add, Matrix.add_mul]

theorem rotM_apply (W X : MatK K p.blocks) (a b : Fin p.d) :
    p.rotM ts W X a b = ∑ d : Fin p.d, (∑ c : Fin p.d, star (W c a) * X c d) * W d b := by
  show (W.conjTranspose * X * W) a b = _
  rw [Matrix.mul_apply]
  apply Finset.sum_congr rfl
  intro d _
  rw [Matrix.mul_apply]
  rfl

/-- what the rotation must respect -/
structure Compatible (W : MatK K p.blocks) : Prop where
  unitary₁ : W * W.conjTranspose = 1
  unitary₂ : W.conjTranspose * W = 1
  blk : ∀ a b : Fin p.d, W a b ≠ 0 → p.blk a.val = p.blk b.val
  energy : ∀ a b : Fin p.d, W a b ≠ 0 → p.energy a.val = p.energy b.val
  elim : ∀ a b c d : Fin p.d, W c a ≠ 0 → W d b ≠ 0 → p.elim c.val d.val = p.elim a.val b.val

/-- a "diagonal" operation `T` whose coefficient only depends on data `W` respects commutes with the
rotation -/
theorem rot_pointwise (W X Y : MatK K p.blocks) (κ : Fin p.d → Fin p.d → K)
    (hY : ∀ c d : Fin p.d, Y c d = X c d * κ c d)
    (hκ : ∀ a b c d : Fin p.d, W c a ≠ 0 → W d b ≠ 0 → κ c d = κ a b) (a b : Fin p.d) :
    p.rotM ts W Y a b = p.rotM ts W X a b * κ a b := by
  rw [p.rotM_apply ts W Y a b, p.rotM_apply ts W X a b, Finset.sum_mul]
  apply Finset.sum_congr rfl
  intro d _
  rw [Finset.sum_mul, Finset.sum_mul, Finset.sum_mul]
  apply Finset.sum_congr rfl
  intro c _
  rw [hY c d]
  by_cases hc : W c a = 0
  · simp [hc]
  · by_cases hd : W d b = 0
    · simp [hd]
    · rw [hκ a b c d hc hd]; ring

theorem rotM_one (W : MatK K p.blocks) (hW : p.Compatible W) : p.rotM ts W 1 = 1 := by
  show W.conjTranspose * 1 * W = 1
  rw [Matrix.mul_one, hW.unitary₂]

theorem rot_one (hwf : p.WF) (hwf' : (p.withTerms ts).WF) (W : MatK K p.blocks) (hW : p.Compatible W)
    (hen : ∀ a : Nat, (p.withTerms ts).energy a = p.energy a)
    (hin : ∀ idx, sem (p.withTerms ts).blocks idx ((p.withTerms ts).inputH idx)
      = p.rotM ts W (sem p.blocks idx (p.inputH idx))) :
    ∀ i, p.rotM ts W (blockId p.blocks i) = blockId (p.withTerms ts).blocks i := by
    intro i
    funext a b
    have h := p.rot_pointwise ts W 1 (blockId p.blocks i) (fun a _ => if p.blk a.val = i then 1 else 0)
      (by
        intro c d
        simp only [blockId, Matrix.diagonal_apply, Matrix.one_apply]
        by_cases hcd : c = d <;> simp [hcd])
      (by
        intro a b c d hc _
        simp only [hW.blk c a hc]) a b
    show p.rotM ts W (blockId p.blocks i) a b = blockId (p.withTerms ts).blocks i a b
    rw [h, p.rotM_one ts W hW]
    show (1 : MatK K p.blocks) a b * _ = blockId p.blocks i a b
    simp only [blockId, Matrix.diagonal_apply, Matrix.one_apply]
    by_cases hab : a = b <;> simp [hab]

/-- the two environments are intertwined by the rotation -/
theorem inter_rot (hwf : p.WF) (hwf' : (p.withTerms ts).WF) (W : MatK K p.blocks) (hW : p.Compatible W)
    (hen : ∀ a : Nat, (p.withTerms ts).energy a = p.energy a)
    (hin : ∀ idx, sem (p.withTerms ts).blocks idx ((p.withTerms ts).inputH idx)
      = p.rotM ts W (sem p.blocks idx (p.inputH idx))) :
    Inter (p.rotM ts W) p.env (p.withTerms ts).env (p.envSem hwf) ((p.withTerms ts).envSem hwf') where
  mul := by
    intro X Y
    show W.conjTranspose * (X * Y) * W = (W.conjTranspose * X * W) * (W.conjTranspose * Y * W)
    calc W.conjTranspose * (X * Y) * W = W.conjTranspose * X * 1 * Y * W := by
          rw [Matrix.mul_one]; simp only [Matrix.mul_assoc]
      _ = W.conjTranspose * X * (W * W.conjTranspose) * Y * W := by rw [hW.unitary₁]
      _ = _ := by simp only [Matrix.mul_assoc]
  adj := by
    intro X
    show W.conjTranspose * X.conjTranspose * W = (W.conjTranspose * X * W).conjTranspose
    rw [Matrix.conjTranspose_mul, Matrix.conjTranspose_mul, Matrix.conjTranspose_conjTranspose,
      Matrix.mul_assoc]
  smul := by
    intro k X
    show W.conjTranspose * (((k : K)⁻¹) • X) * W = ((k : K)⁻¹) • (W.conjTranspose * X * W)
    rw [Matrix.mul_smul, Matrix.smul_mul]
  inputs := rfl
  nblocks := rfl
  input := fun _ idx => hin idx
  fn_supp := p.fnVal_supp hwf
  fnVal := by
    intro f X idx _
    show (if f == "solve_sylvester" then (p.withTerms ts).solveSem (p.rotM ts W X) idx else 0)
      = p.rotM ts W (if f == "solve_sylvester" then p.solveSem X idx else 0)
    by_cases hf : (f == "solve_sylvester") = true
    · simp only [hf, ↓reduceIte]
      funext a b
      have h := p.rot_pointwise ts W X (p.solveSem X idx)
        (fun a b => if p.inBlock idx.i idx.j a.val b.val then
          (if Scalar.absGt (p.energy a.val - p.energy b.val) p.atol then (p.energy a.val - p.energy b.val)⁻¹ else 0)
          else 0)
        (by
          intro c d
          simp only [solveSem]
          split
          · split <;> simp
          · simp)
        (by
          intro a b c d hc hd
          simp only [inBlock, hW.blk c a hc, hW.blk d b hd, hW.energy c a hc, hW.energy d b hd]
          rfl) a b
      rw [h]
      show (if p.inBlock idx.i idx.j a.val b.val then
          (if Scalar.absGt ((p.withTerms ts).energy a.val - (p.withTerms ts).energy b.val) p.atol then
            p.rotM ts W X a b * ((p.withTerms ts).energy a.val - (p.withTerms ts).energy b.val)⁻¹ else 0) else 0) = _
      rw [hen, hen]
      split
      · split <;> simp
      · simp
    · simp [hf]
  diag := by
    intro X idx _
    have helim : ∀ c d, (p.withTerms ts).elim c d = p.elim c d := by
      intro c d
      have hclose : (p.withTerms ts).closeIn = p.closeIn := by
        funext x y
        simp only [closeIn, equalEigs, hen]
        rfl
      simp only [elim, sameLevel, hclose]
      rfl
    show (if p.selected idx.i then (p.withTerms ts).hadamard (fun a b => !(p.withTerms ts).elim a b) (p.rotM ts W X)
        else p.rotM ts W X)
      = p.rotM ts W (if p.selected idx.i then p.hadamard (fun a b => !p.elim a b) X else X)
    split
    · funext a b
      have h := p.rot_pointwise ts W X (p.hadamard (fun a b => !p.elim a b) X)
        (fun a b => if (!p.elim a.val b.val) = true then 1 else 0)
        (by intro c d; simp only [hadamard]; split <;> simp)
        (by intro a b c d hc hd; simp only [hW.elim a b c d hc hd]) a b
      rw [h]
      simp only [hadamard, helim]
      show (if (!p.elim a.val b.val) = true then p.rotM ts W X a b else 0) = _
      split <;> simp
    · rfl
  offdiag := by
    intro X idx _
    have helim : ∀ c d, (p.withTerms ts).elim c d = p.elim c d := by
      intro c d
      have hclose : (p.withTerms ts).closeIn = p.closeIn := by
        funext x y
        simp only [closeIn, equalEigs, hen]
        rfl
      simp only [elim, sameLevel, hclose]
      rfl
    show (if p.selected idx.i then (p.withTerms ts).hadamard (fun a b => (p.withTerms ts).elim a b) (p.rotM ts W X)
        else 0)
      = p.rotM ts W (if p.selected idx.i then p.hadamard (fun a b => p.elim a b) X else 0)
    split
    · funext a b
      have h := p.rot_pointwise ts W X (p.hadamard (fun a b => p.elim a b) X)
        (fun a b => if p.elim a.val b.val = true then 1 else 0)
        (by intro c d; simp only [hadamard]; split <;> simp)
        (by intro a b c d hc hd; simp only [hW.elim a b c d hc hd]) a b
      rw [h]
      simp only [hadamard, helim]
      show (if p.elim a.val b.val = true then p.rotM ts W X a b else 0) = _
      split <;> simp
    · simp
  offdiag_some := by
    show (if fdIsEmpty p.fdEff then none else some (p.withTerms ts).offdiagW : Option _).isSome
      = (if fdIsEmpty p.fdEff then none else some p.offdiagW : Option _).isSome
    split <;> rfl
  flagName := rfl
  flagIdx := rfl

/-- **C14/C15 (rotation of the eigenbasis)**: rotating the input by a compatible unitary rotates every
element of every series -/
theorem C14_rotation (hwf : p.WF) (hwf' : (p.withTerms ts).WF)
    (hns : p.NoShared) (hns' : (p.withTerms ts).NoShared) (W : MatK K p.blocks) (hW : p.Compatible W)
    (hen : ∀ a : Nat, (p.withTerms ts).energy a = p.energy a)
    (hin : ∀ idx, sem (p.withTerms ts).blocks idx ((p.withTerms ts).inputH idx)
      = p.rotM ts W (sem p.blocks idx (p.inputH idx)))
    (x : String) (hx : x ∈ mainNames) (idx : Idx) :
    mat (p.withTerms ts).blocks main (p.withTerms ts).env x idx
      = p.rotM ts W (mat p.blocks main p.env x idx) :=
  sem_natural (p.rotM ts W) (p.envSem hwf) ((p.withTerms ts).envSem hwf')
    (p.inter_rot ts hwf hwf' W hW hen hin) mainCert mainCert_ok (p.envOK hwf)
    ((p.withTerms ts).envOK hwf') (p.envTot hns) ((p.withTerms ts).envTot hns')
    (fun _ => p.rot_one ts hwf hwf' W hW hen hin) (deg idx.n) x hx idx rfl

end Problem
end BlockDiag
end Pyma
#print axioms Pyma.BlockDiag.Problem.C14_rotation
