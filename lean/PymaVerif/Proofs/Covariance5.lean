/-
C13, re-indexing of orders along an injective additive map of multi-orders (padding with a vanishing parameter, `λ ↦ λ^p`, embedding
a set of parameters into a larger one): the push-forward of power series with matrix coefficients is a ring homomorphism, and by
transport through uniqueness the transformation of the re-indexed Hamiltonian is the re-indexed transformation.
-/
import PymaVerif.Proofs.Covariance3

namespace Pyma
open MvPowerSeries

section push
variable {K : Type} [Field K] [StarRing K] {d : Nat} {σ τ : Type} [DecidableEq σ] [DecidableEq τ]

/-- an injective additive re-indexing `φ` of multi-orders together with a decision procedure `ψ` for its image -/
structure Reindex (σ τ : Type) where
  φ : (σ →₀ ℕ) →+ (τ →₀ ℕ)
  ψ : (τ →₀ ℕ) → Option (σ →₀ ℕ)
  spec : ∀ n m, ψ n = some m ↔ φ m = n

namespace Reindex
variable (R : Reindex σ τ)

theorem inj : Function.Injective R.φ := by
  intro a b h
  have ha : R.ψ (R.φ a) = some a := (R.spec _ _).mpr rfl
  have hb : R.ψ (R.φ a) = some b := (R.spec _ _).mpr h.symm
  rw [ha] at hb
  exact Option.some.inj hb

theorem psi_phi (m : σ →₀ ℕ) : R.ψ (R.φ m) = some m := (R.spec _ _).mpr rfl

/-- coefficient `n` of the push-forward: the coefficient of the pre-image of `n`, zero outside the image -/
noncomputable def push (f : Sr σ K d) : Sr τ K d := fun n => match R.ψ n with
  | some m => coeff m f
  | none => 0

theorem coeff_push (f : Sr σ K d) (n : τ →₀ ℕ) : coeff n (R.push f) = match R.ψ n with
    | some m => coeff m f
    | none => 0 := rfl

theorem coeff_push_phi (f : Sr σ K d) (m : σ →₀ ℕ) : coeff (R.φ m) (R.push f) = coeff m f := by
  rw [coeff_push, psi_phi]

theorem coeff_push_none (f : Sr σ K d) (n : τ →₀ ℕ) (h : R.ψ n = none) : coeff n (R.push f) = 0 := by
  rw [coeff_push, h]

theorem push_mul (f g : Sr σ K d) : R.push (f * g) = R.push f * R.push g := by
  ext n : 1
  rw [coeff_mul]
  cases hn : R.ψ n with
  | none =>
    rw [R.coeff_push_none _ n hn]
    symm
    apply Finset.sum_eq_zero
    intro q hq
    rw [Finset.mem_antidiagonal] at hq
    cases h1 : R.ψ q.1 with
    | none => rw [R.coeff_push_none _ _ h1, zero_mul]
    | some a =>
      cases h2 : R.ψ q.2 with
      | none => rw [R.coeff_push_none _ _ h2, mul_zero]
      | some b =>
        exfalso
        have e1 := (R.spec _ _).mp h1
        have e2 := (R.spec _ _).mp h2
        have : R.φ (a + b) = n := by rw [map_add, e1, e2, hq]
        have := (R.spec _ _).mpr this
        rw [hn] at this
        cases this
  | some m =>
    have hm : R.φ m = n := (R.spec _ _).mp hn
    subst hm
    rw [R.coeff_push_phi, coeff_mul]
    -- the image of the antidiagonal of `m` inside the antidiagonal of `φ m` carries the whole sum
    have himg : ∀ q ∈ Finset.antidiagonal m, (R.φ q.1, R.φ q.2) ∈ Finset.antidiagonal (R.φ m) := by
      intro q hq
      rw [Finset.mem_antidiagonal] at hq ⊢
      show R.φ q.1 + R.φ q.2 = R.φ m
      rw [← map_add, hq]
    symm
    rw [← Finset.sum_subset (s₁ := (Finset.antidiagonal m).image fun q => (R.φ q.1, R.φ q.2))]
    · rw [Finset.sum_image]
      · apply Finset.sum_congr rfl
        intro q _
        rw [R.coeff_push_phi, R.coeff_push_phi]
      · intro q _ q' _ h
        have h1 := R.inj (congrArg Prod.fst h)
        have h2 := R.inj (congrArg Prod.snd h)
        exact Prod.ext h1 h2
    · intro q hq
      rw [Finset.mem_image] at hq
      obtain ⟨q', hq', rfl⟩ := hq
      exact himg q' hq'
    · intro q hq hnot
      rw [Finset.mem_antidiagonal] at hq
      cases h1 : R.ψ q.1 with
      | none => rw [R.coeff_push_none _ _ h1, zero_mul]
      | some a =>
        cases h2 : R.ψ q.2 with
        | none => rw [R.coeff_push_none _ _ h2, mul_zero]
        | some b =>
          exfalso
          apply hnot
          have e1 := (R.spec _ _).mp h1
          have e2 := (R.spec _ _).mp h2
          rw [Finset.mem_image]
          refine ⟨(a, b), ?_, by ext <;> simp [e1, e2]⟩
          rw [Finset.mem_antidiagonal]
          apply R.inj
          rw [map_add, e1, e2, hq]

/-- the push-forward as a ring homomorphism -/
noncomputable def pushS : Sr σ K d →+* Sr τ K d where
  toFun := R.push
  map_zero' := by
    ext n : 1
    rw [coeff_push]
    cases R.ψ n <;> simp
  map_one' := by
    ext n : 1
    rw [coeff_push, coeff_one]
    cases hn : R.ψ n with
    | none =>
      simp only
      rw [if_neg]
      intro h0
      have : R.ψ n = some 0 := (R.spec _ _).mpr (by rw [map_zero, h0])
      rw [hn] at this; cases this
    | some m =>
      simp only [coeff_one]
      have hm := (R.spec _ _).mp hn
      by_cases h0 : m = 0
      · subst h0; rw [map_zero] at hm; simp [hm.symm]
      · rw [if_neg h0, if_neg]
        intro hn0
        apply h0
        apply R.inj
        rw [hm, hn0, map_zero]
  map_add' f g := by
    ext n : 1
    rw [map_add, coeff_push, coeff_push, coeff_push]
    cases R.ψ n <;> simp
  map_mul' := R.push_mul

theorem coeff_pushS (f : Sr σ K d) (n : τ →₀ ℕ) : coeff n (R.pushS f) = match R.ψ n with
    | some m => coeff m f
    | none => 0 := rfl

end Reindex
end push

end Pyma

namespace Pyma
open MvPowerSeries
namespace BlockDiag
open Dsl Generated
namespace Problem

variable {K : Type} [Field K] [StarRing K] [DecidableEq K] [Thresholds K]
attribute [local instance] Scalar.ofField

/-- the same states with another number of parameters and other terms -/
abbrev reparam (p : Problem K) (k' : Nat) (ts : List (List Nat × Mat K)) : Problem K := { p with nparams := k', terms := ts }

variable (p : Problem K) (k' : Nat) (ts : List (List Nat × Mat K))

/-- **C13 (re-indexing of orders)**: if the Hamiltonian of the second problem is the push-forward of the first along an injective additive
re-indexing of multi-orders that does not lower the total degree, and both keep the same entries, then its transformation is the
push-forward of the first one's: order `φ m` of the outputs of the second problem is order `m` of the first, every order outside the image
of `φ` vanishes. -/
theorem C13_reindex [LawfulThresholds K] (hp : p.Accepted) (hq : (p.reparam k' ts).Accepted) (h2 : (2 : K) ≠ 0)
    (R : Reindex (Fin p.nparams) (Fin k')) (hdeg : ∀ m, m.degree ≤ (R.φ m).degree)
    (hkept : ∀ a b : Fin p.d, (p.reparam k' ts).keptE a.val b.val = p.keptE a.val b.val)
    (hH : (p.reparam k' ts).sr "H" = R.pushS (p.sr "H")) :
    (p.reparam k' ts).sr "U'" = R.pushS (p.sr "U'") := by
  let q := p.reparam k' ts
  have hT : TheoremU.Hom (p.ctx hp.ready hp.acc h2) (q.ctx hq.ready hq.acc h2) R.pushS 0 := by
    refine ⟨?_, ?_, ?_, ?_, fun y => by simp, by simp⟩
    · intro x
      ext n a b
      rw [q.coeff_star_apply, R.coeff_pushS, R.coeff_pushS]
      cases R.ψ n with
      | none => simp
      | some m => exact p.coeff_star_apply x m a b
    · intro k x hx n hn
      rw [R.coeff_pushS]
      cases hψ : R.ψ n with
      | none => rfl
      | some m =>
        have hm := (R.spec _ _).mp hψ
        exact hx m (by have := hdeg m; rw [hm] at this; omega)
    · intro x
      show R.pushS (p.SelS x) = q.SelS (R.pushS x)
      ext n a b
      have e2 : coeff n (q.SelS (R.pushS x)) a b = if q.keptE a.val b.val then coeff n (R.pushS x) a b else 0 := rfl
      rw [e2, hkept, R.coeff_pushS, R.coeff_pushS]
      cases R.ψ n with
      | none => simp
      | some m => exact p.coeff_SelS x m a b
    · show R.pushS (p.H0s + (p.sr "H'_diag" + p.sr "H'_offdiag"))
        = q.H0s + (q.sr "H'_diag" + q.sr "H'_offdiag") + 0
      have e1 := p.sr_H hp.ready hp.acc
      have e2 := q.sr_H hq.ready hq.acc
      rw [add_zero, ← add_assoc, ← add_assoc, ← e1, ← e2]
      exact hH.symm
  exact (TheoremU.transport (q.ctx hq.ready hq.acc h2) hT (p.sol_main hp.ready hp.sym hp.acc h2)
    (q.sol_main hq.ready hq.sym hq.acc h2)).symm

end Problem
end BlockDiag

/-! ## two re-indexings: `λ ↦ λ^r` and padding with a vanishing parameter -/
section instances
variable {σ : Type} [DecidableEq σ] [Fintype σ]

/-- `λ_i ↦ λ_i^r` for all parameters (`r ≥ 1`): multi-order `m ↦ r·m` -/
noncomputable def powerReindex (r : ℕ) (hr : 0 < r) : Reindex σ σ where
  φ := { toFun := fun m => r • m, map_zero' := by simp, map_add' := fun a b => by simp [smul_add] }
  ψ := fun n => if ∀ i, r ∣ n i then some (Finsupp.mapRange (· / r) (by simp) n) else none
  spec := by
    intro n m
    constructor
    · intro h
      split at h
      · rename_i hd
        cases h
        ext i
        show r * (n i / r) = n i
        exact Nat.mul_div_cancel' (hd i)
      · cases h
    · intro h
      have hd : ∀ i, r ∣ n i := fun i => by rw [← h]; exact ⟨m i, rfl⟩
      rw [if_pos hd]
      congr 1
      ext i
      show n i / r = m i
      rw [← h]
      show r * m i / r = m i
      exact Nat.mul_div_cancel_left _ hr

theorem powerReindex_degree (r : ℕ) (hr : 0 < r) (m : σ →₀ ℕ) : m.degree ≤ ((powerReindex (σ := σ) r hr).φ m).degree := by
  show m.degree ≤ (r • m).degree
  rw [map_nsmul]
  exact Nat.le_mul_of_pos_left _ hr

/-- padding with one more (vanishing) parameter: `(m_0 … m_{k-1}) ↦ (m_0 … m_{k-1}, 0)` -/
noncomputable def padReindex (k : ℕ) : Reindex (Fin k) (Fin (k + 1)) where
  φ := { toFun := fun m => Finsupp.embDomain Fin.castSuccEmb m
         map_zero' := by ext i; simp [Finsupp.embDomain_zero]
         map_add' := fun a b => by
           ext i
           simp only [Finsupp.coe_add, Pi.add_apply]
           by_cases hi : i ∈ Set.range (Fin.castSuccEmb (n := k))
           · obtain ⟨j, rfl⟩ := hi
             simp [Finsupp.embDomain_apply_self]
           · simp only [Finsupp.embDomain_of_notMem_range _ _ _ hi, Nat.add_zero] }
  ψ := fun n => if n (Fin.last k) = 0 then
      some (Finsupp.comapDomain Fin.castSucc n (Fin.castSucc_injective k).injOn) else none
  spec := by
    intro n m
    constructor
    · intro h
      split at h
      · rename_i h0
        cases h
        ext i
        show Finsupp.embDomain Fin.castSuccEmb (Finsupp.comapDomain Fin.castSucc n _) i = n i
        by_cases hi : i = Fin.last k
        · subst hi
          rw [Finsupp.embDomain_of_notMem_range, h0]
          rintro ⟨j, hj⟩
          exact absurd hj (Fin.castSucc_lt_last j).ne
        · obtain ⟨j, rfl⟩ := Fin.exists_castSucc_eq.mpr hi
          have : Fin.castSuccEmb j = Fin.castSucc j := rfl
          rw [← this, Finsupp.embDomain_apply_self]
          rfl
      · cases h
    · intro h
      have h0 : n (Fin.last k) = 0 := by
        rw [← h]
        show Finsupp.embDomain Fin.castSuccEmb m (Fin.last k) = 0
        rw [Finsupp.embDomain_of_notMem_range]
        rintro ⟨j, hj⟩
        exact absurd hj (Fin.castSucc_lt_last j).ne
      rw [if_pos h0]
      congr 1
      ext j
      show n (Fin.castSucc j) = m j
      rw [← h]
      show Finsupp.embDomain Fin.castSuccEmb m (Fin.castSuccEmb j) = m j
      rw [Finsupp.embDomain_apply_self]

theorem padReindex_degree (k : ℕ) (m : Fin k →₀ ℕ) : m.degree ≤ ((padReindex k).φ m).degree := by
  show m.degree ≤ (Finsupp.embDomain Fin.castSuccEmb m).degree
  rw [Finsupp.degree_apply, Finsupp.degree_apply, Finsupp.support_embDomain, Finset.sum_map]
  apply le_of_eq
  apply Finset.sum_congr rfl
  intro j _
  rw [Finsupp.embDomain_apply_self]

end instances

end Pyma
#print axioms Pyma.BlockDiag.Problem.C13_reindex
