/-
C16 (diagonal solver, exact model): the returned matrix solves the Sylvester equation on every
entry where the energy difference exceeds the tolerance, and vanishes elsewhere.
-/
import PymaVerif.Proofs.BlockDiagSem
import Mathlib.Tactic.SplitIfs
import Mathlib.Tactic.FieldSimp
import Mathlib.Tactic.Ring

namespace Pyma
namespace BlockDiag
open Dsl
namespace Problem

variable {K : Type} [Field K] [StarRing K] [DecidableEq K] [Thresholds K]
attribute [local instance] Scalar.ofField
variable (p : Problem K)

/-- the unperturbed Hamiltonian of the model as a diagonal matrix -/
def H0m : MatK K p.blocks := Matrix.diagonal fun a => p.energy a.val

theorem solveSem_sylvester (hgt : ∀ (x : K) (t : Rat), Thresholds.absGt x t = true → x ≠ 0)
    (M : MatK K p.blocks) (idx : Idx) (a b : Fin p.d) :
    (p.H0m * p.solveSem M idx - p.solveSem M idx * p.H0m) a b =
      if p.inBlock idx.i idx.j a.val b.val ∧
          Thresholds.absGt (p.energy a.val - p.energy b.val) p.atol = true
      then M a b else 0 := by
  simp only [H0m, Matrix.sub_apply, Matrix.diagonal_mul, Matrix.mul_diagonal, solveSem]
  by_cases h1 : p.inBlock idx.i idx.j a.val b.val = true
  · by_cases h2 : Thresholds.absGt (p.energy a.val - p.energy b.val) p.atol = true
    · have h2' : Scalar.absGt (p.energy a.val - p.energy b.val) p.atol = true := h2
      have hne := hgt _ _ h2
      rw [if_pos h1, if_pos h2', if_pos ⟨h1, h2⟩]
      field_simp
    · have h2' : ¬ Scalar.absGt (p.energy a.val - p.energy b.val) p.atol = true := h2
      rw [if_pos h1, if_neg h2', if_neg (fun h => h2 h.2)]
      ring
  · rw [if_neg h1, if_neg (fun h => h1 h.1)]
    ring

end Problem
end BlockDiag
end Pyma
#print axioms Pyma.BlockDiag.Problem.solveSem_sylvester
