/-
C03 for the model: the computed `U' = U - 1` solves the defining equations of the least-action
(Schrieffer–Wolff) transformation — unitarity, elimination, and the gauge "the anti-Hermitian part
has no kept entry" — and it is the only series that does.
-/
import PymaVerif.Proofs.Accepted
import PymaVerif.Proofs.CoreU

namespace Pyma

/-- a solution of Theorem H's hypotheses whose `V` has no kept part solves the defining equations -/
theorem TheoremH.Hyp.sol {S : Type*} [Ring S] [StarRing S] (h : TheoremH.Hyp S) (c : TheoremU.Ctx S)
    (hΦ : c.Φ = h.Φ) (hSel : c.Sel = h.Sel) (hH0 : c.H0 = h.H0) (hH' : c.H' = h.Hd + h.Ho)
    (hV : h.Sel h.V = 0) : TheoremU.Sol c (h.W + h.V) := by
  have hstar : star (h.W + h.V) = h.W - h.V := TheoremH.starP h.toBase
  refine ⟨?_, ?_, ?_, ?_⟩
  · rw [hΦ]; exact AddSubgroup.add_mem _ h.Wmem h.Vmem
  · rw [hstar]; exact TheoremH.unitary h
  · rw [hstar, hSel]
    have : h.W + h.V - (h.W - h.V) = h.V + h.V := by abel
    rw [this, map_add, hV, add_zero]
  · rw [hstar, hSel, hH0, hH']
    have e : h.H0 + (h.Hd + h.Ho) = h.H0 + h.Hd + h.Ho := by abel
    rw [e]
    exact TheoremH.eliminated_zero h

namespace BlockDiag
open Dsl Generated MvPowerSeries
namespace Problem

variable {K : Type} [Field K] [StarRing K] [DecidableEq K] [Thresholds K]
attribute [local instance] Scalar.ofField
variable (p : Problem K) (R : p.Ready) (Y : p.Sym) (A : p.Acc) (h2 : (2 : K) ≠ 0)

include R A h2 in
/-- the defining problem: filtration by degree, kept-part projection, `H_0`, `H'` -/
noncomputable def ctx : TheoremU.Ctx (Sr (Fin p.nparams) K p.d) where
  Φ := p.filt
  two_mem := two_mem_series h2
  star_mem := p.star_mem_F
  Sel := p.SelS
  Sel_mem := fun k x hx => coeffwise_mem _ k x hx
  H0 := p.H0s
  H' := p.sr "H'_diag" + p.sr "H'_offdiag"
  H'mem := AddSubgroup.add_mem _ (p.F1_Hd R) (p.F1_Ho R)
  H0comm := by
    intro x
    ext m a b
    simp only [coeff_SelS, map_sub, Matrix.sub_apply, coeff_H0s_mul, coeff_mul_H0s]
    by_cases hk : p.keptE a.val b.val = true <;> simp [hk]
  inj := by
    intro k x hsel hcomm m hm
    funext a b
    have h1 := congrFun (congrFun (hcomm m hm) a) b
    simp only [map_sub, Matrix.sub_apply, coeff_H0s_mul, coeff_mul_H0s, Matrix.zero_apply] at h1
    by_cases hk : p.keptE a.val b.val = true
    · have h0 : coeff m (p.SelS x) a b = 0 := by rw [hsel]; rfl
      rw [coeff_SelS, hk] at h0
      simpa using h0
    · have hk' : p.keptE a.val b.val = false := by simpa using hk
      have hne := A.absGt_ne _ (A.gap a b hk')
      have : (p.energy a.val - p.energy b.val) * coeff m x a b = 0 := by rw [← h1]; ring
      rcases mul_eq_zero.mp this with h | h
      · exact absurd h hne
      · exact h

include R Y A h2 in
/-- the computed `U'` solves the defining equations (unitarity, elimination, gauge) -/
theorem sol_main : TheoremU.Sol (p.ctx R A h2) (p.sr "U'") := by
  have hV : p.SelS (p.sr "V") = 0 := by
    ext m a b
    rw [coeff_SelS]
    by_cases hk : p.keptE a.val b.val = true
    · simp only [hk, ↓reduceIte]; exact p.V_kept_zero R m a b hk
    · simp [hk]
  rw [p.sr_P R]
  cases hopt : p.twoBlockOptimized
  · exact (p.hypH R hopt Y A h2).sol (p.ctx R A h2) rfl rfl rfl rfl hV
  · exact (TheoremH2.toHyp (p.hypH2 R hopt Y A h2)).sol (p.ctx R A h2) rfl rfl rfl rfl hV

include R Y A h2 in
/-- **C03, gauge**: the anti-Hermitian part of `U - 1` has no kept entry, at any order -/
theorem C03_gauge (m : Fin p.nparams →₀ ℕ) (a b : Fin p.d) (hk : p.keptE a.val b.val = true) :
    coeff m (p.sr "U'" - star (p.sr "U'")) a b = 0 := by
  have := (p.sol_main R Y A h2).gauge
  have h1 : coeff m (p.SelS (p.sr "U'" - star (p.sr "U'"))) a b = 0 := by
    have e : p.SelS (p.sr "U'" - star (p.sr "U'")) = 0 := this
    rw [e]; rfl
  rw [coeff_SelS, hk] at h1
  simpa using h1

include R Y A h2 in
/-- **C03, uniqueness**: any series solving the defining equations is the computed one -/
theorem C03_unique (P₂ : Sr (Fin p.nparams) K p.d) (hP : TheoremU.Sol (p.ctx R A h2) P₂) :
    P₂ = p.sr "U'" :=
  TheoremU.unique (p.ctx R A h2) hP (p.sol_main R Y A h2)

/-- the statement in terms of accepted problems -/
theorem C03 [LawfulThresholds K] (h : p.Accepted) (h2 : (2 : K) ≠ 0) :
    TheoremU.Sol (p.ctx h.ready h.acc h2) (p.sr "U'") ∧
    ∀ P₂, TheoremU.Sol (p.ctx h.ready h.acc h2) P₂ → P₂ = p.sr "U'" :=
  ⟨p.sol_main h.ready h.sym h.acc h2, fun P₂ hP => p.C03_unique h.ready h.sym h.acc h2 P₂ hP⟩

end Problem
end BlockDiag
end Pyma
#print axioms Pyma.BlockDiag.Problem.C03
