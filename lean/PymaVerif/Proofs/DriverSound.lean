/-
The bridge between what the executable evaluator (the driver) returns and the series the property
theorems speak about: any value `getElem` returns for block `(i,j)` and order `toList m` is, entry
by entry, the corresponding coefficient of `sr`.
-/
import PymaVerif.Proofs.DslSound
import PymaVerif.Proofs.MainSeries

namespace Pyma
namespace BlockDiag
open Dsl Generated MvPowerSeries
namespace Problem

variable {K : Type} [Field K] [StarRing K] [DecidableEq K] [Thresholds K]
attribute [local instance] Scalar.ofField
variable (p : Problem K)

theorem cacheOK_empty : CacheOK main p.env (∅ : Cache K) := by
  intro x idx v h
  simp at h

/-- what the driver prints is the coefficient of the series in the theorems -/
theorem driver_sound (fuel : Nat) (x : String) (m : Fin p.nparams →₀ ℕ) (a b : Fin p.d)
    (v : SVal K) (c' : Cache K)
    (hrun : getElem main p.env fuel x ⟨p.blk a.val, p.blk b.val, toList m⟩ ∅ = .ok (v, c')) :
    coeff m (p.sr x) a b = sem p.blocks ⟨p.blk a.val, p.blk b.val, toList m⟩ v a b := by
  obtain ⟨hd, _⟩ := getElem_sound main p.env fuel x _ ∅ v c' p.cacheOK_empty hrun
  rw [coeff_sr]
  show mat p.blocks main p.env x ⟨p.blk a.val, p.blk b.val, toList m⟩ a b = _
  rw [mat, den_eq hd]

end Problem
end BlockDiag
end Pyma
#print axioms Pyma.BlockDiag.Problem.driver_sound
