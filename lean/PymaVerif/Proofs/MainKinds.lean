/-
What each name of the translated `main` program is (kernel-evaluated facts about generated data).
-/
import PymaVerif.Proofs.StepSem
import PymaVerif.Model.Generated.Algorithms

namespace Pyma
namespace Dsl
open Generated

variable {K : Type} [Scalar K]

/-- a name that is not an input and is declared as a series -/
theorem kindOf_series {p : Prog} {env : Env K} {x : String} {d : SeriesDef}
    (hin : env.inputs.contains x = false) (hf : findSeries p x = some d) :
    kindOf p env x = .series d := by
  unfold kindOf; rw [hin]; simp [hf]

/-- a name that is neither an input nor a series but a declared product -/
theorem kindOf_product {p : Prog} {env : Env K} {x a b : String}
    (hin : env.inputs.contains x = false) (hf : findSeries p x = none)
    (hp : findProduct p x = some (a, b)) : kindOf p env x = .product a b := by
  unfold kindOf; rw [hin]; simp [hf, hp]

def seriesDefOf (p : Prog) (x : String) : SeriesDef := (findSeries p x).getD default

theorem find_Hd : findSeries main "H'_diag" = some (seriesDefOf main "H'_diag") := by decide
theorem find_Ho : findSeries main "H'_offdiag" = some (seriesDefOf main "H'_offdiag") := by decide
theorem find_V : findSeries main "V" = some (seriesDefOf main "V") := by decide
theorem find_W : findSeries main "W" = some (seriesDefOf main "W") := by decide
theorem find_Y : findSeries main "Yadj" = some (seriesDefOf main "Yadj") := by decide
theorem find_P : findSeries main "U'" = some (seriesDefOf main "U'") := by decide
theorem find_U : findSeries main "U" = some (seriesDefOf main "U") := by decide
theorem find_Q : findSeries main "U'†" = some (seriesDefOf main "U'†") := by decide
theorem find_Ud : findSeries main "U†" = some (seriesDefOf main "U†") := by decide
theorem find_X : findSeries main "X" = some (seriesDefOf main "X") := by decide
theorem find_B : findSeries main "B" = some (seriesDefOf main "B") := by decide
theorem find_Ht : findSeries main "H_tilde" = some (seriesDefOf main "H_tilde") := by decide

theorem prod_QP : findSeries main "U'† @ U'" = none ∧ findProduct main "U'† @ U'" = some ("U'†", "U'") := by decide
theorem prod_A : findSeries main "H'_offdiag @ U'" = none ∧ findProduct main "H'_offdiag @ U'" = some ("H'_offdiag", "U'") := by decide
theorem prod_QB : findSeries main "U'† @ B" = none ∧ findProduct main "U'† @ B" = some ("U'†", "B") := by decide
theorem prod_VH : findSeries main "V @ H'_diag" = none ∧ findProduct main "V @ H'_diag" = some ("V", "H'_diag") := by decide

end Dsl
end Pyma
