/-
The translated `nonhermitian` program on a `BlockDiag.Problem`: kinds, bodies, totality, the
coefficient functions and series, and the unfolding macros.
-/
import PymaVerif.Proofs.MainTotal
import PymaVerif.Proofs.MainH5

namespace Pyma
namespace Dsl
open Generated

theorem nfind_Hd : findSeries nonhermitian "H'_diag" = some (seriesDefOf nonhermitian "H'_diag") := by decide
theorem nfind_Ho : findSeries nonhermitian "H'_offdiag" = some (seriesDefOf nonhermitian "H'_offdiag") := by decide
theorem nfind_P : findSeries nonhermitian "U'" = some (seriesDefOf nonhermitian "U'") := by decide
theorem nfind_G : findSeries nonhermitian "U_inv'" = some (seriesDefOf nonhermitian "U_inv'") := by decide
theorem nfind_U : findSeries nonhermitian "U" = some (seriesDefOf nonhermitian "U") := by decide
theorem nfind_Ud : findSeries nonhermitian "U†" = some (seriesDefOf nonhermitian "U†") := by decide
theorem nfind_X : findSeries nonhermitian "X" = some (seriesDefOf nonhermitian "X") := by decide
theorem nfind_B : findSeries nonhermitian "B" = some (seriesDefOf nonhermitian "B") := by decide
theorem nfind_Ht : findSeries nonhermitian "H_tilde" = some (seriesDefOf nonhermitian "H_tilde") := by decide

theorem nprod_GP : findSeries nonhermitian "U_inv' @ U'" = none ∧ findProduct nonhermitian "U_inv' @ U'" = some ("U_inv'", "U'") := by decide
theorem nprod_HdP : findSeries nonhermitian "H'_diag @ U'" = none ∧ findProduct nonhermitian "H'_diag @ U'" = some ("H'_diag", "U'") := by decide
theorem nprod_PHd : findSeries nonhermitian "U' @ H'_diag" = none ∧ findProduct nonhermitian "U' @ H'_diag" = some ("U'", "H'_diag") := by decide
theorem nprod_A : findSeries nonhermitian "H'_offdiag @ U'" = none ∧ findProduct nonhermitian "H'_offdiag @ U'" = some ("H'_offdiag", "U'") := by decide
theorem nprod_GB : findSeries nonhermitian "U_inv' @ B" = none ∧ findProduct nonhermitian "U_inv' @ B" = some ("U_inv'", "B") := by decide

theorem ndef_Hd : seriesDefOf nonhermitian "H'_diag" =
    { name := "H'_diag", start := .zero, body := [ .clause .diagonal (.ser "H")] } := by decide
theorem ndef_Ho : seriesDefOf nonhermitian "H'_offdiag" =
    { name := "H'_offdiag", start := .zero, body := [ .clause .offdiagonal (.ser "H")] } := by decide
theorem ndef_P : seriesDefOf nonhermitian "U'" =
    { name := "U'", start := .zero, body := [
        .clause .diagonal (.divInt (.ser "U_inv' @ U'") (-2)),
        .clause .offdiagonal (.callExpr "solve_sylvester" (.add (.sub (.ser "X") (.ser "H'_diag @ U'")) (.ser "U' @ H'_diag")))] } := by decide
theorem ndef_G : seriesDefOf nonhermitian "U_inv'" =
    { name := "U_inv'", start := .zero, body := [
        .clause .default (.sub (.neg (.ser "U'")) (.ser "U_inv' @ U'"))] } := by decide
theorem ndef_U : seriesDefOf nonhermitian "U" =
    { name := "U", start := .one, body := [ .clause .default (.ser "U'")] } := by decide
theorem ndef_Ud : seriesDefOf nonhermitian "U†" =
    { name := "U†", start := .one, body := [ .clause .default (.ser "U_inv'")] } := by decide
theorem ndef_X : seriesDefOf nonhermitian "X" =
    { name := "X", start := .zero, body := [
        .clause .offdiagonal (.neg (.add (.add (.ser "H'_offdiag") (.ser "H'_offdiag @ U'")) (.ser "U_inv' @ B"))),
        .clause .diagonal (.sub (.ser "H'_diag @ U'") (.ser "U' @ H'_diag"))] } := by decide
theorem ndef_B : seriesDefOf nonhermitian "B" =
    { name := "B", start := .zero, body := [
        .clause .default (.add (.add (.ser "X") (.ser "H'_offdiag")) (.ser "H'_offdiag @ U'"))] } := by decide
theorem ndef_Ht : seriesDefOf nonhermitian "H_tilde" =
    { name := "H_tilde", start := (.input "H"), body := [
        .clause .diagonal (.add (.add (.ser "H'_diag") (.ser "B")) (.ser "U_inv' @ B"))] } := by decide

def nhProducts : List String :=
  ["U_inv' @ U'", "H'_diag @ U'", "U' @ H'_diag", "H'_offdiag @ U'", "U_inv' @ B"]

def nhNames : List String :=
  ["H", "H'_diag", "H'_offdiag", "U'", "U_inv'", "U", "U†", "X", "B", "H_tilde"] ++ nhProducts

def nhCert : Cert where
  names := nhNames
  inputs := ["H"]
  fns := ["solve_sylvester"]
  rank0 := fun x => if x == "U" || x == "U†" || nhProducts.contains x then 1 else 0
  rankT := fun x =>
    if x == "H" then 0
    else if x == "H'_diag" || x == "H'_offdiag" then 1
    else if nhProducts.contains x then 2
    else if x == "X" then 3
    else if x == "B" then 4
    else if x == "U'" || x == "H_tilde" then 5
    else if x == "U_inv'" then 6
    else 7
  z0 := fun x => ["H'_diag", "H'_offdiag", "U'", "U_inv'", "X", "B"].contains x
  one := fun x => x == "U" || x == "U†"

theorem nhCert_ok : nhCert.ok nonhermitian = true := by decide

end Dsl

namespace BlockDiag
open Dsl Generated MvPowerSeries
namespace Problem

section tot
variable {K : Type} [Scalar K] (p : Problem K)

theorem envTotN (h : p.NoShared) : EnvTot nhCert p.env :=
  { p.envTot h with inputs := rfl, fn_tot := (p.envTot h).fn_tot }

theorem total_nh (h : p.NoShared) (x : String) (hx : x ∈ nhNames) (idx : Idx) :
    ∃ v, Den nonhermitian p.env x idx v := by
  obtain ⟨v, hv, _⟩ := Dsl.total nhCert_ok (p.envTotN h) (deg idx.n) x hx idx rfl
  exact ⟨v, hv⟩
end tot

variable {K : Type} [Field K] [StarRing K] [DecidableEq K] [Thresholds K]
attribute [local instance] Scalar.ofField
variable (p : Problem K) (hwf : p.WF)

namespace Nh

def Total : Prop := ∀ x ∈ nhNames, ∀ idx, ∃ v, Den nonhermitian p.env x idx v

noncomputable abbrev g (x : String) (n : List Nat) : MatK K p.blocks := G p.blocks nonhermitian p.env x n

theorem g_entry (htot : Total p) (x : String) (hx : x ∈ nhNames) (n : List Nat) (a b : Fin p.d) :
    g p x n a b = elemSem (p.envSem hwf) nonhermitian x ⟨p.blk a.val, p.blk b.val, n⟩ a b := by
  obtain ⟨v, hv⟩ := htot x hx ⟨p.blk a.val, p.blk b.val, n⟩
  show mat p.blocks nonhermitian p.env x ⟨p.blk a.val, p.blk b.val, n⟩ a b = _
  rw [Den.sat (p.envOK hwf) (p.envSem hwf) hv]

theorem mat_at (x : String) (n : List Nat) (a b : Fin p.d) :
    mat p.blocks nonhermitian p.env x ⟨p.blk a.val, p.blk b.val, n⟩ a b = g p x n a b := rfl

noncomputable abbrev sr (x : String) : Sr (Fin p.nparams) K p.d := Ser p.blocks nonhermitian p.env p.nparams x

theorem coeff_sr (x : String) (m : Fin p.nparams →₀ ℕ) : coeff m (sr p x) = g p x (toList m) := rfl

theorem sr_mem_F1 (x : String) (h0 : ∀ n, (n.all (· == 0)) = true → g p x n = 0) :
    sr p x ∈ FDeg (Fin p.nparams) (Mt K p.d) 1 := by
  rw [mem_F1_iff, coeff_sr]
  exact h0 _ ((toList_all_zero 0).mpr rfl)

structure Ready : Prop where
  wf : p.WF
  tot : Total p
  hN : ∀ a : Fin p.d, p.blk a.val < p.nblocks

end Nh

/-- unfold the one-step equation of a declared series of `nonhermitian` at order ≠ 0 -/
macro "nh_step" p:term "," hwf:term "," htot:term "," nm:str "," hfind:term "," hdef:term "," hn:term : tactic =>
  `(tactic| (
    rw [Problem.Nh.g_entry $p $hwf $htot _ (by decide)]
    simp only [elemSem, kindOf_series (Problem.inputs_contains $p $nm (by decide)) $hfind, $hdef:term, startVal,
      Idx.isOrderZero, $hn:term, bodySem, exprSem, evalFlag, Bool.false_eq_true, ↓reduceIte]))

macro "nh_zero" p:term "," hwf:term "," htot:term "," nm:str "," hfind:term "," hdef:term "," hn:term : tactic =>
  `(tactic| (
    ext a b
    rw [Problem.Nh.g_entry $p $hwf $htot _ (by decide)]
    simp only [elemSem, kindOf_series (Problem.inputs_contains $p $nm (by decide)) $hfind, $hdef:term, startVal,
      Idx.isOrderZero, $hn:term, ↓reduceIte, sem]))

end Problem
end BlockDiag
end Pyma
