/-
The executable closed-form Fock action `specX` (core-only, used by the driver) is the specification
`(tgt, specAmpS)` the theorems are about.
-/
import PymaVerif.Model.NofSpec
import PymaVerif.Proofs.NofFermion

namespace Pyma
namespace Nof
open Finset

theorem modeAmpX_eq (c : Ctx) (j : Nat) (n p : Int) : modeAmpX c j n p = modeAmp c j n p := rfl
theorem midX_eq (t : Term) (s : Occ) : midX t s = mid t s := rfl
theorem tgtX_eq (t : Term) (s : Occ) : tgtX t s = tgt t s := rfl

theorem foldl_mul_eq_prod (n : Nat) (f : Nat → Int) :
    (List.range n).foldl (fun acc j => acc * f j) 1 = ∏ j ∈ range n, f j := by
  induction n with
  | zero => simp
  | succ n ih => rw [List.range_succ, List.foldl_append, ih, prod_range_succ]; simp

theorem annAmpX_eq (c : Ctx) (t : Term) (s : Occ) : annAmpX c t s = annAmp c t s := by
  unfold annAmpX annAmp
  rw [foldl_mul_eq_prod]
  rfl

theorem foldl_add_eq_sum (n : Nat) (cnd : Nat → Bool) (g : Nat → Nat) :
    (List.range n).foldl (fun acc k => if cnd k then acc + g k else acc) 0
      = ∑ k ∈ range n, if cnd k = true then g k else 0 := by
  induction n with
  | zero => simp
  | succ n ih =>
    rw [List.range_succ, List.foldl_append, ih, sum_range_succ]
    cases h : cnd n <;> simp [h]

theorem sigmaX_eq (c : Ctx) (t : Term) (s : Occ) : sigmaX c t s = sigma c t s := by
  unfold sigmaX
  rw [foldl_add_eq_sum, sigma_eq_sum]
  apply sum_congr rfl
  intro k _
  have hc : ((c.kind k == Kind.fermion && pw t k != 0) = true) ↔ (isF c k = true ∧ pw t k ≠ 0) := by
    simp [isF]
  by_cases h : isF c k = true ∧ pw t k ≠ 0
  · rw [if_pos (hc.mpr h), if_pos h, filter_length_sum]
    unfold loCount
    apply sum_congr rfl
    intro j _
    simp [isF, midX_eq]
  · have : ¬ ((c.kind k == Kind.fermion && pw t k != 0) = true) := fun h' => h (hc.mp h')
    rw [if_neg this, if_neg h]

/-- the driver's closed-form action is the specification -/
theorem specX_eq (c : Ctx) (t : Term) (s : Occ) : specX c t s = (tgt t s, specAmpS c t s) := by
  unfold specX specAmpS specAmp sgn sgnI
  rw [sigmaX_eq, annAmpX_eq, midX_eq, tgtX_eq]
  simp only [ofInt_mul, beq_iff_eq, mul_assoc]

end Nof
end Pyma
