/-
Determinism of the relational semantics.
-/
import PymaVerif.Proofs.DslDen

namespace Pyma
namespace Dsl

variable {K : Type} [Scalar K] {p : Prog} {env : Env K}

theorem ok_inj {α} {a b : α} (h1 : (Except.ok a : Except Err α) = .ok b) : a = b := by cases h1; rfl

theorem Holds.det {j : J K} {v : SVal K} (h : Holds p env j v) : ∀ w, Holds p env j w → v = w := by
  induction h with
  | ser _ ih => intro w h2; cases h2 with | ser h2' => exact ih _ h2'
  | adj _ ih => intro w h2; cases h2 with | adj h2' => rw [ih _ h2']
  | neg _ hv ih => intro w h2; cases h2 with | neg h2' hv' => rw [ih _ h2'] at hv; rw [hv] at hv'; exact ok_inj hv'
  | add _ _ hv iha ihb =>
    intro w h2; cases h2 with
    | add ha hb hv' => rw [iha _ ha, ihb _ hb] at hv; rw [hv] at hv'; exact ok_inj hv'
  | sub _ _ hv iha ihb =>
    intro w h2; cases h2 with
    | sub ha hb hv' => rw [iha _ ha, ihb _ hb] at hv; rw [hv] at hv'; exact ok_inj hv'
  | divInt _ hv ih => intro w h2; cases h2 with | divInt h2' hv' => rw [ih _ h2'] at hv; rw [hv] at hv'; exact ok_inj hv'
  | callSer hv => intro w h2; cases h2 with | callSer hv' => rw [hv] at hv'; exact ok_inj hv'
  | callExpr _ hv ih =>
    intro w h2; cases h2 with
    | callExpr h2' hv' => rw [ih _ h2'] at hv; rw [hv] at hv'; exact ok_inj hv'
  | zero => intro w h2; cases h2; rfl
  | iteT hf _ ih =>
    intro w h2; cases h2 with
    | iteT _ h2' => exact ih _ h2'
    | iteF hf' _ => rw [hf] at hf'; cases hf'
  | iteF hf _ ih =>
    intro w h2; cases h2 with
    | iteF _ h2' => exact ih _ h2'
    | iteT hf' _ => rw [hf] at hf'; cases hf'
  | bnil => intro w h2; cases h2; rfl
  | markerHit hgt _ hv ih =>
    intro w h2; cases h2 with
    | markerHit _ h2' hv' => rw [ih _ h2'] at hv; rw [hv] at hv'; exact ok_inj hv'
    | markerMiss hn _ => exact absurd hgt hn
  | markerMiss hn _ ih =>
    intro w h2; cases h2 with
    | markerHit hgt _ _ => exact absurd hgt hn
    | markerMiss _ h2' => exact ih _ h2'
  | lowerHit hgt _ hv ih =>
    intro w h2; cases h2 with
    | lowerHit _ h2' hv' => rw [ih _ h2'] at hv; rw [hv] at hv'; exact ok_inj hv'
    | lowerMiss hn _ => exact absurd hgt hn
  | lowerMiss hn _ ih =>
    intro w h2; cases h2 with
    | lowerHit hgt _ _ => exact absurd hgt hn
    | lowerMiss _ h2' => exact ih _ h2'
  | diagHit hc _ hv _ ihe ihb =>
    intro w h2; cases h2 with
    | diagHit _ he hv' hb => rw [ihe _ he] at hv; rw [hv] at hv'; cases ok_inj hv'; exact ihb _ hb
    | diagMiss hc' _ => rw [hc] at hc'; cases hc'
  | diagMiss hc _ ih =>
    intro w h2; cases h2 with
    | diagHit hc' _ _ _ => rw [hc] at hc'; cases hc'
    | diagMiss _ hb => exact ih _ hb
  | offHit hc _ hv _ ihe ihb =>
    intro w h2; cases h2 with
    | offHit _ he hv' hb => rw [ihe _ he] at hv; rw [hv] at hv'; cases ok_inj hv'; exact ihb _ hb
    | offWrap hc' _ _ _ _ => rw [hc] at hc'; cases hc'
    | offSkip hc' _ _ => rw [hc] at hc'; cases hc'
  | offWrap hc hod _ hv _ ihe ihb =>
    intro w h2; cases h2 with
    | offHit hc' _ _ _ => rw [hc] at hc'; cases hc'
    | offWrap _ hod' he hv' hb =>
      rw [hod] at hod'; cases hod'
      rw [ihe _ he] at hv; rw [hv] at hv'; cases ok_inj hv'; exact ihb _ hb
    | offSkip _ hod' _ => rw [hod] at hod'; cases hod'
  | offSkip hc hod _ ih =>
    intro w h2; cases h2 with
    | offHit hc' _ _ _ => rw [hc] at hc'; cases hc'
    | offWrap _ hod' _ _ _ => rw [hod] at hod'; cases hod'
    | offSkip _ _ hb => exact ih _ hb
  | default _ hv _ ihe ihb =>
    intro w h2; cases h2 with
    | default he hv' hb => rw [ihe _ he] at hv; rw [hv] at hv'; cases ok_inj hv'; exact ihb _ hb
  | pnil => intro w h2; cases h2; rfl
  | leftZero hcost _ hz _ ihl ihr =>
    intro w h2; cases h2 with
    | leftZero _ _ _ hp => exact ihr _ hp
    | leftThenRightZero _ hl hz' _ _ _ => rw [ihl _ hl] at hz; rw [hz] at hz'; cases hz'
    | rightZero hcost' _ _ _ => exact absurd hcost hcost'
    | rightThenLeftZero hcost' _ _ _ _ _ => exact absurd hcost hcost'
    | both hl hz' _ _ _ _ => rw [ihl _ hl] at hz; rw [hz] at hz'; cases hz'
  | leftThenRightZero hcost _ hz _ hzr _ ihl ihrr ihr =>
    intro w h2; cases h2 with
    | leftZero _ hl hz' _ => rw [ihl _ hl] at hz; rw [hz] at hz'; cases hz'
    | leftThenRightZero _ _ _ _ _ hp => exact ihr _ hp
    | rightZero hcost' _ _ _ => exact absurd hcost hcost'
    | rightThenLeftZero hcost' _ _ _ _ _ => exact absurd hcost hcost'
    | both _ _ hr hzr' _ _ => rw [ihrr _ hr] at hzr; rw [hzr] at hzr'; cases hzr'
  | rightZero hcost _ hzr _ ihrr ihr =>
    intro w h2; cases h2 with
    | leftZero hcost' _ _ _ => exact absurd hcost' hcost
    | leftThenRightZero hcost' _ _ _ _ _ => exact absurd hcost' hcost
    | rightZero _ _ _ hp => exact ihr _ hp
    | rightThenLeftZero _ hr hzr' _ _ _ => rw [ihrr _ hr] at hzr; rw [hzr] at hzr'; cases hzr'
    | both _ _ hr hzr' _ _ => rw [ihrr _ hr] at hzr; rw [hzr] at hzr'; cases hzr'
  | rightThenLeftZero hcost _ hzr _ hz _ ihrr ihl ihr =>
    intro w h2; cases h2 with
    | leftZero hcost' _ _ _ => exact absurd hcost' hcost
    | leftThenRightZero hcost' _ _ _ _ _ => exact absurd hcost' hcost
    | rightZero _ hr hzr' _ => rw [ihrr _ hr] at hzr; rw [hzr] at hzr'; cases hzr'
    | rightThenLeftZero _ _ _ _ _ hp => exact ihr _ hp
    | both hl hz' _ _ _ _ => rw [ihl _ hl] at hz; rw [hz] at hz'; cases hz'
  | both _ hz _ hzr hv _ ihl ihrr ihr =>
    intro w h2; cases h2 with
    | leftZero _ hl hz' _ => rw [ihl _ hl] at hz; rw [hz] at hz'; cases hz'
    | leftThenRightZero _ _ _ hr hzr' _ => rw [ihrr _ hr] at hzr; rw [hzr] at hzr'; cases hzr'
    | rightZero _ hr hzr' _ => rw [ihrr _ hr] at hzr; rw [hzr] at hzr'; cases hzr'
    | rightThenLeftZero _ _ _ hl hz' _ => rw [ihl _ hl] at hz; rw [hz] at hz'; cases hz'
    | both hl _ hr _ hv' hp =>
      rw [ihl _ hl, ihrr _ hr] at hv; rw [hv] at hv'; cases ok_inj hv'; exact ihr _ hp
  | input hk =>
    intro w h2; cases h2 with
    | input _ => rfl
    | pinned hk' _ => rw [hk] at hk'; cases hk'
    | body hk' _ _ => rw [hk] at hk'; cases hk'
    | product hk' _ => rw [hk] at hk'; cases hk'
  | pinned hk hs =>
    intro w h2; cases h2 with
    | input hk' => rw [hk] at hk'; cases hk'
    | pinned hk' hs' => rw [hk] at hk'; cases hk'; rw [hs] at hs'; cases hs'; rfl
    | body hk' hs' _ => rw [hk] at hk'; cases hk'; rw [hs] at hs'; cases hs'
    | product hk' _ => rw [hk] at hk'; cases hk'
  | body hk hs _ ih =>
    intro w h2; cases h2 with
    | input hk' => rw [hk] at hk'; cases hk'
    | pinned hk' hs' => rw [hk] at hk'; cases hk'; rw [hs] at hs'; cases hs'
    | body hk' _ hb => rw [hk] at hk'; cases hk'; exact ih _ hb
    | product hk' _ => rw [hk] at hk'; cases hk'
  | product hk _ ih =>
    intro w h2; cases h2 with
    | input hk' => rw [hk] at hk'; cases hk'
    | pinned hk' _ => rw [hk] at hk'; cases hk'
    | body hk' _ _ => rw [hk] at hk'; cases hk'
    | product hk' hp => rw [hk] at hk'; cases hk'; exact ih _ hp

end Dsl
end Pyma
#print axioms Pyma.Dsl.Holds.det
