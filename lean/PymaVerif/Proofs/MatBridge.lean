/-
Bridge between the array matrices of the executable model and Mathlib's `Matrix`.
-/
import PymaVerif.Model.Mat
import Mathlib.Data.Matrix.Basic
import Mathlib.Data.Matrix.Mul
import Mathlib.Algebra.Star.Basic
import Mathlib.Algebra.Field.Basic
import Mathlib.Algebra.BigOperators.Fin
import Mathlib.LinearAlgebra.Matrix.ConjTranspose

namespace Pyma

/-- The three magnitude tests of the model, as a parameter of the abstract scalar field. -/
class Thresholds (K : Type) where
  absGt : K → Rat → Bool
  absLt : K → Rat → Bool
  isClose : K → K → Bool

/-- The `Scalar` structure of a field with involution. -/
@[reducible] def Scalar.ofField (K : Type) [Field K] [StarRing K] [DecidableEq K] [Thresholds K] :
    Scalar K where
  conj := star
  divInt := fun x k => x / (k : K)
  absGt := Thresholds.absGt
  absLt := Thresholds.absLt
  isClose := Thresholds.isClose

namespace Mat

section basic
variable {K : Type} [Scalar K]

theorem get_ofFn {d : Nat} (f : Nat → Nat → K) {a b : Nat} (ha : a < d) (hb : b < d) :
    (ofFn d f).get a b = f a b := by
  have hlt : a * d + b < d * d := by
    calc a * d + b < a * d + d := by omega
      _ = (a + 1) * d := by ring
      _ ≤ d * d := Nat.mul_le_mul_right d ha
  simp only [get, ofFn]
  rw [Array.getD_eq_getD_getElem?, Array.getElem?_ofFn]
  simp only [hlt, ↓reduceDIte, Option.getD_some]
  have hd : 0 < d := by omega
  have h1 : (a * d + b) / d = a := by
    rw [Nat.add_comm, Nat.add_mul_div_right _ _ hd, Nat.div_eq_of_lt hb, Nat.zero_add]
  have h2 : (a * d + b) % d = b := by
    rw [Nat.add_comm, Nat.add_mul_mod_self_right, Nat.mod_eq_of_lt hb]
  rw [h1, h2]

theorem d_ofFn {d : Nat} (f : Nat → Nat → K) : (ofFn d f).d = d := rfl

end basic

section field
variable {K : Type} [Field K] [StarRing K] [DecidableEq K] [Thresholds K]

attribute [local instance] Scalar.ofField

/-- semantic matrix of an array matrix of size `d` -/
def toMatrix (d : Nat) (m : Mat K) : Matrix (Fin d) (Fin d) K := fun a b => m.get a.val b.val

theorem toMatrix_ofFn (d : Nat) (f : Nat → Nat → K) :
    toMatrix d (ofFn d f) = fun a b => f a.val b.val := by
  funext a b
  exact get_ofFn f a.isLt b.isLt

theorem toMatrix_add (d : Nat) (x y : Mat K) (hx : x.d = d) :
    toMatrix d (add x y) = toMatrix d x + toMatrix d y := by
  subst hx
  simp only [add, toMatrix_ofFn]
  rfl

theorem toMatrix_neg (d : Nat) (x : Mat K) (hx : x.d = d) :
    toMatrix d (neg x) = -toMatrix d x := by
  subst hx
  simp only [neg, toMatrix_ofFn]
  rfl

theorem foldl_range_eq_sum (d : Nat) (g : Nat → K) :
    (List.range d).foldl (fun acc c => acc + g c) 0 = ∑ c : Fin d, g c.val := by
  induction d with
  | zero => simp
  | succ n ih =>
    rw [List.range_succ, List.foldl_append, ih, Fin.sum_univ_castSucc]
    simp

theorem toMatrix_mul (d : Nat) (x y : Mat K) (hx : x.d = d) :
    toMatrix d (mul x y) = toMatrix d x * toMatrix d y := by
  subst hx
  simp only [mul, toMatrix_ofFn]
  funext a b
  rw [foldl_range_eq_sum, Matrix.mul_apply]
  rfl

theorem toMatrix_adj (d : Nat) (x : Mat K) (hx : x.d = d) :
    toMatrix d (adj x) = (toMatrix d x).conjTranspose := by
  subst hx
  simp only [adj, toMatrix_ofFn]
  rfl

end field
end Mat
end Pyma
