/-
C08, adjoint: the model of `NumberOrderedForm.adjoint` (negate the powers, conjugate the coefficient)
represents the Hermitian adjoint on Fock space.  In the unnormalised basis `|s) = ∏ (a_j†)^{s_j}|0)` the
squared norm of a basis state is `∏_{bosons} s_j!`, so the statement reads

  `(s| x† |s'') · ‖s‖² = conj (s''| x |s) · ‖s''‖²`      for all physical `s`, `s''`.

The sign convention of the representation (the Jordan–Wigner count depends only on the powers and on the
intermediate occupation, `sigma`) makes the fermionic part of the statement an identity of counts.
-/
import PymaVerif.Proofs.NofSylvester
import Mathlib.Data.Nat.Factorial.Basic

namespace Pyma
namespace Nof
open Finset

/-! ## conjugation on `GRat` -/

theorem conj_mul (a b : GRat) : (a * b).conj = a.conj * b.conj := by
  ext <;> simp [GRat.conj] <;> ring
theorem conj_add (a b : GRat) : (a + b).conj = a.conj + b.conj := by
  ext <;> simp [GRat.conj] <;> ring
theorem conj_zero : (0 : GRat).conj = 0 := by ext <;> simp [GRat.conj]
theorem conj_ofInt (k : Int) : (ofInt k).conj = ofInt k := by ext <;> simp [GRat.conj, ofInt]

theorem conj_sum (l : List GRat) : l.sum.conj = (l.map GRat.conj).sum := by
  induction l with
  | nil => simpa using conj_zero
  | cons a l ih => simp only [List.sum_cons, List.map_cons, conj_add, ih]

/-! ## the adjoint of a monomial -/

def adjT (t : Term) : Term := { powers := t.powers.map (- ·), coeff := fun N => (t.coeff N).conj }

theorem adjoint_eq (x : Form) : adjoint x = x.map adjT := rfl

theorem pw_adjT (t : Term) (j : Nat) : pw (adjT t) j = - pw t j := by
  unfold pw adjT
  simp only [List.getD_eq_getElem?_getD, List.getElem?_map]
  cases t.powers[j]? <;> simp

theorem tgt_tgt (t u : Term) (h : ∀ j, pw u j = - pw t j) (s : Occ) : tgt u (tgt t s) = s := by
  apply occ_ext (by simp)
  intro j hj
  have hj' : j < s.length := by simpa using hj
  unfold tgt
  rw [get_mapRange, if_pos (by simpa using hj'), get_mapRange, if_pos hj', h j]
  omega

theorem tgt_adj_iff (t : Term) (s s'' : Occ) : tgt (adjT t) s'' = s ↔ tgt t s = s'' := by
  constructor
  · intro h; rw [← h]; exact tgt_tgt (adjT t) t (fun j => by rw [pw_adjT]; omega) s''
  · intro h; rw [← h]; exact tgt_tgt t (adjT t) (pw_adjT t) s

theorem mid_adj (t : Term) (s : Occ) : mid (adjT t) (tgt t s) = mid t s := by
  apply occ_ext (by simp)
  intro j hj
  have hj' : j < s.length := by simpa using hj
  unfold mid
  rw [get_mapRange, if_pos (by simpa using hj'), get_mapRange, if_pos hj', pw_adjT]
  unfold tgt
  rw [get_mapRange, if_pos hj']
  omega

theorem sigma_adj (c : Ctx) (t : Term) (s : Occ) : sigma c (adjT t) (tgt t s) = sigma c t s := by
  unfold sigma
  rw [mid_adj]
  unfold sigmaPO
  apply sum_congr rfl
  intro k _
  simp only [pw_adjT, ne_eq, neg_eq_zero]

/-! ## norms of the unnormalised basis states -/

def fac (n : Int) : Int := (n.toNat.factorial : Int)

def norm (c : Ctx) (s : Occ) : Int :=
  ∏ j ∈ range c.n, if c.kind j == .boson then fac (Occ.get s j) else 1

/-- physical states: `Valid`, and non-negative boson occupations -/
structure Phys (c : Ctx) (s : Occ) : Prop extends Valid c s where
  nonneg : ∀ i, i < c.n → c.kind i = .boson → 0 ≤ Occ.get s i

theorem falling_succ (x : Int) (k : Nat) : falling x (k + 1) = falling x k * (x - k) := by
  rw [falling_add]; simp [falling_eq]

theorem fac_falling (m k : Nat) (h : k ≤ m) :
    ((m.factorial : Nat) : Int) = (((m - k).factorial : Nat) : Int) * falling (m : Int) k := by
  induction k with
  | zero => simp
  | succ k ih =>
    have hk : k ≤ m := by omega
    rw [ih hk, falling_succ]
    have h1 : m - k = (m - (k + 1)) + 1 := by omega
    rw [h1, Nat.factorial_succ]
    have h2 : (((m - (k + 1) + 1 : Nat)) : Int) = (m : Int) - k := by omega
    push_cast at h2 ⊢
    rw [h2]
    ring

theorem fac_falling_int (n : Int) (k : Nat) (hn : 0 ≤ n - k) :
    fac n = fac (n - k) * falling n k := by
  unfold fac
  have h0 : 0 ≤ n := by omega
  obtain ⟨m, rfl⟩ := Int.eq_ofNat_of_zero_le h0
  have hk : k ≤ m := by omega
  have : ((m : Int) - (k : Int)).toNat = m - k := by omega
  rw [this, Int.toNat_natCast]
  exact fac_falling m k hk

/-- one mode: norm factor times amplitude is symmetric under `(n, p) ↦ (n - p, -p)` -/
theorem mode_adj (c : Ctx) (j : Nat) (n p : Int)
    (hb : c.kind j = .boson → 0 ≤ n ∧ 0 ≤ n - p)
    (hf : c.isInf j = false → (n = 0 ∨ n = 1) ∧ (n - p = 0 ∨ n - p = 1)) :
    (if c.kind j == .boson then fac n else 1) * modeAmp c j (n - p) (-p) =
      (if c.kind j == .boson then fac (n - p) else 1) * modeAmp c j n p := by
  by_cases hinf : c.isInf j = true
  · by_cases hbos : c.kind j = .boson
    · obtain ⟨h0, h1⟩ := hb hbos
      have hbb : (c.kind j == Kind.boson) = true := by simp [hbos]
      simp only [modeAmp, hinf, hbb, if_true, Bool.true_and]
      rcases lt_trichotomy p 0 with hp | hp | hp
      · have h2 : decide (-p > 0) = true := by simp; omega
        have h3 : decide (p > 0) = false := by simp; omega
        simp only [h2, h3, if_true, mul_one]
        have := fac_falling_int (n - p) (-p).toNat (by omega)
        have h4 : n - p - ((-p).toNat : Int) = n := by omega
        rw [h4] at this
        simpa using this.symm
      · subst hp; simp
      · have h2 : decide (-p > 0) = false := by simp; omega
        have h3 : decide (p > 0) = true := by simp; omega
        simp only [h2, h3, if_true, mul_one]
        have := fac_falling_int n p.toNat (by omega)
        have h4 : n - (p.toNat : Int) = n - p := by omega
        rw [h4] at this
        simpa using this
    · have hbb : (c.kind j == Kind.boson) = false := by simp [hbos]
      simp [modeAmp, hinf, hbb]
  · have hinf' : c.isInf j = false := by simpa using hinf
    have hbb : (c.kind j == Kind.boson) = false := by
      unfold Ctx.isInf at hinf'
      cases hk : c.kind j <;> simp_all
    obtain ⟨h0, h1⟩ := hf hinf'
    simp only [hbb, Bool.false_eq_true, if_false, one_mul, modeAmp_fin c j hinf']
    rcases h0 with rfl | rfl <;> rcases h1 with h1 | h1
    · have : p = 0 := by omega
      subst this; simp
    · have : p = -1 := by omega
      subst this; simp
    · have : p = 1 := by omega
      subst this; simp
    · have : p = 0 := by omega
      subst this; simp

theorem norm_annAmp (c : Ctx) (t : Term) (s : Occ) (hs : Phys c s) (hs'' : Phys c (tgt t s)) :
    norm c s * annAmp c (adjT t) (tgt t s) = norm c (tgt t s) * annAmp c t s := by
  unfold norm annAmp
  rw [← prod_mul_distrib, ← prod_mul_distrib]
  apply prod_congr rfl
  intro j hj
  have hj' : j < c.n := mem_range.mp hj
  have hjs : j < s.length := by rw [hs.len]; exact hj'
  have hget : Occ.get (tgt t s) j = Occ.get s j - pw t j := by
    unfold tgt; rw [get_mapRange, if_pos hjs]
  rw [pw_adjT, hget]
  apply mode_adj
  · intro hb
    exact ⟨hs.nonneg j hj' hb, by rw [← hget]; exact hs''.nonneg j hj' hb⟩
  · intro hf
    exact ⟨hs.bin j hj' hf, by rw [← hget]; exact hs''.bin j hj' hf⟩

/-! ## the representation theorem for the adjoint -/

theorem ampS'_adj (c : Ctx) (t : Term) (s s'' : Occ) (hs : Phys c s) (hs'' : Phys c s'') :
    ampS' c (adjT t) s'' s * ofInt (norm c s) = (ampS' c t s s'').conj * ofInt (norm c s'') := by
  unfold ampS' ampS
  by_cases h : tgt t s = s''
  · subst h
    rw [if_pos ((tgt_adj_iff t s _).mpr rfl), if_pos rfl]
    unfold specAmp sgn
    rw [sigma_adj, mid_adj]
    have hn := norm_annAmp c t s hs hs''
    have hn' : ofInt (annAmp c (adjT t) (tgt t s)) * ofInt (norm c s) =
        ofInt (annAmp c t s) * ofInt (norm c (tgt t s)) := by
      rw [← ofInt_mul, ← ofInt_mul]; congr 1; linarith
    simp only [conj_mul, conj_ofInt]
    show ofInt (sgnI (sigma c t s)) * (ofInt (annAmp c (adjT t) (tgt t s)) * (t.coeff (mid t s)).conj) *
        ofInt (norm c s) = _
    calc _ = ofInt (sgnI (sigma c t s)) * (t.coeff (mid t s)).conj *
              (ofInt (annAmp c (adjT t) (tgt t s)) * ofInt (norm c s)) := by ring
      _ = _ := by rw [hn']; ring
  · rw [if_neg (fun h' => h ((tgt_adj_iff t s s'').mp h')), if_neg h]
    simp [conj_zero]

/-- **C08, adjoint.**  `(s| x† |s'')‖s‖² = conj((s''| x |s))‖s''‖²` on all physical states. -/
theorem rep_adjoint (c : Ctx) (x : Form) (s s'' : Occ) (hs : Phys c s) (hs'' : Phys c s'') :
    ampF' c (adjoint x) s'' s * ofInt (norm c s) = (ampF' c x s s'').conj * ofInt (norm c s'') := by
  rw [adjoint_eq]
  unfold ampF'
  rw [conj_sum, List.map_map, List.map_map]
  induction x with
  | nil => simp
  | cons t x ih =>
    simp only [List.map_cons, List.sum_cons, Function.comp, add_mul]
    rw [ampS'_adj c t s s'' hs hs'']
    congr 1

/-- the norms do not vanish, so the kernel of the adjoint is determined -/
theorem norm_pos (c : Ctx) (s : Occ) : 0 < norm c s := by
  unfold norm
  apply prod_pos
  intro j _
  split
  · unfold fac; exact_mod_cast Nat.factorial_pos _
  · exact one_pos

/-! ## the adjoint reverses products -/

theorem wft_adjT (c : Ctx) (t : Term) (h : WFT c t) : WFT c (adjT t) := by
  refine ⟨by simp [adjT, h.len], ?_, ?_⟩
  · intro i hi hfin
    rw [pw_adjT]
    rcases h.fin i hi hfin with h1 | h1 | h1 <;> rw [h1] <;> simp
  · intro i hi hfin hp N v hN
    have hp' : pw t i ≠ 0 := by rw [pw_adjT] at hp; simpa using hp
    show (t.coeff (Occ.set N i v)).conj = (t.coeff N).conj
    rw [h.can i hi hfin hp' N v hN]

theorem wf2_adjoint (c : Ctx) (x : Form) (h : WF2 c x) : WF2 c (adjoint x) := by
  intro u hu
  rw [adjoint_eq] at hu
  obtain ⟨t, ht, rfl⟩ := List.mem_map.mp hu
  exact wft_adjT c t (h t ht)

theorem falling_eq_zero (n : Int) (k : Nat) (h0 : 0 ≤ n) (h : n < k) : falling n k = 0 := by
  rw [falling_eq]
  apply prod_eq_zero (i := n.toNat)
  · rw [mem_range]; omega
  · omega

/-- a monomial with a non-vanishing amplitude on a physical state lands on a physical state -/
theorem phys_of_annAmp_ne_zero (c : Ctx) (t : Term) (s : Occ) (hs : Phys c s) (hf : FinPow c t)
    (h : annAmp c t s ≠ 0) : Phys c (tgt t s) := by
  unfold annAmp at h
  rw [prod_ne_zero_iff] at h
  have hget : ∀ j, j < c.n → Occ.get (tgt t s) j = Occ.get s j - pw t j := by
    intro j hj
    unfold tgt; rw [get_mapRange, if_pos (by rw [hs.len]; exact hj)]
  refine ⟨⟨by simp [hs.len], ?_⟩, ?_⟩
  · intro i hi hfin
    have hm := h i (mem_range.mpr hi)
    rw [modeAmp_fin c i hfin] at hm
    rw [hget i hi]
    have hb := hs.bin i hi hfin
    have hp := hf i hi hfin
    revert hm hb hp
    generalize Occ.get s i = n
    generalize pw t i = p
    intro hm hb hp
    rcases hb with rfl | rfl <;> rcases hp with rfl | rfl | rfl <;> simp at hm ⊢
  · intro i hi hb
    have hm := h i (mem_range.mpr hi)
    have hinf : c.isInf i = true := by simp [Ctx.isInf, hb]
    have hbb : (c.kind i == Kind.boson) = true := by simp [hb]
    rw [hget i hi]
    have h0 := hs.nonneg i hi hb
    by_contra hneg
    have hp : pw t i > 0 := by omega
    simp only [modeAmp, hinf, hbb, if_true, Bool.true_and, decide_eq_true hp] at hm
    exact hm (falling_eq_zero _ _ h0 (by omega))

theorem ampS'_eq (c : Ctx) (t : Term) (s s' : Occ) :
    ampS' c t s s' = if tgt t s = s' then specAmpS c t s else 0 := by
  unfold ampS' ampS specAmpS
  split <;> simp

theorem specAmpS_eq_zero (c : Ctx) (t : Term) (s : Occ) (hs : Phys c s) (hf : FinPow c t)
    (h : ¬ Phys c (tgt t s)) : specAmpS c t s = 0 := by
  have : annAmp c t s = 0 := by
    by_contra h'
    exact h (phys_of_annAmp_ne_zero c t s hs hf h')
  unfold specAmpS specAmp
  rw [this]
  have : ofInt 0 = (0 : GRat) := by ext <;> simp [ofInt]
  rw [this]; ring

theorem sum_swap {α β : Type} (x : List α) (y : List β) (f : α → β → GRat) :
    (x.map fun a => (y.map fun b => f a b).sum).sum = (y.map fun b => (x.map fun a => f a b).sum).sum := by
  induction x with
  | nil => simp
  | cons a x ih =>
    simp only [List.map_cons, List.sum_cons, ih]
    rw [← List.sum_map_add]

/-- one pair of monomials -/
theorem pair_adj (c : Ctx) (t v : Term) (s s'' : Occ) (hs : Phys c s) (hs'' : Phys c s'')
    (ht : WFT c t) (hv : WFT c v) :
    (specAmpS c t s).conj * (ampS' c v (tgt t s) s'').conj * ofInt (norm c s'') =
      specAmpS c (adjT v) s'' * ampS' c (adjT t) (tgt (adjT v) s'') s * ofInt (norm c s) := by
  by_cases hm : Phys c (tgt t s)
  · have h1 := ampS'_adj c v (tgt t s) s'' hm hs''
    have h2 := ampS'_adj c t s (tgt t s) hs hm
    have h3 : ampS' c t s (tgt t s) = specAmpS c t s := by rw [ampS'_eq, if_pos rfl]
    rw [h3] at h2
    calc _ = (specAmpS c t s).conj * ((ampS' c v (tgt t s) s'').conj * ofInt (norm c s'')) := by ring
      _ = (specAmpS c t s).conj * (ampS' c (adjT v) s'' (tgt t s) * ofInt (norm c (tgt t s))) := by rw [h1]
      _ = ampS' c (adjT v) s'' (tgt t s) * ((specAmpS c t s).conj * ofInt (norm c (tgt t s))) := by ring
      _ = ampS' c (adjT v) s'' (tgt t s) * (ampS' c (adjT t) (tgt t s) s * ofInt (norm c s)) := by rw [h2]
      _ = _ := by
        rw [ampS'_eq c (adjT v) s'']
        by_cases hmm : tgt (adjT v) s'' = tgt t s
        · rw [if_pos hmm, hmm]; ring
        · rw [if_neg hmm, ampS'_eq c (adjT t) (tgt (adjT v) s'') s,
            if_neg (fun h' => hmm ((tgt_adj_iff t s _).mp h').symm)]
          ring
  · rw [specAmpS_eq_zero c t s hs ht.fin hm, conj_zero]
    by_cases hmm : tgt (adjT v) s'' = tgt t s
    · have : ¬ Phys c (tgt (adjT v) s'') := by rw [hmm]; exact hm
      rw [specAmpS_eq_zero c (adjT v) s'' hs'' (wft_adjT c v hv).fin this]; ring
    · rw [ampS'_eq c (adjT t) (tgt (adjT v) s'') s,
        if_neg (fun h' => hmm ((tgt_adj_iff t s _).mp h').symm)]
      ring

theorem ofInt_norm_ne_zero (c : Ctx) (s : Occ) : ofInt (norm c s) ≠ 0 := by
  intro h
  have h1 := congrArg GRat.re h
  have h2 : ((norm c s : Int) : Rat) = 0 := by simpa [ofInt] using h1
  have h3 : norm c s = 0 := by exact_mod_cast h2
  exact absurd h3 (ne_of_gt (norm_pos c s))

/-- **C08, the adjoint reverses products**: `(x·y)† = y†·x†` as kernels on physical states. -/
theorem adjoint_mul (c : Ctx) (hlast : FermionsLast c) (x y : Form) (s s'' : Occ)
    (hx : WF2 c x) (hy : WF2 c y) (hs : Phys c s) (hs'' : Phys c s'') :
    ampF' c (adjoint (mul c x y)) s'' s = ampF' c (mul c (adjoint y) (adjoint x)) s'' s := by
  apply mul_right_cancel₀ (ofInt_norm_ne_zero c s)
  rw [rep_adjoint c _ s s'' hs hs'', rep_mul3 c hlast x y s s'' hx hy hs.toValid,
    rep_mul3 c hlast (adjoint y) (adjoint x) s'' s (wf2_adjoint c y hy) (wf2_adjoint c x hx) hs''.toValid]
  -- expand both sides into double sums over pairs of monomials
  have hL : ((y.map fun t => specAmpS c t s * ampF' c x (tgt t s) s'').sum).conj * ofInt (norm c s'') =
      (y.map fun t => (x.map fun v =>
        (specAmpS c t s).conj * (ampS' c v (tgt t s) s'').conj * ofInt (norm c s'')).sum).sum := by
    rw [conj_sum, List.map_map, ← List.sum_map_mul_right]
    congr 1
    apply List.map_congr_left
    intro t _
    simp only [Function.comp, conj_mul]
    unfold ampF'
    rw [conj_sum, List.map_map, mul_assoc, ← List.sum_map_mul_right, ← List.sum_map_mul_left]
    congr 1
    apply List.map_congr_left
    intro v _
    simp only [Function.comp]; ring
  have hR : ((adjoint x).map fun u => specAmpS c u s'' * ampF' c (adjoint y) (tgt u s'') s).sum *
      ofInt (norm c s) =
      (x.map fun v => (y.map fun t =>
        specAmpS c (adjT v) s'' * ampS' c (adjT t) (tgt (adjT v) s'') s * ofInt (norm c s)).sum).sum := by
    rw [adjoint_eq x, List.map_map, ← List.sum_map_mul_right]
    congr 1
    apply List.map_congr_left
    intro v _
    simp only [Function.comp]
    unfold ampF'
    rw [adjoint_eq y, List.map_map, mul_assoc, ← List.sum_map_mul_right, ← List.sum_map_mul_left]
    congr 1
    apply List.map_congr_left
    intro t _
    simp only [Function.comp]; ring
  rw [hL, hR, sum_swap]
  congr 1
  apply List.map_congr_left
  intro v hv
  congr 1
  apply List.map_congr_left
  intro t ht
  exact pair_adj c t v s s'' hs hs'' (hy t ht) (hx v hv)

/-- non-vacuity: the vacuum and a one-boson state of a boson ⊗ fermion context are physical -/
example : Phys ⟨[.boson, .fermion]⟩ [0, 0] ∧ Phys ⟨[.boson, .fermion]⟩ [1, 1] := by
  refine ⟨⟨⟨rfl, ?_⟩, ?_⟩, ⟨⟨rfl, ?_⟩, ?_⟩⟩ <;> intro i hi <;>
    (have : i = 0 ∨ i = 1 := by simp [Ctx.n] at hi; omega) <;> rcases this with rfl | rfl <;> simp [Ctx.isInf, Ctx.kind, Occ.get]

end Nof
end Pyma
#print axioms Pyma.Nof.rep_adjoint
#print axioms Pyma.Nof.adjoint_mul
