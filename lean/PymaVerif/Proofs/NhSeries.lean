/-
C05 for the model, partial: the series computed by the translated `nonhermitian` program satisfy
`U_inv · U = 1 = U · U_inv`, `U_inv · H · U = H̃`, `H̃` has no eliminated entry, and `U − U_inv` has
no kept entry — for every accepted problem in which **no kept pair of states joins two different
unperturbed energies**.  Without that hypothesis the statement is false (`D5Witness.lean`).
-/
import PymaVerif.Proofs.NhBlock
import PymaVerif.Proofs.CoreN
import PymaVerif.Proofs.MainH6

namespace Pyma
namespace BlockDiag
open Dsl Generated MvPowerSeries
namespace Problem
namespace Nh

variable {K : Type} [Field K] [StarRing K] [DecidableEq K] [Thresholds K]
attribute [local instance] Scalar.ofField
variable (p : Problem K)

/-- what the proof uses about an accepted problem (no Hermiticity, no symmetry of the mask) -/
structure AccN : Prop where
  H0_spec : g p "H" (toList (0 : Fin p.nparams →₀ ℕ)) = p.H0mat
  diag_kept : ∀ a : Fin p.d, p.keptE a.val a.val = true
  gap : ∀ a b : Fin p.d, p.keptE a.val b.val = false →
    Scalar.absGt (p.energy a.val - p.energy b.val) p.atol = true
  absGt_ne : ∀ x : K, Thresholds.absGt x p.atol = true → x ≠ 0
  /-- the extra hypothesis: kept pairs are degenerate -/
  kept_deg : ∀ a b : Fin p.d, p.keptE a.val b.val = true → p.energy a.val = p.energy b.val

variable (R : Ready p) (A : AccN p) (h2 : (2 : K) ≠ 0)

include R in
theorem F1_Hd : sr p "H'_diag" ∈ FDeg (Fin p.nparams) (Mt K p.d) 1 := sr_mem_F1 p _ (g0_Hd p R.wf R.tot)
include R in
theorem F1_Ho : sr p "H'_offdiag" ∈ FDeg (Fin p.nparams) (Mt K p.d) 1 := sr_mem_F1 p _ (g0_Ho p R.wf R.tot)
include R in
theorem F1_P : sr p "U'" ∈ FDeg (Fin p.nparams) (Mt K p.d) 1 := sr_mem_F1 p _ (g0_P p R.wf R.tot)
include R in
theorem F1_G : sr p "U_inv'" ∈ FDeg (Fin p.nparams) (Mt K p.d) 1 := sr_mem_F1 p _ (g0_G p R.wf R.tot)
include R in
theorem F1_X : sr p "X" ∈ FDeg (Fin p.nparams) (Mt K p.d) 1 := sr_mem_F1 p _ (g0_X p R.wf R.tot)
include R in
theorem F1_B : sr p "B" ∈ FDeg (Fin p.nparams) (Mt K p.d) 1 := sr_mem_F1 p _ (g0_B p R.wf R.tot)

include R in
theorem sr_prod {x a b : String} (hf : findSeries nonhermitian x = none ∧ findProduct nonhermitian x = some (a, b))
    (hx : x ≠ "H") (hxm : x ∈ nhNames) : sr p x = sr p a * sr p b := by
  apply Ser_product (p.envOK R.wf) (p.envSem R.wf) R.hN p.nparams
    (kindOf_product (p.inputs_contains x hx) hf.1 hf.2) (R.tot x hxm)

include R in
theorem sr_GP : sr p "U_inv' @ U'" = sr p "U_inv'" * sr p "U'" := sr_prod p R nprod_GP (by decide) (by decide)
include R in
theorem sr_HdP : sr p "H'_diag @ U'" = sr p "H'_diag" * sr p "U'" := sr_prod p R nprod_HdP (by decide) (by decide)
include R in
theorem sr_PHd : sr p "U' @ H'_diag" = sr p "U'" * sr p "H'_diag" := sr_prod p R nprod_PHd (by decide) (by decide)
include R in
theorem sr_A : sr p "H'_offdiag @ U'" = sr p "H'_offdiag" * sr p "U'" := sr_prod p R nprod_A (by decide) (by decide)
include R in
theorem sr_GB : sr p "U_inv' @ B" = sr p "U_inv'" * sr p "B" := sr_prod p R nprod_GB (by decide) (by decide)

/-- a product of two series without constant term has none -/
theorem coeff0_mul {x y : Sr (Fin p.nparams) K p.d} (hx : x ∈ FDeg (Fin p.nparams) (Mt K p.d) 1)
    (hy : y ∈ FDeg (Fin p.nparams) (Mt K p.d) 1) : coeff 0 (x * y) = 0 :=
  (mem_F1_iff _).mp ((FDeg_anti 1) (FDeg_mul hx hy))

/-- prove a series identity coefficientwise, order zero by `h0` -/
theorem ext_orders {x y : Sr (Fin p.nparams) K p.d} (h0 : coeff 0 x = coeff 0 y)
    (h : ∀ m : Fin p.nparams →₀ ℕ, m ≠ 0 → coeff m x = coeff m y) : x = y := by
  ext m : 1
  by_cases hm : m = 0
  · subst hm; exact h0
  · exact h m hm

theorem z0 : ((toList (0 : Fin p.nparams →₀ ℕ)).all (· == 0)) = true := (toList_all_zero 0).mpr rfl

include R in
theorem eqG : sr p "U_inv'" = -sr p "U'" - sr p "U_inv'" * sr p "U'" := by
  rw [← sr_GP p R]
  apply ext_orders
  · have hq : coeff 0 (sr p "U_inv' @ U'") = 0 := by rw [sr_GP p R]; exact coeff0_mul p (F1_G p R) (F1_P p R)
    rw [map_sub, map_neg, hq, coeff_sr, coeff_sr, g0_G p R.wf R.tot _ (z0 p), g0_P p R.wf R.tot _ (z0 p)]
    simp
  · intro m hm
    rw [map_sub, map_neg, coeff_sr, coeff_sr, coeff_sr]
    exact g_G p R.wf R.tot _ (toList_all_nonzero m hm)

include R in
theorem eqB : sr p "B" = sr p "X" + sr p "H'_offdiag" + sr p "H'_offdiag" * sr p "U'" := by
  rw [← sr_A p R]
  apply ext_orders
  · have hq : coeff 0 (sr p "H'_offdiag @ U'") = 0 := by rw [sr_A p R]; exact coeff0_mul p (F1_Ho p R) (F1_P p R)
    rw [map_add, map_add, hq, coeff_sr, coeff_sr, coeff_sr, g0_B p R.wf R.tot _ (z0 p),
      g0_X p R.wf R.tot _ (z0 p), g0_Ho p R.wf R.tot _ (z0 p)]
    simp
  · intro m hm
    rw [map_add, map_add, coeff_sr, coeff_sr, coeff_sr, coeff_sr]
    exact g_B p R.wf R.tot _ (toList_all_nonzero m hm)

include R in
theorem Hd_sel : p.SelS (sr p "H'_diag") = sr p "H'_diag" := by
  ext m a b
  rw [coeff_SelS, coeff_sr]
  by_cases hm : m = 0
  · subst hm; rw [g0_Hd p R.wf R.tot _ (z0 p)]; simp
  · rw [g_Hd p R.wf R.tot _ (toList_all_nonzero m hm)]
    by_cases hk : p.keptE a.val b.val = true <;> simp [hk]

include R in
theorem Ho_sel : p.SelS (sr p "H'_offdiag") = 0 := by
  ext m a b
  rw [coeff_SelS, coeff_sr]
  by_cases hm : m = 0
  · subst hm; rw [g0_Ho p R.wf R.tot _ (z0 p)]; simp
  · rw [g_Ho p R.wf R.tot _ (toList_all_nonzero m hm)]
    by_cases hk : p.keptE a.val b.val = true <;> simp [hk]

include A in
theorem H0s_sel : p.SelS p.H0s = p.H0s := by
  ext m a b
  rw [coeff_SelS]
  simp only [H0s, coeff_C]
  by_cases hm : m = 0
  · simp only [hm, ↓reduceIte, H0mat, Matrix.diagonal_apply]
    by_cases hab : a = b
    · subst hab; simp [A.diag_kept]
    · simp [hab]
  · simp [hm]

theorem H0comm (x : Sr (Fin p.nparams) K p.d) :
    p.SelS (p.H0s * x - x * p.H0s) = p.H0s * p.SelS x - p.SelS x * p.H0s := by
  ext m a b
  simp only [coeff_SelS, map_sub, Matrix.sub_apply, coeff_H0s_mul, coeff_mul_H0s]
  by_cases hk : p.keptE a.val b.val = true <;> simp [hk]

include A in
theorem comm : p.H0s * p.SelS (sr p "U'") = p.SelS (sr p "U'") * p.H0s := by
  ext m a b
  rw [coeff_H0s_mul, coeff_mul_H0s, coeff_SelS]
  by_cases hk : p.keptE a.val b.val = true
  · simp only [hk, ↓reduceIte]; rw [A.kept_deg a b hk]; ring
  · simp [hk]

include R h2 in
theorem eqPsel : 2 * p.SelS (sr p "U'") = -p.SelS (sr p "U_inv'" * sr p "U'") := by
  rw [← sr_GP p R]
  ext m a b
  rw [coeff_two_mul, two_mul_apply, map_neg, Matrix.neg_apply, coeff_SelS, coeff_SelS, coeff_sr, coeff_sr]
  by_cases hk : p.keptE a.val b.val = true
  · simp only [hk, ↓reduceIte]
    by_cases hm : m = 0
    · subst hm
      have hq : coeff 0 (sr p "U_inv' @ U'") = 0 := by rw [sr_GP p R]; exact coeff0_mul p (F1_G p R) (F1_P p R)
      rw [coeff_sr] at hq
      rw [g0_P p R.wf R.tot _ (z0 p), hq]; simp
    · rw [g_P p R.wf R.tot _ (toList_all_nonzero m hm), hk]
      simp only [↓reduceIte]
      exact neg_two_inv_mul h2 _
  · simp [hk]

include R in
theorem eqXsel : p.SelS (sr p "X") = p.SelS (sr p "H'_diag" * sr p "U'" - sr p "U'" * sr p "H'_diag") := by
  rw [← sr_HdP p R, ← sr_PHd p R]
  ext m a b
  rw [coeff_SelS, coeff_SelS, map_sub, Matrix.sub_apply, coeff_sr, coeff_sr, coeff_sr]
  by_cases hk : p.keptE a.val b.val = true
  · simp only [hk, ↓reduceIte]
    by_cases hm : m = 0
    · subst hm
      have h1 : coeff 0 (sr p "H'_diag @ U'") = 0 := by rw [sr_HdP p R]; exact coeff0_mul p (F1_Hd p R) (F1_P p R)
      have h2' : coeff 0 (sr p "U' @ H'_diag") = 0 := by rw [sr_PHd p R]; exact coeff0_mul p (F1_P p R) (F1_Hd p R)
      rw [coeff_sr] at h1 h2'
      rw [g0_X p R.wf R.tot _ (z0 p), h1, h2']; simp
    · rw [g_X p R.wf R.tot _ (toList_all_nonzero m hm), hk]; simp
  · simp [hk]

include R in
theorem eqXrem : sr p "X" - p.SelS (sr p "X")
    = -(sr p "H'_offdiag" + sr p "H'_offdiag" * sr p "U'" + sr p "U_inv'" * sr p "B")
      - p.SelS (-(sr p "H'_offdiag" + sr p "H'_offdiag" * sr p "U'" + sr p "U_inv'" * sr p "B")) := by
  rw [← sr_A p R, ← sr_GB p R]
  ext m a b
  simp only [map_sub, map_neg, map_add, Matrix.sub_apply, Matrix.neg_apply, Matrix.add_apply, coeff_SelS,
    coeff_sr]
  by_cases hk : p.keptE a.val b.val = true
  · simp [hk]
  · have hk' : p.keptE a.val b.val = false := by simpa using hk
    simp only [hk', Bool.false_eq_true, ↓reduceIte, sub_zero]
    by_cases hm : m = 0
    · subst hm
      have h1 : coeff 0 (sr p "H'_offdiag @ U'") = 0 := by rw [sr_A p R]; exact coeff0_mul p (F1_Ho p R) (F1_P p R)
      have h3 : coeff 0 (sr p "U_inv' @ B") = 0 := by rw [sr_GB p R]; exact coeff0_mul p (F1_G p R) (F1_B p R)
      rw [coeff_sr] at h1 h3
      rw [g0_X p R.wf R.tot _ (z0 p), g0_Ho p R.wf R.tot _ (z0 p), h1, h3]; simp
    · rw [g_X p R.wf R.tot _ (toList_all_nonzero m hm), hk']; simp

include R A in
theorem eqPrem : p.H0s * (sr p "U'" - p.SelS (sr p "U'")) - (sr p "U'" - p.SelS (sr p "U'")) * p.H0s
    = (sr p "X" - sr p "H'_diag" * sr p "U'" + sr p "U'" * sr p "H'_diag")
      - p.SelS (sr p "X" - sr p "H'_diag" * sr p "U'" + sr p "U'" * sr p "H'_diag") := by
  rw [← sr_HdP p R, ← sr_PHd p R]
  ext m a b
  simp only [map_sub, map_add, Matrix.sub_apply, Matrix.add_apply, coeff_SelS, coeff_H0s_mul, coeff_mul_H0s,
    coeff_sr]
  by_cases hk : p.keptE a.val b.val = true
  · simp [hk]
  · have hk' : p.keptE a.val b.val = false := by simpa using hk
    simp only [hk', Bool.false_eq_true, ↓reduceIte, sub_zero]
    by_cases hm : m = 0
    · subst hm
      have h1 : coeff 0 (sr p "H'_diag @ U'") = 0 := by rw [sr_HdP p R]; exact coeff0_mul p (F1_Hd p R) (F1_P p R)
      have h3 : coeff 0 (sr p "U' @ H'_diag") = 0 := by rw [sr_PHd p R]; exact coeff0_mul p (F1_P p R) (F1_Hd p R)
      rw [coeff_sr] at h1 h3
      rw [g0_X p R.wf R.tot _ (z0 p), g0_P p R.wf R.tot _ (z0 p), h1, h3]; simp
    · have hg := A.gap a b hk'
      have hne := A.absGt_ne _ hg
      rw [g_P p R.wf R.tot _ (toList_all_nonzero m hm), hk']
      simp only [Bool.false_eq_true, ↓reduceIte, hg]
      field_simp
      ring

include R A in
theorem g0_Ht (n : List Nat) (hn : (n.all (· == 0)) = true) : g p "H_tilde" n = g p "H" n := by
  ext a b
  rw [g_entry p R.wf R.tot _ (by decide)]
  simp only [elemSem, kindOf_series (p.inputs_contains "H_tilde" (by decide)) nfind_Ht, ndef_Ht, startVal,
    Idx.isOrderZero, hn, ↓reduceIte]
  obtain ⟨v, hv⟩ := R.tot "H" (by decide) ⟨p.blk a.val, p.blk b.val, n⟩
  have hin : kindOf nonhermitian p.env "H" = .input := by simp [kindOf, env]
  have : v = p.env.input "H" ⟨p.blk a.val, p.blk b.val, n⟩ := Holds.det hv _ (Holds.input hin)
  show sem p.blocks _ (p.env.input "H" _) a b = mat p.blocks nonhermitian p.env "H" _ a b
  rw [mat, den_eq hv, this]

include R A in
theorem eqHt : sr p "H_tilde" = p.H0s + p.SelS (sr p "H'_diag" + sr p "B" + sr p "U_inv'" * sr p "B") := by
  rw [← sr_GB p R]
  ext m a b
  simp only [map_add, Matrix.add_apply, coeff_SelS, coeff_sr]
  by_cases hm : m = 0
  · subst hm
    have h3 : coeff 0 (sr p "U_inv' @ B") = 0 := by rw [sr_GB p R]; exact coeff0_mul p (F1_G p R) (F1_B p R)
    rw [coeff_sr] at h3
    rw [g0_Ht p R A _ (z0 p), A.H0_spec, g0_Hd p R.wf R.tot _ (z0 p), g0_B p R.wf R.tot _ (z0 p), h3]
    simp [H0s]
  · have h0 : coeff m p.H0s a b = 0 := by simp [H0s, coeff_C, hm]
    rw [h0, zero_add, g_Ht p R.wf R.tot _ (toList_all_nonzero m hm)]
    by_cases hk : p.keptE a.val b.val = true <;> simp [hk]

include R A in
/-- the input series is `H_0 + H'_S + H'_R` -/
theorem sr_H : sr p "H" = p.H0s + sr p "H'_diag" + sr p "H'_offdiag" := by
  ext m a b
  rw [map_add, map_add, Matrix.add_apply, Matrix.add_apply, coeff_sr, coeff_sr, coeff_sr]
  simp only [H0s, coeff_C]
  by_cases hm : m = 0
  · subst hm
    rw [A.H0_spec, g0_Hd p R.wf R.tot _ (z0 p), g0_Ho p R.wf R.tot _ (z0 p)]
    simp
  · rw [g_Hd p R.wf R.tot _ (toList_all_nonzero m hm), g_Ho p R.wf R.tot _ (toList_all_nonzero m hm)]
    by_cases hk : p.keptE a.val b.val = true <;> simp [hm, hk]

include R A h2 in
/-- the data of Theorem N for `nonhermitian` -/
noncomputable def hypN : TheoremN.Hyp (Sr (Fin p.nparams) K p.d) where
  two_cancel := two_cancel_series h2
  Sel := p.SelS
  SS := by
    intro x
    ext m : 1
    show maskMap p.kp (maskMap p.kp (coeff m x)) = maskMap p.kp (coeff m x)
    rw [maskMap_idem]
  H0 := p.H0s
  Hd := sr p "H'_diag"
  Ho := sr p "H'_offdiag"
  P := sr p "U'"
  G := sr p "U_inv'"
  X := sr p "X"
  B := sr p "B"
  Ht := sr p "H_tilde"
  H0sel := H0s_sel p A
  H0comm := H0comm p
  Hdsel := Hd_sel p R
  Hosel := Ho_sel p R
  eqPsel := eqPsel p R h2
  eqPrem := eqPrem p R A
  eqG := eqG p R
  eqXrem := eqXrem p R
  eqXsel := eqXsel p R
  eqB := eqB p R
  eqHt := eqHt p R A
  comm := comm p A

include R in
/-- order zero of `U` (and likewise of `U†`) is the identity matrix -/
theorem g0_one (x y : String) (hxm : x ∈ nhNames) (hx : x ≠ "H") (d : SeriesDef)
    (hf : findSeries nonhermitian x = some d)
    (hd : d = { name := x, start := .one, body := [.clause .default (.ser y)] })
    (hy0 : ∀ n, (n.all (· == 0)) = true → g p y n = 0)
    (n : List Nat) (hn : (n.all (· == 0)) = true) : g p x n = 1 := by
  ext a b
  rw [g_entry p R.wf R.tot _ hxm]
  simp only [elemSem, kindOf_series (p.inputs_contains x hx) hf, hd, startVal, Idx.isOrderZero, hn,
    ↓reduceIte]
  by_cases hab : p.blk a.val = p.blk b.val
  · have hbeq : (p.blk a.val == p.blk b.val) = true := by simp [hab]
    simp only [hbeq, ↓reduceIte, sem, blockId, Matrix.diagonal_apply, Matrix.one_apply]
  · have hbeq : (p.blk a.val == p.blk b.val) = false := by simp [hab]
    have hne : a ≠ b := fun e => hab (by rw [e])
    simp only [hbeq, Bool.false_eq_true, ↓reduceIte, bodySem, exprSem, zero_add, Matrix.one_apply, hne]
    rw [mat_at, hy0 n hn]; rfl

include R in
theorem sr_U : sr p "U" = 1 + sr p "U'" := by
  ext m : 1
  rw [map_add, coeff_sr, coeff_sr]
  by_cases hm : m = 0
  · subst hm
    rw [g0_one p R "U" "U'" (by decide) (by decide) _ nfind_U ndef_U (g0_P p R.wf R.tot) _ (z0 p),
      g0_P p R.wf R.tot _ (z0 p), add_zero]
    simp
  · rw [g_U p R.wf R.tot _ (toList_all_nonzero m hm), coeff_one, if_neg hm, zero_add]

include R in
theorem sr_Ud : sr p "U†" = 1 + sr p "U_inv'" := by
  ext m : 1
  rw [map_add, coeff_sr, coeff_sr]
  by_cases hm : m = 0
  · subst hm
    rw [g0_one p R "U†" "U_inv'" (by decide) (by decide) _ nfind_Ud ndef_Ud (g0_G p R.wf R.tot) _ (z0 p),
      g0_G p R.wf R.tot _ (z0 p), add_zero]
    simp
  · rw [g_Ud p R.wf R.tot _ (toList_all_nonzero m hm), coeff_one, if_neg hm, zero_add]

theorem SelS_idem (x : Sr (Fin p.nparams) K p.d) : p.SelS (p.SelS x) = p.SelS x := by
  ext m : 1
  show maskMap p.kp (maskMap p.kp (coeff m x)) = maskMap p.kp (coeff m x)
  rw [maskMap_idem]

include R A h2 in
theorem inv' : (1 + sr p "U_inv'") * (1 + sr p "U'") = 1 := TheoremN.inverse (hypN p R A h2)

include R A h2 in
theorem gauge' : p.SelS (sr p "U'" - sr p "U_inv'") = 0 := TheoremN.gauge (hypN p R A h2)

include R A h2 in
theorem main' : (1 + sr p "U_inv'") * (p.H0s + sr p "H'_diag" + sr p "H'_offdiag") * (1 + sr p "U'")
    = sr p "H_tilde" := TheoremN.main_identity (hypN p R A h2)

include R A h2 in
/-- **C05 (model, partial)**: `U_inv · H · U = H̃` to all orders -/
theorem C05_main : sr p "U†" * sr p "H" * sr p "U" = sr p "H_tilde" := by
  have h := TheoremN.main_identity (hypN p R A h2)
  rw [sr_U p R, sr_Ud p R, sr_H p R A]
  exact h

include R A h2 in
/-- `U_inv · U = 1` -/
theorem C05_left_inverse : sr p "U†" * sr p "U" = 1 := by
  rw [sr_U p R, sr_Ud p R]
  exact TheoremN.inverse (hypN p R A h2)

include R A h2 in
/-- `U · U_inv = 1`: the left inverse of a series `1 + (order ≥ 1)` is its right inverse -/
theorem C05_right_inverse : sr p "U" * sr p "U†" = 1 := by
  have hl := C05_left_inverse p R A h2
  rw [sr_U p R, sr_Ud p R] at hl ⊢
  set P := sr p "U'"
  set G := sr p "U_inv'"
  have hP : P ∈ p.filt.F 1 := F1_P p R
  have hG : G ∈ p.filt.F 1 := F1_G p R
  have hD : ∀ D : Sr (Fin p.nparams) K p.d, D = (1 + P) * (1 + G) - 1 → D = -(G * D + D * P + G * D * P) := by
    intro D hD
    have e : (1 + G) * D * (1 + P) = 0 := by
      rw [hD]
      calc (1 + G) * ((1 + P) * (1 + G) - 1) * (1 + P)
          = ((1 + G) * (1 + P)) * ((1 + G) * (1 + P)) - (1 + G) * (1 + P) := by noncomm_ring
        _ = 0 := by rw [hl]; noncomm_ring
    calc D = (1 + G) * D * (1 + P) - (G * D + D * P + G * D * P) := by noncomm_ring
      _ = -(G * D + D * P + G * D * P) := by rw [e]; abel
  have : (1 + P) * (1 + G) - 1 = 0 := by
    apply p.filt.eq_zero_of_contract
    intro k hk
    rw [hD _ rfl]
    apply AddSubgroup.neg_mem
    have a1 := p.filt.mul_left_mem hG hk
    have a2 := p.filt.mul_right_mem hk hP
    have a3 : G * ((1 + P) * (1 + G) - 1) * P ∈ p.filt.F (k + 1) :=
      p.filt.anti' (p.filt.mul_right_mem a1 hP)
    exact AddSubgroup.add_mem _ (AddSubgroup.add_mem _ a1 a2) a3
  exact sub_eq_zero.mp this

include R A h2 in
/-- gauge: `U − U_inv` has no kept entry -/
theorem C05_gauge (m : Fin p.nparams →₀ ℕ) (a b : Fin p.d) (hk : p.keptE a.val b.val = true) :
    coeff m (sr p "U" - sr p "U†") a b = 0 := by
  have hg := TheoremN.gauge (hypN p R A h2)
  have h1 : coeff m (p.SelS (sr p "U'" - sr p "U_inv'")) a b = 0 := by
    have e : p.SelS (sr p "U'" - sr p "U_inv'") = 0 := hg
    rw [e]; rfl
  rw [coeff_SelS, hk] at h1
  rw [sr_U p R, sr_Ud p R]
  have : (1 : Sr (Fin p.nparams) K p.d) + sr p "U'" - (1 + sr p "U_inv'") = sr p "U'" - sr p "U_inv'" := by abel
  rw [this]
  simpa using h1

include R A in
/-- the returned `H̃` has no eliminated entry -/
theorem Ht_elim (m : Fin p.nparams →₀ ℕ) (a b : Fin p.d) (hk : p.keptE a.val b.val = false) :
    coeff m (sr p "H_tilde") a b = 0 := by
  rw [coeff_sr]
  by_cases hm : m = 0
  · subst hm
    rw [g0_Ht p R A _ (z0 p), A.H0_spec]
    simp only [H0mat, Matrix.diagonal_apply]
    by_cases hab : a = b
    · subst hab; rw [A.diag_kept] at hk; cases hk
    · simp [hab]
  · rw [g_Ht p R.wf R.tot _ (toList_all_nonzero m hm)]; simp [hk]

end Nh
end Problem
end BlockDiag
end Pyma

#print axioms Pyma.BlockDiag.Problem.Nh.C05_main
#print axioms Pyma.BlockDiag.Problem.Nh.C05_right_inverse
