/-
Theorem H: the recurrences of `main`, read in a filtered *-ring, imply unitarity and U†HU = H̃.
`Base` holds everything except the two equations that the two-block optimisation replaces
(`eqW`, `eqY`); `Hyp` adds them.  `CoreH2` derives them from the optimised recurrences.
-/
import PymaVerif.Proofs.Filtered

namespace Pyma

namespace TheoremH
variable {S : Type*} [Ring S] [StarRing S]

/-- Data and hypotheses of the Hermitian core. `Q = U'†`, `P = U'`. -/
structure Base (S : Type*) [Ring S] [StarRing S] where
  Φ : Filtration S
  two_cancel : ∀ x y : S, 2 * x = 2 * y → x = y
  two_mem : ∀ k (x : S), 2 * x ∈ Φ.F k → x ∈ Φ.F k
  Sel : S →+ S
  Sstar : ∀ x, star (Sel x) = Sel (star x)
  H0 : S
  Hd : S
  Ho : S
  W : S
  V : S
  X : S
  B : S
  Y : S
  Ht : S
  H0star : star H0 = H0
  H0sel : Sel H0 = H0
  Hdstar : star Hd = Hd
  Hdsel : Sel Hd = Hd
  Hostar : star Ho = Ho
  Hosel : Sel Ho = 0
  Wstar : star W = W
  Vstar : star V = -V
  Wmem : W ∈ Φ.F 1
  Vmem : V ∈ Φ.F 1
  -- the recurrences (doubled where the code divides by ±2)
  eqX : X = B + Ho + Ho * (W + V)
  eqBsel : 2 * Sel B = Sel (-((W - V) * B - star ((W - V) * B) + Ho * (W + V) + star (Ho * (W + V)))
              + 2 * (V * Hd + star (V * Hd)))
  eqBrem : B - Sel B = (-((W - V) * B)) - Sel (-((W - V) * B))
  eqV : H0 * V - V * H0 = -((star Y - V * Hd - star (V * Hd)) - Sel (star Y - V * Hd - star (V * Hd)))
  eqHt : 2 * Ht = 2 * H0 + Sel (2 * Hd + (Ho * (W + V) + star (Ho * (W + V)))
              - ((W - V) * B + star ((W - V) * B)) - 2 * Y)

/-- the full hypotheses -/
structure Hyp (S : Type*) [Ring S] [StarRing S] extends Base S where
  eqW : 2 * W = -((W - V) * (W + V))
  eqY : 2 * Y = star X + X

section base
variable (h : Base S)

local notation "P" => (Base.W h + Base.V h)
local notation "Q" => (Base.W h - Base.V h)
local notation "HS" => (Base.H0 h + Base.Hd h)
local notation "A" => (Base.Ho h * (Base.W h + Base.V h))
local notation "C" => (Base.V h * Base.Hd h + star (Base.V h * Base.Hd h))
local notation "K2" => (-(Q * Base.B h - star (Q * Base.B h)) + (A - star A))
local notation "M" => (-(Q * Base.X h) + star (Base.X h) * P)
local notation "T" => (-(Q * Base.X h) + (star A + Q * A + Base.Ho h + A))
local notation "Xs" => (P * HS - HS * P)
local notation "G" => ((1 + Q) * (HS + Base.Ho h) * (1 + P))

theorem Sel_two (x : S) : h.Sel (2 * x) = 2 * h.Sel x := by
  rw [two_mul, two_mul, map_add]

theorem star_two_mul (x : S) : star (2 * x) = 2 * star x := by
  rw [two_mul, two_mul, star_add]

/-- `C = V Hd + (V Hd)† = [V, Hd]` -/
theorem C_eq : h.V * h.Hd + star (h.V * h.Hd) = h.V * h.Hd - h.Hd * h.V := by
  rw [star_mul, h.Hdstar, h.Vstar]; noncomm_ring

theorem starC : star C = C := by
  rw [star_add, star_star, add_comm]

theorem starHS : star HS = HS := by rw [star_add, h.H0star, h.Hdstar]

theorem selHS : h.Sel HS = HS := by rw [map_add, h.H0sel, h.Hdsel]

theorem starP : star P = Q := by
  simp [h.Wstar, h.Vstar, sub_eq_add_neg]

theorem starQ : star Q = P := by
  simp [h.Wstar, h.Vstar, sub_eq_add_neg]

theorem starA : star A = Q * h.Ho := by
  rw [star_mul, h.Hostar, starP]

theorem starQB : star (Q * h.B) = star h.B * P := by
  rw [star_mul, starQ]

theorem starK2 : star K2 = -K2 := by
  simp only [star_add, star_neg, star_sub, star_star]; abel

theorem twoSelX : 2 * h.Sel h.X = h.Sel K2 + 2 * h.Sel C := by
  have hX : h.Sel h.X = h.Sel h.B + h.Sel A := by
    rw [h.eqX, map_add, map_add, h.Hosel, add_zero]
  rw [hX, mul_add, h.eqBsel, ← Sel_two, ← Sel_two, ← map_add, ← map_add]
  congr 1
  rw [two_mul, two_mul]; abel

theorem twoSelXstar : 2 * h.Sel (star h.X) = -h.Sel K2 + 2 * h.Sel C := by
  have := congrArg star (twoSelX h)
  rw [star_two_mul, h.Sstar, star_add, star_two_mul, h.Sstar, h.Sstar, starC, starK2, map_neg] at this
  exact this

theorem B_eq : h.B = h.X - h.Ho - A := by
  rw [h.eqX]; abel

theorem starB : star h.B = star h.X - h.Ho - star A := by
  rw [B_eq, star_sub, star_sub, h.Hostar]

theorem starQA : star (Q * A) = Q * A := by
  rw [star_mul, starQ, star_mul, h.Hostar, starP]; noncomm_ring

theorem QB_eq : Q * h.B = Q * h.X - star A - Q * A := by
  rw [B_eq, starA]; noncomm_ring

theorem starQB_eq : star (Q * h.B) = star h.X * P - A - Q * A := by
  rw [starQB, starB, starA]; noncomm_ring

theorem K2_eq : K2 = M := by
  rw [starQB_eq, QB_eq]; abel

theorem remX : h.X - h.Sel h.X = T - h.Sel T := by
  have e1 : h.X - h.Sel h.X = (h.B - h.Sel h.B) + h.Ho + (A - h.Sel A) := by
    conv_lhs => rw [h.eqX]
    rw [map_add, map_add, h.Hosel]; abel
  rw [e1, h.eqBrem, QB_eq]
  simp only [map_add, map_neg, map_sub, h.Hosel]; abel

theorem starT : star T = -(star h.X * P) + (star A + Q * A + h.Ho + A) := by
  rw [star_add, star_neg, star_mul Q, starQ, star_add, star_add, star_add, star_star, starQA,
    h.Hostar]
  abel

theorem starT_sub : T - star T = M := by
  rw [starT]; abel

theorem selX_sub : h.Sel h.X - h.Sel (star h.X) = h.Sel M := by
  apply h.two_cancel
  rw [mul_sub, twoSelX, twoSelXstar, K2_eq, two_mul (h.Sel M)]; abel

theorem remX_sub : (h.X - h.Sel h.X) - (star h.X - h.Sel (star h.X)) = M - h.Sel M := by
  have e : star h.X - h.Sel (star h.X) = star T - h.Sel (star T) := by
    have := congrArg star (remX h)
    rwa [star_sub, star_sub, h.Sstar, h.Sstar] at this
  rw [e, remX, ← starT_sub, map_sub]; abel

theorem Zeq : h.X - star h.X = M := by
  have e : h.X - star h.X = (h.Sel h.X - h.Sel (star h.X))
      + ((h.X - h.Sel h.X) - (star h.X - h.Sel (star h.X))) := by abel
  rw [e, selX_sub, remX_sub]; abel

theorem starXs : star Xs = HS * Q - Q * HS := by
  rw [star_sub, star_mul, star_mul, starHS, starP]

theorem Zs_eq_of (hu : Q + P + Q * P = 0) : Xs - star Xs = -(Q * Xs) + star Xs * P := by
  rw [starXs]
  have e2 : P + Q = -(Q * P) := by
    have := hu
    calc P + Q = (Q + P + Q * P) - Q * P := by abel
      _ = -(Q * P) := by rw [this]; abel
  calc (P * HS - HS * P) - (HS * Q - Q * HS) = (P + Q) * HS - HS * (P + Q) := by noncomm_ring
    _ = -(Q * P) * HS - HS * (-(Q * P)) := by rw [e2]
    _ = -(Q * (P * HS - HS * P)) + (HS * Q - Q * HS) * P := by noncomm_ring

end base

section full
variable (h : Hyp S)

local notation "P" => (Base.W (Hyp.toBase h) + Base.V (Hyp.toBase h))
local notation "Q" => (Base.W (Hyp.toBase h) - Base.V (Hyp.toBase h))
local notation "HS" => (Base.H0 (Hyp.toBase h) + Base.Hd (Hyp.toBase h))
local notation "A" => (Base.Ho (Hyp.toBase h) * (Base.W (Hyp.toBase h) + Base.V (Hyp.toBase h)))
local notation "C" => (Base.V (Hyp.toBase h) * Base.Hd (Hyp.toBase h) + star (Base.V (Hyp.toBase h) * Base.Hd (Hyp.toBase h)))
local notation "K2" => (-(Q * Base.B (Hyp.toBase h) - star (Q * Base.B (Hyp.toBase h))) + (A - star A))
local notation "M" => (-(Q * Base.X (Hyp.toBase h)) + star (Base.X (Hyp.toBase h)) * P)
local notation "T" => (-(Q * Base.X (Hyp.toBase h)) + (star A + Q * A + Base.Ho (Hyp.toBase h) + A))
local notation "Xs" => (P * HS - HS * P)
local notation "G" => ((1 + Q) * (HS + Base.Ho (Hyp.toBase h)) * (1 + P))

theorem QP : Q * P = -(2 * h.W) := by
  rw [h.eqW]; noncomm_ring

theorem unit_sum : Q + P + Q * P = 0 := by
  rw [QP h]; noncomm_ring

theorem unitary : (1 + Q) * (1 + P) = 1 := by
  have := unit_sum h
  calc (1 + Q) * (1 + P) = 1 + (Q + P + Q * P) := by noncomm_ring
    _ = 1 := by rw [this, add_zero]

theorem starY : star h.Y = h.Y := by
  apply h.two_cancel
  rw [← star_two_mul, h.eqY, star_add, star_star, add_comm]

theorem SelY : h.Sel h.Y = h.Sel C := by
  apply h.two_cancel; apply h.two_cancel
  have e : 2 * h.Sel h.Y = h.Sel (star h.X) + h.Sel h.X := by
    rw [← Sel_two, h.eqY, map_add]
  rw [e, mul_add, twoSelX, twoSelXstar]; rw [two_mul (2 * h.Sel C)]; abel

theorem Y_comm : h.Y = h.V * HS - HS * h.V := by
  have e1 : h.H0 * h.V - h.V * h.H0 = -((h.Y - C) - h.Sel (h.Y - C)) := by
    have := h.eqV
    rw [starY] at this
    rw [this]; congr 2 <;> abel
  have e2 : h.Sel (h.Y - C) = 0 := by
    rw [map_sub, SelY, sub_self]
  rw [e2, sub_zero] at e1
  have e3 : h.V * HS - HS * h.V = -(h.H0 * h.V - h.V * h.H0) + (h.V * h.Hd - h.Hd * h.V) := by
    noncomm_ring
  rw [e3, e1, ← C_eq]; abel

theorem twoSelX' : 2 * h.Sel h.X = h.Sel M + 2 * h.Sel h.Y := by
  rw [twoSelX, K2_eq, SelY]

theorem Zs_eq : Xs - star Xs = -(Q * Xs) + star Xs * P := Zs_eq_of h.toBase (unit_sum h)

theorem herm_parts : h.X + star h.X = Xs + star Xs := by
  rw [starXs, add_comm h.X, ← h.eqY, Y_comm]; noncomm_ring

theorem X_eq_comm : h.X = Xs := by
  -- Δ := X - Xs is anti-Hermitian and contracts
  have hΔstar : star (h.X - Xs) = -(h.X - Xs) := by
    have := herm_parts h
    rw [star_sub]
    calc star h.X - star Xs = (h.X + star h.X) - (Xs + star Xs) - (h.X - Xs) := by abel
      _ = -(h.X - Xs) := by rw [this]; abel
  have h2 : 2 * (h.X - Xs) = -(Q * (h.X - Xs)) - (h.X - Xs) * P := by
    have e : 2 * (h.X - Xs) = (h.X - star h.X) - (Xs - star Xs) + ((h.X + star h.X) - (Xs + star Xs)) := by
      rw [two_mul]; abel
    rw [e, herm_parts, Zeq, Zs_eq, sub_self, add_zero]
    have : star h.X = star Xs - (h.X - Xs) := by
      have := hΔstar; rw [star_sub] at this
      calc star h.X = (star h.X - star Xs) + star Xs := by abel
        _ = star Xs - (h.X - Xs) := by rw [this]; abel
    rw [this]; noncomm_ring
  have : h.X - Xs = 0 := by
    apply h.Φ.eq_zero_of_contract
    intro k hk
    apply h.two_mem
    rw [h2]
    have hQ : Q ∈ h.Φ.F 1 := AddSubgroup.sub_mem _ h.Wmem h.Vmem
    have hP : P ∈ h.Φ.F 1 := AddSubgroup.add_mem _ h.Wmem h.Vmem
    exact AddSubgroup.sub_mem _ (AddSubgroup.neg_mem _ (h.Φ.mul_left_mem hQ hk))
      (h.Φ.mul_right_mem hk hP)
  exact sub_eq_zero.mp this

theorem G_eq : G = HS - h.X + T := by
  have hc : HS * P = P * HS - h.X := by rw [X_eq_comm h]; abel
  have hu := unit_sum h
  have e1 : (1 + Q) * HS * (1 + P) = HS - h.X - Q * h.X := by
    calc (1 + Q) * HS * (1 + P) = HS + Q * HS + (1 + Q) * (HS * P) := by noncomm_ring
      _ = HS + Q * HS + (1 + Q) * (P * HS - h.X) := by rw [hc]
      _ = HS + (Q + P + Q * P) * HS - h.X - Q * h.X := by noncomm_ring
      _ = HS - h.X - Q * h.X := by rw [hu]; noncomm_ring
  have e2 : (1 + Q) * h.Ho * (1 + P) = h.Ho + star A + A + Q * A := by
    rw [starA]; noncomm_ring
  calc G = (1 + Q) * HS * (1 + P) + (1 + Q) * h.Ho * (1 + P) := by noncomm_ring
    _ = HS - h.X + T := by rw [e1, e2]; abel

theorem remG : G - h.Sel G = 0 := by
  rw [G_eq, map_add, map_sub, selHS]
  have := remX h.toBase
  calc HS - h.X + T - (HS - h.Sel h.X + h.Sel T) = (T - h.Sel T) - (h.X - h.Sel h.X) := by abel
    _ = 0 := by rw [this, sub_self]

theorem twoSelG : 2 * h.Sel G = 2 * h.Ht := by
  rw [G_eq, map_add, map_sub, selHS, h.eqHt, mul_add, mul_sub, twoSelX', ← Sel_two h.toBase T, starQB_eq,
    QB_eq]
  have e : (2 : S) * HS = 2 * h.H0 + h.Sel (2 * h.Hd) := by
    rw [Sel_two, h.Hdsel, mul_add]
  rw [e]
  have : h.Sel (2 * h.Ho) = 0 := by rw [Sel_two, h.Hosel, mul_zero]
  -- collect everything under one Sel
  have key : 2 * h.Hd - M - 2 * h.Y + 2 * T
      = (2 * h.Hd + (A + star A) - (Q * h.X - star A - Q * A + (star h.X * P - A - Q * A)) - 2 * h.Y)
        + 2 * h.Ho := by
    rw [two_mul T, two_mul h.Ho]; abel
  calc 2 * h.H0 + h.Sel (2 * h.Hd) - (h.Sel M + 2 * h.Sel h.Y) + h.Sel (2 * T)
      = 2 * h.H0 + h.Sel (2 * h.Hd - M - 2 * h.Y + 2 * T) := by
        simp only [map_add, map_sub, Sel_two]; abel
    _ = _ := by rw [key, map_add, this, add_zero]

theorem main_identity : G = h.Ht := by
  apply h.two_cancel
  have : G = h.Sel G := by
    have := remG h
    exact sub_eq_zero.mp this
  rw [this, twoSelG]

/-- elimination and kept part, as the property states them -/
theorem eliminated_zero : G - h.Sel G = 0 := remG h

theorem kept_eq : h.Sel G = h.Ht := by
  have := main_identity h
  rw [← this]; exact (sub_eq_zero.mp (remG h)).symm

/-- `U U† = 1` from `U† U = 1` by contraction on `D = U U† - 1`. -/
theorem unitary' : (1 + P) * (1 + Q) = 1 := by
  have hu := unitary h
  have hD : ∀ D : S, D = (1 + P) * (1 + Q) - 1 → D = -(Q * D + D * P + Q * D * P) := by
    intro D hD
    have e : (1 + Q) * D * (1 + P) = 0 := by
      rw [hD]
      calc (1 + Q) * ((1 + P) * (1 + Q) - 1) * (1 + P)
          = ((1 + Q) * (1 + P)) * ((1 + Q) * (1 + P)) - (1 + Q) * (1 + P) := by noncomm_ring
        _ = 0 := by rw [hu]; noncomm_ring
    calc D = (1 + Q) * D * (1 + P) - (Q * D + D * P + Q * D * P) := by noncomm_ring
      _ = -(Q * D + D * P + Q * D * P) := by rw [e]; abel
  have hQ : Q ∈ h.Φ.F 1 := AddSubgroup.sub_mem _ h.Wmem h.Vmem
  have hP : P ∈ h.Φ.F 1 := AddSubgroup.add_mem _ h.Wmem h.Vmem
  have : (1 + P) * (1 + Q) - 1 = 0 := by
    apply h.Φ.eq_zero_of_contract
    intro k hk
    rw [hD _ rfl]
    apply AddSubgroup.neg_mem
    have a1 := h.Φ.mul_left_mem hQ hk
    have a2 := h.Φ.mul_right_mem hk hP
    have a3 : Q * ((1 + P) * (1 + Q) - 1) * P ∈ h.Φ.F (k + 1) := by
      have := h.Φ.mul_right_mem a1 hP
      exact h.Φ.anti' this
    exact AddSubgroup.add_mem _ (AddSubgroup.add_mem _ a1 a2) a3
  exact sub_eq_zero.mp this

end full

end TheoremH


end Pyma
#print axioms Pyma.TheoremH.main_identity
