/-
C06 (implicit mode) as an instance of ring-level naturality.

`p` is the explicit problem (all blocks given in the eigenbasis of `H_0`).  An *implicit environment* for
`p` is any environment `env'` over a carrier `B'` related to it by an isometry `E` (`E = 1_A ⊕ R_B` in
the implementation) such that

* its inputs are the embedded inputs `E·H_n·Eᴴ`;
* on off-diagonal blocks its Sylvester solver returns *a* solution of the projected Sylvester equation
  that lies in the range of the projector `E Eᴴ` and is supported on the block (what the direct solver
  computes, `Greens.direct_solve`) — no formula for it is assumed;
* on diagonal blocks (reached only for fully diagonalised, hence explicit, blocks) the solver and the
  masks commute with the embedding.

Then every series of `main` other than `U`, `U†` (whose `one` start has no counterpart in the implicit
carrier) takes, in the implicit environment, the embedded value of the explicit run.
-/
import PymaVerif.Proofs.Isometry
import PymaVerif.Proofs.SylvesterThm
import PymaVerif.Proofs.ProblemSupp
import PymaVerif.Proofs.MainTotal

namespace Pyma
namespace Dsl
open Generated

/-- `main` without the two series that start with the identity -/
def mainCertNoU : Cert :=
  { mainCert with names := BlockDiag.Problem.mainNames.filter fun x => x != "U" && x != "U†" }

theorem mainCertNoU_ok : mainCertNoU.ok main = true := by decide

theorem mainCertNoU_noOne : (mainCertNoU.names.all fun x =>
    match kindI main mainCertNoU.inputs x with
    | .series d => d.start != .one
    | _ => true) = true := by decide

end Dsl

namespace BlockDiag
open Dsl Generated
namespace Problem

variable {K : Type} [Field K] [StarRing K] [DecidableEq K] [Thresholds K]
attribute [local instance] Scalar.ofField
variable (p : Problem K) {B' : Blocks} (E : Matrix (Fin B'.d) (Fin p.blocks.d) K)

/-- the solver obligation for one off-diagonal block -/
theorem implicit_offdiag_solver (hgt : ∀ (x : K) (t : Rat), Thresholds.absGt x t = true → x ≠ 0)
    (hE : Isometry (B := p.blocks) E) (idx : Idx)
    (hsep : ∀ a b : Fin p.d, p.blk a.val = idx.i → p.blk b.val = idx.j →
      Thresholds.absGt (p.energy a.val - p.energy b.val) p.atol = true)
    (Y : MatK K p.blocks) (hY : SuppM p.blocks idx.i idx.j Y)
    (V' : MatK K B') (hrange : proj E * V' * proj E = V') (hsupp : SuppM B' idx.i idx.j V')
    (heq : isoM E p.H0m * V' - V' * isoM E p.H0m = isoM E Y) :
    V' = isoM E (p.solveSem Y idx) := by
  have hVs : SuppM p.blocks idx.i idx.j (p.solveSem Y idx) := by
    intro a b hn
    simp only [solveSem]
    have : p.inBlock idx.i idx.j a.val b.val = false := by
      simp only [inBlock, Bool.and_eq_false_iff, beq_eq_false_iff_ne]
      by_contra h
      push_neg at h
      exact hn ⟨h.1, h.2⟩
    simp [this]
  have hVeq : p.H0m * p.solveSem Y idx - p.solveSem Y idx * p.H0m = Y := by
    funext a b
    rw [p.solveSem_sylvester hgt Y idx a b]
    by_cases hin : p.blk a.val = idx.i ∧ p.blk b.val = idx.j
    · have h1 : p.inBlock idx.i idx.j a.val b.val = true := by simp [inBlock, hin.1, hin.2]
      rw [if_pos ⟨h1, hsep a b hin.1 hin.2⟩]
    · have h1 : ¬ (p.inBlock idx.i idx.j a.val b.val = true) := by
        simp only [inBlock, Bool.and_eq_true, beq_iff_eq]
        exact hin
      rw [if_neg (fun h => h1 h.1), hY a b hin]
  exact sylvester_embedded_unique hE (fun a => p.energy a.val) idx.i idx.j
    (fun a b ha hb h => by
      have := hgt _ _ (hsep a b ha hb)
      exact this (sub_eq_zero.mpr h))
    Y (p.solveSem Y idx) hVs hVeq V' hrange hsupp heq

/-- what makes `env'` an implicit-mode environment for `p` -/
structure ImplicitSpec (hwf : p.WF) (env' : Env K) (S' : EnvSem B' env') : Prop where
  iso : Isometry (B := p.blocks) E
  inputs : env'.inputs = p.env.inputs
  nblocks : env'.nblocks = p.env.nblocks
  flagName : env'.flagName = p.env.flagName
  flagIdx : env'.flagIdx = p.env.flagIdx
  offdiag_some : env'.offdiag.isSome = p.env.offdiag.isSome
  input : ∀ h idx, sem B' idx (env'.input h idx) = isoM E (sem p.blocks idx (p.env.input h idx))
  /-- energies of different blocks are separated beyond the tolerance -/
  sep : ∀ i j : Nat, i ≠ j → ∀ a b : Fin p.d, p.blk a.val = i → p.blk b.val = j →
    Thresholds.absGt (p.energy a.val - p.energy b.val) p.atol = true
  other_fn : ∀ f X idx, (f == "solve_sylvester") = false → S'.fnVal f X idx = 0
  /-- off-diagonal blocks: the solver returns *some* solution of the projected equation in the range -/
  solver_off : ∀ (Y : MatK K p.blocks) (idx : Idx), idx.i ≠ idx.j → SuppM p.blocks idx.i idx.j Y →
    proj E * S'.fnVal "solve_sylvester" (isoM E Y) idx * proj E = S'.fnVal "solve_sylvester" (isoM E Y) idx ∧
    SuppM B' idx.i idx.j (S'.fnVal "solve_sylvester" (isoM E Y) idx) ∧
    isoM E p.H0m * S'.fnVal "solve_sylvester" (isoM E Y) idx
      - S'.fnVal "solve_sylvester" (isoM E Y) idx * isoM E p.H0m = isoM E Y
  /-- diagonal blocks (fully diagonalised explicit blocks): solver and masks commute with the embedding -/
  solver_diag : ∀ (Y : MatK K p.blocks) (idx : Idx), idx.i = idx.j → SuppM p.blocks idx.i idx.j Y →
    S'.fnVal "solve_sylvester" (isoM E Y) idx = isoM E (p.solveSem Y idx)
  diag : ∀ X idx, SuppM p.blocks idx.i idx.j X → S'.diag (isoM E X) idx = isoM E ((p.envSem hwf).diag X idx)
  offdiag : ∀ X idx, SuppM p.blocks idx.i idx.j X →
    S'.offdiag (isoM E X) idx = isoM E ((p.envSem hwf).offdiag X idx)

variable {E}

theorem inter_implicit (hgt : ∀ (x : K) (t : Rat), Thresholds.absGt x t = true → x ≠ 0)
    (hwf : p.WF) (env' : Env K) (S' : EnvSem B' env') (h : p.ImplicitSpec E hwf env' S') :
    Inter (isoM E) p.env env' (p.envSem hwf) S' where
  mul := isoM_mul h.iso
  adj := isoM_adj
  smul := fun k X => isoM_smul _ X
  inputs := h.inputs
  nblocks := h.nblocks
  input := h.input
  fn_supp := p.fnVal_supp hwf
  fnVal := by
    intro f X idx hX
    show S'.fnVal f (isoM E X) idx = isoM E (if f == "solve_sylvester" then p.solveSem X idx else 0)
    by_cases hf : (f == "solve_sylvester") = true
    · have hf' : f = "solve_sylvester" := by simpa using hf
      subst hf'
      simp only [beq_self_eq_true, if_true]
      by_cases hij : idx.i = idx.j
      · exact h.solver_diag X idx hij hX
      · obtain ⟨h1, h2, h3⟩ := h.solver_off X idx hij hX
        exact p.implicit_offdiag_solver E hgt h.iso idx (h.sep idx.i idx.j hij) X hX _ h1 h2 h3
    · have hf' : (f == "solve_sylvester") = false := by simpa using hf
      rw [h.other_fn f _ idx hf']
      simp [hf']
  diag := h.diag
  offdiag := h.offdiag
  offdiag_some := h.offdiag_some
  flagName := h.flagName
  flagIdx := h.flagIdx

/-- **C06**: in an implicit environment every series of `main` except `U`, `U†` is the embedded explicit
one, at every block and order. -/
theorem C06_implicit (hgt : ∀ (x : K) (t : Rat), Thresholds.absGt x t = true → x ≠ 0)
    (hwf : p.WF) (hns : p.NoShared) (env' : Env K) (S' : EnvSem B' env')
    (h : p.ImplicitSpec E hwf env' S') (he' : EnvOK B' env') (het' : EnvTot mainCert env')
    (x : String) (hx : x ∈ mainCertNoU.names) (idx : Idx) :
    mat B' main env' x idx = isoM E (mat p.blocks main p.env x idx) := by
  have het : EnvTot mainCertNoU p.env := by
    have := p.envTot hns
    exact ⟨this.inputs, this.input_ne, this.fn_tot, this.diag_ne, this.offdiag_ne⟩
  have het'' : EnvTot mainCertNoU env' :=
    ⟨het'.inputs, het'.input_ne, het'.fn_tot, het'.diag_ne, het'.offdiag_ne⟩
  refine sem_natural (isoM E) (p.envSem hwf) S' (p.inter_implicit hgt hwf env' S' h) mainCertNoU
    mainCertNoU_ok (p.envOK hwf) he' het het'' ?_ (deg idx.n) x hx idx rfl
  rintro ⟨y, hy, d, hk, hs⟩
  have := List.all_eq_true.mp mainCertNoU_noOne y hy
  rw [hk] at this
  simp [hs] at this

/-! ## non-vacuity: the explicit environment is an implicit environment for the identity embedding -/

theorem isoM_one (X : MatK K p.blocks) :
    isoM (B := p.blocks) (B' := p.blocks) (1 : Matrix (Fin p.blocks.d) (Fin p.blocks.d) K) X = X := by
  simp [isoM_def]

theorem implicitSpec_refl (hgt : ∀ (x : K) (t : Rat), Thresholds.absGt x t = true → x ≠ 0) (hwf : p.WF)
    (hsep : ∀ i j : Nat, i ≠ j → ∀ a b : Fin p.d, p.blk a.val = i → p.blk b.val = j →
      Thresholds.absGt (p.energy a.val - p.energy b.val) p.atol = true) :
    p.ImplicitSpec (B' := p.blocks) (1 : Matrix (Fin p.blocks.d) (Fin p.blocks.d) K) hwf p.env (p.envSem hwf) where
  iso := by
    refine ⟨by simp, ?_⟩
    intro a' a h
    have : a' = a := by
      by_contra hne
      exact h (Matrix.one_apply_ne hne)
    rw [this]
  inputs := rfl
  nblocks := rfl
  flagName := rfl
  flagIdx := rfl
  offdiag_some := rfl
  input := by intro h idx; rw [isoM_one]
  sep := hsep
  other_fn := by
    intro f X idx hf
    show (if f == "solve_sylvester" then p.solveSem X idx else 0) = 0
    rw [hf]; rfl
  solver_off := by
    intro Y idx hij hY
    have hfn : (p.envSem hwf).fnVal "solve_sylvester" Y idx = p.solveSem Y idx := by
      show (if "solve_sylvester" == "solve_sylvester" then p.solveSem Y idx else 0) = _
      simp
    simp only [isoM_one, hfn]
    refine ⟨by simp [proj], ?_, ?_⟩
    · have := p.fnVal_supp hwf "solve_sylvester" Y idx hY
      rwa [hfn] at this
    · funext a b
      rw [p.solveSem_sylvester hgt Y idx a b]
      by_cases hin : p.blk a.val = idx.i ∧ p.blk b.val = idx.j
      · have h1 : p.inBlock idx.i idx.j a.val b.val = true := by simp [inBlock, hin.1, hin.2]
        rw [if_pos ⟨h1, hsep idx.i idx.j hij a b hin.1 hin.2⟩]
      · have h1 : ¬ (p.inBlock idx.i idx.j a.val b.val = true) := by
          simp only [inBlock, Bool.and_eq_true, beq_iff_eq]
          exact hin
        rw [if_neg (fun h => h1 h.1), hY a b hin]
  solver_diag := by
    intro Y idx _ _
    rw [isoM_one, isoM_one]
    show (if "solve_sylvester" == "solve_sylvester" then p.solveSem Y idx else 0) = _
    simp
  diag := by intro X idx _; rw [isoM_one, isoM_one]
  offdiag := by intro X idx _; rw [isoM_one, isoM_one]

end Problem
end BlockDiag
end Pyma
#print axioms Pyma.BlockDiag.Problem.C06_implicit
