/-
`Dsl.splits` enumerates exactly the antidiagonal of a multi-order, without repetition.
-/
import PymaVerif.Model.Dsl
import Mathlib.Data.Finsupp.Antidiagonal
import Mathlib.Data.Finsupp.Fintype
import Mathlib.Algebra.BigOperators.Group.Finset.Basic
import Mathlib.Data.List.Nodup
import Mathlib.Algebra.BigOperators.Finsupp.Fin

namespace Pyma
namespace Dsl

theorem mem_splits {n : List Nat} {a b : List Nat} :
    (a, b) ∈ splits n ↔ a.length = n.length ∧ b.length = n.length ∧
      ∀ i, i < n.length → a.getD i 0 + b.getD i 0 = n.getD i 0 := by
  induction n generalizing a b with
  | nil =>
    simp only [splits, List.mem_singleton, Prod.mk.injEq, List.length_nil, List.length_eq_zero_iff]
    constructor
    · rintro ⟨rfl, rfl⟩; exact ⟨rfl, rfl, fun i hi => absurd hi (Nat.not_lt_zero _)⟩
    · rintro ⟨h1, h2, _⟩; exact ⟨h1, h2⟩
  | cons x xs ih =>
    simp only [splits, List.mem_flatMap, List.mem_range, List.mem_map, Prod.exists]
    constructor
    · rintro ⟨k, hk, as, bs, hmem, heq⟩
      simp only [Prod.mk.injEq] at heq
      obtain ⟨rfl, rfl⟩ := heq
      obtain ⟨h1, h2, h3⟩ := ih.mp hmem
      refine ⟨by simp [h1], by simp [h2], ?_⟩
      intro i hi
      cases i with
      | zero => simp; omega
      | succ i =>
        simp only [List.getD_cons_succ]
        exact h3 i (by simpa using hi)
    · rintro ⟨h1, h2, h3⟩
      cases a with
      | nil => simp at h1
      | cons a0 as =>
        cases b with
        | nil => simp at h2
        | cons b0 bs =>
          have h0 := h3 0 (by simp)
          simp only [List.getD_cons_zero] at h0
          refine ⟨a0, by omega, as, bs, ?_, ?_⟩
          · apply ih.mpr
            refine ⟨by simpa using h1, by simpa using h2, ?_⟩
            intro i hi
            have := h3 (i+1) (by simpa using hi)
            simpa using this
          · simp only [Prod.mk.injEq, List.cons.injEq, true_and, and_true]
            omega

theorem nodup_splits (n : List Nat) : (splits n).Nodup := by
  induction n with
  | nil => simp [splits]
  | cons x xs ih =>
    simp only [splits]
    rw [List.nodup_flatMap]
    constructor
    · intro k _
      apply List.Nodup.map _ ih
      intro p q h
      obtain ⟨p1, p2⟩ := p
      obtain ⟨q1, q2⟩ := q
      simp only [Prod.mk.injEq, List.cons.injEq, true_and] at h
      simp [h.1, h.2]
    · apply List.Pairwise.imp _ (List.nodup_range)
      intro k l hkl
      simp only [Function.onFun, List.disjoint_left, List.mem_map, Prod.exists, not_exists, not_and]
      rintro ⟨a, b⟩ ⟨as, bs, _, heq⟩ cs ds _ heq2
      simp only [Prod.mk.injEq] at heq heq2
      obtain ⟨rfl, rfl⟩ := heq
      simp only [List.cons.injEq] at heq2
      exact hkl heq2.1.1.symm


/-- a multi-order as a list -/
def toList {k : Nat} (m : Fin k →₀ ℕ) : List Nat := List.ofFn fun i => m i

/-- a list as a multi-order with `k` parameters -/
noncomputable def ofList (k : Nat) (n : List Nat) : Fin k →₀ ℕ :=
  Finsupp.equivFunOnFinite.symm fun i => n.getD i.val 0

theorem ofList_apply (k : Nat) (n : List Nat) (i : Fin k) : ofList k n i = n.getD i.val 0 := rfl

theorem length_toList {k : Nat} (m : Fin k →₀ ℕ) : (toList m).length = k := by simp [toList]

theorem getD_toList {k : Nat} (m : Fin k →₀ ℕ) (i : Fin k) : (toList m).getD i.val 0 = m i := by
  simp [toList, List.getD_eq_getElem?_getD, List.getElem?_ofFn, i.isLt]

theorem ofList_toList {k : Nat} (m : Fin k →₀ ℕ) : ofList k (toList m) = m := by
  ext i; rw [ofList_apply, getD_toList]

theorem toList_ofList {k : Nat} {n : List Nat} (h : n.length = k) : toList (ofList k n) = n := by
  apply List.ext_getElem
  · simp [toList, h]
  · intro i h1 h2
    simp only [toList, List.getElem_ofFn, ofList_apply]
    rw [List.getD_eq_getElem?_getD, List.getElem?_eq_getElem h2, Option.getD_some]

theorem sum_splits {A : Type*} [AddCommMonoid A] {k : Nat} (m : Fin k →₀ ℕ)
    (f : List Nat → List Nat → A) :
    ((splits (toList m)).map fun p => f p.1 p.2).sum
      = ∑ p ∈ Finset.antidiagonal m, f (toList p.1) (toList p.2) := by
  have hnd := nodup_splits (toList m)
  rw [← List.sum_toFinset _ hnd]
  apply Finset.sum_bij' (fun p _ => (ofList k p.1, ofList k p.2)) (fun p _ => (toList p.1, toList p.2))
  · intro p hp
    rw [List.mem_toFinset] at hp
    obtain ⟨a, b⟩ := p
    obtain ⟨h1, h2, h3⟩ := mem_splits.mp hp
    rw [Finset.mem_antidiagonal]
    ext i
    simp only [Finsupp.add_apply, ofList_apply]
    rw [h3 i.val (by rw [length_toList]; exact i.isLt), getD_toList]
  · intro p hp
    rw [Finset.mem_antidiagonal] at hp
    rw [List.mem_toFinset]
    apply mem_splits.mpr
    refine ⟨by simp [length_toList], by simp [length_toList], ?_⟩
    intro i hi
    rw [length_toList] at hi
    have := congrArg (fun q => q ⟨i, hi⟩) hp
    simp only [Finsupp.add_apply] at this
    have e1 := getD_toList p.1 ⟨i, hi⟩
    have e2 := getD_toList p.2 ⟨i, hi⟩
    have e3 := getD_toList m ⟨i, hi⟩
    simp only at e1 e2 e3
    rw [e1, e2, e3, this]
  · intro p hp
    rw [List.mem_toFinset] at hp
    obtain ⟨a, b⟩ := p
    obtain ⟨h1, h2, _⟩ := mem_splits.mp hp
    rw [length_toList] at h1 h2
    simp only [toList_ofList h1, toList_ofList h2]
  · intro p _
    simp only [ofList_toList]
  · intro p hp
    rw [List.mem_toFinset] at hp
    obtain ⟨a, b⟩ := p
    obtain ⟨h1, h2, _⟩ := mem_splits.mp hp
    rw [length_toList] at h1 h2
    simp only [toList_ofList h1, toList_ofList h2]

end Dsl
end Pyma
#print axioms Pyma.Dsl.sum_splits
