/-
Theorem H for the two-block optimisation.  With a ℤ/2-grading (block-diagonal = even,
block-off-diagonal = odd, the latter split into its upper and lower part), the optimised
recurrences

  2 W = -Ev(Q P)            (off-diagonal blocks of `W` are not computed)
  Y   = Up(X†) + Lo(X)      (`X.adj` instead of `(X.adj + X)/2`, lower block by the fill)

imply the unoptimised ones (`eqW`, `eqY`), hence every conclusion of Theorem H.
All four steps are contraction arguments; no induction on the order.
-/
import PymaVerif.Proofs.CoreH

namespace Pyma
namespace TheoremH2
open TheoremH
variable {S : Type*} [Ring S] [StarRing S]

structure Hyp2 (S : Type*) [Ring S] [StarRing S] where
  Φ : Filtration S
  two_cancel : ∀ x y : S, 2 * x = 2 * y → x = y
  two_mem : ∀ k (x : S), 2 * x ∈ Φ.F k → x ∈ Φ.F k
  star_mem : ∀ k (x : S), x ∈ Φ.F k → star x ∈ Φ.F k
  -- the grading
  Ev : S →+ S
  Up : S →+ S
  Lo : S →+ S
  split : ∀ x, x = Ev x + Up x + Lo x
  Ev_Ev : ∀ x, Ev (Ev x) = Ev x
  Up_Ev : ∀ x, Up (Ev x) = 0
  Lo_Ev : ∀ x, Lo (Ev x) = 0
  Ev_star : ∀ x, star (Ev x) = Ev (star x)
  Up_star : ∀ x, star (Up x) = Lo (star x)
  Ev_mem : ∀ k x, x ∈ Φ.F k → Ev x ∈ Φ.F k
  Up_mem : ∀ k x, x ∈ Φ.F k → Up x ∈ Φ.F k
  Lo_mem : ∀ k x, x ∈ Φ.F k → Lo x ∈ Φ.F k
  ee : ∀ x y, Ev x = x → Ev y = y → Ev (x * y) = x * y
  oo : ∀ x y, Ev x = 0 → Ev y = 0 → Ev (x * y) = x * y
  eo : ∀ x y, Ev x = x → Ev y = 0 → Ev (x * y) = 0
  oe : ∀ x y, Ev x = 0 → Ev y = y → Ev (x * y) = 0
  -- the data
  H0 : S
  Hd : S
  Ho : S
  W : S
  V : S
  X : S
  B : S
  Y : S
  Ht : S
  H0star : star H0 = H0
  H0ev : Ev H0 = H0
  Hdstar : star Hd = Hd
  Hdev : Ev Hd = Hd
  Hostar : star Ho = Ho
  Hoodd : Ev Ho = 0
  Vstar : star V = -V
  Vodd : Ev V = 0
  Wmem : W ∈ Φ.F 1
  Vmem : V ∈ Φ.F 1
  -- the optimised recurrences
  eqW2 : 2 * W = -Ev ((W - V) * (W + V))
  Yev : Ev Y = 0
  Ylo : Lo Y = Lo X
  Yup : Up Y = Up (star X)
  -- the unchanged ones
  eqX : X = B + Ho + Ho * (W + V)
  eqBsel : 2 * Ev B = Ev (-((W - V) * B - star ((W - V) * B) + Ho * (W + V) + star (Ho * (W + V)))
              + 2 * (V * Hd + star (V * Hd)))
  eqBrem : B - Ev B = (-((W - V) * B)) - Ev (-((W - V) * B))
  eqV : H0 * V - V * H0 = -((star Y - V * Hd - star (V * Hd)) - Ev (star Y - V * Hd - star (V * Hd)))
  eqHt : 2 * Ht = 2 * H0 + Ev (2 * Hd + (Ho * (W + V) + star (Ho * (W + V)))
              - ((W - V) * B + star ((W - V) * B)) - 2 * Y)

variable (h : Hyp2 S)

theorem Ev_two (x : S) : h.Ev (2 * x) = 2 * h.Ev x := by
  rw [two_mul, two_mul, map_add]

theorem star_two (x : S) : star (2 * x) = 2 * star x := by
  rw [two_mul, two_mul, star_add]

theorem Lo_star (x : S) : star (h.Lo x) = h.Up (star x) := by
  have := h.Up_star (star x)
  rw [star_star] at this
  rw [← this, star_star]

/-- step 1: `W` is even -/
theorem Wev : h.Ev h.W = h.W := by
  apply h.two_cancel
  rw [← Ev_two, h.eqW2, map_neg, h.Ev_Ev]

/-- step 2: `W` is Hermitian -/
theorem Wstar : star h.W = h.W := by
  have key : 2 * (h.W - star h.W) = -h.Ev (h.W * (h.W - star h.W) + (h.W - star h.W) * star h.W
      + (h.W - star h.W) * h.V - h.V * (h.W - star h.W)) := by
    have e1 : 2 * star h.W = -h.Ev ((star h.W - h.V) * (star h.W + h.V)) := by
      rw [← star_two, h.eqW2, star_neg, h.Ev_star, star_mul, star_sub, star_add, h.Vstar]
      congr 2; noncomm_ring
    have e3 : (h.W - h.V) * (h.W + h.V) - (star h.W - h.V) * (star h.W + h.V)
        = h.W * (h.W - star h.W) + (h.W - star h.W) * star h.W
          + (h.W - star h.W) * h.V - h.V * (h.W - star h.W) := by noncomm_ring
    calc 2 * (h.W - star h.W) = 2 * h.W - 2 * star h.W := mul_sub _ _ _
      _ = -h.Ev ((h.W - h.V) * (h.W + h.V)) - -h.Ev ((star h.W - h.V) * (star h.W + h.V)) := by
          rw [e1, ← h.eqW2]
      _ = -h.Ev ((h.W - h.V) * (h.W + h.V) - (star h.W - h.V) * (star h.W + h.V)) := by
          rw [map_sub]; abel
      _ = _ := by rw [e3]
  have : h.W - star h.W = 0 := by
    apply h.Φ.eq_zero_of_contract
    intro k hk
    apply h.two_mem
    rw [key]
    apply AddSubgroup.neg_mem
    apply h.Ev_mem
    have hWs : star h.W ∈ h.Φ.F 1 := h.star_mem _ _ h.Wmem
    exact AddSubgroup.sub_mem _ (AddSubgroup.add_mem _ (AddSubgroup.add_mem _
      (h.Φ.mul_left_mem h.Wmem hk) (h.Φ.mul_right_mem hk hWs)) (h.Φ.mul_right_mem hk h.Vmem))
      (h.Φ.mul_left_mem h.Vmem hk)
  exact (sub_eq_zero.mp this).symm

theorem EvQP : h.Ev ((h.W - h.V) * (h.W + h.V)) = h.W * h.W - h.V * h.V := by
  have e : (h.W - h.V) * (h.W + h.V) = h.W * h.W + h.W * h.V - h.V * h.W - h.V * h.V := by noncomm_ring
  rw [e, map_sub, map_sub, map_add, h.ee _ _ (Wev h) (Wev h), h.eo _ _ (Wev h) h.Vodd,
    h.oe _ _ h.Vodd (Wev h), h.oo _ _ h.Vodd h.Vodd]
  abel

/-- step 3: `[W, V] = 0`, hence the unoptimised equation of `W` -/
theorem WV_comm : h.W * h.V - h.V * h.W = 0 := by
  have e2 : 2 * h.W = -(h.W * h.W - h.V * h.V) := by rw [h.eqW2, EvQP]
  have key : 2 * (h.W * h.V - h.V * h.W) =
      -(h.W * (h.W * h.V - h.V * h.W) + (h.W * h.V - h.V * h.W) * h.W) := by
    calc 2 * (h.W * h.V - h.V * h.W) = (2 * h.W) * h.V - h.V * (2 * h.W) := by
          simp only [two_mul]; noncomm_ring
      _ = -(h.W * h.W - h.V * h.V) * h.V - h.V * (-(h.W * h.W - h.V * h.V)) := by rw [e2]
      _ = _ := by noncomm_ring
  apply h.Φ.eq_zero_of_contract
  intro k hk
  apply h.two_mem
  rw [key]
  exact AddSubgroup.neg_mem _ (AddSubgroup.add_mem _ (h.Φ.mul_left_mem h.Wmem hk)
    (h.Φ.mul_right_mem hk h.Wmem))

theorem eqW : 2 * h.W = -((h.W - h.V) * (h.W + h.V)) := by
  have e : (h.W - h.V) * (h.W + h.V) = (h.W * h.W - h.V * h.V) + (h.W * h.V - h.V * h.W) := by
    noncomm_ring
  rw [e, WV_comm, add_zero, h.eqW2, EvQP]

/-- the unoptimised data without `eqY` -/
def toBase : Base S where
  Φ := h.Φ
  two_cancel := h.two_cancel
  two_mem := h.two_mem
  Sel := h.Ev
  Sstar := h.Ev_star
  H0 := h.H0
  Hd := h.Hd
  Ho := h.Ho
  W := h.W
  V := h.V
  X := h.X
  B := h.B
  Y := h.Y
  Ht := h.Ht
  H0star := h.H0star
  H0sel := h.H0ev
  Hdstar := h.Hdstar
  Hdsel := h.Hdev
  Hostar := h.Hostar
  Hosel := h.Hoodd
  Wstar := Wstar h
  Vstar := h.Vstar
  Wmem := h.Wmem
  Vmem := h.Vmem
  eqX := h.eqX
  eqBsel := h.eqBsel
  eqBrem := h.eqBrem
  eqV := h.eqV
  eqHt := h.eqHt

local notation "P" => (Hyp2.W h + Hyp2.V h)
local notation "Q" => (Hyp2.W h - Hyp2.V h)
local notation "HS" => (Hyp2.H0 h + Hyp2.Hd h)
local notation "Xs" => (P * HS - HS * P)

theorem unit_sum : Q + P + Q * P = 0 := by
  have := eqW h
  calc Q + P + Q * P = 2 * h.W + Q * P := by rw [two_mul]; abel
    _ = 0 := by rw [this]; abel

/-- step 4: `Y` is Hermitian (by the fill) -/
theorem starY : star h.Y = h.Y := by
  have e : h.Y = h.Up (star h.X) + h.Lo h.X := by
    conv_lhs => rw [h.split h.Y, h.Yev, h.Ylo, h.Yup, zero_add]
  rw [e, star_add, h.Up_star, Lo_star, star_star, add_comm]

theorem HSev : h.Ev HS = HS := by rw [map_add, h.H0ev, h.Hdev]
theorem HSstar : star HS = HS := by rw [star_add, h.H0star, h.Hdstar]

/-- step 5: `Y = [V, H_0 + H'_S]` from the Sylvester equation -/
theorem Y_comm : h.Y = h.V * HS - HS * h.V := by
  have hC : h.V * h.Hd + star (h.V * h.Hd) = h.V * h.Hd - h.Hd * h.V := by
    rw [star_mul, h.Hdstar, h.Vstar]; noncomm_ring
  have hev : h.Ev (star h.Y - h.V * h.Hd - star (h.V * h.Hd)) = 0 := by
    have : star h.Y - h.V * h.Hd - star (h.V * h.Hd) = h.Y - (h.V * h.Hd - h.Hd * h.V) := by
      rw [starY, ← hC]; abel
    rw [this, map_sub, map_sub, h.Yev, h.oe _ _ h.Vodd h.Hdev, h.eo _ _ h.Hdev h.Vodd]; abel
  have e1 := h.eqV
  rw [hev, sub_zero, starY] at e1
  have e3 : h.V * HS - HS * h.V = -(h.H0 * h.V - h.V * h.H0) + (h.V * h.Hd - h.Hd * h.V) := by
    noncomm_ring
  rw [e3, e1, ← hC]; abel

theorem Xs_eq : Xs = (h.W * HS - HS * h.W) + h.Y := by
  rw [Y_comm]; noncomm_ring

theorem WHS_ev : h.Ev (h.W * HS - HS * h.W) = h.W * HS - HS * h.W := by
  rw [map_sub, h.ee _ _ (Wev h) (HSev h), h.ee _ _ (HSev h) (Wev h)]

theorem starXs : star Xs = -(h.W * HS - HS * h.W) + h.Y := by
  rw [Xs_eq, star_add, starY, star_sub, star_mul, star_mul, HSstar, Wstar]; abel

/-- the even part of `X` is anti-Hermitian -/
theorem EvX_anti : h.Ev h.X + h.Ev (star h.X) = 0 := by
  have b := toBase h
  have e1 := twoSelX (toBase h)
  have e2 := twoSelXstar (toBase h)
  have hC : (toBase h).Sel ((toBase h).V * (toBase h).Hd + star ((toBase h).V * (toBase h).Hd)) = 0 := by
    show h.Ev (h.V * h.Hd + star (h.V * h.Hd)) = 0
    have : h.V * h.Hd + star (h.V * h.Hd) = h.V * h.Hd - h.Hd * h.V := by
      rw [star_mul, h.Hdstar, h.Vstar]; noncomm_ring
    rw [this, map_sub, h.oe _ _ h.Vodd h.Hdev, h.eo _ _ h.Hdev h.Vodd, sub_zero]
  rw [hC, mul_zero, add_zero] at e1 e2
  apply h.two_cancel
  rw [mul_add, mul_zero]
  show 2 * (toBase h).Sel (toBase h).X + 2 * (toBase h).Sel (star (toBase h).X) = 0
  rw [e1, e2]; abel

/-- step 6: `X` is the true commutator -/
theorem X_eq_comm : h.X = Xs := by
  -- Δ := X - Xs
  have hZ : (h.X - Xs) - star (h.X - Xs) = -(Q * (h.X - Xs)) + star (h.X - Xs) * P := by
    have z1 : h.X - star h.X = -(Q * h.X) + star h.X * P := Zeq (toBase h)
    have z2 : Xs - star Xs = -(Q * Xs) + star Xs * P := Zs_eq_of (toBase h) (unit_sum h)
    rw [star_sub]
    calc h.X - Xs - (star h.X - star Xs) = (h.X - star h.X) - (Xs - star Xs) := by abel
      _ = _ := by rw [z1, z2]; noncomm_ring
  have hLo : h.Lo (h.X - Xs) = 0 := by
    rw [map_sub, Xs_eq, map_add, ← WHS_ev, h.Lo_Ev, zero_add, h.Ylo, sub_self]
  have hEv : h.Ev (star (h.X - Xs)) = -h.Ev (h.X - Xs) := by
    have e1 := EvX_anti h
    have e2 : h.Ev Xs + h.Ev (star Xs) = 0 := by
      rw [← map_add, starXs, Xs_eq]
      have : h.W * HS - HS * h.W + h.Y + (-(h.W * HS - HS * h.W) + h.Y) = 2 * h.Y := by
        rw [two_mul]; abel
      rw [this, Ev_two, h.Yev, mul_zero]
    rw [star_sub, map_sub, map_sub]
    have a1 : h.Ev (star h.X) = -h.Ev h.X := eq_neg_of_add_eq_zero_right e1
    have a2 : h.Ev (star Xs) = -h.Ev Xs := eq_neg_of_add_eq_zero_right e2
    rw [a1, a2]; abel
  have : h.X - Xs = 0 := by
    apply h.Φ.eq_zero_of_contract
    intro k hk
    have hs : star (h.X - Xs) ∈ h.Φ.F k := h.star_mem _ _ hk
    have hQ : Q ∈ h.Φ.F 1 := AddSubgroup.sub_mem _ h.Wmem h.Vmem
    have hP : P ∈ h.Φ.F 1 := AddSubgroup.add_mem _ h.Wmem h.Vmem
    have hR : -(Q * (h.X - Xs)) + star (h.X - Xs) * P ∈ h.Φ.F (k+1) :=
      AddSubgroup.add_mem _ (AddSubgroup.neg_mem _ (h.Φ.mul_left_mem hQ hk)) (h.Φ.mul_right_mem hs hP)
    rw [← hZ] at hR
    -- even part
    have hE : h.Ev (h.X - Xs) ∈ h.Φ.F (k+1) := by
      apply h.two_mem
      have := h.Ev_mem _ _ hR
      rw [map_sub, hEv] at this
      have e : 2 * h.Ev (h.X - Xs) = h.Ev (h.X - Xs) - -h.Ev (h.X - Xs) := by rw [two_mul]; abel
      rw [e]; exact this
    -- upper part, through the lower part of the adjoint
    have hU : h.Up (h.X - Xs) ∈ h.Φ.F (k+1) := by
      have := h.Lo_mem _ _ hR
      rw [map_sub, hLo, zero_sub, ← h.Up_star] at this
      have h1 := AddSubgroup.neg_mem _ this
      rw [neg_neg] at h1
      have h2 := h.star_mem _ _ h1
      rwa [star_star] at h2
    rw [h.split (h.X - Xs), hLo, add_zero]
    exact AddSubgroup.add_mem _ hE hU
  exact sub_eq_zero.mp this

theorem eqY : 2 * h.Y = star h.X + h.X := by
  have hx := X_eq_comm h
  have e : star h.X + h.X = star Xs + Xs := by rw [← hx]
  rw [e, starXs, Xs_eq, two_mul]; abel

/-- the optimised recurrences imply the hypotheses of Theorem H -/
def toHyp : Hyp S where
  toBase := toBase h
  eqW := eqW h
  eqY := eqY h

theorem main_identity :
    (1 + Q) * (HS + h.Ho) * (1 + P) = h.Ht := TheoremH.main_identity (toHyp h)

theorem unitary : (1 + Q) * (1 + P) = 1 := TheoremH.unitary (toHyp h)
theorem unitary' : (1 + P) * (1 + Q) = 1 := TheoremH.unitary' (toHyp h)

end TheoremH2
end Pyma
#print axioms Pyma.TheoremH2.main_identity
