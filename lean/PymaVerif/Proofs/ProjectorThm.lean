/-
C17: the complement projector equals the dense matrix `1 - R L†` under every operation.
-/
import PymaVerif.Model.Projector
import PymaVerif.Proofs.MatBridge
import Mathlib.LinearAlgebra.Matrix.ConjTranspose
import Mathlib.Data.Matrix.Mul
import Mathlib.Tactic.Abel

namespace Pyma
namespace Projector

variable {K : Type} [Field K] [StarRing K] [DecidableEq K] [Thresholds K]
attribute [local instance] Scalar.ofField

variable {n m : Nat} (P : Proj K n m)

/-- the right / left vectors as Mathlib matrices -/
def Rm : Matrix (Fin n) (Fin m) K := fun a c => P.R a.val c.val
def Lm : Matrix (Fin n) (Fin m) K := fun a c => P.L a.val c.val

/-- the dense matrix the projector stands for -/
def dense : Matrix (Fin n) (Fin n) K := 1 - Rm P * (Lm P).conjTranspose

theorem sumRange_eq (k : Nat) (f : Nat → K) : sumRange k f = ∑ c : Fin k, f c.val :=
  Mat.foldl_range_eq_sum k f

theorem apply_eq (v : Fin n → K) (a : Fin n) :
    apply P (fun b => if h : b < n then v ⟨b, h⟩ else 0) a.val = (dense P).mulVec v a := by
  simp only [apply, dense, Matrix.sub_mulVec, Matrix.one_mulVec, sumRange_eq, Pi.sub_apply]
  congr 1
  · simp
  · rw [← Matrix.mulVec_mulVec]
    simp only [Matrix.mulVec, dotProduct, Rm, Lm, Matrix.conjTranspose_apply]
    apply Finset.sum_congr rfl
    intro c _
    congr 1
    apply Finset.sum_congr rfl
    intro b _
    simp
    left; rfl

theorem applyLeft_eq (v : Fin n → K) (a : Fin n) :
    applyLeft P (fun b => if h : b < n then v ⟨b, h⟩ else 0) a.val
      = (dense P).conjTranspose.mulVec v a := by
  simp only [applyLeft, dense, Matrix.conjTranspose_sub, Matrix.conjTranspose_one,
    Matrix.conjTranspose_mul, Matrix.conjTranspose_conjTranspose, Matrix.sub_mulVec,
    Matrix.one_mulVec, sumRange_eq, Pi.sub_apply]
  congr 1
  · simp
  · rw [← Matrix.mulVec_mulVec]
    simp only [Matrix.mulVec, dotProduct, Rm, Lm, Matrix.conjTranspose_apply]
    apply Finset.sum_congr rfl
    intro c _
    congr 1
    apply Finset.sum_congr rfl
    intro b _
    simp
    left; rfl

theorem dense_adjoint : dense (adjoint P) = (dense P).conjTranspose := by
  simp only [dense, Matrix.conjTranspose_sub, Matrix.conjTranspose_one, Matrix.conjTranspose_mul,
    Matrix.conjTranspose_conjTranspose]
  rfl

theorem Rm_conjugate : Rm (conjugate P) = (Rm P).map star := rfl
theorem Lm_conjugate : Lm (conjugate P) = (Lm P).map star := rfl

theorem dense_conjugate : dense (conjugate P) = (dense P).map star := by
  ext a b
  simp only [dense, Rm_conjugate, Lm_conjugate, Matrix.sub_apply, Matrix.map_apply, star_sub,
    Matrix.mul_apply, Matrix.conjTranspose_apply, star_sum, star_mul', star_star]
  congr 1
  simp only [Matrix.one_apply]
  split <;> simp

theorem dense_transpose : dense (transpose P) = (dense P).transpose := by
  unfold transpose
  rw [dense_adjoint, dense_conjugate]
  ext a b
  simp only [Matrix.conjTranspose_apply, Matrix.map_apply, star_star, Matrix.transpose_apply]

/-- idempotent when the vectors are biorthonormal -/
theorem dense_idempotent (h : (Lm P).conjTranspose * Rm P = 1) : dense P * dense P = dense P := by
  simp only [dense]
  rw [Matrix.sub_mul, Matrix.mul_sub, Matrix.mul_sub, Matrix.one_mul, Matrix.mul_one, Matrix.one_mul]
  have : Rm P * (Lm P).conjTranspose * (Rm P * (Lm P).conjTranspose) = Rm P * (Lm P).conjTranspose := by
    rw [Matrix.mul_assoc, ← Matrix.mul_assoc (Lm P).conjTranspose, h, Matrix.one_mul]
  rw [this, sub_self, sub_zero]

end Projector
end Pyma
#print axioms Pyma.Projector.applyLeft_eq
#print axioms Pyma.Projector.dense_idempotent
