/-
Entry-level equations of `main` (continued): the series `V`.
-/
import PymaVerif.Proofs.MainBlock4

namespace Pyma
namespace BlockDiag
open Dsl Generated
namespace Problem

variable {K : Type} [Field K] [StarRing K] [DecidableEq K] [Thresholds K]
attribute [local instance] Scalar.ofField
variable (p : Problem K) (hwf : p.WF)

include hwf in
theorem g_V_lower (htot : p.Total) (n : List Nat) (hn : (n.all (· == 0)) = false) (a b : Fin p.d)
    (hgt : p.blk a.val > p.blk b.val) : p.g "V" n a b = -star (p.g "V" n b a) := by
  main_step p, hwf, htot, "V", find_V, def_V, hn
  simp only [hgt, ↓reduceIte, Matrix.add_apply, Matrix.zero_apply, zero_add, Matrix.neg_apply]
  rfl

theorem solve_entry (M : MatK K p.blocks) (n : List Nat) (a b : Fin p.d) :
    (p.envSem hwf).fnVal "solve_sylvester" M ⟨p.blk a.val, p.blk b.val, n⟩ a b =
      if Scalar.absGt (p.energy a.val - p.energy b.val) p.atol then
        M a b * (p.energy a.val - p.energy b.val)⁻¹ else 0 := by
  simp [envSem, solveSem, inBlock]

include hwf in
theorem g_V_upper (htot : p.Total) (n : List Nat) (hn : (n.all (· == 0)) = false) (a b : Fin p.d)
    (hle : ¬ p.blk a.val > p.blk b.val) :
    p.g "V" n a b =
      if (p.blk a.val != p.blk b.val) || p.elimIn a.val b.val then
        -(if Scalar.absGt (p.energy a.val - p.energy b.val) p.atol then
            (star (p.g "Yadj" n b a) - p.g "V @ H'_diag" n a b - star (p.g "V @ H'_diag" n b a))
              * (p.energy a.val - p.energy b.val)⁻¹ else 0)
      else 0 := by
  main_step p, hwf, htot, "V", find_V, def_V, hn
  simp only [hle, ↓reduceIte]
  by_cases hab : p.blk a.val = p.blk b.val
  · have hbne : (p.blk a.val != p.blk b.val) = false := by simp [hab]
    simp only [hbne, ↓reduceIte, Bool.false_eq_true, p.env_offdiag, Bool.false_or]
    by_cases hfd : fdIsEmpty p.fdEff = true
    · simp [hfd, p.elimIn_false_of_empty hfd]
    · simp only [hfd, Bool.false_eq_true, ↓reduceIte, Matrix.add_apply, Matrix.zero_apply, zero_add,
        p.offdiag_entry hwf _ _ _ _ a b rfl]
      cases p.elimIn a.val b.val
      · simp
      · simp only [↓reduceIte, Matrix.neg_apply, p.solve_entry hwf, Matrix.sub_apply]
        rfl
  · have hbne : (p.blk a.val != p.blk b.val) = true := by simp [hab]
    simp only [hbne, ↓reduceIte, Bool.true_or, Matrix.add_apply, Matrix.zero_apply, zero_add,
      Matrix.neg_apply, p.solve_entry hwf, Matrix.sub_apply]
    rfl

end Problem
end BlockDiag
end Pyma
