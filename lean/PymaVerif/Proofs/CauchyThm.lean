/-
C18, machine level: the script of `product_by_order` computes the pure fold `prodSpec` over the
(middle, order, order) triples, whatever the `in` tests answer (they may only say "absent" for
elements that are the `zero` sentinel).  Core Lean only.
-/
import PymaVerif.Model.Cauchy
import PymaVerif.Proofs.MachineThm

namespace Pyma
namespace Cauchy
open Machine Dsl

variable {K : Type} [Scalar K]

/-- the value `product_by_order` must return: a pure fold over the triples -/
def prodSpec (den : SId → Machine.Idx → SVal K) (first second : SId) (i j : Nat) (herm : Bool) :
    List (Nat × List Nat × List Nat) → SVal K → Option (SVal K)
  | [], acc => some acc
  | (m, na, nb) :: rest, acc =>
      if herm && lexGt na nb then prodSpec den first second i j herm rest acc
      else
        let l := den first (i :: m :: na)
        let r := den second (m :: j :: nb)
        if l.isZeroS || r.isZeroS then prodSpec den first second i j herm rest acc
        else match accumulate acc (term l r) (herm && na != nb) with
          | some a => prodSpec den first second i j herm rest a
          | none => none

theorem prodLoop_ok (S : Sys (SVal K)) (hz : S.isZero = SVal.isZeroS)
    (den : SId → Machine.Idx → SVal K) (first second : SId) (i j : Nat) (herm : Bool) :
    ∀ (ps : List (Nat × List Nat × List Nat)) (acc r : SVal K),
      prodSpec den first second i j herm ps acc = some r →
      ScriptOK S den (prodLoop first second i j herm ps acc) r := by
  intro ps
  induction ps with
  | nil =>
    intro acc r h
    simp only [prodSpec, Option.some.injEq] at h
    subst h
    exact .pure _
  | cons t rest ih =>
    intro acc r h
    obtain ⟨m, na, nb⟩ := t
    simp only [prodSpec] at h
    simp only [prodLoop]
    by_cases hskip : (herm && lexGt na nb) = true
    · simp only [hskip, ↓reduceIte] at h ⊢
      exact ih _ _ h
    · simp only [hskip, Bool.false_eq_true, ↓reduceIte] at h ⊢
      apply ScriptOK.contains
      intro b1 hb1
      cases b1 with
      | false =>
        have hl : (den first (i :: m :: na)).isZeroS = true := by rw [← hz]; exact hb1 rfl
        simp only [hl, Bool.true_or, ↓reduceIte] at h
        simp only [Bool.not_false, ↓reduceIte]
        exact ih _ _ h
      | true =>
        simp only [Bool.not_true, Bool.false_eq_true, ↓reduceIte]
        apply ScriptOK.contains
        intro b2 hb2
        cases b2 with
        | false =>
          have hr : (den second (m :: j :: nb)).isZeroS = true := by rw [← hz]; exact hb2 rfl
          simp only [hr, Bool.or_true, ↓reduceIte] at h
          simp only [Bool.not_false, ↓reduceIte]
          exact ih _ _ h
        | true =>
          simp only [Bool.not_true, Bool.false_eq_true, ↓reduceIte]
          -- both present: cost-ordered reads
          have finishOK : ∀ (hl : (den first (i :: m :: na)).isZeroS = false)
              (hr : (den second (m :: j :: nb)).isZeroS = false),
              ScriptOK S den
                (match accumulate acc (term (den first (i :: m :: na)) (den second (m :: j :: nb)))
                    (herm && na != nb) with
                  | some a => prodLoop first second i j herm rest a
                  | none => Script.fail (.user 99)) r := by
            intro hl hr
            simp only [hl, hr, Bool.or_self, Bool.false_eq_true, ↓reduceIte] at h
            split at h
            · exact ih _ _ h
            · cases h
          by_cases hcost : cost na ≤ cost nb
          · simp only [hcost, ↓reduceIte]
            apply ScriptOK.get
            by_cases hl : (den first (i :: m :: na)).isZeroS = true
            · simp only [hl, ↓reduceIte]
              simp only [hl, Bool.true_or, ↓reduceIte] at h
              exact ih _ _ h
            · simp only [hl, Bool.false_eq_true, ↓reduceIte]
              apply ScriptOK.get
              by_cases hr : (den second (m :: j :: nb)).isZeroS = true
              · simp only [hr, ↓reduceIte]
                simp only [hr, Bool.or_true, ↓reduceIte] at h
                exact ih _ _ h
              · simp only [hr, Bool.false_eq_true, ↓reduceIte]
                exact finishOK (by simpa using hl) (by simpa using hr)
          · simp only [hcost, ↓reduceIte]
            apply ScriptOK.get
            by_cases hr : (den second (m :: j :: nb)).isZeroS = true
            · simp only [hr, ↓reduceIte]
              simp only [hr, Bool.or_true, ↓reduceIte] at h
              exact ih _ _ h
            · simp only [hr, Bool.false_eq_true, ↓reduceIte]
              apply ScriptOK.get
              by_cases hl : (den first (i :: m :: na)).isZeroS = true
              · simp only [hl, ↓reduceIte]
                simp only [hl, Bool.true_or, ↓reduceIte] at h
                exact ih _ _ h
              · simp only [hl, Bool.false_eq_true, ↓reduceIte]
                exact finishOK (by simpa using hl) (by simpa using hr)

end Cauchy
end Pyma
#print axioms Pyma.Cauchy.prodLoop_ok
