/-
Totality of the relational semantics from a decidable certificate: if a program passes `certOK`
(a static dependency check with two rank functions, one for order zero and one for the other
orders) and the environment's primitives are total on non-`one` values, then every element of
every listed name has a derivation.  Core Lean only.
-/
import PymaVerif.Proofs.DslDen

namespace Pyma
namespace Dsl

variable {K : Type} [Scalar K]

/-! ## orders: degree and cost -/

def deg (n : List Nat) : Nat := n.sum

theorem isOrderZero_iff (idx : Idx) : idx.isOrderZero = true ↔ deg idx.n = 0 := by
  unfold Idx.isOrderZero deg
  induction idx.n with
  | nil => simp
  | cons x xs ih => simp only [List.all_cons, Bool.and_eq_true, ih, List.sum_cons]; simp

theorem splits_deg {n a b : List Nat} (h : (a, b) ∈ splits n) : deg a + deg b = deg n := by
  unfold deg
  induction n generalizing a b with
  | nil => simp [splits] at h; simp [h.1, h.2]
  | cons x xs ih =>
    simp only [splits, List.mem_flatMap, List.mem_range, List.mem_map, Prod.exists, Prod.mk.injEq] at h
    obtain ⟨k, hk, as, bs, hm, rfl, rfl⟩ := h
    have := ih hm
    simp only [List.sum_cons]; omega

theorem foldl_cost (l : List Nat) (acc : Nat) :
    l.foldl (fun acc x => acc * (x+1) * (x+1)) acc = acc * cost l := by
  unfold cost
  induction l generalizing acc with
  | nil => simp
  | cons x xs ih =>
    simp only [List.foldl_cons]
    rw [ih, ih (1 * (x+1) * (x+1))]
    simp [Nat.mul_assoc]

theorem cost_cons (x : Nat) (xs : List Nat) : cost (x :: xs) = (x+1) * (x+1) * cost xs := by
  show List.foldl _ _ _ = _
  simp only [List.foldl_cons]
  rw [foldl_cost]; simp

theorem cost_pos (n : List Nat) : 1 ≤ cost n := by
  induction n with
  | nil => simp [cost]
  | cons x xs ih => rw [cost_cons]; exact Nat.mul_pos (Nat.mul_pos (by omega) (by omega)) ih

theorem cost_of_deg_zero {n : List Nat} (h : deg n = 0) : cost n = 1 := by
  induction n with
  | nil => simp [cost]
  | cons x xs ih =>
    simp only [deg, List.sum_cons] at h
    have hx : x = 0 := by omega
    have := ih (by unfold deg; omega)
    rw [cost_cons, this, hx]

theorem cost_of_deg_pos {n : List Nat} (h : 0 < deg n) : 1 < cost n := by
  induction n with
  | nil => simp [deg] at h
  | cons x xs ih =>
    rw [cost_cons]
    simp only [deg, List.sum_cons] at h
    by_cases hx : x = 0
    · subst hx
      have := ih (by unfold deg; omega)
      simpa using this
    · have h1 : 2 ≤ x + 1 := by omega
      have h2 := cost_pos xs
      calc 1 < 2 * 2 * 1 := by omega
        _ ≤ (x+1) * (x+1) * cost xs := Nat.mul_le_mul (Nat.mul_le_mul h1 h1) h2

/-! ## value operations are total away from `one` -/

theorem vadd_tot {x y : SVal K} (hx : x ≠ .one) (hy : y ≠ .one) :
    ∃ w, vadd x y = .ok w ∧ w ≠ .one ∧ (x = .zero → y = .zero → w = .zero) := by
  cases x <;> cases y <;> simp_all [vadd, pure, Except.pure]

theorem vneg_tot {x : SVal K} (hx : x ≠ .one) :
    ∃ w, vneg x = .ok w ∧ w ≠ .one ∧ (x = .zero → w = .zero) := by
  cases x <;> simp_all [vneg, pure, Except.pure]

theorem vsub_tot {x y : SVal K} (hx : x ≠ .one) (hy : y ≠ .one) :
    ∃ w, vsub x y = .ok w ∧ w ≠ .one ∧ (x = .zero → y = .zero → w = .zero) := by
  obtain ⟨y', h1, h2, h3⟩ := vneg_tot hy
  obtain ⟨w, h4, h5, h6⟩ := vadd_tot hx h2
  refine ⟨w, ?_, h5, fun a b => h6 a (h3 b)⟩
  simp [vsub, h1, h4, bind, Except.bind]

theorem vdiv_tot {x : SVal K} (k : Int) (hx : x ≠ .one) :
    ∃ w, vdiv x k = .ok w ∧ w ≠ .one ∧ (x = .zero → w = .zero) := by
  cases x <;> simp_all [vdiv, pure, Except.pure]

theorem vadj_ne_one {x : SVal K} (hx : x ≠ .one) : vadj x ≠ .one := by
  cases x <;> simp_all [vadj]

theorem vmul_ne_one {x y : SVal K} (hx : x ≠ .one) (hy : y ≠ .one) : vmul x y ≠ .one := by
  cases x <;> cases y <;> simp_all [vmul]

theorem markerVal_tot {anti : Bool} {acc v : SVal K} (ha : acc ≠ .one) (hv : v ≠ .one) :
    ∃ w, markerVal anti acc v = .ok w ∧ w ≠ .one := by
  have hv' := vadj_ne_one hv
  cases anti
  · obtain ⟨w, h1, h2, _⟩ := vadd_tot ha hv'
    exact ⟨w, by simp [markerVal, h1, bind, Except.bind, pure, Except.pure], h2⟩
  · obtain ⟨v', h0, h0', _⟩ := vneg_tot hv'
    obtain ⟨w, h1, h2, _⟩ := vadd_tot ha h0'
    exact ⟨w, by simp [markerVal, h0, h1, bind, Except.bind], h2⟩

/-! ## the certificate -/

structure Cert where
  names : List String
  inputs : List String
  fns : List String
  rank0 : String → Nat
  rankT : String → Nat
  z0 : String → Bool
  one : String → Bool

namespace Cert
variable (c : Cert)

def rk (z : Bool) (x : String) : Nat := if z then c.rank0 x else c.rankT x

def refOK (z : Bool) (r : Nat) (y : String) : Bool :=
  c.names.contains y && !c.one y && decide (c.rk z y < r)

def exprOK (z : Bool) (r : Nat) : Expr → Bool
  | .ser y => c.refOK z r y
  | .adj y => c.refOK z r y
  | .neg e => exprOK z r e
  | .add a b => exprOK z r a && exprOK z r b
  | .sub a b => exprOK z r a && exprOK z r b
  | .divInt e _ => exprOK z r e
  | .callSer _ _ => false
  | .callExpr f e => c.fns.contains f && exprOK z r e
  | .zero => true
  | .ite _ t e => exprOK z r t && exprOK z r e

/-- expressions that evaluate to the `zero` sentinel when all their references do -/
def exprZ : Expr → Bool
  | .ser y => c.z0 y
  | .adj y => c.z0 y
  | .neg e => exprZ e
  | .add a b => exprZ a && exprZ b
  | .sub a b => exprZ a && exprZ b
  | .divInt e _ => exprZ e
  | .callSer _ _ => false
  | .callExpr _ _ => false
  | .zero => true
  | .ite _ t e => exprZ t && exprZ e

def stmtOK (z : Bool) (r : Nat) : Stmt → Bool
  | .marker _ => true
  | .clause _ e => c.exprOK z r e

def hasMarker : List Stmt → Bool
  | [] => false
  | .marker _ :: _ => true
  | _ :: rest => hasMarker rest

def pinned0 : Start → Bool
  | .zero => true
  | .input _ => true
  | _ => false

def z0Body : List Stmt → Bool
  | [.clause .default e] => c.exprZ e
  | _ => false

def seriesOK (d : SeriesDef) : Bool :=
  d.body.all (c.stmtOK false (c.rankT d.name)) &&
  (pinned0 d.start || d.body.all (c.stmtOK true (c.rank0 d.name))) &&
  (c.one d.name == (d.start == .one)) &&
  (!(hasMarker d.body) || !(c.one d.name)) &&
  (!(c.z0 d.name) || d.start == .zero || (d.start == .none && c.z0Body d.body))

def productOK (x a b : String) : Bool :=
  c.names.contains a && c.names.contains b && !c.one a && !c.one b && c.z0 a && c.z0 b &&
  decide (c.rank0 a < c.rank0 x) && !c.one x

def nameOK (p : Prog) (x : String) : Bool :=
  match kindI p c.inputs x with
  | .input => !c.one x && !c.z0 x
  | .series d => d.name == x && c.seriesOK d
  | .product a b => c.productOK x a b
  | .unknown => false

def ok (p : Prog) : Bool := c.names.all (c.nameOK p)

end Cert

/-- what the environment must provide -/
structure EnvTot (c : Cert) (env : Env K) : Prop where
  inputs : env.inputs = c.inputs
  input_ne : ∀ h idx, env.input h idx ≠ .one
  fn_tot : ∀ f, c.fns.contains f = true → ∀ v idx, v ≠ .one → ∃ w, env.fn f (.inr v) idx = .ok w ∧ w ≠ .one
  diag_ne : ∀ v idx, v ≠ .one → env.diag v idx ≠ .one
  offdiag_ne : ∀ od, env.offdiag = some od → ∀ v idx, v ≠ .one → od v idx ≠ .one

section
variable {p : Prog} {env : Env K} {c : Cert}

def Goal (p : Prog) (env : Env K) (c : Cert) (x : String) (idx : Idx) : Prop :=
  ∃ v, Den p env x idx v ∧ (c.one x = false → v ≠ .one) ∧
    (c.z0 x = true → idx.isOrderZero = true → v = .zero)

theorem kindOf_eq_kindI (he : env.inputs = c.inputs) (x : String) :
    kindOf p env x = kindI p c.inputs x := by
  unfold kindOf kindI; rw [he]

theorem swap_isOrderZero (idx : Idx) : idx.swap.isOrderZero = idx.isOrderZero := rfl

/-- expressions: total when every admissible reference is -/
theorem expr_total (he : EnvTot c env) (z : Bool) (r : Nat) (idx : Idx)
    (hrefs : ∀ y, c.refOK z r y = true → ∀ idx' : Idx, idx'.n = idx.n → Goal p env c y idx') :
    ∀ e, c.exprOK z r e = true →
      ∃ v, DenE p env e idx v ∧ v ≠ .one ∧ (c.exprZ e = true → idx.isOrderZero = true → v = .zero) := by
  intro e
  induction e with
  | ser y =>
    intro h
    obtain ⟨v, hd, h1, h2⟩ := hrefs y h idx rfl
    have hone : c.one y = false := by
      simp only [Cert.exprOK, Cert.refOK, Bool.and_eq_true, Bool.not_eq_true'] at h; exact h.1.2
    exact ⟨v, .ser hd, h1 hone, fun hz => h2 hz⟩
  | adj y =>
    intro h
    obtain ⟨v, hd, h1, h2⟩ := hrefs y h idx.swap rfl
    have hone : c.one y = false := by
      simp only [Cert.exprOK, Cert.refOK, Bool.and_eq_true, Bool.not_eq_true'] at h; exact h.1.2
    refine ⟨vadj v, .adj hd, vadj_ne_one (h1 hone), fun hz ho => ?_⟩
    rw [h2 hz (by rw [swap_isOrderZero]; exact ho)]; rfl
  | neg e ih =>
    intro h
    obtain ⟨v, hd, h1, h2⟩ := ih h
    obtain ⟨w, hw, hw1, hw2⟩ := vneg_tot h1
    exact ⟨w, .neg hd hw, hw1, fun hz ho => hw2 (h2 hz ho)⟩
  | add a b iha ihb =>
    intro h
    simp only [Cert.exprOK, Bool.and_eq_true] at h
    obtain ⟨x, hx, hx1, hx2⟩ := iha h.1
    obtain ⟨y, hy, hy1, hy2⟩ := ihb h.2
    obtain ⟨w, hw, hw1, hw2⟩ := vadd_tot hx1 hy1
    refine ⟨w, .add hx hy hw, hw1, fun hz ho => ?_⟩
    simp only [Cert.exprZ, Bool.and_eq_true] at hz
    exact hw2 (hx2 hz.1 ho) (hy2 hz.2 ho)
  | sub a b iha ihb =>
    intro h
    simp only [Cert.exprOK, Bool.and_eq_true] at h
    obtain ⟨x, hx, hx1, hx2⟩ := iha h.1
    obtain ⟨y, hy, hy1, hy2⟩ := ihb h.2
    obtain ⟨w, hw, hw1, hw2⟩ := vsub_tot hx1 hy1
    refine ⟨w, .sub hx hy hw, hw1, fun hz ho => ?_⟩
    simp only [Cert.exprZ, Bool.and_eq_true] at hz
    exact hw2 (hx2 hz.1 ho) (hy2 hz.2 ho)
  | divInt e k ih =>
    intro h
    obtain ⟨v, hd, h1, h2⟩ := ih h
    obtain ⟨w, hw, hw1, hw2⟩ := vdiv_tot k h1
    exact ⟨w, .divInt hd hw, hw1, fun hz ho => hw2 (h2 hz ho)⟩
  | callSer f x => intro h; simp [Cert.exprOK] at h
  | callExpr f e ih =>
    intro h
    simp only [Cert.exprOK, Bool.and_eq_true] at h
    obtain ⟨v, hd, h1, _⟩ := ih h.2
    obtain ⟨w, hw, hw1⟩ := he.fn_tot f h.1 v idx h1
    exact ⟨w, .callExpr hd hw, hw1, fun hz => by simp [Cert.exprZ] at hz⟩
  | zero => intro _; exact ⟨.zero, .zero, by simp, fun _ _ => rfl⟩
  | ite fl t e iht ihe =>
    intro h
    simp only [Cert.exprOK, Bool.and_eq_true] at h
    cases hf : evalFlag env idx fl
    · obtain ⟨v, hd, h1, h2⟩ := ihe h.2
      refine ⟨v, .iteF hf hd, h1, fun hz ho => ?_⟩
      simp only [Cert.exprZ, Bool.and_eq_true] at hz
      exact h2 hz.2 ho
    · obtain ⟨v, hd, h1, h2⟩ := iht h.1
      refine ⟨v, .iteT hf hd, h1, fun hz ho => ?_⟩
      simp only [Cert.exprZ, Bool.and_eq_true] at hz
      exact h2 hz.1 ho

/-- bodies: total when every clause expression is, and the element the marker copies from exists -/
theorem body_total (he : EnvTot c env) (self : String) (idx : Idx) :
    ∀ (stmts : List Stmt),
      (Cert.hasMarker stmts = true → idx.i > idx.j → ∃ v, Den p env self idx.swap v ∧ v ≠ .one) →
      (∀ cd e, Stmt.clause cd e ∈ stmts → ∃ v, DenE p env e idx v ∧ v ≠ .one) →
      ∀ acc : SVal K, acc ≠ .one → ∃ r, DenB p env self idx stmts acc r ∧ r ≠ .one := by
  intro stmts
  induction stmts with
  | nil => intro _ _ acc hacc; exact ⟨acc, .bnil, hacc⟩
  | cons s rest ih =>
    intro hself hE acc hacc
    have hrest : ∀ cd e, Stmt.clause cd e ∈ rest → ∃ v, DenE p env e idx v ∧ v ≠ .one :=
      fun cd e hm => hE cd e (List.mem_cons_of_mem _ hm)
    cases s with
    | marker anti =>
      by_cases hlow : idx.i > idx.j
      · obtain ⟨v, hv, hv1⟩ := hself rfl hlow
        obtain ⟨w, hw, hw1⟩ := markerVal_tot (anti := anti) hacc hv1
        exact ⟨w, .markerHit hlow hv hw, hw1⟩
      · obtain ⟨r, hr, hr1⟩ := ih (fun _ h => absurd h hlow) hrest acc hacc
        exact ⟨r, .markerMiss hlow hr, hr1⟩
    | clause cd e =>
      obtain ⟨v, hv, hv1⟩ := hE cd e (List.mem_cons_self)
      have ih := ih (fun hm => hself hm)
      cases cd with
      | default =>
        obtain ⟨a', ha, ha1, _⟩ := vadd_tot hacc hv1
        obtain ⟨r, hr, hr1⟩ := ih hrest a' ha1
        exact ⟨r, .default hv ha hr, hr1⟩
      | diagonal =>
        cases hc : (idx.i == idx.j)
        · obtain ⟨r, hr, hr1⟩ := ih hrest acc hacc
          exact ⟨r, .diagMiss hc hr, hr1⟩
        · obtain ⟨a', ha, ha1, _⟩ := vadd_tot hacc (he.diag_ne v idx hv1)
          obtain ⟨r, hr, hr1⟩ := ih hrest a' ha1
          exact ⟨r, .diagHit hc hv ha hr, hr1⟩
      | offdiagonal =>
        cases hc : (idx.i != idx.j)
        · cases ho : env.offdiag with
          | none =>
            obtain ⟨r, hr, hr1⟩ := ih hrest acc hacc
            exact ⟨r, .offSkip hc ho hr, hr1⟩
          | some od =>
            obtain ⟨a', ha, ha1, _⟩ := vadd_tot hacc (he.offdiag_ne od ho v idx hv1)
            obtain ⟨r, hr, hr1⟩ := ih hrest a' ha1
            exact ⟨r, .offWrap hc ho hv ha hr, hr1⟩
        · obtain ⟨a', ha, ha1, _⟩ := vadd_tot hacc hv1
          obtain ⟨r, hr, hr1⟩ := ih hrest a' ha1
          exact ⟨r, .offHit hc hv ha hr, hr1⟩
      | lower =>
        by_cases hlow : idx.i > idx.j
        · obtain ⟨a', ha, ha1, _⟩ := vadd_tot hacc hv1
          exact ⟨a', .lowerHit hlow hv ha, ha1⟩
        · obtain ⟨r, hr, hr1⟩ := ih hrest acc hacc
          exact ⟨r, .lowerMiss hlow hr, hr1⟩

/-- what is known about one (middle block, left order, right order) triple -/
def PairOK (p : Prog) (env : Env K) (a b : String) (idx : Idx) (t : Nat × List Nat × List Nat) : Prop :=
  (cost t.2.1 ≤ cost t.2.2 ∧ Den p env a ⟨idx.i, t.1, t.2.1⟩ .zero) ∨
  (¬ cost t.2.1 ≤ cost t.2.2 ∧ Den p env b ⟨t.1, idx.j, t.2.2⟩ .zero) ∨
  (∃ l r, Den p env a ⟨idx.i, t.1, t.2.1⟩ l ∧ Den p env b ⟨t.1, idx.j, t.2.2⟩ r ∧ l ≠ .one ∧ r ≠ .one)

theorem pairs_total (a b : String) (idx : Idx) :
    ∀ (ps : List (Nat × List Nat × List Nat)), (∀ t ∈ ps, PairOK p env a b idx t) →
      ∀ acc : SVal K, acc ≠ .one → ∃ r, DenP p env a b idx ps acc r ∧ r ≠ .one := by
  intro ps
  induction ps with
  | nil => intro _ acc hacc; exact ⟨acc, .pnil, hacc⟩
  | cons t rest ih =>
    intro hps acc hacc
    have hrest := fun t ht => hps t (List.mem_cons_of_mem _ ht)
    obtain ⟨m, na, nb⟩ := t
    obtain ⟨r0, hr0, hr0'⟩ := ih hrest acc hacc
    rcases hps _ (List.mem_cons_self) with ⟨hc, hl⟩ | ⟨hc, hr⟩ | ⟨l, r, hl, hr, hl1, hr1⟩
    · exact ⟨r0, .leftZero hc hl rfl hr0, hr0'⟩
    · exact ⟨r0, .rightZero hc hr rfl hr0, hr0'⟩
    · by_cases hc : cost na ≤ cost nb
      · cases hlz : l.isZeroS
        · cases hrz : r.isZeroS
          · obtain ⟨a', ha, ha1, _⟩ := vadd_tot hacc (vmul_ne_one hl1 hr1)
            obtain ⟨r1, hr1', hr1''⟩ := ih hrest a' ha1
            exact ⟨r1, .both hl hlz hr hrz ha hr1', hr1''⟩
          · exact ⟨r0, .leftThenRightZero hc hl hlz hr hrz hr0, hr0'⟩
        · exact ⟨r0, .leftZero hc hl hlz hr0, hr0'⟩
      · cases hrz : r.isZeroS
        · cases hlz : l.isZeroS
          · obtain ⟨a', ha, ha1, _⟩ := vadd_tot hacc (vmul_ne_one hl1 hr1)
            obtain ⟨r1, hr1', hr1''⟩ := ih hrest a' ha1
            exact ⟨r1, .both hl hlz hr hrz ha hr1', hr1''⟩
          · exact ⟨r0, .rightThenLeftZero hc hr hrz hl hlz hr0, hr0'⟩
        · exact ⟨r0, .rightZero hc hr hrz hr0, hr0'⟩

/-- all triples skipped on the left factor: the accumulator is returned unchanged -/
theorem pairs_skip (a b : String) (idx : Idx) :
    ∀ (ps : List (Nat × List Nat × List Nat)),
      (∀ t ∈ ps, cost t.2.1 ≤ cost t.2.2 ∧ Den p env a ⟨idx.i, t.1, t.2.1⟩ .zero) →
      ∀ acc : SVal K, DenP p env a b idx ps acc acc := by
  intro ps
  induction ps with
  | nil => intro _ acc; exact .pnil
  | cons t rest ih =>
    intro hps acc
    obtain ⟨m, na, nb⟩ := t
    obtain ⟨hc, hl⟩ := hps _ (List.mem_cons_self)
    exact .leftZero hc hl rfl (ih (fun t ht => hps t (List.mem_cons_of_mem _ ht)) acc)

theorem mem_pairsOf {N : Nat} {n : List Nat} {t : Nat × List Nat × List Nat} (h : t ∈ pairsOf N n) :
    (t.2.1, t.2.2) ∈ splits n := by
  simp only [pairsOf, List.mem_flatMap, List.mem_range, List.mem_map, Prod.exists] at h
  obtain ⟨m, _, na, nb, hm, rfl⟩ := h
  exact hm

theorem z0Body_eq {c : Cert} {body : List Stmt} (h : c.z0Body body = true) :
    ∃ e, body = [.clause .default e] ∧ c.exprZ e = true := by
  unfold Cert.z0Body at h
  split at h
  · exact ⟨_, rfl, h⟩
  · simp at h

theorem startVal_some {st : Start} {idx : Idx} {v : SVal K} (h : startVal env st idx = some v) :
    idx.isOrderZero = true ∧
      ((st = .zero ∧ v = .zero) ∨ (st = .one ∧ v = .one) ∨ (∃ x, st = .input x ∧ v = env.input x idx)) := by
  unfold startVal at h
  split at h
  · rename_i hz
    refine ⟨hz, ?_⟩
    cases st with
    | none => simp at h
    | zero => simp at h; exact Or.inl ⟨rfl, h.symm⟩
    | one =>
      simp only at h
      split at h
      · simp at h; exact Or.inr (Or.inl ⟨rfl, h.symm⟩)
      · simp at h
    | input x => simp at h; exact Or.inr (Or.inr ⟨x, rfl, h.symm⟩)
  · simp at h

theorem startVal_none_pinned {st : Start} {idx : Idx} (h : startVal env st idx = none)
    (hz : idx.isOrderZero = true) : Cert.pinned0 st = false := by
  unfold startVal at h
  rw [if_pos hz] at h
  cases st <;> simp_all [Cert.pinned0]

/-- **Totality.**  A program that passes the certificate check has a derivation for every element of
every listed name, in every environment whose primitives are total. -/
theorem total (hc : c.ok p = true) (he : EnvTot c env) :
    ∀ t, ∀ x ∈ c.names, ∀ idx : Idx, deg idx.n = t → Goal p env c x idx := by
  intro t
  induction t using Nat.strongRecOn with
  | _ t IHt =>
  suffices inner : ∀ r, ∀ x ∈ c.names, c.rk (decide (t = 0)) x = r → ∀ idx : Idx, deg idx.n = t →
      Goal p env c x idx from fun x hx idx hd => inner _ x hx rfl idx hd
  intro r
  induction r using Nat.strongRecOn with
  | _ r IHr =>
  intro x hx hrk
  have hok : c.nameOK p x = true := List.all_eq_true.mp hc x hx
  have hrefs : ∀ y, c.refOK (decide (t = 0)) r y = true → ∀ idx' : Idx, deg idx'.n = t →
      Goal p env c y idx' := by
    intro y hy idx' hd
    simp only [Cert.refOK, Bool.and_eq_true, List.contains_iff_mem, decide_eq_true_eq] at hy
    exact IHr _ hy.2 y hy.1.1 rfl idx' hd
  unfold Cert.nameOK at hok
  split at hok
  · -- input
    rename_i hk
    intro idx _
    simp only [Bool.and_eq_true, Bool.not_eq_true'] at hok
    exact ⟨env.input x idx, .input (by rw [kindOf_eq_kindI he.inputs]; exact hk),
      fun _ => he.input_ne _ _, fun hz => by rw [hok.2] at hz; cases hz⟩
  · -- series
    rename_i d hk
    have hk' : kindOf p env x = .series d := by rw [kindOf_eq_kindI he.inputs]; exact hk
    simp only [Cert.seriesOK, Bool.and_eq_true, Bool.or_eq_true, beq_iff_eq, Bool.not_eq_true'] at hok
    obtain ⟨hname, ⟨⟨⟨hT, h0⟩, hone⟩, hmark⟩, hz0⟩ := hok
    subst hname
    have series_goal : ∀ idx : Idx, deg idx.n = t → (idx.i > idx.j → Goal p env c d.name idx.swap) →
        Goal p env c d.name idx := by
      intro idx hd hsw
      cases hs : startVal env d.start idx with
      | some v =>
        obtain ⟨hoz, hcases⟩ := startVal_some hs
        refine ⟨v, .pinned hk' hs, ?_, ?_⟩
        · intro ho
          rcases hcases with ⟨_, rfl⟩ | ⟨hst, rfl⟩ | ⟨h, _, rfl⟩
          · simp
          · rw [ho, hst] at hone; simp at hone
          · exact he.input_ne _ _
        · intro hz _
          rcases hcases with ⟨_, rfl⟩ | ⟨hst, rfl⟩ | ⟨h, hst, rfl⟩
          · rfl
          · rw [hz, hst] at hz0; simp at hz0
          · rw [hz, hst] at hz0; simp at hz0
      | none =>
        have hstm : d.body.all (c.stmtOK (decide (t = 0)) r) = true := by
          by_cases ht : t = 0
          · have hoz : idx.isOrderZero = true := (isOrderZero_iff idx).mpr (by omega)
            have := startVal_none_pinned hs hoz
            rw [this] at h0
            simp only [ht, decide_true, Cert.rk, if_true] at hrk ⊢
            rw [← hrk]; simpa using h0
          · simp only [ht, decide_false, Cert.rk] at hrk ⊢
            rw [← hrk]; simpa using hT
        have hE : ∀ cd e, Stmt.clause cd e ∈ d.body →
            ∃ v, DenE p env e idx v ∧ v ≠ .one ∧ (c.exprZ e = true → idx.isOrderZero = true → v = .zero) := by
          intro cd e hm
          have := List.all_eq_true.mp hstm _ hm
          exact expr_total he _ r idx (fun y hy idx' hn => hrefs y hy idx' (by rw [hn]; exact hd)) e this
        by_cases hzz : c.z0 d.name = true ∧ idx.isOrderZero = true
        · -- the value must be the `zero` sentinel
          rw [hzz.1] at hz0
          have hst : d.start = .none ∧ c.z0Body d.body = true := by
            rcases hz0 with (h | h) | h
            · simp at h
            · have := startVal_none_pinned hs hzz.2; rw [h] at this; simp [Cert.pinned0] at this
            · exact h
          obtain ⟨e, hbody, hez⟩ := z0Body_eq hst.2
          obtain ⟨v, hv, _, hv0⟩ := hE .default e (by rw [hbody]; simp)
          have hv0 := hv0 hez hzz.2
          subst hv0
          refine ⟨.zero, .body hk' hs ?_, fun _ => by simp, fun _ _ => rfl⟩
          rw [hbody]
          exact .default hv (by simp [vadd, pure, Except.pure]) .bnil
        · obtain ⟨rv, hr, hr1⟩ := body_total he d.name idx d.body
            (fun hm hlow => by
              obtain ⟨v, hv, hv1, _⟩ := hsw hlow
              have : c.one d.name = false := by
                rcases hmark with h | h
                · rw [hm] at h; simp at h
                · exact h
              exact ⟨v, hv, hv1 this⟩)
            (fun cd e hm => by obtain ⟨v, hv, hv1, _⟩ := hE cd e hm; exact ⟨v, hv, hv1⟩)
            .zero (by simp)
          exact ⟨rv, .body hk' hs hr, fun _ => hr1, fun h1 h2 => absurd ⟨h1, h2⟩ hzz⟩
    have upper : ∀ idx : Idx, deg idx.n = t → ¬ idx.i > idx.j → Goal p env c d.name idx :=
      fun idx hd hn => series_goal idx hd (fun h => absurd h hn)
    intro idx hd
    exact series_goal idx hd (fun h => upper idx.swap hd (by simp only [Idx.swap]; omega))
  · -- product
    rename_i a b hk
    have hk' : kindOf p env x = .product a b := by rw [kindOf_eq_kindI he.inputs]; exact hk
    simp only [Cert.productOK, Bool.and_eq_true, List.contains_iff_mem, Bool.not_eq_true',
      decide_eq_true_eq] at hok
    obtain ⟨⟨⟨⟨⟨⟨⟨ha, hb⟩, hoa⟩, hob⟩, hza⟩, hzb⟩, hrank⟩, hox⟩ := hok
    intro idx hd
    by_cases ht : t = 0
    · have hskip : ∀ tr ∈ pairsOf env.nblocks idx.n,
          cost tr.2.1 ≤ cost tr.2.2 ∧ Den p env a ⟨idx.i, tr.1, tr.2.1⟩ .zero := by
        intro tr htr
        have hsum := splits_deg (mem_pairsOf htr)
        have h1 : deg tr.2.1 = 0 := by omega
        have h2 : deg tr.2.2 = 0 := by omega
        refine ⟨by rw [cost_of_deg_zero h1, cost_of_deg_zero h2]; exact Nat.le_refl _, ?_⟩
        simp only [ht, decide_true, Cert.rk, if_true] at hrk IHr
        obtain ⟨v, hv, _, hv0⟩ := IHr (c.rank0 a) (by omega) a ha rfl ⟨idx.i, tr.1, tr.2.1⟩ (by simpa [ht] using h1)
        rw [hv0 hza ((isOrderZero_iff _).mpr h1)] at hv
        exact hv
      exact ⟨.zero, .product hk' (pairs_skip a b idx _ hskip .zero), fun _ => by simp, fun _ _ => rfl⟩
    · have hpairs : ∀ tr ∈ pairsOf env.nblocks idx.n, PairOK p env a b idx tr := by
        intro tr htr
        have hsum := splits_deg (mem_pairsOf htr)
        by_cases h1 : deg tr.2.1 = 0
        · left
          refine ⟨by rw [cost_of_deg_zero h1]; exact cost_pos _, ?_⟩
          obtain ⟨v, hv, _, hv0⟩ := IHt 0 (by omega) a ha ⟨idx.i, tr.1, tr.2.1⟩ h1
          rw [hv0 hza ((isOrderZero_iff _).mpr h1)] at hv
          exact hv
        · by_cases h2 : deg tr.2.2 = 0
          · right; left
            refine ⟨by rw [cost_of_deg_zero h2]; have := cost_of_deg_pos (n := tr.2.1) (by omega); omega, ?_⟩
            obtain ⟨v, hv, _, hv0⟩ := IHt 0 (by omega) b hb ⟨tr.1, idx.j, tr.2.2⟩ h2
            rw [hv0 hzb ((isOrderZero_iff _).mpr h2)] at hv
            exact hv
          · right; right
            obtain ⟨l, hl, hl1, _⟩ := IHt (deg tr.2.1) (by omega) a ha ⟨idx.i, tr.1, tr.2.1⟩ rfl
            obtain ⟨rr, hrr, hrr1, _⟩ := IHt (deg tr.2.2) (by omega) b hb ⟨tr.1, idx.j, tr.2.2⟩ rfl
            exact ⟨l, rr, hl, hrr, hl1 hoa, hrr1 hob⟩
      obtain ⟨rv, hr, hr1⟩ := pairs_total a b idx _ hpairs .zero (by simp)
      refine ⟨rv, .product hk' hr, fun _ => hr1, fun _ hoz => ?_⟩
      have := (isOrderZero_iff idx).mp hoz
      omega
  · simp at hok

end

end Dsl
end Pyma
