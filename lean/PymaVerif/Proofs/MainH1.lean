/-
Towards Theorem H for `main`: the selection map, the unperturbed Hamiltonian as a constant series,
the decomposition of the input series, and the equations of `B`.
-/
import PymaVerif.Proofs.MainUnitary
import PymaVerif.Proofs.CoreH

namespace Pyma
namespace BlockDiag
open Dsl Generated MvPowerSeries
namespace Problem

variable {K : Type} [Field K] [StarRing K] [DecidableEq K] [Thresholds K]
attribute [local instance] Scalar.ofField
variable (p : Problem K)

/-- the kept entries as a predicate on matrix indices -/
def kp (a b : Fin p.d) : Bool := p.keptE a.val b.val

/-- selection (kept part), coefficientwise -/
noncomputable def SelS : Sr (Fin p.nparams) K p.d →+ Sr (Fin p.nparams) K p.d := coeffwise (maskMap p.kp)

/-- the unperturbed Hamiltonian as a matrix and as a constant series -/
def H0mat : Mt K p.d := Matrix.diagonal fun a => p.energy a.val
noncomputable def H0s : Sr (Fin p.nparams) K p.d := C p.H0mat

/-- what an accepted Hermitian problem provides beyond `Sym` -/
structure Acc : Prop where
  herm_H : ∀ n (a b : Fin p.d), star (p.g "H" n b a) = p.g "H" n a b
  H0_spec : p.g "H" (toList (0 : Fin p.nparams →₀ ℕ)) = p.H0mat
  diag_kept : ∀ a : Fin p.d, p.keptE a.val a.val = true
  gap : ∀ a b : Fin p.d, p.keptE a.val b.val = false →
    Scalar.absGt (p.energy a.val - p.energy b.val) p.atol = true
  absGt_ne : ∀ x : K, Thresholds.absGt x p.atol = true → x ≠ 0
  comm_trans : ∀ a b c : Fin p.d, p.commuting (p.blk a.val) = true → p.keptE a.val b.val = true →
    p.keptE c.val b.val = true → p.keptE a.val c.val = true

variable (R : p.Ready) (hopt : p.twoBlockOptimized = false) (Y : p.Sym) (A : p.Acc) (h2 : (2 : K) ≠ 0)

include Y in
theorem SelS_star (x : Sr (Fin p.nparams) K p.d) : star (p.SelS x) = p.SelS (star x) :=
  p.star_coeffwise_swap p.kp p.kp (fun a b => p.keptE_symm Y a b) x

theorem coeff_SelS (x : Sr (Fin p.nparams) K p.d) (m : Fin p.nparams →₀ ℕ) (a b : Fin p.d) :
    coeff m (p.SelS x) a b = if p.keptE a.val b.val then coeff m x a b else 0 := rfl

include Y in
theorem H0s_star : star p.H0s = p.H0s := by
  ext m a b
  rw [coeff_star_apply]
  simp only [H0s, coeff_C]
  by_cases hm : m = 0
  · simp only [hm, ↓reduceIte, H0mat, Matrix.diagonal_apply]
    by_cases hab : a = b
    · subst hab; simp [Y.energy_real]
    · have hba : ¬ b = a := fun e => hab e.symm
      simp [hab, hba]
  · simp [hm]

include A in
theorem H0s_sel : p.SelS p.H0s = p.H0s := by
  ext m a b
  rw [coeff_SelS]
  simp only [H0s, coeff_C]
  by_cases hm : m = 0
  · simp only [hm, ↓reduceIte, H0mat, Matrix.diagonal_apply]
    by_cases hab : a = b
    · subst hab; simp [A.diag_kept]
    · simp [hab]
  · simp [hm]

include R in
theorem Hd_sel : p.SelS (p.sr "H'_diag") = p.sr "H'_diag" := by
  ext m a b
  rw [coeff_SelS, coeff_sr]
  by_cases hm : m = 0
  · subst hm
    rw [p.g0_Hd R.wf R.tot _ ((toList_all_zero 0).mpr rfl)]; simp
  · rw [p.g_Hd R.wf R.tot _ (toList_all_nonzero m hm)]
    by_cases hk : p.keptE a.val b.val = true <;> simp [hk]

include R in
theorem Ho_sel : p.SelS (p.sr "H'_offdiag") = 0 := by
  ext m a b
  rw [coeff_SelS, coeff_sr]
  by_cases hm : m = 0
  · subst hm
    rw [p.g0_Ho R.wf R.tot _ ((toList_all_zero 0).mpr rfl)]; simp
  · rw [p.g_Ho R.wf R.tot _ (toList_all_nonzero m hm)]
    by_cases hk : p.keptE a.val b.val = true <;> simp [hk]

include R Y A in
theorem Hd_star : star (p.sr "H'_diag") = p.sr "H'_diag" := by
  ext m a b
  rw [coeff_star_apply, coeff_sr]
  by_cases hm : m = 0
  · subst hm
    rw [p.g0_Hd R.wf R.tot _ ((toList_all_zero 0).mpr rfl)]; simp
  · rw [p.g_Hd R.wf R.tot _ (toList_all_nonzero m hm), p.g_Hd R.wf R.tot _ (toList_all_nonzero m hm),
      p.keptE_symm Y b a]
    by_cases hk : p.keptE a.val b.val = true
    · simp only [hk, ↓reduceIte]; exact A.herm_H _ a b
    · simp [hk]

include R Y A in
theorem Ho_star : star (p.sr "H'_offdiag") = p.sr "H'_offdiag" := by
  ext m a b
  rw [coeff_star_apply, coeff_sr]
  by_cases hm : m = 0
  · subst hm
    rw [p.g0_Ho R.wf R.tot _ ((toList_all_zero 0).mpr rfl)]; simp
  · rw [p.g_Ho R.wf R.tot _ (toList_all_nonzero m hm), p.g_Ho R.wf R.tot _ (toList_all_nonzero m hm),
      p.keptE_symm Y b a]
    by_cases hk : p.keptE a.val b.val = true
    · simp [hk]
    · simp only [hk, Bool.false_eq_true, ↓reduceIte]; exact A.herm_H _ a b

include R A in
/-- the input series is `H_0 + H'_S + H'_R` -/
theorem sr_H : p.sr "H" = p.H0s + p.sr "H'_diag" + p.sr "H'_offdiag" := by
  ext m a b
  rw [map_add, map_add, Matrix.add_apply, Matrix.add_apply, coeff_sr, coeff_sr, coeff_sr]
  simp only [H0s, coeff_C]
  by_cases hm : m = 0
  · subst hm
    have hz := (toList_all_zero (0 : Fin p.nparams →₀ ℕ)).mpr rfl
    rw [A.H0_spec, p.g0_Hd R.wf R.tot _ hz, p.g0_Ho R.wf R.tot _ hz]
    simp
  · rw [p.g_Hd R.wf R.tot _ (toList_all_nonzero m hm), p.g_Ho R.wf R.tot _ (toList_all_nonzero m hm)]
    by_cases hk : p.keptE a.val b.val = true <;> simp [hm, hk]

end Problem
end BlockDiag
end Pyma
