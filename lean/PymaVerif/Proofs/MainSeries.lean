/-
The series of `main` as formal power series over matrices, and their equations.
-/
import PymaVerif.Proofs.MainZero
import PymaVerif.Proofs.SeriesMask

namespace Pyma
namespace BlockDiag
open Dsl Generated MvPowerSeries
namespace Problem

variable {K : Type} [Field K] [StarRing K] [DecidableEq K] [Thresholds K]
attribute [local instance] Scalar.ofField
variable (p : Problem K) (hwf : p.WF)

/-- the series of global coefficients of `x` -/
noncomputable abbrev sr (x : String) : Sr (Fin p.nparams) K p.d := Ser p.blocks main p.env p.nparams x

theorem coeff_sr (x : String) (m : Fin p.nparams →₀ ℕ) : coeff m (p.sr x) = p.g x (toList m) := rfl

theorem toList_all_zero {k : Nat} (m : Fin k →₀ ℕ) : ((toList m).all (· == 0)) = true ↔ m = 0 := by
  constructor
  · intro h
    ext i
    have := getD_toList m i
    rw [List.all_eq_true] at h
    have hmem : (toList m).getD i.val 0 ∈ toList m := by
      rw [List.getD_eq_getElem?_getD, List.getElem?_eq_getElem (by rw [length_toList]; exact i.isLt)]
      simp
    have h2 := h _ hmem
    rw [beq_iff_eq] at h2
    rw [← getD_toList m i, h2]; rfl
  · intro h
    subst h
    rw [List.all_eq_true]
    intro x hx
    simp only [toList, List.mem_ofFn] at hx
    obtain ⟨i, rfl⟩ := hx
    simp

theorem toList_all_nonzero {k : Nat} (m : Fin k →₀ ℕ) (hm : m ≠ 0) : ((toList m).all (· == 0)) = false := by
  by_contra h
  have : ((toList m).all (· == 0)) = true := by simpa using h
  exact hm ((toList_all_zero m).mp this)

/-- series whose order zero vanishes -/
theorem sr_mem_F1 (x : String) (h0 : ∀ n, (n.all (· == 0)) = true → p.g x n = 0) :
    p.sr x ∈ FDeg (Fin p.nparams) (Mt K p.d) 1 := by
  rw [mem_F1_iff, coeff_sr]
  exact h0 _ ((toList_all_zero 0).mpr rfl)


/-- hypotheses under which the equations are derived (to be discharged from `Accepted` and the
totality theorem) -/
structure Ready : Prop where
  wf : p.WF
  tot : p.Total
  hN : ∀ a : Fin p.d, p.blk a.val < p.nblocks

variable (R : p.Ready)

include R in
theorem F1_W : p.sr "W" ∈ FDeg (Fin p.nparams) (Mt K p.d) 1 := p.sr_mem_F1 _ (p.g0_W R.wf R.tot)
include R in
theorem F1_V : p.sr "V" ∈ FDeg (Fin p.nparams) (Mt K p.d) 1 := p.sr_mem_F1 _ (p.g0_V R.wf R.tot)
include R in
theorem F1_X : p.sr "X" ∈ FDeg (Fin p.nparams) (Mt K p.d) 1 := p.sr_mem_F1 _ (p.g0_X R.wf R.tot)
include R in
theorem F1_B : p.sr "B" ∈ FDeg (Fin p.nparams) (Mt K p.d) 1 := p.sr_mem_F1 _ (p.g0_B R.wf R.tot)
include R in
theorem F1_Y : p.sr "Yadj" ∈ FDeg (Fin p.nparams) (Mt K p.d) 1 := p.sr_mem_F1 _ (p.g0_Y R.wf R.tot)
include R in
theorem F1_Hd : p.sr "H'_diag" ∈ FDeg (Fin p.nparams) (Mt K p.d) 1 := p.sr_mem_F1 _ (p.g0_Hd R.wf R.tot)
include R in
theorem F1_Ho : p.sr "H'_offdiag" ∈ FDeg (Fin p.nparams) (Mt K p.d) 1 := p.sr_mem_F1 _ (p.g0_Ho R.wf R.tot)
include R in
theorem F1_P : p.sr "U'" ∈ FDeg (Fin p.nparams) (Mt K p.d) 1 := p.sr_mem_F1 _ (p.g0_P R.wf R.tot)
include R in
theorem F1_Q : p.sr "U'†" ∈ FDeg (Fin p.nparams) (Mt K p.d) 1 := p.sr_mem_F1 _ (p.g0_Q R.wf R.tot)

include R in
theorem sr_P : p.sr "U'" = p.sr "W" + p.sr "V" := by
  apply eq_of_coeff_ne_zero (p.F1_P R) (AddSubgroup.add_mem _ (p.F1_W R) (p.F1_V R))
  intro m hm
  rw [map_add, coeff_sr, coeff_sr, coeff_sr]
  exact p.g_P R.wf R.tot _ (toList_all_nonzero m hm)

include R in
theorem sr_Q : p.sr "U'†" = p.sr "W" - p.sr "V" := by
  apply eq_of_coeff_ne_zero (p.F1_Q R) (AddSubgroup.sub_mem _ (p.F1_W R) (p.F1_V R))
  intro m hm
  rw [map_sub, coeff_sr, coeff_sr, coeff_sr]
  exact p.g_Q R.wf R.tot _ (toList_all_nonzero m hm)

include R in
theorem sr_prod {x a b : String} (hf : findSeries main x = none ∧ findProduct main x = some (a, b))
    (hx : x ≠ "H") (hxm : x ∈ mainNames) : p.sr x = p.sr a * p.sr b := by
  apply Ser_product (p.envOK R.wf) (p.envSem R.wf) R.hN p.nparams
    (kindOf_product (p.inputs_contains x hx) hf.1 hf.2) (R.tot x hxm)

include R in
theorem sr_QP : p.sr "U'† @ U'" = p.sr "U'†" * p.sr "U'" := p.sr_prod R prod_QP (by decide) (by decide)
include R in
theorem sr_A : p.sr "H'_offdiag @ U'" = p.sr "H'_offdiag" * p.sr "U'" := p.sr_prod R prod_A (by decide) (by decide)
include R in
theorem sr_QB : p.sr "U'† @ B" = p.sr "U'†" * p.sr "B" := p.sr_prod R prod_QB (by decide) (by decide)
include R in
theorem sr_VH : p.sr "V @ H'_diag" = p.sr "V" * p.sr "H'_diag" := p.sr_prod R prod_VH (by decide) (by decide)

include R in
theorem sr_X : p.sr "X" = p.sr "B" + p.sr "H'_offdiag" + p.sr "H'_offdiag" * p.sr "U'" := by
  rw [← p.sr_A R]
  have hA : p.sr "H'_offdiag @ U'" ∈ FDeg (Fin p.nparams) (Mt K p.d) 1 := by
    rw [p.sr_A R]
    exact (FDeg_anti 1) (FDeg_mul (p.F1_Ho R) (p.F1_P R))
  apply eq_of_coeff_ne_zero (p.F1_X R)
    (AddSubgroup.add_mem _ (AddSubgroup.add_mem _ (p.F1_B R) (p.F1_Ho R)) hA)
  intro m hm
  rw [map_add, map_add, coeff_sr, coeff_sr, coeff_sr, coeff_sr]
  exact p.g_X R.wf R.tot _ (toList_all_nonzero m hm)

end Problem
end BlockDiag
end Pyma
