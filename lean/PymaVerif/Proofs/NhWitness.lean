/-
Non-vacuity of the C05 hypotheses: concrete non-Hermitian problems over ℚ that are `AcceptedN`.
-/
import PymaVerif.Proofs.NhAccepted
import PymaVerif.Proofs.Witness

namespace Pyma
namespace BlockDiag
open Dsl Generated
namespace Problem
attribute [local instance] Scalar.ofField

/-- two blocks, degenerate first block, non-symmetric perturbation -/
def n2 : Problem ℚ where
  d := 3
  blockOf := #[0, 0, 1]
  nblocks := 2
  nparams := 1
  terms := [([0], ⟨3, #[1,0,0, 0,1,0, 0,0,4]⟩), ([1], ⟨3, #[1,2,3, 0,-1,1, 5,1,-2]⟩)]
  hermitian := false
  fd := .none
  atol := 1/1000

theorem n2_accepted : n2.AcceptedN where
  wf := by decide
  blocks_lt := by decide
  atol_nonneg := by decide +kernel
  h0_diag := by decide
  diag_kept := by decide +kernel
  gap := by decide +kernel
  no_shared := by decide +kernel
  kept_deg := by decide +kernel

/-- one block with an asymmetric eliminate-mask: only the entry (0,1) is eliminated -/
def n1 : Problem ℚ where
  d := 2
  blockOf := #[0, 0]
  nblocks := 1
  nparams := 1
  terms := [([0], ⟨2, #[0,0, 0,3]⟩), ([1], ⟨2, #[1,2, 5,-1]⟩)]
  hermitian := false
  fd := .dict [(0, #[false, true, false, false])]
  atol := 1/1000

example : n1.keptE 1 0 = true ∧ n1.keptE 0 1 = false := by decide +kernel

example : Nh.sr n2 "U†" * Nh.sr n2 "H" * Nh.sr n2 "U" = Nh.sr n2 "H_tilde" :=
  (C05_partial n2_accepted (by norm_num)).2.2.1

end Problem
end BlockDiag
end Pyma
