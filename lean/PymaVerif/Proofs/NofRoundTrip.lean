/-
C08, round trip: for every operator expression `e` (scalars, generators, number operators, sums,
products, powers) the kernel of `from_expr e` is the kernel of the operator that `e` denotes — the
composition of the actions of its generators on Fock space.  Together with `rep_adjoint` this is
the statement "conversion to number-ordered form and its arithmetic denote the same operator as the
original expression".
-/
import PymaVerif.Model.NofExpr
import PymaVerif.Proofs.NofAssoc

namespace Pyma
namespace Nof
open Finset

/-! ## kernels of images -/

theorem ker_nil (s'' : Occ) : ker [] s'' = 0 := rfl

theorem ker_cons (e : Occ × GRat) (L : Img) (s'' : Occ) :
    ker (e :: L) s'' = (if e.1 = s'' then e.2 else 0) + ker L s'' := by
  simp [ker]

theorem ker_append (L L' : Img) (s'' : Occ) : ker (L ++ L') s'' = ker L s'' + ker L' s'' := by
  simp [ker, List.map_append, List.sum_append]

theorem ker_scale (z : GRat) (L : Img) (s'' : Occ) : ker (Img.scale z L) s'' = z * ker L s'' := by
  induction L with
  | nil => simp [Img.scale, ker]
  | cons e L ih =>
    have : Img.scale z (e :: L) = (e.1, z * e.2) :: Img.scale z L := rfl
    rw [this, ker_cons, ker_cons, ih]
    split <;> ring

def states (L : Img) : Finset Occ := (L.map Prod.fst).toFinset

theorem ker_bind (L : Img) (g : Occ → Img) (s'' : Occ) (M : Finset Occ) (hM : states L ⊆ M) :
    ker (Img.bind L g) s'' = ∑ m ∈ M, ker L m * ker (g m) s'' := by
  induction L with
  | nil => simp [Img.bind, ker]
  | cons e L ih =>
    have hb : Img.bind (e :: L) g = Img.scale e.2 (g e.1) ++ Img.bind L g := rfl
    have hsub : states L ⊆ M := by
      intro m hm
      apply hM
      unfold states at hm ⊢
      rw [List.mem_toFinset] at hm ⊢
      exact List.mem_cons_of_mem _ hm
    have he : e.1 ∈ M := by
      apply hM
      unfold states
      rw [List.mem_toFinset]
      exact List.mem_cons_self
    rw [hb, ker_append, ker_scale, ih hsub]
    simp only [ker_cons, add_mul, sum_add_distrib]
    congr 1
    have : ∀ m, (if e.1 = m then e.2 else 0) * ker (g m) s'' = if e.1 = m then e.2 * ker (g m) s'' else 0 := by
      intro m; split <;> simp
    simp only [this]
    rw [Finset.sum_ite_eq, if_pos he]

/-! ## the generators -/

theorem pw_gen (c : Ctx) (i : Nat) (b : Bool) (hi : i < c.n) (j : Nat) :
    pw ({ powers := (List.replicate c.n (0 : Int)).set i (if b then -1 else 1), coeff := fun _ => 1 } : Term) j =
      if j = i then (if b then -1 else 1) else 0 := by
  show Occ.get (Occ.set (List.replicate c.n (0 : Int)) i _) j = _
  rw [get_set _ _ _ _ (by simpa using hi), pw_replicate]

theorem wf2_gen (c : Ctx) (i : Nat) (b : Bool) (hi : i < c.n) : WF2 c (gen c i b) := by
  intro t ht
  have : t = { powers := (List.replicate c.n (0 : Int)).set i (if b then -1 else 1), coeff := fun _ => 1 } := by
    simpa [gen] using ht
  subst this
  refine ⟨by simp, ?_, ?_⟩
  · intro j _ _
    rw [pw_gen c i b hi]
    by_cases h : j = i
    · rw [if_pos h]; cases b <;> simp
    · rw [if_neg h]; simp
  · intro _ _ _ _ _ _ _; rfl

theorem ampF'_gen (c : Ctx) (i : Nat) (b : Bool) (hi : i < c.n) (s s'' : Occ) (hs : Valid c s) :
    ampF' c (gen c i b) s s'' = ker (genAct c i b s).toList s'' := by
  let g : Term := { powers := (List.replicate c.n (0 : Int)).set i (if b then -1 else 1), coeff := fun _ => 1 }
  let q : Int := if b then -1 else 1
  have hp : ∀ j, pw g j = if j = i then q else 0 := pw_gen c i b hi
  have his : i < s.length := by rw [hs.len]; exact hi
  have htgt : tgt g s = Occ.set s i (Occ.get s i - q) := by
    apply occ_ext (by simp)
    intro j hj
    have hj' : j < s.length := by simpa using hj
    rw [get_tgt _ _ _ hj', get_set _ _ _ _ his, hp j]
    by_cases h : j = i
    · rw [if_pos h, if_pos h, h]
    · rw [if_neg h, if_neg h, sub_zero]
  have hann : annAmp c g s = modeAmp c i (Occ.get s i) q := by
    unfold annAmp
    rw [prod_eq_single i]
    · rw [hp i, if_pos rfl]
    · intro j _ hji
      rw [hp j, if_neg hji, modeAmp_zero]
    · intro h; exact absurd (mem_range.mpr hi) h
  have hq0 : q ≠ 0 := by show (if b then (-1 : Int) else 1) ≠ 0; cases b <;> simp
  have hmid : ∀ j, j < i → Occ.get (mid g s) j = Occ.get s j := by
    intro j hj
    rw [get_mid _ _ _ (by omega), hp j, if_neg (by omega)]; simp
  have hsig : sigma c g s = if isF c i = true then loCount (isF c) (fun j => Occ.get s j) i else 0 := by
    rw [sigma_eq_sum, sum_eq_single i]
    · rw [hp i, if_pos rfl]
      by_cases hF : isF c i = true
      · rw [if_pos ⟨hF, hq0⟩, if_pos hF]
        exact loCount_congr _ _ _ i (fun j hj => hmid j hj)
      · rw [if_neg (fun h => hF h.1), if_neg hF]
    · intro k _ hki
      rw [hp k, if_neg hki]; simp
    · intro h; exact absurd (mem_range.mpr hi) h
  have hcount : loCount (isF c) (fun j => Occ.get s j) i =
      ((List.range i).filter fun j => c.kind j == .fermion && Occ.get s j == 1).length := by
    rw [filter_length_sum]
    unfold loCount
    apply sum_congr rfl
    intro j _
    simp [isF]
  have hamp : ampF' c (gen c i b) s s'' =
      ofInt (sgnI (sigma c g s)) * (if Occ.set s i (Occ.get s i - q) = s'' then
        ofInt (modeAmp c i (Occ.get s i) q) else 0) := by
    show ([g].map fun t => ampS' c t s s'').sum = _
    simp only [List.map_cons, List.map_nil, List.sum_cons, List.sum_nil, add_zero]
    unfold ampS' ampS specAmp sgn
    rw [htgt, hann]
    have hc : g.coeff (mid g s) = 1 := rfl
    rw [hc, mul_one]
  rw [hamp, hsig, hcount]
  have h0 : ofInt 0 = (0 : GRat) := by ext <;> simp [ofInt]
  have hm1 : ofInt (-1) = (-1 : GRat) := by rw [ofInt_neg, ofInt_one]
  -- case analysis on the kind of the mode
  unfold genAct
  cases hk : c.kind i with
  | boson =>
    have hF : isF c i = false := by simp [isF, hk]
    have hinf : c.isInf i = true := by simp [Ctx.isInf, hk]
    simp only [hF, Bool.false_eq_true, if_false, sgnI_zero, ofInt_one, one_mul, modeAmp, hinf, if_true, hk,
      beq_self_eq_true, Bool.true_and]
    cases b with
    | true =>
      have : ((-1 : Int) > 0) = False := by simp
      simp [q, ker, sub_neg_eq_add, ofInt_one]
    | false =>
      by_cases hn : Occ.get s i = 0
      · simp [q, ker, hn, falling_eq, h0]
      · simp [q, ker, hn, falling_eq]
  | ladder =>
    have hF : isF c i = false := by simp [isF, hk]
    have hinf : c.isInf i = true := by simp [Ctx.isInf, hk]
    simp only [hF, Bool.false_eq_true, if_false, sgnI_zero, ofInt_one, one_mul, modeAmp, hinf, if_true, hk]
    cases b <;> simp [q, ker, sub_neg_eq_add, ofInt_one]
  | spin =>
    have hF : isF c i = false := by simp [isF, hk]
    have hfin : c.isInf i = false := by simp [Ctx.isInf, hk]
    rw [modeAmp_fin c i hfin]
    simp only [hF, Bool.false_eq_true, if_false, sgnI_zero, ofInt_one, one_mul]
    rcases hs.bin i hi hfin with hn | hn <;> cases b <;> simp [q, ker, hn, h0, ofInt_one]
  | fermion =>
    have hF : isF c i = true := by simp [isF, hk]
    have hfin : c.isInf i = false := by simp [Ctx.isInf, hk]
    rw [modeAmp_fin c i hfin]
    simp only [hF, if_true]
    generalize ((List.range i).filter fun j => c.kind j == .fermion && Occ.get s j == 1).length = N
    have hsg : ofInt (sgnI N) = if N % 2 == 1 then (-1 : GRat) else 1 := by
      unfold sgnI
      by_cases h : N % 2 = 1 <;> simp [h, hm1, ofInt_one]
    rw [hsg]
    rcases hs.bin i hi hfin with hn | hn <;> cases b <;> simp [q, ker, hn, h0, ofInt_one] <;>
      (split <;> simp)

/-! ## the round trip -/

theorem wf2_fromExpr (c : Ctx) (hlast : FermionsLast c) : ∀ e : OpExpr, e.wf c = true → WF2 c (fromExpr c e)
  | .scalar z, _ => wf2_scalar c z
  | .gen i b, h => wf2_gen c i b (by simpa [OpExpr.wf] using h)
  | .number i, _ => wft_numberForm c _
  | .fn f, _ => wft_numberForm c f
  | .add a b, h => by
    simp only [OpExpr.wf, Bool.and_eq_true] at h
    exact wf2_add c _ _ (wf2_fromExpr c hlast a h.1) (wf2_fromExpr c hlast b h.2)
  | .mul a b, h => by
    simp only [OpExpr.wf, Bool.and_eq_true] at h
    exact wf2_mul c hlast _ _ (wf2_fromExpr c hlast a h.1) (wf2_fromExpr c hlast b h.2)
  | .pow a k, h => wf2_npow c hlast _ (wf2_fromExpr c hlast a h) k

/-- the product step, shared by `mul` and `pow` -/
theorem ampF'_mul_ker (c : Ctx) (hlast : FermionsLast c) (x y : Form) (gx gy : Occ → Img)
    (hx : WF2 c x) (hy : WF2 c y)
    (ihx : ∀ s s'', Valid c s → ampF' c x s s'' = ker (gx s) s'')
    (ihy : ∀ s s'', Valid c s → ampF' c y s s'' = ker (gy s) s'')
    (s s'' : Occ) (hs : Valid c s) :
    ampF' c (mul c x y) s s'' = ker (Img.bind (gy s) gx) s'' := by
  rw [kernel_comp c hlast x y s s'' hx hy hs (targets y s ∪ states (gy s)) subset_union_left,
    ker_bind (gy s) gx s'' (targets y s ∪ states (gy s)) subset_union_right]
  apply sum_congr rfl
  intro m _
  rw [ihy s m hs]
  by_cases hv : Valid c m
  · rw [ihx m s'' hv]
  · have : ker (gy s) m = 0 := by rw [← ihy s m hs]; exact ampF'_eq_zero_of_invalid c y s m hy hs hv
    rw [this]; ring

/-- **C08, round trip**: the kernel of `from_expr e` is the kernel of the operator `e` denotes. -/
theorem roundtrip (c : Ctx) (hlast : FermionsLast c) :
    ∀ (e : OpExpr), e.wf c = true → ∀ s s'', Valid c s → ampF' c (fromExpr c e) s s'' = ker (actE c e s) s''
  | .scalar z, _, s, s'', hs => by
    show ampF' c (scalar c z) s s'' = ker [(s, z)] s''
    rw [rep_scalar c z s s'' hs.len]; simp [ker]
  | .gen i b, h, s, s'', hs => ampF'_gen c i b (by simpa [OpExpr.wf] using h) s s'' hs
  | .number i, _, s, s'', hs => by
    show ampF' c (numberForm c fun N => ofInt (Occ.get N i)) s s'' = ker [(s, ofInt (Occ.get s i))] s''
    rw [ampF'_numberForm c _ s s'' hs.len]; simp [ker]
  | .fn f, _, s, s'', hs => by
    show ampF' c (numberForm c f) s s'' = ker [(s, f s)] s''
    rw [ampF'_numberForm c _ s s'' hs.len]; simp [ker]
  | .add a b, h, s, s'', hs => by
    simp only [OpExpr.wf, Bool.and_eq_true] at h
    show ampF' c (add (fromExpr c a) (fromExpr c b)) s s'' = ker (actE c a s ++ actE c b s) s''
    rw [rep_add, ker_append, roundtrip c hlast a h.1 s s'' hs, roundtrip c hlast b h.2 s s'' hs]
  | .mul a b, h, s, s'', hs => by
    simp only [OpExpr.wf, Bool.and_eq_true] at h
    exact ampF'_mul_ker c hlast _ _ (actE c a) (actE c b) (wf2_fromExpr c hlast a h.1) (wf2_fromExpr c hlast b h.2)
      (fun s s'' hs => roundtrip c hlast a h.1 s s'' hs) (fun s s'' hs => roundtrip c hlast b h.2 s s'' hs) s s'' hs
  | .pow a k, h, s, s'', hs => by
    have ha : a.wf c = true := h
    have hwa := wf2_fromExpr c hlast a ha
    have iha := fun s s'' hs => roundtrip c hlast a ha s s'' hs
    clear h
    show ampF' c (npow c (fromExpr c a) k) s s'' = ker (powAct (actE c a) k s) s''
    induction k generalizing s s'' with
    | zero =>
      show ampF' c (scalar c 1) s s'' = ker [(s, 1)] s''
      rw [rep_scalar c 1 s s'' hs.len]; simp [ker]
    | succ k ih =>
      rw [rep_npow_succ c hlast _ k s s'' hwa hs]
      exact ampF'_mul_ker c hlast _ _ (powAct (actE c a) k) (actE c a) (wf2_npow c hlast _ hwa k) hwa
        (fun s s'' hs => ih s s'' hs) iha s s'' hs

/-! ## non-vacuity: a boson ⊗ fermion context, `N_a · N_f` written with generators -/

def c2 : Ctx := ⟨[.boson, .fermion]⟩

theorem c2_last : FermionsLast c2 := by
  intro i k hF hik hk
  have hk' : k < 2 := hk
  have : i = 0 := by omega
  subst this
  simp [isF, c2, Ctx.kind] at hF

def e0 : OpExpr := .mul (.mul (.gen 0 true) (.gen 0 false)) (.mul (.gen 1 true) (.gen 1 false))

theorem c2_valid : Valid c2 [2, 1] := by
  refine ⟨rfl, ?_⟩
  intro i hi hfin
  have hi' : i < 2 := hi
  have : i = 0 ∨ i = 1 := by omega
  rcases this with rfl | rfl
  · simp [Ctx.isInf, c2, Ctx.kind] at hfin
  · right; rfl

example : ampF' c2 (fromExpr c2 e0) [2, 1] [2, 1] = ker (actE c2 e0 [2, 1]) [2, 1] :=
  roundtrip c2 c2_last e0 rfl _ _ c2_valid

example : ker (actE c2 e0 [2, 1]) [2, 1] = ofInt 2 := by decide +kernel

end Nof
end Pyma
#print axioms Pyma.Nof.roundtrip
