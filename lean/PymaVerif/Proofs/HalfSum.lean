/-
C18, algebraic core of the Hermitian shortcut: summing only over the pairs `(a,b)` with `¬ a > b`
(any strict total order, e.g. Python's tuple comparison) and adding the adjoint of the terms with
`a ≠ b` gives the full sum, provided swapping a pair conjugates its term.
-/
import Mathlib.Algebra.BigOperators.Group.Finset.Basic
import Mathlib.Algebra.Star.Basic
import Mathlib.Tactic.Abel

open Finset

variable {ι A : Type*} [DecidableEq ι] [AddCommGroup A]

theorem half_sum_eq_full (s : Finset (ι × ι)) (hswap : ∀ p ∈ s, p.swap ∈ s)
    (gt : ι → ι → Prop) [DecidableRel gt]
    (hirr : ∀ a, ¬ gt a a) (hasym : ∀ a b, gt a b → ¬ gt b a) (htot : ∀ a b, a ≠ b → gt a b ∨ gt b a)
    (T : ι × ι → A) (adj : A → A) (hT : ∀ p ∈ s, T p.swap = adj (T p)) :
    ∑ p ∈ s, T p = ∑ p ∈ s.filter (fun p => ¬ gt p.1 p.2), (T p + if p.1 ≠ p.2 then adj (T p) else 0) := by
  -- split the full sum by `gt`
  rw [← Finset.sum_filter_add_sum_filter_not s (fun p => gt p.1 p.2)]
  -- the `gt` part is the image of the strict `lt` part under swap
  have hgt : ∑ p ∈ s.filter (fun p => gt p.1 p.2), T p
      = ∑ p ∈ (s.filter (fun p => ¬ gt p.1 p.2)).filter (fun p => p.1 ≠ p.2), adj (T p) := by
    apply Finset.sum_nbij' Prod.swap Prod.swap
    · intro p hp
      rw [mem_filter] at hp
      rw [mem_filter, mem_filter]
      refine ⟨⟨hswap p hp.1, hasym _ _ hp.2⟩, ?_⟩
      intro h
      have h' : p.2 = p.1 := h
      have := hp.2
      rw [h'] at this
      exact hirr _ this
    · intro p hp
      rw [mem_filter, mem_filter] at hp
      rw [mem_filter]
      refine ⟨hswap p hp.1.1, ?_⟩
      rcases htot p.1 p.2 hp.2 with h | h
      · exact absurd h hp.1.2
      · exact h
    · intro p _; exact Prod.swap_swap p
    · intro p _; exact Prod.swap_swap p
    · intro p hp
      rw [mem_filter] at hp
      have := hT p.swap (hswap p hp.1)
      rw [Prod.swap_swap] at this
      exact this
  rw [hgt, Finset.sum_add_distrib, Finset.sum_filter, add_comm]

#print axioms half_sum_eq_full
