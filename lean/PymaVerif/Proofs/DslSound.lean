/-
Soundness of the executable evaluator w.r.t. the relational semantics.  Core Lean + Std only.
-/
import PymaVerif.Proofs.DslDen

namespace Pyma
namespace Dsl

variable {K : Type} [Scalar K] {p : Prog} {env : Env K}

/-- every cached element is a derivable one -/
def CacheOK (p : Prog) (env : Env K) (c : Cache K) : Prop :=
  ∀ x idx v, c.get? (x, idx) = some v → Den p env x idx v

def LookupSound (p : Prog) (env : Env K) (lookup : Lookup K) : Prop :=
  ∀ x idx c v c', CacheOK p env c → lookup x idx c = .ok (v, c') →
    Den p env x idx v ∧ CacheOK p env c'

theorem liftE_ok {α} {x : Except Err α} {c c' : Cache K} {v : α} :
    liftE x c = .ok (v, c') ↔ x = .ok v ∧ c' = c := by
  cases x with
  | ok a => simp [liftE]; intro _; exact eq_comm
  | error e => simp [liftE]

theorem evalExpr_sound {lookup : Lookup K} (hl : LookupSound p env lookup) :
    ∀ (e : Expr) (idx : Idx) (c : Cache K) (v : SVal K) (c' : Cache K), CacheOK p env c →
      evalExpr env lookup idx e c = .ok (v, c') → DenE p env e idx v ∧ CacheOK p env c' := by
  intro e
  induction e with
  | ser x =>
    intro idx c v c' hc h
    simp only [evalExpr] at h
    obtain ⟨hd, hc'⟩ := hl _ _ _ _ _ hc h
    exact ⟨.ser hd, hc'⟩
  | adj x =>
    intro idx c v c' hc h
    simp only [evalExpr] at h
    split at h
    · rename_i w c1 heq
      cases h
      obtain ⟨hd, hc'⟩ := hl _ _ _ _ _ hc heq
      exact ⟨.adj hd, hc'⟩
    · cases h
  | neg e ih =>
    intro idx c v c' hc h
    simp only [evalExpr] at h
    split at h
    · rename_i w c1 heq
      obtain ⟨hd, hc1⟩ := ih _ _ _ _ hc heq
      obtain ⟨hv, rfl⟩ := liftE_ok.mp h
      exact ⟨.neg hd hv, hc1⟩
    · cases h
  | add a b iha ihb =>
    intro idx c v c' hc h
    simp only [evalExpr] at h
    split at h
    · rename_i x c1 heqa
      obtain ⟨hda, hc1⟩ := iha _ _ _ _ hc heqa
      split at h
      · rename_i y c2 heqb
        obtain ⟨hdb, hc2⟩ := ihb _ _ _ _ hc1 heqb
        obtain ⟨hv, rfl⟩ := liftE_ok.mp h
        exact ⟨.add hda hdb hv, hc2⟩
      · cases h
    · cases h
  | sub a b iha ihb =>
    intro idx c v c' hc h
    simp only [evalExpr] at h
    split at h
    · rename_i x c1 heqa
      obtain ⟨hda, hc1⟩ := iha _ _ _ _ hc heqa
      split at h
      · rename_i y c2 heqb
        obtain ⟨hdb, hc2⟩ := ihb _ _ _ _ hc1 heqb
        obtain ⟨hv, rfl⟩ := liftE_ok.mp h
        exact ⟨.sub hda hdb hv, hc2⟩
      · cases h
    · cases h
  | divInt e k ih =>
    intro idx c v c' hc h
    simp only [evalExpr] at h
    split at h
    · rename_i w c1 heq
      obtain ⟨hd, hc1⟩ := ih _ _ _ _ hc heq
      obtain ⟨hv, rfl⟩ := liftE_ok.mp h
      exact ⟨.divInt hd hv, hc1⟩
    · cases h
  | callSer f x =>
    intro idx c v c' hc h
    simp only [evalExpr] at h
    obtain ⟨hv, rfl⟩ := liftE_ok.mp h
    exact ⟨.callSer hv, hc⟩
  | callExpr f e ih =>
    intro idx c v c' hc h
    simp only [evalExpr] at h
    split at h
    · rename_i w c1 heq
      obtain ⟨hd, hc1⟩ := ih _ _ _ _ hc heq
      obtain ⟨hv, rfl⟩ := liftE_ok.mp h
      exact ⟨.callExpr hd hv, hc1⟩
    · cases h
  | zero =>
    intro idx c v c' hc h
    simp only [evalExpr] at h
    cases h
    exact ⟨.zero, hc⟩
  | ite fl t e iht ihe =>
    intro idx c v c' hc h
    simp only [evalExpr] at h
    split at h
    · rename_i hf
      obtain ⟨hd, hc1⟩ := iht _ _ _ _ hc h
      exact ⟨.iteT hf hd, hc1⟩
    · rename_i hf
      obtain ⟨hd, hc1⟩ := ihe _ _ _ _ hc h
      exact ⟨.iteF (by simpa using hf) hd, hc1⟩


theorem addExpr_sound {lookup : Lookup K} (hl : LookupSound p env lookup)
    (e : Expr) (idx : Idx) (wrap : SVal K → SVal K) (acc : SVal K) (c : Cache K) (r : SVal K) (c' : Cache K)
    (hc : CacheOK p env c) (h : addExpr env lookup idx e wrap acc c = .ok (r, c')) :
    ∃ v, DenE p env e idx v ∧ vadd acc (wrap v) = .ok r ∧ CacheOK p env c' := by
  simp only [addExpr] at h
  split at h
  · rename_i v c1 heq
    obtain ⟨hd, hc1⟩ := evalExpr_sound hl _ _ _ _ _ hc heq
    obtain ⟨hv, rfl⟩ := liftE_ok.mp h
    exact ⟨v, hd, hv, hc1⟩
  · cases h

theorem evalBody_sound {lookup : Lookup K} (hl : LookupSound p env lookup) (self : String) (idx : Idx) :
    ∀ (body : List Stmt) (acc : SVal K) (c : Cache K) (r : SVal K) (c' : Cache K), CacheOK p env c →
      evalBody env lookup self idx body acc c = .ok (r, c') →
      DenB p env self idx body acc r ∧ CacheOK p env c' := by
  intro body
  induction body with
  | nil =>
    intro acc c r c' hc h
    simp only [evalBody] at h
    cases h
    exact ⟨Holds.bnil, hc⟩
  | cons st rest ih =>
    intro acc c r c' hc h
    cases st with
    | marker anti =>
      simp only [evalBody] at h
      split at h
      · rename_i hgt
        split at h
        · rename_i v c1 heq
          obtain ⟨hd, hc1⟩ := hl _ _ _ _ _ hc heq
          obtain ⟨hv, rfl⟩ := liftE_ok.mp h
          exact ⟨.markerHit hgt hd hv, hc1⟩
        · cases h
      · rename_i hgt
        obtain ⟨hb, hc1⟩ := ih _ _ _ _ hc h
        exact ⟨.markerMiss hgt hb, hc1⟩
    | clause cnd e =>
      cases cnd with
      | lower =>
        simp only [evalBody] at h
        split at h
        · rename_i hgt
          obtain ⟨v, hd, hv, hc1⟩ := addExpr_sound hl _ _ _ _ _ _ _ hc h
          exact ⟨.lowerHit hgt hd hv, hc1⟩
        · rename_i hgt
          obtain ⟨hb, hc1⟩ := ih _ _ _ _ hc h
          exact ⟨.lowerMiss hgt hb, hc1⟩
      | diagonal =>
        simp only [evalBody] at h
        split at h
        · rename_i heqij
          split at h
          · rename_i acc' c1 heq
            obtain ⟨v, hd, hv, hc1⟩ := addExpr_sound hl _ _ _ _ _ _ _ hc heq
            obtain ⟨hb, hc2⟩ := ih _ _ _ _ hc1 h
            exact ⟨.diagHit heqij hd hv hb, hc2⟩
          · cases h
        · rename_i heqij
          obtain ⟨hb, hc1⟩ := ih _ _ _ _ hc h
          exact ⟨.diagMiss (by simpa using heqij) hb, hc1⟩
      | offdiagonal =>
        simp only [evalBody] at h
        split at h
        · rename_i hne
          split at h
          · rename_i acc' c1 heq
            obtain ⟨v, hd, hv, hc1⟩ := addExpr_sound hl _ _ _ _ _ _ _ hc heq
            obtain ⟨hb, hc2⟩ := ih _ _ _ _ hc1 h
            exact ⟨.offHit hne hd hv hb, hc2⟩
          · cases h
        · rename_i hne
          split at h
          · rename_i od hod
            split at h
            · rename_i acc' c1 heq
              obtain ⟨v, hd, hv, hc1⟩ := addExpr_sound hl _ _ _ _ _ _ _ hc heq
              obtain ⟨hb, hc2⟩ := ih _ _ _ _ hc1 h
              exact ⟨.offWrap (by simpa using hne) hod hd hv hb, hc2⟩
            · cases h
          · rename_i hod
            obtain ⟨hb, hc1⟩ := ih _ _ _ _ hc h
            exact ⟨.offSkip (by simpa using hne) hod hb, hc1⟩
      | default =>
        simp only [evalBody] at h
        split at h
        · rename_i acc' c1 heq
          obtain ⟨v, hd, hv, hc1⟩ := addExpr_sound hl _ _ _ _ _ _ _ hc heq
          obtain ⟨hb, hc2⟩ := ih _ _ _ _ hc1 h
          exact ⟨.default hd hv hb, hc2⟩
        · cases h


theorem evalPairs_sound {lookup : Lookup K} (hl : LookupSound p env lookup) (a b : String) (idx : Idx) :
    ∀ (ps : List (Nat × List Nat × List Nat)) (acc : SVal K) (c : Cache K) (r : SVal K) (c' : Cache K),
      CacheOK p env c → evalPairs lookup a b idx ps acc c = .ok (r, c') →
      DenP p env a b idx ps acc r ∧ CacheOK p env c' := by
  intro ps
  induction ps with
  | nil =>
    intro acc c r c' hc h
    simp only [evalPairs] at h
    cases h
    exact ⟨Holds.pnil, hc⟩
  | cons t rest ih =>
    intro acc c r c' hc h
    obtain ⟨m, na, nb⟩ := t
    simp only [evalPairs] at h
    split at h
    · rename_i hcost
      split at h
      · rename_i l c1 heql
        obtain ⟨hdl, hc1⟩ := hl _ _ _ _ _ hc heql
        split at h
        · rename_i hz
          obtain ⟨hp, hc2⟩ := ih _ _ _ _ hc1 h
          exact ⟨.leftZero hcost hdl hz hp, hc2⟩
        · rename_i hz
          split at h
          · rename_i rr c2 heqr
            obtain ⟨hdr, hc2⟩ := hl _ _ _ _ _ hc1 heqr
            split at h
            · rename_i hzr
              obtain ⟨hp, hc3⟩ := ih _ _ _ _ hc2 h
              exact ⟨.leftThenRightZero hcost hdl (by simpa using hz) hdr hzr hp, hc3⟩
            · rename_i hzr
              split at h
              · rename_i acc' hadd
                obtain ⟨hp, hc3⟩ := ih _ _ _ _ hc2 h
                exact ⟨.both hdl (by simpa using hz) hdr (by simpa using hzr) hadd hp, hc3⟩
              · cases h
          · cases h
      · cases h
    · rename_i hcost
      split at h
      · rename_i rr c1 heqr
        obtain ⟨hdr, hc1⟩ := hl _ _ _ _ _ hc heqr
        split at h
        · rename_i hzr
          obtain ⟨hp, hc2⟩ := ih _ _ _ _ hc1 h
          exact ⟨.rightZero hcost hdr hzr hp, hc2⟩
        · rename_i hzr
          split at h
          · rename_i l c2 heql
            obtain ⟨hdl, hc2⟩ := hl _ _ _ _ _ hc1 heql
            split at h
            · rename_i hz
              obtain ⟨hp, hc3⟩ := ih _ _ _ _ hc2 h
              exact ⟨.rightThenLeftZero hcost hdr (by simpa using hzr) hdl hz hp, hc3⟩
            · rename_i hz
              split at h
              · rename_i acc' hadd
                obtain ⟨hp, hc3⟩ := ih _ _ _ _ hc2 h
                exact ⟨.both hdl (by simpa using hz) hdr (by simpa using hzr) hadd hp, hc3⟩
              · cases h
          · cases h
      · cases h

theorem compute_sound {lookup : Lookup K} (hl : LookupSound p env lookup) (x : String) (idx : Idx)
    (c : Cache K) (v : SVal K) (c' : Cache K) (hc : CacheOK p env c)
    (h : compute p env lookup x idx c = .ok (v, c')) : Den p env x idx v ∧ CacheOK p env c' := by
  simp only [compute] at h
  split at h
  · rename_i hk
    cases h
    exact ⟨.input hk, hc⟩
  · rename_i d hk
    split at h
    · rename_i w hs
      cases h
      exact ⟨.pinned hk hs, hc⟩
    · rename_i hs
      obtain ⟨hb, hc1⟩ := evalBody_sound hl _ _ _ _ _ _ _ hc h
      exact ⟨.body hk hs hb, hc1⟩
  · rename_i a b hk
    obtain ⟨hp, hc1⟩ := evalPairs_sound hl _ _ _ _ _ _ _ _ hc h
    exact ⟨.product hk hp, hc1⟩
  · cases h

theorem cacheOK_insert {c : Cache K} {x : String} {idx : Idx} {v : SVal K}
    (hc : CacheOK p env c) (hd : Den p env x idx v) : CacheOK p env (c.insert (x, idx) v) := by
  intro y jdx w hw
  rw [Std.HashMap.get?_insert] at hw
  split at hw
  · rename_i heq
    have : (x, idx) = (y, jdx) := by simpa using heq
    cases this
    cases hw
    exact hd
  · exact hc _ _ _ hw

/-- the evaluator is sound: whatever it returns is derivable, and it keeps the cache sound -/
theorem getElem_sound (p : Prog) (env : Env K) : ∀ fuel, LookupSound p env (getElem p env fuel) := by
  intro fuel
  induction fuel with
  | zero =>
    intro x idx c v c' _ h
    simp [getElem] at h
  | succ fuel ih =>
    intro x idx c v c' hc h
    simp only [getElem] at h
    split at h
    · rename_i w hw
      cases h
      exact ⟨hc _ _ _ hw, hc⟩
    · split at h
      · rename_i w c1 heq
        cases h
        obtain ⟨hd, hc1⟩ := compute_sound ih _ _ _ _ _ hc heq
        exact ⟨hd, cacheOK_insert hc1 hd⟩
      · cases h

theorem cacheOK_empty : CacheOK p env ({} : Cache K) := by
  intro x idx v h
  simp at h

end Dsl
end Pyma

#print axioms Pyma.Dsl.getElem_sound
