/-
C13, merging perturbation parameters: re-indexing of orders along an additive map `φ` of multi-orders with *finite fibres* (not necessarily
injective): order `n` of the push-forward is the SUM of the orders in the fibre `φ⁻¹ n`.  The push-forward is again a ring homomorphism, and by
transport through uniqueness the transformation of the merged Hamiltonian is the merged transformation — "giving two perturbations the same
parameter yields at order n the sum of the two-parameter results over n₁ + n₂ = n".
-/
import PymaVerif.Proofs.Covariance5

namespace Pyma
open MvPowerSeries

section fib
variable {K : Type} [Field K] [StarRing K] {d : Nat} {σ τ : Type} [DecidableEq σ] [DecidableEq τ]

/-- an additive re-indexing with finite fibres -/
structure Fibred (σ τ : Type) [DecidableEq σ] where
  φ : (σ →₀ ℕ) →+ (τ →₀ ℕ)
  fib : (τ →₀ ℕ) → Finset (σ →₀ ℕ)
  spec : ∀ n m, m ∈ fib n ↔ φ m = n

namespace Fibred
variable (R : Fibred σ τ)

noncomputable def push (f : Sr σ K d) : Sr τ K d := fun n => ∑ m ∈ R.fib n, coeff m f

theorem coeff_push (f : Sr σ K d) (n : τ →₀ ℕ) : coeff n (R.push f) = ∑ m ∈ R.fib n, coeff m f := rfl

theorem push_mul (f g : Sr σ K d) : R.push (f * g) = R.push f * R.push g := by
  classical
  ext n : 1
  rw [coeff_push, coeff_mul]
  simp only [coeff_mul, coeff_push, Finset.sum_mul_sum]
  -- both sides are sums over the pairs (m₁, m₂) with φ m₁ + φ m₂ = n
  rw [Finset.sum_sigma', Finset.sum_sigma']
  simp only [Finset.sum_sigma']
  apply Finset.sum_nbij' (fun x => ⟨⟨(R.φ x.2.1, R.φ x.2.2), x.2.1⟩, x.2.2⟩) (fun x => ⟨x.1.2 + x.2, (x.1.2, x.2)⟩)
  · rintro ⟨m, q⟩ hx
    simp only [Finset.mem_sigma, Finset.mem_antidiagonal] at hx ⊢
    obtain ⟨hm, hq⟩ := hx
    refine ⟨⟨?_, (R.spec _ _).mpr rfl⟩, (R.spec _ _).mpr rfl⟩
    rw [← map_add, hq]; exact (R.spec _ _).mp hm
  · rintro ⟨⟨q, m1⟩, m2⟩ hx
    simp only [Finset.mem_sigma, Finset.mem_antidiagonal] at hx ⊢
    obtain ⟨⟨hq, h1⟩, h2⟩ := hx
    refine ⟨(R.spec _ _).mpr ?_, trivial⟩
    rw [map_add, (R.spec _ _).mp h1, (R.spec _ _).mp h2, hq]
  · rintro ⟨m, q⟩ hx
    simp only [Finset.mem_sigma, Finset.mem_antidiagonal] at hx
    obtain ⟨_, hq⟩ := hx
    simp only [Sigma.mk.injEq, heq_eq_eq, and_true]
    exact hq
  · rintro ⟨⟨q, m1⟩, m2⟩ hx
    simp only [Finset.mem_sigma, Finset.mem_antidiagonal] at hx
    obtain ⟨⟨_, h1⟩, h2⟩ := hx
    have e1 := (R.spec _ _).mp h1
    have e2 := (R.spec _ _).mp h2
    simp only [e1, e2]
  · rintro ⟨m, q⟩ _
    rfl

/-- the push-forward along a fibred re-indexing as a ring homomorphism -/
noncomputable def pushS : Sr σ K d →+* Sr τ K d where
  toFun := R.push
  map_zero' := by ext n : 1; rw [coeff_push]; simp
  map_one' := by
    classical
    ext n : 1
    rw [coeff_push, coeff_one]
    simp only [coeff_one]
    rw [Finset.sum_ite_eq']
    by_cases hn : n = 0
    · subst hn
      rw [if_pos ((R.spec _ _).mpr (map_zero _)), if_pos rfl]
    · rw [if_neg hn, if_neg]
      intro h0
      exact hn ((R.spec _ _).mp h0 ▸ (map_zero R.φ))
  map_add' f g := by
    ext n : 1
    rw [map_add, coeff_push, coeff_push, coeff_push, ← Finset.sum_add_distrib]
    simp
  map_mul' := R.push_mul

theorem coeff_pushS (f : Sr σ K d) (n : τ →₀ ℕ) : coeff n (R.pushS f) = ∑ m ∈ R.fib n, coeff m f := rfl

end Fibred
end fib

/-- merging two parameters into one: `(a, b) ↦ a + b`; the fibre of `n` is `{(a, b) : a + b = n}` -/
noncomputable def mergeFibred : Fibred (Fin 2) (Fin 1) where
  φ := { toFun := fun m => Finsupp.single 0 (m 0 + m 1)
         map_zero' := by simp
         map_add' := fun a b => by
           rw [← Finsupp.single_add]; congr 1
           simp only [Finsupp.coe_add, Pi.add_apply]; omega }
  fib := fun n => (Finset.antidiagonal (n 0)).image fun q => (Finsupp.single (0 : Fin 2) q.1 + Finsupp.single (1 : Fin 2) q.2 : Fin 2 →₀ ℕ)
  spec := by
    intro n m
    rw [Finset.mem_image]
    constructor
    · rintro ⟨q, hq, rfl⟩
      rw [Finset.mem_antidiagonal] at hq
      apply Finsupp.ext
      intro i
      have hi : i = (0 : Fin 1) := Subsingleton.elim _ _
      subst hi
      show Finsupp.single (0 : Fin 1) ((Finsupp.single (0 : Fin 2) q.1 + Finsupp.single (1 : Fin 2) q.2 : Fin 2 →₀ ℕ) 0
        + (Finsupp.single (0 : Fin 2) q.1 + Finsupp.single (1 : Fin 2) q.2 : Fin 2 →₀ ℕ) 1) 0 = n 0
      simp [hq]
    · intro h
      refine ⟨(m 0, m 1), ?_, ?_⟩
      · rw [Finset.mem_antidiagonal, ← h]
        show m 0 + m 1 = Finsupp.single (0 : Fin 1) (m 0 + m 1) 0
        simp
      · apply Finsupp.ext
        intro i
        fin_cases i <;> simp

theorem mergeFibred_degree (m : Fin 2 →₀ ℕ) : m.degree ≤ (mergeFibred.φ m).degree := by
  show m.degree ≤ (Finsupp.single (0 : Fin 1) (m 0 + m 1)).degree
  rw [Finsupp.degree_single, Finsupp.degree_eq_sum]
  simp [Fin.sum_univ_two]

namespace BlockDiag
open Dsl Generated
namespace Problem

variable {K : Type} [Field K] [StarRing K] [DecidableEq K] [Thresholds K]
attribute [local instance] Scalar.ofField
variable (p : Problem K) (k' : Nat) (ts : List (List Nat × Mat K))

/-- **C13 (merging / fibred re-indexing)**: if the Hamiltonian of the second problem is the push-forward of the first along an additive map of
multi-orders with finite fibres that does not lower the degree, and both keep the same entries, then order `n` of the transformation of the
second problem is the sum of the orders `m` with `φ m = n` of the first one's. -/
theorem C13_fibred [LawfulThresholds K] (hp : p.Accepted) (hq : (p.reparam k' ts).Accepted) (h2 : (2 : K) ≠ 0)
    (R : Fibred (Fin p.nparams) (Fin k')) (hdeg : ∀ m, m.degree ≤ (R.φ m).degree)
    (hkept : ∀ a b : Fin p.d, (p.reparam k' ts).keptE a.val b.val = p.keptE a.val b.val)
    (hH : (p.reparam k' ts).sr "H" = R.pushS (p.sr "H")) :
    (p.reparam k' ts).sr "U'" = R.pushS (p.sr "U'") := by
  let q := p.reparam k' ts
  have hT : TheoremU.Hom (p.ctx hp.ready hp.acc h2) (q.ctx hq.ready hq.acc h2) R.pushS 0 := by
    refine ⟨?_, ?_, ?_, ?_, fun y => by simp, by simp⟩
    · intro x
      ext n a b
      rw [q.coeff_star_apply, R.coeff_pushS, R.coeff_pushS, Matrix.sum_apply, Matrix.sum_apply, star_sum]
      apply Finset.sum_congr rfl
      intro m _
      exact p.coeff_star_apply x m a b
    · intro k x hx n hn
      rw [R.coeff_pushS]
      apply Finset.sum_eq_zero
      intro m hm
      have hmn := (R.spec _ _).mp hm
      exact hx m (by have := hdeg m; rw [hmn] at this; omega)
    · intro x
      show R.pushS (p.SelS x) = q.SelS (R.pushS x)
      ext n a b
      have e2 : coeff n (q.SelS (R.pushS x)) a b = if q.keptE a.val b.val then coeff n (R.pushS x) a b else 0 := rfl
      rw [e2, hkept, R.coeff_pushS, R.coeff_pushS, Matrix.sum_apply, Matrix.sum_apply]
      by_cases hk : p.keptE a.val b.val = true
      · simp only [hk, ↓reduceIte]
        apply Finset.sum_congr rfl
        intro m _
        rw [p.coeff_SelS, hk]; rfl
      · simp only [hk, Bool.false_eq_true, ↓reduceIte]
        apply Finset.sum_eq_zero
        intro m _
        rw [p.coeff_SelS]
        simp [hk]
    · show R.pushS (p.H0s + (p.sr "H'_diag" + p.sr "H'_offdiag"))
        = q.H0s + (q.sr "H'_diag" + q.sr "H'_offdiag") + 0
      have e1 := p.sr_H hp.ready hp.acc
      have e2 := q.sr_H hq.ready hq.acc
      rw [add_zero, ← add_assoc, ← add_assoc, ← e1, ← e2]
      exact hH.symm
  exact (TheoremU.transport (q.ctx hq.ready hq.acc h2) hT (p.sol_main hp.ready hp.sym hp.acc h2)
    (q.sol_main hq.ready hq.sym hq.acc h2)).symm

end Problem
end BlockDiag
end Pyma
#print axioms Pyma.BlockDiag.Problem.C13_fibred
