/-
C15 (complex conjugation), as an instance of ring-level naturality: if the Hamiltonian terms of a
second problem of the same shape are the entrywise conjugates of those of the first, every element of
every series of `main` is the entrywise conjugate.
-/
import PymaVerif.Proofs.SemNatural
import PymaVerif.Proofs.Covariance
import PymaVerif.Proofs.ProblemSupp

namespace Pyma
namespace BlockDiag
open Dsl Generated
namespace Problem

variable {K : Type} [Field K] [StarRing K] [DecidableEq K] [Thresholds K]
attribute [local instance] Scalar.ofField
variable (p : Problem K) (ts : List (List Nat × Mat K))

/-- entrywise conjugation of block matrices -/
def conjM : MatK K p.blocks →+ MatK K (p.withTerms ts).blocks where
  toFun X := fun a b => star (X a b)
  map_zero' := by funext a b; simp
  map_add' X Y := by
    funext a b
    show star ((X + Y) a b) = star (X a b) + star (Y a b)
    rw [Matrix.add_apply, star_add]

theorem conjM_apply (X : MatK K p.blocks) (a b : Fin p.d) : p.conjM ts X a b = star (X a b) := rfl

theorem conj_one (hwf : p.WF) (hwf' : (p.withTerms ts).WF)
    (hen : ∀ a : Nat, (p.withTerms ts).energy a = p.energy a)
    (hreal : ∀ a : Nat, star (p.energy a) = p.energy a)
    (habs : ∀ (x : K) (t : Rat), Thresholds.absGt (star x) t = Thresholds.absGt x t)
    (hin : ∀ idx, sem (p.withTerms ts).blocks idx ((p.withTerms ts).inputH idx)
      = p.conjM ts (sem p.blocks idx (p.inputH idx))) :
    ∀ i, p.conjM ts (blockId p.blocks i) = blockId (p.withTerms ts).blocks i := by
    intro i
    funext a b
    show star (blockId p.blocks i a b) = blockId (p.withTerms ts).blocks i a b
    simp only [blockId, Matrix.diagonal_apply]
    by_cases hab : a = b
    · subst hab
      simp only [↓reduceIte]
      show star (if p.blk a.val = i then (1 : K) else 0) = if p.blk a.val = i then 1 else 0
      split <;> simp
    · simp [hab]

/-- the two environments are intertwined by conjugation -/
theorem inter_conj (hwf : p.WF) (hwf' : (p.withTerms ts).WF)
    (hen : ∀ a : Nat, (p.withTerms ts).energy a = p.energy a)
    (hreal : ∀ a : Nat, star (p.energy a) = p.energy a)
    (habs : ∀ (x : K) (t : Rat), Thresholds.absGt (star x) t = Thresholds.absGt x t)
    (hin : ∀ idx, sem (p.withTerms ts).blocks idx ((p.withTerms ts).inputH idx)
      = p.conjM ts (sem p.blocks idx (p.inputH idx))) :
    Inter (p.conjM ts) p.env (p.withTerms ts).env (p.envSem hwf) ((p.withTerms ts).envSem hwf') where
  mul := by
    intro X Y
    funext a b
    show star ((X * Y) a b) = ((p.conjM ts X) * (p.conjM ts Y)) a b
    rw [Matrix.mul_apply, Matrix.mul_apply, star_sum]
    apply Finset.sum_congr rfl
    intro k _
    rw [star_mul']; rfl
  adj := by
    intro X
    funext a b
    show star (X.conjTranspose a b) = (p.conjM ts X).conjTranspose a b
    simp [Matrix.conjTranspose_apply, conjM_apply]
  smul := by
    intro k X
    funext a b
    show star ((((k : K)⁻¹) • X) a b) = (((k : K)⁻¹) • p.conjM ts X) a b
    simp [Matrix.smul_apply, conjM_apply, star_mul', star_inv₀]
  inputs := rfl
  nblocks := rfl
  input := fun _ idx => hin idx
  fn_supp := p.fnVal_supp hwf
  fnVal := by
    intro f X idx _
    funext a b
    show (if f == "solve_sylvester" then (p.withTerms ts).solveSem (p.conjM ts X) idx else 0) a b
      = star ((if f == "solve_sylvester" then p.solveSem X idx else 0) a b)
    by_cases hf : (f == "solve_sylvester") = true
    · simp only [hf, ↓reduceIte, solveSem]
      show (if p.inBlock idx.i idx.j a.val b.val then
          (if Scalar.absGt ((p.withTerms ts).energy a.val - (p.withTerms ts).energy b.val) p.atol then
            star (X a b) * ((p.withTerms ts).energy a.val - (p.withTerms ts).energy b.val)⁻¹ else 0) else 0)
        = star (if p.inBlock idx.i idx.j a.val b.val then
          (if Scalar.absGt (p.energy a.val - p.energy b.val) p.atol then
            X a b * (p.energy a.val - p.energy b.val)⁻¹ else 0) else 0)
      rw [hen, hen]
      split
      · split
        · rw [star_mul', star_inv₀, star_sub, hreal, hreal]
        · simp
      · simp
    · simp [hf]
  diag := by
    intro X idx _
    funext a b
    have helim : ∀ c d, (p.withTerms ts).elim c d = p.elim c d := by
      intro c d
      have hclose : (p.withTerms ts).closeIn = p.closeIn := by
        funext x y
        simp only [closeIn, equalEigs, hen]
        rfl
      simp only [elim, sameLevel, hclose]
      rfl
    show (if p.selected idx.i then (p.withTerms ts).hadamard (fun a b => !(p.withTerms ts).elim a b) (p.conjM ts X)
        else p.conjM ts X) a b
      = star ((if p.selected idx.i then p.hadamard (fun a b => !p.elim a b) X else X) a b)
    split
    · simp only [hadamard, helim]
      show (if (!p.elim a.val b.val) = true then star (X a b) else 0) = star (if (!p.elim a.val b.val) = true then X a b else 0)
      split <;> simp
    · rfl
  offdiag := by
    intro X idx _
    funext a b
    have helim : ∀ c d, (p.withTerms ts).elim c d = p.elim c d := by
      intro c d
      have hclose : (p.withTerms ts).closeIn = p.closeIn := by
        funext x y
        simp only [closeIn, equalEigs, hen]
        rfl
      simp only [elim, sameLevel, hclose]
      rfl
    show (if p.selected idx.i then (p.withTerms ts).hadamard (fun a b => (p.withTerms ts).elim a b) (p.conjM ts X)
        else 0) a b
      = star ((if p.selected idx.i then p.hadamard (fun a b => p.elim a b) X else 0) a b)
    split
    · simp only [hadamard, helim]
      show (if p.elim a.val b.val = true then star (X a b) else 0) = star (if p.elim a.val b.val = true then X a b else 0)
      split <;> simp
    · simp
  offdiag_some := by
    show (if fdIsEmpty p.fdEff then none else some (p.withTerms ts).offdiagW : Option _).isSome
      = (if fdIsEmpty p.fdEff then none else some p.offdiagW : Option _).isSome
    split <;> rfl
  flagName := rfl
  flagIdx := rfl

/-- **C15 (conjugation)**: conjugating the input conjugates every element of every series -/
theorem C15_conjugation (hwf : p.WF) (hwf' : (p.withTerms ts).WF)
    (hns : p.NoShared) (hns' : (p.withTerms ts).NoShared)
    (hen : ∀ a : Nat, (p.withTerms ts).energy a = p.energy a)
    (hreal : ∀ a : Nat, star (p.energy a) = p.energy a)
    (habs : ∀ (x : K) (t : Rat), Thresholds.absGt (star x) t = Thresholds.absGt x t)
    (hin : ∀ idx, sem (p.withTerms ts).blocks idx ((p.withTerms ts).inputH idx)
      = p.conjM ts (sem p.blocks idx (p.inputH idx)))
    (x : String) (hx : x ∈ mainNames) (idx : Idx) :
    mat (p.withTerms ts).blocks main (p.withTerms ts).env x idx
      = p.conjM ts (mat p.blocks main p.env x idx) :=
  sem_natural (p.conjM ts) (p.envSem hwf) ((p.withTerms ts).envSem hwf')
    (p.inter_conj ts hwf hwf' hen hreal habs hin) mainCert mainCert_ok (p.envOK hwf)
    ((p.withTerms ts).envOK hwf') (p.envTot hns) ((p.withTerms ts).envTot hns')
    (fun _ => p.conj_one ts hwf hwf' hen hreal habs hin) (deg idx.n) x hx idx rfl

end Problem
end BlockDiag
end Pyma
#print axioms Pyma.BlockDiag.Problem.C15_conjugation
