/-
Kernel-evaluated sanity check of the evaluator of compiled bodies: on a concrete problem the
compiled bodies of `main` and its clause lists give the same elements.  (A test, labelled as a test.)
-/
import PymaVerif.Model.CBody
import PymaVerif.Proofs.D5Witness

namespace Pyma
namespace Dsl
variable {K : Type} [Scalar K]

/-- like `compute`, but series are evaluated through their compiled bodies -/
def computeC (p : Prog) (env : Env K) (lookup : Lookup K) (x : String) (idx : Idx) (c : Cache K) : Res K (SVal K) :=
  match kindOf p env x with
  | .input => .ok (env.input x idx, c)
  | .series d =>
      match startVal env d.start idx with
      | some v => .ok (v, c)
      | none => evalCStmts env lookup idx (compileSeries d) .zero c
  | .product a b => evalPairs lookup a b idx (pairsOf env.nblocks idx.n) .zero c
  | .unknown => .error (.unknown x)

def evalNCc (p : Prog) (env : Env K) : Nat → Lookup K
  | 0, _, _, _ => .error .fuel
  | fuel+1, x, idx, c => computeC p env (evalNCc p env fuel) x idx c

end Dsl

namespace BlockDiag
open Dsl Generated
namespace Problem
attribute [local instance] Scalar.ofField

def entryOf (r : Res ℚ (SVal ℚ)) (a b : Nat) : Option ℚ :=
  match r with
  | .ok (.zero, _) => some 0
  | .ok (.one, _) => some (if a == b then 1 else 0)
  | .ok (.val m, _) => some (m.get a b)
  | .error _ => none

def w3entry (x : String) (n a b : Nat) : Option ℚ :=
  entryOf (evalNC main w3.env 40 x ⟨w3.blk a, w3.blk b, [n]⟩ ∅) a b
def w3entryC (x : String) (n a b : Nat) : Option ℚ :=
  entryOf (evalNCc main w3.env 40 x ⟨w3.blk a, w3.blk b, [n]⟩ ∅) a b

def w3agree : Bool :=
  ["H_tilde", "U", "U†"].all fun x => (List.range 3).all fun n => (List.range 3).all fun a => (List.range 3).all fun b =>
    w3entry x n a b == w3entryC x n a b && (w3entry x n a b).isSome

theorem w3_compiled_agrees : w3agree = true := by decide +kernel

end Problem
end BlockDiag
end Pyma
