/-
Theorem H for `main`: the equation of `H_tilde`, the assembled hypotheses, and C01 for the model.
-/
import PymaVerif.Proofs.MainH5

namespace Pyma
namespace BlockDiag
open Dsl Generated MvPowerSeries
namespace Problem

variable {K : Type} [Field K] [StarRing K] [DecidableEq K] [Thresholds K]
attribute [local instance] Scalar.ofField
variable (p : Problem K) (R : p.Ready) (hopt : p.twoBlockOptimized = false) (Y : p.Sym) (A : p.Acc)
  (h2 : (2 : K) ≠ 0)

include R in
/-- order zero of `H_tilde` is the input's order zero -/
theorem g0_Ht (n : List Nat) (hn : (n.all (· == 0)) = true) : p.g "H_tilde" n = p.g "H" n := by
  ext a b
  rw [Problem.g_entry p R.wf R.tot _ (by decide)]
  simp only [elemSem, kindOf_series (p.inputs_contains "H_tilde" (by decide)) find_Ht, def_Ht, startVal,
    Idx.isOrderZero, hn, ↓reduceIte]
  obtain ⟨v, hv⟩ := R.tot "H" (by decide) ⟨p.blk a.val, p.blk b.val, n⟩
  have hin : kindOf main p.env "H" = .input := by simp [kindOf, env]
  have : v = p.env.input "H" ⟨p.blk a.val, p.blk b.val, n⟩ := Holds.det hv _ (Holds.input hin)
  show sem p.blocks _ (p.env.input "H" _) a b = mat p.blocks main p.env "H" _ a b
  rw [mat, den_eq hv, this]

include R Y A h2 in
theorem eqHt : 2 * p.sr "H_tilde" = 2 * p.H0s + p.SelS (2 * p.sr "H'_diag"
      + (p.sr "H'_offdiag @ U'" + star (p.sr "H'_offdiag @ U'"))
      - (p.sr "U'† @ B" + star (p.sr "U'† @ B")) - 2 * p.sr "Yadj") := by
  ext m a b
  simp only [map_add, coeff_two_mul, two_mul_apply, Matrix.add_apply, coeff_SelS, map_sub,
    Matrix.sub_apply, coeff_star_apply, coeff_sr]
  by_cases hm : m = 0
  · subst hm
    have hz := (toList_all_zero (0 : Fin p.nparams →₀ ℕ)).mpr rfl
    have hq := p.coeff_zero_of_F1 (p.F1_QB R)
    have ha := p.coeff_zero_of_F1 (p.F1_A R)
    rw [coeff_sr] at hq ha
    rw [p.g0_Ht R _ hz, A.H0_spec, p.g0_Hd R.wf R.tot _ hz, p.g0_Y R.wf R.tot _ hz, hq, ha]
    simp [H0s]
  · have hn := toList_all_nonzero m hm
    have h0 : coeff m p.H0s a b = 0 := by simp [H0s, coeff_C, hm]
    rw [h0, mul_zero, zero_add, p.g_Ht R.wf R.tot _ hn]
    by_cases hk : p.keptE a.val b.val = true
    · simp only [hk, ↓reduceIte]
      have e1 := two_inv h2 (p.g "H'_offdiag @ U'" (toList m) a b + star (p.g "H'_offdiag @ U'" (toList m) b a))
      have e2 := Problem.neg_two_inv_mul h2
        (p.g "U'† @ B" (toList m) a b + star (p.g "U'† @ B" (toList m) b a))
      rw [mul_sub, mul_add, mul_add, e1, e2]; ring
    · simp [hk]

include R hopt Y A h2 in
/-- the data of Theorem H for `main` -/
noncomputable def hypH : TheoremH.Hyp (Sr (Fin p.nparams) K p.d) where
  Φ := p.filt
  two_cancel := two_cancel_series h2
  two_mem := two_mem_series h2
  Sel := p.SelS
  Sstar := p.SelS_star Y
  H0 := p.H0s
  Hd := p.sr "H'_diag"
  Ho := p.sr "H'_offdiag"
  W := p.sr "W"
  V := p.sr "V"
  X := p.sr "X"
  B := p.sr "B"
  Y := p.sr "Yadj"
  Ht := p.sr "H_tilde"
  H0star := p.H0s_star Y
  H0sel := p.H0s_sel A
  Hdstar := p.Hd_star R Y A
  Hdsel := p.Hd_sel R
  Hostar := p.Ho_star R Y A
  Hosel := p.Ho_sel R
  Wstar := p.sr_W_star R hopt Y h2
  Vstar := p.sr_V_star R Y
  Wmem := p.F1_W R
  Vmem := p.F1_V R
  eqW := p.sr_eqW R hopt Y h2
  eqX := by rw [← p.sr_P R]; exact p.sr_X R
  eqBsel := by
    rw [← p.sr_Q R, ← p.sr_P R, ← p.sr_QB R, ← p.sr_A R, ← p.sr_VH R]
    exact p.eqBsel R Y A h2
  eqBrem := by
    rw [← p.sr_Q R, ← p.sr_QB R]
    exact p.eqBrem R
  eqY := p.eqY R hopt Y A h2
  eqV := by
    rw [← p.sr_VH R]
    exact p.eqV R Y A
  eqHt := by
    rw [← p.sr_Q R, ← p.sr_P R, ← p.sr_QB R, ← p.sr_A R]
    exact p.eqHt R Y A h2

include R hopt Y A h2 in
/-- **C01 for the model**: `U† · H · U = H̃` as formal power series — at every order, for every
block layout, mask and number of parameters (general, non two-block-optimised flags). Since `H̃` is
supported on the kept entries, this is at once "equal to `H̃` on kept elements" and "zero on
eliminated ones". -/
theorem C01_main : p.sr "U†" * p.sr "H" * p.sr "U" = p.sr "H_tilde" := by
  have h := TheoremH.main_identity (p.hypH R hopt Y A h2)
  rw [p.sr_U R, p.sr_Ud R, p.sr_P R, p.sr_Q R, p.sr_H R A]
  exact h

include R hopt Y A h2 in
/-- **C02 for the model, second half**: `U · U† = 1`. -/
theorem C02_unitary' : p.sr "U" * p.sr "U†" = 1 := by
  have h := TheoremH.unitary' (p.hypH R hopt Y A h2)
  rw [p.sr_U R, p.sr_Ud R, p.sr_P R, p.sr_Q R]
  exact h

include R A in
/-- the returned `H̃` has no eliminated entry -/
theorem Ht_elim (m : Fin p.nparams →₀ ℕ) (a b : Fin p.d) (hk : p.keptE a.val b.val = false) :
    coeff m (p.sr "H_tilde") a b = 0 := by
  rw [coeff_sr]
  by_cases hm : m = 0
  · subst hm
    have hz := (toList_all_zero (0 : Fin p.nparams →₀ ℕ)).mpr rfl
    rw [p.g0_Ht R _ hz, A.H0_spec]
    simp only [H0mat, Matrix.diagonal_apply]
    by_cases hab : a = b
    · subst hab; rw [A.diag_kept] at hk; cases hk
    · simp [hab]
  · rw [p.g_Ht R.wf R.tot _ (toList_all_nonzero m hm)]; simp [hk]

include R hopt Y A h2 in
/-- the eliminated part of the returned `H̃` — hence of `U†HU` — vanishes -/
theorem C01_eliminated (m : Fin p.nparams →₀ ℕ) (a b : Fin p.d) (hk : p.keptE a.val b.val = false) :
    coeff m (p.sr "U†" * p.sr "H" * p.sr "U") a b = 0 := by
  rw [p.C01_main R hopt Y A h2]
  exact p.Ht_elim R A m a b hk

end Problem
end BlockDiag
end Pyma
#print axioms Pyma.BlockDiag.Problem.C01_main
#print axioms Pyma.BlockDiag.Problem.C02_unitary'
#print axioms Pyma.BlockDiag.Problem.C01_eliminated
