/-
Entry-level equations of `main` (continued): the series with a lower-triangle fill — `W`, `Yadj`, `V`.
General (non two-block-optimised) case.
-/
import PymaVerif.Proofs.MainBlock3

namespace Pyma
namespace BlockDiag
open Dsl Generated
namespace Problem

variable {K : Type} [Field K] [StarRing K] [DecidableEq K] [Thresholds K]
attribute [local instance] Scalar.ofField
variable (p : Problem K) (hwf : p.WF)

include hwf in
/-- lower blocks of `W` are adjoints of upper blocks -/
theorem g_W_lower (htot : p.Total) (n : List Nat) (hn : (n.all (· == 0)) = false) (a b : Fin p.d)
    (hgt : p.blk a.val > p.blk b.val) : p.g "W" n a b = star (p.g "W" n b a) := by
  main_step p, hwf, htot, "W", find_W, def_W, hn
  simp only [hgt, ↓reduceIte, Matrix.add_apply, Matrix.zero_apply, zero_add]
  rfl

include hwf in
/-- diagonal and upper blocks of `W` -/
theorem g_W_upper (htot : p.Total) (hopt : p.twoBlockOptimized = false) (n : List Nat)
    (hn : (n.all (· == 0)) = false) (a b : Fin p.d) (hle : ¬ p.blk a.val > p.blk b.val) :
    p.g "W" n a b = ((-2 : ℤ) : K)⁻¹ * p.g "U'† @ U'" n a b := by
  main_step p, hwf, htot, "W", find_W, def_W, hn
  simp only [hle, ↓reduceIte, flag_opt, hopt, Bool.false_eq_true]
  by_cases hab : p.blk a.val = p.blk b.val
  · have hbeq : (p.blk a.val == p.blk b.val) = true := by simp [hab]
    have hbne : (p.blk a.val != p.blk b.val) = false := by simp [hab]
    simp only [hbeq, hbne, ↓reduceIte, Bool.false_eq_true, p.env_offdiag]
    by_cases hfd : fdIsEmpty p.fdEff = true
    · simp only [hfd, ↓reduceIte, Matrix.add_apply, Matrix.zero_apply, zero_add,
        p.diag_entry hwf _ _ _ _ a b rfl, p.elimIn_false_of_empty hfd, Bool.false_eq_true,
        Matrix.smul_apply, smul_eq_mul]
      rfl
    · simp only [hfd, Bool.false_eq_true, ↓reduceIte, Matrix.add_apply, Matrix.zero_apply, zero_add,
        p.diag_entry hwf _ _ _ _ a b rfl, p.offdiag_entry hwf _ _ _ _ a b rfl, Matrix.smul_apply,
        smul_eq_mul]
      cases p.elimIn a.val b.val <;> simp only [Bool.false_eq_true, ↓reduceIte, add_zero, zero_add] <;> rfl
  · have hbeq : (p.blk a.val == p.blk b.val) = false := by simp [hab]
    have hbne : (p.blk a.val != p.blk b.val) = true := by simp [hab]
    simp only [hbeq, hbne, ↓reduceIte, Bool.false_eq_true, Matrix.add_apply, Matrix.zero_apply, zero_add,
      Matrix.smul_apply, smul_eq_mul]
    rfl

include hwf in
theorem g_Y_lower (htot : p.Total) (n : List Nat) (hn : (n.all (· == 0)) = false) (a b : Fin p.d)
    (hgt : p.blk a.val > p.blk b.val) : p.g "Yadj" n a b = star (p.g "Yadj" n b a) := by
  main_step p, hwf, htot, "Yadj", find_Y, def_Y, hn
  simp only [hgt, ↓reduceIte, Matrix.add_apply, Matrix.zero_apply, zero_add]
  rfl

include hwf in
theorem g_Y_upper (htot : p.Total) (hopt : p.twoBlockOptimized = false) (n : List Nat)
    (hn : (n.all (· == 0)) = false) (a b : Fin p.d) (hle : ¬ p.blk a.val > p.blk b.val) :
    p.g "Yadj" n a b =
      if p.keptE a.val b.val && p.commuting (p.blk a.val) then 0
      else ((2 : ℤ) : K)⁻¹ * (star (p.g "X" n b a) + p.g "X" n a b) := by
  main_step p, hwf, htot, "Yadj", find_Y, def_Y, hn
  simp only [hle, ↓reduceIte, flag_opt, flag_comm, hopt, Bool.false_eq_true]
  by_cases hab : p.blk a.val = p.blk b.val
  · have hbeq : (p.blk a.val == p.blk b.val) = true := by simp [hab]
    have hbne : (p.blk a.val != p.blk b.val) = false := by simp [hab]
    simp only [hbeq, hbne, ↓reduceIte, Bool.false_eq_true, p.env_offdiag]
    by_cases hfd : fdIsEmpty p.fdEff = true
    · have hk : p.keptE a.val b.val = true := by simp [keptE, hab, p.elimIn_false_of_empty hfd]
      simp only [hfd, ↓reduceIte, Matrix.add_apply, Matrix.zero_apply, zero_add,
        p.diag_entry hwf _ _ _ _ a b rfl, p.elimIn_false_of_empty hfd, Bool.false_eq_true, hk,
        Bool.true_and]
      by_cases hc : p.commuting (p.blk a.val) = true
      · simp [hc]
      · simp only [hc, Bool.false_eq_true, ↓reduceIte, Matrix.smul_apply, Matrix.add_apply, smul_eq_mul]
        rfl
    · simp only [hfd, Bool.false_eq_true, ↓reduceIte, Matrix.add_apply, Matrix.zero_apply, zero_add,
        p.diag_entry hwf _ _ _ _ a b rfl, p.offdiag_entry hwf _ _ _ _ a b rfl, keptE, hbeq,
        Bool.true_and]
      cases p.elimIn a.val b.val
      · by_cases hc : p.commuting (p.blk a.val) = true
        · simp [hc]
        · simp only [hc, Bool.false_eq_true, ↓reduceIte, Bool.not_false, Bool.and_false, add_zero, zero_add,
            Matrix.smul_apply, Matrix.add_apply, smul_eq_mul]
          rfl
      · simp only [↓reduceIte, Bool.not_true, Bool.false_and, Bool.false_eq_true, add_zero, zero_add,
          Matrix.smul_apply, Matrix.add_apply, smul_eq_mul]
        rfl
  · have hbeq : (p.blk a.val == p.blk b.val) = false := by simp [hab]
    have hbne : (p.blk a.val != p.blk b.val) = true := by simp [hab]
    have hkk : p.keptE a.val b.val = false := by simp [keptE, hab]
    simp only [hbeq, hbne, ↓reduceIte, Bool.false_eq_true, Matrix.add_apply, Matrix.zero_apply, zero_add,
      hkk, Bool.false_and, Matrix.smul_apply, smul_eq_mul]
    rfl

end Problem
end BlockDiag
end Pyma
