/-
The translated `main` passes the totality certificate, and the environment built by
`block_diagonalize` is total whenever the Sylvester solver does not raise; hence every element of
every series of `main` has a derivation (`Problem.total_main`), which discharges `Ready.tot`.
-/
import PymaVerif.Proofs.Total
import PymaVerif.Proofs.MainBlock

namespace Pyma
namespace Dsl
open Generated

def mainProducts : List String :=
  ["U'† @ U'", "H'_diag @ U'", "H'_offdiag @ U'", "U'† @ B", "V @ H'_diag"]

def mainCert : Cert where
  names := BlockDiag.Problem.mainNames
  inputs := ["H"]
  fns := ["solve_sylvester"]
  rank0 := fun x =>
    if x == "U'†" || x == "U" then 1
    else if x == "U†" || mainProducts.contains x then 2 else 0
  rankT := fun x =>
    if x == "H" then 0
    else if x == "H'_diag" || x == "H'_offdiag" then 1
    else if mainProducts.contains x then 2
    else if x == "W" || x == "B" then 3
    else if x == "X" then 4
    else if x == "Yadj" then 5
    else if x == "V" || x == "H_tilde" then 6
    else if x == "U'" || x == "U'†" then 7
    else 8
  z0 := fun x => ["H'_diag", "H'_offdiag", "V", "W", "Yadj", "U'", "X", "B", "U'†"].contains x
  one := fun x => x == "U" || x == "U†"

theorem mainCert_ok : mainCert.ok main = true := by decide

end Dsl

namespace BlockDiag
open Dsl Generated
namespace Problem

variable {K : Type} [Scalar K] (p : Problem K)

/-- the Sylvester solver's "subspaces must not share eigenvalues" check never fires -/
def NoShared : Prop := ∀ i j : Nat, (i != j && (List.range p.d).any fun a => (List.range p.d).any fun b =>
    p.inBlock i j a b && Scalar.isClose (p.energy a) (p.energy b)) = false

theorem maskVal_ne_one (keep : Nat → Nat → Bool) (v : SVal K) (idx : Idx) : p.maskVal keep v idx ≠ .one := by
  cases v <;> simp [maskVal]

theorem envTot (h : p.NoShared) : EnvTot mainCert p.env where
  inputs := rfl
  input_ne := by
    intro _ idx
    show p.inputH idx ≠ .one
    unfold inputH
    split
    · simp
    · simp only; split <;> simp
  fn_tot := by
    intro f hf v idx hv
    have hf' : f = "solve_sylvester" := by simpa [mainCert] using hf
    subst hf'
    show ∃ w, p.solveSylvester (.inr v) idx = .ok w ∧ w ≠ .one
    cases v with
    | zero => exact ⟨.zero, rfl, by simp⟩
    | one => exact absurd rfl hv
    | val y =>
      simp only [solveSylvester, h idx.i idx.j]
      exact ⟨_, rfl, by simp⟩
  diag_ne := by
    intro v idx hv
    show p.diagW v idx ≠ .one
    unfold diagW
    split
    · exact p.maskVal_ne_one _ _ _
    · exact hv
  offdiag_ne := by
    intro od hod v idx _
    have : od = p.offdiagW := by
      simp only [env] at hod
      split at hod
      · cases hod
      · exact (Option.some.inj hod).symm
    subst this
    unfold offdiagW
    split
    · exact p.maskVal_ne_one _ _ _
    · simp

/-- **Totality of `main`.** -/
theorem total_main (h : p.NoShared) (x : String) (hx : x ∈ mainNames) (idx : Idx) :
    ∃ v, Den main p.env x idx v := by
  obtain ⟨v, hv, _⟩ := Dsl.total mainCert_ok (p.envTot h) (deg idx.n) x hx idx rfl
  exact ⟨v, hv⟩

end Problem
end BlockDiag
end Pyma
