/-
Hadamard masks as additive maps on matrices and, coefficientwise, on power series; the constant
series; cancellation of 2.
-/
import PymaVerif.Proofs.SeriesInst
import Mathlib.Data.Matrix.Basic
import Mathlib.LinearAlgebra.Matrix.ConjTranspose
import Mathlib.Algebra.CharP.Invertible

open MvPowerSeries

namespace Pyma

variable {K : Type} [Field K] [StarRing K] {d : Nat}

abbrev Mt (K : Type) (d : Nat) := Matrix (Fin d) (Fin d) K

/-- keep the entries selected by `pred`, zero the others -/
def maskMap (pred : Fin d → Fin d → Bool) : Mt K d →+ Mt K d where
  toFun M := fun a b => if pred a b then M a b else 0
  map_zero' := by funext a b; simp
  map_add' M N := by
    funext a b
    show (if pred a b then (M + N) a b else 0) = (if pred a b then M a b else 0) + (if pred a b then N a b else 0)
    by_cases h : pred a b <;> simp [h]

theorem maskMap_apply (pred : Fin d → Fin d → Bool) (M : Mt K d) (a b : Fin d) :
    maskMap pred M a b = if pred a b then M a b else 0 := rfl

theorem maskMap_idem (pred : Fin d → Fin d → Bool) (M : Mt K d) :
    maskMap pred (maskMap pred M) = maskMap pred M := by
  funext a b; simp only [maskMap_apply]; by_cases h : pred a b <;> simp [h]

theorem maskMap_add_compl (pred : Fin d → Fin d → Bool) (M : Mt K d) :
    maskMap pred M + maskMap (fun a b => !pred a b) M = M := by
  funext a b; simp only [Matrix.add_apply, maskMap_apply]; by_cases h : pred a b <;> simp [h]

theorem maskMap_conjTranspose (pred : Fin d → Fin d → Bool) (hs : ∀ a b, pred a b = pred b a)
    (M : Mt K d) : (maskMap pred M).conjTranspose = maskMap pred M.conjTranspose := by
  funext a b
  simp only [Matrix.conjTranspose_apply, maskMap_apply, hs a b]
  by_cases h : pred b a <;> simp [h]

section series
variable {σ : Type} [DecidableEq σ]

abbrev Sr (σ : Type) (K : Type) (d : Nat) := MvPowerSeries σ (Mt K d)

theorem coeff_coeffwise (φ : Mt K d →+ Mt K d) (f : Sr σ K d) (m : σ →₀ ℕ) :
    coeff m (coeffwise φ f) = φ (coeff m f) := rfl

/-- a series is determined by its coefficients; for series without constant term it is enough to
look at the non-zero orders -/
theorem eq_of_coeff_ne_zero {f g : Sr σ K d} (hf : f ∈ FDeg σ (Mt K d) 1) (hg : g ∈ FDeg σ (Mt K d) 1)
    (h : ∀ m : σ →₀ ℕ, m ≠ 0 → coeff m f = coeff m g) : f = g := by
  ext m : 1
  by_cases hm : m = 0
  · subst hm
    have h0 : (0 : σ →₀ ℕ).degree < 1 := by simp
    rw [hf 0 h0, hg 0 h0]
  · exact h m hm

theorem mem_F1_iff (f : Sr σ K d) : f ∈ FDeg σ (Mt K d) 1 ↔ coeff 0 f = 0 := by
  constructor
  · intro h; exact h 0 (by simp)
  · intro h m hm
    have : m = 0 := by
      have hd : m.degree = 0 := by omega
      exact (Finsupp.degree_eq_zero_iff m).mp hd
    rw [this]; exact h

theorem coeff_two_mul (f : Sr σ K d) (m : σ →₀ ℕ) : coeff m (2 * f) = 2 * coeff m f := by
  rw [two_mul, two_mul, map_add]

theorem two_cancel_series (h2 : (2 : K) ≠ 0) (f g : Sr σ K d) (h : 2 * f = 2 * g) : f = g := by
  ext m a b
  have := congrArg (fun s : Sr σ K d => (coeff m s : Mt K d) a b) h
  simp only [coeff_two_mul] at this
  have e : ∀ M : Mt K d, (2 * M) a b = 2 * M a b := by
    intro M; rw [two_mul, two_mul, Matrix.add_apply]
  rw [e, e] at this
  exact mul_left_cancel₀ h2 this

theorem two_mem_series (h2 : (2 : K) ≠ 0) (k : ℕ) (f : Sr σ K d) (h : 2 * f ∈ FDeg σ (Mt K d) k) :
    f ∈ FDeg σ (Mt K d) k := by
  intro m hm
  have := h m hm
  rw [coeff_two_mul] at this
  funext a b
  have e : (2 * coeff m f) a b = 2 * coeff m f a b := by
    rw [two_mul, two_mul, Matrix.add_apply]
  have h0 := congrFun (congrFun this a) b
  rw [e] at h0
  simpa [h2] using h0

end series
end Pyma
