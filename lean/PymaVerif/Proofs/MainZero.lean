/-
Order-zero coefficients of the series of `main`.
-/
import PymaVerif.Proofs.MainBlock5

namespace Pyma
namespace BlockDiag
open Dsl Generated
namespace Problem

variable {K : Type} [Field K] [StarRing K] [DecidableEq K] [Thresholds K]
attribute [local instance] Scalar.ofField
variable (p : Problem K) (hwf : p.WF)

/-- unfold the one-step equation of a declared series of `main` at order 0 -/
macro "main_zero" p:term "," hwf:term "," htot:term "," nm:str "," hfind:term "," hdef:term "," hn:term : tactic =>
  `(tactic| (
    ext a b
    rw [Problem.g_entry $p $hwf $htot _ (by decide)]
    simp only [elemSem, kindOf_series (Problem.inputs_contains $p $nm (by decide)) $hfind, $hdef:term, startVal,
      Idx.isOrderZero, $hn:term, ↓reduceIte, sem]))

include hwf in
theorem g0_W (htot : p.Total) (n : List Nat) (hn : (n.all (· == 0)) = true) : p.g "W" n = 0 := by
  main_zero p, hwf, htot, "W", find_W, def_W, hn
include hwf in
theorem g0_V (htot : p.Total) (n : List Nat) (hn : (n.all (· == 0)) = true) : p.g "V" n = 0 := by
  main_zero p, hwf, htot, "V", find_V, def_V, hn
include hwf in
theorem g0_X (htot : p.Total) (n : List Nat) (hn : (n.all (· == 0)) = true) : p.g "X" n = 0 := by
  main_zero p, hwf, htot, "X", find_X, def_X, hn
include hwf in
theorem g0_B (htot : p.Total) (n : List Nat) (hn : (n.all (· == 0)) = true) : p.g "B" n = 0 := by
  main_zero p, hwf, htot, "B", find_B, def_B, hn
include hwf in
theorem g0_Y (htot : p.Total) (n : List Nat) (hn : (n.all (· == 0)) = true) : p.g "Yadj" n = 0 := by
  main_zero p, hwf, htot, "Yadj", find_Y, def_Y, hn
include hwf in
theorem g0_Hd (htot : p.Total) (n : List Nat) (hn : (n.all (· == 0)) = true) : p.g "H'_diag" n = 0 := by
  main_zero p, hwf, htot, "H'_diag", find_Hd, def_Hd, hn
include hwf in
theorem g0_Ho (htot : p.Total) (n : List Nat) (hn : (n.all (· == 0)) = true) : p.g "H'_offdiag" n = 0 := by
  main_zero p, hwf, htot, "H'_offdiag", find_Ho, def_Ho, hn
include hwf in
theorem g0_P (htot : p.Total) (n : List Nat) (hn : (n.all (· == 0)) = true) : p.g "U'" n = 0 := by
  main_zero p, hwf, htot, "U'", find_P, def_P, hn

include hwf in
/-- `U'†` has no start value; its order zero is computed, and vanishes -/
theorem g0_Q (htot : p.Total) (n : List Nat) (hn : (n.all (· == 0)) = true) : p.g "U'†" n = 0 := by
  ext a b
  rw [Problem.g_entry p hwf htot _ (by decide)]
  simp only [elemSem, kindOf_series (Problem.inputs_contains p "U'†" (by decide)) find_Q, def_Q, startVal,
    Idx.isOrderZero, hn, ↓reduceIte, bodySem, exprSem, zero_add, Matrix.sub_apply]
  rw [mat_at, mat_at, p.g0_W hwf htot n hn, p.g0_V hwf htot n hn]
  simp

end Problem
end BlockDiag
end Pyma
