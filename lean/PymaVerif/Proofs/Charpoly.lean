/-
C04 in its literal form: the characteristic polynomial of the effective Hamiltonian equals that of `H(λ)`.
A power series with `d × d` matrix coefficients is the same thing as a `d × d` matrix of power series (`toMatS`, a ring homomorphism);
there `U` is a unit with inverse `U†` and `H̃ = U⁻¹ H U`, so the two characteristic polynomials — polynomials whose coefficients are power
series in the perturbation parameters — coincide: every coefficient agrees at every order.
-/
import PymaVerif.Proofs.Trace
import Mathlib.LinearAlgebra.Matrix.Charpoly.Basic

namespace Pyma
open MvPowerSeries

section
variable {K : Type} [Field K] {d : Nat} {σ : Type} [DecidableEq σ]

/-- a series of matrices as a matrix of series (as a function) -/
noncomputable def tm (f : MvPowerSeries σ (Matrix (Fin d) (Fin d) K)) : Matrix (Fin d) (Fin d) (MvPowerSeries σ K) :=
  fun a b => (fun m => coeff m f a b : MvPowerSeries σ K)

theorem coeff_tm (f : MvPowerSeries σ (Matrix (Fin d) (Fin d) K)) (a b : Fin d) (m : σ →₀ ℕ) :
    coeff m (tm f a b) = coeff m f a b := rfl

/-- a series of matrices as a matrix of series: a ring homomorphism -/
noncomputable def toMatS : MvPowerSeries σ (Matrix (Fin d) (Fin d) K) →+* Matrix (Fin d) (Fin d) (MvPowerSeries σ K) where
  toFun := tm
  map_zero' := by
    ext a b m
    rw [coeff_tm]; simp
  map_one' := by
    ext a b m
    rw [coeff_tm, coeff_one, Matrix.one_apply]
    by_cases hm : m = 0
    · subst hm
      by_cases hab : a = b
      · subst hab; simp
      · simp [hab]
    · by_cases hab : a = b
      · subst hab; simp [hm, coeff_one]
      · simp [hm, hab]
  map_add' f g := by
    ext a b m
    rw [Matrix.add_apply, map_add, coeff_tm, coeff_tm, coeff_tm, map_add, Matrix.add_apply]
  map_mul' f g := by
    ext a b m
    rw [coeff_tm, coeff_mul, Matrix.mul_apply, map_sum, Matrix.sum_apply]
    simp only [coeff_mul, Matrix.mul_apply, coeff_tm]
    rw [Finset.sum_comm]

theorem toMatS_apply (f : MvPowerSeries σ (Matrix (Fin d) (Fin d) K)) (a b : Fin d) (m : σ →₀ ℕ) :
    coeff m (toMatS f a b) = coeff m f a b := rfl

end

namespace BlockDiag
namespace Problem
open Dsl Generated

variable {K : Type} [Field K] [StarRing K] [DecidableEq K] [Thresholds K]
attribute [local instance] Scalar.ofField
variable {p : Problem K} [LawfulThresholds K] (h : p.Accepted) (h2 : (2 : K) ≠ 0)

include h h2 in
/-- **C04 (characteristic polynomial)**: as polynomials with power-series coefficients, `charpoly H̃ = charpoly H` -/
theorem C04_charpoly : (toMatS (p.sr "H_tilde")).charpoly = (toMatS (p.sr "H")).charpoly := by
  obtain ⟨u1, u2, _⟩ := C02 h h2
  let M : (Matrix (Fin p.d) (Fin p.d) (MvPowerSeries (Fin p.nparams) K))ˣ :=
    ⟨toMatS (p.sr "U"), toMatS (p.sr "U†"), by rw [← map_mul, u2, map_one], by rw [← map_mul, u1, map_one]⟩
  have e : toMatS (p.sr "H_tilde") = M.val⁻¹ * toMatS (p.sr "H") * M.val := by
    rw [← C01 h h2, map_mul, map_mul]
    have : M.val⁻¹ = toMatS (p.sr "U†") := by
      rw [Matrix.inv_eq_right_inv]
      show toMatS (p.sr "U") * toMatS (p.sr "U†") = 1
      rw [← map_mul, u2, map_one]
    rw [this]
  rw [e, Matrix.charpoly_units_conj']

end Problem
end BlockDiag
end Pyma
#print axioms Pyma.BlockDiag.Problem.C04_charpoly
