/-
The loop of `kpm.greens_function` terminates and returns a solution within the requested accuracy, or warns and returns the last
solution computed (whose residue exceeds the accuracy).
-/
import PymaVerif.Model.Kpm
import Mathlib.Tactic

namespace Pyma
namespace Kpm

theorem loop_spec (resid : Nat → Rat) (atol : Rat) (maxM : Nat) :
    ∀ (fuel m : Nat) (last : Option Nat), (last.isSome = true ∨ m ≤ maxM) →
      (∀ l, last = some l → resid l > atol) → maxM < m * 4 ^ fuel →
      ∃ k, (loop resid atol maxM fuel m last).moments = some k ∧
        ((loop resid atol maxM fuel m last).warned = false → resid k ≤ atol) ∧
        ((loop resid atol maxM fuel m last).warned = true → resid k > atol) := by
  intro fuel
  induction fuel with
  | zero =>
    intro m last h1 h2 hlt
    simp only [Nat.pow_zero, Nat.mul_one] at hlt
    unfold loop
    have hm : m > maxM := hlt
    simp only [hm, ↓reduceIte]
    rcases h1 with h | h
    · obtain ⟨l, hl⟩ := Option.isSome_iff_exists.mp h
      exact ⟨l, hl, by simp, fun _ => h2 l hl⟩
    · omega
  | succ fuel ih =>
    intro m last h1 h2 hlt
    unfold loop
    by_cases hm : m > maxM
    · simp only [hm, ↓reduceIte]
      rcases h1 with h | h
      · obtain ⟨l, hl⟩ := Option.isSome_iff_exists.mp h
        exact ⟨l, hl, by simp, fun _ => h2 l hl⟩
      · omega
    · simp only [hm, ↓reduceIte]
      by_cases hr : resid m > atol
      · simp only [hr, ↓reduceIte]
        have hlt' : maxM < 4 * m * 4 ^ fuel := by
          have : m * 4 ^ (fuel + 1) = 4 * m * 4 ^ fuel := by rw [Nat.pow_succ]; ac_rfl
          omega
        obtain ⟨k, hk, hnw, hw⟩ := ih (4 * m) (some m) (.inl rfl) (fun l hl => by cases hl; exact hr) hlt'
        exact ⟨k, hk, hnw, hw⟩
      · simp only [hr, ↓reduceIte]
        exact ⟨m, rfl, fun _ => Rat.not_lt.mp hr, fun h => by cases h⟩

/-- **C16 (KPM, control flow)**: for every `max_moments ≥ 1` the call returns a solution (`sol` is bound); without a warning its residue is
within the requested accuracy; with the warning the accuracy was not reached.  `fuel` iterations suffice as soon as
`max_moments < min(10, max_moments) · 4^fuel` — the loop terminates. -/
theorem greens_spec (resid : Nat → Rat) (atol : Rat) (maxM fuel : Nat) (hfuel : maxM < min 10 maxM * 4 ^ fuel) :
    ∃ k, (greens resid atol maxM fuel).moments = some k ∧
      ((greens resid atol maxM fuel).warned = false → resid k ≤ atol) ∧
      ((greens resid atol maxM fuel).warned = true → resid k > atol) := by
  unfold greens
  exact loop_spec resid atol maxM fuel (min 10 maxM) none (.inr (Nat.min_le_right 10 maxM)) (fun l hl => by cases hl) hfuel

/-- enough fuel exists for every `max_moments ≥ 1` -/
theorem greens_fuel (maxM : Nat) (h1 : 1 ≤ maxM) : maxM < min 10 maxM * 4 ^ maxM := by
  have h4 : maxM < 4 ^ maxM := Nat.lt_pow_self (by norm_num)
  have hm : 1 ≤ min 10 maxM := by omega
  calc maxM < 4 ^ maxM := h4
    _ = 1 * 4 ^ maxM := (Nat.one_mul _).symm
    _ ≤ min 10 maxM * 4 ^ maxM := Nat.mul_le_mul_right _ hm

example : greens (fun m => 1 / (m : Rat)) (1 / 100) 1000 5 = ⟨some 160, false⟩ := by decide +kernel
example : greens (fun m => 1 / (m : Rat)) (1 / 100000) 1000 5 = ⟨some 640, true⟩ := by decide +kernel
example : greens (fun m => 1 / (m : Rat)) (1 / 100) 5 3 = ⟨some 5, true⟩ := by decide +kernel          -- fewer than 10 moments allowed: the 5-moment solution, with the warning

end Kpm
end Pyma
