/-
The loop of `kpm.greens_function` terminates and returns a solution within the requested accuracy, or warns and returns the last
solution computed (whose residue exceeds the accuracy).
-/
import PymaVerif.Model.Kpm

namespace Pyma
namespace Kpm

theorem loop_spec (resid : Nat → Rat) (atol : Rat) (maxM : Nat) :
    ∀ (fuel m : Nat) (last : Option Nat), (last.isSome = true ∨ m ≤ maxM) →
      (∀ l, last = some l → resid l > atol) → maxM < m * 4 ^ fuel →
      ∃ k, (loop resid atol maxM fuel m last).moments = some k ∧
        ((loop resid atol maxM fuel m last).warned = false → resid k ≤ atol) ∧
        ((loop resid atol maxM fuel m last).warned = true → resid k > atol) := by
  intro fuel
  induction fuel with
  | zero =>
    intro m last h1 h2 hlt
    simp only [Nat.pow_zero, Nat.mul_one] at hlt
    unfold loop
    have hm : m > maxM := hlt
    simp only [hm, ↓reduceIte]
    rcases h1 with h | h
    · obtain ⟨l, hl⟩ := Option.isSome_iff_exists.mp h
      exact ⟨l, hl, by simp, fun _ => h2 l hl⟩
    · omega
  | succ fuel ih =>
    intro m last h1 h2 hlt
    unfold loop
    by_cases hm : m > maxM
    · simp only [hm, ↓reduceIte]
      rcases h1 with h | h
      · obtain ⟨l, hl⟩ := Option.isSome_iff_exists.mp h
        exact ⟨l, hl, by simp, fun _ => h2 l hl⟩
      · omega
    · simp only [hm, ↓reduceIte]
      by_cases hr : resid m > atol
      · simp only [hr, ↓reduceIte]
        have hlt' : maxM < 4 * m * 4 ^ fuel := by
          have : m * 4 ^ (fuel + 1) = 4 * m * 4 ^ fuel := by rw [Nat.pow_succ]; ac_rfl
          omega
        obtain ⟨k, hk, hnw, hw⟩ := ih (4 * m) (some m) (.inl rfl) (fun l hl => by cases hl; exact hr) hlt'
        exact ⟨k, hk, hnw, hw⟩
      · simp only [hr, ↓reduceIte]
        exact ⟨m, rfl, fun _ => Rat.not_lt.mp hr, fun h => by cases h⟩

/-- **C16 (KPM, control flow)**: with `max_moments ≥ 10` the call returns a solution (`sol` is bound); without a warning its residue is
within the requested accuracy; with the warning the accuracy was not reached.  `fuel` iterations suffice as soon as
`max_moments < 10 · 4^fuel` — the loop terminates. -/
theorem greens_spec (resid : Nat → Rat) (atol : Rat) (maxM fuel : Nat) (h10 : 10 ≤ maxM) (hfuel : maxM < 10 * 4 ^ fuel) :
    ∃ k, (greens resid atol maxM fuel).moments = some k ∧
      ((greens resid atol maxM fuel).warned = false → resid k ≤ atol) ∧
      ((greens resid atol maxM fuel).warned = true → resid k > atol) := by
  obtain ⟨k, hk, hnw, hw⟩ := loop_spec resid atol maxM fuel 10 none (.inr h10) (fun l hl => by cases hl) hfuel
  exact ⟨k, hk, hnw, hw⟩

/-- with `max_moments < 10` the Python function raises `UnboundLocalError` (no solution was ever computed): recorded behaviour -/
theorem greens_unbound (resid : Nat → Rat) (atol : Rat) (maxM fuel : Nat) (h : maxM < 10) :
    greens resid atol maxM fuel = ⟨none, true⟩ := by
  unfold greens loop
  have : 10 > maxM := h
  simp [this]

example : greens (fun m => 1 / (m : Rat)) (1 / 100) 1000 5 = ⟨some 160, false⟩ := by decide +kernel
example : greens (fun m => 1 / (m : Rat)) (1 / 100000) 1000 5 = ⟨some 640, true⟩ := by decide +kernel

end Kpm
end Pyma
