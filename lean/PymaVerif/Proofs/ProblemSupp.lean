/-
The energy division of a `Problem` returns a matrix supported on the block it is asked for, whatever
it is given — the support obligation of `Inter` for every instance whose first environment is a `Problem`.
-/
import PymaVerif.Proofs.SemNatural
import PymaVerif.Proofs.Covariance

namespace Pyma
namespace BlockDiag
namespace Problem
open Dsl

variable {K : Type} [Field K] [StarRing K] [DecidableEq K] [Thresholds K]
attribute [local instance] Scalar.ofField
variable (p : Problem K)

theorem fnVal_supp (hwf : p.WF) (f : String) (X : MatK K p.blocks) (idx : Idx)
    (_ : SuppM p.blocks idx.i idx.j X) : SuppM p.blocks idx.i idx.j ((p.envSem hwf).fnVal f X idx) := by
  intro a b hn
  show (if f == "solve_sylvester" then p.solveSem X idx else 0) a b = 0
  split
  · simp only [solveSem]
    have : p.inBlock idx.i idx.j a.val b.val = false := by
      simp only [inBlock, Bool.and_eq_false_iff, beq_eq_false_iff_ne]
      by_contra h
      push_neg at h
      exact hn ⟨h.1, h.2⟩
    simp [this]
  · rfl

end Problem
end BlockDiag
end Pyma
