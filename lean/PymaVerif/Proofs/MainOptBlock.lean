/-
Entry-level equations of `W` and `Yadj` when `two_block_optimized` is set.
-/
import PymaVerif.Proofs.MainBlock4

namespace Pyma
namespace BlockDiag
open Dsl Generated
namespace Problem

variable {K : Type} [Field K] [StarRing K] [DecidableEq K] [Thresholds K]
attribute [local instance] Scalar.ofField
variable (p : Problem K) (hwf : p.WF)

theorem empty_of_opt (hopt : p.twoBlockOptimized = true) : fdIsEmpty p.fdEff = true := by
  simp only [twoBlockOptimized, Bool.and_eq_true] at hopt; exact hopt.2

theorem nblocks_of_opt (hopt : p.twoBlockOptimized = true) : p.nblocks = 2 := by
  simp only [twoBlockOptimized, Bool.and_eq_true, beq_iff_eq] at hopt; exact hopt.1

include hwf in
/-- optimised `W`: diagonal blocks only -/
theorem g_W_upper_opt (htot : p.Total) (hopt : p.twoBlockOptimized = true) (n : List Nat)
    (hn : (n.all (· == 0)) = false) (a b : Fin p.d) (hle : ¬ p.blk a.val > p.blk b.val) :
    p.g "W" n a b = if p.blk a.val = p.blk b.val then ((-2 : ℤ) : K)⁻¹ * p.g "U'† @ U'" n a b else 0 := by
  have hfd := p.empty_of_opt hopt
  main_step p, hwf, htot, "W", find_W, def_W, hn
  simp only [hle, ↓reduceIte, flag_opt, hopt]
  by_cases hab : p.blk a.val = p.blk b.val
  · have hbeq : (p.blk a.val == p.blk b.val) = true := by simp [hab]
    have hbne : (p.blk a.val != p.blk b.val) = false := by simp [hab]
    rw [if_pos hab]
    simp only [hbeq, hbne, ↓reduceIte, Bool.false_eq_true, p.env_offdiag, hfd,
      Matrix.add_apply, Matrix.zero_apply, zero_add,
      p.diag_entry hwf _ _ _ _ a b rfl, p.elimIn_false_of_empty hfd,
      Matrix.smul_apply, smul_eq_mul]
    rfl
  · have hbeq : (p.blk a.val == p.blk b.val) = false := by simp [hab]
    have hbne : (p.blk a.val != p.blk b.val) = true := by simp [hab]
    rw [if_neg hab]
    simp only [hbeq, hbne, ↓reduceIte, Bool.false_eq_true, Matrix.add_apply, Matrix.zero_apply,
      zero_add]

include hwf in
/-- optimised `Yadj`: `X.adj` on the upper off-diagonal block, nothing on the diagonal blocks -/
theorem g_Y_upper_opt (htot : p.Total) (hopt : p.twoBlockOptimized = true) (n : List Nat)
    (hn : (n.all (· == 0)) = false) (a b : Fin p.d) (hle : ¬ p.blk a.val > p.blk b.val) :
    p.g "Yadj" n a b = if p.blk a.val = p.blk b.val then 0 else star (p.g "X" n b a) := by
  have hfd := p.empty_of_opt hopt
  have hcomm : ∀ i, p.commuting i = true := by
    intro i
    unfold commuting
    cases hf : p.fdEff with
    | none => rfl
    | tuple l => rfl
    | dict l => simp [fdIsEmpty, hf] at hfd; simp [hfd]
  main_step p, hwf, htot, "Yadj", find_Y, def_Y, hn
  simp only [hle, ↓reduceIte, flag_opt, flag_comm, hopt, hcomm]
  by_cases hab : p.blk a.val = p.blk b.val
  · have hbeq : (p.blk a.val == p.blk b.val) = true := by simp [hab]
    have hbne : (p.blk a.val != p.blk b.val) = false := by simp [hab]
    rw [if_pos hab]
    simp only [hbeq, hbne, ↓reduceIte, Bool.false_eq_true, p.env_offdiag, hfd,
      Matrix.add_apply, Matrix.zero_apply, zero_add, p.diag_entry hwf _ _ _ _ a b rfl,
      p.elimIn_false_of_empty hfd]
  · have hbeq : (p.blk a.val == p.blk b.val) = false := by simp [hab]
    have hbne : (p.blk a.val != p.blk b.val) = true := by simp [hab]
    rw [if_neg hab]
    simp only [hbeq, hbne, ↓reduceIte, Bool.false_eq_true, Matrix.add_apply, Matrix.zero_apply,
      zero_add]
    rfl

end Problem
end BlockDiag
end Pyma
