/-
Views of a BlockSeries (`series[item]` with `item` on the finite dimensions only): `Index.view` — the real code's packed intermediate series,
which asks its parent for `item + (slice(i, i + 1) for the orders)` and reshapes — shows, at the orders `o`, exactly the parent elements
`src ++ o` for the sources `src` of NumPy's selection `select shape item`, in the same row-major order and with NumPy's shape.
-/
import PymaVerif.Proofs.IndexBounds

namespace Pyma
namespace Index

/-! ### trailing slices of length one -/

def unitAxes (o : List Nat) : List NAx := o.map fun i => NAx.range [i]

theorem stepRange_unit (i : Nat) : stepRange i (i + 1) 1 = [i] := by
  simp [stepRange]

theorem clip_self (n : Nat) (h : i ≤ n) : clip n (i : Int) = i := by
  unfold clip
  have : ¬ ((i : Int) < 0) := by omega
  simp only [this, ↓reduceIte, Int.toNat_natCast]
  omega

theorem normAx_unit (i : Nat) : normAx (i + 1) (.slice (some (i : Int)) (some ((i : Int) + 1)) 1) = .ok (.range [i]) := by
  have h1 : clip (i + 1) (i : Int) = i := clip_self (i + 1) (by omega)
  have h2 : clip (i + 1) ((i : Int) + 1) = i + 1 := by
    have := clip_self (i := i + 1) (i + 1) (by omega)
    simpa using this
  simp [normAx, sliceIdx, h1, h2, stepRange_unit]

theorem normAll_units : ∀ o : List Nat,
    normAll (o.map (· + 1)) (o.map fun (i : Nat) => Ax.slice (some (i : Int)) (some ((i : Int) + 1)) 1) = .ok (unitAxes o)
  | [] => rfl
  | i :: o => by
      simp only [List.map_cons, normAll, normAx_unit, normAll_units o, bind, Except.bind, pure, Except.pure, unitAxes]

theorem trialLen_units (o : List Nat) :
    (o.map fun (i : Nat) => Ax.slice (some (i : Int)) (some ((i : Int) + 1)) 1).map trialLen = o.map (· + 1) := by
  simp only [List.map_map]
  apply List.map_congr_left
  intro i _
  simp only [Function.comp, trialLen, Option.getD_some]
  omega

theorem checkFinite_units : ∀ o : List Nat, checkFinite (o.map fun (i : Nat) => Ax.slice (some (i : Int)) (some ((i : Int) + 1)) 1) = true
  | [] => rfl
  | i :: o => by
      simp only [List.map_cons, checkFinite, Option.isSome_some, negBound, checkFinite_units o, Bool.and_true, Bool.true_and,
        Bool.not_eq_eq_eq_not, Bool.not_true, decide_eq_false_iff_not, not_lt, Bool.and_eq_true]
      omega

/-! ### groups: trailing ranges stay at the end -/

theorem takeWhile_append_stop {α : Type} (q : α → Bool) : ∀ (l t : List α), (∃ p ∈ l, q p = false) →
    (l ++ t).takeWhile q = l.takeWhile q ∧ (l ++ t).dropWhile q = l.dropWhile q ++ t
  | [], _, h => by obtain ⟨p, hp, _⟩ := h; simp at hp
  | x :: xs, t, h => by
      by_cases hx : q x = true
      · obtain ⟨p, hp, hq⟩ := h
        have hp' : p ∈ xs := by
          rcases List.mem_cons.mp hp with rfl | hp'
          · rw [hx] at hq; cases hq
          · exact hp'
        obtain ⟨h1, h2⟩ := takeWhile_append_stop q xs t ⟨p, hp', hq⟩
        simp [List.takeWhile_cons, List.dropWhile_cons, hx, h1, h2]
      · simp [List.takeWhile_cons, List.dropWhile_cons, hx]

theorem takeWhile_all {α : Type} (q : α → Bool) : ∀ (a b : List α), (∀ p ∈ a, q p = true) → (a ++ b).takeWhile q = a ++ b.takeWhile q
  | [], _, _ => rfl
  | x :: xs, b, h => by
      have hx : q x = true := h x (List.mem_cons_self ..)
      simp [List.takeWhile_cons, hx, takeWhile_all q xs b (fun p hp => h p (List.mem_cons_of_mem _ hp))]

theorem filter_all_true {α : Type} (q : α → Bool) (t : List α) (h : ∀ p ∈ t, q p = true) : t.filter q = t :=
  List.filter_eq_self.mpr h

theorem filter_all_false {α : Type} (q : α → Bool) (t : List α) (h : ∀ p ∈ t, q p = false) : t.filter q = [] := by
  apply List.filter_eq_nil_iff.mpr
  intro p hp
  simp [h p hp]

theorem manyLens_ranges (t : List (NAx × Nat)) (ht : ∀ p ∈ t, p.1.isRange = true) : manyLens t = [] := by
  unfold manyLens
  apply List.filterMap_eq_nil_iff.mpr
  intro p hp
  obtain ⟨a, k⟩ := p
  have := ht _ hp
  cases a <;> simp_all [NAx.isRange]

theorem isMany_of_isRange {a : NAx} (h : a.isRange = true) : a.isMany = false := by
  cases a <;> simp_all [NAx.isRange, NAx.isMany]

/-- ranges appended to an item stay dimensions of their own, after everything else -/
theorem groups_append_ranges (l t : List (NAx × Nat)) (ht : ∀ p ∈ t, p.1.isRange = true) :
    groups (l ++ t) = (groups l).map (· ++ t.map rangeGroup) := by
  have hall : (l ++ t).all (fun p => !p.1.isMany) = l.all (fun p => !p.1.isMany) := by
    rw [List.all_append]
    have : t.all (fun p => !p.1.isMany) = true := by
      apply List.all_eq_true.mpr
      intro p hp
      simp [isMany_of_isRange (ht p hp)]
    rw [this, Bool.and_true]
  unfold groups
  rw [hall]
  by_cases hb : l.all (fun p => !p.1.isMany) = true
  · simp only [hb, ↓reduceIte, Except.map, List.map_append]
  · simp only [hb, Bool.false_eq_true, ↓reduceIte]
    have hex : ∃ p ∈ l, p.1.isRange = false := by
      have : ¬ ∀ p ∈ l, (!p.1.isMany) = true := fun h => hb (List.all_eq_true.mpr h)
      push Not at this
      obtain ⟨p, hp, hm⟩ := this
      refine ⟨p, hp, ?_⟩
      cases hp1 : p.1 <;> simp_all [NAx.isRange, NAx.isMany]
    have hfilt : (l ++ t).filter (fun p => !p.1.isRange) = l.filter (fun p => !p.1.isRange) := by
      rw [List.filter_append, filter_all_false _ t (fun p hp => by simp [ht p hp]), List.append_nil]
    have hlens : manyLens (l ++ t) = manyLens l := by
      unfold manyLens
      rw [List.filterMap_append]
      have := manyLens_ranges t ht
      unfold manyLens at this
      rw [this, List.append_nil]
    obtain ⟨htw, hdw⟩ := takeWhile_append_stop (fun p : NAx × Nat => p.1.isRange) l t hex
    rw [hfilt, hlens, htw, hdw]
    by_cases hbc : (manyLens l).all (fun n => decide (n = 1 ∨ n = bcLen (manyLens l))) = true
    · simp only [hbc, ↓reduceIte]
      set rest := l.dropWhile (fun p => p.1.isRange) with hrest
      have hpost : (((rest ++ t).reverse.takeWhile (fun p => p.1.isRange)).reverse) = (rest.reverse.takeWhile (fun p => p.1.isRange)).reverse ++ t := by
        rw [List.reverse_append, takeWhile_all _ t.reverse rest.reverse (fun p hp => ht p (List.mem_reverse.mp hp))]
        simp
      rw [hpost]
      set post := (rest.reverse.takeWhile (fun p => p.1.isRange)).reverse with hpostdef
      have hple : post.length ≤ rest.length := by
        rw [hpostdef, List.length_reverse]
        have := (List.takeWhile_prefix (fun p : NAx × Nat => p.1.isRange) (l := rest.reverse)).length_le
        simpa using this
      have hmid : (rest ++ t).take ((rest ++ t).length - (post ++ t).length) = rest.take (rest.length - post.length) := by
        have : (rest ++ t).length - (post ++ t).length = rest.length - post.length := by
          simp only [List.length_append]; omega
        rw [this, List.take_append_of_le_length (by omega)]
      rw [hmid]
      have hfr : (l ++ t).filter (fun p => p.1.isRange) = l.filter (fun p => p.1.isRange) ++ t := by
        rw [List.filter_append, filter_all_true _ t ht]
      rw [hfr]
      split <;> simp [Except.map, List.map_append, List.append_assoc]
    · simp only [hbc, Bool.false_eq_true, ↓reduceIte, Except.map]

/-! ### products and sources -/

theorem product_append : ∀ gs T : List Group, product (gs ++ T) = (product gs).flatMap fun a => (product T).map (a ++ ·)
  | [], T => by simp [product]
  | g :: r, T => by
      simp only [List.cons_append, product, product_append r T, List.flatMap_assoc, List.map_flatMap, List.flatMap_map, List.map_map,
        Function.comp_def, List.append_assoc]

/-- the assignments of the trailing unit ranges -/
def unitAs : Nat → List Nat → List (Nat × Nat)
  | _, [] => []
  | n, i :: o => (n, i) :: unitAs (n + 1) o

theorem product_units : ∀ (n : Nat) (o : List Nat), product (((unitAxes o).zipIdx n).map rangeGroup) = [unitAs n o]
  | _, [] => rfl
  | n, i :: o => by
      simp only [unitAxes, List.map_cons, List.zipIdx_cons, rangeGroup, product, List.flatMap_cons, List.flatMap_nil, List.append_nil,
        List.map_cons, List.map_nil] at *
      have := product_units (n + 1) o
      simp only [unitAxes] at this
      rw [this]
      simp [unitAs]

theorem find_unitAs_lt : ∀ (n : Nat) (o : List Nat) (k : Nat), k < n → (unitAs n o).find? (·.1 == k) = none
  | _, [], _, _ => rfl
  | n, i :: o, k, h => by
      have hne : (n == k) = false := by simp; omega
      simp [unitAs, List.find?_cons, hne, find_unitAs_lt (n + 1) o k (by omega)]

theorem find_unitAs_ge : ∀ (n : Nat) (o : List Nat) (j : Nat) (hj : j < o.length), (unitAs n o).find? (·.1 == n + j) = some (n + j, o[j])
  | _, [], _, hj => by simp at hj
  | n, i :: o, 0, _ => by simp [unitAs, List.find?_cons]
  | n, i :: o, j + 1, hj => by
      have hne : (n == n + (j + 1)) = false := by simp
      have := find_unitAs_ge (n + 1) o j (by simpa using hj)
      have e : n + 1 + j = n + (j + 1) := by omega
      rw [e] at this
      simp [unitAs, List.find?_cons, hne, this]

theorem toSource_append_units (n : Nat) (o : List Nat) (as : List (Nat × Nat)) (hk : ∀ p ∈ as, p.1 < n) :
    toSource (n + o.length) (as ++ unitAs n o) = toSource n as ++ o := by
  unfold toSource
  rw [List.range_add, List.map_append]
  congr 1
  · apply List.map_congr_left
    intro k hk'
    have hk' : k < n := List.mem_range.mp hk'
    rw [List.find?_append, find_unitAs_lt n o k hk']
    simp
  · rw [List.map_map]
    apply List.ext_getElem (by simp)
    intro j h1 h2
    have hj : j < o.length := by simpa using h1
    have hnone : as.find? (·.1 == n + j) = none := by
      apply List.find?_eq_none.mpr
      intro p hp
      have := hk p hp
      simp; omega
    simp only [List.getElem_map, List.getElem_range, Function.comp, List.find?_append, hnone, Option.none_or, find_unitAs_ge n o j hj,
      Option.map_some, Option.getD_some]

/-! ### assembling an item followed by unit ranges -/

theorem units_isRange : ∀ (n : Nat) (o : List Nat), ∀ p ∈ (unitAxes o).zipIdx n, p.1.isRange = true
  | _, [], p, hp => by simp [unitAxes] at hp
  | n, i :: o, p, hp => by
      simp only [unitAxes, List.map_cons, List.zipIdx_cons, List.mem_cons] at hp
      rcases hp with rfl | hp
      · rfl
      · exact units_isRange (n + 1) o p hp

theorem units_shape : ∀ (n : Nat) (o : List Nat),
    ((((unitAxes o).zipIdx n).map rangeGroup).filter (·.dim)).map (·.alts.length) = o.map fun _ => 1
  | _, [] => rfl
  | n, i :: o => by
      have := units_shape (n + 1) o
      simp only [unitAxes] at this
      simp [unitAxes, List.zipIdx_cons, rangeGroup, this]

theorem groups_valid {l : List NAx} {gs : List Group} (h : groups l.zipIdx = .ok gs) : ∀ g ∈ gs, ∀ alt ∈ g.alts, ValidAs l alt := by
  obtain ⟨L, hL, hform, _⟩ := groups_form h
  intro g hg
  rcases hform g hg with ⟨p, hp, rfl⟩ | rfl
  · exact rangeGroup_valid hp
  · exact advGroup_valid hL

theorem flatMap_single {α : Type} (f : α → α) : ∀ l : List α, l.flatMap (fun a => [f a]) = l.map f
  | [] => rfl
  | a :: r => by simp [List.flatMap_cons, flatMap_single f r]

theorem assemble_append_units (xs : List NAx) (o : List Nat) :
    assemble (xs ++ unitAxes o) = (assemble xs).map fun r => ⟨r.shape ++ o.map (fun _ => 1), r.sources.map (· ++ o)⟩ := by
  unfold assemble
  rw [List.zipIdx_append, groups_append_ranges _ _ (units_isRange _ o)]
  cases hg : groups xs.zipIdx with
  | error e => rfl
  | ok gs =>
    simp only [Except.map, bind, Except.bind, pure, Except.pure, Except.ok.injEq, Result.mk.injEq]
    refine ⟨?_, ?_⟩
    · rw [List.filter_append, List.map_append]
      have := units_shape (0 + xs.length) o
      rw [this]
    · rw [product_append, product_units]
      simp only [List.map_cons, List.map_nil, List.map_map]
      rw [flatMap_single (· ++ unitAs (0 + xs.length) o), List.map_map]
      apply List.map_congr_left
      intro as has
      have hv := product_valid gs (groups_valid hg) as has
      have hlen : (xs ++ unitAxes o).length = xs.length + o.length := by simp [unitAxes]
      simp only [Function.comp, hlen, Nat.zero_add]
      exact toSource_append_units xs.length o as (fun p hp => (hv p hp).1)

/-- NumPy's selection for `item` followed by the orders as slices of length one -/
theorem select_viewItem (shape : List Nat) (item : List Ax) (o : List Nat) (hlen : shape.length = item.length) :
    select (shape ++ o.map (· + 1)) (viewItem item o) =
      (select shape item).map fun r => ⟨r.shape ++ o.map (fun _ => 1), r.sources.map (· ++ o)⟩ := by
  unfold select viewItem
  rw [normAll_append hlen, normAll_units]
  cases hn : normAll shape item with
  | error e => rfl
  | ok xs =>
    simp only [bind, Except.bind, pure, Except.pure]
    rw [assemble_append_units]

/-! ### the number of entries is the product of the shape -/

theorem length_flatMap_const {α β : Type} (f : α → List β) (c : Nat) : ∀ as : List α, (∀ a ∈ as, (f a).length = c) →
    (as.flatMap f).length = as.length * c
  | [], _ => by simp
  | a :: r, h => by
      rw [List.flatMap_cons, List.length_append, h a (List.mem_cons_self ..),
        length_flatMap_const f c r (fun x hx => h x (List.mem_cons_of_mem _ hx)), List.length_cons]
      rw [Nat.add_mul, Nat.one_mul, Nat.add_comm]

theorem product_length : ∀ gs : List Group, (product gs).length = prodL (gs.map (·.alts.length))
  | [] => rfl
  | g :: r => by
      simp only [product, List.map_cons, prodL]
      rw [length_flatMap_const _ (prodL (r.map (·.alts.length))) g.alts (fun a _ => by rw [List.length_map, product_length r])]

theorem prodL_filter_dim : ∀ gs : List Group, (∀ g ∈ gs, g.dim = false → g.alts.length = 1) →
    prodL ((gs.filter (·.dim)).map (·.alts.length)) = prodL (gs.map (·.alts.length))
  | [], _ => rfl
  | g :: r, h => by
      have ih := prodL_filter_dim r (fun x hx => h x (List.mem_cons_of_mem _ hx))
      by_cases hd : g.dim = true
      · simp only [List.filter_cons, hd, ↓reduceIte, List.map_cons, prodL, ih]
      · have hd' : g.dim = false := by simpa using hd
        simp only [List.filter_cons, hd, Bool.false_eq_true, ↓reduceIte, List.map_cons, prodL, ih, h g (List.mem_cons_self ..) hd',
          Nat.one_mul]

theorem groups_nondim {l : List NAx} {gs : List Group} (h : groups l.zipIdx = .ok gs) : ∀ g ∈ gs, g.dim = false → g.alts.length = 1 := by
  obtain ⟨L, _, hform, _⟩ := groups_form h
  intro g hg hd
  rcases hform g hg with ⟨⟨a, k⟩, _, rfl⟩ | rfl
  · cases a <;> simp_all [rangeGroup]
  · simp [advGroup] at hd

/-- **shape and contents agree**: NumPy's selection has as many entries as its shape says -/
theorem select_length {dims : List Nat} {item : List Ax} {r : Result} (h : select dims item = .ok r) : r.sources.length = prodL r.shape := by
  unfold select at h
  simp only [bind, Except.bind] at h
  split at h
  · cases h
  · rename_i l hl
    unfold assemble at h
    simp only [bind, Except.bind] at h
    split at h
    · cases h
    · rename_i gs hgs
      simp only [pure, Except.pure, Except.ok.injEq] at h
      subst h
      simp only [List.length_map]
      rw [product_length, prodL_filter_dim gs (groups_nondim hgs)]

/-! ### the view -/

/-- **views**: `series[item]` for an item on the finite dimensions has NumPy's shape for `item` and shows, at the orders `o`, the parent
elements `src ++ o` for the sources `src` of NumPy's selection, in the same order; the parent evaluates exactly those, each once -/
theorem view_spec (shape : List Nat) (item : List Ax) (o : List Nat) (hlen : item.length = shape.length) {v : Result}
    (hv : select shape item = .ok v) :
    view shape item o = .ok ⟨v.shape, v.sources.map (· ++ o), positions (v.sources.map (· ++ o))⟩ := by
  have hdrop : (viewItem item o).drop shape.length = o.map fun (i : Nat) => Ax.slice (some (i : Int)) (some ((i : Int) + 1)) 1 := by
    unfold viewItem
    rw [← hlen, List.drop_left]
  have hsel := select_viewItem shape item o hlen.symm
  rw [hv] at hsel
  have hget : getitem shape o.length (viewItem item o) =
      .ok ⟨v.shape ++ o.map (fun _ => 1), v.sources.map (· ++ o), positions (v.sources.map (· ++ o))⟩ := by
    unfold getitem
    have hl : (viewItem item o).length = shape.length + o.length := by simp [viewItem, hlen]
    simp only [hdrop, checkFinite_units, Bool.not_true, Bool.false_eq_true, ↓reduceIte, hl, ne_eq, not_true_eq_false, trialDims,
      trialLen_units, hsel, Except.map, bind, Except.bind, pure, Except.pure]
  unfold view
  simp only [hv, hget, bind, Except.bind, List.length_map, select_length hv, ↓reduceIte, pure, Except.pure]

/-- a view is rejected exactly when NumPy rejects the item on the finite shape -/
theorem view_rejects (shape : List Nat) (item : List Ax) (o : List Nat) {e : Err} (hv : select shape item = .error e) :
    view shape item o = .error e := by
  unfold view
  simp only [hv, bind, Except.bind]

end Index
end Pyma
