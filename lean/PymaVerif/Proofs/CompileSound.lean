/-
C09: the reference compiler preserves meaning.  Whatever a compiled body returns (run with any
lookup whose answers are the denotations of the source program) satisfies the ring-level one-step
semantics of the source clauses.  Two parts: a purely syntactic identity between the ring-level
denotations of source and compiled expressions (where the re-association and sign pushing of the
compiler disappear into ring laws), and the soundness of the evaluator of compiled bodies.
-/
import PymaVerif.Model.CBody
import PymaVerif.Proofs.StepSem
import Mathlib.Tactic.Abel

namespace Pyma
namespace Dsl

variable {K : Type} [Field K] [StarRing K] [DecidableEq K] [Thresholds K]
attribute [local instance] Scalar.ofField
variable {B : Blocks} {p : Prog} {env : Env K}

/-- ring-level denotation of a compiled expression; an argument list denotes the sum of its elements;
`R` is the current value of `result` -/
noncomputable def cSem (S : EnvSem B env) (p : Prog) (idx : Idx) (R : MatK K B) : CExpr → MatK K B
  | .result => R
  | .zero => 0
  | .elem x sw => mat B p env x (if sw then idx.swap else idx)
  | .serArg x => mat B p env x idx
  | .dagger e => (cSem S p idx R e).conjTranspose
  | .neg e => -cSem S p idx R e
  | .zsum a => cSem S p idx R a
  | .sdiv e k => ((k : K)⁻¹) • cSem S p idx R e
  | .call f (.acons (.serArg x) .anil) =>
      if f == "diag" then S.diag (mat B p env x idx) idx
      else if f == "offdiag" then S.offdiag (mat B p env x idx) idx
      else S.fnSer f x idx
  | .call f a =>
      if f == "diag" then S.diag (cSem S p idx R a) idx
      else if f == "offdiag" then S.offdiag (cSem S p idx R a) idx
      else S.fnVal f (cSem S p idx R a) idx
  | .ite fl t e => if evalFlag env idx fl then cSem S p idx R t else cSem S p idx R e
  | .anil => 0
  | .acons h t => cSem S p idx R h + cSem S p idx R t

variable (S : EnvSem B env) (idx : Idx) (R : MatK K B)

theorem cSem_ofList (l : List CExpr) : cSem S p idx R (CExpr.ofList l) = (l.map (cSem S p idx R)).sum := by
  induction l with
  | nil => simp [CExpr.ofList, cSem]
  | cons x xs ih => simp [CExpr.ofList, cSem, ih]

theorem cargs_toList_ofList (l : List CExpr) : CExpr.sumArgs.toList (CExpr.ofList l) = l := by
  induction l with
  | nil => rfl
  | cons x xs ih => simp [CExpr.ofList, CExpr.sumArgs.toList, ih]

theorem cSem_negate (ce : CExpr) : cSem S p idx R (CExpr.negate ce) = -cSem S p idx R ce := by
  cases ce <;> simp [CExpr.negate, cSem]

theorem sum_map_negate (l : List CExpr) :
    ((l.map CExpr.negate).map (cSem S p idx R)).sum = -(l.map (cSem S p idx R)).sum := by
  induction l with
  | nil => simp
  | cons x xs ih =>
    simp only [List.map_cons, List.sum_cons, cSem_negate]
    rw [ih]; abel

/-- the arguments an expression contributes to an enclosing `_zero_sum` add up to its value -/
theorem sum_sumArgs (dg : Bool) (e : Expr) :
    ((compileExpr dg e).sumArgs.map (cSem S p idx R)).sum = cSem S p idx R (compileExpr dg e) := by
  cases e <;> simp [compileExpr, CExpr.sumArgs, cSem, cargs_toList_ofList, cSem_ofList]

/-- source expressions do not call the two functions the compiler itself inserts -/
def Expr.noReserved : Expr → Bool
  | .ser _ => true
  | .adj _ => true
  | .neg e => noReserved e
  | .add a b => noReserved a && noReserved b
  | .sub a b => noReserved a && noReserved b
  | .divInt e _ => noReserved e
  | .callSer f _ => f != "diag" && f != "offdiag"
  | .callExpr f e => f != "diag" && f != "offdiag" && noReserved e
  | .zero => true
  | .ite _ t e => noReserved t && noReserved e

theorem compileExpr_not_serArg (dg : Bool) (e : Expr) (x : String) : compileExpr dg e ≠ .serArg x := by
  cases e <;> simp [compileExpr]

/-- **the compiler is invisible at ring level**: flattening, re-association and sign pushing preserve
the denotation of every expression -/
theorem cSem_compileExpr (dg : Bool) (hdg : dg = true → idx.swap = idx) (e : Expr) :
    e.noReserved = true → cSem S p idx R (compileExpr dg e) = exprSem S p idx e := by
  induction e with
  | ser x => intro _; simp [compileExpr, cSem, exprSem]
  | adj x =>
    intro _
    simp only [compileExpr, cSem, exprSem]
    cases dg
    · simp
    · simp [hdg rfl]
  | neg e ih => intro h; simp [compileExpr, cSem, exprSem, ih h]
  | add a b iha ihb =>
    intro h
    simp only [Expr.noReserved, Bool.and_eq_true] at h
    simp only [compileExpr, cSem, exprSem, cSem_ofList, List.map_append, List.sum_append, sum_sumArgs,
      iha h.1, ihb h.2]
  | sub a b iha ihb =>
    intro h
    simp only [Expr.noReserved, Bool.and_eq_true] at h
    simp only [compileExpr, cSem, exprSem, cSem_ofList, List.map_append, List.sum_append, sum_sumArgs,
      sum_map_negate, iha h.1, ihb h.2]
    abel
  | divInt e k ih => intro h; simp [compileExpr, cSem, exprSem, ih h]
  | callSer f x =>
    intro h
    simp only [Expr.noReserved, Bool.and_eq_true, bne_iff_ne, ne_eq] at h
    simp [compileExpr, cSem, exprSem, CExpr.ofList, h.1, h.2]
  | callExpr f e ih =>
    intro h
    simp only [Expr.noReserved, Bool.and_eq_true, bne_iff_ne, ne_eq] at h
    have hne := compileExpr_not_serArg dg e
    simp only [compileExpr, CExpr.ofList, exprSem]
    rw [cSem]
    · simp [h.1.1, h.1.2, cSem, ih h.2]
    · intro x hx
      simp only [CExpr.acons.injEq, and_true] at hx
      exact hne x hx
  | zero => intro _; simp [compileExpr, cSem, exprSem]
  | ite fl t e iht ihe =>
    intro h
    simp only [Expr.noReserved, Bool.and_eq_true] at h
    simp [compileExpr, cSem, exprSem, iht h.1, ihe h.2]

/-! ## statements -/

/-- ring-level denotation of a compiled body -/
noncomputable def cStmtSem (S : EnvSem B env) (p : Prog) (idx : Idx) : List CStmt → MatK K B → MatK K B
  | [], R => R
  | .assign e :: rest, R => cStmtSem S p idx rest (cSem S p idx R e)
  | .lower e :: rest, R => if idx.i > idx.j then cSem S p idx R e else cStmtSem S p idx rest R
  | .diag e :: rest, R =>
      if (idx.i == idx.j) = true then cStmtSem S p idx rest (cSem S p idx R e) else cStmtSem S p idx rest R
  | .off e :: rest, R =>
      if (idx.i != idx.j) = true then cStmtSem S p idx rest (cSem S p idx R e) else cStmtSem S p idx rest R
  | .offwrap e :: rest, R =>
      if (env.offdiag.isSome && idx.i == idx.j) = true then cStmtSem S p idx rest (cSem S p idx R e)
      else cStmtSem S p idx rest R

/-- `result + e` -/
theorem cSem_accumulate (ce : CExpr) (h : (ce.sumArgs.map (cSem S p idx R)).sum = cSem S p idx R ce) :
    cSem S p idx R (accumulate ce) = R + cSem S p idx R ce := by
  simp only [accumulate, cSem, cSem_ofList, List.map_cons, List.sum_cons, h]

theorem sumArgs_single (ce : CExpr) (h : ∀ a, ce ≠ .zsum a) : ce.sumArgs = [ce] := by
  cases ce <;> first | rfl | exact absurd rfl (h _)

def Stmt.noReserved : Stmt → Bool
  | .marker _ => true
  | .clause _ e => e.noReserved

theorem cSem_wrapCall_diag (e : Expr) (hsw : idx.swap = idx) (he : e.noReserved = true) :
    cSem S p idx R (wrapCall "diag" true e) = S.diag (exprSem S p idx e) idx := by
  cases e with
  | ser x => simp [wrapCall, cSem, exprSem, CExpr.ofList]
  | _ =>
    simp only [wrapCall, CExpr.ofList]
    rw [cSem]
    · simp only [beq_self_eq_true, ↓reduceIte, cSem, add_zero]
      rw [cSem_compileExpr S idx R true (fun _ => hsw) _ he]
    · intro x hx
      simp only [CExpr.acons.injEq, and_true] at hx
      exact compileExpr_not_serArg true _ x hx

theorem cSem_wrapCall_offdiag (e : Expr) (he : e.noReserved = true) :
    cSem S p idx R (wrapCall "offdiag" false e) = S.offdiag (exprSem S p idx e) idx := by
  cases e with
  | ser x => simp [wrapCall, cSem, exprSem, CExpr.ofList]
  | _ =>
    simp only [wrapCall, CExpr.ofList]
    rw [cSem]
    · have : (("offdiag" : String) == "diag") = false := by decide
      simp only [this, Bool.false_eq_true, beq_self_eq_true, ↓reduceIte, cSem, add_zero]
      rw [cSem_compileExpr S idx R false (fun h => by cases h) _ he]
    · intro x hx
      simp only [CExpr.acons.injEq, and_true] at hx
      exact compileExpr_not_serArg false _ x hx

/-- **C09, ring level**: the compiled body of a series denotes the one-step semantics of its clauses -/
theorem cStmtSem_compile (self : String) (body : List Stmt) (hb : ∀ st ∈ body, st.noReserved = true) :
    ∀ R, cStmtSem S p idx (body.flatMap (compileStmt self)) R = bodySem S p self idx body R := by
  induction body with
  | nil => intro R; rfl
  | cons st rest ih =>
    intro R
    have ih' := ih (fun st' h => hb st' (List.mem_cons_of_mem _ h))
    have hst := hb st (List.mem_cons_self)
    rw [List.flatMap_cons]
    cases st with
    | marker anti =>
      simp only [compileStmt, List.cons_append, List.nil_append, cStmtSem, bodySem]
      by_cases hlow : idx.i > idx.j
      · simp only [hlow, ↓reduceIte]
        cases anti
        · rw [cSem_accumulate _ _ _ _ (by simp [CExpr.sumArgs, cSem])]
          simp [cSem]
        · rw [cSem_accumulate _ _ _ _ (by simp [CExpr.sumArgs, cSem])]
          simp [cSem]
      · simp only [hlow, ↓reduceIte]; exact ih' R
    | clause cd e =>
      have he : e.noReserved = true := hst
      cases cd with
      | default =>
        simp only [compileStmt, List.cons_append, List.nil_append, cStmtSem, bodySem]
        rw [cSem_accumulate _ _ _ _ (sum_sumArgs S idx R false e),
          cSem_compileExpr S idx R false (fun h => by cases h) e he]
        exact ih' _
      | diagonal =>
        simp only [compileStmt, List.cons_append, List.nil_append, cStmtSem, bodySem]
        by_cases hd : (idx.i == idx.j) = true
        · have hsw : idx.swap = idx := by
            have : idx.i = idx.j := by simpa using hd
            cases idx; simp_all [Idx.swap]
          simp only [hd, ↓reduceIte]
          rw [cSem_accumulate _ _ _ _ (by
            rw [sumArgs_single _ (by intro a; cases e <;> simp [wrapCall])]; simp),
            cSem_wrapCall_diag S idx R e hsw he]
          exact ih' _
        · simp only [hd, Bool.false_eq_true, ↓reduceIte]; exact ih' R
      | offdiagonal =>
        simp only [compileStmt, List.cons_append, List.nil_append, cStmtSem, bodySem]
        by_cases hne : (idx.i != idx.j) = true
        · have heq : (idx.i == idx.j) = false := by simpa using hne
          simp only [hne, ↓reduceIte, heq, Bool.and_false, Bool.false_eq_true]
          rw [cSem_accumulate _ _ _ _ (sum_sumArgs S idx R false e),
            cSem_compileExpr S idx R false (fun h => by cases h) e he]
          exact ih' _
        · have heq : (idx.i == idx.j) = true := by simpa using hne
          simp only [hne, Bool.false_eq_true, ↓reduceIte, heq, Bool.and_true]
          cases ho : env.offdiag with
          | none => simp only [Option.isSome_none, Bool.false_eq_true, ↓reduceIte]; exact ih' R
          | some od =>
            simp only [Option.isSome_some, ↓reduceIte]
            rw [cSem_accumulate _ _ _ _ (by
              rw [sumArgs_single _ (by intro a; cases e <;> simp [wrapCall])]; simp),
              cSem_wrapCall_offdiag S idx R e he]
            exact ih' _
      | lower =>
        simp only [compileStmt, List.cons_append, List.nil_append, cStmtSem, bodySem]
        by_cases hlow : idx.i > idx.j
        · simp only [hlow, ↓reduceIte]
          rw [cSem_accumulate _ _ _ _ (sum_sumArgs S idx R false e),
            cSem_compileExpr S idx R false (fun h => by cases h) e he]
        · simp only [hlow, ↓reduceIte]; exact ih' R

end Dsl
end Pyma
#print axioms Pyma.Dsl.cStmtSem_compile
