/-
`Yadj` of `main` is Hermitian and `V` anti-Hermitian — entrywise, from the block equations and the
symmetry of the accepted input (symmetric masks, real energies).
-/
import PymaVerif.Proofs.MainW
import PymaVerif.Proofs.MainOptBlock

namespace Pyma
namespace BlockDiag
open Dsl Generated MvPowerSeries
namespace Problem

variable {K : Type} [Field K] [StarRing K] [DecidableEq K] [Thresholds K]
attribute [local instance] Scalar.ofField
variable (p : Problem K)

/-- symmetry of an accepted Hermitian problem -/
structure Sym : Prop where
  elim_symm : ∀ a b : Fin p.d, p.blk a.val = p.blk b.val → p.elimIn a.val b.val = p.elimIn b.val a.val
  energy_real : ∀ a : Fin p.d, star (p.energy a.val) = p.energy a.val
  absGt_neg : ∀ x : K, Thresholds.absGt (-x) p.atol = Thresholds.absGt x p.atol

variable (R : p.Ready) (hopt : p.twoBlockOptimized = false) (Y : p.Sym)

include Y in
theorem keptE_symm (a b : Fin p.d) : p.keptE a.val b.val = p.keptE b.val a.val := by
  simp only [keptE]
  by_cases h : p.blk a.val = p.blk b.val
  · rw [Y.elim_symm a b h, h]
  · have h' : ¬ p.blk b = p.blk a := fun e => h e.symm
    have e1 : (p.blk a == p.blk b) = false := by simpa using h
    have e2 : (p.blk b == p.blk a) = false := by simpa using h'
    rw [e1, e2, Bool.false_and, Bool.false_and]

theorem star_intCast_inv (k : ℤ) : star (((k : ℤ) : K)⁻¹) = ((k : ℤ) : K)⁻¹ := by
  rw [star_inv₀, star_intCast]

include R Y in
/-- `Yadj` is Hermitian at every order -/
theorem Y_herm (n : List Nat) (hn : (n.all (· == 0)) = false) (a b : Fin p.d) :
    star (p.g "Yadj" n b a) = p.g "Yadj" n a b := by
  rcases Nat.lt_trichotomy (p.blk a.val) (p.blk b.val) with h | h | h
  · rw [p.g_Y_lower R.wf R.tot n hn b a h, star_star]
  · have hle1 : ¬ p.blk a.val > p.blk b.val := by omega
    have hle2 : ¬ p.blk b.val > p.blk a.val := by omega
    cases hopt : p.twoBlockOptimized
    · rw [p.g_Y_upper R.wf R.tot hopt n hn a b hle1, p.g_Y_upper R.wf R.tot hopt n hn b a hle2,
        p.keptE_symm Y b a, ← h]
      by_cases hc : (p.keptE a.val b.val && p.commuting (p.blk a.val)) = true
      · simp [hc]
      · simp only [hc, Bool.false_eq_true, ↓reduceIte, star_mul', star_add, star_star, star_intCast_inv]
        rw [add_comm]
    · rw [p.g_Y_upper_opt R.wf R.tot hopt n hn a b hle1, p.g_Y_upper_opt R.wf R.tot hopt n hn b a hle2,
        if_pos h, if_pos h.symm, star_zero]
  · rw [p.g_Y_lower R.wf R.tot n hn a b h]


include R Y in
/-- `V` is anti-Hermitian at every order -/
theorem V_antiherm (n : List Nat) (hn : (n.all (· == 0)) = false) (a b : Fin p.d) :
    star (p.g "V" n b a) = -p.g "V" n a b := by
  rcases Nat.lt_trichotomy (p.blk a.val) (p.blk b.val) with h | h | h
  · rw [p.g_V_lower R.wf R.tot n hn b a h, star_neg, star_star]
  · have hle1 : ¬ p.blk a.val > p.blk b.val := by omega
    have hle2 : ¬ p.blk b.val > p.blk a.val := by omega
    have hne1 : (p.blk a.val != p.blk b.val) = false := by simp [h]
    have hne2 : (p.blk b.val != p.blk a.val) = false := by simp [h]
    rw [p.g_V_upper R.wf R.tot n hn a b hle1, p.g_V_upper R.wf R.tot n hn b a hle2, hne1, hne2,
      Y.elim_symm b a h.symm]
    simp only [Bool.false_or]
    by_cases he : p.elimIn a.val b.val = true
    · simp only [he, ↓reduceIte, star_neg, neg_neg]
      have hgt : Scalar.absGt (p.energy b.val - p.energy a.val) p.atol
          = Scalar.absGt (p.energy a.val - p.energy b.val) p.atol := by
        have := Y.absGt_neg (p.energy a.val - p.energy b.val)
        rw [neg_sub] at this
        exact this
      rw [hgt]
      by_cases hg : Scalar.absGt (p.energy a.val - p.energy b.val) p.atol = true
      · simp only [hg, ↓reduceIte, star_mul', star_sub, star_star, star_inv₀, Y.energy_real]
        rw [p.Y_herm R Y n hn a b]
        have : (p.energy b.val - p.energy a.val)⁻¹ = -(p.energy a.val - p.energy b.val)⁻¹ := by
          rw [← neg_sub, neg_inv]
        rw [this]
        ring
      · simp [hg]
    · simp [he]
  · rw [p.g_V_lower R.wf R.tot n hn a b h, neg_neg]

end Problem
end BlockDiag
end Pyma
