/-
C12 at the level of the reference semantics: the value of an element at multi-order `n` depends
on the input series only through its terms at orders `≤ n` componentwise.  Generic in the program.
-/
import PymaVerif.Proofs.Splits
import PymaVerif.Proofs.DslDen

namespace Pyma
namespace Dsl

variable {K : Type} [Scalar K]

/-- componentwise order on multi-orders of the same length -/
def ole (a b : List Nat) : Prop := a.length = b.length ∧ ∀ i, a.getD i 0 ≤ b.getD i 0

theorem ole_refl (a : List Nat) : ole a a := ⟨rfl, fun _ => Nat.le_refl _⟩

theorem ole_trans {a b c : List Nat} (h1 : ole a b) (h2 : ole b c) : ole a c :=
  ⟨h1.1.trans h2.1, fun i => Nat.le_trans (h1.2 i) (h2.2 i)⟩

theorem splits_ole {n a b : List Nat} (h : (a, b) ∈ splits n) : ole a n ∧ ole b n := by
  obtain ⟨h1, h2, h3⟩ := mem_splits.mp h
  refine ⟨⟨h1, fun i => ?_⟩, ⟨h2, fun i => ?_⟩⟩
  · by_cases hi : i < n.length
    · have := h3 i hi; omega
    · have ha : a.length ≤ i := by omega
      have hn : n.length ≤ i := by omega
      simp [List.getD_eq_getElem?_getD, List.getElem?_eq_none ha, List.getElem?_eq_none hn]
  · by_cases hi : i < n.length
    · have := h3 i hi; omega
    · have hb : b.length ≤ i := by omega
      have hn : n.length ≤ i := by omega
      simp [List.getD_eq_getElem?_getD, List.getElem?_eq_none hb, List.getElem?_eq_none hn]

/-- the multi-order a judgement is about -/
def J.ord : J K → List Nat
  | .elem _ idx => idx.n
  | .expr _ idx => idx.n
  | .body _ idx _ _ => idx.n
  | .pairs _ _ idx _ _ => idx.n

/-- the triples of a product judgement are splits of its order -/
def J.ok : J K → Prop
  | .pairs _ _ idx ps _ => ∀ t ∈ ps, ole t.2.1 idx.n ∧ ole t.2.2 idx.n
  | _ => True

/-- the same environment with another input series -/
def Env.withInput (env : Env K) (inp : String → Idx → SVal K) : Env K := { env with input := inp }

/-- the two input series agree at every order `≤ n` -/
def AgreeUpTo (env : Env K) (inp : String → Idx → SVal K) (n : List Nat) : Prop :=
  ∀ h (idx : Idx), ole idx.n n → env.input h idx = inp h idx

theorem startVal_withInput {env : Env K} {inp : String → Idx → SVal K} {st : Start} {idx : Idx}
    (hag : AgreeUpTo env inp idx.n) : startVal (env.withInput inp) st idx = startVal env st idx := by
  unfold startVal
  cases st <;> simp only [Env.withInput]
  rw [hag _ idx (ole_refl _)]

theorem Holds.causal {p : Prog} {env : Env K} (inp : String → Idx → SVal K) {j : J K} {v : SVal K}
    (h : Holds p env j v) : j.ok → AgreeUpTo env inp j.ord → Holds p (env.withInput inp) j v := by
  induction h with
  | ser _ ih => exact fun _ hag => .ser (ih trivial hag)
  | adj _ ih => exact fun _ hag => .adj (ih trivial hag)
  | neg _ hv ih => exact fun _ hag => .neg (ih trivial hag) hv
  | add _ _ hv iha ihb => exact fun _ hag => .add (iha trivial hag) (ihb trivial hag) hv
  | sub _ _ hv iha ihb => exact fun _ hag => .sub (iha trivial hag) (ihb trivial hag) hv
  | divInt _ hv ih => exact fun _ hag => .divInt (ih trivial hag) hv
  | callSer hv => exact fun _ _ => .callSer hv
  | callExpr _ hv ih => exact fun _ hag => .callExpr (ih trivial hag) hv
  | zero => exact fun _ _ => .zero
  | iteT hf _ ih => exact fun _ hag => .iteT hf (ih trivial hag)
  | iteF hf _ ih => exact fun _ hag => .iteF hf (ih trivial hag)
  | bnil => exact fun _ _ => .bnil
  | markerHit hc _ hv ih => exact fun _ hag => .markerHit hc (ih trivial hag) hv
  | markerMiss hc _ ih => exact fun _ hag => .markerMiss hc (ih trivial hag)
  | lowerHit hc _ hv ih => exact fun _ hag => .lowerHit hc (ih trivial hag) hv
  | lowerMiss hc _ ih => exact fun _ hag => .lowerMiss hc (ih trivial hag)
  | diagHit hc _ hv _ ihe ihb => exact fun _ hag => .diagHit hc (ihe trivial hag) hv (ihb trivial hag)
  | diagMiss hc _ ih => exact fun _ hag => .diagMiss hc (ih trivial hag)
  | offHit hc _ hv _ ihe ihb => exact fun _ hag => .offHit hc (ihe trivial hag) hv (ihb trivial hag)
  | offWrap hc hod _ hv _ ihe ihb =>
    exact fun _ hag => .offWrap hc hod (ihe trivial hag) hv (ihb trivial hag)
  | offSkip hc hod _ ih => exact fun _ hag => .offSkip hc hod (ih trivial hag)
  | default _ hv _ ihe ihb => exact fun _ hag => .default (ihe trivial hag) hv (ihb trivial hag)
  | pnil => exact fun _ _ => .pnil
  | leftZero hc _ hz _ ihl ihr =>
    intro hok hag
    have hrest := fun t ht => hok t (List.mem_cons_of_mem _ ht)
    have hb := hok _ (List.mem_cons_self)
    exact .leftZero hc (ihl trivial (fun h idx hle => hag h idx (ole_trans hle hb.1))) hz (ihr hrest hag)
  | leftThenRightZero hc _ hz _ hzr _ ihl ihrr ihr =>
    intro hok hag
    have hrest := fun t ht => hok t (List.mem_cons_of_mem _ ht)
    have hb := hok _ (List.mem_cons_self)
    exact .leftThenRightZero hc (ihl trivial (fun h idx hle => hag h idx (ole_trans hle hb.1))) hz
      (ihrr trivial (fun h idx hle => hag h idx (ole_trans hle hb.2))) hzr (ihr hrest hag)
  | rightZero hc _ hz _ ihrr ihr =>
    intro hok hag
    have hrest := fun t ht => hok t (List.mem_cons_of_mem _ ht)
    have hb := hok _ (List.mem_cons_self)
    exact .rightZero hc (ihrr trivial (fun h idx hle => hag h idx (ole_trans hle hb.2))) hz (ihr hrest hag)
  | rightThenLeftZero hc _ hzr _ hz _ ihrr ihl ihr =>
    intro hok hag
    have hrest := fun t ht => hok t (List.mem_cons_of_mem _ ht)
    have hb := hok _ (List.mem_cons_self)
    exact .rightThenLeftZero hc (ihrr trivial (fun h idx hle => hag h idx (ole_trans hle hb.2))) hzr
      (ihl trivial (fun h idx hle => hag h idx (ole_trans hle hb.1))) hz (ihr hrest hag)
  | both _ hz _ hzr hv _ ihl ihrr ihr =>
    intro hok hag
    have hrest := fun t ht => hok t (List.mem_cons_of_mem _ ht)
    have hb := hok _ (List.mem_cons_self)
    exact .both (ihl trivial (fun h idx hle => hag h idx (ole_trans hle hb.1))) hz
      (ihrr trivial (fun h idx hle => hag h idx (ole_trans hle hb.2))) hzr hv (ihr hrest hag)
  | @input x idx hk =>
    intro _ hag
    have e : env.input x idx = inp x idx := hag x idx (ole_refl _)
    rw [e]
    exact Holds.input (env := env.withInput inp) hk
  | pinned hk hs =>
    intro _ hag
    exact Holds.pinned (env := env.withInput inp) hk (by rw [startVal_withInput hag]; exact hs)
  | body hk hs _ ih =>
    intro _ hag
    exact Holds.body (env := env.withInput inp) hk (by rw [startVal_withInput hag]; exact hs) (ih trivial hag)
  | @product x a b idx v hk _ ih =>
    intro _ hag
    refine Holds.product (env := env.withInput inp) hk (ih ?_ hag)
    intro t ht
    simp only [pairsOf, List.mem_flatMap, List.mem_range, List.mem_map, Prod.exists] at ht
    obtain ⟨m, _, na, nb, hm, rfl⟩ := ht
    exact splits_ole hm

/-- **C12 (semantics)**: changing the input series above order `n` does not change element `n` -/
theorem Den.causal {p : Prog} {env : Env K} (inp : String → Idx → SVal K) {x : String} {idx : Idx}
    {v : SVal K} (h : Den p env x idx v) (hag : AgreeUpTo env inp idx.n) :
    Den p (env.withInput inp) x idx v :=
  Holds.causal inp h trivial hag

end Dsl
end Pyma
#print axioms Pyma.Dsl.Den.causal
