/-
C15, further instances through uniqueness: (i) two accepted problems on the same states and parameters — whatever their block labels, number of
blocks, form of `fully_diagonalize` and tolerance — whose Hamiltonians differ by `c·1` and which keep the same entries have the same `U`
(relabelling blocks, regrouping blocks, describing the same elimination pattern by indices or by masks); (ii) scaling the whole Hamiltonian by a
real non-zero constant leaves `U` unchanged.
-/
import PymaVerif.Proofs.Covariance

namespace Pyma

namespace TheoremU
variable {S : Type*} [Ring S] [StarRing S]

/-- scaling the Hamiltonian by a central element that commutes with the kept-part projection maps solutions to solutions -/
theorem Sol.scale {c c' : Ctx S} (hΦ : c'.Φ = c.Φ) (hSel : c'.Sel = c.Sel) (z : S) (hz : ∀ y, z * y = y * z)
    (hzsel : ∀ x, c.Sel (z * x) = z * c.Sel x) (hham : c'.H0 + c'.H' = z * (c.H0 + c.H')) {P : S} (h : Sol c P) : Sol c' P := by
  refine ⟨by rw [hΦ]; exact h.mem, h.unit, by rw [hSel]; exact h.gauge, ?_⟩
  rw [hSel, hham]
  have e : (1 + star P) * (z * (c.H0 + c.H')) * (1 + P) = z * ((1 + star P) * (c.H0 + c.H') * (1 + P)) := by
    calc (1 + star P) * (z * (c.H0 + c.H')) * (1 + P) = ((1 + star P) * z) * (c.H0 + c.H') * (1 + P) := by noncomm_ring
      _ = (z * (1 + star P)) * (c.H0 + c.H') * (1 + P) := by rw [hz]
      _ = _ := by noncomm_ring
  rw [e, hzsel, ← mul_sub, h.elim, mul_zero]

end TheoremU

namespace BlockDiag
open Dsl Generated MvPowerSeries
namespace Problem

variable {K : Type} [Field K] [StarRing K] [DecidableEq K] [Thresholds K]
attribute [local instance] Scalar.ofField

/-- another problem on the same states and parameters: terms, block labels, number of blocks, `fully_diagonalize` and tolerance may all differ -/
abbrev reshape (p : Problem K) (ts : List (List Nat × Mat K)) (bo : Array Nat) (nb : Nat) (fd : FD) (at_ : Rat) : Problem K :=
  { p with terms := ts, blockOf := bo, nblocks := nb, fd := fd, atol := at_ }

variable (p : Problem K) (ts : List (List Nat × Mat K)) (bo : Array Nat) (nb : Nat) (fd : FD) (at_ : Rat)

/-- **C15 (same elimination pattern)**: `U` depends on the problem only through the Hamiltonian series (up to a multiple of the identity) and the
set of kept entries -/
theorem C15_same_pattern [LawfulThresholds K] (hp : p.Accepted) (hq : (p.reshape ts bo nb fd at_).Accepted) (h2 : (2 : K) ≠ 0)
    (c : K)
    (hkept : ∀ a b : Fin p.d, (p.reshape ts bo nb fd at_).keptE a.val b.val = p.keptE a.val b.val)
    (hH : p.sr "H" = (p.reshape ts bo nb fd at_).sr "H" + p.scalarS c) :
    p.sr "U'" = (p.reshape ts bo nb fd at_).sr "U'" := by
  let q := p.reshape ts bo nb fd at_
  have hsel : ∀ x : Sr (Fin p.nparams) K p.d, p.SelS x = q.SelS x := by
    intro x
    ext m a b
    rw [coeff_SelS]
    show _ = (if q.keptE a.val b.val then coeff m x a b else 0)
    rw [hkept]
  have hT : TheoremU.Hom (p.ctx hp.ready hp.acc h2) (q.ctx hq.ready hq.acc h2)
      (RingHom.id _) (p.scalarS c) := by
    refine ⟨fun _ => rfl, fun _ _ hx => hx, fun x => hsel x, ?_, p.scalarS_central c, ?_⟩
    · show p.H0s + (p.sr "H'_diag" + p.sr "H'_offdiag") = q.H0s + (q.sr "H'_diag" + q.sr "H'_offdiag") + p.scalarS c
      have e1 := p.sr_H hp.ready hp.acc
      have e2 := q.sr_H hq.ready hq.acc
      rw [← add_assoc, ← e1, ← add_assoc, ← e2]
      exact hH
    · show q.SelS (p.scalarS c) = p.scalarS c
      ext m a b
      rw [coeff_SelS]
      show (if q.keptE a.val b.val then coeff m (p.scalarS c) a b else 0) = _
      simp only [scalarS, coeff_C]
      by_cases hm : m = 0
      · simp only [hm, ↓reduceIte, Matrix.smul_apply, Matrix.one_apply, smul_eq_mul]
        by_cases hab : a = b
        · subst hab; rw [hq.diag_kept]; simp
        · simp [hab]
      · simp [hm]
  exact TheoremU.transport (q.ctx hq.ready hq.acc h2) hT (p.sol_main hp.ready hp.sym hp.acc h2)
    (q.sol_main hq.ready hq.sym hq.acc h2)

/-- **C15 (relabelling / regrouping blocks)**: the same Hamiltonian with other block labels but the same kept entries has the same `U` -/
theorem C15_relabel [LawfulThresholds K] (hp : p.Accepted) (hq : (p.reshape ts bo nb fd at_).Accepted) (h2 : (2 : K) ≠ 0)
    (hkept : ∀ a b : Fin p.d, (p.reshape ts bo nb fd at_).keptE a.val b.val = p.keptE a.val b.val)
    (hH : p.sr "H" = (p.reshape ts bo nb fd at_).sr "H") :
    p.sr "U'" = (p.reshape ts bo nb fd at_).sr "U'" := by
  apply p.C15_same_pattern ts bo nb fd at_ hp hq h2 0 hkept
  rw [hH]
  simp [scalarS]

/-- **C15 (scaling the whole Hamiltonian)**: `H ↦ s·H` (`s` any non-zero scalar; the tolerances of the second problem are its own) leaves `U` unchanged -/
theorem C15_scale_whole [LawfulThresholds K] (hp : p.Accepted) (hq : (p.reshape ts bo nb fd at_).Accepted) (h2 : (2 : K) ≠ 0)
    (s : K)
    (hkept : ∀ a b : Fin p.d, (p.reshape ts bo nb fd at_).keptE a.val b.val = p.keptE a.val b.val)
    (hH : (p.reshape ts bo nb fd at_).sr "H" = p.scalarS s * p.sr "H") :
    (p.reshape ts bo nb fd at_).sr "U'" = p.sr "U'" := by
  let q := p.reshape ts bo nb fd at_
  have hsel : ∀ x : Sr (Fin p.nparams) K p.d, q.SelS x = p.SelS x := by
    intro x
    ext m a b
    have e1 : coeff m (q.SelS x) a b = if q.keptE a.val b.val then coeff m x a b else 0 := rfl
    have e2 : coeff m (p.SelS x) a b = if p.keptE a.val b.val then coeff m x a b else 0 := rfl
    rw [e1, e2, hkept]
  have hzsel : ∀ x : Sr (Fin p.nparams) K p.d, p.SelS (p.scalarS s * x) = p.scalarS s * p.SelS x := by
    intro x
    ext m a b
    rw [coeff_SelS]
    simp only [scalarS, coeff_C_mul]
    rw [Matrix.smul_mul, Matrix.one_mul, Matrix.smul_mul, Matrix.one_mul, Matrix.smul_apply, Matrix.smul_apply, coeff_SelS]
    split <;> simp
  have hSelEq : (q.ctx hq.ready hq.acc h2).Sel = (p.ctx hp.ready hp.acc h2).Sel := AddMonoidHom.ext hsel
  have hham : (q.ctx hq.ready hq.acc h2).H0 + (q.ctx hq.ready hq.acc h2).H' =
      p.scalarS s * ((p.ctx hp.ready hp.acc h2).H0 + (p.ctx hp.ready hp.acc h2).H') := by
    show q.H0s + (q.sr "H'_diag" + q.sr "H'_offdiag") = p.scalarS s * (p.H0s + (p.sr "H'_diag" + p.sr "H'_offdiag"))
    have e1 := p.sr_H hp.ready hp.acc
    have e2 := q.sr_H hq.ready hq.acc
    rw [← add_assoc, ← e2, ← add_assoc, ← e1]
    exact hH
  have hsol : TheoremU.Sol (q.ctx hq.ready hq.acc h2) (p.sr "U'") :=
    TheoremU.Sol.scale (c := p.ctx hp.ready hp.acc h2) (c' := q.ctx hq.ready hq.acc h2) rfl hSelEq (p.scalarS s)
      (p.scalarS_central s) hzsel hham (p.sol_main hp.ready hp.sym hp.acc h2)
  exact TheoremU.unique (q.ctx hq.ready hq.acc h2) (q.sol_main hq.ready hq.sym hq.acc h2) hsol

end Problem
end BlockDiag
end Pyma
#print axioms Pyma.BlockDiag.Problem.C15_relabel
#print axioms Pyma.BlockDiag.Problem.C15_scale_whole
