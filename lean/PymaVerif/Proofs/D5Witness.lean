/-
C05 is false of the shipped `nonhermitian` recurrences: a kernel-checked counterexample.
For `H_0 = diag(0,1,3)`, blocks `{0,1} | {2}`, `H_1` = all ones off the diagonal, the values the
reference semantics assigns to `U_inv`, `U`, `H_tilde` (default flags, `hermitian=False`) satisfy
`(U_inv · H · U)_2 [0,1] ≠ (H_tilde)_2 [0,1]`.  The same input replayed on the real code gives the
same numbers (finding D5).
-/
import PymaVerif.Proofs.DslSound
import PymaVerif.Proofs.DslDet
import PymaVerif.Proofs.Witness

namespace Pyma
namespace Dsl
variable {K : Type} [Scalar K]

/-- the evaluator without memo table (kernel-reducible: no hashing) -/
def evalNC (p : Prog) (env : Env K) : Nat → Lookup K
  | 0, _, _, _ => .error .fuel
  | fuel+1, x, idx, c => compute p env (evalNC p env fuel) x idx c

theorem evalNC_sound (p : Prog) (env : Env K) : ∀ fuel, LookupSound p env (evalNC p env fuel) := by
  intro fuel
  induction fuel with
  | zero => intro x idx c v c' _ h; simp [evalNC] at h
  | succ fuel ih =>
    intro x idx c v c' hc h
    exact compute_sound ih x idx c v c' hc h

end Dsl

namespace BlockDiag
open Dsl Generated
namespace Problem

attribute [local instance] Scalar.ofField

def d5 : Problem ℚ where
  d := 3
  blockOf := #[0, 0, 1]
  nblocks := 2
  nparams := 1
  terms := [([0], ⟨3, #[0,0,0, 0,1,0, 0,0,3]⟩), ([1], ⟨3, #[0,1,1, 1,0,1, 1,1,0]⟩)]
  hermitian := false
  fd := .none
  atol := 1/1000

/-- entry `(a,b)` of the element of series `x` at order `n`, by the memo-free evaluator -/
def d5entry (x : String) (n a b : Nat) : Option ℚ :=
  match evalNC nonhermitian d5.env 40 x ⟨d5.blk a, d5.blk b, [n]⟩ ∅ with
  | .ok (.zero, _) => some 0
  | .ok (.one, _) => some (if a == b then 1 else 0)
  | .ok (.val m, _) => some (m.get a b)
  | .error _ => none

def optSum (l : List (Option ℚ)) : Option ℚ := l.foldl (fun acc x => do let s ← acc; let y ← x; pure (s + y)) (some 0)

/-- `(U_inv · H · U)` at order 2, entry (0,1): the plain triple Cauchy sum -/
def d5lhs : Option ℚ :=
  optSum <| (List.range 3).flatMap fun na => (List.range 3).flatMap fun nb => (List.range 3).flatMap fun nc =>
    if na + nb + nc == 2 then
      (List.range 3).flatMap fun k => (List.range 3).map fun l => do
        let x ← d5entry "U†" na 0 k
        let y ← d5entry "H" nb k l
        let z ← d5entry "U" nc l 1
        pure (x * y * z)
    else []

theorem d5_lhs : d5lhs = some (-5/12) := by decide +kernel
theorem d5_rhs : d5entry "H_tilde" 2 0 1 = some (-1/2) := by decide +kernel

/-- the two sides of C05 differ on this input -/
theorem D5_witness : d5lhs ≠ d5entry "H_tilde" 2 0 1 := by
  rw [d5_lhs, d5_rhs]; decide +kernel

end Problem
end BlockDiag
end Pyma
#print axioms Pyma.BlockDiag.Problem.D5_witness
