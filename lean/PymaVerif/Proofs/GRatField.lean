/-
The executable scalar type `GRat = ℚ[i]` is a field with involution, and the `Scalar` structure the
driver computes with is the one the theorems are stated for (`Scalar.ofField`).
-/
import PymaVerif.Proofs.Accepted
import Mathlib.Tactic.Ring
import Mathlib.Tactic.FieldSimp
import Mathlib.Tactic.Positivity
import Mathlib.Tactic.Linarith

namespace Pyma
namespace GRat

@[ext] theorem ext' {a b : GRat} (h1 : a.re = b.re) (h2 : a.im = b.im) : a = b := by
  cases a; cases b; simp_all

@[simp] theorem add_re (a b : GRat) : (a + b).re = a.re + b.re := rfl
@[simp] theorem add_im (a b : GRat) : (a + b).im = a.im + b.im := rfl
@[simp] theorem mul_re (a b : GRat) : (a * b).re = a.re * b.re - a.im * b.im := rfl
@[simp] theorem mul_im (a b : GRat) : (a * b).im = a.re * b.im + a.im * b.re := rfl
@[simp] theorem neg_re (a : GRat) : (-a).re = -a.re := rfl
@[simp] theorem neg_im (a : GRat) : (-a).im = -a.im := rfl
@[simp] theorem sub_re (a b : GRat) : (a - b).re = a.re - b.re := rfl
@[simp] theorem sub_im (a b : GRat) : (a - b).im = a.im - b.im := rfl
@[simp] theorem zero_re : (0 : GRat).re = 0 := rfl
@[simp] theorem zero_im : (0 : GRat).im = 0 := rfl
@[simp] theorem one_re : (1 : GRat).re = 1 := rfl
@[simp] theorem one_im : (1 : GRat).im = 0 := rfl

instance : Inv GRat := ⟨inv⟩

theorem normSq_eq_zero {a : GRat} (h : a.normSq = 0) : a = 0 := by
  unfold normSq at h
  have h1 : a.re * a.re ≥ 0 := mul_self_nonneg _
  have h2 : a.im * a.im ≥ 0 := mul_self_nonneg _
  have e1 : a.re * a.re = 0 := by linarith
  have e2 : a.im * a.im = 0 := by linarith
  ext
  · exact mul_self_eq_zero.mp e1
  · exact mul_self_eq_zero.mp e2

instance : CommRing GRat where
  add_assoc a b c := by ext <;> simp <;> ring
  zero_add a := by ext <;> simp
  add_zero a := by ext <;> simp
  add_comm a b := by ext <;> simp <;> ring
  mul_assoc a b c := by ext <;> simp <;> ring
  one_mul a := by ext <;> simp
  mul_one a := by ext <;> simp
  mul_comm a b := by ext <;> simp <;> ring
  left_distrib a b c := by ext <;> simp <;> ring
  right_distrib a b c := by ext <;> simp <;> ring
  zero_mul a := by ext <;> simp
  mul_zero a := by ext <;> simp
  neg_add_cancel a := by ext <;> simp
  sub_eq_add_neg a b := by ext <;> simp <;> ring
  nsmul := nsmulRec
  zsmul := zsmulRec

instance : Field GRat where
  inv := inv
  exists_pair_ne := ⟨0, 1, by intro h; have := congrArg GRat.re h; simp at this⟩
  mul_inv_cancel a ha := by
    have hn : a.normSq ≠ 0 := fun h => ha (normSq_eq_zero h)
    show a * inv a = 1
    unfold inv
    simp only [hn, ↓reduceIte]
    unfold normSq at hn ⊢
    ext
    · simp only [mul_re, one_re]
      have hn' : a.re ^ 2 + a.im ^ 2 ≠ 0 := by rw [pow_two, pow_two]; exact hn
      field_simp
      ring
    · simp only [mul_im, one_im]; field_simp; ring
  inv_zero := by
    show inv 0 = 0
    unfold inv normSq; simp; rfl
  nnqsmul := _
  nnqsmul_def := fun _ _ => rfl
  qsmul := _
  qsmul_def := fun _ _ => rfl

instance : StarRing GRat where
  star := conj
  star_involutive a := by ext <;> simp [conj]
  star_mul a b := by ext <;> simp [conj] <;> ring
  star_add a b := by ext <;> simp [conj] <;> ring

instance : Thresholds GRat where
  absGt := absGt
  absLt := fun a t => decide (a.normSq < t * t)
  isClose := isClose

instance : BlockDiag.Problem.LawfulThresholds GRat where
  absGt_neg := by
    intro x t
    show absGt (-x) t = absGt x t
    unfold absGt normSq; simp
  absGt_ne := by
    intro x t ht h hx
    subst hx
    have h' : absGt 0 t = true := h
    unfold absGt normSq at h'
    simp only [zero_re, zero_im, mul_zero, add_zero, gt_iff_lt, decide_eq_true_eq] at h'
    have : t * t ≥ 0 := mul_self_nonneg t
    linarith

end GRat
end Pyma

namespace Pyma
namespace GRat

theorem natCast_re (n : Nat) : ((n : GRat)).re = (n : Rat) := by
  induction n with
  | zero => simp
  | succ i ih => rw [Nat.cast_succ, Nat.cast_succ, add_re, ih, one_re]

theorem natCast_im (n : Nat) : ((n : GRat)).im = 0 := by
  induction n with
  | zero => simp
  | succ i ih => rw [Nat.cast_succ, add_im, ih, one_im, add_zero]

theorem intCast_re (k : Int) : ((k : GRat)).re = (k : Rat) := by
  cases k with
  | ofNat n => simp [natCast_re]
  | negSucc n => rw [Int.cast_negSucc, Int.cast_negSucc, neg_re, natCast_re]

theorem intCast_im (k : Int) : ((k : GRat)).im = 0 := by
  cases k with
  | ofNat n => simp [natCast_im]
  | negSucc n => rw [Int.cast_negSucc, neg_im, natCast_im, neg_zero]

theorem divInt_eq (x : GRat) (k : Int) : x / (k : GRat) = divInt x k := by
  by_cases hk : (k : Rat) = 0
  · have hk' : (k : GRat) = 0 := by ext <;> simp [intCast_re, intCast_im, hk]
    rw [hk', div_zero]
    unfold divInt; ext <;> simp [hk]
  · have hk' : (k : GRat) ≠ 0 := by
      intro h; apply hk; have := congrArg GRat.re h; simpa [intCast_re] using this
    rw [div_eq_iff hk']
    unfold divInt
    ext
    · simp [intCast_re, intCast_im]; field_simp
    · simp [intCast_re, intCast_im]; field_simp

theorem beq_eq (a b : GRat) :
    @BEq.beq GRat instBEqOfDecidableEq a b = (decide (a.re = b.re) && decide (a.im = b.im)) := by
  by_cases h : a = b
  · subst h; simp
  · have : ¬ (a.re = b.re ∧ a.im = b.im) := fun ⟨h1, h2⟩ => h (GRat.ext' h1 h2)
    have e : @BEq.beq GRat instBEqOfDecidableEq a b = false := by simpa using h
    rw [e]
    by_cases h1 : a.re = b.re
    · have h2 : ¬ a.im = b.im := fun h2 => this ⟨h1, h2⟩
      simp [h1, h2]
    · simp [h1]

end GRat

theorem Scalar.ext' {K : Type} (a b : Scalar K)
    (h1 : a.toAdd = b.toAdd) (h2 : a.toMul = b.toMul) (h3 : a.toNeg = b.toNeg) (h4 : a.toSub = b.toSub)
    (h5 : a.toZero = b.toZero) (h6 : a.toOne = b.toOne) (h7 : a.toInv = b.toInv) (h8 : a.toBEq = b.toBEq)
    (h9 : a.conj = b.conj) (h10 : a.divInt = b.divInt) (h11 : a.absGt = b.absGt) (h12 : a.absLt = b.absLt)
    (h13 : a.isClose = b.isClose) : a = b := by
  cases a; cases b; simp only at *; subst_vars; rfl

namespace GRat

/-- the `Scalar` structure of the driver is the one of the theorems -/
theorem scalar_eq : Scalar.ofField GRat = (inferInstance : Scalar GRat) := by
  apply Scalar.ext'
  · rfl
  · rfl
  · rfl
  · rfl
  · rfl
  · rfl
  · rfl
  · show (instBEqOfDecidableEq : BEq GRat) = ⟨fun a b => a.re == b.re && a.im == b.im⟩
    have : ∀ (x y : BEq GRat), x.beq = y.beq → x = y := by
      intro x y h; cases x; cases y; simp_all
    apply this
    funext a b
    rw [beq_eq a b]
    rfl
  · rfl
  · funext x k; exact divInt_eq x k
  · rfl
  · rfl
  · rfl

end GRat
end Pyma
