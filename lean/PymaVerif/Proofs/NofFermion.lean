/-
C08, third stage: fermions.  The Jordan–Wigner sign of a normal-ordered monomial in closed form, the
decomposition of the sign count at one mode, and the sign rule of `_multiply_op`.
-/
import PymaVerif.Proofs.NofSpin
import Mathlib.Algebra.BigOperators.Ring.Finset
import Mathlib.Logic.Function.Basic
import Mathlib.Tactic.LinearCombination

namespace Pyma
namespace Nof
open Finset

/-! ## the sign count as a function of powers and occupations -/

/-- `Σ_{k<n, F k, P k ≠ 0} #{j<k : F j, O j = 1}` -/
def sigmaPO (n : Nat) (F : Nat → Bool) (P O : Nat → Int) : Nat :=
  ∑ k ∈ range n, if F k = true ∧ P k ≠ 0 then ∑ j ∈ range k, (if F j = true ∧ O j = 1 then 1 else 0) else 0

def loCount (F : Nat → Bool) (O : Nat → Int) (i : Nat) : Nat :=
  ∑ j ∈ range i, (if F j = true ∧ O j = 1 then 1 else 0)

def hiCount (n : Nat) (F : Nat → Bool) (P : Nat → Int) (i : Nat) : Nat :=
  ∑ k ∈ (range n).erase i, (if F k = true ∧ P k ≠ 0 then (if i < k then 1 else 0) else 0)

theorem inner_split (F : Nat → Bool) (O : Nat → Int) (i k : Nat) :
    ∑ j ∈ range k, (if F j = true ∧ O j = 1 then 1 else 0)
      = (if i < k then (if F i = true ∧ O i = 1 then 1 else 0) else 0)
        + ∑ j ∈ (range k).erase i, (if F j = true ∧ O j = 1 then 1 else 0) := by
  by_cases hik : i < k
  · rw [if_pos hik]
    exact (add_sum_erase (range k) (fun j => if F j = true ∧ O j = 1 then 1 else 0) (mem_range.mpr hik)).symm
  · rw [if_neg hik, zero_add, erase_eq_of_notMem (by simpa using hik)]

theorem inner_update (F : Nat → Bool) (O : Nat → Int) (i k : Nat) :
    ∑ j ∈ range k, (if F j = true ∧ Function.update O i 0 j = 1 then 1 else 0)
      = ∑ j ∈ (range k).erase i, (if F j = true ∧ O j = 1 then 1 else 0) := by
  rw [inner_split F (Function.update O i 0) i k]
  have h0 : (if i < k then (if F i = true ∧ Function.update O i 0 i = 1 then 1 else 0) else 0) = 0 := by
    simp
  rw [h0, zero_add]
  apply sum_congr rfl
  intro j hj
  have hne : j ≠ i := (mem_erase.mp hj).1
  rw [Function.update_of_ne hne]

/-- splitting the sign count at mode `i` -/
theorem sigma_decomp (n : Nat) (F : Nat → Bool) (P O : Nat → Int) (i : Nat) (hi : i < n) :
    sigmaPO n F P O = sigmaPO n F (Function.update P i 0) (Function.update O i 0)
      + (if F i = true ∧ P i ≠ 0 then loCount F O i else 0)
      + (if F i = true ∧ O i = 1 then hiCount n F P i else 0) := by
  unfold sigmaPO
  rw [← add_sum_erase _ _ (mem_range.mpr hi), ← add_sum_erase (range n) _ (mem_range.mpr hi)]
  -- the `k = i` term of the reduced count vanishes
  have hz : (if F i = true ∧ Function.update P i 0 i ≠ 0 then
      ∑ j ∈ range i, (if F j = true ∧ Function.update O i 0 j = 1 then 1 else 0) else 0) = 0 := by simp
  rw [hz, zero_add]
  -- the other terms
  have hrest : ∑ k ∈ (range n).erase i, (if F k = true ∧ P k ≠ 0 then
        ∑ j ∈ range k, (if F j = true ∧ O j = 1 then 1 else 0) else 0)
      = ∑ k ∈ (range n).erase i, (if F k = true ∧ Function.update P i 0 k ≠ 0 then
          ∑ j ∈ range k, (if F j = true ∧ Function.update O i 0 j = 1 then 1 else 0) else 0)
        + (if F i = true ∧ O i = 1 then hiCount n F P i else 0) := by
    unfold hiCount
    by_cases hO : F i = true ∧ O i = 1
    · rw [if_pos hO, ← sum_add_distrib]
      apply sum_congr rfl
      intro k hk
      have hne : k ≠ i := (mem_erase.mp hk).1
      rw [Function.update_of_ne hne, inner_update, inner_split F O i k]
      by_cases hP : F k = true ∧ P k ≠ 0
      · rw [if_pos hP, if_pos hP, if_pos hP, if_pos hO]
        by_cases hik : i < k <;> simp [hik, add_comm]
      · simp [hP]
    · rw [if_neg hO, add_zero]
      apply sum_congr rfl
      intro k hk
      have hne : k ≠ i := (mem_erase.mp hk).1
      rw [Function.update_of_ne hne, inner_update, inner_split F O i k]
      simp [hO]
  rw [hrest]
  unfold loCount
  ring

theorem sigma_congr (n : Nat) (F : Nat → Bool) (P P' O O' : Nat → Int)
    (h : ∀ j, j < n → F j = true → P j = P' j ∧ O j = O' j) :
    sigmaPO n F P O = sigmaPO n F P' O' := by
  unfold sigmaPO
  apply sum_congr rfl
  intro k hk
  have hk' := mem_range.mp hk
  by_cases hF : F k = true
  · rw [(h k hk' hF).1]
    by_cases hP : P' k ≠ 0
    · simp only [hF, hP, ne_eq, not_false_eq_true, and_self, ↓reduceIte]
      apply sum_congr rfl
      intro j hj
      have hj' : j < n := by have := mem_range.mp hj; omega
      by_cases hFj : F j = true
      · rw [(h j hj' hFj).2]
      · simp [hFj]
    · simp [hP]
  · simp [hF]

/-! ## signs -/

def sgnI (k : Nat) : Int := if k % 2 = 1 then -1 else 1

theorem sgnI_add (a b : Nat) : sgnI (a + b) = sgnI a * sgnI b := by
  unfold sgnI
  rcases Nat.mod_two_eq_zero_or_one a with ha | ha <;> rcases Nat.mod_two_eq_zero_or_one b with hb | hb <;>
    simp [Nat.add_mod, ha, hb]

theorem sgnI_mul_self (a : Nat) : sgnI a * sgnI a = 1 := by
  unfold sgnI; split <;> simp

theorem sgnI_zero : sgnI 0 = 1 := rfl

def isF (c : Ctx) (j : Nat) : Bool := c.kind j == .fermion

/-- the sign count of a monomial on a state -/
def sigma (c : Ctx) (t : Term) (s : Occ) : Nat :=
  sigmaPO c.n (isF c) (fun j => pw t j) (fun j => Occ.get (mid t s) j)

def sgn (c : Ctx) (t : Term) (s : Occ) : Int := sgnI (sigma c t s)

/-- the sign picked up by a fermionic generator acting on `s` -/
def gsg (c : Ctx) (i : Nat) (q : Int) (s : Occ) : Int :=
  if isF c i = true ∧ q ≠ 0 then sgnI (loCount (isF c) (fun j => Occ.get s j) i) else 1

/-- signed kernels -/
def ampS' (c : Ctx) (t : Term) (s s' : Occ) : GRat := ofInt (sgn c t s) * ampS c t s s'
def ampF' (c : Ctx) (x : Form) (s s' : Occ) : GRat := (x.map fun t => ampS' c t s s').sum

theorem ofInt_neg (a : Int) : ofInt (-a) = -ofInt a := by ext <;> simp [ofInt]

/-- a change at a non-fermionic mode does not change the sign count -/
theorem sigma_of_powers_nf (c : Ctx) (t t' : Term) (i : Nat) (q : Int) (s : Occ)
    (hpow : t'.powers = setPw t i (pw t i + q)) (hi : i < s.length) (ht : i < t.powers.length)
    (hs : s.length = c.n) (hnf : isF c i = false) :
    sigma c t' s = sigma c t (Occ.shift s i (-q)) := by
  unfold sigma
  apply sigma_congr
  intro j hj hF
  have hji : j ≠ i := fun e => by rw [e, hnf] at hF; cases hF
  constructor
  · rw [pw_of_powers t t' i _ hpow j ht, if_neg hji]
  · rw [get_mid _ _ _ (by rw [hs]; exact hj), get_mid _ _ _ (by simp [hs]; exact hj),
      pw_of_powers t t' i _ hpow j ht, if_neg hji, get_shift _ _ _ _ hi, if_neg hji]

/-! ## the counts used by `_multiply_op`, as sums -/

theorem filter_length_sum (n : Nat) (P : Nat → Bool) :
    ((List.range n).filter P).length = ∑ k ∈ range n, (if P k = true then 1 else 0) := by
  induction n with
  | zero => simp
  | succ n ih =>
    rw [List.range_succ, List.filter_append, List.length_append, ih, sum_range_succ]
    cases hP : P n <;> simp [hP]

theorem sum_range_lt (n i : Nat) (hi : i ≤ n) (f : Nat → Nat) :
    ∑ k ∈ range n, (if k < i then f k else 0) = ∑ k ∈ range i, f k := by
  rw [← sum_subset (s₁ := range i) (s₂ := range n)]
  · apply sum_congr rfl
    intro k hk
    rw [if_pos (mem_range.mp hk)]
  · intro k hk; exact mem_range.mpr (lt_of_lt_of_le (mem_range.mp hk) hi)
  · intro k _ hk
    rw [if_neg (by simpa using hk)]

/-- fermions come last in the list of modes (the ordering invariant of the Python class) -/
def FermionsLast (c : Ctx) : Prop := ∀ i k, isF c i = true → i < k → k < c.n → isF c k = true

theorem isInf_of_isF (c : Ctx) (j : Nat) (h : isF c j = true) : c.isInf j = false := by
  unfold isF at h
  have : c.kind j = .fermion := by simpa using h
  simp [Ctx.isInf, this]

/-- counts below and above a mode -/
def p1lo (c : Ctx) (t : Term) (i : Nat) : Nat := ∑ k ∈ range i, (if isF c k = true ∧ pw t k = 1 then 1 else 0)

theorem prec1_eq (c : Ctx) (t : Term) (i : Nat) (hi : i < c.n) :
    (((List.range c.n).filter fun k => c.kind k == .fermion).filter fun k => decide (k < i) && pw t k == 1).length
      = p1lo c t i := by
  rw [List.filter_filter, filter_length_sum, p1lo, ← sum_range_lt c.n i (le_of_lt hi)]
  apply sum_congr rfl
  intro k _
  by_cases hk : k < i <;> by_cases hF : c.kind k = .fermion <;> by_cases hp : pw t k = 1 <;>
    simp [isF, hk, hF, hp]

def hi1 (c : Ctx) (t : Term) (i : Nat) : Nat :=
  ∑ k ∈ (range c.n).erase i, (if i < k then (if isF c k = true ∧ pw t k = 1 then 1 else 0) else 0)
def him (c : Ctx) (t : Term) (i : Nat) : Nat :=
  ∑ k ∈ (range c.n).erase i, (if i < k then (if pw t k = -1 then 1 else 0) else 0)

theorem sum_erase_lt (n i : Nat) (hi : i < n) (f : Nat → Nat) :
    ∑ k ∈ (range n).erase i, (if k < i then f k else 0) = ∑ k ∈ range i, f k := by
  rw [← sum_range_lt n i (le_of_lt hi) f, ← add_sum_erase (range n) _ (mem_range.mpr hi)]
  simp

theorem prec2_eq (c : Ctx) (t : Term) (i : Nat) (hi : i < c.n) :
    (((List.range c.n).filter fun k => c.kind k == .fermion).filter fun k => pw t k == 1).length
      + ((List.range c.n).filter fun k => decide (k > i) && pw t k == -1).length
      = p1lo c t i + (if isF c i = true ∧ pw t i = 1 then 1 else 0) + hi1 c t i + him c t i := by
  rw [List.filter_filter, filter_length_sum, filter_length_sum]
  have e1 : ∑ k ∈ range c.n, (if ((pw t k == 1) && (c.kind k == Kind.fermion)) = true then 1 else 0)
      = p1lo c t i + (if isF c i = true ∧ pw t i = 1 then 1 else 0) + hi1 c t i := by
    rw [← add_sum_erase (range c.n) _ (mem_range.mpr hi), p1lo, hi1, ← sum_erase_lt c.n i hi]
    have : ∀ k ∈ (range c.n).erase i,
        (if ((pw t k == 1) && (c.kind k == Kind.fermion)) = true then 1 else 0)
        = (if k < i then (if isF c k = true ∧ pw t k = 1 then 1 else 0) else 0)
          + (if i < k then (if isF c k = true ∧ pw t k = 1 then 1 else 0) else 0) := by
      intro k hk
      have hne : k ≠ i := (mem_erase.mp hk).1
      rcases Nat.lt_or_gt_of_ne hne with h | h
      · have h' : ¬ i < k := by omega
        by_cases hF : c.kind k = .fermion <;> by_cases hp : pw t k = 1 <;> simp [isF, h, h', hF, hp]
      · have h' : ¬ k < i := by omega
        by_cases hF : c.kind k = .fermion <;> by_cases hp : pw t k = 1 <;> simp [isF, h, h', hF, hp]
    rw [sum_congr rfl this, sum_add_distrib]
    have hi0 : (if ((pw t i == 1) && (c.kind i == Kind.fermion)) = true then 1 else 0)
        = (if isF c i = true ∧ pw t i = 1 then 1 else 0) := by
      by_cases hF : c.kind i = .fermion <;> by_cases hp : pw t i = 1 <;> simp [isF, hF, hp]
    rw [hi0]; ring
  have e2 : ∑ k ∈ range c.n, (if (decide (k > i) && (pw t k == -1)) = true then 1 else 0) = him c t i := by
    rw [← add_sum_erase (range c.n) _ (mem_range.mpr hi), him]
    have h0 : (if (decide (i > i) && (pw t i == -1)) = true then 1 else 0) = 0 := by simp
    rw [h0, zero_add]
    apply sum_congr rfl
    intro k _
    by_cases h : i < k <;> by_cases hp : pw t k = -1 <;> simp [h, hp]
  rw [e1, e2]

theorem hiCount_eq (c : Ctx) (hlast : FermionsLast c) (t : Term) (hfin : FinPow c t) (i : Nat)
    (hF : isF c i = true) :
    hiCount c.n (isF c) (fun j => pw t j) i = hi1 c t i + him c t i := by
  unfold hiCount hi1 him
  rw [← sum_add_distrib]
  apply sum_congr rfl
  intro k hk
  have hkn : k < c.n := mem_range.mp (mem_erase.mp hk).2
  by_cases hik : i < k
  · have hFk := hlast i k hF hik hkn
    rcases hfin k hkn (isInf_of_isF c k hFk) with e | e | e <;> simp [hik, hFk, e]
  · simp [hik]

theorem fsign_sgn (c : Ctx) (i : Nat) (q : Int) (t : Term) (hi : i < c.n) (hF : isF c i = true) :
    (if fsign c i q t = true then (-1 : Int) else 1)
      = sgnI (if (pw t i == 1 || pw t i + q == 1) = true then p1lo c t i
          else p1lo c t i + (if isF c i = true ∧ pw t i = 1 then 1 else 0) + hi1 c t i + him c t i) := by
  have hk : (c.kind i == Kind.fermion) = true := hF
  unfold fsign
  simp only [hk, ↓reduceIte]
  rw [prec1_eq c t i hi, prec2_eq c t i hi]
  unfold sgnI
  by_cases hc : (pw t i == 1 || pw t i + q == 1) = true
  · simp only [hc, ↓reduceIte, beq_iff_eq]
  · simp only [hc, Bool.false_eq_true, ↓reduceIte, beq_iff_eq]

/-- the sign rule of `_multiply_op` on a fermionic mode, on the support of the amplitudes -/
theorem fermion_parity (c : Ctx) (hlast : FermionsLast c) (i : Nat) (hi : i < c.n) (hF : isF c i = true)
    (q : Int) (hq : q = 1 ∨ q = -1) (t t0 : Term) (hpow : t0.powers = setPw t i (pw t i + q))
    (hkept : ¬ (pw t i + q).natAbs > 1) (s : Occ) (hs : s.length = c.n) (hwt : WFT c t)
    (hsi : (q = 1 → Occ.get s i = 1) ∧ (q = -1 → Occ.get s i = 0))
    (hsupp : ∀ j, j < i → isF c j = true → pw t j = 1 → Occ.get s j = 1) :
    (if fsign c i q t = true then (-1 : Int) else 1) * sgn c t0 s
      = gsg c i q s * sgn c t (Occ.shift s i (-q)) := by
  have his : i < s.length := by rw [hs]; exact hi
  have hit : i < t.powers.length := by rw [hwt.len]; exact hi
  have hq0 : q ≠ 0 := by rcases hq with rfl | rfl <;> decide
  -- data of the two monomials
  have hP' : ∀ j, pw t0 j = if j = i then pw t i + q else pw t j := fun j => pw_of_powers t t0 i _ hpow j hit
  have hO : ∀ j, j < c.n → j ≠ i →
      Occ.get (mid t0 s) j = Occ.get (mid t (Occ.shift s i (-q))) j := by
    intro j hj hji
    rw [get_mid _ _ _ (by rw [hs]; exact hj), get_mid _ _ _ (by simp [hs]; exact hj), hP' j, if_neg hji,
      get_shift _ _ _ _ his, if_neg hji]
  have hOi' : Occ.get (mid t0 s) i = Occ.get s i - max (pw t i + q) 0 := by
    rw [get_mid _ _ _ his, hP' i, if_pos rfl]
  have hOi : Occ.get (mid t (Occ.shift s i (-q))) i = Occ.get s i - q - max (pw t i) 0 := by
    rw [get_mid _ _ _ (by simp; exact his), get_shift _ _ _ _ his, if_pos rfl]; ring
  -- the three pieces of the decomposition coincide
  have hR : sigmaPO c.n (isF c) (Function.update (fun j => pw t0 j) i 0)
        (Function.update (fun j => Occ.get (mid t0 s) j) i 0)
      = sigmaPO c.n (isF c) (Function.update (fun j => pw t j) i 0)
        (Function.update (fun j => Occ.get (mid t (Occ.shift s i (-q))) j) i 0) := by
    apply sigma_congr
    intro j hj _
    by_cases hji : j = i
    · subst hji; simp
    · rw [Function.update_of_ne hji, Function.update_of_ne hji, Function.update_of_ne hji,
        Function.update_of_ne hji, hP' j, if_neg hji]
      exact ⟨rfl, hO j hj hji⟩
  have hLo : loCount (isF c) (fun j => Occ.get (mid t0 s) j) i
      = loCount (isF c) (fun j => Occ.get (mid t (Occ.shift s i (-q))) j) i := by
    unfold loCount
    apply sum_congr rfl
    intro j hj
    have hji := mem_range.mp hj
    beta_reduce
    rw [hO j (by omega) (by omega)]
  have hHi : hiCount c.n (isF c) (fun j => pw t0 j) i = hiCount c.n (isF c) (fun j => pw t j) i := by
    unfold hiCount
    apply sum_congr rfl
    intro k hk
    have hne : k ≠ i := (mem_erase.mp hk).1
    beta_reduce
    rw [hP' k, if_neg hne]
  -- the generator's count
  have hg : loCount (isF c) (fun j => Occ.get s j) i
      = loCount (isF c) (fun j => Occ.get (mid t (Occ.shift s i (-q))) j) i + p1lo c t i := by
    unfold loCount p1lo
    rw [← sum_add_distrib]
    apply sum_congr rfl
    intro j hj
    have hji := mem_range.mp hj
    have hjn : j < c.n := by omega
    have hne : j ≠ i := by omega
    beta_reduce
    rw [get_mid _ _ _ (by simp [hs]; exact hjn), get_shift _ _ _ _ his, if_neg hne]
    by_cases hFj : isF c j = true
    · rcases hwt.fin j hjn (isInf_of_isF c j hFj) with e | e | e
      · simp [hFj, e]
      · simp [hFj, e]
      · have := hsupp j hji hFj e
        simp [hFj, e, this]
    · simp [hFj]
  have hHi' := hiCount_eq c hlast t hwt.fin i hF
  -- assemble
  have hgs : gsg c i q s = sgnI (loCount (isF c) (fun j => Occ.get s j) i) := by
    unfold gsg; rw [if_pos ⟨hF, hq0⟩]
  rw [hgs, fsign_sgn c i q t hi hF]
  unfold sgn sigma
  rw [sigma_decomp c.n (isF c) _ _ i hi, sigma_decomp c.n (isF c) (fun j => pw t j) _ i hi, hR, hLo, hHi,
    hg, hHi']
  simp only [hP' i, if_pos, hOi', hOi, hF, true_and]
  generalize sigmaPO c.n (isF c) (Function.update (fun j => pw t j) i 0)
    (Function.update (fun j => Occ.get (mid t (Occ.shift s i (-q))) j) i 0) = R
  generalize loCount (isF c) (fun j => Occ.get (mid t (Occ.shift s i (-q))) j) i = Lo
  generalize p1lo c t i = A
  generalize hi1 c t i = H1
  generalize him c t i = Hm
  have hLL := sgnI_mul_self Lo
  have hHH := sgnI_mul_self (H1 + Hm)
  have h1 := sgnI_mul_self H1
  have hm := sgnI_mul_self Hm
  have hl := sgnI_mul_self Lo
  rcases hq with rfl | rfl <;> rcases hwt.fin i hi (isInf_of_isF c i hF) with e | e | e
  · -- c† f · c
    have hsi1 := hsi.1 rfl
    simp [e, hsi1, sgnI_add]
    linear_combination (sgnI A * sgnI R * sgnI Hm * sgnI Hm) * h1 + (sgnI A * sgnI R) * hm - (sgnI A * sgnI R) * hl
  · -- f · c
    have hsi1 := hsi.1 rfl
    simp [e, hsi1, sgnI_add]
    ring
  · exact absurd hkept (by rw [e]; decide)
  · exact absurd hkept (by rw [e]; decide)
  · -- f · c†
    have hsi0 := hsi.2 rfl
    simp [e, hsi0, sgnI_add]
    ring
  · -- f c · c†
    have hsi0 := hsi.2 rfl
    simp [e, hsi0, sgnI_add]
    linear_combination -(sgnI A * sgnI R) * hl

/-! ## signed step lemmas -/

theorem ampS_negIf (c : Ctx) (b : Bool) (t : Term) (s s' : Occ) :
    ampS c (negIf b t) s s' = (if b then -1 else 1) * ampS c t s s' := by
  unfold ampS specAmp
  have h1 : tgt (negIf b t) s = tgt t s := rfl
  have h2 : annAmp c (negIf b t) s = annAmp c t s := rfl
  have h3 : mid (negIf b t) s = mid t s := rfl
  rw [h1, h2, h3]
  show (if tgt t s = s' then ofInt (annAmp c t s) * (if b then -(t.coeff (mid t s)) else t.coeff (mid t s)) else 0) = _
  cases b <;> split <;> simp

theorem sigma_negIf (c : Ctx) (b : Bool) (t : Term) (s : Occ) : sigma c (negIf b t) s = sigma c t s := rfl

/-- support of a monomial on a state with valid lower modes -/
theorem supp_of_ne_zero (c : Ctx) (t : Term) (s s' : Occ) (hs : s.length = c.n)
    (hne : ampS c t s s' ≠ 0) (j : Nat) (hj : j < c.n) (hfin : c.isInf j = false)
    (hv : Occ.get s j = 0 ∨ Occ.get s j = 1) (hp : pw t j = 1) : Occ.get s j = 1 := by
  have hann : annAmp c t s ≠ 0 := by
    intro h0
    apply hne
    unfold ampS specAmp
    rw [h0]
    have : ofInt 0 = 0 := by ext <;> simp [ofInt]
    rw [this]; split <;> simp
  have hfac : modeAmp c j (Occ.get s j) (pw t j) ≠ 0 := by
    unfold annAmp at hann
    exact (Finset.prod_ne_zero_iff.mp hann) j (mem_range.mpr hj)
  rw [modeAmp_fin c j hfin, hp] at hfac
  rcases hv with h | h
  · rw [h] at hfac; simp at hfac
  · exact h

/-- the finite-mode step with signs (spins and fermions) -/
theorem opTermF_amp' (c : Ctx) (hlast : FermionsLast c) (i : Nat) (q : Int) (t : Term) (s s' : Occ)
    (hi : i < c.n) (hfin : c.isInf i = false) (hq : q = 1 ∨ q = -1) (hs : Valid c s) (hwt : WFT c t) :
    (match opTermF c i q t with
      | some t' => ampS' c t' s s'
      | none => 0)
      = ofInt (gsg c i q s * modeAmp c i (Occ.get s i) q) * ampS' c t (Occ.shift s i (-q)) s' := by
  have hu := opTermF0_amp c i q t s s' hi hfin hq hs.len (hs.bin i hi hfin) hwt.len (hwt.fin i hi hfin) hwt.can
  rw [opTermF_eq]
  cases h0 : opTermF0 i q t with
  | none =>
    rw [h0] at hu
    simp only [Option.map_none]
    unfold ampS'
    rw [ofInt_mul]
    -- the unsigned right-hand side vanishes
    have : ofInt (modeAmp c i (Occ.get s i) q) * ampS c t (Occ.shift s i (-q)) s' = 0 := hu.symm
    calc (0 : GRat) = ofInt (gsg c i q s) * ofInt (sgn c t (Occ.shift s i (-q)))
          * (ofInt (modeAmp c i (Occ.get s i) q) * ampS c t (Occ.shift s i (-q)) s') := by rw [this, mul_zero]
      _ = _ := by ring
  | some t0 =>
    rw [h0] at hu
    simp only [Option.map_some]
    simp only at hu
    unfold ampS'
    rw [ampS_negIf, hu, ofInt_mul]
    have hsig : sgn c (negIf (fsign c i q t) t0) s = sgn c t0 s := rfl
    rw [hsig]
    by_cases hz : ofInt (modeAmp c i (Occ.get s i) q) * ampS c t (Occ.shift s i (-q)) s' = 0
    · rw [hz]
      calc ofInt (sgn c t0 s) * ((if fsign c i q t = true then -1 else 1) * 0) = 0 := by ring
        _ = ofInt (gsg c i q s) * ofInt (sgn c t (Occ.shift s i (-q))) * (ofInt (modeAmp c i (Occ.get s i) q)
              * ampS c t (Occ.shift s i (-q)) s') := by rw [hz, mul_zero]
        _ = _ := by ring
    · -- on the support the signs agree
      have hm : modeAmp c i (Occ.get s i) q ≠ 0 := by
        intro h; apply hz; rw [h]
        have : ofInt 0 = 0 := by ext <;> simp [ofInt]
        rw [this, zero_mul]
      have ha : ampS c t (Occ.shift s i (-q)) s' ≠ 0 := by
        intro h; apply hz; rw [h, mul_zero]
      by_cases hF : isF c i = true
      · have hkept : ¬ (pw t i + q).natAbs > 1 := by
          intro hd; simp [opTermF0, hd] at h0
        have hpow : t0.powers = setPw t i (pw t i + q) := by
          simp only [opTermF0, hkept, ↓reduceIte, Option.some.injEq] at h0
          rw [← h0]
        have hsi : (q = 1 → Occ.get s i = 1) ∧ (q = -1 → Occ.get s i = 0) := by
          rw [modeAmp_fin c i hfin] at hm
          constructor
          · intro h1; rw [h1] at hm
            rcases hs.bin i hi hfin with h | h
            · rw [h] at hm; simp at hm
            · exact h
          · intro h1; rw [h1] at hm
            rcases hs.bin i hi hfin with h | h
            · exact h
            · rw [h] at hm; simp at hm
        have hsupp : ∀ j, j < i → isF c j = true → pw t j = 1 → Occ.get s j = 1 := by
          intro j hj hFj hp
          have hjn : j < c.n := by omega
          have hne : j ≠ i := by omega
          have := supp_of_ne_zero c t (Occ.shift s i (-q)) s' (by simp [hs.len]) ha j hjn (isInf_of_isF c j hFj)
            (by rw [get_shift _ _ _ _ (by rw [hs.len]; exact hi), if_neg hne]; exact hs.bin j hjn (isInf_of_isF c j hFj)) hp
          rwa [get_shift _ _ _ _ (by rw [hs.len]; exact hi), if_neg hne] at this
        have hpar := fermion_parity c hlast i hi hF q hq t t0 hpow hkept s hs.len hwt hsi hsupp
        have hpar' : ofInt (sgn c t0 s) * (if fsign c i q t = true then (-1 : GRat) else 1)
            = ofInt (gsg c i q s) * ofInt (sgn c t (Occ.shift s i (-q))) := by
          rw [← ofInt_mul, ← hpar, mul_comm, ofInt_mul]
          cases fsign c i q t
          · simp [ofInt_one]
          · simp [ofInt_neg, ofInt_one]
        calc ofInt (sgn c t0 s) * ((if fsign c i q t = true then -1 else 1)
              * (ofInt (modeAmp c i (Occ.get s i) q) * ampS c t (Occ.shift s i (-q)) s'))
            = (ofInt (sgn c t0 s) * (if fsign c i q t = true then (-1 : GRat) else 1))
              * (ofInt (modeAmp c i (Occ.get s i) q) * ampS c t (Occ.shift s i (-q)) s') := by ring
          _ = _ := by rw [hpar']; ring
      · -- a spin mode: no sign anywhere
        have hFf : isF c i = false := by simpa using hF
        have hkept : ¬ (pw t i + q).natAbs > 1 := by
          intro hd; simp [opTermF0, hd] at h0
        have hpow : t0.powers = setPw t i (pw t i + q) := by
          simp only [opTermF0, hkept, ↓reduceIte, Option.some.injEq] at h0
          rw [← h0]
        have hfs : fsign c i q t = false := fsign_false c i q t (by simpa [isF] using hFf)
        have hg1 : gsg c i q s = 1 := by simp [gsg, hFf]
        have hsg : sgn c t0 s = sgn c t (Occ.shift s i (-q)) := by
          unfold sgn
          rw [sigma_of_powers_nf c t t0 i q s hpow (by rw [hs.len]; exact hi) (by rw [hwt.len]; exact hi) hs.len hFf]
        rw [hfs, hg1, hsg, ofInt_one]
        simp
        ring

/-- the boson/ladder step with signs -/
theorem opTerm_amp' (c : Ctx) (i : Nat) (q : Int) (t : Term) (s s' : Occ) (hi : i < c.n)
    (hinf : c.isInf i = true) (hs : s.length = c.n) (ht : t.powers.length = c.n) :
    ampS' c (opTerm c i q t) s s'
      = ofInt (gsg c i q s * modeAmp c i (Occ.get s i) q) * ampS' c t (Occ.shift s i (-q)) s' := by
  have hFf : isF c i = false := by
    unfold isF
    cases hk : c.kind i <;> simp_all [Ctx.isInf]
  have hg1 : gsg c i q s = 1 := by simp [gsg, hFf]
  have hsg : sgn c (opTerm c i q t) s = sgn c t (Occ.shift s i (-q)) := by
    unfold sgn
    rw [sigma_of_powers_nf c t (opTerm c i q t) i q s rfl (by rw [hs]; exact hi) (by rw [ht]; exact hi) hs hFf]
  unfold ampS'
  rw [hg1, one_mul, hsg]
  unfold ampS
  rw [tgt_opTerm c i q t s (by rw [hs]; exact hi) (by rw [ht]; exact hi), opTerm_amp c i q t s hi hinf hs ht]
  split <;> ring

theorem sum_filterMap' (c : Ctx) (x : Form) (f : Term → Option Term) (s s' : Occ) :
    ((x.filterMap f).map fun t => ampS' c t s s').sum
      = (x.map fun t => match f t with | some t' => ampS' c t' s s' | none => 0).sum := by
  induction x with
  | nil => simp
  | cons t x ih =>
    rw [List.filterMap_cons]
    cases hf : f t with
    | none => simp [hf, ih]
    | some t' => simp [hf, ih]

/-- right multiplication by one generator power, with signs, any mode -/
theorem ampF'_multiplyOp (c : Ctx) (hlast : FermionsLast c) (x : Form) (i : Nat) (q : Int) (s s' : Occ)
    (hi : i < c.n) (hs : Valid c s) (h : WF2 c x) (hq : c.isInf i = false → q = 1 ∨ q = -1) :
    ampF' c (multiplyOp c x i q) s s'
      = ofInt (gsg c i q s * modeAmp c i (Occ.get s i) q) * ampF' c x (Occ.shift s i (-q)) s' := by
  cases hinf : c.isInf i
  · rw [multiplyOp_fin c x i q hinf, if_neg (natAbs_le_one_of q (hq hinf))]
    unfold ampF'
    rw [sum_filterMap', ← List.sum_map_mul_left]
    congr 1
    apply List.map_congr_left
    intro t ht
    exact opTermF_amp' c hlast i q t s s' hi hinf (hq hinf) hs (h t ht)
  · rw [multiplyOp_inf c x i q hinf]
    unfold ampF'
    rw [List.map_map, ← List.sum_map_mul_left]
    congr 1
    apply List.map_congr_left
    intro t ht
    exact opTerm_amp' c i q t s s' hi hinf hs.len (h t ht).len

theorem gsg_zero (c : Ctx) (i : Nat) (s : Occ) : gsg c i 0 s = 1 := by simp [gsg]

theorem ampF'_step (c : Ctx) (hlast : FermionsLast c) (x : Form) (i : Nat) (q : Int) (b : Bool) (s s' : Occ)
    (hi : i < c.n) (hs : Valid c s) (h : WF2 c x) (hq : b = true → c.isInf i = false → q = 1 ∨ q = -1) :
    ampF' c (if b then multiplyOp c x i q else x) s s'
      = ofInt (gsg c i (if b then q else 0) s * modeAmp c i (Occ.get s i) (if b then q else 0))
        * ampF' c x (Occ.shift s i (-(if b then q else 0))) s' := by
  cases b
  · simp [modeAmp_zero, gsg_zero, shift_zero, ofInt_one]
  · simp only [↓reduceIte]
    exact ampF'_multiplyOp c hlast x i q s s' hi hs h (hq rfl)

theorem ampF'_multiplyExpr (c : Ctx) (x : Form) (e : Occ → GRat) (s s' : Occ) (hx : WF2 c x)
    (hs : Valid c s) : ampF' c (multiplyExpr c x e) s s' = e s * ampF' c x s s' := by
  rw [multiplyExpr_eq]
  unfold ampF'
  rw [List.map_map, ← List.sum_map_mul_left]
  congr 1
  apply List.map_congr_left
  intro t ht
  show ampS' c (exprTerm c e t) s s' = e s * ampS' c t s s'
  unfold ampS'
  have : sgn c (exprTerm c e t) s = sgn c t s := rfl
  rw [this, ampS_exprTerm c e t s s' (hx t ht) hs]
  ring

theorem wf2_multiplyOp' (c : Ctx) (x : Form) (i : Nat) (q : Int) (hi : i < c.n)
    (hq : c.isInf i = false → q = 1 ∨ q = -1) (h : WF2 c x) : WF2 c (multiplyOp c x i q) := by
  cases hinf : c.isInf i
  · rw [multiplyOp_fin c x i q hinf, if_neg (natAbs_le_one_of q (hq hinf))]
    intro t' ht'
    obtain ⟨t, ht, hopt⟩ := List.mem_filterMap.mp ht'
    exact wft_opTermF c i q t t' hi (hq hinf) (h t ht) hopt
  · rw [multiplyOp_inf c x i q hinf]
    intro t' ht'
    obtain ⟨t, ht, rfl⟩ := List.mem_map.mp ht'
    exact wft_opTerm c i q t hi hinf (h t ht)

/-! ## sequences of steps: state-dependent sign factors -/

/-- the state after the modes of `L` have acted -/
def after (Q : Nat → Int) (B : Nat → Bool) (L : List Nat) (s : Occ) : Occ :=
  (List.range s.length).map fun j => Occ.get s j - (if j ∈ L then (if B j then Q j else 0) else 0)

/-- accumulated factor: the head of the list acts last -/
def facs (c : Ctx) (Q : Nat → Int) (B : Nat → Bool) : List Nat → Occ → Int
  | [], _ => 1
  | i :: L, s => facs c Q B L s *
      (gsg c i (if B i then Q i else 0) (after Q B L s)
        * modeAmp c i (Occ.get (after Q B L s) i) (if B i then Q i else 0))

theorem get_after (Q : Nat → Int) (B : Nat → Bool) (L : List Nat) (s : Occ) (j : Nat) (hj : j < s.length) :
    Occ.get (after Q B L s) j = Occ.get s j - (if j ∈ L then (if B j then Q j else 0) else 0) := by
  rw [after, get_mapRange, if_pos hj]

@[simp] theorem length_after (Q : Nat → Int) (B : Nat → Bool) (L : List Nat) (s : Occ) :
    (after Q B L s).length = s.length := by simp [after]

theorem after_cons (Q : Nat → Int) (B : Nat → Bool) (i : Nat) (L : List Nat) (s : Occ) (hi : i < s.length)
    (hiL : i ∉ L) :
    Occ.shift (after Q B L s) i (-(if B i then Q i else 0)) = after Q B (i :: L) s := by
  apply occ_ext (by simp)
  intro j hj
  have hj' : j < s.length := by simpa using hj
  rw [get_shift _ _ _ _ (by simpa using hi), get_after _ _ _ _ _ hj', get_after _ _ _ _ _ hj']
  by_cases h : j = i
  · subst h
    rw [if_pos rfl, get_after _ _ _ _ _ hi, if_neg hiL]
    simp; ring
  · rw [if_neg h]
    simp [h]

theorem after_nil (Q : Nat → Int) (B : Nat → Bool) (s : Occ) : after Q B [] s = s := by
  apply occ_ext (by simp)
  intro j hj
  rw [get_after _ _ _ _ _ (by simpa using hj)]
  simp

theorem gsg_ne_zero (c : Ctx) (i : Nat) (q : Int) (s : Occ) : gsg c i q s ≠ 0 := by
  unfold gsg sgnI
  split
  · split <;> decide
  · decide

/-- if no factor vanishes, the state after the steps is physical -/
theorem valid_after (c : Ctx) (Q : Nat → Int) (B : Nat → Bool)
    (hQ : ∀ i, i < c.n → B i = true → c.isInf i = false → Q i = 1 ∨ Q i = -1) :
    ∀ (L : List Nat), L.Nodup → (∀ i ∈ L, i < c.n) → ∀ s : Occ, Valid c s → facs c Q B L s ≠ 0 →
      Valid c (after Q B L s) := by
  intro L
  induction L with
  | nil => intro _ _ s hs _; rw [after_nil]; exact hs
  | cons i L ih =>
    intro hnd hlt s hs hne
    have hi : i < c.n := hlt i (List.mem_cons_self)
    have hiL : i ∉ L := (List.nodup_cons.mp hnd).1
    have hne' : facs c Q B L s ≠ 0 := fun h => hne (by simp [facs, h])
    have hv := ih (List.nodup_cons.mp hnd).2 (fun j hj => hlt j (List.mem_cons_of_mem _ hj)) s hs hne'
    have hfac : modeAmp c i (Occ.get (after Q B L s) i) (if B i then Q i else 0) ≠ 0 := by
      intro h; apply hne; simp [facs, h]
    refine ⟨by simp [hs.len], ?_⟩
    intro j hj hfin
    rw [← after_cons Q B i L s (by rw [hs.len]; exact hi) hiL,
      get_shift _ _ _ _ (by simp [hs.len]; exact hi)]
    by_cases hji : j = i
    · subst hji
      rw [if_pos rfl]
      cases hB : B j
      · simp [hB]; exact hv.bin j hj hfin
      · rw [hB] at hfac
        simp only [↓reduceIte] at hfac ⊢
        rw [modeAmp_fin c j hfin] at hfac
        rcases hQ j hj hB hfin with e | e <;> rcases hv.bin j hj hfin with h | h <;> rw [e, h] at hfac ⊢ <;>
          simp at hfac ⊢
    · rw [if_neg hji]; exact hv.bin j hj hfin

/-- a sequence of conditional steps on distinct modes, with signs -/
theorem ampF'_fold (c : Ctx) (hlast : FermionsLast c) (Q : Nat → Int) (B : Nat → Bool) (s' : Occ)
    (hQ : ∀ i, i < c.n → B i = true → c.isInf i = false → Q i = 1 ∨ Q i = -1) :
    ∀ (L : List Nat), L.Nodup → (∀ i ∈ L, i < c.n) → ∀ (y : Form) (s : Occ), WF2 c y → Valid c s →
      WF2 c (L.foldl (fun acc i => if B i then multiplyOp c acc i (Q i) else acc) y) ∧
      ampF' c (L.foldl (fun acc i => if B i then multiplyOp c acc i (Q i) else acc) y) s s'
        = ofInt (facs c Q B L s) * ampF' c y (after Q B L s) s' := by
  intro L
  induction L with
  | nil =>
    intro _ _ y s hy _
    refine ⟨hy, ?_⟩
    simp [facs, after_nil, ofInt_one]
  | cons i L ih =>
    intro hnd hlt y s hy hs
    have hi : i < c.n := hlt i (List.mem_cons_self)
    have hiL : i ∉ L := (List.nodup_cons.mp hnd).1
    have hL := (List.nodup_cons.mp hnd).2
    have hltL : ∀ j ∈ L, j < c.n := fun j hj => hlt j (List.mem_cons_of_mem _ hj)
    have hy' : WF2 c (if B i then multiplyOp c y i (Q i) else y) := by
      cases hB : B i
      · simpa using hy
      · simp only [↓reduceIte]
        exact wf2_multiplyOp' c y i (Q i) hi (hQ i hi hB) hy
    obtain ⟨hwf, hamp⟩ := ih hL hltL _ s hy' hs
    refine ⟨by simpa [List.foldl_cons] using hwf, ?_⟩
    rw [List.foldl_cons, hamp]
    have h0 : ofInt 0 = 0 := by ext <;> simp [ofInt]
    by_cases hz : facs c Q B L s = 0
    · simp [facs, hz, h0]
    · have hv := valid_after c Q B hQ L hL hltL s hs hz
      rw [ampF'_step c hlast y i (Q i) (B i) (after Q B L s) s' hi hv hy (hQ i hi),
        after_cons Q B i L s (by rw [hs.len]; exact hi) hiL]
      simp only [facs]
      rw [ofInt_mul, ofInt_mul, ofInt_mul]
      ring

/-! ## separating signs and amplitudes -/

def sfacs (c : Ctx) (Q : Nat → Int) (B : Nat → Bool) : List Nat → Occ → Int
  | [], _ => 1
  | i :: L, s => sfacs c Q B L s * gsg c i (if B i then Q i else 0) (after Q B L s)

theorem facs_split (c : Ctx) (Q : Nat → Int) (B : Nat → Bool) :
    ∀ (L : List Nat), L.Nodup → ∀ s : Occ, (∀ i ∈ L, i < s.length) →
      facs c Q B L s = sfacs c Q B L s * (L.map fun i => modeAmp c i (Occ.get s i) (if B i then Q i else 0)).prod := by
  intro L
  induction L with
  | nil => intro _ s _; simp [facs, sfacs]
  | cons i L ih =>
    intro hnd s hlt
    have hiL : i ∉ L := (List.nodup_cons.mp hnd).1
    rw [facs, sfacs, ih (List.nodup_cons.mp hnd).2 s (fun j hj => hlt j (List.mem_cons_of_mem _ hj)),
      get_after _ _ _ _ _ (hlt i (List.mem_cons_self)), if_neg hiL, sub_zero, List.map_cons, List.prod_cons]
    ring

theorem prod_sgnI (n : Nat) (cnd : Nat → Prop) [DecidablePred cnd] (a : Nat → Nat) :
    ∏ k ∈ range n, (if cnd k then sgnI (a k) else 1) = sgnI (∑ k ∈ range n, if cnd k then a k else 0) := by
  induction n with
  | zero => simp [sgnI_zero]
  | succ n ih =>
    rw [prod_range_succ, sum_range_succ, sgnI_add, ih]
    by_cases h : cnd n <;> simp [h, sgnI_zero]

theorem loCount_congr (F : Nat → Bool) (O O' : Nat → Int) (i : Nat) (h : ∀ j, j < i → O j = O' j) :
    loCount F O i = loCount F O' i := by
  unfold loCount
  apply sum_congr rfl
  intro j hj
  rw [h j (mem_range.mp hj)]

/-- signs of the annihilation phase (`[m-1, …, 0]`: mode `k` acts after all lower modes) -/
theorem sfacs_reverse (c : Ctx) (Q : Nat → Int) (B : Nat → Bool) (s : Occ) :
    ∀ m, m ≤ s.length →
      sfacs c Q B (List.range m).reverse s
        = ∏ k ∈ range m, (if isF c k = true ∧ (if B k then Q k else 0) ≠ 0 then
            sgnI (loCount (isF c) (fun j => Occ.get s j - (if B j then Q j else 0)) k) else 1) := by
  intro m
  induction m with
  | zero => intro _; simp [sfacs]
  | succ m ih =>
    intro hm
    rw [List.range_succ, List.reverse_append, List.reverse_singleton, List.singleton_append, sfacs,
      ih (by omega), prod_range_succ]
    congr 1
    unfold gsg
    by_cases hc : isF c m = true ∧ (if B m then Q m else 0) ≠ 0
    · rw [if_pos hc, if_pos hc]
      congr 1
      apply loCount_congr
      intro j hj
      rw [get_after _ _ _ _ _ (by omega), if_pos (by simp; exact hj)]
    · rw [if_neg hc, if_neg hc]

/-- signs of the creation phase (`[k, …, k+m-1]`: mode `i` acts before all lower modes) -/
theorem sfacs_range' (c : Ctx) (Q : Nat → Int) (B : Nat → Bool) (s : Occ) :
    ∀ m k, k + m ≤ s.length →
      sfacs c Q B (List.range' k m) s
        = ((List.range' k m).map fun i => (if isF c i = true ∧ (if B i then Q i else 0) ≠ 0 then
            sgnI (loCount (isF c) (fun j => Occ.get s j) i) else 1)).prod := by
  intro m
  induction m with
  | zero => intro k _; simp [sfacs]
  | succ m ih =>
    intro k hk
    rw [List.range'_succ, sfacs, ih (k + 1) (by omega), List.map_cons, List.prod_cons, mul_comm]
    congr 1
    unfold gsg
    by_cases hc : isF c k = true ∧ (if B k then Q k else 0) ≠ 0
    · rw [if_pos hc, if_pos hc]
      congr 1
      apply loCount_congr
      intro j hj
      rw [get_after _ _ _ _ _ (by omega), if_neg]
      · simp
      · intro hmem
        have := (List.mem_range'_1.mp hmem).1
        omega
    · rw [if_neg hc, if_neg hc]

/-! ## `__mul__` with fermions -/

/-- the signed action of a normal-ordered monomial -/
def specAmpS (c : Ctx) (t : Term) (s : Occ) : GRat := ofInt (sgn c t s) * specAmp c t s

theorem sigma_eq_sum (c : Ctx) (t : Term) (s : Occ) :
    sigma c t s = ∑ k ∈ range c.n, if isF c k = true ∧ pw t k ≠ 0 then
      loCount (isF c) (fun j => Occ.get (mid t s) j) k else 0 := rfl

/-- multiplication of a form by one monomial from the right, all kinds of modes -/
theorem ampF'_mulTerm (c : Ctx) (hlast : FermionsLast c) (x : Form) (t : Term) (s s' : Occ) (hx : WF2 c x)
    (ht : WFT c t) (hs : Valid c s) :
    ampF' c (mulTerm c x t) s s' = specAmpS c t s * ampF' c x (tgt t s) s' := by
  unfold mulTerm
  have hnd : (List.range c.n).Nodup := List.nodup_range
  have hlt : ∀ i ∈ List.range c.n, i < c.n := fun i hi => List.mem_range.mp hi
  have hndr : (List.range c.n).reverse.Nodup := List.nodup_reverse.mpr hnd
  have hltr : ∀ i ∈ (List.range c.n).reverse, i < c.n := fun i hi => List.mem_range.mp (List.mem_reverse.mp hi)
  have hQpos : ∀ i, i < c.n → decide (pw t i > 0) = true → c.isInf i = false → pw t i = 1 ∨ pw t i = -1 := by
    intro i hi hb hfin
    have hb' : pw t i > 0 := by simpa using hb
    rcases ht.fin i hi hfin with e | e | e <;> omega
  have hQneg : ∀ i, i < c.n → decide (pw t i < 0) = true → c.isInf i = false → pw t i = 1 ∨ pw t i = -1 := by
    intro i hi hb hfin
    have hb' : pw t i < 0 := by simpa using hb
    rcases ht.fin i hi hfin with e | e | e <;> omega
  have h0 : ofInt 0 = 0 := by ext <;> simp [ofInt]
  -- well-formedness of the inner forms
  obtain ⟨hp1wf, _⟩ := ampF'_fold c hlast (fun i => pw t i) (fun i => decide (pw t i < 0)) s' hQneg
    (List.range c.n) hnd hlt x s hx hs
  have hp1wf' : WF2 c ((List.range c.n).foldl
      (fun acc i => if pw t i < 0 then multiplyOp c acc i (pw t i) else acc) x) := by simpa using hp1wf
  have hp2wf := wf2_multiplyExpr c _ t.coeff hp1wf'
  -- annihilators act first
  obtain ⟨_, h3⟩ := ampF'_fold c hlast (fun i => pw t i) (fun i => decide (pw t i > 0)) s' hQpos
    (List.range c.n).reverse hndr hltr _ s hp2wf hs
  simp only [decide_eq_true_eq] at h3
  rw [h3]
  have hafter3 : after (fun i => pw t i) (fun i => decide (pw t i > 0)) (List.range c.n).reverse s = mid t s := by
    apply occ_ext (by simp)
    intro j hj
    have hj' : j < s.length := by simpa using hj
    have hjn : j < c.n := by rw [← hs.len]; exact hj'
    rw [get_after _ _ _ _ _ hj', get_mid _ _ _ hj',
      if_pos (List.mem_reverse.mpr (List.mem_range.mpr hjn))]
    by_cases hp : pw t j > 0
    · have : max (pw t j) 0 = pw t j := by omega
      simp [hp, this]
    · have : max (pw t j) 0 = 0 := by omega
      simp [hp, this]
  rw [hafter3, facs_split c _ _ _ hndr s (fun i hi => by rw [hs.len]; exact hltr i hi),
    sfacs_reverse c _ _ s c.n (by rw [hs.len])]
  set S3 := ∏ k ∈ range c.n, (if isF c k = true ∧ (if decide (pw t k > 0) = true then pw t k else 0) ≠ 0 then
      sgnI (loCount (isF c) (fun j => Occ.get s j - (if decide (pw t j > 0) = true then pw t j else 0)) k)
      else 1) with hS3
  set Aprod := ((List.range c.n).reverse.map fun j =>
      modeAmp c j (Occ.get s j) (if decide (pw t j > 0) = true then pw t j else 0)).prod with hAdef
  have hA : Aprod = ∏ j ∈ range c.n, modeAmp c j (Occ.get s j) (if pw t j > 0 then pw t j else 0) := by
    rw [hAdef, prod_range_list]
    apply prod_congr rfl
    intro j _
    by_cases hp : pw t j > 0 <;> simp [hp]
  by_cases hAz : Aprod = 0
  · have hz : annAmp c t s = 0 := by
      rw [hA] at hAz
      obtain ⟨j, hj, hjz⟩ := Finset.prod_eq_zero_iff.mp hAz
      unfold annAmp
      apply Finset.prod_eq_zero hj
      by_cases hp : pw t j > 0
      · simpa [hp] using hjz
      · simp [hp, modeAmp_zero] at hjz
    rw [hAz, mul_zero, h0, zero_mul]
    unfold specAmpS specAmp
    rw [hz, h0, zero_mul, mul_zero, zero_mul]
  · have hmidv : Valid c (mid t s) := by
      refine ⟨by simp [hs.len], ?_⟩
      intro j hj hfin
      rw [get_mid _ _ _ (by rw [hs.len]; exact hj)]
      have hne : modeAmp c j (Occ.get s j) (if pw t j > 0 then pw t j else 0) ≠ 0 := by
        rw [hA] at hAz
        exact (Finset.prod_ne_zero_iff.mp hAz) j (mem_range.mpr hj)
      rcases ht.fin j hj hfin with e | e | e
      · rw [e]; norm_num; exact hs.bin j hj hfin
      · rw [e]; norm_num; exact hs.bin j hj hfin
      · rw [e] at hne ⊢
        rw [modeAmp_fin c j hfin] at hne
        norm_num at hne ⊢
        rcases hs.bin j hj hfin with h | h
        · exact absurd h hne
        · left; rw [h]; norm_num
    rw [ampF'_multiplyExpr c _ _ _ _ hp1wf' hmidv]
    -- creators act last
    obtain ⟨_, h1⟩ := ampF'_fold c hlast (fun i => pw t i) (fun i => decide (pw t i < 0)) s' hQneg
      (List.range c.n) hnd hlt x (mid t s) hx hmidv
    simp only [decide_eq_true_eq] at h1
    rw [h1]
    have hafter1 : after (fun i => pw t i) (fun i => decide (pw t i < 0)) (List.range c.n) (mid t s) = tgt t s := by
      apply occ_ext (by simp)
      intro j hj
      have hj' : j < s.length := by simpa using hj
      have hjn : j < c.n := by rw [← hs.len]; exact hj'
      rw [get_after _ _ _ _ _ (by simpa using hj'), get_mid _ _ _ hj', get_tgt _ _ _ hj',
        if_pos (List.mem_range.mpr hjn)]
      by_cases hp : pw t j < 0
      · have : max (pw t j) 0 = 0 := by omega
        simp [hp, this]
      · by_cases hp' : pw t j > 0
        · have : max (pw t j) 0 = pw t j := by omega
          simp [hp, this]
        · have h0' : pw t j = 0 := by omega
          simp [h0']
    rw [hafter1, facs_split c _ _ _ hnd (mid t s) (fun i hi => by simp [hs.len]; exact hlt i hi),
      List.range_eq_range', sfacs_range' c _ _ (mid t s) c.n 0 (by simp [hs.len]), ← List.range_eq_range']
    -- amplitudes
    have hB : ((List.range c.n).map fun j =>
        modeAmp c j (Occ.get (mid t s) j) (if decide (pw t j < 0) = true then pw t j else 0)).prod
        = ∏ j ∈ range c.n, modeAmp c j (Occ.get (mid t s) j) (if pw t j < 0 then pw t j else 0) := by
      rw [← List.prod_toFinset _ List.nodup_range, List.toFinset_range]
      apply prod_congr rfl
      intro j _
      by_cases hp : pw t j < 0 <;> simp [hp]
    have hAB : Aprod * (∏ j ∈ range c.n, modeAmp c j (Occ.get (mid t s) j) (if pw t j < 0 then pw t j else 0))
        = annAmp c t s := by
      rw [hA, ← Finset.prod_mul_distrib]
      unfold annAmp
      apply prod_congr rfl
      intro j hj
      have hj' := mem_range.mp hj
      rw [get_mid _ _ _ (by rw [hs.len]; exact hj')]
      by_cases hp : pw t j > 0
      · have hn : ¬ pw t j < 0 := by omega
        simp [hp, hn, modeAmp_zero]
      · by_cases hn : pw t j < 0
        · have : max (pw t j) 0 = 0 := by omega
          simp [hp, hn, modeAmp_zero, this]
        · have h0' : pw t j = 0 := by omega
          simp [h0', modeAmp_zero]
    -- signs
    have hS1 : ((List.range c.n).map fun i =>
        (if isF c i = true ∧ (if decide (pw t i < 0) = true then pw t i else 0) ≠ 0 then
          sgnI (loCount (isF c) (fun j => Occ.get (mid t s) j) i) else 1)).prod
        = ∏ i ∈ range c.n, (if isF c i = true ∧ pw t i < 0 then
            sgnI (loCount (isF c) (fun j => Occ.get (mid t s) j) i) else 1) := by
      rw [← List.prod_toFinset _ List.nodup_range, List.toFinset_range]
      apply prod_congr rfl
      intro i _
      by_cases hp : pw t i < 0
      · have : pw t i ≠ 0 := by omega
        simp [hp, this]
      · simp [hp]
    have hS3' : S3 = ∏ k ∈ range c.n, (if isF c k = true ∧ pw t k > 0 then
        sgnI (loCount (isF c) (fun j => Occ.get (mid t s) j) k) else 1) := by
      rw [hS3]
      apply prod_congr rfl
      intro k hk
      have hkn := mem_range.mp hk
      have hlo : loCount (isF c) (fun j => Occ.get s j - (if decide (pw t j > 0) = true then pw t j else 0)) k
          = loCount (isF c) (fun j => Occ.get (mid t s) j) k := by
        apply loCount_congr
        intro j hj
        rw [get_mid _ _ _ (by rw [hs.len]; omega)]
        by_cases hp : pw t j > 0
        · have : max (pw t j) 0 = pw t j := by omega
          simp [hp, this]
        · have : max (pw t j) 0 = 0 := by omega
          simp [hp, this]
      rw [hlo]
      by_cases hp : pw t k > 0
      · have : pw t k ≠ 0 := by omega
        simp [hp, this]
      · simp [hp]
    have hSS : S3 * (∏ i ∈ range c.n, (if isF c i = true ∧ pw t i < 0 then
          sgnI (loCount (isF c) (fun j => Occ.get (mid t s) j) i) else 1)) = sgn c t s := by
      rw [hS3', ← Finset.prod_mul_distrib]
      unfold sgn
      rw [sigma_eq_sum, ← prod_sgnI]
      apply prod_congr rfl
      intro k _
      by_cases hF : isF c k = true
      · by_cases hp : pw t k > 0
        · have h1 : ¬ pw t k < 0 := by omega
          have h2 : pw t k ≠ 0 := by omega
          simp [hF, hp, h1, h2]
        · by_cases hn : pw t k < 0
          · have h2 : pw t k ≠ 0 := by omega
            simp [hF, hp, hn, h2]
          · have h2 : pw t k = 0 := by omega
            simp [hF, h2]
      · simp [hF]
    rw [hB, hS1]
    unfold specAmpS specAmp
    rw [← hAB, ← hSS]
    simp only [ofInt_mul]
    ring

/-- **C08**: for every context whose fermionic modes come last, the kernel of a product of two
well-formed forms is the composition of the (signed) kernels, on every physical basis state -/
theorem rep_mul3 (c : Ctx) (hlast : FermionsLast c) (x y : Form) (s s'' : Occ) (hx : WF2 c x) (hy : WF2 c y)
    (hs : Valid c s) :
    ampF' c (mul c x y) s s'' = (y.map fun t => specAmpS c t s * ampF' c x (tgt t s) s'').sum := by
  rw [mul_eq]
  have hfl : ∀ (f : Term → Form), ampF' c (y.flatMap f) s s'' = (y.map fun t => ampF' c (f t) s s'').sum := by
    intro f
    unfold ampF'
    induction y with
    | nil => simp
    | cons t y ih =>
      simp only [List.flatMap_cons, List.map_append, List.sum_append, List.map_cons, List.sum_cons]
      rw [ih (fun t ht => hy t (List.mem_cons_of_mem _ ht))]
  rw [hfl]
  congr 1
  apply List.map_congr_left
  intro t ht
  exact ampF'_mulTerm c hlast x t s s'' hx (hy t ht) hs

end Nof
end Pyma
#print axioms Pyma.Nof.rep_mul3
