/-
Python's tuple comparison on multi-orders (`Cauchy.lexGt`) is a strict total order on lists of
equal length.  Core Lean only.
-/
import PymaVerif.Model.Cauchy

namespace Pyma
namespace Cauchy

theorem lexGt_irrefl : ∀ a : List Nat, lexGt a a = false
  | [] => rfl
  | x :: xs => by simp [lexGt, lexGt_irrefl xs]

theorem lexGt_asymm : ∀ a b : List Nat, lexGt a b = true → lexGt b a = false
  | [], [], h => by simp [lexGt] at h
  | [], _ :: _, h => by simp [lexGt] at h
  | _ :: _, [], _ => by simp [lexGt]
  | x :: xs, y :: ys, h => by
    simp only [lexGt] at h ⊢
    by_cases h1 : x > y
    · have : ¬ y > x := by omega
      simp [this, h1]
    · simp only [h1, ↓reduceIte] at h
      by_cases h2 : x < y
      · simp [h2] at h
      · simp only [h2, ↓reduceIte] at h
        have hxy : x = y := by omega
        subst hxy
        simp [lexGt_asymm xs ys h]

theorem lexGt_total : ∀ a b : List Nat, a.length = b.length → a ≠ b → lexGt a b = true ∨ lexGt b a = true
  | [], [], _, hne => absurd rfl hne
  | [], _ :: _, hl, _ => by simp at hl
  | _ :: _, [], hl, _ => by simp at hl
  | x :: xs, y :: ys, hl, hne => by
    simp only [lexGt]
    by_cases h1 : x > y
    · left; simp [h1]
    · by_cases h2 : x < y
      · right
        have : y > x := h2
        simp [this]
      · have hxy : x = y := by omega
        subst hxy
        have hne' : xs ≠ ys := fun e => hne (by rw [e])
        have hl' : xs.length = ys.length := by simpa using hl
        rcases lexGt_total xs ys hl' hne' with h | h
        · left; simp [h]
        · right; simp [h]

end Cauchy
end Pyma
