/-
Accepted inputs: a decidable description of the problems `block_diagonalize` accepts on its exact
Hermitian path, and the discharge of every hypothesis bundle of the `main` chain from it.
The end-to-end statements of C01/C02 (and the gauge fact used by C03) are restated here with
`Accepted` as their only hypothesis on the input.
-/
import PymaVerif.Proofs.MainTotal
import PymaVerif.Proofs.MainH6
import PymaVerif.Proofs.MainOpt

namespace Pyma
namespace BlockDiag
open Dsl Generated MvPowerSeries
namespace Problem

/-- what the magnitude tests must satisfy -/
class LawfulThresholds (K : Type) [Field K] [Thresholds K] : Prop where
  absGt_neg : ∀ (x : K) (t : Rat), Thresholds.absGt (-x) t = Thresholds.absGt x t
  absGt_ne : ∀ (x : K) (t : Rat), 0 ≤ t → Thresholds.absGt x t = true → x ≠ 0

variable {K : Type} [Field K] [StarRing K] [DecidableEq K] [Thresholds K]
attribute [local instance] Scalar.ofField
variable (p : Problem K)

/-- the accepted problems; every field is decidable when equality on `K` is -/
structure Accepted : Prop where
  wf : ∀ t ∈ p.terms, t.2.d = p.d
  blocks_lt : ∀ a : Fin p.d, p.blk a.val < p.nblocks
  atol_nonneg : 0 ≤ p.atol
  herm : ∀ t ∈ p.terms, ∀ a b : Fin p.d, star (t.2.get b.val a.val) = t.2.get a.val b.val
  h0_diag : ∀ t ∈ p.terms, t.1 = p.zeroOrder → ∀ a b : Fin p.d, a ≠ b → t.2.get a.val b.val = 0
  elim_symm : ∀ a b : Fin p.d, p.blk a.val = p.blk b.val → p.elimIn a.val b.val = p.elimIn b.val a.val
  diag_kept : ∀ a : Fin p.d, p.keptE a.val a.val = true
  gap : ∀ a b : Fin p.d, p.keptE a.val b.val = false →
    Scalar.absGt (p.energy a.val - p.energy b.val) p.atol = true
  comm_trans : ∀ a b c : Fin p.d, p.commuting (p.blk a.val) = true → p.keptE a.val b.val = true →
    p.keptE c.val b.val = true → p.keptE a.val c.val = true
  no_shared : ∀ a b : Fin p.d, p.blk a.val ≠ p.blk b.val →
    Scalar.isClose (p.energy a.val) (p.energy b.val) = false

variable {p}

theorem noShared_of (hns : ∀ a b : Fin p.d, p.blk a.val ≠ p.blk b.val →
    Scalar.isClose (p.energy a.val) (p.energy b.val) = false) : p.NoShared := by
  intro i j
  by_cases hij : i = j
  · simp [hij]
  · have hb : (i != j) = true := by simpa using hij
    rw [hb, Bool.true_and, List.any_eq_false]
    intro a ha
    rw [Bool.not_eq_true, List.any_eq_false]
    intro b hb
    rw [Bool.not_eq_true, Bool.and_eq_false_iff]
    by_cases hin : p.inBlock i j a b = true
    · right
      simp only [inBlock, Bool.and_eq_true, beq_iff_eq] at hin
      have := hns ⟨a, List.mem_range.mp ha⟩ ⟨b, List.mem_range.mp hb⟩
        (by simp only [hin.1, hin.2]; exact hij)
      exact this
    · left; simpa using hin

theorem Accepted.noShared (h : p.Accepted) : p.NoShared := noShared_of h.no_shared

theorem Accepted.ready (h : p.Accepted) : p.Ready where
  wf := h.wf
  tot := fun x hx idx => p.total_main h.noShared x hx idx
  hN := h.blocks_lt

theorem isZero_get {m : Mat K} (hz : m.isZero = true) (a b : Nat) : m.get a b = 0 := by
  simp only [Mat.isZero, Array.all_eq_true, beq_iff_eq] at hz
  simp only [Mat.get, Array.getD_eq_getD_getElem?]
  by_cases hlt : a * m.d + b < m.data.size
  · simp [Array.getElem?_eq_getElem hlt, hz _ hlt]
  · simp [Array.getElem?_eq_none (Nat.le_of_not_lt hlt)]

/-- the coefficients of the input series are the entries of the supplied terms (any program) -/
theorem G_H (P : Prog) (hwf : p.WF) (n : List Nat) (a b : Fin p.d) :
    G p.blocks P p.env "H" n a b = match p.term n with
      | none => 0
      | some h => h.get a.val b.val := by
  have hin : kindOf P p.env "H" = .input := by simp [kindOf, env]
  have hv : Den P p.env "H" ⟨p.blk a.val, p.blk b.val, n⟩ (p.env.input "H" _) := Holds.input hin
  show mat p.blocks P p.env "H" ⟨p.blk a.val, p.blk b.val, n⟩ a b = _
  rw [mat, den_eq hv]
  show sem p.blocks _ (p.inputH _) a b = _
  unfold inputH
  cases ht : p.term n with
  | none => simp [sem]
  | some m =>
    have hd : m.d = p.d := p.term_d hwf ht
    have hget : (m.mask (p.inBlock (p.blk a.val) (p.blk b.val))).get a.val b.val = m.get a.val b.val := by
      simp only [Mat.mask]
      rw [Mat.get_ofFn _ (by rw [hd]; exact a.isLt) (by rw [hd]; exact b.isLt)]
      simp [inBlock]
    simp only
    split
    · rename_i hz
      rw [← hget, isZero_get hz]; simp [sem]
    · simp only [sem, Mat.toMatrix]; exact hget

theorem g_H (hwf : p.WF) (n : List Nat) (a b : Fin p.d) :
    p.g "H" n a b = match p.term n with
      | none => 0
      | some h => h.get a.val b.val := G_H main hwf n a b

theorem term_mem {n : List Nat} {m : Mat K} (ht : p.term n = some m) : (n, m) ∈ p.terms := by
  simp only [term, Option.map_eq_some_iff] at ht
  obtain ⟨t, hfind, rfl⟩ := ht
  have h1 := List.mem_of_find?_eq_some hfind
  have h2 := List.find?_some hfind
  simp only [beq_iff_eq] at h2
  rw [← h2]; exact h1

theorem toList_zero (k : Nat) : toList (0 : Fin k →₀ ℕ) = List.replicate k 0 := by
  simp [toList, List.ofFn_const]

theorem Accepted.sym [LawfulThresholds K] (h : p.Accepted) : p.Sym where
  elim_symm := h.elim_symm
  energy_real := by
    intro a
    unfold energy
    cases ht : p.term p.zeroOrder with
    | none => simp
    | some m => exact h.herm _ (term_mem ht) a a
  absGt_neg := fun x => LawfulThresholds.absGt_neg x p.atol

theorem Accepted.acc [LawfulThresholds K] (h : p.Accepted) : p.Acc where
  herm_H := by
    intro n a b
    rw [g_H h.wf, g_H h.wf]
    cases ht : p.term n with
    | none => simp
    | some m => exact h.herm _ (term_mem ht) a b
  H0_spec := by
    ext a b
    rw [g_H h.wf, toList_zero]
    simp only [H0mat, Matrix.diagonal_apply, energy, zeroOrder]
    cases ht : p.term (List.replicate p.nparams 0) with
    | none => simp
    | some m =>
      by_cases hab : a = b
      · subst hab; simp
      · simp only [hab, ↓reduceIte]
        exact h.h0_diag _ (term_mem ht) rfl a b hab
  diag_kept := h.diag_kept
  gap := h.gap
  absGt_ne := fun x => LawfulThresholds.absGt_ne x p.atol h.atol_nonneg
  comm_trans := h.comm_trans

/-! ## the end-to-end statements -/

variable [LawfulThresholds K] (h : p.Accepted) (h2 : (2 : K) ≠ 0)

include h h2 in
/-- **C01** (model level): the series the algorithm returns satisfy `U† H U = H̃` to all orders,
for every accepted problem — with or without the two-block optimisation. -/
theorem C01 : p.sr "U†" * p.sr "H" * p.sr "U" = p.sr "H_tilde" := by
  cases hopt : p.twoBlockOptimized
  · exact p.C01_main h.ready hopt h.sym h.acc h2
  · exact p.C01_opt h.ready hopt h.sym h.acc h2

include h h2 in
/-- **C02** (model level): `U† U = 1`, `U U† = 1` and `U†` is the adjoint of `U`, to all orders. -/
theorem C02 : p.sr "U†" * p.sr "U" = 1 ∧ p.sr "U" * p.sr "U†" = 1 ∧ star (p.sr "U") = p.sr "U†" := by
  cases hopt : p.twoBlockOptimized
  · exact ⟨p.C02_unitary h.ready hopt h.sym h2, p.C02_unitary' h.ready hopt h.sym h.acc h2,
      p.C02_adjoint h.ready hopt h.sym h2⟩
  · exact p.C02_opt h.ready hopt h.sym h.acc h2

include h h2 in
/-- **C01**, second half: `U† H U` has no eliminated entry, at any order -/
theorem C01_elim (m : Fin p.nparams →₀ ℕ) (a b : Fin p.d) (hk : p.keptE a.val b.val = false) :
    coeff m (p.sr "U†" * p.sr "H" * p.sr "U") a b = 0 := by
  rw [C01 h h2]; exact p.Ht_elim h.ready h.acc m a b hk

include h in
theorem sr_H_star : star (p.sr "H") = p.sr "H" := by
  ext m a b
  rw [coeff_star_apply, coeff_sr]
  exact h.acc.herm_H _ a b

include h h2 in
/-- **C02**, third part: `H̃` is Hermitian at every order -/
theorem C02_Ht_herm : star (p.sr "H_tilde") = p.sr "H_tilde" := by
  obtain ⟨_, _, hadj⟩ := C02 h h2
  have hadj' : star (p.sr "U†") = p.sr "U" := by rw [← hadj, star_star]
  rw [← C01 h h2, star_mul, star_mul, hadj, hadj', sr_H_star h, mul_assoc]

end Problem
end BlockDiag
end Pyma
#print axioms Pyma.BlockDiag.Problem.C01
#print axioms Pyma.BlockDiag.Problem.C02
