/-
Entry-level equations of `main` (continued): the series with diagonal / off-diagonal clauses.
-/
import PymaVerif.Proofs.MainBlock

namespace Pyma
namespace BlockDiag
open Dsl Generated
namespace Problem

variable {K : Type} [Field K] [StarRing K] [DecidableEq K] [Thresholds K]
attribute [local instance] Scalar.ofField
variable (p : Problem K) (hwf : p.WF)

theorem flag_comm (i : Nat) : p.env.flagIdx "commuting_blocks" i = p.commuting i := by
  simp [env]

theorem flag_opt : p.env.flagName "two_block_optimized" = p.twoBlockOptimized := by
  simp [env]

theorem conjT_at (x : String) (n : List Nat) (a b : Fin p.d) :
    (mat p.blocks main p.env x (Idx.swap ⟨p.blk a.val, p.blk b.val, n⟩)).conjTranspose a b
      = star (p.g x n b a) := rfl

theorem conjT_at' (x : String) (n : List Nat) (a b : Fin p.d) :
    (mat p.blocks main p.env x ⟨p.blk a.val, p.blk b.val, n⟩).conjTranspose a b
      = star (mat p.blocks main p.env x ⟨p.blk a.val, p.blk b.val, n⟩ b a) := rfl

/-- combining the `diag` and `offdiag` wrappers on a diagonal block -/
theorem wrap_combine (hab : p.blk a = p.blk b) (Md Mo : K) :
    ((if p.elimIn a b then 0 else Md) + if p.elimIn a b then Mo else 0)
      = if p.keptE a b then Md else Mo := by
  simp only [keptE, hab, beq_self_eq_true, Bool.true_and]
  cases p.elimIn a b <;> simp

include hwf in
theorem g_B (htot : p.Total) (n : List Nat) (hn : (n.all (· == 0)) = false) (a b : Fin p.d) :
    p.g "B" n a b =
      if p.keptE a.val b.val then
        ((-2 : ℤ) : K)⁻¹ * (p.g "U'† @ B" n a b - star (p.g "U'† @ B" n b a)
            + p.g "H'_offdiag @ U'" n a b + star (p.g "H'_offdiag @ U'" n b a))
          + (if p.commuting (p.blk a.val) then 0
             else p.g "V @ H'_diag" n a b + star (p.g "V @ H'_diag" n b a))
      else -(p.g "U'† @ B" n a b) := by
  main_step p, hwf, htot, "B", find_B, def_B, hn
  by_cases hab : p.blk a.val = p.blk b.val
  · have hbeq : (p.blk a.val == p.blk b.val) = true := by simp [hab]
    have hbne : (p.blk a.val != p.blk b.val) = false := by simp [hab]
    simp only [hbeq, hbne, ↓reduceIte, Bool.false_eq_true, p.env_offdiag, flag_comm]
    by_cases hfd : fdIsEmpty p.fdEff = true
    · have hk : p.keptE a.val b.val = true := by
        simp [keptE, hab, p.elimIn_false_of_empty hfd]
      simp only [hfd, ↓reduceIte, hk, Matrix.add_apply, zero_add,
        p.diag_entry hwf _ _ _ _ a b rfl, p.elimIn_false_of_empty hfd, Bool.false_eq_true]
      by_cases hc : p.commuting (p.blk a.val) = true
      · simp only [hc, ↓reduceIte, Matrix.zero_apply, add_zero, Matrix.smul_apply, Matrix.add_apply,
          Matrix.sub_apply, smul_eq_mul]
        rfl
      · simp only [hc, Bool.false_eq_true, ↓reduceIte, Matrix.smul_apply, Matrix.add_apply,
          Matrix.sub_apply, smul_eq_mul]
        rfl
    · simp only [hfd, Bool.false_eq_true, ↓reduceIte, Matrix.add_apply, zero_add,
        p.diag_entry hwf _ _ _ _ a b rfl, p.offdiag_entry hwf _ _ _ _ a b rfl]
      by_cases hk : p.elimIn a.val b.val = true
      · have hkk : p.keptE a.val b.val = false := by simp [keptE, hk]
        simp only [hk, ↓reduceIte, add_zero, zero_add, hkk, Bool.false_eq_true, Matrix.neg_apply]
        rfl
      · have hk' : p.elimIn a.val b.val = false := by simpa using hk
        have hkk : p.keptE a.val b.val = true := by simp [keptE, hab, hk']
        simp only [hk', Bool.false_eq_true, ↓reduceIte, add_zero, hkk]
        by_cases hc : p.commuting (p.blk a.val) = true
        · simp only [hc, ↓reduceIte, Matrix.zero_apply, add_zero, Matrix.smul_apply, Matrix.add_apply,
            Matrix.sub_apply, smul_eq_mul]
          rfl
        · simp only [hc, Bool.false_eq_true, ↓reduceIte, Matrix.smul_apply, Matrix.add_apply,
            Matrix.sub_apply, smul_eq_mul]
          rfl
  · have hbeq : (p.blk a.val == p.blk b.val) = false := by simp [hab]
    have hbne : (p.blk a.val != p.blk b.val) = true := by simp [hab]
    have hkk : p.keptE a.val b.val = false := by simp [keptE, hab]
    simp only [hbeq, hbne, hkk, Bool.false_eq_true, ↓reduceIte, Matrix.add_apply, Matrix.zero_apply,
      zero_add, Matrix.neg_apply]
    rfl


end Problem
end BlockDiag
end Pyma
