/-
C16 (direct solver): the pivot-constrained solve of `direct_greens_function` returns a solution of
`(E - H) x = P v` in the range of `P`, provided the left kernel vectors restricted to the pivot
rows are injective (what the pivot choice must guarantee; cf. defect D10).
-/
import Mathlib.Data.Matrix.Mul
import Mathlib.LinearAlgebra.Matrix.ConjTranspose

namespace Pyma
namespace Greens

variable {K : Type} [Field K] [StarRing K] {n m : Type} [Fintype n] [Fintype m] [DecidableEq n]
  [DecidableEq m]

/-- the matrix with the pivot equations replaced by `x[r] = 0` constraints -/
def constrain (A : Matrix n n K) (piv : n → Prop) [DecidablePred piv] : Matrix n n K :=
  fun r c => if piv r then (if r = c then 1 else 0) else A r c

theorem direct_solve (A : Matrix n n K) (Kv Lv : Matrix n m K) (piv : n → Prop) [DecidablePred piv]
    (hAK : A * Kv = 0) (hLA : Lv.conjTranspose * A = 0) (hLK : Lv.conjTranspose * Kv = 1)
    (hinj : ∀ w : n → K, (∀ r, ¬ piv r → w r = 0) → Lv.conjTranspose.mulVec w = 0 → w = 0)
    (v z : n → K)
    (hz : (constrain A piv).mulVec z = fun r => if piv r then 0 else ((1 - Kv * Lv.conjTranspose).mulVec v) r) :
    A.mulVec ((1 - Kv * Lv.conjTranspose).mulVec z) = (1 - Kv * Lv.conjTranspose).mulVec v ∧
    (1 - Kv * Lv.conjTranspose).mulVec ((1 - Kv * Lv.conjTranspose).mulVec z)
      = (1 - Kv * Lv.conjTranspose).mulVec z := by
  set P := (1 - Kv * Lv.conjTranspose : Matrix n n K) with hP
  have hAP : A * P = A := by
    rw [hP, Matrix.mul_sub, Matrix.mul_one, ← Matrix.mul_assoc, hAK, Matrix.zero_mul, sub_zero]
  have hLP : Lv.conjTranspose * P = 0 := by
    rw [hP, Matrix.mul_sub, Matrix.mul_one, ← Matrix.mul_assoc, hLK, Matrix.one_mul, sub_self]
  have hPP : P * P = P := by
    rw [hP, Matrix.sub_mul, Matrix.one_mul, Matrix.mul_sub, Matrix.mul_one, Matrix.mul_assoc Kv,
      ← Matrix.mul_assoc Lv.conjTranspose, hLK, Matrix.one_mul, sub_self, sub_zero]
  -- w := A z - P v vanishes off the pivots and is killed by L†
  have hw : A.mulVec z - P.mulVec v = 0 := by
    apply hinj
    · intro r hr
      have := congrFun hz r
      simp only [constrain, Matrix.mulVec, dotProduct, hr, ↓reduceIte] at this
      simp only [Pi.sub_apply, Matrix.mulVec, dotProduct]
      rw [this]; exact sub_self _
    · rw [Matrix.mulVec_sub, Matrix.mulVec_mulVec, Matrix.mulVec_mulVec, hLA, hLP]
      simp
  constructor
  · rw [Matrix.mulVec_mulVec, hAP]
    exact sub_eq_zero.mp hw
  · rw [Matrix.mulVec_mulVec, hPP]

end Greens
end Pyma
#print axioms Pyma.Greens.direct_solve
