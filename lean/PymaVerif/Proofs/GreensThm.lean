/-
C16 (direct solver): the pivot-constrained solve of `direct_greens_function` returns a solution of
`(E - H) x = P v` in the range of `P`, provided the left kernel vectors restricted to the pivot
rows are injective (what the pivot choice must guarantee; cf. defect D10).
-/
import Mathlib.Data.Matrix.Mul
import Mathlib.LinearAlgebra.Matrix.ConjTranspose

namespace Pyma
namespace Greens

variable {K : Type} [Field K] [StarRing K] {n m : Type} [Fintype n] [Fintype m] [DecidableEq n]
  [DecidableEq m]

/-- the matrix with the pivot equations replaced by `x[r] = 0` constraints -/
def constrain (A : Matrix n n K) (piv : n → Prop) [DecidablePred piv] : Matrix n n K :=
  fun r c => if piv r then (if r = c then 1 else 0) else A r c

theorem direct_solve (A : Matrix n n K) (Kv Lv : Matrix n m K) (piv : n → Prop) [DecidablePred piv]
    (hAK : A * Kv = 0) (hLA : Lv.conjTranspose * A = 0) (hLK : Lv.conjTranspose * Kv = 1)
    (hinj : ∀ w : n → K, (∀ r, ¬ piv r → w r = 0) → Lv.conjTranspose.mulVec w = 0 → w = 0)
    (v z : n → K)
    (hz : (constrain A piv).mulVec z = fun r => if piv r then 0 else ((1 - Kv * Lv.conjTranspose).mulVec v) r) :
    A.mulVec ((1 - Kv * Lv.conjTranspose).mulVec z) = (1 - Kv * Lv.conjTranspose).mulVec v ∧
    (1 - Kv * Lv.conjTranspose).mulVec ((1 - Kv * Lv.conjTranspose).mulVec z)
      = (1 - Kv * Lv.conjTranspose).mulVec z := by
  set P := (1 - Kv * Lv.conjTranspose : Matrix n n K) with hP
  have hAP : A * P = A := by
    rw [hP, Matrix.mul_sub, Matrix.mul_one, ← Matrix.mul_assoc, hAK, Matrix.zero_mul, sub_zero]
  have hLP : Lv.conjTranspose * P = 0 := by
    rw [hP, Matrix.mul_sub, Matrix.mul_one, ← Matrix.mul_assoc, hLK, Matrix.one_mul, sub_self]
  have hPP : P * P = P := by
    rw [hP, Matrix.sub_mul, Matrix.one_mul, Matrix.mul_sub, Matrix.mul_one, Matrix.mul_assoc Kv,
      ← Matrix.mul_assoc Lv.conjTranspose, hLK, Matrix.one_mul, sub_self, sub_zero]
  -- w := A z - P v vanishes off the pivots and is killed by L†
  have hw : A.mulVec z - P.mulVec v = 0 := by
    apply hinj
    · intro r hr
      have := congrFun hz r
      simp only [constrain, Matrix.mulVec, dotProduct, hr, ↓reduceIte] at this
      simp only [Pi.sub_apply, Matrix.mulVec, dotProduct]
      rw [this]; exact sub_self _
    · rw [Matrix.mulVec_sub, Matrix.mulVec_mulVec, Matrix.mulVec_mulVec, hLA, hLP]
      simp
  constructor
  · rw [Matrix.mulVec_mulVec, hAP]
    exact sub_eq_zero.mp hw
  · rw [Matrix.mulVec_mulVec, hPP]

/-! ### from the row-wise solves to the Sylvester equation of the implicit block

`solve_sylvester_direct` answers a right-implicit request `(i, B)` row by row: row `a` of the result is the constrained solve for the level `e a`
of the transposed problem, applied to row `a` of `Y P`; a left-implicit request `(B, i)` column by column.  Assembled, the rows (columns) solve
the Sylvester equation with the ambient `H_0` on the implicit side and lie in the range of the projector. -/

omit [StarRing K] [DecidableEq m] [Fintype m] in
theorem rows_assemble {α : Type} [Fintype α] [DecidableEq α] (H P : Matrix n n K) (e : α → K) (x y : α → n → K)
    (hsolve : ∀ a, (e a • (1 : Matrix n n K) - H.transpose).mulVec (x a) = P.transpose.mulVec (y a))
    (hrange : ∀ a, P.transpose.mulVec (x a) = x a) :
    Matrix.diagonal e * Matrix.of x - Matrix.of x * H = Matrix.of y * P ∧ Matrix.of x * P = Matrix.of x := by
  constructor
  · ext a c
    have h := congrFun (hsolve a) c
    rw [Matrix.sub_mulVec, Matrix.smul_mulVec, Matrix.one_mulVec] at h
    simp only [Pi.sub_apply, Pi.smul_apply, smul_eq_mul, Matrix.mulVec, dotProduct, Matrix.transpose_apply] at h
    rw [Matrix.sub_apply, Matrix.diagonal_mul, Matrix.mul_apply, Matrix.mul_apply]
    simp only [Matrix.of_apply]
    rw [show ∑ j, x a j * H j c = ∑ k, H k c * x a k from Finset.sum_congr rfl fun k _ => mul_comm _ _,
      show ∑ j, y a j * P j c = ∑ k, P k c * y a k from Finset.sum_congr rfl fun k _ => mul_comm _ _]
    exact h
  · ext a c
    have h := congrFun (hrange a) c
    simp only [Matrix.mulVec, dotProduct, Matrix.transpose_apply] at h
    rw [Matrix.mul_apply]
    simp only [Matrix.of_apply]
    rw [show ∑ j, x a j * P j c = ∑ k, P k c * x a k from Finset.sum_congr rfl fun k _ => mul_comm _ _]
    exact h

omit [StarRing K] [DecidableEq m] [Fintype m] in
theorem cols_assemble {α : Type} [Fintype α] [DecidableEq α] (H P : Matrix n n K) (e : α → K) (x y : α → n → K)
    (hsolve : ∀ a, (H - e a • (1 : Matrix n n K)).mulVec (x a) = P.mulVec (y a))
    (hrange : ∀ a, P.mulVec (x a) = x a) :
    H * (Matrix.of x).transpose - (Matrix.of x).transpose * Matrix.diagonal e = P * (Matrix.of y).transpose ∧
      P * (Matrix.of x).transpose = (Matrix.of x).transpose := by
  constructor
  · ext c a
    have h := congrFun (hsolve a) c
    rw [Matrix.sub_mulVec, Matrix.smul_mulVec, Matrix.one_mulVec] at h
    simp only [Pi.sub_apply, Pi.smul_apply, smul_eq_mul, Matrix.mulVec, dotProduct] at h
    rw [Matrix.sub_apply, Matrix.mul_diagonal, Matrix.mul_apply, Matrix.mul_apply]
    simp only [Matrix.transpose_apply, Matrix.of_apply]
    rw [mul_comm (x a c)]
    exact h
  · ext c a
    have h := congrFun (hrange a) c
    simp only [Matrix.mulVec, dotProduct] at h
    rw [Matrix.mul_apply]
    simp only [Matrix.transpose_apply, Matrix.of_apply]
    exact h

end Greens
end Pyma
#print axioms Pyma.Greens.direct_solve
