/-
Towards Theorem H for `main`: the two equations of `B`.
-/
import PymaVerif.Proofs.MainH2

namespace Pyma
namespace BlockDiag
open Dsl Generated MvPowerSeries
namespace Problem

variable {K : Type} [Field K] [StarRing K] [DecidableEq K] [Thresholds K]
attribute [local instance] Scalar.ofField
variable (p : Problem K) (R : p.Ready) (hopt : p.twoBlockOptimized = false) (Y : p.Sym) (A : p.Acc)
  (h2 : (2 : K) ≠ 0)

theorem two_mul_apply (M : Mt K p.d) (a b : Fin p.d) : (2 * M) a b = 2 * M a b := by
  rw [two_mul, two_mul, Matrix.add_apply]

include R in
theorem F1_QB : p.sr "U'† @ B" ∈ FDeg (Fin p.nparams) (Mt K p.d) 1 := by
  rw [p.sr_QB R]; exact (FDeg_anti 1) (FDeg_mul (p.F1_Q R) (p.F1_B R))
include R in
theorem F1_A : p.sr "H'_offdiag @ U'" ∈ FDeg (Fin p.nparams) (Mt K p.d) 1 := by
  rw [p.sr_A R]; exact (FDeg_anti 1) (FDeg_mul (p.F1_Ho R) (p.F1_P R))
include R in
theorem F1_VH : p.sr "V @ H'_diag" ∈ FDeg (Fin p.nparams) (Mt K p.d) 1 := by
  rw [p.sr_VH R]; exact (FDeg_anti 1) (FDeg_mul (p.F1_V R) (p.F1_Hd R))

theorem coeff_zero_of_F1 {x : Sr (Fin p.nparams) K p.d} (hx : x ∈ FDeg (Fin p.nparams) (Mt K p.d) 1) :
    coeff 0 x = 0 := (mem_F1_iff x).mp hx

include R in
/-- remaining part of `B` -/
theorem eqBrem : p.sr "B" - p.SelS (p.sr "B")
    = (-(p.sr "U'† @ B")) - p.SelS (-(p.sr "U'† @ B")) := by
  ext m a b
  simp only [map_sub, map_neg, Matrix.sub_apply, Matrix.neg_apply, coeff_SelS, coeff_sr]
  by_cases hm : m = 0
  · subst hm
    have hz := (toList_all_zero (0 : Fin p.nparams →₀ ℕ)).mpr rfl
    have hq := p.coeff_zero_of_F1 (p.F1_QB R)
    rw [coeff_sr] at hq
    rw [p.g0_B R.wf R.tot _ hz, hq]; simp
  · rw [p.g_B R.wf R.tot _ (toList_all_nonzero m hm)]
    by_cases hk : p.keptE a.val b.val = true <;> simp [hk]

include R Y A h2 in
/-- selected part of `B` -/
theorem eqBsel : 2 * p.SelS (p.sr "B")
    = p.SelS (-(p.sr "U'† @ B" - star (p.sr "U'† @ B") + p.sr "H'_offdiag @ U'"
        + star (p.sr "H'_offdiag @ U'")) + 2 * (p.sr "V @ H'_diag" + star (p.sr "V @ H'_diag"))) := by
  ext m a b
  rw [coeff_two_mul, two_mul_apply, coeff_SelS, coeff_SelS]
  by_cases hk : p.keptE a.val b.val = true
  · simp only [hk, ↓reduceIte, map_add, map_neg, map_sub, coeff_two_mul, Matrix.add_apply,
      Matrix.neg_apply, Matrix.sub_apply, two_mul_apply, coeff_star_apply, coeff_sr]
    by_cases hm : m = 0
    · subst hm
      have hz := (toList_all_zero (0 : Fin p.nparams →₀ ℕ)).mpr rfl
      have hq := p.coeff_zero_of_F1 (p.F1_QB R)
      have ha := p.coeff_zero_of_F1 (p.F1_A R)
      have hv := p.coeff_zero_of_F1 (p.F1_VH R)
      rw [coeff_sr] at hq ha hv
      rw [p.g0_B R.wf R.tot _ hz, hq, ha, hv]; simp
    · rw [p.g_B R.wf R.tot _ (toList_all_nonzero m hm), if_pos hk]
      by_cases hc : p.commuting (p.blk a.val) = true
      · have hkb : p.keptE b.val a.val = true := by rw [p.keptE_symm Y]; exact hk
        have hcb : p.commuting (p.blk b.val) = true := by
          rw [← (p.kept_same_block hk).1]; exact hc
        have e1 := p.VH_comm_zero R A m a b hk hc
        have e2 := p.VH_comm_zero R A m b a hkb hcb
        rw [coeff_sr] at e1 e2
        simp only [hc, ↓reduceIte, add_zero, e1, e2, star_zero, mul_zero]
        rw [Problem.neg_two_inv_mul h2]
      · simp only [hc, Bool.false_eq_true, ↓reduceIte]
        rw [mul_add, Problem.neg_two_inv_mul h2]
  · simp [hk]

end Problem
end BlockDiag
end Pyma
