/-
Separated multiplicative filtrations on a ring and the contraction lemma.
-/
import Mathlib.Tactic.NoncommRing
import Mathlib.Tactic.Abel
import Mathlib.Algebra.Star.Basic
import Mathlib.Algebra.Group.Subgroup.Basic

namespace Pyma

structure Filtration (S : Type*) [Ring S] where
  F : ℕ → AddSubgroup S
  top : ∀ x, x ∈ F 0
  mul_mem : ∀ {j k x y}, x ∈ F j → y ∈ F k → x * y ∈ F (j+k)
  sep : ∀ x, (∀ k, x ∈ F k) → x = 0
  anti : ∀ k, F (k+1) ≤ F k

namespace Filtration
variable {S : Type*} [Ring S] (Φ : Filtration S)
theorem eq_zero_of_contract {d : S} (h : ∀ k, d ∈ Φ.F k → d ∈ Φ.F (k+1)) : d = 0 := by
  apply Φ.sep; intro k
  induction k with
  | zero => exact Φ.top d
  | succ k ih => exact h k ih
theorem mul_left_mem {a x : S} {k : ℕ} (ha : a ∈ Φ.F 1) (hx : x ∈ Φ.F k) : a * x ∈ Φ.F (k+1) := by
  have := Φ.mul_mem ha hx; rwa [Nat.add_comm] at this
theorem mul_right_mem {a x : S} {k : ℕ} (hx : x ∈ Φ.F k) (ha : a ∈ Φ.F 1) : x * a ∈ Φ.F (k+1) :=
  Φ.mul_mem hx ha
theorem anti' {x : S} {k : ℕ} (hx : x ∈ Φ.F (k+1+1)) : x ∈ Φ.F (k+1) := Φ.anti (k+1) hx
theorem mul_any_left (c : S) {x : S} {k : ℕ} (hx : x ∈ Φ.F k) : c * x ∈ Φ.F k := by
  have := Φ.mul_mem (Φ.top c) hx; rwa [Nat.zero_add] at this
theorem mul_any_right (c : S) {x : S} {k : ℕ} (hx : x ∈ Φ.F k) : x * c ∈ Φ.F k :=
  Φ.mul_mem hx (Φ.top c)
end Filtration


end Pyma
