/-
Non-vacuity: concrete problems over ℚ that satisfy `Accepted`, so that C01/C02 apply to them.
-/
import PymaVerif.Proofs.Accepted
import Mathlib.Algebra.Star.Rat

namespace Pyma
namespace BlockDiag
open Dsl Generated
namespace Problem

instance : Thresholds ℚ where
  absGt := fun x t => decide (t < x) || decide (t < -x)
  absLt := fun x t => decide (x < t) && decide (-x < t)
  isClose := fun x y => decide (x = y)

instance : LawfulThresholds ℚ where
  absGt_neg := by
    intro x t
    simp only [Thresholds.absGt, neg_neg, Bool.or_comm]
  absGt_ne := by
    intro x t ht h hx
    subst hx
    simp only [Thresholds.absGt, neg_zero, Bool.or_self, decide_eq_true_eq] at h
    exact absurd ht (not_le.mpr h)

attribute [local instance] Scalar.ofField

/-- three one-dimensional blocks, one parameter -/
def w3 : Problem ℚ where
  d := 3
  blockOf := #[0, 1, 2]
  nblocks := 3
  nparams := 1
  terms := [([0], ⟨3, #[0,0,0, 0,1,0, 0,0,3]⟩), ([1], ⟨3, #[1,2,0, 2,0,5, 0,5,-1]⟩)]
  hermitian := true
  fd := .none
  atol := 1/1000

/-- one block, fully diagonalised (the single-block default) -/
def w1 : Problem ℚ where
  d := 2
  blockOf := #[0, 0]
  nblocks := 1
  nparams := 2
  terms := [([0,0], ⟨2, #[1,0, 0,-1]⟩), ([1,0], ⟨2, #[0,1, 1,0]⟩), ([0,1], ⟨2, #[2,3, 3,0]⟩)]
  hermitian := true
  fd := .none
  atol := 1/1000

theorem w3_accepted : w3.Accepted where
  wf := by decide
  blocks_lt := by decide
  atol_nonneg := by decide +kernel
  herm := by decide
  h0_diag := by decide
  elim_symm := by decide
  diag_kept := by decide
  gap := by decide +kernel
  comm_trans := by decide
  no_shared := by decide

example : w3.sr "U†" * w3.sr "H" * w3.sr "U" = w3.sr "H_tilde" :=
  C01 w3_accepted (by norm_num)

theorem w1_accepted : w1.Accepted where
  wf := by decide
  blocks_lt := by decide
  atol_nonneg := by decide +kernel
  herm := by decide
  h0_diag := by decide
  elim_symm := by decide +kernel
  diag_kept := by decide +kernel
  gap := by decide +kernel
  comm_trans := by decide +kernel
  no_shared := by decide

example : w1.sr "U†" * w1.sr "U" = 1 ∧ w1.sr "U" * w1.sr "U†" = 1 ∧ star (w1.sr "U") = w1.sr "U†" :=
  C02 w1_accepted (by norm_num)

/-- two blocks, a mask on the first one only (so the second is a commuting block) -/
def wd : Problem ℚ where
  d := 4
  blockOf := #[0, 0, 1, 1]
  nblocks := 2
  nparams := 1
  terms := [([0], ⟨4, #[0,0,0,0, 0,2,0,0, 0,0,5,0, 0,0,0,5]⟩),
            ([1], ⟨4, #[1,2,3,0, 2,0,1,1, 3,1,0,4, 0,1,4,2]⟩)]
  hermitian := true
  fd := .dict [(0, #[false,true,false,false, true,false,false,false,
                     false,false,false,false, false,false,false,false])]
  atol := 1/1000

theorem wd_accepted : wd.Accepted where
  wf := by decide
  blocks_lt := by decide
  atol_nonneg := by decide +kernel
  herm := by decide
  h0_diag := by decide
  elim_symm := by decide +kernel
  diag_kept := by decide +kernel
  gap := by decide +kernel
  comm_trans := by decide +kernel
  no_shared := by decide +kernel

example : wd.sr "U†" * wd.sr "H" * wd.sr "U" = wd.sr "H_tilde" :=
  C01 wd_accepted (by norm_num)

/-- the default two-block call (the optimised flags are on) -/
def w2 : Problem ℚ where
  d := 3
  blockOf := #[0, 0, 1]
  nblocks := 2
  nparams := 1
  terms := [([0], ⟨3, #[1,0,0, 0,1,0, 0,0,4]⟩), ([1], ⟨3, #[1,2,3, 2,0,1, 3,1,-2]⟩)]
  hermitian := true
  fd := .none
  atol := 1/1000

theorem w2_accepted : w2.Accepted where
  wf := by decide
  blocks_lt := by decide
  atol_nonneg := by decide +kernel
  herm := by decide
  h0_diag := by decide
  elim_symm := by decide +kernel
  diag_kept := by decide +kernel
  gap := by decide +kernel
  comm_trans := by decide +kernel
  no_shared := by decide +kernel

example : w2.twoBlockOptimized = true := by decide
example : w2.sr "U†" * w2.sr "H" * w2.sr "U" = w2.sr "H_tilde" := C01 w2_accepted (by norm_num)

end Problem
end BlockDiag
end Pyma
#print axioms Pyma.BlockDiag.Problem.wd_accepted
