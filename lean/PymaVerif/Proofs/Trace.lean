/-
C04 for the model, stated through power traces: for every `k`, `tr (H̃^k) = tr (H^k)` as power
series, and the same holds up to total degree `N` for the truncation of `H̃` at degree `N`.
In characteristic zero the power traces determine the characteristic polynomial (Newton), so this
is "the truncated effective Hamiltonian has the exact spectrum to order `N`" without mentioning `U`.
-/
import PymaVerif.Proofs.Accepted
import Mathlib.LinearAlgebra.Matrix.Trace

namespace Pyma
open MvPowerSeries

section generic
variable {K : Type} [Field K] [StarRing K] {d : Nat} {σ : Type} [DecidableEq σ]

/-- coefficientwise trace -/
noncomputable def trS (x : Sr σ K d) : MvPowerSeries σ K := fun m => (coeff m x).trace

theorem coeff_trS (x : Sr σ K d) (m : σ →₀ ℕ) : coeff m (trS x) = (coeff m x).trace := rfl

theorem trS_mul_comm (x y : Sr σ K d) : trS (x * y) = trS (y * x) := by
  ext m
  rw [coeff_trS, coeff_trS, coeff_mul, coeff_mul, Matrix.trace_sum, Matrix.trace_sum]
  conv_rhs => rw [← Finset.HasAntidiagonal.map_swap_antidiagonal (n := m), Finset.sum_map]
  apply Finset.sum_congr rfl
  intro q _
  exact Matrix.trace_mul_comm _ _

theorem conj_pow {S : Type*} [Ring S] (u ui h : S) (hu : u * ui = 1) (k : ℕ) :
    (ui * h * u) ^ (k + 1) = ui * h ^ (k + 1) * u := by
  induction k with
  | zero => simp
  | succ k ih =>
    rw [pow_succ, ih, pow_succ h (k + 1)]
    calc ui * h ^ (k + 1) * u * (ui * h * u) = ui * h ^ (k + 1) * (u * ui) * h * u := by noncomm_ring
      _ = ui * (h ^ (k + 1) * h) * u := by rw [hu]; noncomm_ring

/-- similarity preserves all power traces -/
theorem trS_conj_pow (u ui h : Sr σ K d) (h1 : ui * u = 1) (h2 : u * ui = 1) (k : ℕ) :
    trS ((ui * h * u) ^ k) = trS (h ^ k) := by
  cases k with
  | zero => simp
  | succ k =>
    rw [conj_pow u ui h h2 k, mul_assoc, trS_mul_comm, mul_assoc, h2, mul_one]

/-- truncation at total degree `N` -/
noncomputable def truncS (N : ℕ) (x : Sr σ K d) : Sr σ K d := fun m => if m.degree ≤ N then coeff m x else 0

theorem coeff_truncS (N : ℕ) (x : Sr σ K d) (m : σ →₀ ℕ) :
    coeff m (truncS N x) = if m.degree ≤ N then coeff m x else 0 := rfl

theorem sub_truncS_mem (N : ℕ) (x : Sr σ K d) : x - truncS N x ∈ FDeg σ (Mt K d) (N + 1) := by
  intro m hm
  have : m.degree ≤ N := by omega
  rw [map_sub, coeff_truncS, if_pos this, sub_self]

theorem pow_sub_mem {S : Type*} [Ring S] (Φ : Filtration S) {x y : S} {n : ℕ} (h : x - y ∈ Φ.F n) (k : ℕ) :
    x ^ k - y ^ k ∈ Φ.F n := by
  induction k with
  | zero => simp
  | succ k ih =>
    have e : x ^ (k + 1) - y ^ (k + 1) = x ^ k * (x - y) + (x ^ k - y ^ k) * y := by
      rw [pow_succ, pow_succ]; noncomm_ring
    rw [e]
    exact AddSubgroup.add_mem _ (Φ.mul_any_left _ h) (Φ.mul_any_right _ ih)

end generic

namespace BlockDiag
namespace Problem
open Dsl Generated

variable {K : Type} [Field K] [StarRing K] [DecidableEq K] [Thresholds K]
attribute [local instance] Scalar.ofField
variable {p : Problem K} [LawfulThresholds K] (h : p.Accepted) (h2 : (2 : K) ≠ 0)

include h h2 in
/-- **C04**: all power traces of `H̃` and of `H` agree, to all orders -/
theorem C04_traces (k : ℕ) : trS (p.sr "H_tilde" ^ k) = trS (p.sr "H" ^ k) := by
  obtain ⟨u1, u2, _⟩ := C02 h h2
  rw [← C01 h h2]
  exact trS_conj_pow _ _ _ u1 u2 k

include h h2 in
/-- **C04**, truncated: the power traces of the effective Hamiltonian truncated at degree `N` agree
with the exact ones in every coefficient of total degree `≤ N` -/
theorem C04_truncated (N k : ℕ) (m : Fin p.nparams →₀ ℕ) (hm : m.degree ≤ N) :
    coeff m (trS (truncS N (p.sr "H_tilde") ^ k)) = coeff m (trS (p.sr "H" ^ k)) := by
  rw [← C04_traces h h2 k, coeff_trS, coeff_trS]
  have hmem := pow_sub_mem p.filt (sub_truncS_mem N (p.sr "H_tilde")) k
  have := hmem m (by omega)
  rw [map_sub, sub_eq_zero] at this
  rw [this]

include h h2 in
theorem HU_eq_UHt : p.sr "H" * p.sr "U" = p.sr "U" * p.sr "H_tilde" := by
  obtain ⟨_, u2, _⟩ := C02 h h2
  calc p.sr "H" * p.sr "U" = (p.sr "U" * p.sr "U†") * (p.sr "H" * p.sr "U") := by rw [u2, one_mul]
    _ = p.sr "U" * (p.sr "U†" * p.sr "H" * p.sr "U") := by noncomm_ring
    _ = p.sr "U" * p.sr "H_tilde" := by rw [C01 h h2]

include h h2 in
/-- **C04, Rayleigh–Schrödinger form**: if the state `a` is decoupled from every other state (all
pairs `(c,a)`, `c ≠ a`, are eliminated — e.g. a fully diagonalised block without degeneracies, or a
1×1 block), then column `a` of `U` is an eigenvector series of `H` with eigenvalue series `H̃_aa`:
`(H·U)_{ba} = Σ_{i+j=m} (U_i)_{ba} (H̃_j)_{aa}` at every order `m`. -/
theorem C04_rayleigh_schrodinger (a : Fin p.d) (ha : ∀ c : Fin p.d, c ≠ a → p.keptE c.val a.val = false)
    (m : Fin p.nparams →₀ ℕ) (b : Fin p.d) :
    coeff m (p.sr "H" * p.sr "U") b a
      = ∑ q ∈ Finset.antidiagonal m, coeff q.1 (p.sr "U") b a * coeff q.2 (p.sr "H_tilde") a a := by
  rw [HU_eq_UHt h h2, coeff_mul, Matrix.sum_apply]
  apply Finset.sum_congr rfl
  intro q _
  rw [Matrix.mul_apply]
  apply Finset.sum_eq_single a
  · intro c _ hc
    rw [p.Ht_elim h.ready h.acc q.2 c a (ha c hc), mul_zero]
  · intro hn; exact absurd (Finset.mem_univ a) hn

end Problem
end BlockDiag
end Pyma
#print axioms Pyma.BlockDiag.Problem.C04_truncated
#print axioms Pyma.BlockDiag.Problem.C04_rayleigh_schrodinger
