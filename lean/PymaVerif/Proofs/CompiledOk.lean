/-
The bodies pymablock's compiler produces for the shipped algorithms are exactly those of the
reference compiler applied to the translated source (re-checked by kernel evaluation on every run).
-/
import PymaVerif.Model.Generated.Compiled
import PymaVerif.Model.Generated.Algorithms

namespace Pyma
namespace Dsl
open Generated

theorem compiled_main_ok : compileProg main = compiled_main := by decide
theorem compiled_nonhermitian_ok : compileProg nonhermitian = compiled_nonhermitian := by decide

end Dsl
end Pyma
