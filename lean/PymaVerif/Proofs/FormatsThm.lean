/-
Key normalisation: the symbols come out strictly sorted by name and are exactly the symbols that occur, so the result does not depend on the
order of the dictionary entries nor on the order of the factors of a monomial key; a list input gives the zero tuple and the unit tuples.
-/
import PymaVerif.Model.Formats
import Mathlib.Data.String.Basic
import Mathlib.Data.List.Sort
import Mathlib.Data.List.Perm.Basic

namespace Pyma
namespace Formats

theorem mem_insertSorted (s t : String) : ∀ l : List String, t ∈ insertSorted s l ↔ t = s ∨ t ∈ l
  | [] => by simp [insertSorted]
  | x :: xs => by
    unfold insertSorted
    by_cases h1 : (s == x) = true
    · have : s = x := by simpa using h1
      subst this
      simp
    · simp only [h1, Bool.false_eq_true, ↓reduceIte]
      by_cases h2 : s < x
      · simp [h2]
      · simp only [h2, ↓reduceIte, List.mem_cons, mem_insertSorted s t xs]
        tauto

theorem sorted_insertSorted (s : String) : ∀ l : List String, l.Pairwise (· < ·) → (insertSorted s l).Pairwise (· < ·)
  | [], _ => by simp [insertSorted]
  | x :: xs, h => by
    unfold insertSorted
    have hx := List.pairwise_cons.mp h
    by_cases h1 : (s == x) = true
    · simp only [h1, ↓reduceIte]; exact h
    · simp only [h1, Bool.false_eq_true, ↓reduceIte]
      have hne : s ≠ x := by simpa using h1
      by_cases h2 : s < x
      · simp only [h2, ↓reduceIte]
        refine List.pairwise_cons.mpr ⟨?_, h⟩
        intro t ht
        rcases List.mem_cons.mp ht with rfl | ht
        · exact h2
        · exact lt_trans h2 (hx.1 t ht)
      · simp only [h2, ↓reduceIte]
        have hlt : x < s := lt_of_le_of_ne (not_lt.mp h2) (Ne.symm hne)
        refine List.pairwise_cons.mpr ⟨?_, sorted_insertSorted s xs hx.2⟩
        intro t ht
        rcases (mem_insertSorted s t xs).mp ht with rfl | ht
        · exact hlt
        · exact hx.1 t ht

theorem foldl_insert_spec (ss : List String) : ∀ acc : List String, acc.Pairwise (· < ·) →
    (ss.foldl (fun acc s => insertSorted s acc) acc).Pairwise (· < ·) ∧
    ∀ t, t ∈ ss.foldl (fun acc s => insertSorted s acc) acc ↔ t ∈ ss ∨ t ∈ acc := by
  induction ss with
  | nil => intro acc h; exact ⟨h, fun t => by simp⟩
  | cons s ss ih =>
    intro acc h
    obtain ⟨h1, h2⟩ := ih (insertSorted s acc) (sorted_insertSorted s acc h)
    refine ⟨h1, fun t => ?_⟩
    rw [List.foldl_cons, h2 t, mem_insertSorted]
    simp only [List.mem_cons]
    tauto

/-- the symbols are strictly increasing as strings (in particular without repetition) … -/
theorem symbolsOf_sorted (keys : List Monomial) : (symbolsOf keys).Pairwise (· < ·) :=
  (foldl_insert_spec _ [] List.Pairwise.nil).1

/-- … and they are exactly the symbols that occur in some key -/
theorem mem_symbolsOf (keys : List Monomial) (t : String) : t ∈ symbolsOf keys ↔ ∃ m ∈ keys, ∃ e, (t, e) ∈ m := by
  unfold symbolsOf
  rw [(foldl_insert_spec _ [] List.Pairwise.nil).2 t]
  simp only [List.mem_flatMap, List.mem_map, List.not_mem_nil, or_false]
  constructor
  · rintro ⟨m, hm, ⟨⟨s, e⟩, hse, rfl⟩⟩; exact ⟨m, hm, e, hse⟩
  · rintro ⟨m, hm, e, he⟩; exact ⟨m, hm, ⟨(t, e), he, rfl⟩⟩

/-- **C13 (keys)**: the order of the dictionary entries is irrelevant for the symbol order -/
theorem symbolsOf_perm {k₁ k₂ : List Monomial} (h : k₁.Perm k₂) : symbolsOf k₁ = symbolsOf k₂ := by
  have hperm : (symbolsOf k₁).Perm (symbolsOf k₂) := by
    apply (List.perm_ext_iff_of_nodup ?_ ?_).mpr
    · intro t
      rw [mem_symbolsOf, mem_symbolsOf]
      constructor <;> rintro ⟨m, hm, e, he⟩
      · exact ⟨m, h.mem_iff.mp hm, e, he⟩
      · exact ⟨m, h.mem_iff.mpr hm, e, he⟩
    · exact (symbolsOf_sorted k₁).imp (fun h => ne_of_lt h)
    · exact (symbolsOf_sorted k₂).imp (fun h => ne_of_lt h)
  exact List.Perm.eq_of_pairwise' (r := (· < ·)) (symbolsOf_sorted k₁) (symbolsOf_sorted k₂) hperm

/-- the exponent of a symbol does not depend on the order of the factors of the monomial (each symbol occurs once) -/
theorem power_perm {m₁ m₂ : Monomial} (h : m₁.Perm m₂) (hn : (m₁.map (·.1)).Nodup) (s : String) : power m₁ s = power m₂ s := by
  have key : ∀ (m : Monomial), (m.map (·.1)).Nodup → ∀ e, (s, e) ∈ m → power m s = e := by
    intro m
    induction m with
    | nil => intro _ e he; cases he
    | cons x xs ih =>
      intro hnd e he
      obtain ⟨n, e'⟩ := x
      unfold power
      simp only [List.find?_cons]
      by_cases hns : n = s
      · subst hns
        simp only [beq_self_eq_true]
        rcases List.mem_cons.mp he with h | h
        · cases h; rfl
        · exfalso
          have := (List.nodup_cons.mp hnd).1
          exact this (List.mem_map.mpr ⟨(n, e), h, rfl⟩)
      · have hb : ((n, e').1 == s) = false := by simpa using hns
        simp only [hb]
        have he' : (s, e) ∈ xs := by
          rcases List.mem_cons.mp he with h | h
          · cases h; exact absurd rfl hns
          · exact h
        exact ih (List.nodup_cons.mp hnd).2 e he'
  have hn2 : (m₂.map (·.1)).Nodup := (h.map _).nodup_iff.mp hn
  by_cases hs : ∃ e, (s, e) ∈ m₁
  · obtain ⟨e, he⟩ := hs
    rw [key m₁ hn e he, key m₂ hn2 e (h.mem_iff.mp he)]
  · have none1 : ∀ m : Monomial, (¬ ∃ e, (s, e) ∈ m) → power m s = 0 := by
      intro m hm
      unfold power
      have : m.find? (·.1 == s) = none := by
        rw [List.find?_eq_none]
        intro x hx hxs
        apply hm
        obtain ⟨n, e⟩ := x
        have : n = s := by simpa using hxs
        subst this
        exact ⟨e, hx⟩
      rw [this]
    rw [none1 m₁ hs, none1 m₂ (fun ⟨e, he⟩ => hs ⟨e, h.mem_iff.mpr he⟩)]

/-- a list input: the first key is the zeroth order, the `i`-th perturbation is first order in parameter `i` only -/
theorem listKeys_spec (k : Nat) : (listKeys (k + 1)).head? = some (List.replicate k 0) ∧
    ∀ i, i < k → (listKeys (k + 1))[i + 1]? = some (unitVec k i) := by
  refine ⟨rfl, fun i hi => ?_⟩
  simp [listKeys, hi]

example : keysToTuples [[("x2", 1)], [("x10", 2), ("x2", 1)], []] = (["x10", "x2"], [[0, 1], [2, 1], [0, 0]]) := by decide +kernel

/-! ### subspace_indices → blocks -/

theorem mem_blockStates (labels : List Nat) (b a : Nat) : a ∈ blockStates labels b ↔ ∃ h : a < labels.length, labels[a] = b := by
  unfold blockStates
  simp only [List.mem_filter, List.mem_range, beq_iff_eq]
  constructor
  · rintro ⟨h, hb⟩; exact ⟨h, by simpa [List.getD_eq_getElem?_getD, List.getElem?_eq_getElem h] using hb⟩
  · rintro ⟨h, hb⟩; exact ⟨h, by simpa [List.getD_eq_getElem?_getD, List.getElem?_eq_getElem h] using hb⟩

/-- inside a block the states keep their order of appearance (strictly increasing positions): no state twice -/
theorem blockStates_sorted (labels : List Nat) (b : Nat) : (blockStates labels b).Pairwise (· < ·) := by
  unfold blockStates
  exact List.Pairwise.filter _ (List.pairwise_lt_range)

theorem le_foldl_max' (l : List Nat) (m x : Nat) (hx : x ∈ l) : x ≤ l.foldl max m := by
  induction l generalizing m with
  | nil => simp at hx
  | cons y ys ih =>
    have hge : ∀ (l' : List Nat) (m' : Nat), m' ≤ l'.foldl max m' := by
      intro l'; induction l' with
      | nil => intro m'; simp
      | cons z zs ihz => intro m'; exact le_trans (le_max_left _ _) (ihz _)
    rcases List.mem_cons.mp hx with rfl | h
    · exact le_trans (le_max_right _ _) (hge ys _)
    · exact ih _ h

/-- the blocks partition the states: every state lies in exactly one block, the one its label names -/
theorem subspaces_partition (labels : List Nat) (a : Nat) (ha : a < labels.length) :
    ∃ hb : labels[a] < (subspaces labels).length, a ∈ (subspaces labels)[labels[a]] ∧
      ∀ b (hb' : b < (subspaces labels).length), a ∈ (subspaces labels)[b] → b = labels[a] := by
  have hlen : (subspaces labels).length = labels.foldl max 0 + 1 := by simp [subspaces]
  have hle : labels[a] ≤ labels.foldl max 0 := le_foldl_max' labels 0 _ (List.getElem_mem ha)
  refine ⟨by omega, ?_, ?_⟩
  · simp only [subspaces, List.getElem_map, List.getElem_range]
    exact (mem_blockStates labels _ a).2 ⟨ha, rfl⟩
  · intro b hb' hmem
    simp only [subspaces, List.getElem_map, List.getElem_range] at hmem
    obtain ⟨_, h⟩ := (mem_blockStates labels b a).1 hmem
    exact h.symm

end Formats
end Pyma
