/-
C08: multiplication of number-ordered forms is composition of kernels, hence associative and
distributive.  `rep_mul3` expresses `(s''| x·y |s)` as a sum over the monomials of `y`; here it is
rewritten as a sum over a finite set of intermediate states,

  `(s''| x·y |s) = Σ_{m ∈ M} (m| y |s) · (s''| x |m)`        for every finite `M ⊇ targets y s`,

and associativity follows by exchanging two finite sums.
-/
import PymaVerif.Proofs.NofAdjoint
import Mathlib.Data.Finset.Union

namespace Pyma
namespace Nof
open Finset

/-! ## closure of the representation invariant under multiplication -/

theorem valid_zero (c : Ctx) : Valid c (List.replicate c.n 0) :=
  ⟨by simp, fun i _ _ => Or.inl (pw_replicate c.n i)⟩

theorem wf2_mulTerm (c : Ctx) (hlast : FermionsLast c) (x : Form) (t : Term) (hx : WF2 c x) (ht : WFT c t) :
    WF2 c (mulTerm c x t) := by
  unfold mulTerm
  have hnd : (List.range c.n).Nodup := List.nodup_range
  have hlt : ∀ i ∈ List.range c.n, i < c.n := fun i hi => List.mem_range.mp hi
  have hndr : (List.range c.n).reverse.Nodup := List.nodup_reverse.mpr hnd
  have hltr : ∀ i ∈ (List.range c.n).reverse, i < c.n := fun i hi => List.mem_range.mp (List.mem_reverse.mp hi)
  have hQpos : ∀ i, i < c.n → decide (pw t i > 0) = true → c.isInf i = false → pw t i = 1 ∨ pw t i = -1 := by
    intro i hi hb hfin
    have hb' : pw t i > 0 := by simpa using hb
    rcases ht.fin i hi hfin with e | e | e <;> omega
  have hQneg : ∀ i, i < c.n → decide (pw t i < 0) = true → c.isInf i = false → pw t i = 1 ∨ pw t i = -1 := by
    intro i hi hb hfin
    have hb' : pw t i < 0 := by simpa using hb
    rcases ht.fin i hi hfin with e | e | e <;> omega
  have s0 := valid_zero c
  obtain ⟨hp1wf, _⟩ := ampF'_fold c hlast (fun i => pw t i) (fun i => decide (pw t i < 0)) [] hQneg
    (List.range c.n) hnd hlt x _ hx s0
  have hp1wf' : WF2 c ((List.range c.n).foldl
      (fun acc i => if pw t i < 0 then multiplyOp c acc i (pw t i) else acc) x) := by simpa using hp1wf
  have hp2wf := wf2_multiplyExpr c _ t.coeff hp1wf'
  obtain ⟨h3, _⟩ := ampF'_fold c hlast (fun i => pw t i) (fun i => decide (pw t i > 0)) [] hQpos
    (List.range c.n).reverse hndr hltr _ _ hp2wf s0
  simpa using h3

theorem wf2_mul (c : Ctx) (hlast : FermionsLast c) (x y : Form) (hx : WF2 c x) (hy : WF2 c y) :
    WF2 c (mul c x y) := by
  rw [mul_eq]
  intro u hu
  obtain ⟨t, ht, hut⟩ := List.mem_flatMap.mp hu
  exact wf2_mulTerm c hlast x t hx (hy t ht) u hut

theorem wf2_add (c : Ctx) (x y : Form) (hx : WF2 c x) (hy : WF2 c y) : WF2 c (add x y) := by
  intro u hu
  rcases List.mem_append.mp hu with h | h
  · exact hx u h
  · exact hy u h

/-! ## distributivity -/

theorem rep_mul_add (c : Ctx) (hlast : FermionsLast c) (x y z : Form) (s s'' : Occ)
    (hx : WF2 c x) (hy : WF2 c y) (hz : WF2 c z) (hs : Valid c s) :
    ampF' c (mul c x (add y z)) s s'' = ampF' c (mul c x y) s s'' + ampF' c (mul c x z) s s'' := by
  rw [rep_mul3 c hlast x (add y z) s s'' hx (wf2_add c y z hy hz) hs, rep_mul3 c hlast x y s s'' hx hy hs,
    rep_mul3 c hlast x z s s'' hx hz hs]
  unfold add
  rw [List.map_append, List.sum_append]

theorem rep_add_mul (c : Ctx) (hlast : FermionsLast c) (x y z : Form) (s s'' : Occ)
    (hx : WF2 c x) (hy : WF2 c y) (hz : WF2 c z) (hs : Valid c s) :
    ampF' c (mul c (add x y) z) s s'' = ampF' c (mul c x z) s s'' + ampF' c (mul c y z) s s'' := by
  rw [rep_mul3 c hlast (add x y) z s s'' (wf2_add c x y hx hy) hz hs, rep_mul3 c hlast x z s s'' hx hz hs,
    rep_mul3 c hlast y z s s'' hy hz hs, ← List.sum_map_add]
  congr 1
  apply List.map_congr_left
  intro t _
  rw [rep_add]; ring

/-! ## multiplication as composition of kernels -/

/-- the states reached from `s` by the monomials of `y` -/
def targets (y : Form) (s : Occ) : Finset Occ := (y.map fun w => tgt w s).toFinset

theorem mem_targets (y : Form) (s : Occ) (w : Term) (hw : w ∈ y) : tgt w s ∈ targets y s := by
  unfold targets
  rw [List.mem_toFinset]
  exact List.mem_map.mpr ⟨w, hw, rfl⟩

theorem finset_sum_list_sum {α : Type} (M : Finset Occ) (l : List α) (f : Occ → α → GRat) :
    ∑ m ∈ M, (l.map (f m)).sum = (l.map fun w => ∑ m ∈ M, f m w).sum := by
  induction l with
  | nil => simp
  | cons a l ih => simp only [List.map_cons, List.sum_cons, sum_add_distrib, ih]

theorem kernel_comp (c : Ctx) (hlast : FermionsLast c) (x y : Form) (s s'' : Occ) (hx : WF2 c x) (hy : WF2 c y)
    (hs : Valid c s) (M : Finset Occ) (hM : targets y s ⊆ M) :
    ampF' c (mul c x y) s s'' = ∑ m ∈ M, ampF' c y s m * ampF' c x m s'' := by
  rw [rep_mul3 c hlast x y s s'' hx hy hs]
  have h1 : ∀ m, ampF' c y s m * ampF' c x m s'' =
      (y.map fun w => (if tgt w s = m then specAmpS c w s * ampF' c x m s'' else 0)).sum := by
    intro m
    unfold ampF'
    rw [← List.sum_map_mul_right]
    congr 1
    apply List.map_congr_left
    intro w _
    rw [ampS'_eq]
    split <;> simp
  simp only [h1]
  rw [finset_sum_list_sum M y fun m w => if tgt w s = m then specAmpS c w s * ampF' c x m s'' else 0]
  apply congrArg
  apply List.map_congr_left
  intro w hw
  rw [Finset.sum_ite_eq, if_pos (hM (mem_targets y s w hw))]

/-- only valid states are reached with a non-vanishing amplitude -/
theorem valid_of_annAmp_ne_zero (c : Ctx) (t : Term) (s : Occ) (hs : Valid c s) (hf : FinPow c t)
    (h : annAmp c t s ≠ 0) : Valid c (tgt t s) := by
  unfold annAmp at h
  rw [prod_ne_zero_iff] at h
  refine ⟨by simp [hs.len], ?_⟩
  intro i hi hfin
  have hget : Occ.get (tgt t s) i = Occ.get s i - pw t i := by
    unfold tgt; rw [get_mapRange, if_pos (by rw [hs.len]; exact hi)]
  have hm := h i (mem_range.mpr hi)
  rw [modeAmp_fin c i hfin] at hm
  rw [hget]
  have hb := hs.bin i hi hfin
  have hp := hf i hi hfin
  revert hm hb hp
  generalize Occ.get s i = n
  generalize pw t i = p
  intro hm hb hp
  rcases hb with rfl | rfl <;> rcases hp with rfl | rfl | rfl <;> simp at hm ⊢

theorem ampF'_eq_zero_of_invalid (c : Ctx) (z : Form) (s m : Occ) (hz : WF2 c z) (hs : Valid c s)
    (hm : ¬ Valid c m) : ampF' c z s m = 0 := by
  unfold ampF'
  apply List.sum_eq_zero
  intro a ha
  obtain ⟨w, hw, rfl⟩ := List.mem_map.mp ha
  rw [ampS'_eq]
  split
  · rename_i htm
    have : annAmp c w s = 0 := by
      by_contra h'
      exact hm (htm ▸ valid_of_annAmp_ne_zero c w s hs (hz w hw).fin h')
    unfold specAmpS specAmp
    rw [this]
    have : ofInt 0 = (0 : GRat) := by ext <;> simp [ofInt]
    rw [this]; ring
  · rfl

/-- **C08, associativity**: `(x·y)·z` and `x·(y·z)` have the same kernel on every valid state. -/
theorem rep_mul_assoc (c : Ctx) (hlast : FermionsLast c) (x y z : Form) (s s'' : Occ)
    (hx : WF2 c x) (hy : WF2 c y) (hz : WF2 c z) (hs : Valid c s) :
    ampF' c (mul c (mul c x y) z) s s'' = ampF' c (mul c x (mul c y z)) s s'' := by
  have hxy := wf2_mul c hlast x y hx hy
  have hyz := wf2_mul c hlast y z hy hz
  let M := targets z s
  let M' := (M.biUnion fun m => targets y m) ∪ targets (mul c y z) s
  rw [kernel_comp c hlast (mul c x y) z s s'' hxy hz hs M (Subset.refl _),
    kernel_comp c hlast x (mul c y z) s s'' hx hyz hs M' subset_union_right]
  have hL : ∀ m ∈ M, ampF' c z s m * ampF' c (mul c x y) m s'' =
      ampF' c z s m * ∑ m' ∈ M', ampF' c y m m' * ampF' c x m' s'' := by
    intro m hm
    by_cases hv : Valid c m
    · rw [kernel_comp c hlast x y m s'' hx hy hv M'
        (subset_union_left.trans' (subset_biUnion_of_mem (fun m => targets y m) hm))]
    · rw [ampF'_eq_zero_of_invalid c z s m hz hs hv]; ring
  rw [sum_congr rfl hL]
  have hR : ∀ m' ∈ M', ampF' c (mul c y z) s m' * ampF' c x m' s'' =
      ∑ m ∈ M, ampF' c z s m * ampF' c y m m' * ampF' c x m' s'' := by
    intro m' _
    rw [kernel_comp c hlast y z s m' hy hz hs M (Subset.refl _), sum_mul]
  rw [sum_congr rfl hR, sum_comm]
  apply sum_congr rfl
  intro m _
  rw [mul_sum]
  apply sum_congr rfl
  intro m' _
  ring

/-! ## the unit and integer powers -/

theorem wf2_scalar (c : Ctx) (z : GRat) : WF2 c (scalar c z) := wft_numberForm c (fun _ => z)

theorem ampF'_eq_zero_of_not_target (c : Ctx) (y : Form) (s m : Occ) (h : m ∉ targets y s) :
    ampF' c y s m = 0 := by
  unfold ampF'
  apply List.sum_eq_zero
  intro a ha
  obtain ⟨w, hw, rfl⟩ := List.mem_map.mp ha
  rw [ampS'_eq, if_neg]
  intro htm
  exact h (htm ▸ mem_targets y s w hw)

theorem length_of_mem_targets (y : Form) (s m : Occ) (h : m ∈ targets y s) : m.length = s.length := by
  unfold targets at h
  rw [List.mem_toFinset] at h
  obtain ⟨w, _, rfl⟩ := List.mem_map.mp h
  simp

theorem rep_mul_one (c : Ctx) (hlast : FermionsLast c) (x : Form) (s s'' : Occ) (hx : WF2 c x) (hs : Valid c s) :
    ampF' c (mul c x (scalar c 1)) s s'' = ampF' c x s s'' := by
  rw [kernel_comp c hlast x (scalar c 1) s s'' hx (wf2_scalar c 1) hs (targets (scalar c 1) s ∪ {s})
    subset_union_left]
  have : ∀ m, ampF' c (scalar c 1) s m * ampF' c x m s'' = if s = m then ampF' c x m s'' else 0 := by
    intro m
    rw [rep_scalar c 1 s m hs.len]
    split <;> simp
  simp only [this]
  rw [Finset.sum_ite_eq, if_pos (mem_union_right _ (mem_singleton_self s))]

theorem rep_one_mul (c : Ctx) (hlast : FermionsLast c) (x : Form) (s s'' : Occ) (hx : WF2 c x) (hs : Valid c s) :
    ampF' c (mul c (scalar c 1) x) s s'' = ampF' c x s s'' := by
  rw [kernel_comp c hlast (scalar c 1) x s s'' (wf2_scalar c 1) hx hs (targets x s) (Subset.refl _)]
  have : ∀ m ∈ targets x s, ampF' c x s m * ampF' c (scalar c 1) m s'' =
      if s'' = m then ampF' c x s m else 0 := by
    intro m hm
    rw [rep_scalar c 1 m s'' (by rw [length_of_mem_targets x s m hm, hs.len])]
    by_cases h : m = s''
    · rw [if_pos h, if_pos h.symm, mul_one]
    · rw [if_neg h, if_neg (fun h' => h h'.symm), mul_zero]
  rw [sum_congr rfl this, Finset.sum_ite_eq]
  split
  · rfl
  · rename_i h; exact (ampF'_eq_zero_of_not_target c x s s'' h).symm

theorem npow_succ_succ (c : Ctx) (x : Form) (k : Nat) : npow c x (k + 2) = mul c (npow c x (k + 1)) x := rfl

theorem wf2_npow (c : Ctx) (hlast : FermionsLast c) (x : Form) (hx : WF2 c x) : ∀ k, WF2 c (npow c x k)
  | 0 => wf2_scalar c 1
  | 1 => hx
  | k + 2 => by
    rw [npow_succ_succ]
    exact wf2_mul c hlast _ x (wf2_npow c hlast x hx (k + 1)) hx

/-- **C08, integer powers**: `x^(k+1) = x^k · x` as kernels for every `k`, with `x^0 = 1` -/
theorem rep_npow_succ (c : Ctx) (hlast : FermionsLast c) (x : Form) (k : Nat) (s s'' : Occ) (hx : WF2 c x)
    (hs : Valid c s) :
    ampF' c (npow c x (k + 1)) s s'' = ampF' c (mul c (npow c x k) x) s s'' := by
  cases k with
  | zero => exact (rep_one_mul c hlast x s s'' hx hs).symm
  | succ k => rfl

end Nof
end Pyma
#print axioms Pyma.Nof.rep_mul_assoc
#print axioms Pyma.Nof.rep_mul_add
#print axioms Pyma.Nof.rep_add_mul
#print axioms Pyma.Nof.rep_npow_succ
#print axioms Pyma.Nof.rep_mul_one
