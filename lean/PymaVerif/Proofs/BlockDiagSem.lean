/-
The scope that `block_diagonalize` wires into an algorithm (model: `BlockDiag.Problem.env`)
keeps block supports and has a ring-level meaning.
-/
import PymaVerif.Proofs.StepSem
import PymaVerif.Model.BlockDiag

namespace Pyma
namespace BlockDiag
open Dsl

variable {K : Type} [Field K] [StarRing K] [DecidableEq K] [Thresholds K]
attribute [local instance] Scalar.ofField

namespace Problem
variable (p : Problem K)

/-- the block structure of a problem -/
abbrev blocks : Blocks := ⟨p.d, p.blk⟩

/-- all terms have the size of the problem -/
def WF : Prop := ∀ t ∈ p.terms, t.2.d = p.d

theorem term_d (hwf : p.WF) {n : List Nat} {h : Mat K} (ht : p.term n = some h) : h.d = p.d := by
  simp only [term, Option.map_eq_some_iff] at ht
  obtain ⟨t, hfind, rfl⟩ := ht
  exact hwf t (List.mem_of_find?_eq_some hfind)

theorem matSupp_mask {i j : Nat} (m : Mat K) (hm : m.d = p.d) (keep : Nat → Nat → Bool)
    (h : ∀ a b, keep a b = true → p.blk a = i ∧ p.blk b = j) :
    MatSupp p.blocks i j (m.mask keep) := by
  refine ⟨by simp [Mat.mask, Mat.ofFn, hm, blocks], ?_⟩
  intro a b ha hb hn
  have ha' : a < p.d := ha
  have hb' : b < p.d := hb
  simp only [Mat.mask]
  rw [hm, Mat.get_ofFn _ ha' hb']
  split
  · rename_i hk; exact absurd (h a b hk) hn
  · rfl

theorem matSupp_mask_of_supp {i j : Nat} (m : Mat K) (hm : MatSupp p.blocks i j m)
    (keep : Nat → Nat → Bool) : MatSupp p.blocks i j (m.mask keep) := by
  refine ⟨by simp [Mat.mask, Mat.ofFn, hm.1], ?_⟩
  intro a b ha hb hn
  simp only [Mat.mask]
  rw [hm.1, Mat.get_ofFn _ ha hb]
  split
  · exact hm.2 a b ha hb hn
  · rfl

theorem inBlock_iff (i j a b : Nat) : p.inBlock i j a b = true ↔ p.blk a = i ∧ p.blk b = j := by
  simp [inBlock]

theorem supp_inputH (hwf : p.WF) (idx : Idx) : Supp p.blocks idx (p.inputH idx) := by
  simp only [inputH]
  split
  · trivial
  · rename_i h ht
    split
    · trivial
    · exact p.matSupp_mask _ (p.term_d hwf ht) _ (fun a b hk => (p.inBlock_iff _ _ _ _).mp hk)

theorem matSupp_blockOne (i : Nat) :
    MatSupp p.blocks i i (Mat.blockOne p.d fun a => p.blk a == i : Mat K) := by
  refine ⟨rfl, ?_⟩
  intro a b ha hb hn
  have ha' : a < p.d := ha
  have hb' : b < p.d := hb
  simp only [Mat.blockOne]
  rw [Mat.get_ofFn _ ha' hb']
  split
  · rename_i h
    simp only [Bool.and_eq_true, beq_iff_eq] at h
    obtain ⟨hab, hblk⟩ := h
    subst hab
    exact absurd ⟨hblk, hblk⟩ hn
  · rfl

theorem supp_maskVal (keep : Nat → Nat → Bool) {v : SVal K} {idx : Idx}
    (hv : Supp p.blocks idx v) : Supp p.blocks idx (p.maskVal keep v idx) := by
  cases v with
  | zero => trivial
  | one =>
    have hij : idx.i = idx.j := hv
    simp only [maskVal]
    have := p.matSupp_mask_of_supp _ (p.matSupp_blockOne (K := K) idx.i) keep
    rw [hij] at this ⊢
    simpa [Supp, hij] using this
  | val m => exact p.matSupp_mask_of_supp _ hv keep

theorem envOK (hwf : p.WF) : EnvOK p.blocks p.env where
  input := fun _ idx => p.supp_inputH hwf idx
  fnSer := by
    intro f x idx w h
    simp only [env] at h
    split at h
    · simp [solveSylvester] at h
    · simp at h
  fnVal := by
    intro f v idx w hv h
    simp only [env] at h
    split at h
    · simp only [solveSylvester] at h
      cases v with
      | zero => simp [pure, Except.pure] at h; subst h; trivial
      | one => simp at h
      | val y =>
        simp only at h
        split at h
        · simp at h
        · simp only [pure, Except.pure, Except.ok.injEq] at h
          subst h
          refine ⟨rfl, ?_⟩
          intro a b ha hb hn
          have ha' : a < p.d := ha
          have hb' : b < p.d := hb
          rw [Mat.get_ofFn _ ha' hb']
          split
          · rename_i hk; exact absurd ((p.inBlock_iff _ _ _ _).mp hk) hn
          · rfl
    · simp at h
  diag := by
    intro v idx hv
    simp only [env, diagW]
    split
    · exact p.supp_maskVal _ hv
    · exact hv
  offdiag := by
    intro od v idx hod hv
    simp only [env] at hod
    split at hod
    · cases hod
    · cases hod
      simp only [offdiagW]
      split
      · exact p.supp_maskVal _ hv
      · trivial


/-- Hadamard product with a 0/1 mask -/
def hadamard (pred : Nat → Nat → Bool) (M : MatK K p.blocks) : MatK K p.blocks :=
  fun a b => if pred a.val b.val then M a b else 0

theorem toMatrix_mask (m : Mat K) (hm : m.d = p.d) (pred : Nat → Nat → Bool) :
    Mat.toMatrix p.blocks.d (m.mask pred) = p.hadamard pred (Mat.toMatrix p.blocks.d m) := by
  funext a b
  simp only [Mat.toMatrix, Mat.mask, hadamard]
  rw [hm]
  have ha : a.val < p.d := a.isLt
  have hb : b.val < p.d := b.isLt
  exact Mat.get_ofFn _ ha hb

theorem toMatrix_blockOne (i : Nat) :
    Mat.toMatrix p.blocks.d (Mat.blockOne p.d fun a => p.blk a == i : Mat K) = blockId p.blocks i := by
  funext a b
  simp only [Mat.toMatrix, Mat.blockOne, blockId, Matrix.diagonal_apply]
  have ha : a.val < p.d := a.isLt
  have hb : b.val < p.d := b.isLt
  rw [Mat.get_ofFn _ ha hb]
  by_cases hab : a = b
  · subst hab
    simp [blocks]
  · have : a.val ≠ b.val := fun h => hab (Fin.ext h)
    simp [hab, this]

theorem sem_maskVal (pred : Nat → Nat → Bool) {v : SVal K} {idx : Idx}
    (hv : Supp p.blocks idx v) :
    sem p.blocks idx (p.maskVal pred v idx) = p.hadamard pred (sem p.blocks idx v) := by
  cases v with
  | zero => funext a b; simp [maskVal, sem, hadamard]
  | one =>
    simp only [maskVal, sem]
    rw [p.toMatrix_mask _ rfl, p.toMatrix_blockOne]
  | val m => exact p.toMatrix_mask _ hv.1 pred

/-- ring-level Sylvester solver: divide by the energy difference where it exceeds `atol` -/
def solveSem (M : MatK K p.blocks) (idx : Idx) : MatK K p.blocks :=
  fun a b =>
    if p.inBlock idx.i idx.j a.val b.val then
      if Scalar.absGt (p.energy a.val - p.energy b.val) p.atol then
        M a b * (p.energy a.val - p.energy b.val)⁻¹ else 0
    else 0

noncomputable def envSem (hwf : p.WF) : EnvSem p.blocks p.env where
  fnVal := fun f M idx => if f == "solve_sylvester" then p.solveSem M idx else 0
  fnSer := fun _ _ _ => 0
  diag := fun M idx => if p.selected idx.i then p.hadamard (fun a b => !p.elim a b) M else M
  offdiag := fun M idx => if p.selected idx.i then p.hadamard (fun a b => p.elim a b) M else 0
  fnVal_ok := by
    intro f v idx w hv h
    simp only [env] at h
    split at h
    · rename_i hf
      simp only [hf, ↓reduceIte]
      simp only [solveSylvester] at h
      cases v with
      | zero =>
        simp [pure, Except.pure] at h; subst h
        funext a b
        simp [sem, solveSem]
      | one => simp at h
      | val y =>
        simp only at h
        split at h
        · simp at h
        · simp only [pure, Except.pure, Except.ok.injEq] at h
          subst h
          funext a b
          simp only [sem, Mat.toMatrix, solveSem]
          have ha : a.val < p.d := a.isLt
          have hb : b.val < p.d := b.isLt
          exact Mat.get_ofFn _ ha hb
    · simp at h
  fnSer_ok := by
    intro f x idx w h
    simp only [env] at h
    split at h
    · simp [solveSylvester] at h
    · simp at h
  diag_ok := by
    intro v idx hv
    simp only [env, diagW]
    split
    · exact p.sem_maskVal _ hv
    · rfl
  offdiag_ok := by
    intro od v idx hod hv
    simp only [env] at hod
    split at hod
    · cases hod
    · cases hod
      simp only [offdiagW]
      split
      · exact p.sem_maskVal _ hv
      · rfl

end Problem
end BlockDiag
end Pyma
#print axioms Pyma.BlockDiag.Problem.envSem
