/-
C16 (second-quantised solver) as a corollary of `rep_mul3`: dividing every monomial of `Y` by the
energy difference between the state it reaches and the state it starts from solves
`H_ii · X − X · H_jj = Y` for number-conserving (diagonal) `H_ii`, `H_jj` — on all physical states, as
kernels.  This is the model of `second_quantization.solve_scalar`.
-/
import PymaVerif.Proofs.NofFermion

namespace Pyma
namespace Nof
open Finset

/-- a function of the number operators as a form -/
def numberForm (c : Ctx) (h : Occ → GRat) : Form := [{ powers := List.replicate c.n 0, coeff := h }]

/-- occupation seen by `H_ii` (after the creators) and by `H_jj` (before the annihilators), as
`solve_scalar` substitutes them into the coefficient: `N ± δ` on boson/ladder modes, `1` on finite ones -/
def upOcc (c : Ctx) (t : Term) (N : Occ) : Occ :=
  (List.range N.length).map fun j =>
    if pw t j < 0 then (if c.isInf j then Occ.get N j - pw t j else 1) else Occ.get N j
def dnOcc (c : Ctx) (t : Term) (N : Occ) : Occ :=
  (List.range N.length).map fun j =>
    if pw t j > 0 then (if c.isInf j then Occ.get N j + pw t j else 1) else Occ.get N j

/-- `_cancel_binary_operator_numbers`: `n_f ↦ 0` whenever the term carries `f` or `f†` -/
def canonOcc (c : Ctx) (t : Term) (N : Occ) : Occ :=
  (List.range N.length).map fun j => if c.isInf j = false ∧ pw t j ≠ 0 then 0 else Occ.get N j

/-- `solve_scalar` on one monomial -/
def solveTerm (c : Ctx) (hi hj : Occ → GRat) (t : Term) : Term :=
  { t with coeff := fun N =>
      t.coeff (canonOcc c t N) / (hi (upOcc c t (canonOcc c t N)) - hj (dnOcc c t (canonOcc c t N))) }

def solveScalar (c : Ctx) (hi hj : Occ → GRat) (Y : Form) : Form := Y.map (solveTerm c hi hj)

theorem pw_replicate (n j : Nat) : Occ.get (List.replicate n (0 : Int)) j = 0 := by
  unfold Occ.get
  by_cases h : j < n <;> simp [List.getD_eq_getElem?_getD, h]

/-- kernel of a function of the number operators: diagonal -/
theorem ampF'_numberForm (c : Ctx) (h : Occ → GRat) (s s' : Occ) (hs : s.length = c.n) :
    ampF' c (numberForm c h) s s' = if s = s' then h s else 0 := by
  have hp : ∀ j, pw ({ powers := List.replicate c.n 0, coeff := h } : Term) j = 0 := fun j => pw_replicate c.n j
  have htgt : tgt ({ powers := List.replicate c.n 0, coeff := h } : Term) s = s := by
    apply occ_ext (by simp)
    intro j hj
    rw [get_tgt _ _ _ (by simpa using hj), hp j, sub_zero]
  have hmid : mid ({ powers := List.replicate c.n 0, coeff := h } : Term) s = s := by
    apply occ_ext (by simp)
    intro j hj
    rw [get_mid _ _ _ (by simpa using hj), hp j]; simp
  have hann : annAmp c ({ powers := List.replicate c.n 0, coeff := h } : Term) s = 1 := by
    unfold annAmp
    apply Finset.prod_eq_one
    intro j _
    rw [hp j, modeAmp_zero]
  have hsig : sigma c ({ powers := List.replicate c.n 0, coeff := h } : Term) s = 0 := by
    rw [sigma_eq_sum]
    apply Finset.sum_eq_zero
    intro k _
    simp [hp k]
  unfold ampF' numberForm
  simp only [List.map_cons, List.map_nil, List.sum_cons, List.sum_nil, add_zero]
  unfold ampS' ampS specAmp sgn
  rw [htgt, hmid, hann, hsig, sgnI_zero, ofInt_one, one_mul, one_mul]

theorem wft_numberForm (c : Ctx) (h : Occ → GRat) : WF2 c (numberForm c h) := by
  intro t ht
  simp only [numberForm, List.mem_singleton] at ht
  subst ht
  refine ⟨by simp, ?_, ?_⟩
  · intro i _ _; right; left; exact pw_replicate c.n i
  · intro i _ _ hp; exact absurd (pw_replicate c.n i) hp

theorem canonOcc_set (c : Ctx) (t : Term) (N : Occ) (j : Nat) (v : Int) (hfin : c.isInf j = false)
    (hp : pw t j ≠ 0) : canonOcc c t (Occ.set N j v) = canonOcc c t N := by
  apply occ_ext (by simp [canonOcc])
  intro k hk
  have hk' : k < N.length := by simpa [canonOcc] using hk
  rw [canonOcc, get_mapRange, canonOcc, get_mapRange, if_pos (by simpa using hk'), if_pos hk']
  by_cases hkj : k = j
  · subst hkj; simp [hfin, hp]
  · rw [get_set_ne _ _ _ _ hkj]

theorem wft_solveTerm (c : Ctx) (hi hj : Occ → GRat) (t : Term) (h : WFT c t) : WFT c (solveTerm c hi hj t) := by
  refine ⟨h.len, h.fin, ?_⟩
  intro j hj' hfin hp N v _
  show t.coeff (canonOcc c t (Occ.set N j v)) / _ = t.coeff (canonOcc c t N) / _
  rw [canonOcc_set c t N j v hfin hp]

theorem wf2_solveScalar (c : Ctx) (hi hj : Occ → GRat) (Y : Form) (h : WF2 c Y) : WF2 c (solveScalar c hi hj Y) := by
  intro t' ht'
  obtain ⟨t, ht, rfl⟩ := List.mem_map.mp ht'
  exact wft_solveTerm c hi hj t (h t ht)

/-- on the support of a monomial the three substituted occupation vectors are what they should be -/
theorem occ_on_support (c : Ctx) (t : Term) (s : Occ) (hs : Valid c s) (hw : WFT c t)
    (hz : annAmp c t s ≠ 0) :
    canonOcc c t (mid t s) = mid t s ∧ upOcc c t (mid t s) = tgt t s ∧ dnOcc c t (mid t s) = s := by
  have hsupp : ∀ j, j < c.n → c.isInf j = false →
      (pw t j = 1 → Occ.get s j = 1) ∧ (pw t j = -1 → Occ.get s j = 0) := by
    intro j hj hfin
    have hne : modeAmp c j (Occ.get s j) (pw t j) ≠ 0 := by
      unfold annAmp at hz
      exact (Finset.prod_ne_zero_iff.mp hz) j (mem_range.mpr hj)
    rw [modeAmp_fin c j hfin] at hne
    constructor
    · intro hp
      rw [hp] at hne
      rcases hs.bin j hj hfin with h | h
      · rw [h] at hne; simp at hne
      · exact h
    · intro hp
      rw [hp] at hne
      rcases hs.bin j hj hfin with h | h
      · exact h
      · rw [h] at hne; simp at hne
  have hml : (mid t s).length = s.length := by simp
  refine ⟨?_, ?_, ?_⟩
  · apply occ_ext (by simp [canonOcc])
    intro j hj
    have hj' : j < s.length := by simpa [canonOcc] using hj
    have hjn : j < c.n := by rw [← hs.len]; exact hj'
    rw [canonOcc, get_mapRange, if_pos (by rw [hml]; exact hj')]
    by_cases hc : c.isInf j = false ∧ pw t j ≠ 0
    · rw [if_pos hc, get_mid _ _ _ hj']
      rcases hw.fin j hjn hc.1 with e | e | e
      · rw [e, (hsupp j hjn hc.1).2 e]; norm_num
      · exact absurd e hc.2
      · rw [e, (hsupp j hjn hc.1).1 e]; norm_num
    · rw [if_neg hc]
  · apply occ_ext (by simp [upOcc])
    intro j hj
    have hj' : j < s.length := by simpa [upOcc] using hj
    have hjn : j < c.n := by rw [← hs.len]; exact hj'
    rw [upOcc, get_mapRange, if_pos (by rw [hml]; exact hj'), get_mid _ _ _ hj', get_tgt _ _ _ hj']
    by_cases hp : pw t j < 0
    · rw [if_pos hp]
      cases hinf : c.isInf j
      · simp only [Bool.false_eq_true, ↓reduceIte]
        rcases hw.fin j hjn hinf with e | e | e
        · rw [e, (hsupp j hjn hinf).2 e]; norm_num
        · omega
        · omega
      · simp only [↓reduceIte]
        have : max (pw t j) 0 = 0 := by omega
        rw [this]; ring
    · rw [if_neg hp]
      have : max (pw t j) 0 = pw t j := by omega
      rw [this]
  · apply occ_ext (by simp [dnOcc])
    intro j hj
    have hj' : j < s.length := by simpa [dnOcc] using hj
    have hjn : j < c.n := by rw [← hs.len]; exact hj'
    rw [dnOcc, get_mapRange, if_pos (by rw [hml]; exact hj'), get_mid _ _ _ hj']
    by_cases hp : pw t j > 0
    · rw [if_pos hp]
      cases hinf : c.isInf j
      · simp only [Bool.false_eq_true, ↓reduceIte]
        rcases hw.fin j hjn hinf with e | e | e
        · omega
        · omega
        · exact ((hsupp j hjn hinf).1 e).symm
      · simp only [↓reduceIte]
        have : max (pw t j) 0 = pw t j := by omega
        rw [this]; ring
    · rw [if_neg hp]
      have : max (pw t j) 0 = 0 := by omega
      rw [this]; ring

theorem sum_map_sub' {α : Type} (l : List α) (f g : α → GRat) :
    (l.map f).sum - (l.map g).sum = (l.map fun a => f a - g a).sum := by
  induction l with
  | nil => simp
  | cons a l ih => simp only [List.map_cons, List.sum_cons]; rw [← ih]; ring

def numTerm (c : Ctx) (h : Occ → GRat) : Term := { powers := List.replicate c.n 0, coeff := h }

theorem tgt_numTerm (c : Ctx) (h : Occ → GRat) (s : Occ) : tgt (numTerm c h) s = s := by
  apply occ_ext (by simp)
  intro j hj
  rw [get_tgt _ _ _ (by simpa using hj)]
  show Occ.get s j - Occ.get (List.replicate c.n (0 : Int)) j = _
  rw [pw_replicate, sub_zero]

theorem specAmpS_numTerm (c : Ctx) (h : Occ → GRat) (s : Occ) : specAmpS c (numTerm c h) s = h s := by
  have hp : ∀ j, pw (numTerm c h) j = 0 := fun j => pw_replicate c.n j
  have hmid : mid (numTerm c h) s = s := by
    apply occ_ext (by simp)
    intro j hj
    rw [get_mid _ _ _ (by simpa using hj), hp j]; simp
  have hann : annAmp c (numTerm c h) s = 1 := by
    unfold annAmp
    apply Finset.prod_eq_one
    intro j _
    rw [hp j, modeAmp_zero]
  have hsig : sigma c (numTerm c h) s = 0 := by
    rw [sigma_eq_sum]
    apply Finset.sum_eq_zero
    intro k _
    simp [hp k]
  unfold specAmpS specAmp sgn
  rw [hmid, hann, hsig, sgnI_zero, ofInt_one, one_mul, one_mul]
  rfl

/-- **C16, second-quantised solver**: `H_ii · X − X · H_jj = Y` for `X = solve_scalar(Y)`, as kernels on
physical states, wherever the energy denominators that occur do not vanish -/
theorem solveScalar_spec (c : Ctx) (hlast : FermionsLast c) (hi hj : Occ → GRat) (Y : Form) (hY : WF2 c Y)
    (s s'' : Occ) (hs : Valid c s)
    (hden : ∀ t ∈ Y, annAmp c t s ≠ 0 → hi (tgt t s) - hj s ≠ 0) :
    ampF' c (mul c (numberForm c hi) (solveScalar c hi hj Y)) s s''
      - ampF' c (mul c (solveScalar c hi hj Y) (numberForm c hj)) s s''
      = ampF' c Y s s'' := by
  have hX := wf2_solveScalar c hi hj Y hY
  rw [rep_mul3 c hlast _ _ s s'' (wft_numberForm c hi) hX hs,
    rep_mul3 c hlast _ _ s s'' hX (wft_numberForm c hj) hs]
  -- the second product: a single diagonal term on the right
  have h2 : ((numberForm c hj).map fun t => specAmpS c t s * ampF' c (solveScalar c hi hj Y) (tgt t s) s'').sum
      = hj s * ampF' c (solveScalar c hi hj Y) s s'' := by
    show ([numTerm c hj].map fun t => specAmpS c t s * ampF' c (solveScalar c hi hj Y) (tgt t s) s'').sum = _
    simp only [List.map_cons, List.map_nil, List.sum_cons, List.sum_nil, add_zero, tgt_numTerm, specAmpS_numTerm]
  rw [h2]
  unfold ampF' solveScalar
  rw [List.map_map, List.map_map, ← List.sum_map_mul_left, sum_map_sub']
  congr 1
  apply List.map_congr_left
  intro t ht
  have hw := hY t ht
  simp only [Function.comp]
  -- one monomial
  have htg : tgt (solveTerm c hi hj t) s = tgt t s := rfl
  have hsg : sgn c (solveTerm c hi hj t) s = sgn c t s := rfl
  have han : annAmp c (solveTerm c hi hj t) s = annAmp c t s := rfl
  have hmd : mid (solveTerm c hi hj t) s = mid t s := rfl
  have hnum : ((List.map (fun u => ampS' c u (tgt (solveTerm c hi hj t) s) s'') (numberForm c hi)).sum)
      = if tgt t s = s'' then hi (tgt t s) else 0 := by
    have := ampF'_numberForm c hi (tgt t s) s'' (by simp [hs.len])
    unfold ampF' at this
    exact this
  rw [hnum]
  unfold specAmpS ampS' ampS
  rw [htg, hsg]
  unfold specAmp
  rw [han, hmd]
  have h0 : ofInt 0 = 0 := by ext <;> simp [ofInt]
  by_cases hz : annAmp c t s = 0
  · rw [hz, h0]; split <;> simp
  · obtain ⟨e1, e2, e3⟩ := occ_on_support c t s hs hw hz
    have hd := hden t ht hz
    show ofInt (sgn c t s) * (ofInt (annAmp c t s) * (t.coeff (canonOcc c t (mid t s))
        / (hi (upOcc c t (canonOcc c t (mid t s))) - hj (dnOcc c t (canonOcc c t (mid t s))))))
        * (if tgt t s = s'' then hi (tgt t s) else 0)
      - hj s * (ofInt (sgn c t s) * (if tgt t s = s'' then ofInt (annAmp c t s) * (t.coeff (canonOcc c t (mid t s))
        / (hi (upOcc c t (canonOcc c t (mid t s))) - hj (dnOcc c t (canonOcc c t (mid t s))))) else 0))
      = ofInt (sgn c t s) * (if tgt t s = s'' then ofInt (annAmp c t s) * t.coeff (mid t s) else 0)
    rw [e1, e2, e3]
    by_cases htt : tgt t s = s''
    · simp only [htt, ↓reduceIte]
      rw [htt] at hd
      field_simp
    · simp [htt]

/-! ## the linear operations -/

theorem rep_add (c : Ctx) (x y : Form) (s s' : Occ) :
    ampF' c (add x y) s s' = ampF' c x s s' + ampF' c y s s' := by
  unfold ampF' add
  rw [List.map_append, List.sum_append]

theorem rep_neg (c : Ctx) (x : Form) (s s' : Occ) : ampF' c (neg x) s s' = -ampF' c x s s' := by
  unfold ampF' neg
  rw [List.map_map]
  induction x with
  | nil => simp
  | cons t x ih =>
    simp only [List.map_cons, List.sum_cons, Function.comp] at ih ⊢
    rw [ih]
    have : ampS' c { t with coeff := fun N => -(t.coeff N) } s s' = -ampS' c t s s' := by
      have h := ampS_negIf c true t s s'
      unfold ampS'
      have hs : sgn c { t with coeff := fun N => -(t.coeff N) } s = sgn c t s := rfl
      rw [hs]
      have hn : ({ t with coeff := fun N => -(t.coeff N) } : Term) = negIf true t := rfl
      rw [hn, h]
      simp
    rw [this]; ring

theorem rep_scalar (c : Ctx) (z : GRat) (s s' : Occ) (hs : s.length = c.n) :
    ampF' c (scalar c z) s s' = if s = s' then z else 0 :=
  ampF'_numberForm c (fun _ => z) s s' hs

end Nof
end Pyma
#print axioms Pyma.Nof.solveScalar_spec
