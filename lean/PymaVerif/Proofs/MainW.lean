/-
`W` of `main` is Hermitian and satisfies `2 W = -(U'† U')` as a series identity — via `CoreFill`.
-/
import PymaVerif.Proofs.MainSeries
import PymaVerif.Proofs.CoreFill
import Mathlib.Tactic.FieldSimp
import Mathlib.Tactic.Ring
import Mathlib.Tactic.NormNum

namespace Pyma
namespace BlockDiag
open Dsl Generated MvPowerSeries
namespace Problem

variable {K : Type} [Field K] [StarRing K] [DecidableEq K] [Thresholds K]
attribute [local instance] Scalar.ofField
variable (p : Problem K)

abbrev S' := Sr (Fin p.nparams) K p.d
abbrev F' (k : ℕ) := FDeg (Fin p.nparams) (Mt K p.d) k

/-- the degree filtration as a `Filtration` -/
def filt : Filtration (Sr (Fin p.nparams) K p.d) where
  F := fun k => FDeg (Fin p.nparams) (Mt K p.d) k
  top := FDeg_top
  mul_mem := fun hx hy => FDeg_mul hx hy
  sep := FDeg_sep
  anti := FDeg_anti

def dgP (a b : Fin p.d) : Bool := p.blk a.val == p.blk b.val
def upP (a b : Fin p.d) : Bool := decide (p.blk a.val < p.blk b.val)
def loP (a b : Fin p.d) : Bool := decide (p.blk a.val > p.blk b.val)

theorem star_mem_F (k : ℕ) (x : Sr (Fin p.nparams) K p.d) (hx : x ∈ FDeg (Fin p.nparams) (Mt K p.d) k) :
    star x ∈ FDeg (Fin p.nparams) (Mt K p.d) k := by
  intro m hm
  rw [coeff_star, hx m hm, star_zero]

theorem coeff_star_apply (x : Sr (Fin p.nparams) K p.d) (m : Fin p.nparams →₀ ℕ) (a b : Fin p.d) :
    coeff m (star x) a b = star (coeff m x b a) := by
  rw [coeff_star]; rfl

theorem star_coeffwise_swap (f g : Fin p.d → Fin p.d → Bool) (hfg : ∀ a b, f a b = g b a)
    (x : Sr (Fin p.nparams) K p.d) :
    star (coeffwise (maskMap f) x) = coeffwise (maskMap g) (star x) := by
  ext m a b
  rw [coeff_star_apply, coeff_coeffwise, coeff_coeffwise, maskMap_apply, maskMap_apply, coeff_star_apply,
    hfg b a]
  by_cases h : g a b <;> simp [h]

theorem neg_two_inv_mul (h2 : (2 : K) ≠ 0) (x : K) : 2 * (((-2 : ℤ) : K)⁻¹ * x) = -x := by
  have : ((-2 : ℤ) : K) = -2 := by push_cast; ring
  rw [this]
  have hn : (-2 : K) ≠ 0 := by simpa using h2
  field_simp

variable (R : p.Ready) (hopt : p.twoBlockOptimized = false) (h2 : (2 : K) ≠ 0)

include R in
theorem F1_QP : p.sr "U'†" * p.sr "U'" ∈ FDeg (Fin p.nparams) (Mt K p.d) 1 :=
  (FDeg_anti 1) (FDeg_mul (p.F1_Q R) (p.F1_P R))

include R hopt h2 in
/-- diagonal and upper blocks: `2 W = -(Q P)` there -/
theorem W_upper_eq (f : Fin p.d → Fin p.d → Bool) (hf : ∀ a b, f a b = true → ¬ p.blk a.val > p.blk b.val) :
    2 * coeffwise (maskMap f) (p.sr "W") = -coeffwise (maskMap f) (p.sr "U'†" * p.sr "U'") := by
  apply two_cancel_series h2
  congr 1
  apply eq_of_coeff_ne_zero
  · rw [mem_F1_iff, coeff_two_mul, coeff_coeffwise, (mem_F1_iff _).mp (p.F1_W R), map_zero, mul_zero]
  · rw [mem_F1_iff, map_neg, coeff_coeffwise, (mem_F1_iff _).mp (p.F1_QP R), map_zero, neg_zero]
  · intro m hm
    funext a b
    rw [coeff_two_mul, map_neg, coeff_coeffwise, coeff_coeffwise, ← p.sr_QP R, coeff_sr, coeff_sr]
    have e : (2 * maskMap f (p.g "W" (toList m))) a b = 2 * (maskMap f (p.g "W" (toList m)) a b) := by
      rw [two_mul, two_mul, Matrix.add_apply]
    rw [e, Matrix.neg_apply, maskMap_apply, maskMap_apply]
    by_cases hfab : f a b = true
    · simp only [hfab, ↓reduceIte]
      rw [p.g_W_upper R.wf R.tot hopt _ (toList_all_nonzero m hm) a b (hf a b hfab), neg_two_inv_mul h2]
    · simp [hfab]

end Problem
end BlockDiag
end Pyma
