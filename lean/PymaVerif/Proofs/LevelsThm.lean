/-
What a fully diagonalised block keeps together (`BlockDiag.Problem.sameLevel`: levels connected by steps below `atol`, the code's
`_transitive_closure(equal_eigs)`) makes the kept pattern of every block an equivalence: the side condition `comm_trans` of `Accepted` — the kept part of
a "commuting" block is closed under multiplication — holds of every problem, whatever its energies and tolerance (before D37 the code decided
"equal within atol" pair by pair, and the condition failed for chains of close levels: the hypothesis the proof had forced marked the defect).
-/
import PymaVerif.Proofs.Accepted
import PymaVerif.Proofs.ClosureThm
import PymaVerif.Proofs.GRatField
import PymaVerif.Proofs.Witness

namespace Pyma
namespace BlockDiag
namespace Problem
open Dsl

variable {K : Type} [Field K] [StarRing K] [DecidableEq K] [Thresholds K] [LawfulThresholds K]
attribute [local instance] Scalar.ofField
variable (p : Problem K)

variable {p}

theorem closeIn_symm (a b : Nat) : p.closeIn a b = p.closeIn b a := by
  unfold closeIn equalEigs
  have h1 : (p.blk a == p.blk b) = (p.blk b == p.blk a) := by
    by_cases h : p.blk a = p.blk b
    · simp [h]
    · have h' : ¬ p.blk b = p.blk a := fun e => h e.symm
      simp [h, h']
  have h2 : Scalar.absGt (p.energy a - p.energy b) p.atol = Scalar.absGt (p.energy b - p.energy a) p.atol := by
    have := LawfulThresholds.absGt_neg (p.energy b - p.energy a) p.atol
    rw [neg_sub] at this
    exact this
  rw [h1, h2]

theorem sameLevel_symm (a b : Nat) : p.sameLevel a b = p.sameLevel b a :=
  Closure.closure_symm p.closeIn (fun a b _ _ => closeIn_symm a b) a b

theorem sameLevel_trans {a b c : Nat} (h1 : p.sameLevel a c = true) (h2 : p.sameLevel c b = true) : p.sameLevel a b = true :=
  Closure.closure_trans p.closeIn h1 h2

/-- levels kept together lie in one block -/
theorem sameLevel_blk {a b : Nat} (h : p.sameLevel a b = true) : p.blk a = p.blk b :=
  Closure.closure_minimal p.closeIn (fun a b => p.blk a = p.blk b)
    (fun a b _ _ hab => by
      unfold closeIn at hab
      rw [Bool.and_eq_true] at hab
      exact beq_iff_eq.mp hab.1)
    (fun _ _ _ _ _ _ h1 h2 => h1.trans h2) h

/-- levels closer than `atol` in one block are kept together … -/
theorem sameLevel_of_close {a b : Nat} (ha : a < p.d) (hb : b < p.d) (hblk : p.blk a = p.blk b) (h : p.equalEigs a b = true) :
    p.sameLevel a b = true :=
  Closure.closure_of_rel p.closeIn ha hb (by unfold closeIn; rw [hblk, h]; simp)

/-- … and what is not kept together is more than `atol` apart -/
theorem not_close_of_not_sameLevel {a b : Nat} (ha : a < p.d) (hb : b < p.d) (hblk : p.blk a = p.blk b) (h : p.sameLevel a b = false) :
    p.equalEigs a b = false := by
  by_contra hc
  have : p.equalEigs a b = true := by simpa using hc
  rw [sameLevel_of_close ha hb hblk this] at h
  cases h

/-- **the kept pattern of a commuting block is transitive** — for every problem: no side condition on the energies -/
theorem keptE_trans (a b c : Nat) (hc : p.commuting (p.blk a) = true) (hab : p.keptE a b = true) (hcb : p.keptE c b = true) :
    p.keptE a c = true := by
  unfold keptE elimIn at *
  rw [Bool.and_eq_true] at hab hcb ⊢
  obtain ⟨hb1, hab2⟩ := hab
  obtain ⟨hb2, hcb2⟩ := hcb
  have e1 : p.blk a = p.blk b := beq_iff_eq.mp hb1
  have e2 : p.blk c = p.blk b := beq_iff_eq.mp hb2
  refine ⟨beq_iff_eq.mpr (e1.trans e2.symm), ?_⟩
  by_cases hsel : p.selected (p.blk a) = true
  · have hselc : p.selected (p.blk c) = true := by rw [e2, ← e1]; exact hsel
    rw [hsel, Bool.true_and] at hab2 ⊢
    rw [hselc, Bool.true_and] at hcb2
    unfold elim at hab2 hcb2 ⊢
    unfold commuting at hc
    unfold selected at hsel
    cases hfd : p.fdEff with
    | none => rfl
    | tuple l =>
      simp only [hfd, Bool.not_not] at hab2 hcb2 ⊢
      exact sameLevel_trans hab2 (by rw [sameLevel_symm]; exact hcb2)
    | dict l =>
      simp only [hfd] at hc hsel
      rw [hsel] at hc
      cases hc
  · have : p.selected (p.blk a) = false := by simpa using hsel
    rw [this]; rfl

/-- the gap clause of `Accepted` inside a block that is fully diagonalised by its list form: what is not kept there is divided by (`|ΔE| > atol`) — the masks
and the solver's denominators cannot disagree (before D38 they did when `|ΔE| = atol` exactly) -/
theorem gap_same_block_tuple {a b : Nat} (ha : a < p.d) (hb : b < p.d) (hblk : p.blk a = p.blk b) {l : List Nat} (hfd : p.fdEff = .tuple l)
    (hk : p.keptE a b = false) : Scalar.absGt (p.energy a - p.energy b) p.atol = true := by
  unfold keptE elimIn at hk
  rw [hblk, beq_self_eq_true, Bool.true_and] at hk
  have hel : p.elim a b = true := by
    cases hs : p.selected (p.blk b) <;> simp [hs] at hk
    exact hk
  unfold elim at hel
  simp only [hfd] at hel
  have hsl : p.sameLevel a b = false := by simpa using hel
  have := not_close_of_not_sameLevel ha hb hblk hsl
  unfold equalEigs at this
  simpa using this

/-- the transitivity clause of `Accepted` is not a condition: it holds of every problem -/
theorem comm_trans_holds : ∀ a b c : Fin p.d, p.commuting (p.blk a.val) = true → p.keptE a.val b.val = true →
    p.keptE c.val b.val = true → p.keptE a.val c.val = true :=
  fun a b c hc hab hcb => keptE_trans a.val b.val c.val hc hab hcb

theorem absGt_zero (hat : 0 ≤ p.atol) : Scalar.absGt (0 : K) p.atol = false := by
  by_contra h
  have h' : Thresholds.absGt (0 : K) p.atol = true := by
    have : Scalar.absGt (0 : K) p.atol = true := by simpa using h
    exact this
  exact LawfulThresholds.absGt_ne (0 : K) p.atol hat h' rfl

theorem sameLevel_self (hat : 0 ≤ p.atol) {a : Nat} (ha : a < p.d) : p.sameLevel a a = true :=
  sameLevel_of_close ha ha rfl (by unfold equalEigs; rw [sub_self, absGt_zero hat]; rfl)

/-- the clauses of `Accepted` about the masks, for the list form (or the absence) of `fully_diagonalize`: consequences of the model of the code's
mask construction, not conditions on the input -/
theorem elim_symm_tuple (hfd : ∀ l, p.fdEff ≠ .dict l) (a b : Fin p.d) (hblk : p.blk a.val = p.blk b.val) :
    p.elimIn a.val b.val = p.elimIn b.val a.val := by
  unfold elimIn elim
  rw [hblk]
  cases h : p.fdEff with
  | none => rfl
  | tuple l => simp only [sameLevel_symm a.val b.val]
  | dict l => exact absurd h (hfd l)

theorem diag_kept_tuple (hat : 0 ≤ p.atol) (hfd : ∀ l, p.fdEff ≠ .dict l) (a : Fin p.d) : p.keptE a.val a.val = true := by
  unfold keptE elimIn elim
  cases h : p.fdEff with
  | none => simp
  | tuple l => simp [sameLevel_self hat a.isLt]
  | dict l => exact absurd h (hfd l)

theorem gap_tuple (hfd : ∀ l, p.fdEff ≠ .dict l)
    (hcross : ∀ a b : Fin p.d, p.blk a.val ≠ p.blk b.val → Scalar.absGt (p.energy a.val - p.energy b.val) p.atol = true)
    (a b : Fin p.d) (hk : p.keptE a.val b.val = false) : Scalar.absGt (p.energy a.val - p.energy b.val) p.atol = true := by
  by_cases hblk : p.blk a.val = p.blk b.val
  · cases h : p.fdEff with
    | none =>
      exfalso
      unfold keptE elimIn elim at hk
      simp [h, hblk] at hk
    | tuple l => exact gap_same_block_tuple a.isLt b.isLt hblk h hk
    | dict l => exact absurd h (hfd l)
  · exact hcross a b hblk

variable (p) in
/-- what has to be true of the *input* for the list form (or the absence) of `fully_diagonalize`: shapes, a non-negative tolerance, Hermitian terms, a
diagonal `H_0`, and blocks whose energies are apart (for the solver's absolute test and for the relative test made at first use) -/
structure InputOK : Prop where
  wf : ∀ t ∈ p.terms, t.2.d = p.d
  blocks_lt : ∀ a : Fin p.d, p.blk a.val < p.nblocks
  atol_nonneg : 0 ≤ p.atol
  herm : ∀ t ∈ p.terms, ∀ a b : Fin p.d, star (t.2.get b.val a.val) = t.2.get a.val b.val
  h0_diag : ∀ t ∈ p.terms, t.1 = p.zeroOrder → ∀ a b : Fin p.d, a ≠ b → t.2.get a.val b.val = 0
  blocks_apart : ∀ a b : Fin p.d, p.blk a.val ≠ p.blk b.val → Scalar.absGt (p.energy a.val - p.energy b.val) p.atol = true
  no_shared : ∀ a b : Fin p.d, p.blk a.val ≠ p.blk b.val → Scalar.isClose (p.energy a.val) (p.energy b.val) = false
  no_masks : ∀ l, p.fdEff ≠ .dict l

/-- every such problem is accepted, whatever its levels inside the blocks: degenerate, close on the scale of `atol` in clusters or chains, exactly `atol` apart -/
theorem InputOK.accepted (h : p.InputOK) : p.Accepted where
  wf := h.wf
  blocks_lt := h.blocks_lt
  atol_nonneg := h.atol_nonneg
  herm := h.herm
  h0_diag := h.h0_diag
  elim_symm := elim_symm_tuple h.no_masks
  diag_kept := diag_kept_tuple h.atol_nonneg h.no_masks
  gap := gap_tuple h.no_masks h.blocks_apart
  comm_trans := comm_trans_holds
  no_shared := h.no_shared

variable (p) in
/-- what has to be true for masks given by the caller (`fully_diagonalize` a dictionary): the input facts, and the two facts about the masks that
`block_diagonalize` checks — symmetric (Hermitian mode), and no entry selected between levels that are equal within `atol` -/
structure MasksOK : Prop where
  wf : ∀ t ∈ p.terms, t.2.d = p.d
  blocks_lt : ∀ a : Fin p.d, p.blk a.val < p.nblocks
  atol_nonneg : 0 ≤ p.atol
  herm : ∀ t ∈ p.terms, ∀ a b : Fin p.d, star (t.2.get b.val a.val) = t.2.get a.val b.val
  h0_diag : ∀ t ∈ p.terms, t.1 = p.zeroOrder → ∀ a b : Fin p.d, a ≠ b → t.2.get a.val b.val = 0
  blocks_apart : ∀ a b : Fin p.d, p.blk a.val ≠ p.blk b.val → Scalar.absGt (p.energy a.val - p.energy b.val) p.atol = true
  no_shared : ∀ a b : Fin p.d, p.blk a.val ≠ p.blk b.val → Scalar.isClose (p.energy a.val) (p.energy b.val) = false
  masks : ∃ l, p.fdEff = .dict l
  mask_symmetric : ∀ a b : Fin p.d, p.blk a.val = p.blk b.val → p.elim a.val b.val = p.elim b.val a.val
  mask_spares_equal_levels : ∀ a b : Fin p.d, p.blk a.val = p.blk b.val → p.elim a.val b.val = true → p.equalEigs a.val b.val = false

theorem MasksOK.accepted (h : p.MasksOK) : p.Accepted where
  wf := h.wf
  blocks_lt := h.blocks_lt
  atol_nonneg := h.atol_nonneg
  herm := h.herm
  h0_diag := h.h0_diag
  elim_symm := by
    intro a b hblk
    unfold elimIn
    rw [hblk, h.mask_symmetric a b hblk]
  diag_kept := by
    intro a
    unfold keptE elimIn
    rw [beq_self_eq_true, Bool.true_and]
    by_cases he : p.elim a.val a.val = true
    · have := h.mask_spares_equal_levels a a rfl he
      unfold equalEigs at this
      rw [sub_self, absGt_zero h.atol_nonneg] at this
      cases this
    · have : p.elim a.val a.val = false := by simpa using he
      rw [this, Bool.and_false]; rfl
  gap := by
    intro a b hk
    by_cases hblk : p.blk a.val = p.blk b.val
    · unfold keptE elimIn at hk
      rw [hblk, beq_self_eq_true, Bool.true_and] at hk
      have hel : p.elim a.val b.val = true := by
        cases hs : p.selected (p.blk b.val) <;> simp [hs] at hk
        exact hk
      have := h.mask_spares_equal_levels a b hblk hel
      unfold equalEigs at this
      simpa using this
    · exact h.blocks_apart a b hblk
  comm_trans := by
    intro a b c hc hab hcb
    obtain ⟨l, hl⟩ := h.masks
    have hsel : p.selected (p.blk a.val) = false := by
      unfold commuting at hc
      unfold selected
      simp only [hl] at hc ⊢
      simpa using hc
    unfold keptE elimIn at *
    rw [Bool.and_eq_true] at hab hcb ⊢
    have e1 : p.blk a.val = p.blk b.val := beq_iff_eq.mp hab.1
    have e2 : p.blk c.val = p.blk b.val := beq_iff_eq.mp hcb.1
    refine ⟨beq_iff_eq.mpr (e1.trans e2.symm), ?_⟩
    rw [hsel]; rfl
  no_shared := h.no_shared

/-- the dict-mask witness of `Witness.lean` meets it -/
theorem wd_masks : wd.MasksOK where
  wf := by decide
  blocks_lt := by decide
  atol_nonneg := by decide +kernel
  herm := by decide
  h0_diag := by decide +kernel
  blocks_apart := by decide +kernel
  no_shared := by decide +kernel
  masks := ⟨_, rfl⟩
  mask_symmetric := by decide +kernel
  mask_spares_equal_levels := by decide +kernel

variable (p) in
/-- `Accepted` without its transitivity clause -/
structure AcceptedCore : Prop where
  wf : ∀ t ∈ p.terms, t.2.d = p.d
  blocks_lt : ∀ a : Fin p.d, p.blk a.val < p.nblocks
  atol_nonneg : 0 ≤ p.atol
  herm : ∀ t ∈ p.terms, ∀ a b : Fin p.d, star (t.2.get b.val a.val) = t.2.get a.val b.val
  h0_diag : ∀ t ∈ p.terms, t.1 = p.zeroOrder → ∀ a b : Fin p.d, a ≠ b → t.2.get a.val b.val = 0
  elim_symm : ∀ a b : Fin p.d, p.blk a.val = p.blk b.val → p.elimIn a.val b.val = p.elimIn b.val a.val
  diag_kept : ∀ a : Fin p.d, p.keptE a.val a.val = true
  gap : ∀ a b : Fin p.d, p.keptE a.val b.val = false →
    Scalar.absGt (p.energy a.val - p.energy b.val) p.atol = true
  no_shared : ∀ a b : Fin p.d, p.blk a.val ≠ p.blk b.val →
    Scalar.isClose (p.energy a.val) (p.energy b.val) = false

theorem AcceptedCore.accepted (h : p.AcceptedCore) : p.Accepted where
  wf := h.wf
  blocks_lt := h.blocks_lt
  atol_nonneg := h.atol_nonneg
  herm := h.herm
  h0_diag := h.h0_diag
  elim_symm := h.elim_symm
  diag_kept := h.diag_kept
  gap := h.gap
  comm_trans := comm_trans_holds
  no_shared := h.no_shared

/-- a single block, fully diagonalised by default, whose lowest three levels are equal within `atol = 10` only through their neighbours
(0, 7, 14; the fourth level is 300): the regime of D37 -/
def wchain : Problem ℚ where
  d := 4
  blockOf := #[0, 0, 0, 0]
  nblocks := 1
  nparams := 1
  terms := [([0], ⟨4, #[0,0,0,0, 0,7,0,0, 0,0,14,0, 0,0,0,300]⟩),
            ([1], ⟨4, #[1,2,3,1, 2,0,1,1, 3,1,0,4, 1,1,4,2]⟩)]
  hermitian := true
  fd := .none
  atol := 10

theorem wchain_core : wchain.AcceptedCore where
  wf := by decide
  blocks_lt := by decide
  atol_nonneg := by decide +kernel
  herm := by decide
  h0_diag := by decide +kernel
  elim_symm := by decide +kernel
  diag_kept := by decide +kernel
  gap := by decide +kernel
  no_shared := by decide +kernel

/-- two blocks, `fully_diagonalize=[0]`: only the first block is fully diagonalised; its two levels are exactly `atol` apart (kept: D38) -/
def wlist : Problem ℚ where
  d := 3
  blockOf := #[0, 0, 1]
  nblocks := 2
  nparams := 1
  terms := [([0], ⟨3, #[1,0,0, 0,11,0, 0,0,400]⟩), ([1], ⟨3, #[1,2,3, 2,0,1, 3,1,-2]⟩)]
  hermitian := true
  fd := .tuple [0]
  atol := 10

theorem wlist_input : wlist.InputOK where
  wf := by decide
  blocks_lt := by decide
  atol_nonneg := by decide +kernel
  herm := by decide
  h0_diag := by decide +kernel
  blocks_apart := by decide +kernel
  no_shared := by decide +kernel
  no_masks := by intro l h; cases h

example : wlist.keptE 0 1 = true ∧ wlist.keptE 0 2 = false := by decide +kernel

/-- the same with every block named: `fully_diagonalize=[0, 1]` -/
def wall : Problem ℚ := { wlist with fd := .tuple [0, 1] }

theorem wall_input : wall.InputOK where
  wf := by decide
  blocks_lt := by decide
  atol_nonneg := by decide +kernel
  herm := by decide
  h0_diag := by decide +kernel
  blocks_apart := by decide +kernel
  no_shared := by decide +kernel
  no_masks := by intro l h; cases h

/-- the ends of the chain are farther apart than `atol`, and yet kept together; the fourth level is eliminated against them -/
example : wchain.equalEigs 0 2 = false ∧ wchain.keptE 0 2 = true ∧ wchain.keptE 0 3 = false := by decide +kernel

end Problem
end BlockDiag
end Pyma
