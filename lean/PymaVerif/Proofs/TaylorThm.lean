/-
The Taylor expansion of `_sympy_to_BlockSeries` returns the coefficients of a polynomial input: for every multi-order `n`,
`term c n = c n` — in particular the *mixed* coefficients `x^a y^b` come with `1/(a! b!)`, not `1/(a+b)!`.
-/
import PymaVerif.Model.Taylor
import Mathlib.Data.Nat.Choose.Basic
import Mathlib.Data.Rat.Defs
import Mathlib.Tactic.Ring
import Mathlib.Tactic.FieldSimp
import Mathlib.Tactic.Linarith
import Mathlib.Algebra.Order.Field.Rat

namespace Pyma
namespace Taylor

/-- `∏_j C(m_j + n_j, n_j)` -/
def pb : List Nat → List Nat → ℚ
  | x :: xs, y :: ys => (Nat.choose (x + y) y : ℚ) * pb xs ys
  | _, _ => 1

def addL : List Nat → List Nat → List Nat
  | x :: xs, y :: ys => (x + y) :: addL xs ys
  | _, _ => []

theorem fn_none : ∀ n : List Nat, firstNonzero n = none → n = List.replicate n.length 0
  | [], _ => rfl
  | x :: xs, h => by
    unfold firstNonzero at h
    by_cases hx : x = 0
    · subst hx
      simp only [bne_self_eq_false, Bool.false_eq_true, ↓reduceIte, Option.map_eq_none_iff] at h
      rw [List.length_cons, List.replicate_succ, ← fn_none xs h]
    · simp [hx] at h

theorem pb_zero_right : ∀ (m : List Nat) (k : Nat), pb m (List.replicate k 0) = 1
  | [], _ => by cases ‹Nat› <;> rfl
  | x :: xs, 0 => rfl
  | x :: xs, k + 1 => by simp [List.replicate_succ, pb, pb_zero_right xs k]

theorem addL_zero_right : ∀ (m : List Nat), addL m (List.replicate m.length 0) = m
  | [] => rfl
  | x :: xs => by simp [List.replicate_succ, addL, addL_zero_right xs]

theorem pb_zero_left : ∀ (n : List Nat), pb (List.replicate n.length 0) n = 1
  | [] => rfl
  | x :: xs => by simp [List.replicate_succ, pb, pb_zero_left xs]

theorem addL_zero_left : ∀ (n : List Nat), addL (List.replicate n.length 0) n = n
  | [] => rfl
  | x :: xs => by simp [List.replicate_succ, addL, addL_zero_left xs]

/-- the three facts about one differentiation step, by recursion along `firstNonzero` -/
theorem step_facts : ∀ (n m : List Nat) (i : Nat), firstNonzero n = some i → n.length = m.length →
    n.getD i 0 ≠ 0 ∧
    ((m.getD i 0 + 1 : ℕ) : ℚ) * pb (bump m i) (lower n i) = (n.getD i 0 : ℚ) * pb m n ∧
    addL (bump m i) (lower n i) = addL m n ∧ (lower n i).length = (bump m i).length ∧ (lower n i).sum + 1 = n.sum
  | [], _, _, h, _ => by simp [firstNonzero] at h
  | x :: xs, [], _, _, hl => by simp at hl
  | x :: xs, y :: ys, i, h, hl => by
    unfold firstNonzero at h
    by_cases hx : x = 0
    · subst hx
      simp only [bne_self_eq_false, Bool.false_eq_true, ↓reduceIte, Option.map_eq_some_iff] at h
      obtain ⟨j, hj, rfl⟩ := h
      have hl' : xs.length = ys.length := by simpa using hl
      obtain ⟨h1, h2, h3, h4, h5⟩ := step_facts xs ys j hj hl'
      refine ⟨by simpa using h1, ?_, ?_, ?_, ?_⟩
      · simp only [bump, lower, List.getD_cons_succ, List.set_cons_succ, pb, Nat.add_zero, Nat.choose_zero_right, Nat.cast_one, one_mul]
        simpa [bump, lower] using h2
      · simp only [bump, lower, List.getD_cons_succ, List.set_cons_succ, addL]
        congr 1
      · simp only [bump, lower, List.set_cons_succ, List.length_cons, List.length_set]
        simpa using hl'
      · simp only [lower, List.getD_cons_succ, List.set_cons_succ, List.sum_cons, Nat.zero_add]
        simpa [lower] using h5
    · have hb : (x != 0) = true := by simpa using hx
      simp only [hb, ↓reduceIte, Option.some.injEq] at h
      subst h
      have hx1 : 1 ≤ x := Nat.one_le_iff_ne_zero.mpr hx
      refine ⟨by simpa using hx, ?_, ?_, ?_, ?_⟩
      · simp only [bump, lower, List.getD_cons_zero, List.set_cons_zero, pb]
        have key : (y + 1) * Nat.choose (y + 1 + (x - 1)) (x - 1) = x * Nat.choose (y + x) x := by
          have e : y + 1 + (x - 1) = y + x := by omega
          rw [e]
          have := Nat.choose_succ_right_eq (y + x) (x - 1)
          have e2 : x - 1 + 1 = x := by omega
          rw [e2] at this
          have e3 : y + x - (x - 1) = y + 1 := by omega
          rw [e3] at this
          rw [Nat.mul_comm x, this, Nat.mul_comm]
        have keyq : ((y + 1 : ℕ) : ℚ) * (Nat.choose (y + 1 + (x - 1)) (x - 1) : ℚ) = (x : ℚ) * (Nat.choose (y + x) x : ℚ) := by
          exact_mod_cast key
        calc ((y + 1 : ℕ) : ℚ) * ((Nat.choose (y + 1 + (x - 1)) (x - 1) : ℚ) * pb ys xs)
            = (((y + 1 : ℕ) : ℚ) * (Nat.choose (y + 1 + (x - 1)) (x - 1) : ℚ)) * pb ys xs := by ring
          _ = ((x : ℚ) * (Nat.choose (y + x) x : ℚ)) * pb ys xs := by rw [keyq]
          _ = (x : ℚ) * ((Nat.choose (y + x) x : ℚ) * pb ys xs) := by ring
      · simp only [bump, lower, List.getD_cons_zero, List.set_cons_zero, addL]
        congr 1
        omega
      · simp only [bump, lower, List.set_cons_zero, List.length_cons]
        simpa using hl
      · simp only [lower, List.getD_cons_zero, List.set_cons_zero, List.sum_cons]
        omega

/-- every normalised derivative: coefficient of `x^m` in `D(n)` is `∏ C(m_j+n_j, n_j) · c(m + n)` -/
theorem deriv_coeff (c : Coef) : ∀ (fuel : Nat) (n m : List Nat), n.length = m.length → n.sum ≤ fuel →
    deriv c fuel n m = pb m n * c (addL m n) := by
  intro fuel
  induction fuel with
  | zero =>
    intro n m hl hs
    have hz : firstNonzero n = none := by
      cases hf : firstNonzero n with
      | none => rfl
      | some i =>
        obtain ⟨_, _, _, _, h5⟩ := step_facts n m i hf hl
        omega
    have hn := fn_none n hz
    rw [hn, hl, pb_zero_right, addL_zero_right]
    simp [deriv]
  | succ fuel ih =>
    intro n m hl hs
    cases hf : firstNonzero n with
    | none =>
      have hn := fn_none n hf
      simp only [deriv, hf]
      rw [hn, hl, pb_zero_right, addL_zero_right]; simp
    | some i =>
      obtain ⟨h1, h2, h3, h4, h5⟩ := step_facts n m i hf hl
      simp only [deriv, hf, pderiv]
      rw [ih (lower n i) (bump m i) h4 (by omega), h3]
      have hne : ((n.getD i 0 : ℕ) : ℚ) ≠ 0 := by exact_mod_cast h1
      rw [← mul_assoc, h2]
      field_simp

/-- **the Taylor term of multi-order `n` is the coefficient of the monomial `n`** -/
theorem term_eq_coeff (c : Coef) (n : List Nat) : term c n = c n := by
  unfold term
  rw [deriv_coeff c n.sum n (List.replicate n.length 0) (by simp) (le_refl _), pb_zero_left, addL_zero_left, one_mul]

example : term (ofMonomials [([1, 1], 5), ([2, 1], 7), ([0, 0], 1)]) [1, 1] = 5 := by
  rw [term_eq_coeff]; decide +kernel

end Taylor
end Pyma
