/-
C06 (implicit mode), the carrier map and the solver obligation.

The implicit carrier holds the blocks of the explicit problem conjugated by an isometry
`E = 1_A ⊕ R_B` (`R_B`: the eigenvectors of the implicit subspace, never computed by the code):
`Φ X = E X Eᴴ`.  This file shows that `Φ` is a legitimate intertwiner for `sem_natural` (additive,
multiplicative, adjoint- and support-preserving, injective), and discharges the solver obligation in
the form the implementation can meet: *any* `V'` in the range of the projector `Π = E Eᴴ`, supported on
block `(i,j)`, that solves the Sylvester equation with the projected `H_0` for the embedded right-hand
side is the embedding of the explicit solution (`sylvester_embedded_unique`).  The direct solver
returns such a `V'` (`Greens.direct_solve`: a solution of `(E_a − H) x = P v` in the range of `P`).
-/
import PymaVerif.Proofs.SemNatural

namespace Pyma
namespace Dsl

variable {K : Type} [Field K] [StarRing K] [DecidableEq K] [Thresholds K]
variable {B B' : Blocks}

/-- `X ↦ E X Eᴴ` -/
def isoM (E : Matrix (Fin B'.d) (Fin B.d) K) : MatK K B →+ MatK K B' where
  toFun X := E * X * E.conjTranspose
  map_zero' := by simp
  map_add' X Y := by simp [Matrix.mul_add, Matrix.add_mul]

theorem isoM_def (E : Matrix (Fin B'.d) (Fin B.d) K) (X : MatK K B) :
    isoM E X = E * X * E.conjTranspose := rfl

/-- an isometry that respects the block structure -/
structure Isometry (E : Matrix (Fin B'.d) (Fin B.d) K) : Prop where
  iso : E.conjTranspose * E = 1
  blk : ∀ (a' : Fin B'.d) (a : Fin B.d), E a' a ≠ 0 → B'.blk a'.val = B.blk a.val

variable {E : Matrix (Fin B'.d) (Fin B.d) K}

theorem isoM_mul (hE : Isometry E) (X Y : MatK K B) : isoM E (X * Y) = isoM E X * isoM E Y := by
  simp only [isoM_def]
  calc E * (X * Y) * E.conjTranspose
      = E * X * (1 : Matrix (Fin B.d) (Fin B.d) K) * Y * E.conjTranspose := by
        simp [Matrix.mul_assoc]
    _ = E * X * (E.conjTranspose * E) * Y * E.conjTranspose := by rw [hE.iso]
    _ = E * X * E.conjTranspose * (E * Y * E.conjTranspose) := by simp only [Matrix.mul_assoc]

theorem isoM_adj (X : MatK K B) : isoM E X.conjTranspose = (isoM E X).conjTranspose := by
  simp only [isoM_def, Matrix.conjTranspose_mul, Matrix.conjTranspose_conjTranspose, Matrix.mul_assoc]

theorem isoM_smul (k : K) (X : MatK K B) : isoM E (k • X) = k • isoM E X := by
  simp only [isoM_def, Matrix.mul_smul, Matrix.smul_mul]

/-- `Eᴴ · Φ X · E = X` -/
theorem isoM_back (hE : Isometry E) (X : MatK K B) : E.conjTranspose * isoM E X * E = X := by
  simp only [isoM_def]
  calc E.conjTranspose * (E * X * E.conjTranspose) * E
      = (E.conjTranspose * E) * X * (E.conjTranspose * E) := by simp only [Matrix.mul_assoc]
    _ = X := by rw [hE.iso]; simp

theorem isoM_injective (hE : Isometry E) : Function.Injective (isoM E : MatK K B → MatK K B') := by
  intro X Y h
  rw [← isoM_back hE X, ← isoM_back hE Y, h]

/-- the projector on the range of `E` -/
def proj (E : Matrix (Fin B'.d) (Fin B.d) K) : MatK K B' := E * E.conjTranspose

/-- matrices in the range of the projector are exactly the embedded ones -/
theorem eq_isoM_of_range (V' : MatK K B') (h : proj E * V' * proj E = V') :
    V' = isoM E (E.conjTranspose * V' * E) := by
  rw [isoM_def]
  conv_lhs => rw [← h]
  simp only [proj, Matrix.mul_assoc]

theorem isoM_supp (hE : Isometry E) {i j : Nat} {X : MatK K B} (hX : SuppM B i j X) :
    SuppM B' i j (isoM E X) := by
  intro a' b' hn
  rw [isoM_def, Matrix.mul_apply]
  apply Finset.sum_eq_zero
  intro b _
  by_cases hb : E b' b = 0
  · simp [Matrix.conjTranspose_apply, hb]
  · rw [Matrix.mul_apply]
    have : ∑ a, E a' a * X a b = 0 := by
      apply Finset.sum_eq_zero
      intro a _
      by_cases ha : E a' a = 0
      · simp [ha]
      · rw [hX a b (fun hh => hn ⟨(hE.blk a' a ha).trans hh.1, (hE.blk b' b hb).trans hh.2⟩), mul_zero]
    rw [this, zero_mul]

theorem back_supp (hE : Isometry E) {i j : Nat} {V' : MatK K B'} (hV : SuppM B' i j V') :
    SuppM B i j (E.conjTranspose * V' * E) := by
  intro a b hn
  rw [Matrix.mul_apply]
  apply Finset.sum_eq_zero
  intro b' _
  by_cases hb : E b' b = 0
  · simp [hb]
  · rw [Matrix.mul_apply]
    have : ∑ a', E.conjTranspose a a' * V' a' b' = 0 := by
      apply Finset.sum_eq_zero
      intro a' _
      by_cases ha : E a' a = 0
      · simp [Matrix.conjTranspose_apply, ha]
      · rw [hV a' b' (fun hh => hn ⟨(hE.blk a' a ha).symm.trans hh.1, (hE.blk b' b hb).symm.trans hh.2⟩),
          mul_zero]
    rw [this, zero_mul]

/-- the explicit Sylvester equation has at most one solution supported on a pair of blocks with
separated energies -/
theorem sylvester_unique (en : Fin B.d → K) (i j : Nat)
    (hsep : ∀ a b : Fin B.d, B.blk a.val = i → B.blk b.val = j → en a ≠ en b)
    (D : MatK K B) (hD : SuppM B i j D)
    (h : Matrix.diagonal en * D - D * Matrix.diagonal en = 0) : D = 0 := by
  funext a b
  by_cases hab : B.blk a.val = i ∧ B.blk b.val = j
  · have := congrFun (congrFun h a) b
    simp only [Matrix.sub_apply, Matrix.diagonal_mul, Matrix.mul_diagonal, Matrix.zero_apply] at this
    have h2 : (en a - en b) * D a b = 0 := by rw [sub_mul]; rw [mul_comm (D a b)] at this; exact this
    rcases mul_eq_zero.mp h2 with h3 | h3
    · exact absurd (sub_eq_zero.mp h3) (hsep a b hab.1 hab.2)
    · exact h3
  · exact hD a b hab

/-- **C06, solver obligation**: a solution of the projected Sylvester equation in the range of the
projector, supported on the block pair, is the embedded explicit solution. -/
theorem sylvester_embedded_unique (hE : Isometry E) (en : Fin B.d → K) (i j : Nat)
    (hsep : ∀ a b : Fin B.d, B.blk a.val = i → B.blk b.val = j → en a ≠ en b)
    (Y V : MatK K B) (hV : SuppM B i j V)
    (hVeq : Matrix.diagonal en * V - V * Matrix.diagonal en = Y)
    (V' : MatK K B') (hrange : proj E * V' * proj E = V') (hsupp : SuppM B' i j V')
    (heq : isoM E (Matrix.diagonal en) * V' - V' * isoM E (Matrix.diagonal en) = isoM E Y) :
    V' = isoM E V := by
  set W := E.conjTranspose * V' * E with hW
  have hV' : V' = isoM E W := eq_isoM_of_range V' hrange
  have hWs : SuppM B i j W := back_supp hE hsupp
  -- pull the equation back
  have hWeq : Matrix.diagonal en * W - W * Matrix.diagonal en = Y := by
    apply isoM_injective hE
    rw [map_sub, isoM_mul hE, isoM_mul hE, ← hV']
    exact heq
  have hD : W - V = 0 := by
    apply sylvester_unique en i j hsep (W - V) (hWs.sub hV)
    rw [Matrix.mul_sub, Matrix.sub_mul]
    have : Matrix.diagonal en * W - Matrix.diagonal en * V - (W * Matrix.diagonal en - V * Matrix.diagonal en)
        = (Matrix.diagonal en * W - W * Matrix.diagonal en) - (Matrix.diagonal en * V - V * Matrix.diagonal en) := by
      abel
    rw [this, hWeq, hVeq, sub_self]
  rw [hV', sub_eq_zero.mp hD]

theorem proj_idem (hE : Isometry E) : proj E * proj E = proj E := by
  simp only [proj]
  calc E * E.conjTranspose * (E * E.conjTranspose) = E * (E.conjTranspose * E) * E.conjTranspose := by simp only [Matrix.mul_assoc]
    _ = E * E.conjTranspose := by rw [hE.iso, Matrix.mul_one]

/-- **what the direct solver computes.**  It never forms the projected `H_0`: it solves with the *ambient* Hamiltonian `A'` (the operator the user supplied).
`A'` commutes with the projector (the explicit vectors are eigenvectors) and its compression is the embedded `H_0`; then a solution of the ambient Sylvester
equation that lies in the range of the projector is a solution of the projected equation — the form `ImplicitSpec.solver_off` asks for. -/
theorem ambient_to_projected (hE : Isometry E) (A' V' Y' H0' : MatK K B') (hcomm : proj E * A' = A' * proj E)
    (hcomp : proj E * A' * proj E = H0') (hrange : proj E * V' * proj E = V') (hamb : A' * V' - V' * A' = Y') :
    H0' * V' - V' * H0' = Y' := by
  have hPV : proj E * V' = V' := by
    conv_lhs => rw [← hrange]
    rw [← Matrix.mul_assoc, ← Matrix.mul_assoc, proj_idem hE, hrange]
  have hVP : V' * proj E = V' := by
    conv_lhs => rw [← hrange]
    rw [Matrix.mul_assoc, proj_idem hE, hrange]
  have h1 : H0' * V' = A' * V' := by
    rw [← hcomp, Matrix.mul_assoc, hPV, hcomm, Matrix.mul_assoc, hPV]
  have h2 : V' * H0' = V' * A' := by
    rw [← hcomp, ← Matrix.mul_assoc, ← Matrix.mul_assoc, hVP, Matrix.mul_assoc, ← hcomm, ← Matrix.mul_assoc, hVP]
  rw [h1, h2, hamb]

end Dsl
end Pyma
#print axioms Pyma.Dsl.sylvester_embedded_unique
