/-
C08, first stage: for contexts whose modes are bosons or ladder operators, the model of
`NumberOrderedForm.__mul__` represents composition of operators on Fock space (unnormalised basis:
`a|n) = n|n-1)`, `a†|n) = |n+1)`; a normal-ordered monomial `(a†)^r f(N) a^p` sends `|s)` to
`falling(s,p) · f(s-p) · |s-p+r)`).
-/
import PymaVerif.Model.Nof
import PymaVerif.Proofs.GRatField
import Mathlib.Algebra.BigOperators.Group.Finset.Basic
import Mathlib.Algebra.BigOperators.Intervals
import Mathlib.Tactic.Ring
import Mathlib.Tactic.Linarith

namespace Pyma
namespace Nof
open Finset

/-! ## lists as occupation vectors -/

theorem get_set (N : Occ) (i j : Nat) (v : Int) (hi : i < N.length) :
    Occ.get (Occ.set N i v) j = if j = i then v else Occ.get N j := by
  unfold Occ.get Occ.set
  by_cases h : j = i
  · subst h; simp [List.getD_eq_getElem?_getD, hi]
  · simp [List.getD_eq_getElem?_getD, List.getElem?_set, h, Ne.symm h]

@[simp] theorem length_set (N : Occ) (i : Nat) (v : Int) : (Occ.set N i v).length = N.length := by
  simp [Occ.set]

@[simp] theorem length_shift (N : Occ) (i : Nat) (d : Int) : (Occ.shift N i d).length = N.length := by
  simp [Occ.shift]

theorem get_shift (N : Occ) (i j : Nat) (d : Int) (hi : i < N.length) :
    Occ.get (Occ.shift N i d) j = if j = i then Occ.get N i + d else Occ.get N j := by
  unfold Occ.shift; rw [get_set _ _ _ _ hi]

theorem occ_ext {A B : Occ} (hl : A.length = B.length) (h : ∀ j, j < A.length → Occ.get A j = Occ.get B j) :
    A = B := by
  apply List.ext_getElem hl
  intro j h1 h2
  have := h j h1
  simpa [Occ.get, List.getD_eq_getElem?_getD, h1, h2] using this

/-! ## falling and rising factorials -/

theorem falling_eq (x : Int) (m : Nat) : falling x m = ∏ k ∈ range m, (x - (k : Int)) := by
  unfold falling
  induction m with
  | zero => simp
  | succ m ih => rw [List.range_succ, List.foldl_append, ih, prod_range_succ]; simp

theorem rising_eq (x : Int) (m : Nat) : rising x m = ∏ k ∈ range m, (x + (k : Int) + 1) := by
  unfold rising
  induction m with
  | zero => simp
  | succ m ih => rw [List.range_succ, List.foldl_append, ih, prod_range_succ]; simp

@[simp] theorem falling_zero (x : Int) : falling x 0 = 1 := by simp [falling_eq]
@[simp] theorem rising_zero (x : Int) : rising x 0 = 1 := by simp [rising_eq]

theorem falling_add (x : Int) (m k : Nat) : falling x (m + k) = falling x m * falling (x - m) k := by
  rw [falling_eq, falling_eq, falling_eq, prod_range_add]
  congr 1
  apply prod_congr rfl
  intro j _
  push_cast; ring

theorem rising_eq_falling (x : Int) (m : Nat) : rising x m = falling (x + m) m := by
  rw [rising_eq, falling_eq, ← prod_range_reflect]
  apply prod_congr rfl
  intro j hj
  have : j < m := mem_range.mp hj
  have e : ((m - 1 - j : ℕ) : Int) = (m : Int) - 1 - j := by omega
  rw [e]; ring

/-! ## the term produced by `_multiply_op` on a boson/ladder mode -/

def opTerm (c : Ctx) (i : Nat) (q : Int) (t : Term) : Term :=
  let orig := pw t i
  let new := orig + q
  let boson := c.kind i == .boson
  let coeff' : Occ → GRat :=
    if q > 0 then
      let toPair := (min q (max (-orig) 0)).toNat
      fun N => t.coeff (Occ.shift N i (-(toPair : Int))) *
        (if boson then ofInt (falling (Occ.get N i) toPair) else 1)
    else
      let toPair := (min (-q) (max orig 0)).toNat
      let newNumbers : Occ → GRat := fun N => if boson then ofInt (rising (Occ.get N i) toPair) else 1
      if new > 0 then
        fun N => t.coeff N * newNumbers (Occ.shift N i new)
      else
        fun N => let N' := Occ.shift N i (-q - toPair); t.coeff N' * newNumbers N'
  { powers := setPw t i new, coeff := coeff' }

theorem multiplyOp_inf (c : Ctx) (x : Form) (i : Nat) (q : Int) (h : c.isInf i = true) :
    multiplyOp c x i q = x.map (opTerm c i q) := by
  unfold multiplyOp
  rw [if_pos h]
  rfl

/-! ## the specification: action of a normal-ordered monomial on a basis state -/

def modeAmp (c : Ctx) (j : Nat) (n p : Int) : Int :=
  if c.isInf j then
    (if c.kind j == .boson && decide (p > 0) then falling n p.toNat else 1)
  else
    -- spins and fermions (occupation 0 or 1): `c|n) = n|n-1)`, `c†|n) = (1-n)|n+1)`
    (if p > 0 then n else if p < 0 then 1 - n else 1)

def annAmp (c : Ctx) (t : Term) (s : Occ) : Int := ∏ j ∈ range c.n, modeAmp c j (Occ.get s j) (pw t j)

/-- occupation numbers seen by the coefficient function: after the annihilators -/
def mid (t : Term) (s : Occ) : Occ := (List.range s.length).map fun j => Occ.get s j - max (pw t j) 0
/-- the state the monomial maps `s` to -/
def tgt (t : Term) (s : Occ) : Occ := (List.range s.length).map fun j => Occ.get s j - pw t j

def specAmp (c : Ctx) (t : Term) (s : Occ) : GRat := ofInt (annAmp c t s) * t.coeff (mid t s)

theorem get_mapRange (n : Nat) (f : Nat → Int) (j : Nat) :
    Occ.get ((List.range n).map f) j = if j < n then f j else 0 := by
  unfold Occ.get
  by_cases h : j < n
  · simp [List.getD_eq_getElem?_getD, h]
  · simp [List.getD_eq_getElem?_getD, h]

@[simp] theorem length_mid (t : Term) (s : Occ) : (mid t s).length = s.length := by simp [mid]
@[simp] theorem length_tgt (t : Term) (s : Occ) : (tgt t s).length = s.length := by simp [tgt]

theorem get_mid (t : Term) (s : Occ) (j : Nat) (hj : j < s.length) :
    Occ.get (mid t s) j = Occ.get s j - max (pw t j) 0 := by
  rw [mid, get_mapRange, if_pos hj]

theorem get_tgt (t : Term) (s : Occ) (j : Nat) (hj : j < s.length) :
    Occ.get (tgt t s) j = Occ.get s j - pw t j := by
  rw [tgt, get_mapRange, if_pos hj]

theorem pw_opTerm (c : Ctx) (i : Nat) (q : Int) (t : Term) (j : Nat) (hi : i < t.powers.length) :
    pw (opTerm c i q t) j = if j = i then pw t i + q else pw t j := by
  show Occ.get (Occ.set t.powers i (pw t i + q)) j = _
  rw [get_set _ _ _ _ hi]; rfl

theorem tgt_opTerm (c : Ctx) (i : Nat) (q : Int) (t : Term) (s : Occ) (hi : i < s.length)
    (ht : i < t.powers.length) : tgt (opTerm c i q t) s = tgt t (Occ.shift s i (-q)) := by
  apply occ_ext (by simp)
  intro j hj
  have hj' : j < s.length := by simpa using hj
  rw [get_tgt _ _ _ hj', get_tgt _ _ _ (by simpa using hj'), pw_opTerm _ _ _ _ _ ht, get_shift _ _ _ _ hi]
  by_cases h : j = i
  · subst h; simp; ring
  · simp [h]

/-- characterisation of the occupation vector the old coefficient must be evaluated at -/
theorem eq_mid_shift (c : Ctx) (i : Nat) (q : Int) (t : Term) (s : Occ) (hi : i < s.length)
    (ht : i < t.powers.length) (N' : Occ) (hl : N'.length = s.length)
    (h1 : Occ.get N' i = Occ.get s i - q - max (pw t i) 0)
    (h2 : ∀ j, j ≠ i → j < s.length → Occ.get N' j = Occ.get (mid (opTerm c i q t) s) j) :
    N' = mid t (Occ.shift s i (-q)) := by
  apply occ_ext (by simp [hl])
  intro j hj
  have hj' : j < s.length := by rw [← hl]; exact hj
  rw [get_mid _ _ _ (by simpa using hj'), get_shift _ _ _ _ hi]
  by_cases h : j = i
  · subst h; simp only [↓reduceIte]; rw [h1]; ring
  · rw [h2 j h hj', get_mid _ _ _ hj', pw_opTerm _ _ _ _ _ ht]; simp [h]

theorem annAmp_split (c : Ctx) (t : Term) (s : Occ) (i : Nat) (hi : i < c.n) :
    annAmp c t s = modeAmp c i (Occ.get s i) (pw t i) *
      ∏ j ∈ (range c.n).erase i, modeAmp c j (Occ.get s j) (pw t j) := by
  unfold annAmp
  exact (mul_prod_erase (range c.n) (fun j => modeAmp c j (Occ.get s j) (pw t j)) (mem_range.mpr hi)).symm

theorem rest_eq (c : Ctx) (i : Nat) (q : Int) (t : Term) (s : Occ) (hi : i < s.length)
    (ht : i < t.powers.length) :
    ∏ j ∈ (range c.n).erase i, modeAmp c j (Occ.get s j) (pw (opTerm c i q t) j)
      = ∏ j ∈ (range c.n).erase i, modeAmp c j (Occ.get (Occ.shift s i (-q)) j) (pw t j) := by
  apply prod_congr rfl
  intro j hj
  have hne : j ≠ i := (mem_erase.mp hj).1
  rw [pw_opTerm _ _ _ _ _ ht, get_shift _ _ _ _ hi]; simp [hne]

theorem ofInt_mul (a b : Int) : ofInt (a * b) = ofInt a * ofInt b := by
  ext <;> simp [ofInt]
theorem ofInt_one : ofInt 1 = 1 := by ext <;> simp [ofInt]

theorem shift_mid_eq (c : Ctx) (i : Nat) (q : Int) (t : Term) (s : Occ) (hi : i < s.length)
    (ht : i < t.powers.length) (d : Int)
    (hd : (Occ.get s i - max (pw t i + q) 0) + d = Occ.get s i - q - max (pw t i) 0) :
    Occ.shift (mid (opTerm c i q t) s) i d = mid t (Occ.shift s i (-q)) := by
  have hiM : i < (mid (opTerm c i q t) s).length := by simpa using hi
  apply eq_mid_shift c i q t s hi ht _ (by simp)
  · rw [get_shift _ _ _ _ hiM, if_pos rfl, get_mid _ _ _ hi, pw_opTerm _ _ _ _ _ ht, if_pos rfl]
    exact hd
  · intro j hj _
    rw [get_shift _ _ _ _ hiM, if_neg hj]

theorem mid_eq_self (c : Ctx) (i : Nat) (q : Int) (t : Term) (s : Occ) (hi : i < s.length)
    (ht : i < t.powers.length)
    (hd : Occ.get s i - max (pw t i + q) 0 = Occ.get s i - q - max (pw t i) 0) :
    mid (opTerm c i q t) s = mid t (Occ.shift s i (-q)) := by
  apply eq_mid_shift c i q t s hi ht _ (by simp)
  · rw [get_mid _ _ _ hi, pw_opTerm _ _ _ _ _ ht, if_pos rfl]; exact hd
  · intro j _ _; rfl

theorem get_mid_op (c : Ctx) (i : Nat) (q : Int) (t : Term) (s : Occ) (hi : i < s.length)
    (ht : i < t.powers.length) :
    Occ.get (mid (opTerm c i q t) s) i = Occ.get s i - max (pw t i + q) 0 := by
  rw [get_mid _ _ _ hi, pw_opTerm _ _ _ _ _ ht, if_pos rfl]

theorem opTerm_coeff_pos (c : Ctx) (i : Nat) (q : Int) (t : Term) (hq : q > 0) (N : Occ) :
    (opTerm c i q t).coeff N =
      t.coeff (Occ.shift N i (-((min q (max (-pw t i) 0)).toNat : Int))) *
        (if c.kind i == .boson then ofInt (falling (Occ.get N i) (min q (max (-pw t i) 0)).toNat) else 1) := by
  simp only [opTerm, hq, ↓reduceIte]

theorem opTerm_coeff_np (c : Ctx) (i : Nat) (q : Int) (t : Term) (hq : ¬ q > 0) (hnew : pw t i + q > 0)
    (N : Occ) :
    (opTerm c i q t).coeff N =
      t.coeff N * (if c.kind i == .boson then
        ofInt (rising (Occ.get (Occ.shift N i (pw t i + q)) i) (min (-q) (max (pw t i) 0)).toNat) else 1) := by
  simp only [opTerm, hq, hnew, ↓reduceIte]

theorem opTerm_coeff_nn (c : Ctx) (i : Nat) (q : Int) (t : Term) (hq : ¬ q > 0) (hnew : ¬ pw t i + q > 0)
    (N : Occ) :
    (opTerm c i q t).coeff N =
      t.coeff (Occ.shift N i (-q - (min (-q) (max (pw t i) 0)).toNat)) *
        (if c.kind i == .boson then
          ofInt (rising (Occ.get (Occ.shift N i (-q - (min (-q) (max (pw t i) 0)).toNat)) i)
            (min (-q) (max (pw t i) 0)).toNat) else 1) := by
  simp only [opTerm, hq, hnew, ↓reduceIte]

theorem modeAmp_ladder (c : Ctx) (i : Nat) (hinf : c.isInf i = true) (hb : ¬ c.kind i = .boson) (a b : Int) :
    modeAmp c i a b = 1 := by
  simp [modeAmp, hb, hinf]

theorem modeAmp_boson (c : Ctx) (i : Nat) (hb : c.kind i = .boson) (a b : Int) :
    modeAmp c i a b = if b > 0 then falling a b.toNat else 1 := by
  have hinf : c.isInf i = true := by simp [Ctx.isInf, hb]
  simp [modeAmp, hb, hinf]

/-- **the one-generator step**: right multiplication by `a_i^q` (`q>0`) or `(a_i†)^{-q}` (`q<0`) -/
theorem opTerm_amp (c : Ctx) (i : Nat) (q : Int) (t : Term) (s : Occ) (hi : i < c.n)
    (hinf : c.isInf i = true) (hs : s.length = c.n) (ht : t.powers.length = c.n) :
    specAmp c (opTerm c i q t) s
      = ofInt (modeAmp c i (Occ.get s i) q) * specAmp c t (Occ.shift s i (-q)) := by
  have his : i < s.length := by rw [hs]; exact hi
  have hit : i < t.powers.length := by rw [ht]; exact hi
  unfold specAmp
  rw [annAmp_split c _ s i hi, annAmp_split c t _ i hi, rest_eq c i q t s his hit,
    pw_opTerm c i q t i hit, if_pos rfl, get_shift _ _ _ _ his, if_pos rfl]
  have hgM := get_mid_op c i q t s his hit
  have hshift := shift_mid_eq c i q t s his hit
  have hself := mid_eq_self c i q t s his hit
  have hiM : i < (mid (opTerm c i q t) s).length := by simpa using his
  generalize mid (opTerm c i q t) s = M at hgM hshift hself hiM ⊢
  generalize (∏ j ∈ (range c.n).erase i, modeAmp c j (Occ.get (Occ.shift s i (-q)) j) (pw t j)) = R
  generalize hn : Occ.get s i = n at hgM hshift hself ⊢
  by_cases hq : q > 0
  · -- annihilation
    rw [opTerm_coeff_pos c i q t hq]
    generalize hp : pw t i = p at hgM hshift hself ⊢
    by_cases hp0 : p ≥ 0
    · have hk : (min q (max (-p) 0)).toNat = 0 := by omega
      rw [hk, hshift _ (by push_cast; omega)]
      simp only [falling_zero, ofInt_one, ite_self, mul_one]
      by_cases hb : c.kind i = .boson
      · have hpq : (p + q).toNat = q.toNat + p.toNat := by omega
        have e : modeAmp c i n (p + q) = modeAmp c i n q * modeAmp c i (n + -q) p := by
          rw [modeAmp_boson c i hb, modeAmp_boson c i hb, modeAmp_boson c i hb]
          have h1 : p + q > 0 := by omega
          simp only [h1, hq, ↓reduceIte, hpq]
          by_cases hp1 : p > 0
          · simp only [hp1, ↓reduceIte]
            rw [falling_add]
            congr 2
            omega
          · have : p = 0 := by omega
            simp [this]
        rw [e, ofInt_mul, ofInt_mul, ofInt_mul]; ring
      · rw [modeAmp_ladder c i hinf hb, modeAmp_ladder c i hinf hb, modeAmp_ladder c i hinf hb]
        simp only [one_mul, ofInt_mul, ofInt_one]
    · -- p < 0: pair creators with annihilators
      have hpn : p < 0 := by omega
      by_cases hqr : q ≤ -p
      · have hk : ((min q (max (-p) 0)).toNat : Int) = q := by omega
        have hk' : (min q (max (-p) 0)).toNat = q.toNat := by omega
        rw [hk, hshift _ (by omega), hgM]
        have hm : max (p + q) 0 = 0 := by omega
        rw [hm, sub_zero, hk']
        by_cases hb : c.kind i = .boson
        · rw [modeAmp_boson c i hb, modeAmp_boson c i hb, modeAmp_boson c i hb]
          have h1 : ¬ p + q > 0 := by omega
          have h2 : ¬ p > 0 := by omega
          simp only [h1, h2, hq, ↓reduceIte, hb, beq_self_eq_true, one_mul, ofInt_mul]
          ring
        · rw [modeAmp_ladder c i hinf hb, modeAmp_ladder c i hinf hb, modeAmp_ladder c i hinf hb]
          have : (c.kind i == Kind.boson) = false := by simpa using hb
          simp only [this, Bool.false_eq_true, ↓reduceIte, one_mul, ofInt_mul, ofInt_one, mul_one]
      · have hk : ((min q (max (-p) 0)).toNat : Int) = -p := by omega
        have hk' : (min q (max (-p) 0)).toNat = (-p).toNat := by omega
        rw [hk, hshift _ (by omega), hgM]
        have hm : max (p + q) 0 = p + q := by omega
        rw [hm, hk']
        by_cases hb : c.kind i = .boson
        · rw [modeAmp_boson c i hb, modeAmp_boson c i hb, modeAmp_boson c i hb]
          have h1 : p + q > 0 := by omega
          have h2 : ¬ p > 0 := by omega
          simp only [h1, h2, hq, ↓reduceIte, hb, beq_self_eq_true, one_mul, ofInt_mul]
          have hsplit : q.toNat = (p + q).toNat + (-p).toNat := by omega
          have e : falling n q.toNat = falling n (p + q).toNat * falling (n - (p + q)) (-p).toNat := by
            rw [hsplit, falling_add]
            congr 2
            omega
          rw [e, ofInt_mul]; ring
        · rw [modeAmp_ladder c i hinf hb, modeAmp_ladder c i hinf hb, modeAmp_ladder c i hinf hb]
          have : (c.kind i == Kind.boson) = false := by simpa using hb
          simp only [this, Bool.false_eq_true, ↓reduceIte, one_mul, ofInt_mul, ofInt_one, mul_one]
  · -- creation (or nothing, `q = 0`)
    generalize hp : pw t i = p at hgM hshift hself ⊢
    have hq0 : ¬ q > 0 := hq
    by_cases hnew : p + q > 0
    · rw [opTerm_coeff_np c i q t hq (by rw [hp]; exact hnew), hp, get_shift _ _ _ _ hiM, if_pos rfl, hgM,
        hself (by omega)]
      have hm : max (p + q) 0 = p + q := by omega
      have hk' : (min (-q) (max p 0)).toNat = (-q).toNat := by omega
      rw [hm, hk']
      have hnn : n - (p + q) + (p + q) = n := by ring
      rw [hnn]
      by_cases hb : c.kind i = .boson
      · rw [modeAmp_boson c i hb, modeAmp_boson c i hb, modeAmp_boson c i hb]
        have h2 : p > 0 := by omega
        simp only [hnew, h2, hq0, ↓reduceIte, hb, beq_self_eq_true, ofInt_one, one_mul, ofInt_mul]
        have hsplit : p.toNat = (-q).toNat + (p + q).toNat := by omega
        have e : falling (n + -q) p.toNat = rising n (-q).toNat * falling n (p + q).toNat := by
          rw [hsplit, falling_add, rising_eq_falling]
          have h3 : n + -q = n + ((-q).toNat : Int) := by omega
          have h4 : n + -q - ((-q).toNat : Int) = n := by omega
          rw [h4, h3]
        rw [e, ofInt_mul]; ring
      · rw [modeAmp_ladder c i hinf hb, modeAmp_ladder c i hinf hb, modeAmp_ladder c i hinf hb]
        have : (c.kind i == Kind.boson) = false := by simpa using hb
        simp only [this, Bool.false_eq_true, ↓reduceIte, one_mul, ofInt_mul, ofInt_one, mul_one]
    · rw [opTerm_coeff_nn c i q t hq (by rw [hp]; exact hnew), hp, get_shift _ _ _ _ hiM, if_pos rfl, hgM]
      have hm : max (p + q) 0 = 0 := by omega
      have hkk : ((min (-q) (max p 0)).toNat : Int) = max p 0 := by omega
      rw [hshift _ (by omega), hm, sub_zero]
      by_cases hb : c.kind i = .boson
      · rw [modeAmp_boson c i hb, modeAmp_boson c i hb, modeAmp_boson c i hb]
        simp only [hnew, hq0, ↓reduceIte, hb, beq_self_eq_true, ofInt_one, one_mul, ofInt_mul]
        by_cases hp1 : p > 0
        · have hk' : (min (-q) (max p 0)).toNat = p.toNat := by omega
          simp only [hp1, ↓reduceIte, hk']
          have e : rising (n + (-q - (p.toNat : Int))) p.toNat = falling (n + -q) p.toNat := by
            rw [rising_eq_falling]
            congr 1
            omega
          rw [e]; ring
        · have hk' : (min (-q) (max p 0)).toNat = 0 := by omega
          simp only [hp1, ↓reduceIte, hk', rising_zero, ofInt_one, mul_one, one_mul]
      · rw [modeAmp_ladder c i hinf hb, modeAmp_ladder c i hinf hb, modeAmp_ladder c i hinf hb]
        have : (c.kind i == Kind.boson) = false := by simpa using hb
        simp only [this, Bool.false_eq_true, ↓reduceIte, one_mul, ofInt_mul, ofInt_one, mul_one]

/-! ## forms: kernels, the step lemmas -/

/-- kernel of a monomial -/
def ampS (c : Ctx) (t : Term) (s s' : Occ) : GRat := if tgt t s = s' then specAmp c t s else 0
/-- kernel of a form: `⟨s'| x |s)` in the unnormalised basis -/
def ampF (c : Ctx) (x : Form) (s s' : Occ) : GRat := (x.map fun t => ampS c t s s').sum

def WF (c : Ctx) (x : Form) : Prop := ∀ t ∈ x, t.powers.length = c.n
def AllInf (c : Ctx) : Prop := ∀ i, i < c.n → c.isInf i = true

theorem shift_zero (N : Occ) (i : Nat) : Occ.shift N i 0 = N := by
  by_cases hi : i < N.length
  · apply occ_ext (by simp)
    intro j _
    rw [get_shift _ _ _ _ hi]
    by_cases h : j = i
    · subst h; simp
    · simp [h]
  · simp [Occ.shift, Occ.set, List.set_eq_of_length_le (Nat.le_of_not_lt hi)]

theorem modeAmp_zero (c : Ctx) (i : Nat) (n : Int) : modeAmp c i n 0 = 1 := by simp [modeAmp]

theorem wf_multiplyOp (c : Ctx) (x : Form) (i : Nat) (q : Int) (hinf : c.isInf i = true) (h : WF c x) :
    WF c (multiplyOp c x i q) := by
  rw [multiplyOp_inf c x i q hinf]
  intro t ht
  obtain ⟨t0, ht0, rfl⟩ := List.mem_map.mp ht
  show (t0.powers.set i _).length = c.n
  rw [List.length_set]; exact h t0 ht0

/-- right multiplication by one generator power -/
theorem ampF_multiplyOp (c : Ctx) (x : Form) (i : Nat) (q : Int) (s s' : Occ) (hi : i < c.n)
    (hinf : c.isInf i = true) (hs : s.length = c.n) (h : WF c x) :
    ampF c (multiplyOp c x i q) s s'
      = ofInt (modeAmp c i (Occ.get s i) q) * ampF c x (Occ.shift s i (-q)) s' := by
  rw [multiplyOp_inf c x i q hinf]
  unfold ampF
  rw [List.map_map, ← List.sum_map_mul_left]
  congr 1
  apply List.map_congr_left
  intro t ht
  have htl := h t ht
  show ampS c (opTerm c i q t) s s' = _ * ampS c t _ s'
  unfold ampS
  rw [tgt_opTerm c i q t s (by rw [hs]; exact hi) (by rw [htl]; exact hi), opTerm_amp c i q t s hi hinf hs htl]
  split <;> simp

/-- the conditional step used by `__mul__` -/
theorem ampF_step (c : Ctx) (x : Form) (i : Nat) (q : Int) (b : Bool) (s s' : Occ) (hi : i < c.n)
    (hinf : c.isInf i = true) (hs : s.length = c.n) (h : WF c x) :
    ampF c (if b then multiplyOp c x i q else x) s s'
      = ofInt (modeAmp c i (Occ.get s i) (if b then q else 0))
        * ampF c x (Occ.shift s i (-(if b then q else 0))) s' := by
  cases b
  · simp [modeAmp_zero, shift_zero, ofInt_one]
  · simp only [↓reduceIte]; exact ampF_multiplyOp c x i q s s' hi hinf hs h

theorem wf_step (c : Ctx) (x : Form) (i : Nat) (q : Int) (b : Bool) (hinf : c.isInf i = true) (h : WF c x) :
    WF c (if b then multiplyOp c x i q else x) := by
  cases b
  · exact h
  · exact wf_multiplyOp c x i q hinf h

/-- a sequence of conditional steps on distinct modes: the last one acts first -/
theorem ampF_fold (c : Ctx) (hinf : AllInf c) (Q : Nat → Int) (B : Nat → Bool) (s' : Occ) :
    ∀ (L : List Nat), L.Nodup → (∀ i ∈ L, i < c.n) → ∀ (y : Form) (s : Occ), WF c y → s.length = c.n →
      ∃ u : Occ, u.length = c.n ∧
        (∀ j, Occ.get u j = Occ.get s j - (if j ∈ L then (if B j then Q j else 0) else 0)) ∧
        WF c (L.foldl (fun acc i => if B i then multiplyOp c acc i (Q i) else acc) y) ∧
        ampF c (L.foldl (fun acc i => if B i then multiplyOp c acc i (Q i) else acc) y) s s'
          = ofInt ((L.map fun j => modeAmp c j (Occ.get s j) (if B j then Q j else 0)).prod) * ampF c y u s' := by
  intro L
  induction L with
  | nil =>
    intro _ _ y s hy hs
    exact ⟨s, hs, by simp, hy, by simp [ofInt_one]⟩
  | cons i L ih =>
    intro hnd hlt y s hy hs
    have hi : i < c.n := hlt i (List.mem_cons_self)
    have hiL : i ∉ L := (List.nodup_cons.mp hnd).1
    have hy' := wf_step c y i (Q i) (B i) (hinf i hi) hy
    obtain ⟨u, hul, hug, hwf, hamp⟩ := ih (List.nodup_cons.mp hnd).2
      (fun j hj => hlt j (List.mem_cons_of_mem _ hj)) _ s hy' hs
    refine ⟨Occ.shift u i (-(if B i then Q i else 0)), by simp [hul], ?_, ?_, ?_⟩
    · intro j
      rw [get_shift _ _ _ _ (by rw [hul]; exact hi)]
      by_cases h : j = i
      · subst h
        rw [if_pos rfl, hug, if_neg hiL]; simp; ring
      · rw [if_neg h, hug]
        simp [h]
    · simpa [List.foldl_cons] using hwf
    · rw [List.foldl_cons, hamp, ampF_step c y i (Q i) (B i) u s' hi (hinf i hi) hul hy]
      rw [hug i, if_neg hiL, sub_zero, List.map_cons, List.prod_cons, ofInt_mul]
      ring

/-! ## `_multiply_expr` -/

def replStep (c : Ctx) (t : Term) (acc : Occ) (i : Nat) : Occ :=
  let p := pw t i
  if p == 0 then acc
  else if c.isInf i then (if p > 0 then Occ.shift acc i p else acc)
  else (if p < 0 then Occ.set acc i 0 else Occ.set acc i 1)

def replOcc (c : Ctx) (t : Term) (N : Occ) : Occ := (List.range c.n).foldl (replStep c t) N

def exprTerm (c : Ctx) (e : Occ → GRat) (t : Term) : Term :=
  { t with coeff := fun N => t.coeff N * e (replOcc c t N) }

theorem multiplyExpr_eq (c : Ctx) (x : Form) (e : Occ → GRat) : multiplyExpr c x e = x.map (exprTerm c e) := rfl

/-- undoing the annihilators: the fold of `_multiply_expr` shifts every mode by its positive power -/
theorem repl_fold (c : Ctx) (hinf : AllInf c) (t : Term) :
    ∀ k, k ≤ c.n → ∀ N : Occ, N.length = c.n →
      ((List.range k).foldl (replStep c t) N).length = c.n ∧
      ∀ j, Occ.get ((List.range k).foldl (replStep c t) N) j
        = if j < k then Occ.get N j + max (pw t j) 0 else Occ.get N j := by
  intro k
  induction k with
  | zero => intro _ N hN; exact ⟨hN, by simp⟩
  | succ k ih =>
    intro hk N hN
    obtain ⟨hl, hg⟩ := ih (by omega) N hN
    rw [List.range_succ, List.foldl_append]
    simp only [List.foldl_cons, List.foldl_nil]
    generalize (List.range k).foldl (replStep c t) N = A at hl hg
    have hkinf := hinf k (by omega)
    unfold replStep
    by_cases hp0 : pw t k = 0
    · simp only [hp0, beq_self_eq_true, ↓reduceIte]
      refine ⟨hl, fun j => ?_⟩
      rw [hg j]
      by_cases hj : j < k
      · have : j < k + 1 := by omega
        simp [hj, this]
      · by_cases hjk : j = k
        · subst hjk; simp [hp0]
        · have : ¬ j < k + 1 := by omega
          simp [hj, this]
    · have hb : (pw t k == 0) = false := by simpa using hp0
      simp only [hb, Bool.false_eq_true, ↓reduceIte, hkinf]
      by_cases hpp : pw t k > 0
      · simp only [hpp, ↓reduceIte]
        refine ⟨by simp [hl], fun j => ?_⟩
        rw [get_shift _ _ _ _ (by rw [hl]; omega)]
        by_cases hjk : j = k
        · subst hjk
          rw [if_pos rfl, hg j]
          have : max (pw t j) 0 = pw t j := by omega
          simp [this]
        · rw [if_neg hjk, hg j]
          by_cases hj : j < k
          · have : j < k + 1 := by omega
            simp [hj, this]
          · have : ¬ j < k + 1 := by omega
            simp [hj, this]
      · simp only [hpp, ↓reduceIte]
        refine ⟨hl, fun j => ?_⟩
        rw [hg j]
        by_cases hj : j < k
        · have : j < k + 1 := by omega
          simp [hj, this]
        · by_cases hjk : j = k
          · subst hjk
            have : max (pw t j) 0 = 0 := by omega
            simp [this]
          · have : ¬ j < k + 1 := by omega
            simp [hj, this]

theorem replOcc_mid (c : Ctx) (hinf : AllInf c) (t : Term) (s : Occ) (hs : s.length = c.n) :
    replOcc c t (mid t s) = s := by
  obtain ⟨hl, hg⟩ := repl_fold c hinf t c.n (Nat.le_refl _) (mid t s) (by simp [hs])
  apply occ_ext (by rw [replOcc, hl, hs])
  intro j hj
  have hj' : j < c.n := by rw [replOcc, hl] at hj; exact hj
  rw [replOcc, hg j, if_pos hj', get_mid _ _ _ (by rw [hs]; exact hj')]
  ring

theorem ampF_multiplyExpr (c : Ctx) (hinf : AllInf c) (x : Form) (e : Occ → GRat) (s s' : Occ)
    (hs : s.length = c.n) :
    ampF c (multiplyExpr c x e) s s' = e s * ampF c x s s' := by
  rw [multiplyExpr_eq]
  unfold ampF
  rw [List.map_map, ← List.sum_map_mul_left]
  congr 1
  apply List.map_congr_left
  intro t _
  show ampS c (exprTerm c e t) s s' = e s * ampS c t s s'
  unfold ampS
  have h1 : tgt (exprTerm c e t) s = tgt t s := rfl
  have h2 : annAmp c (exprTerm c e t) s = annAmp c t s := rfl
  have h3 : mid (exprTerm c e t) s = mid t s := rfl
  rw [h1]
  unfold specAmp
  rw [h2, h3]
  show (if tgt t s = s' then ofInt (annAmp c t s) * (t.coeff (mid t s) * e (replOcc c t (mid t s))) else 0) = _
  rw [replOcc_mid c hinf t s hs]
  split <;> ring

/-! ## `__mul__` -/

def mulTerm (c : Ctx) (x : Form) (t : Term) : Form :=
  let idxs := List.range c.n
  let p1 := idxs.foldl (fun acc i => if pw t i < 0 then multiplyOp c acc i (pw t i) else acc) x
  let p2 := multiplyExpr c p1 t.coeff
  idxs.reverse.foldl (fun acc i => if pw t i > 0 then multiplyOp c acc i (pw t i) else acc) p2

theorem mul_eq (c : Ctx) (x y : Form) : mul c x y = y.flatMap (mulTerm c x) := rfl

theorem ampF_flatMap (c : Ctx) (y : Form) (f : Term → Form) (s s' : Occ) :
    ampF c (y.flatMap f) s s' = (y.map fun t => ampF c (f t) s s').sum := by
  unfold ampF
  induction y with
  | nil => simp
  | cons t y ih => simp [List.flatMap_cons, List.sum_append, ih]

theorem prod_range_list (n : Nat) (f : Nat → Int) :
    ((List.range n).reverse.map f).prod = ∏ j ∈ range n, f j := by
  rw [List.map_reverse, List.prod_reverse]
  induction n with
  | zero => simp
  | succ n ih => rw [List.range_succ, List.map_append, List.prod_append, ih, prod_range_succ]; simp

/-- multiplication of a form by one monomial from the right: the monomial acts first -/
theorem ampF_mulTerm (c : Ctx) (hinf : AllInf c) (x : Form) (t : Term) (s s' : Occ) (hx : WF c x)
    (hs : s.length = c.n) :
    ampF c (mulTerm c x t) s s' = specAmp c t s * ampF c x (tgt t s) s' := by
  unfold mulTerm
  -- creators
  have hnd : (List.range c.n).Nodup := List.nodup_range
  have hlt : ∀ i ∈ List.range c.n, i < c.n := fun i hi => List.mem_range.mp hi
  have hndr : (List.range c.n).reverse.Nodup := List.nodup_reverse.mpr hnd
  have hltr : ∀ i ∈ (List.range c.n).reverse, i < c.n := fun i hi => List.mem_range.mp (List.mem_reverse.mp hi)
  -- phase 3 acts first
  have hp1wf : WF c ((List.range c.n).foldl (fun acc i => if pw t i < 0 then multiplyOp c acc i (pw t i) else acc) x) := by
    obtain ⟨_, _, _, hwf, _⟩ := ampF_fold c hinf (fun i => pw t i) (fun i => decide (pw t i < 0)) s'
      (List.range c.n) hnd hlt x s hx hs
    simpa using hwf
  have hp2wf : WF c (multiplyExpr c ((List.range c.n).foldl
      (fun acc i => if pw t i < 0 then multiplyOp c acc i (pw t i) else acc) x) t.coeff) := by
    rw [multiplyExpr_eq]
    intro t0 ht0
    obtain ⟨t1, ht1, rfl⟩ := List.mem_map.mp ht0
    exact hp1wf t1 ht1
  obtain ⟨u3, hu3l, hu3g, _, h3⟩ := ampF_fold c hinf (fun i => pw t i) (fun i => decide (pw t i > 0)) s'
    (List.range c.n).reverse hndr hltr _ s hp2wf hs
  have hu3 : u3 = mid t s := by
    apply occ_ext (by simp [hu3l, hs])
    intro j hj
    have hj' : j < c.n := by rw [← hu3l]; exact hj
    rw [hu3g j, get_mid _ _ _ (by rw [hs]; exact hj')]
    have hm : j ∈ (List.range c.n).reverse := List.mem_reverse.mpr (List.mem_range.mpr hj')
    rw [if_pos hm]
    by_cases hp : pw t j > 0
    · have : max (pw t j) 0 = pw t j := by omega
      simp [hp, this]
    · have : max (pw t j) 0 = 0 := by omega
      simp [hp, this]
  have hA : ((List.range c.n).reverse.map fun j =>
      modeAmp c j (Occ.get s j) (if decide (pw t j > 0) then pw t j else 0)).prod = annAmp c t s := by
    rw [prod_range_list]
    unfold annAmp
    apply prod_congr rfl
    intro j hj
    have hji := hinf j (mem_range.mp hj)
    by_cases hp : pw t j > 0
    · simp [hp]
    · simp only [hp, decide_false, Bool.false_eq_true, ↓reduceIte, modeAmp_zero]
      simp [modeAmp, hp, hji]
  simp only [decide_eq_true_eq] at h3
  rw [h3]
  simp only [decide_eq_true_eq] at hA
  rw [hA, hu3, ampF_multiplyExpr c hinf _ _ _ _ (by simp [hs])]
  -- creators act last
  obtain ⟨u1, hu1l, hu1g, _, h1⟩ := ampF_fold c hinf (fun i => pw t i) (fun i => decide (pw t i < 0)) s'
    (List.range c.n) hnd hlt x (mid t s) hx (by simp [hs])
  have hu1 : u1 = tgt t s := by
    apply occ_ext (by simp [hu1l, hs])
    intro j hj
    have hj' : j < c.n := by rw [← hu1l]; exact hj
    rw [hu1g j, get_mid _ _ _ (by rw [hs]; exact hj'), get_tgt _ _ _ (by rw [hs]; exact hj')]
    rw [if_pos (List.mem_range.mpr hj')]
    by_cases hp : pw t j < 0
    · have : max (pw t j) 0 = 0 := by omega
      simp [hp, this]
    · by_cases hp' : pw t j > 0
      · have : max (pw t j) 0 = pw t j := by omega
        simp [hp, this]
      · have h0 : pw t j = 0 := by omega
        simp [h0]
  have hB : ((List.range c.n).map fun j =>
      modeAmp c j (Occ.get (mid t s) j) (if decide (pw t j < 0) then pw t j else 0)).prod = 1 := by
    apply List.prod_eq_one
    intro a ha
    obtain ⟨j, hj, rfl⟩ := List.mem_map.mp ha
    have hji := hinf j (List.mem_range.mp hj)
    by_cases hp : pw t j < 0
    · have : ¬ pw t j > 0 := by omega
      simp [modeAmp, hp, this, hji]
    · simp [hp, modeAmp_zero]
  simp only [decide_eq_true_eq] at h1 hB
  rw [h1, hB, hu1, ofInt_one, one_mul]
  unfold specAmp
  ring

/-- **C08 (boson/ladder modes)**: the kernel of a product is the composition of the kernels -/
theorem rep_mul (c : Ctx) (hinf : AllInf c) (x y : Form) (s s'' : Occ) (hx : WF c x) (hs : s.length = c.n) :
    ampF c (mul c x y) s s'' = (y.map fun t => specAmp c t s * ampF c x (tgt t s) s'').sum := by
  rw [mul_eq, ampF_flatMap]
  congr 1
  apply List.map_congr_left
  intro t _
  exact ampF_mulTerm c hinf x t s s'' hx hs

end Nof
end Pyma
#print axioms Pyma.Nof.rep_mul
