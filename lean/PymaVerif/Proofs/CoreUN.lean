/-
Uniqueness for the non-Hermitian problem: a pair `(P, G)` with `(1+G)(1+P) = 1`, elimination and the
gauge `Sel (P − G) = 0` is unique.  With `G = P†` this contains the Hermitian solution, which gives
"on Hermitian input the non-Hermitian mode returns the Hermitian result".
-/
import PymaVerif.Proofs.CoreU

namespace Pyma
namespace TheoremUN
open TheoremU
variable {S : Type*} [Ring S] [StarRing S]

structure SolN (c : Ctx S) (P G : S) : Prop where
  memP : P ∈ c.Φ.F 1
  memG : G ∈ c.Φ.F 1
  inv : (1 + G) * (1 + P) = 1
  gauge : c.Sel (P - G) = 0
  elim : (1 + G) * (c.H0 + c.H') * (1 + P) - c.Sel ((1 + G) * (c.H0 + c.H') * (1 + P)) = 0

variable (c : Ctx S) (SS : ∀ x, c.Sel (c.Sel x) = c.Sel x) {P₁ P₂ G₁ G₂ : S}

include SS in
theorem unique (h₁ : SolN c P₁ G₁) (h₂ : SolN c P₂ G₂) : P₁ = P₂ ∧ G₁ = G₂ := by
  have key : ∀ k, (P₁ - P₂ ∈ c.Φ.F (k+1) ∧ G₁ - G₂ ∈ c.Φ.F (k+1)) →
      (P₁ - P₂ ∈ c.Φ.F (k+1+1) ∧ G₁ - G₂ ∈ c.Φ.F (k+1+1)) := by
    rintro k ⟨hδ, hγ⟩
    set δ := P₁ - P₂ with hδdef
    set γ := G₁ - G₂ with hγdef
    -- (i) η = δ + γ
    have u1 : G₁ + P₁ = -(G₁ * P₁) := by
      have := h₁.inv
      calc G₁ + P₁ = (1 + G₁) * (1 + P₁) - 1 - G₁ * P₁ := by noncomm_ring
        _ = _ := by rw [this]; abel
    have u2 : G₂ + P₂ = -(G₂ * P₂) := by
      have := h₂.inv
      calc G₂ + P₂ = (1 + G₂) * (1 + P₂) - 1 - G₂ * P₂ := by noncomm_ring
        _ = _ := by rw [this]; abel
    have hη : δ + γ = -(γ * P₁ + G₂ * δ) := by
      have : δ + γ = (G₁ + P₁) - (G₂ + P₂) := by rw [hδdef, hγdef]; abel
      rw [this, u1, u2, hδdef, hγdef]; noncomm_ring
    have hηmem : δ + γ ∈ c.Φ.F (k+1+1) := by
      rw [hη]
      exact AddSubgroup.neg_mem _ (AddSubgroup.add_mem _ (c.Φ.mul_right_mem hγ h₁.memP)
        (c.Φ.mul_left_mem h₂.memG hδ))
    -- (ii) gauge
    have hνsel : c.Sel (δ - γ) = 0 := by
      have : δ - γ = (P₁ - G₁) - (P₂ - G₂) := by rw [hδdef, hγdef]; abel
      rw [this, map_sub, h₁.gauge, h₂.gauge, sub_zero]
    -- kept part of δ
    have hselδ : c.Sel δ ∈ c.Φ.F (k+1+1) := by
      apply c.two_mem
      have e : 2 * c.Sel δ = c.Sel (δ + γ) + c.Sel (δ - γ) := by
        rw [← map_add, two_mul, ← map_add]; congr 1; abel
      rw [e, hνsel, add_zero]
      exact c.Sel_mem _ _ hηmem
    -- (iii) elimination
    set E₁ := (1 + G₁) * (c.H0 + c.H') * (1 + P₁) with hE1
    set E₂ := (1 + G₂) * (c.H0 + c.H') * (1 + P₂) with hE2
    have hE : E₁ - E₂ = c.Sel (E₁ - E₂) := by
      have a := sub_eq_zero.mp h₁.elim
      have b := sub_eq_zero.mp h₂.elim
      rw [map_sub, ← a, ← b]
    set rest := γ * (c.H' + (c.H0 + c.H') * P₁) + (c.H' * δ + G₂ * (c.H0 + c.H') * δ) with hrest
    have hdec : E₁ - E₂ = (γ * c.H0 + c.H0 * δ) + rest := by
      rw [hE1, hE2, hrest, hδdef, hγdef]; noncomm_ring
    have hrestmem : rest ∈ c.Φ.F (k+1+1) := by
      rw [hrest]
      refine AddSubgroup.add_mem _ ?_ (AddSubgroup.add_mem _ ?_ ?_)
      · refine c.Φ.mul_right_mem hγ (AddSubgroup.add_mem _ c.H'mem ?_)
        exact c.Φ.mul_any_left _ h₁.memP
      · exact c.Φ.mul_left_mem c.H'mem hδ
      · have : G₂ * (c.H0 + c.H') * δ = G₂ * ((c.H0 + c.H') * δ) := by noncomm_ring
        rw [this]
        exact c.Φ.mul_left_mem h₂.memG (c.Φ.mul_any_left _ hδ)
    set comm := c.H0 * δ - δ * c.H0 with hcomm
    set junk := (δ + γ) * c.H0 + rest with hjunk
    have hjunkmem : junk ∈ c.Φ.F (k+1+1) :=
      AddSubgroup.add_mem _ (c.Φ.mul_any_right _ hηmem) hrestmem
    have hcomm_eq : comm = (E₁ - E₂) - junk := by
      rw [hdec, hjunk, hcomm]; noncomm_ring
    -- the eliminated part of δ
    have hremcomm : c.H0 * (δ - c.Sel δ) - (δ - c.Sel δ) * c.H0 ∈ c.Φ.F (k+1+1) := by
      have e : c.H0 * (δ - c.Sel δ) - (δ - c.Sel δ) * c.H0 = comm - c.Sel comm := by
        rw [hcomm, c.H0comm]; noncomm_ring
      have e2 : comm - c.Sel comm = -(junk - c.Sel junk) := by
        rw [hcomm_eq, map_sub, ← hE]; abel
      rw [e, e2]
      exact AddSubgroup.neg_mem _ (AddSubgroup.sub_mem _ hjunkmem (c.Sel_mem _ _ hjunkmem))
    have hremδ : δ - c.Sel δ ∈ c.Φ.F (k+1+1) :=
      c.inj _ _ (by rw [map_sub, SS, sub_self]) hremcomm
    have hδ' : δ ∈ c.Φ.F (k+1+1) := by
      have : δ = (δ - c.Sel δ) + c.Sel δ := by abel
      rw [this]; exact AddSubgroup.add_mem _ hremδ hselδ
    refine ⟨hδ', ?_⟩
    have : γ = (δ + γ) - δ := by abel
    rw [this]; exact AddSubgroup.sub_mem _ hηmem hδ'
  have hall : ∀ k, P₁ - P₂ ∈ c.Φ.F (k+1) ∧ G₁ - G₂ ∈ c.Φ.F (k+1) := by
    intro k
    induction k with
    | zero => exact ⟨AddSubgroup.sub_mem _ h₁.memP h₂.memP, AddSubgroup.sub_mem _ h₁.memG h₂.memG⟩
    | succ k ih => exact key k ih
  have hP : P₁ - P₂ = 0 := c.Φ.sep _ (fun k => by
    cases k with
    | zero => exact c.Φ.top _
    | succ k => exact (hall k).1)
  have hG : G₁ - G₂ = 0 := c.Φ.sep _ (fun k => by
    cases k with
    | zero => exact c.Φ.top _
    | succ k => exact (hall k).2)
  exact ⟨sub_eq_zero.mp hP, sub_eq_zero.mp hG⟩

/-- a Hermitian solution is a solution of the non-Hermitian problem with `G = P†` -/
theorem Sol.toSolN {c : Ctx S} {P : S} (h : Sol c P) : SolN c P (star P) :=
  ⟨h.mem, c.star_mem _ _ h.mem, h.unit, h.gauge, h.elim⟩

end TheoremUN
end Pyma
#print axioms Pyma.TheoremUN.unique
