/-
Naturality at ring level (Theorem D, matrix form): if two environments for the same certified program
are intertwined by an additive, multiplicative, adjoint-preserving map `Φ` on block matrices (inputs,
scope functions and masks commute with `Φ`), then the denotation of every element in the second is the
`Φ`-image of its denotation in the first.  This is the form in which "same algorithm, different
carrier" statements (implicit mode, change of eigenbasis) are instantiated: all obligations are
identities between ordinary matrices.
-/
import PymaVerif.Proofs.Total
import PymaVerif.Proofs.StepSem
import PymaVerif.Proofs.Global

namespace Pyma
namespace Dsl

variable {K : Type} [Field K] [StarRing K] [DecidableEq K] [Thresholds K]
attribute [local instance] Scalar.ofField
variable {B B' : Blocks} {p : Prog} {env env' : Env K}

/-! ## matrices supported on one block -/

theorem SuppM.add {i j : Nat} {X Y : MatK K B} (hX : SuppM B i j X) (hY : SuppM B i j Y) :
    SuppM B i j (X + Y) := by
  intro a b h; simp [Matrix.add_apply, hX a b h, hY a b h]

theorem SuppM.neg {i j : Nat} {X : MatK K B} (hX : SuppM B i j X) : SuppM B i j (-X) := by
  intro a b h; simp [Matrix.neg_apply, hX a b h]

theorem SuppM.sub {i j : Nat} {X Y : MatK K B} (hX : SuppM B i j X) (hY : SuppM B i j Y) :
    SuppM B i j (X - Y) := by
  intro a b h; simp [Matrix.sub_apply, hX a b h, hY a b h]

theorem SuppM.smul {i j : Nat} {X : MatK K B} (k : K) (hX : SuppM B i j X) : SuppM B i j (k • X) := by
  intro a b h; simp [Matrix.smul_apply, hX a b h]

theorem SuppM.zero {i j : Nat} : SuppM B i j (0 : MatK K B) := fun _ _ _ => rfl

theorem SuppM.conjTranspose {i j : Nat} {X : MatK K B} (hX : SuppM B i j X) :
    SuppM B j i X.conjTranspose := by
  intro a b h
  simp only [Matrix.conjTranspose_apply]
  rw [hX b a (fun hh => h ⟨hh.2, hh.1⟩), star_zero]

/-- the value of a certified expression is supported on the block it is evaluated for -/
theorem exprSem_supp (he : EnvOK B env) (S : EnvSem B env)
    (hfn : ∀ f X idx, SuppM B idx.i idx.j X → SuppM B idx.i idx.j (S.fnVal f X idx))
    (c : Cert) (z : Bool) (r : Nat) (idx : Idx) :
    ∀ e, c.exprOK z r e = true → SuppM B idx.i idx.j (exprSem S p idx e) := by
  intro e
  induction e with
  | ser y => intro _; exact mat_suppM he y idx
  | adj y => intro _; exact (mat_suppM he y idx.swap).conjTranspose
  | neg e ih => intro h; exact (ih h).neg
  | add a b iha ihb =>
    intro h
    simp only [Cert.exprOK, Bool.and_eq_true] at h
    exact (iha h.1).add (ihb h.2)
  | sub a b iha ihb =>
    intro h
    simp only [Cert.exprOK, Bool.and_eq_true] at h
    exact (iha h.1).sub (ihb h.2)
  | divInt e k ih => intro h; exact (ih h).smul _
  | callSer f x => intro h; simp [Cert.exprOK] at h
  | callExpr f e ih =>
    intro h
    simp only [Cert.exprOK, Bool.and_eq_true] at h
    exact hfn f _ idx (ih h.2)
  | zero => intro _; exact SuppM.zero
  | ite fl t e iht ihe =>
    intro h
    simp only [Cert.exprOK, Bool.and_eq_true] at h
    simp only [exprSem]
    split
    · exact iht h.1
    · exact ihe h.2

/-- `Φ` intertwines the two environments.  Scope functions and masks need to commute with `Φ` only on
matrices supported on the block in question — all the algorithm ever applies them to. -/
structure Inter (Φ : MatK K B →+ MatK K B') (env env' : Env K) (S : EnvSem B env) (S' : EnvSem B' env') :
    Prop where
  mul : ∀ X Y, Φ (X * Y) = Φ X * Φ Y
  adj : ∀ X, Φ X.conjTranspose = (Φ X).conjTranspose
  /-- only division by integers occurs in the mini-language, so semilinear maps qualify too -/
  smul : ∀ (k : Int) X, Φ (((k : K)⁻¹) • X) = ((k : K)⁻¹) • Φ X
  inputs : env'.inputs = env.inputs
  nblocks : env'.nblocks = env.nblocks
  input : ∀ h idx, sem B' idx (env'.input h idx) = Φ (sem B idx (env.input h idx))
  fn_supp : ∀ f X idx, SuppM B idx.i idx.j X → SuppM B idx.i idx.j (S.fnVal f X idx)
  fnVal : ∀ f X idx, SuppM B idx.i idx.j X → S'.fnVal f (Φ X) idx = Φ (S.fnVal f X idx)
  diag : ∀ X idx, SuppM B idx.i idx.j X → S'.diag (Φ X) idx = Φ (S.diag X idx)
  offdiag : ∀ X idx, SuppM B idx.i idx.j X → S'.offdiag (Φ X) idx = Φ (S.offdiag X idx)
  offdiag_some : env'.offdiag.isSome = env.offdiag.isSome
  flagName : env'.flagName = env.flagName
  flagIdx : env'.flagIdx = env.flagIdx

section
variable (Φ : MatK K B →+ MatK K B') (S : EnvSem B env) (S' : EnvSem B' env') (hΦ : Inter Φ env env' S S')
  (c : Cert)

/-- the statement for one element -/
def Nat' (p : Prog) (env env' : Env K) (Φ : MatK K B →+ MatK K B') (x : String) (idx : Idx) : Prop :=
  mat B' p env' x idx = Φ (mat B p env x idx)

include hΦ in
theorem evalFlag_inter (idx : Idx) (fl : Flag) : evalFlag env' idx fl = evalFlag env idx fl := by
  cases fl <;> simp [evalFlag, hΦ.flagName, hΦ.flagIdx]

include hΦ in
theorem expr_nat (he : EnvOK B env) (z : Bool) (r : Nat) (idx : Idx)
    (hrefs : ∀ y, c.refOK z r y = true → ∀ idx' : Idx, idx'.n = idx.n → Nat' p env env' Φ y idx') :
    ∀ e, c.exprOK z r e = true → exprSem S' p idx e = Φ (exprSem S p idx e) := by
  intro e
  induction e with
  | ser y => intro h; exact hrefs y h idx rfl
  | adj y =>
    intro h
    simp only [exprSem]
    rw [hrefs y h idx.swap rfl, hΦ.adj]
  | neg e ih => intro h; simp only [exprSem, ih h, map_neg]
  | add a b iha ihb =>
    intro h
    simp only [Cert.exprOK, Bool.and_eq_true] at h
    simp only [exprSem, iha h.1, ihb h.2, map_add]
  | sub a b iha ihb =>
    intro h
    simp only [Cert.exprOK, Bool.and_eq_true] at h
    simp only [exprSem, iha h.1, ihb h.2, map_sub]
  | divInt e k ih => intro h; simp only [exprSem, ih h, hΦ.smul]
  | callSer f x => intro h; simp [Cert.exprOK] at h
  | callExpr f e ih =>
    intro h
    simp only [Cert.exprOK, Bool.and_eq_true] at h
    simp only [exprSem, ih h.2]
    exact hΦ.fnVal f _ idx (exprSem_supp he S hΦ.fn_supp c z r idx e h.2)
  | zero => intro _; simp [exprSem]
  | ite fl t e iht ihe =>
    intro h
    simp only [Cert.exprOK, Bool.and_eq_true] at h
    simp only [exprSem, evalFlag_inter Φ S S' hΦ, iht h.1, ihe h.2]
    split <;> rfl

include hΦ in
theorem body_nat (self : String) (idx : Idx)
    (hself : idx.i > idx.j → Nat' p env env' Φ self idx.swap) :
    ∀ (body : List Stmt),
      (∀ cd e, Stmt.clause cd e ∈ body → exprSem S' p idx e = Φ (exprSem S p idx e) ∧
        SuppM B idx.i idx.j (exprSem S p idx e)) →
      ∀ acc, bodySem S' p self idx body (Φ acc) = Φ (bodySem S p self idx body acc) := by
  intro body
  induction body with
  | nil => intro _ acc; rfl
  | cons st rest ih =>
    intro hE acc
    have hrest := fun cd e hm => hE cd e (List.mem_cons_of_mem _ hm)
    cases st with
    | marker anti =>
      simp only [bodySem]
      by_cases hlow : idx.i > idx.j
      · simp only [hlow, ↓reduceIte]
        rw [hself hlow]
        cases anti <;> simp [hΦ.adj, map_add, map_neg]
      · simp only [hlow, ↓reduceIte]; exact ih hrest acc
    | clause cd e =>
      have he := hE cd e (List.mem_cons_self)
      cases cd with
      | default => simp only [bodySem, he.1, ← map_add]; exact ih hrest _
      | diagonal =>
        simp only [bodySem]
        by_cases hd : (idx.i == idx.j) = true
        · simp only [hd, ↓reduceIte, he.1]
          rw [hΦ.diag _ idx he.2, ← map_add]; exact ih hrest _
        · simp only [hd, Bool.false_eq_true, ↓reduceIte]; exact ih hrest _
      | offdiagonal =>
        simp only [bodySem]
        by_cases hd : (idx.i != idx.j) = true
        · simp only [hd, ↓reduceIte, he.1, ← map_add]; exact ih hrest _
        · simp only [hd, Bool.false_eq_true, ↓reduceIte]
          have hs := hΦ.offdiag_some
          cases ho : env.offdiag with
          | none =>
            rw [ho] at hs
            have ho' : env'.offdiag = none := by
              cases h' : env'.offdiag with
              | none => rfl
              | some _ => rw [h'] at hs; cases hs
            simp only [ho']; exact ih hrest _
          | some od =>
            rw [ho] at hs
            obtain ⟨od', ho'⟩ : ∃ od', env'.offdiag = some od' := by
              cases h' : env'.offdiag with
              | none => rw [h'] at hs; cases hs
              | some od' => exact ⟨od', rfl⟩
            simp only [ho', he.1]
            rw [hΦ.offdiag _ idx he.2, ← map_add]; exact ih hrest _
      | lower =>
        simp only [bodySem]
        by_cases hlow : idx.i > idx.j
        · simp only [hlow, ↓reduceIte, he.1, map_add]
        · simp only [hlow, ↓reduceIte]; exact ih hrest _

end

section main
variable (Φ : MatK K B →+ MatK K B') (S : EnvSem B env) (S' : EnvSem B' env') (hΦ : Inter Φ env env' S S')
  (c : Cert) (hc : c.ok p = true) (he : EnvOK B env) (he' : EnvOK B' env')
  (het : EnvTot c env) (het' : EnvTot c env')
  /- the block identities need to correspond only if a certified series starts with `one` -/
  (hone : (∃ x ∈ c.names, ∃ d, kindI p c.inputs x = .series d ∧ d.start = .one) → ∀ i, Φ (blockId B i) = blockId B' i)

include hc he het in
/-- the denotation of a certified element, with its order-zero vanishing -/
theorem mat_facts (x : String) (hx : x ∈ c.names) (idx : Idx) :
    mat B p env x idx = elemSem S p x idx ∧
      (c.z0 x = true → idx.isOrderZero = true → mat B p env x idx = 0) := by
  obtain ⟨v, hv, _, hz⟩ := total hc het (deg idx.n) x hx idx rfl
  refine ⟨Den.sat he S hv, fun h1 h2 => ?_⟩
  rw [mat, den_eq hv, hz h1 h2]; rfl

include hΦ hc he he' het het' hone in
/-- **Theorem D, ring level** -/
theorem sem_natural : ∀ t, ∀ x ∈ c.names, ∀ idx : Idx, deg idx.n = t → Nat' p env env' Φ x idx := by
  intro t
  induction t using Nat.strongRecOn with
  | _ t IHt =>
  suffices inner : ∀ r, ∀ x ∈ c.names, c.rk (decide (t = 0)) x = r → ∀ idx : Idx, deg idx.n = t →
      Nat' p env env' Φ x idx from fun x hx idx hd => inner _ x hx rfl idx hd
  intro r
  induction r using Nat.strongRecOn with
  | _ r IHr =>
  intro x hx hrk
  have hok : c.nameOK p x = true := List.all_eq_true.mp hc x hx
  have hrefs : ∀ y, c.refOK (decide (t = 0)) r y = true → ∀ idx' : Idx, deg idx'.n = t →
      Nat' p env env' Φ y idx' := by
    intro y hy idx' hd
    simp only [Cert.refOK, Bool.and_eq_true, List.contains_iff_mem, decide_eq_true_eq] at hy
    exact IHr _ hy.2 y hy.1.1 rfl idx' hd
  have hkind : kindOf p env' x = kindOf p env x := by
    unfold kindOf; rw [hΦ.inputs]
  unfold Cert.nameOK at hok
  split at hok
  · -- input
    rename_i hk
    intro idx _
    have hk1 : kindOf p env x = .input := by rw [kindOf_eq_kindI het.inputs]; exact hk
    unfold Nat'
    rw [(mat_facts S c hc he het x hx idx).1, (mat_facts S' c hc he' het' x hx idx).1]
    simp only [elemSem, hkind, hk1]
    exact hΦ.input x idx
  · -- series
    rename_i d hk
    have hk1 : kindOf p env x = .series d := by rw [kindOf_eq_kindI het.inputs]; exact hk
    simp only [Cert.seriesOK, Bool.and_eq_true, Bool.or_eq_true, beq_iff_eq, Bool.not_eq_true'] at hok
    obtain ⟨hname, ⟨⟨⟨hT, h0⟩, _⟩, _⟩, _⟩ := hok
    subst hname
    have series_goal : ∀ idx : Idx, deg idx.n = t →
        (idx.i > idx.j → Nat' p env env' Φ d.name idx.swap) → Nat' p env env' Φ d.name idx := by
      intro idx hd hsw
      unfold Nat'
      rw [(mat_facts S c hc he het d.name hx idx).1, (mat_facts S' c hc he' het' d.name hx idx).1]
      simp only [elemSem, hkind, hk1]
      -- the start values correspond
      have hstart : ∀ st : Start, st = d.start → (startVal env' st idx).map (sem B' idx)
          = (startVal env st idx).map (fun v => Φ (sem B idx v)) := by
        intro st hst
        unfold startVal
        split
        · cases st with
          | none => rfl
          | zero => simp [sem]
          | one => simp only; split <;> simp [sem, hone ⟨d.name, hx, d, hk, hst.symm⟩]
          | input h => simp [hΦ.input]
        · rfl
      cases hs : startVal env d.start idx with
      | some v =>
        have h1 := hstart d.start rfl
        rw [hs] at h1
        cases hs' : startVal env' d.start idx with
        | none => rw [hs'] at h1; cases h1
        | some v' =>
          rw [hs'] at h1
          simp only [Option.map_some, Option.some.injEq] at h1
          simpa using h1
      | none =>
        have h1 := hstart d.start rfl
        rw [hs] at h1
        cases hs' : startVal env' d.start idx with
        | some v' => rw [hs'] at h1; cases h1
        | none =>
          simp only
          have hstm : d.body.all (c.stmtOK (decide (t = 0)) r) = true := by
            by_cases ht : t = 0
            · have hoz : idx.isOrderZero = true := (isOrderZero_iff idx).mpr (by omega)
              have := startVal_none_pinned hs hoz
              rw [this] at h0
              simp only [ht, decide_true, Cert.rk, if_true] at hrk ⊢
              rw [← hrk]; simpa using h0
            · simp only [ht, decide_false, Cert.rk] at hrk ⊢
              rw [← hrk]; simpa using hT
          have hE : ∀ cd e, Stmt.clause cd e ∈ d.body → exprSem S' p idx e = Φ (exprSem S p idx e) ∧
              SuppM B idx.i idx.j (exprSem S p idx e) := by
            intro cd e hm
            have := List.all_eq_true.mp hstm _ hm
            exact ⟨expr_nat Φ S S' hΦ c he _ r idx
              (fun y hy idx' hn => hrefs y hy idx' (by rw [hn]; exact hd)) e this,
              exprSem_supp he S hΦ.fn_supp c _ r idx e this⟩
          have := body_nat Φ S S' hΦ d.name idx hsw d.body hE 0
          rw [map_zero] at this
          exact this
    have upper : ∀ idx : Idx, deg idx.n = t → ¬ idx.i > idx.j → Nat' p env env' Φ d.name idx :=
      fun idx hd hn => series_goal idx hd (fun h => absurd h hn)
    intro idx hd
    exact series_goal idx hd (fun h => upper idx.swap hd (by simp only [Idx.swap]; omega))
  · -- product
    rename_i a b hk
    have hk1 : kindOf p env x = .product a b := by rw [kindOf_eq_kindI het.inputs]; exact hk
    simp only [Cert.productOK, Bool.and_eq_true, List.contains_iff_mem, Bool.not_eq_true',
      decide_eq_true_eq] at hok
    obtain ⟨⟨⟨⟨⟨⟨⟨ha, hb⟩, _⟩, _⟩, hza⟩, hzb⟩, _⟩, _⟩ := hok
    intro idx hd
    unfold Nat'
    rw [(mat_facts S c hc he het x hx idx).1, (mat_facts S' c hc he' het' x hx idx).1]
    simp only [elemSem, hkind, hk1, pairSum, hΦ.nblocks]
    rw [map_list_sum, List.map_map]
    congr 1
    apply List.map_congr_left
    intro tr htr
    simp only [Function.comp]
    have hsum := splits_deg (mem_pairsOf htr)
    rw [hΦ.mul]
    by_cases h1 : deg tr.2.1 = 0
    · -- the left factor vanishes at order zero in both environments
      have e1 := (mat_facts S c hc he het a ha ⟨idx.i, tr.1, tr.2.1⟩).2 hza ((isOrderZero_iff _).mpr h1)
      have e2 := (mat_facts S' c hc he' het' a ha ⟨idx.i, tr.1, tr.2.1⟩).2 hza ((isOrderZero_iff _).mpr h1)
      rw [e1, e2, map_zero, zero_mul, zero_mul]
    · by_cases h2 : deg tr.2.2 = 0
      · have e1 := (mat_facts S c hc he het b hb ⟨tr.1, idx.j, tr.2.2⟩).2 hzb ((isOrderZero_iff _).mpr h2)
        have e2 := (mat_facts S' c hc he' het' b hb ⟨tr.1, idx.j, tr.2.2⟩).2 hzb ((isOrderZero_iff _).mpr h2)
        rw [e1, e2, map_zero, mul_zero, mul_zero]
      · have ia : Nat' p env env' Φ a ⟨idx.i, tr.1, tr.2.1⟩ := IHt (deg tr.2.1) (by omega) a ha _ rfl
        have ib : Nat' p env env' Φ b ⟨tr.1, idx.j, tr.2.2⟩ := IHt (deg tr.2.2) (by omega) b hb _ rfl
        unfold Nat' at ia ib
        rw [ia, ib]
  · simp at hok

end main

end Dsl
end Pyma
#print axioms Pyma.Dsl.sem_natural
