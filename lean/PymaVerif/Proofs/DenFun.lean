/-
The denotation as a (classical) function, and the meaning of a product element as a plain
Cauchy sum — for every program.
-/
import PymaVerif.Proofs.DslDet
import PymaVerif.Proofs.Sem

namespace Pyma
namespace Dsl

variable {K : Type} [Field K] [StarRing K] [DecidableEq K] [Thresholds K]
attribute [local instance] Scalar.ofField

open Classical in
/-- the value an element denotes; the `zero` sentinel where nothing is derivable -/
noncomputable def den (p : Prog) (env : Env K) (x : String) (idx : Idx) : SVal K :=
  if h : ∃ v, Den p env x idx v then Classical.choose h else .zero

theorem den_eq {p : Prog} {env : Env K} {x : String} {idx : Idx} {v : SVal K}
    (h : Den p env x idx v) : den p env x idx = v := by
  have hex : ∃ v, Den p env x idx v := ⟨v, h⟩
  simp only [den, hex, ↓reduceDIte]
  exact Holds.det (Classical.choose_spec hex) _ h

theorem den_spec {p : Prog} {env : Env K} {x : String} {idx : Idx}
    (h : ∃ v, Den p env x idx v) : Den p env x idx (den p env x idx) := by
  obtain ⟨v, hv⟩ := h
  rw [den_eq hv]; exact hv

variable {B : Blocks}

/-- matrix meaning of an element -/
noncomputable def mat (B : Blocks) (p : Prog) (env : Env K) (x : String) (idx : Idx) : MatK K B :=
  sem B idx (den p env x idx)

theorem sem_zero_of_isZeroS {idx : Idx} {v : SVal K} (h : v.isZeroS = true) : sem B idx v = 0 := by
  cases v <;> simp [SVal.isZeroS] at h
  rfl

/-- the contributions of a list of (middle, left order, right order) triples -/
noncomputable def pairSum (B : Blocks) (p : Prog) (env : Env K) (a b : String) (i j : Nat)
    (ps : List (Nat × List Nat × List Nat)) : MatK K B :=
  (ps.map fun t => mat B p env a ⟨i, t.1, t.2.1⟩ * mat B p env b ⟨t.1, j, t.2.2⟩).sum

/-- what the invariant says about a `pairs` judgement -/
def PairsJ (B : Blocks) (p : Prog) (env : Env K) : J K → SVal K → Prop
  | .pairs a b idx ps acc, r => Supp B idx acc →
      sem B idx r = sem B idx acc + pairSum B p env a b idx.i idx.j ps
  | _, _ => True

theorem Holds.pairs_sem {p : Prog} {env : Env K} (he : EnvOK B env) {j : J K} {v : SVal K}
    (h : Holds p env j v) : PairsJ B p env j v := by
  induction h with
  | pnil => intro _; simp [pairSum]
  | leftZero _ hl hz _ _ ihr =>
    intro hacc
    rw [ihr hacc]
    simp only [pairSum, List.map_cons, List.sum_cons, mat]
    rw [den_eq hl, sem_zero_of_isZeroS hz, zero_mul, zero_add]
  | leftThenRightZero _ _ _ hr hzr _ _ _ ihr =>
    intro hacc
    rw [ihr hacc]
    simp only [pairSum, List.map_cons, List.sum_cons, mat]
    rw [den_eq hr, sem_zero_of_isZeroS hzr, mul_zero, zero_add]
  | rightZero _ hr hzr _ _ ihr =>
    intro hacc
    rw [ihr hacc]
    simp only [pairSum, List.map_cons, List.sum_cons, mat]
    rw [den_eq hr, sem_zero_of_isZeroS hzr, mul_zero, zero_add]
  | rightThenLeftZero _ _ _ hl hz _ _ _ ihr =>
    intro hacc
    rw [ihr hacc]
    simp only [pairSum, List.map_cons, List.sum_cons, mat]
    rw [den_eq hl, sem_zero_of_isZeroS hz, zero_mul, zero_add]
  | @both a b idx m na nb rest acc acc' r l rr hl hz hr hzr hv _ _ _ ihr =>
    intro hacc
    have hsl : Supp B ⟨idx.i, m, na⟩ l := Holds.supp he hl
    have hsr : Supp B ⟨m, idx.j, nb⟩ rr := Holds.supp he hr
    have hsm : Supp B idx (vmul l rr) := supp_vmul (n := idx.n) hsl hsr hz hzr
    rw [ihr (supp_vadd hacc hsm hv), sem_vadd hacc hsm hv, sem_vmul (n := idx.n) hsl hsr hz hzr]
    simp only [pairSum, List.map_cons, List.sum_cons, mat]
    rw [den_eq hl, den_eq hr, add_assoc]
  | _ => trivial

end Dsl
end Pyma
#print axioms Pyma.Dsl.Holds.pairs_sem
