/-
Relational (big-step) reference semantics of the mini-language and soundness of the executable
evaluator `Dsl.getElem` with respect to it.  Core Lean + Std only.
-/
import PymaVerif.Model.Dsl

namespace Pyma
namespace Dsl

variable {K : Type} [Scalar K]

/-- what is being evaluated (the inputs of a judgement) -/
inductive J (K : Type) where
  | elem (x : String) (idx : Idx)
  | expr (e : Expr) (idx : Idx)
  | body (self : String) (idx : Idx) (stmts : List Stmt) (acc : SVal K)
  | pairs (a b : String) (idx : Idx) (ps : List (Nat × List Nat × List Nat)) (acc : SVal K)

/-- big-step evaluation judgement `j ⇓ v` -/
inductive Holds (p : Prog) (env : Env K) : J K → SVal K → Prop where
  | ser {x idx v} : Holds p env (.elem x idx) v → Holds p env (.expr (.ser x) idx) v
  | adj {x idx v} : Holds p env (.elem x (idx.swap)) v → Holds p env (.expr (.adj x) idx) (vadj v)
  | neg {e idx v w} : Holds p env (.expr e idx) v → vneg v = .ok w → Holds p env (.expr (.neg e) idx) w
  | add {a b idx x y w} : Holds p env (.expr a idx) x → Holds p env (.expr b idx) y → vadd x y = .ok w →
      Holds p env (.expr (.add a b) idx) w
  | sub {a b idx x y w} : Holds p env (.expr a idx) x → Holds p env (.expr b idx) y →
      vsub x y = .ok w → Holds p env (.expr (.sub a b) idx) w
  | divInt {e k idx v w} : Holds p env (.expr e idx) v → vdiv v k = .ok w → Holds p env (.expr (.divInt e k) idx) w
  | callSer {f x idx w} : env.fn f (.inl x) idx = .ok w → Holds p env (.expr (.callSer f x) idx) w
  | callExpr {f e idx v w} : Holds p env (.expr e idx) v → env.fn f (.inr v) idx = .ok w →
      Holds p env (.expr (.callExpr f e) idx) w
  | zero {idx} : Holds p env (.expr .zero idx) .zero
  | iteT {fl t e idx v} : evalFlag env idx fl = true → Holds p env (.expr t idx) v → Holds p env (.expr (.ite fl t e) idx) v
  | iteF {fl t e idx v} : evalFlag env idx fl = false → Holds p env (.expr e idx) v → Holds p env (.expr (.ite fl t e) idx) v
  | bnil {self idx acc} : Holds p env (.body self idx [] acc) acc
  | markerHit {self idx anti rest acc v r} : idx.i > idx.j → Holds p env (.elem self (idx.swap)) v →
      markerVal anti acc v = .ok r →
      Holds p env (.body self idx (.marker anti :: rest) acc) r
  | markerMiss {self idx anti rest acc r} : ¬ idx.i > idx.j → Holds p env (.body self idx rest acc) r →
      Holds p env (.body self idx (.marker anti :: rest) acc) r
  | lowerHit {self idx e rest acc v r} : idx.i > idx.j → Holds p env (.expr e idx) v → vadd acc v = .ok r →
      Holds p env (.body self idx (.clause .lower e :: rest) acc) r
  | lowerMiss {self idx e rest acc r} : ¬ idx.i > idx.j → Holds p env (.body self idx rest acc) r →
      Holds p env (.body self idx (.clause .lower e :: rest) acc) r
  | diagHit {self idx e rest acc v acc' r} : (idx.i == idx.j) = true → Holds p env (.expr e idx) v →
      vadd acc (env.diag v idx) = .ok acc' → Holds p env (.body self idx rest acc') r →
      Holds p env (.body self idx (.clause .diagonal e :: rest) acc) r
  | diagMiss {self idx e rest acc r} : (idx.i == idx.j) = false → Holds p env (.body self idx rest acc) r →
      Holds p env (.body self idx (.clause .diagonal e :: rest) acc) r
  | offHit {self idx e rest acc v acc' r} : (idx.i != idx.j) = true → Holds p env (.expr e idx) v →
      vadd acc v = .ok acc' → Holds p env (.body self idx rest acc') r →
      Holds p env (.body self idx (.clause .offdiagonal e :: rest) acc) r
  | offWrap {self idx e rest acc v acc' r od} : (idx.i != idx.j) = false → env.offdiag = some od →
      Holds p env (.expr e idx) v → vadd acc (od v idx) = .ok acc' → Holds p env (.body self idx rest acc') r →
      Holds p env (.body self idx (.clause .offdiagonal e :: rest) acc) r
  | offSkip {self idx e rest acc r} : (idx.i != idx.j) = false → env.offdiag = none →
      Holds p env (.body self idx rest acc) r → Holds p env (.body self idx (.clause .offdiagonal e :: rest) acc) r
  | default {self idx e rest acc v acc' r} : Holds p env (.expr e idx) v → vadd acc v = .ok acc' →
      Holds p env (.body self idx rest acc') r → Holds p env (.body self idx (.clause .default e :: rest) acc) r
  | pnil {a b idx acc} : Holds p env (.pairs a b idx [] acc) acc
  | leftZero {a b idx m na nb rest acc r l} : cost na ≤ cost nb → Holds p env (.elem a ⟨idx.i, m, na⟩) l →
      l.isZeroS = true → Holds p env (.pairs a b idx rest acc) r → Holds p env (.pairs a b idx ((m, na, nb) :: rest) acc) r
  | leftThenRightZero {a b idx m na nb rest acc r l rr} : cost na ≤ cost nb →
      Holds p env (.elem a ⟨idx.i, m, na⟩) l → l.isZeroS = false → Holds p env (.elem b ⟨m, idx.j, nb⟩) rr →
      rr.isZeroS = true → Holds p env (.pairs a b idx rest acc) r → Holds p env (.pairs a b idx ((m, na, nb) :: rest) acc) r
  | rightZero {a b idx m na nb rest acc r rr} : ¬ cost na ≤ cost nb → Holds p env (.elem b ⟨m, idx.j, nb⟩) rr →
      rr.isZeroS = true → Holds p env (.pairs a b idx rest acc) r → Holds p env (.pairs a b idx ((m, na, nb) :: rest) acc) r
  | rightThenLeftZero {a b idx m na nb rest acc r l rr} : ¬ cost na ≤ cost nb →
      Holds p env (.elem b ⟨m, idx.j, nb⟩) rr → rr.isZeroS = false → Holds p env (.elem a ⟨idx.i, m, na⟩) l →
      l.isZeroS = true → Holds p env (.pairs a b idx rest acc) r → Holds p env (.pairs a b idx ((m, na, nb) :: rest) acc) r
  | both {a b idx m na nb rest acc acc' r l rr} : Holds p env (.elem a ⟨idx.i, m, na⟩) l → l.isZeroS = false →
      Holds p env (.elem b ⟨m, idx.j, nb⟩) rr → rr.isZeroS = false → vadd acc (vmul l rr) = .ok acc' →
      Holds p env (.pairs a b idx rest acc') r → Holds p env (.pairs a b idx ((m, na, nb) :: rest) acc) r
  | input {x idx} : kindOf p env x = .input → Holds p env (.elem x idx) (env.input x idx)
  | pinned {x d idx v} : kindOf p env x = .series d → startVal env d.start idx = some v →
      Holds p env (.elem x idx) v
  | body {x d idx v} : kindOf p env x = .series d → startVal env d.start idx = none →
      Holds p env (.body x idx d.body .zero) v → Holds p env (.elem x idx) v
  | product {x a b idx v} : kindOf p env x = .product a b →
      Holds p env (.pairs a b idx (pairsOf env.nblocks idx.n) .zero) v → Holds p env (.elem x idx) v

abbrev Den (p : Prog) (env : Env K) (x : String) (idx : Idx) (v : SVal K) : Prop := Holds p env (.elem x idx) v
abbrev DenE (p : Prog) (env : Env K) (e : Expr) (idx : Idx) (v : SVal K) : Prop := Holds p env (.expr e idx) v
abbrev DenB (p : Prog) (env : Env K) (self : String) (idx : Idx) (st : List Stmt) (acc r : SVal K) : Prop :=
  Holds p env (.body self idx st acc) r
abbrev DenP (p : Prog) (env : Env K) (a b : String) (idx : Idx) (ps : List (Nat × List Nat × List Nat))
    (acc r : SVal K) : Prop := Holds p env (.pairs a b idx ps acc) r


end Dsl
end Pyma
