/-
Entry-level equations of `main` (continued).
-/
import PymaVerif.Proofs.MainBlock2

namespace Pyma
namespace BlockDiag
open Dsl Generated
namespace Problem

variable {K : Type} [Field K] [StarRing K] [DecidableEq K] [Thresholds K]
attribute [local instance] Scalar.ofField
variable (p : Problem K) (hwf : p.WF)

include hwf in
theorem g_Hd (htot : p.Total) (n : List Nat) (hn : (n.all (· == 0)) = false) (a b : Fin p.d) :
    p.g "H'_diag" n a b = if p.keptE a.val b.val then p.g "H" n a b else 0 := by
  main_step p, hwf, htot, "H'_diag", find_Hd, def_Hd, hn
  by_cases hab : p.blk a.val = p.blk b.val
  · have hbeq : (p.blk a.val == p.blk b.val) = true := by simp [hab]
    simp only [hbeq, ↓reduceIte, Matrix.add_apply, Matrix.zero_apply, zero_add,
      p.diag_entry hwf _ _ _ _ a b rfl, keptE, Bool.true_and]
    cases p.elimIn a.val b.val <;> simp <;> rfl
  · have hbeq : (p.blk a.val == p.blk b.val) = false := by simp [hab]
    simp [hbeq, keptE]

include hwf in
theorem g_Ho (htot : p.Total) (n : List Nat) (hn : (n.all (· == 0)) = false) (a b : Fin p.d) :
    p.g "H'_offdiag" n a b = if p.keptE a.val b.val then 0 else p.g "H" n a b := by
  main_step p, hwf, htot, "H'_offdiag", find_Ho, def_Ho, hn
  by_cases hab : p.blk a.val = p.blk b.val
  · have hbne : (p.blk a.val != p.blk b.val) = false := by simp [hab]
    simp only [hbne, Bool.false_eq_true, ↓reduceIte, p.env_offdiag]
    by_cases hfd : fdIsEmpty p.fdEff = true
    · have hk : p.keptE a.val b.val = true := by simp [keptE, hab, p.elimIn_false_of_empty hfd]
      simp [hfd, hk]
    · have hbeq : (p.blk a.val == p.blk b.val) = true := by simp [hab]
      simp only [hfd, Bool.false_eq_true, ↓reduceIte, Matrix.add_apply, Matrix.zero_apply, zero_add,
        p.offdiag_entry hwf _ _ _ _ a b rfl, keptE, hbeq, Bool.true_and]
      cases p.elimIn a.val b.val <;> simp <;> rfl
  · have hbne : (p.blk a.val != p.blk b.val) = true := by simp [hab]
    have hkk : p.keptE a.val b.val = false := by simp [keptE, hab]
    simp only [hbne, ↓reduceIte, hkk, Bool.false_eq_true, Matrix.add_apply, Matrix.zero_apply, zero_add]
    rfl

include hwf in
theorem g_Ht (htot : p.Total) (n : List Nat) (hn : (n.all (· == 0)) = false) (a b : Fin p.d) :
    p.g "H_tilde" n a b =
      if p.keptE a.val b.val then
        p.g "H'_diag" n a b
          + ((2 : ℤ) : K)⁻¹ * (p.g "H'_offdiag @ U'" n a b + star (p.g "H'_offdiag @ U'" n b a))
          + ((-2 : ℤ) : K)⁻¹ * (p.g "U'† @ B" n a b + star (p.g "U'† @ B" n b a))
          - p.g "Yadj" n a b
      else 0 := by
  main_step p, hwf, htot, "H_tilde", find_Ht, def_Ht, hn
  by_cases hab : p.blk a.val = p.blk b.val
  · have hbeq : (p.blk a.val == p.blk b.val) = true := by simp [hab]
    simp only [hbeq, ↓reduceIte, Matrix.add_apply, Matrix.zero_apply, zero_add,
      p.diag_entry hwf _ _ _ _ a b rfl, keptE, Bool.true_and]
    cases p.elimIn a.val b.val
    · simp only [Bool.false_eq_true, ↓reduceIte, Bool.not_false, Matrix.sub_apply, Matrix.add_apply,
        Matrix.smul_apply, smul_eq_mul]
      rfl
    · simp
  · have hbeq : (p.blk a.val == p.blk b.val) = false := by simp [hab]
    simp [hbeq, keptE]

include hwf in
theorem g_U (htot : p.Total) (n : List Nat) (hn : (n.all (· == 0)) = false) :
    p.g "U" n = p.g "U'" n := by
  ext a b
  main_step p, hwf, htot, "U", find_U, def_U, hn
  simp [mat_at]

include hwf in
theorem g_Ud (htot : p.Total) (n : List Nat) (hn : (n.all (· == 0)) = false) :
    p.g "U†" n = p.g "U'†" n := by
  ext a b
  main_step p, hwf, htot, "U†", find_Ud, def_Ud, hn
  simp [mat_at]

end Problem
end BlockDiag
end Pyma
