/-
Entry-level equations of the translated `main` on a `BlockDiag.Problem`: what each series is at
order ≠ 0, as a function of the global coefficients `G` of the series it refers to.
-/
import PymaVerif.Proofs.MainBodies
import PymaVerif.Proofs.Global
import PymaVerif.Proofs.BlockDiagSem

namespace Pyma
namespace BlockDiag
open Dsl Generated
namespace Problem

variable {K : Type} [Field K] [StarRing K] [DecidableEq K] [Thresholds K]
attribute [local instance] Scalar.ofField
variable (p : Problem K) (hwf : p.WF)

/-- everything is derivable (to be discharged by the totality theorem) -/
def mainNames : List String :=
  ["H", "H'_diag", "H'_offdiag", "V", "W", "Yadj", "U'", "U", "U'†", "U†", "X", "B", "H_tilde",
   "U'† @ U'", "H'_diag @ U'", "H'_offdiag @ U'", "U'† @ B", "V @ H'_diag"]

def Total : Prop := ∀ x ∈ mainNames, ∀ idx, ∃ v, Den main p.env x idx v

/-- global coefficient of a series of `main` -/
noncomputable abbrev g (x : String) (n : List Nat) : MatK K p.blocks := G p.blocks main p.env x n

theorem inputs_contains (x : String) (hx : x ≠ "H") : p.env.inputs.contains x = false := by
  simp [env, hx]

/-- the one-step equation at the block of an entry -/
theorem g_entry (htot : p.Total) (x : String) (hx : x ∈ mainNames) (n : List Nat) (a b : Fin p.d) :
    p.g x n a b = elemSem (p.envSem hwf) main x ⟨p.blk a.val, p.blk b.val, n⟩ a b := by
  obtain ⟨v, hv⟩ := htot x hx ⟨p.blk a.val, p.blk b.val, n⟩
  show mat p.blocks main p.env x ⟨p.blk a.val, p.blk b.val, n⟩ a b = _
  rw [Den.sat (p.envOK hwf) (p.envSem hwf) hv]

theorem mat_at (x : String) (n : List Nat) (a b : Fin p.d) :
    mat p.blocks main p.env x ⟨p.blk a.val, p.blk b.val, n⟩ a b = p.g x n a b := rfl

theorem mat_swap_at (x : String) (n : List Nat) (a b : Fin p.d) :
    (mat p.blocks main p.env x (Idx.swap ⟨p.blk a.val, p.blk b.val, n⟩)).conjTranspose a b
      = (p.g x n).conjTranspose a b := rfl

/-- the entry `(a,b)` lies in a selected diagonal block and is marked for elimination -/
def elimIn (a b : Nat) : Bool := p.selected (p.blk a) && p.elim a b

/-- kept entries: same block and not eliminated -/
def keptE (a b : Nat) : Bool := p.blk a == p.blk b && !p.elimIn a b

theorem selected_false_of_empty (h : fdIsEmpty p.fdEff = true) (i : Nat) : p.selected i = false := by
  unfold selected
  cases hfd : p.fdEff with
  | none => rfl
  | tuple l => simp [fdIsEmpty, hfd] at h; simp [h]
  | dict l => simp [fdIsEmpty, hfd] at h; simp [h]

theorem diag_entry (M : MatK K p.blocks) (i j : Nat) (n : List Nat) (a b : Fin p.d) (hi : p.blk a.val = i) :
    (p.envSem hwf).diag M ⟨i, j, n⟩ a b = if p.elimIn a.val b.val then 0 else M a b := by
  simp only [envSem, elimIn, ← hi]
  by_cases hs : p.selected (p.blk a.val) = true
  · by_cases he : p.elim a.val b.val = true <;> simp [hs, he, hadamard]
  · simp [hs]

theorem offdiag_entry (M : MatK K p.blocks) (i j : Nat) (n : List Nat) (a b : Fin p.d) (hi : p.blk a.val = i) :
    (p.envSem hwf).offdiag M ⟨i, j, n⟩ a b = if p.elimIn a.val b.val then M a b else 0 := by
  simp only [envSem, elimIn, ← hi]
  by_cases hs : p.selected (p.blk a.val) = true
  · by_cases he : p.elim a.val b.val = true <;> simp [hs, he, hadamard]
  · simp [hs]

theorem elimIn_false_of_empty (h : fdIsEmpty p.fdEff = true) (a b : Nat) : p.elimIn a b = false := by
  simp [elimIn, p.selected_false_of_empty h]

theorem env_offdiag : p.env.offdiag = if fdIsEmpty p.fdEff then none else some p.offdiagW := rfl

/-- unfold the one-step equation of a declared series of `main` at order ≠ 0 -/
macro "main_step" p:term "," hwf:term "," htot:term "," nm:str "," hfind:term "," hdef:term "," hn:term : tactic =>
  `(tactic| (
    rw [Problem.g_entry $p $hwf $htot _ (by decide)]
    simp only [elemSem, kindOf_series (Problem.inputs_contains $p $nm (by decide)) $hfind, $hdef:term, startVal,
      Idx.isOrderZero, $hn:term, bodySem, exprSem, evalFlag, Bool.false_eq_true, ↓reduceIte]))

include hwf in
theorem g_P (htot : p.Total) (n : List Nat) (hn : (n.all (· == 0)) = false) :
    p.g "U'" n = p.g "W" n + p.g "V" n := by
  ext a b
  main_step p, hwf, htot, "U'", find_P, def_P, hn
  simp [Matrix.add_apply, mat_at]

include hwf in
theorem g_Q (htot : p.Total) (n : List Nat) (hn : (n.all (· == 0)) = false) :
    p.g "U'†" n = p.g "W" n - p.g "V" n := by
  ext a b
  main_step p, hwf, htot, "U'†", find_Q, def_Q, hn
  simp [Matrix.sub_apply, mat_at]

include hwf in
theorem g_X (htot : p.Total) (n : List Nat) (hn : (n.all (· == 0)) = false) :
    p.g "X" n = p.g "B" n + p.g "H'_offdiag" n + p.g "H'_offdiag @ U'" n := by
  ext a b
  main_step p, hwf, htot, "X", find_X, def_X, hn
  simp [Matrix.add_apply, mat_at]

end Problem
end BlockDiag
end Pyma
