/-
Prototype of "Theorem N" (DESIGN.md §3.1): non-Hermitian recurrences, under the extra hypothesis
`H0 * Sel P = Sel P * H0` (no kept off-diagonal element joins two different energies).
-/
import Mathlib.Tactic.NoncommRing
import Mathlib.Tactic.Abel
import Mathlib.Algebra.Ring.Basic
import Mathlib.Algebra.Group.Hom.Defs

namespace Pyma
namespace TheoremN
variable {S : Type*} [Ring S]

structure Hyp (S : Type*) [Ring S] where
  two_cancel : ∀ x y : S, 2 * x = 2 * y → x = y
  Sel : S →+ S
  SS : ∀ x, Sel (Sel x) = Sel x
  H0 : S
  Hd : S
  Ho : S
  P : S   -- U'
  G : S   -- U_inv'
  X : S
  B : S
  Ht : S
  H0sel : Sel H0 = H0
  H0comm : ∀ x, Sel (H0 * x - x * H0) = H0 * Sel x - Sel x * H0
  Hdsel : Sel Hd = Hd
  Hosel : Sel Ho = 0
  -- recurrences
  eqPsel : 2 * Sel P = -Sel (G * P)
  eqPrem : H0 * (P - Sel P) - (P - Sel P) * H0
             = (X - Hd * P + P * Hd) - Sel (X - Hd * P + P * Hd)   -- Sylvester on the Rem part
  eqG : G = -P - G * P
  eqXrem : X - Sel X = -(Ho + Ho * P + G * B) - Sel (-(Ho + Ho * P + G * B))
  eqXsel : Sel X = Sel (Hd * P - P * Hd)
  eqB : B = X + Ho + Ho * P
  eqHt : Ht = H0 + Sel (Hd + B + G * B)
  -- the extra hypothesis (false in general: defect D5)
  comm : H0 * Sel P = Sel P * H0

variable (h : Hyp S)

theorem Sel_two (x : S) : h.Sel (2 * x) = 2 * h.Sel x := by
  rw [two_mul, two_mul, map_add]

theorem unit_sum : h.G + h.P + h.G * h.P = 0 := by
  have := sub_eq_zero.mpr h.eqG
  calc h.G + h.P + h.G * h.P = h.G - (-h.P - h.G * h.P) := by abel
    _ = 0 := this

theorem inverse : (1 + h.G) * (1 + h.P) = 1 := by
  have := unit_sum h
  calc (1 + h.G) * (1 + h.P) = 1 + (h.G + h.P + h.G * h.P) := by noncomm_ring
    _ = 1 := by rw [this, add_zero]

theorem gauge : h.Sel (h.P - h.G) = 0 := by
  have e : h.P - h.G = 2 * h.P + h.G * h.P := by
    have := unit_sum h
    calc h.P - h.G = 2 * h.P + h.G * h.P - (h.G + h.P + h.G * h.P) := by rw [two_mul]; abel
      _ = _ := by rw [this, sub_zero]
  rw [e, map_add, Sel_two, h.eqPsel]; abel

local notation "HS" => (Hyp.H0 h + Hyp.Hd h)

theorem X_eq_comm : h.X = HS * h.P - h.P * HS := by
  -- Sel parts agree by eqXsel + comm, Rem parts by the Sylvester equation
  have hs : h.Sel (HS * h.P - h.P * HS) = h.Sel h.X := by
    have : HS * h.P - h.P * HS = (h.H0 * h.P - h.P * h.H0) + (h.Hd * h.P - h.P * h.Hd) := by
      noncomm_ring
    rw [this, map_add, h.H0comm, h.comm, sub_self, zero_add, h.eqXsel]
  have hr : (HS * h.P - h.P * HS) - h.Sel (HS * h.P - h.P * HS) = h.X - h.Sel h.X := by
    have e0 : h.H0 * h.P - h.P * h.H0 = h.H0 * (h.P - h.Sel h.P) - (h.P - h.Sel h.P) * h.H0 := by
      have := h.comm
      calc h.H0 * h.P - h.P * h.H0
          = h.H0 * (h.P - h.Sel h.P) - (h.P - h.Sel h.P) * h.H0 + (h.H0 * h.Sel h.P - h.Sel h.P * h.H0) := by
            noncomm_ring
        _ = _ := by rw [this, sub_self, add_zero]
    have e1 : HS * h.P - h.P * HS = (h.H0 * h.P - h.P * h.H0) + (h.Hd * h.P - h.P * h.Hd) := by
      noncomm_ring
    rw [hs, e1, e0, h.eqPrem]
    simp only [map_add, map_sub, h.eqXsel]; abel
  calc h.X = h.Sel h.X + (h.X - h.Sel h.X) := by abel
    _ = h.Sel (HS * h.P - h.P * HS) + ((HS * h.P - h.P * HS) - h.Sel (HS * h.P - h.P * HS)) := by
        rw [hr, hs]
    _ = _ := by abel

theorem transformed : (1 + h.G) * (HS + h.Ho) * (1 + h.P) = HS + h.B + h.G * h.B := by
  have hc : HS * h.P = h.P * HS + h.X := by rw [X_eq_comm h]; abel
  have hu := unit_sum h
  have e1 : (1 + h.G) * HS * (1 + h.P) = HS + h.X + h.G * h.X := by
    calc (1 + h.G) * HS * (1 + h.P) = HS + h.G * HS + (1 + h.G) * (HS * h.P) := by noncomm_ring
      _ = HS + h.G * HS + (1 + h.G) * (h.P * HS + h.X) := by rw [hc]
      _ = HS + (h.G + h.P + h.G * h.P) * HS + h.X + h.G * h.X := by noncomm_ring
      _ = HS + h.X + h.G * h.X := by rw [hu]; noncomm_ring
  calc (1 + h.G) * (HS + h.Ho) * (1 + h.P)
      = (1 + h.G) * HS * (1 + h.P) + (1 + h.G) * (h.Ho + h.Ho * h.P) := by noncomm_ring
    _ = HS + h.B + h.G * h.B := by rw [e1, h.eqB]; noncomm_ring

theorem selHS : h.Sel HS = HS := by rw [map_add, h.H0sel, h.Hdsel]

theorem main_identity : (1 + h.G) * (HS + h.Ho) * (1 + h.P) = h.Ht := by
  rw [transformed, h.eqHt]
  -- Rem (B + G B) = 0
  have hrem : (h.B + h.G * h.B) - h.Sel (h.B + h.G * h.B) = 0 := by
    have e : h.B + h.G * h.B = h.X + (h.Ho + h.Ho * h.P + h.G * h.B) := by
      have := h.eqB
      calc h.B + h.G * h.B = (h.X + h.Ho + h.Ho * h.P) + h.G * h.B := by rw [← this]
        _ = _ := by abel
    rw [e, map_add]
    have := h.eqXrem
    simp only [map_neg] at this
    calc h.X + (h.Ho + h.Ho * h.P + h.G * h.B) - (h.Sel h.X + h.Sel (h.Ho + h.Ho * h.P + h.G * h.B))
        = (h.X - h.Sel h.X) + ((h.Ho + h.Ho * h.P + h.G * h.B) - h.Sel (h.Ho + h.Ho * h.P + h.G * h.B)) := by
          abel
      _ = 0 := by rw [this]; abel
  have : h.B + h.G * h.B = h.Sel (h.B + h.G * h.B) := sub_eq_zero.mp hrem
  have e2 : h.Sel (h.Hd + h.B + h.G * h.B) = h.Hd + h.Sel (h.B + h.G * h.B) := by
    rw [add_assoc, map_add, h.Hdsel]
  rw [e2]
  calc HS + h.B + h.G * h.B = HS + (h.B + h.G * h.B) := by abel
    _ = HS + h.Sel (h.B + h.G * h.B) := by rw [← this]
    _ = _ := by abel

end TheoremN
end Pyma
#print axioms Pyma.TheoremN.main_identity
