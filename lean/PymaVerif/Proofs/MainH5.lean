/-
Towards Theorem H for `main`: the Sylvester equation of `V` and the equation of `H_tilde`.
-/
import PymaVerif.Proofs.MainH4

namespace Pyma
namespace BlockDiag
open Dsl Generated MvPowerSeries
namespace Problem

variable {K : Type} [Field K] [StarRing K] [DecidableEq K] [Thresholds K]
attribute [local instance] Scalar.ofField
variable (p : Problem K) (R : p.Ready) (hopt : p.twoBlockOptimized = false) (Y : p.Sym) (A : p.Acc)
  (h2 : (2 : K) ≠ 0)

theorem coeff_H0s_mul (x : Sr (Fin p.nparams) K p.d) (m : Fin p.nparams →₀ ℕ) (a b : Fin p.d) :
    coeff m (p.H0s * x) a b = p.energy a.val * coeff m x a b := by
  rw [H0s, coeff_C_mul, H0mat, Matrix.diagonal_mul]

theorem coeff_mul_H0s (x : Sr (Fin p.nparams) K p.d) (m : Fin p.nparams →₀ ℕ) (a b : Fin p.d) :
    coeff m (x * p.H0s) a b = coeff m x a b * p.energy b.val := by
  rw [H0s, coeff_mul_C, H0mat, Matrix.mul_diagonal]

include R Y A in
/-- on eliminated entries not in a lower block, `V` is minus the right-hand side over the gap -/
theorem V_elim_upper (n : List Nat) (hn : (n.all (· == 0)) = false) (a b : Fin p.d)
    (hk : p.keptE a.val b.val = false) (hle : ¬ p.blk a.val > p.blk b.val) :
    (p.energy a.val - p.energy b.val) * p.g "V" n a b
      = -(star (p.g "Yadj" n b a) - p.g "V @ H'_diag" n a b - star (p.g "V @ H'_diag" n b a)) := by
  rw [p.g_V_upper R.wf R.tot n hn a b hle]
  have hcond : ((p.blk a.val != p.blk b.val) || p.elimIn a.val b.val) = true := by
    simp only [keptE, Bool.and_eq_false_iff, beq_eq_false_iff_ne, ne_eq, Bool.not_eq_false'] at hk
    rcases hk with h | h
    · simp [h]
    · simp [h]
  have hg := A.gap a b hk
  have hne := A.absGt_ne _ hg
  simp only [hcond, ↓reduceIte, hg]
  field_simp

include R Y A in
theorem V_elim (n : List Nat) (hn : (n.all (· == 0)) = false) (a b : Fin p.d)
    (hk : p.keptE a.val b.val = false) :
    (p.energy a.val - p.energy b.val) * p.g "V" n a b
      = -(star (p.g "Yadj" n b a) - p.g "V @ H'_diag" n a b - star (p.g "V @ H'_diag" n b a)) := by
  by_cases hgt : p.blk a.val > p.blk b.val
  · -- lower block: use anti-Hermiticity and the upper formula at (b, a)
    have hkb : p.keptE b.val a.val = false := by rw [p.keptE_symm Y]; exact hk
    have hle : ¬ p.blk b.val > p.blk a.val := by omega
    have hu := p.V_elim_upper R Y A n hn b a hkb hle
    have hv := p.V_antiherm R Y n hn a b
    have hy := p.Y_herm R Y n hn a b
    -- star both sides of hu
    have hs := congrArg star hu
    rw [star_mul', star_sub, Y.energy_real, Y.energy_real, hv, star_neg, star_sub, star_sub, star_star,
      star_star] at hs
    rw [hy]
    have : (p.energy a.val - p.energy b.val) * p.g "V" n a b
        = (p.energy b.val - p.energy a.val) * -p.g "V" n a b := by ring
    rw [this, hs]; ring
  · exact p.V_elim_upper R Y A n hn a b hk hgt

include R Y A in
/-- the Sylvester equation of `V`, as a series identity -/
theorem eqV : p.H0s * p.sr "V" - p.sr "V" * p.H0s
    = -((star (p.sr "Yadj") - p.sr "V @ H'_diag" - star (p.sr "V @ H'_diag"))
        - p.SelS (star (p.sr "Yadj") - p.sr "V @ H'_diag" - star (p.sr "V @ H'_diag"))) := by
  ext m a b
  simp only [map_sub, map_neg, Matrix.sub_apply, Matrix.neg_apply, coeff_H0s_mul, coeff_mul_H0s,
    coeff_SelS, coeff_star_apply]
  by_cases hk : p.keptE a.val b.val = true
  · simp only [hk, ↓reduceIte, sub_self, neg_zero]
    rw [p.V_kept_zero R m a b hk]; ring
  · have hk' : p.keptE a.val b.val = false := by simpa using hk
    simp only [hk', Bool.false_eq_true, ↓reduceIte, sub_zero, coeff_sr]
    by_cases hm : m = 0
    · subst hm
      have hz := (toList_all_zero (0 : Fin p.nparams →₀ ℕ)).mpr rfl
      have hv := p.coeff_zero_of_F1 (p.F1_VH R)
      rw [coeff_sr] at hv
      rw [p.g0_V R.wf R.tot _ hz, p.g0_Y R.wf R.tot _ hz, hv]; simp
    · have := p.V_elim R Y A _ (toList_all_nonzero m hm) a b hk'
      rw [← this]; ring

end Problem
end BlockDiag
end Pyma
