/-
Bridge between the two hand models of `block_diagonalize`: the decision logic of its set-up phase (`Validate.setup`, the subject of C20) and the wiring of the
computation (`BlockDiag.Problem`, the subject of C01–C04).  `configOf p` computes, from a problem with masks given by the caller, the facts that the set-up
phase consults about those masks; if the set-up phase accepts, the two mask clauses that `MasksOK` asks for hold — what the code checks is what the theorems need.
-/
import PymaVerif.Model.Validate
import PymaVerif.Proofs.LevelsThm

namespace Pyma
namespace BlockDiag
namespace Problem
open Dsl

variable {K : Type} [Field K] [StarRing K] [DecidableEq K] [Thresholds K] [LawfulThresholds K]
attribute [local instance] Scalar.ofField
variable (p : Problem K)

/-- the mask of block `b` is symmetric (what `(to_eliminate == to_eliminate.T).all()` tests) -/
def maskSym (b : Nat) : Bool :=
  (List.range p.d).all fun a => (List.range p.d).all fun c => !(p.blk a == b && p.blk c == b) || p.elim a c == p.elim c a

/-- the mask of block `b` selects an entry between levels that are equal within `atol` (what `(to_eliminate & equal_eigs).any()` tests) -/
def maskDeg (b : Nat) : Bool :=
  (List.range p.d).any fun a => (List.range p.d).any fun c => p.blk a == b && p.blk c == b && p.elim a c && p.equalEigs a c

/-- the facts about a Hermitian, numeric, explicitly block-diagonal problem that the set-up phase consults -/
def configOf : Validate.Config where
  hermitian := true
  customSolver := false
  legacySolver := false
  fd := match p.fd with
    | .none => .empty
    | .tuple l => .blocks l
    | .dict l => .dict (l.map fun e => (e.1, true, p.maskSym e.1, p.maskDeg e.1))
  vectors := false
  pairForm := false
  biorthonormal := true
  implicit := false
  blockedInput := false
  symbolicH0 := false
  directSolver := true
  arrayVectors := true
  nblocks := p.nblocks
  off := []
  diagAllZero := false

variable {p}

theorem maskFault_none : ∀ (l : List (Nat × Bool × Bool × Bool)), Validate.maskFault true l = none → ∀ e ∈ l, e.2.1 = true ∧ e.2.2.1 = true
  | [], _, e, he => by simp at he
  | (b, isArr, sym, dg) :: rest, h, e, he => by
      unfold Validate.maskFault at h
      by_cases h1 : isArr = true
      · by_cases h2 : sym = true
        · simp only [h1, h2, Bool.not_true, Bool.false_eq_true, ↓reduceIte, Bool.and_false] at h
          rcases List.mem_cons.mp he with rfl | he'
          · exact ⟨h1, h2⟩
          · exact maskFault_none rest h e he'
        · simp [h1, h2] at h
      · simp [h1] at h

/-- **what the set-up phase checks is what the theorems need**: when the model of the set-up phase accepts a problem whose masks are given by the caller, those
masks are symmetric inside their blocks and select no entry between levels equal within `atol` — the two mask clauses of `MasksOK` -/
theorem masks_ok_of_setup (hn : p.nblocks ≠ 1) {l : List (Nat × Array Bool)} (hfd : p.fd = .dict l) (hne : l ≠ [])
    (hok : Validate.setup p.configOf = .ok) :
    (∀ a b : Fin p.d, p.blk a.val = p.blk b.val → p.elim a.val b.val = p.elim b.val a.val) ∧
    (∀ a b : Fin p.d, p.blk a.val = p.blk b.val → p.elim a.val b.val = true → p.equalEigs a.val b.val = false) := by
  -- the effective form of `fully_diagonalize` is the dictionary itself
  have hEff : p.fdEff = .dict l := by
    unfold fdEff
    rw [hfd]
    cases l with
    | nil => exact absurd rfl hne
    | cons _ _ => rfl
  -- no check fires
  unfold Validate.setup at hok
  have hnone : (Validate.checks p.configOf).find? (·.1) = none := by
    cases hf : (Validate.checks p.configOf).find? (·.1) with
    | none => rfl
    | some x =>
      rw [hf] at hok
      have hx := List.find?_some hf
      have hmem := List.mem_of_find?_eq_some hf
      -- every entry of `checks` carries an error outcome; `hok` says the found one is `.ok`
      obtain ⟨fires, out⟩ := x
      simp only at hok hx
      subst hok
      simp only [Validate.checks, List.mem_cons, Prod.mk.injEq, List.mem_nil_iff, or_false] at hmem
      rcases hmem with h | h | h | h | h | h | h | h | h | h | h | h | h | h | h | h
      all_goals first
        | (exact absurd h.2 (by simp))
        | (obtain ⟨h1, h2⟩ := h
           -- the mask-fault entry: its outcome is `getD .ok`, which is `.ok` only when no fault is found — and then it does not fire
           rw [hx] at h1
           cases hm : Validate.maskFault p.configOf.hermitian (Validate.dictOf (Validate.fdNorm p.configOf)) with
           | none => simp [hm] at h1
           | some o =>
             rw [hm] at h2
             simp only [Option.getD_some] at h2
             -- a fault is never `.ok`
             exfalso
             revert hm
             generalize Validate.dictOf (Validate.fdNorm p.configOf) = L
             generalize p.configOf.hermitian = hb
             intro hm
             induction L with
             | nil => simp [Validate.maskFault] at hm
             | cons e r ih =>
               obtain ⟨b, ia, sy, dg⟩ := e
               unfold Validate.maskFault at hm
               split at hm
               · cases hm; cases h2
               · split at hm
                 · cases hm; cases h2
                 · exact ih hm)
  have hall : ∀ x ∈ Validate.checks p.configOf, x.1 = false := by
    intro x hx
    have := List.find?_eq_none.mp hnone x hx
    simpa using this
  -- the normalised form is the dictionary of facts
  have hcfgfd : p.configOf.fd = .dict (l.map fun e => (e.1, true, p.maskSym e.1, p.maskDeg e.1)) := by
    unfold configOf; simp only [hfd]
  have hnorm : Validate.fdNorm p.configOf = .dict (l.map fun e => (e.1, true, p.maskSym e.1, p.maskDeg e.1)) := by
    unfold Validate.fdNorm
    have : (p.configOf.nblocks == 1) = false := by
      show (p.nblocks == 1) = false
      simpa using hn
    rw [this, hcfgfd]; rfl
  have hsymAll : ∀ e ∈ l, p.maskSym e.1 = true := by
    have h15 := hall ((Validate.maskFault p.configOf.hermitian (Validate.dictOf (Validate.fdNorm p.configOf))).isSome,
      (Validate.maskFault p.configOf.hermitian (Validate.dictOf (Validate.fdNorm p.configOf))).getD .ok) (by simp [Validate.checks])
    simp only at h15
    have hnoneF : Validate.maskFault true (l.map fun e => (e.1, true, p.maskSym e.1, p.maskDeg e.1)) = none := by
      have : p.configOf.hermitian = true := rfl
      rw [this, hnorm] at h15
      simpa [Validate.dictOf] using h15
    intro e he
    exact (maskFault_none _ hnoneF (e.1, true, p.maskSym e.1, p.maskDeg e.1) (List.mem_map.mpr ⟨e, he, rfl⟩)).2
  have hdegAll : ∀ e ∈ l, p.maskDeg e.1 = false := by
    have h16 := hall ((Validate.dictOf (Validate.fdNorm p.configOf)).any (·.2.2.2), .valueError "mask eliminates a degenerate pair") (by simp [Validate.checks])
    simp only at h16
    rw [hnorm] at h16
    simp only [Validate.dictOf, List.any_map, List.any_eq_false, Function.comp] at h16
    intro e he
    simpa using h16 e he
  -- an entry of the model's `elim` is `true` only for a block that carries a mask
  have hentry : ∀ a b : Nat, p.elim a b = true → ∃ e ∈ l, e.1 = p.blk a := by
    intro a b h
    unfold elim at h
    simp only [hEff] at h
    cases hf : l.find? (·.1 == p.blk a) with
    | none => simp [hf] at h
    | some e =>
      refine ⟨e, List.mem_of_find?_eq_some hf, ?_⟩
      have := List.find?_some hf
      simpa using this
  refine ⟨?_, ?_⟩
  · intro a b hblk
    by_cases h1 : p.elim a.val b.val = true
    · obtain ⟨e, he, hb⟩ := hentry _ _ h1
      have hs := hsymAll e he
      unfold maskSym at hs
      have := (List.all_eq_true.mp ((List.all_eq_true.mp hs) a.val (List.mem_range.mpr a.isLt))) b.val (List.mem_range.mpr b.isLt)
      simp only [hb, ← hblk, beq_self_eq_true, Bool.and_self, Bool.not_true, Bool.false_or, beq_iff_eq] at this
      exact this
    · by_cases h2 : p.elim b.val a.val = true
      · obtain ⟨e, he, hb⟩ := hentry _ _ h2
        have hs := hsymAll e he
        unfold maskSym at hs
        have := (List.all_eq_true.mp ((List.all_eq_true.mp hs) b.val (List.mem_range.mpr b.isLt))) a.val (List.mem_range.mpr a.isLt)
        simp only [hb, hblk, beq_self_eq_true, Bool.and_self, Bool.not_true, Bool.false_or, beq_iff_eq] at this
        exact this.symm
      · have e1 : p.elim a.val b.val = false := by simpa using h1
        have e2 : p.elim b.val a.val = false := by simpa using h2
        rw [e1, e2]
  · intro a b hblk hel
    obtain ⟨e, he, hb⟩ := hentry _ _ hel
    have hd := hdegAll e he
    unfold maskDeg at hd
    by_contra hc
    have heq : p.equalEigs a.val b.val = true := by simpa using hc
    have : ((List.range p.d).any fun a' => (List.range p.d).any fun c => p.blk a' == e.1 && p.blk c == e.1 && p.elim a' c && p.equalEigs a' c) = true := by
      apply List.any_eq_true.mpr
      refine ⟨a.val, List.mem_range.mpr a.isLt, List.any_eq_true.mpr ⟨b.val, List.mem_range.mpr b.isLt, ?_⟩⟩
      simp [hb, ← hblk, hel, heq]
    rw [this] at hd
    cases hd

variable (p) in
/-- the facts about the *input* alone that the theorems need when masks are given by the caller (what `MasksOK` asks besides the two mask clauses) -/
structure InputFacts : Prop where
  wf : ∀ t ∈ p.terms, t.2.d = p.d
  blocks_lt : ∀ a : Fin p.d, p.blk a.val < p.nblocks
  atol_nonneg : 0 ≤ p.atol
  herm : ∀ t ∈ p.terms, ∀ a b : Fin p.d, star (t.2.get b.val a.val) = t.2.get a.val b.val
  h0_diag : ∀ t ∈ p.terms, t.1 = p.zeroOrder → ∀ a b : Fin p.d, a ≠ b → t.2.get a.val b.val = 0
  blocks_apart : ∀ a b : Fin p.d, p.blk a.val ≠ p.blk b.val → Scalar.absGt (p.energy a.val - p.energy b.val) p.atol = true
  no_shared : ∀ a b : Fin p.d, p.blk a.val ≠ p.blk b.val → Scalar.isClose (p.energy a.val) (p.energy b.val) = false

/-- a problem with masks of the caller whose input is well-formed and which the model of the set-up phase accepts is an `Accepted` problem: the hypotheses of
C01–C04 are met by what the code checks -/
theorem accepted_of_setup (hin : p.InputFacts) (hn : p.nblocks ≠ 1) {l : List (Nat × Array Bool)} (hfd : p.fd = .dict l) (hne : l ≠ [])
    (hok : Validate.setup p.configOf = .ok) : p.Accepted := by
  have hEff : p.fdEff = .dict l := by
    unfold fdEff
    rw [hfd]
    cases l with
    | nil => exact absurd rfl hne
    | cons _ _ => rfl
  obtain ⟨h1, h2⟩ := masks_ok_of_setup hn hfd hne hok
  exact MasksOK.accepted
    { wf := hin.wf, blocks_lt := hin.blocks_lt, atol_nonneg := hin.atol_nonneg, herm := hin.herm, h0_diag := hin.h0_diag,
      blocks_apart := hin.blocks_apart, no_shared := hin.no_shared, masks := ⟨l, hEff⟩, mask_symmetric := h1, mask_spares_equal_levels := h2 }

end Problem
end BlockDiag
end Pyma

