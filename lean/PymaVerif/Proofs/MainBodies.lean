/-
Literal definitions of the series of `main` (the canonical program the algebra is written against);
each is checked against the translated program by kernel evaluation.
-/
import PymaVerif.Proofs.MainKinds

namespace Pyma
namespace Dsl
open Generated

theorem def_Hd : seriesDefOf main "H'_diag" =
    { name := "H'_diag", start := .zero, body := [ .clause .diagonal (.ser "H")] } := by decide

theorem def_Ho : seriesDefOf main "H'_offdiag" =
    { name := "H'_offdiag", start := .zero, body := [ .clause .offdiagonal (.ser "H")] } := by decide

theorem def_V : seriesDefOf main "V" =
    { name := "V", start := .zero, body := [ .marker true, .clause .offdiagonal (.neg (.callExpr "solve_sylvester" (.sub (.sub (.adj "Yadj") (.ser "V @ H'_diag")) (.adj "V @ H'_diag"))))] } := by decide

theorem def_W : seriesDefOf main "W" =
    { name := "W", start := .zero, body := [ .marker false, .clause .diagonal (.divInt (.ser "U'† @ U'") (-2)), .clause .offdiagonal (.ite (.name "two_block_optimized") .zero (.divInt (.ser "U'† @ U'") (-2)))] } := by decide

theorem def_Y : seriesDefOf main "Yadj" =
    { name := "Yadj", start := .zero, body := [ .marker false, .clause .offdiagonal (.ite (.name "two_block_optimized") (.adj "X") (.divInt (.add (.adj "X") (.ser "X")) 2)), .clause .diagonal (.ite (.indexed "commuting_blocks") .zero (.divInt (.add (.adj "X") (.ser "X")) 2))] } := by decide

theorem def_P : seriesDefOf main "U'" =
    { name := "U'", start := .zero, body := [ .clause .default (.add (.ser "W") (.ser "V"))] } := by decide

theorem def_U : seriesDefOf main "U" =
    { name := "U", start := .one, body := [ .clause .default (.ser "U'")] } := by decide

theorem def_Q : seriesDefOf main "U'†" =
    { name := "U'†", start := .none, body := [ .clause .default (.sub (.ser "W") (.ser "V"))] } := by decide

theorem def_Ud : seriesDefOf main "U†" =
    { name := "U†", start := .one, body := [ .clause .default (.ser "U'†")] } := by decide

theorem def_X : seriesDefOf main "X" =
    { name := "X", start := .zero, body := [ .clause .default (.add (.add (.ser "B") (.ser "H'_offdiag")) (.ser "H'_offdiag @ U'"))] } := by decide

theorem def_B : seriesDefOf main "B" =
    { name := "B", start := .zero, body := [ .clause .diagonal (.divInt (.add (.add (.sub (.ser "U'† @ B") (.adj "U'† @ B")) (.ser "H'_offdiag @ U'")) (.adj "H'_offdiag @ U'")) (-2)), .clause .diagonal (.ite (.indexed "commuting_blocks") .zero (.add (.ser "V @ H'_diag") (.adj "V @ H'_diag"))), .clause .offdiagonal (.neg (.ser "U'† @ B"))] } := by decide

theorem def_Ht : seriesDefOf main "H_tilde" =
    { name := "H_tilde", start := (.input "H"), body := [ .clause .diagonal (.sub (.add (.add (.ser "H'_diag") (.divInt (.add (.ser "H'_offdiag @ U'") (.adj "H'_offdiag @ U'")) 2)) (.divInt (.add (.ser "U'† @ B") (.adj "U'† @ B")) (-2))) (.ser "Yadj"))] } := by decide

end Dsl
end Pyma
