/-
C20, coupled blocks that share an unperturbed energy: in the model of `block_diagonalize` no element
`V[i,j,n]` (the generator of the transformation, hence `U`, `U†`, `H̃` beyond what is pinned) has a value
unless the right-hand side handed to the Sylvester solver is the `zero` sentinel — the only case in which
`solve_sylvester_diagonal` does not reach its "subspaces must not share eigenvalues" check.  So the
evaluation raises no later than the first request that needs the ill-defined quantity, at whatever
order and in whichever pair of blocks the offending pair sits.
-/
import PymaVerif.Proofs.MainTotal
import PymaVerif.Proofs.MainKinds
import PymaVerif.Proofs.DslSound
import PymaVerif.Proofs.Witness
import PymaVerif.Proofs.NhBasics

namespace Pyma
namespace BlockDiag
open Dsl Generated
namespace Problem

variable {K : Type} [Scalar K] (p : Problem K)

/-- the test `solve_sylvester_diagonal` makes on first use of a pair of blocks -/
def sharedPair (i j : Nat) : Bool :=
  i != j && (List.range p.d).any fun a => (List.range p.d).any fun b =>
    p.inBlock i j a b && Scalar.isClose (p.energy a) (p.energy b)

/-- the right-hand side of the Sylvester equation for `V` in `main` -/
def Vrhs : Expr := .sub (.sub (.adj "Yadj") (.ser "V @ H'_diag")) (.adj "V @ H'_diag")

theorem def_V : seriesDefOf main "V" =
    { name := "V", start := .zero,
      body := [.marker true, .clause .offdiagonal (.neg (.callExpr "solve_sylvester" Vrhs))] } := by decide

theorem solve_shared (idx : Idx) (h : p.sharedPair idx.i idx.j = true) (y : Mat K) :
    p.env.fn "solve_sylvester" (.inr (.val y)) idx =
      .error (.scope "ValueError: The subspaces must not share eigenvalues.") := by
  unfold sharedPair at h
  simp only [env, solveSylvester, beq_self_eq_true, if_true, h]
  rfl

theorem solve_one (idx : Idx) : p.env.fn "solve_sylvester" (.inr .one) idx = .error .oneInArithmetic := by
  simp only [env, solveSylvester, beq_self_eq_true, if_true]
  rfl

/-- **C20 (shared eigenvalue)** -/
theorem C20_shared (i j : Nat) (n : List Nat) (hij : i < j) (hsh : p.sharedPair i j = true) (v : SVal K)
    (h : Den main p.env "V" ⟨i, j, n⟩ v) :
    startVal p.env .zero ⟨i, j, n⟩ = some v ∨ DenE main p.env Vrhs ⟨i, j, n⟩ .zero := by
  have hkV : kindOf main p.env "V" = .series (seriesDefOf main "V") :=
    kindOf_series (by rfl) find_V
  cases h with
  | input hk => rw [hkV] at hk; cases hk
  | product hk _ => rw [hkV] at hk; cases hk
  | pinned hk hs =>
    rw [hkV] at hk
    injection hk with hd
    subst hd
    rw [def_V] at hs
    exact Or.inl hs
  | body hk hs hb =>
    rw [hkV] at hk
    injection hk with hd
    subst hd
    rw [def_V] at hb
    right
    cases hb with
    | markerHit hgt _ _ => exact absurd hgt (by simp only [gt_iff_lt]; omega)
    | markerMiss _ hb' =>
      cases hb' with
      | offHit _ he _ _ =>
        cases he with
        | neg he' _ =>
          cases he' with
          | callExpr hy hfn =>
            rename_i y
            cases y with
            | zero => exact hy
            | one => rw [p.solve_one] at hfn; cases hfn
            | val m => rw [p.solve_shared ⟨i, j, n⟩ hsh m] at hfn; cases hfn
      | offWrap hne _ _ _ _ =>
        have : (i != j) = true := by simp; omega
        simp only [this] at hne; cases hne
      | offSkip hne _ _ =>
        have : (i != j) = true := by simp; omega
        simp only [this] at hne; cases hne

/-- the same for the evaluator the driver runs: with a shared pair, a successful evaluation of
`V[i,j,n]` (from any sound cache, with any fuel) is possible only in the two harmless cases -/
theorem C20_shared_run (i j : Nat) (n : List Nat) (hij : i < j) (hsh : p.sharedPair i j = true)
    (fuel : Nat) (c c' : Cache K) (hc : CacheOK main p.env c) (v : SVal K)
    (hrun : getElem main p.env fuel "V" ⟨i, j, n⟩ c = .ok (v, c')) :
    startVal p.env .zero ⟨i, j, n⟩ = some v ∨ DenE main p.env Vrhs ⟨i, j, n⟩ .zero :=
  p.C20_shared i j n hij hsh v (getElem_sound main p.env fuel "V" _ c v c' hc hrun).1

/-! ## the same for `nonhermitian` -/

/-- the right-hand side of the Sylvester equation for `U'` in `nonhermitian` -/
def Urhs : Expr := .add (.sub (.ser "X") (.ser "H'_diag @ U'")) (.ser "U' @ H'_diag")

theorem ndef_P' : seriesDefOf nonhermitian "U'" =
    { name := "U'", start := .zero,
      body := [.clause .diagonal (.divInt (.ser "U_inv' @ U'") (-2)),
               .clause .offdiagonal (.callExpr "solve_sylvester" Urhs)] } := by decide

/-- **C20 (shared eigenvalue), non-Hermitian algorithm**: both orientations of the pair -/
theorem C20_shared_nh (i j : Nat) (n : List Nat) (hij : i ≠ j) (hsh : p.sharedPair i j = true) (v : SVal K)
    (h : Den nonhermitian p.env "U'" ⟨i, j, n⟩ v) :
    startVal p.env .zero ⟨i, j, n⟩ = some v ∨ DenE nonhermitian p.env Urhs ⟨i, j, n⟩ .zero := by
  have hkV : kindOf nonhermitian p.env "U'" = .series (seriesDefOf nonhermitian "U'") :=
    kindOf_series (by rfl) nfind_P
  have hne : (i != j) = true := by simpa using hij
  have hne' : (i == j) = false := by simpa using hij
  cases h with
  | input hk => rw [hkV] at hk; cases hk
  | product hk _ => rw [hkV] at hk; cases hk
  | pinned hk hs =>
    rw [hkV] at hk
    injection hk with hd
    subst hd
    rw [ndef_P'] at hs
    exact Or.inl hs
  | body hk hs hb =>
    rw [hkV] at hk
    injection hk with hd
    subst hd
    rw [ndef_P'] at hb
    right
    cases hb with
    | diagHit hd _ _ _ => simp only [hne'] at hd; cases hd
    | diagMiss _ hb' =>
      cases hb' with
      | offHit _ he _ _ =>
        cases he with
        | callExpr hy hfn =>
          rename_i y
          cases y with
          | zero => exact hy
          | one => rw [p.solve_one] at hfn; cases hfn
          | val m => rw [p.solve_shared ⟨i, j, n⟩ hsh m] at hfn; cases hfn
      | offWrap hne2 _ _ _ _ => simp only [hne] at hne2; cases hne2
      | offSkip hne2 _ _ => simp only [hne] at hne2; cases hne2

/-! ## non-vacuity: two coupled one-dimensional blocks with the same unperturbed energy -/

section witness
attribute [local instance] Scalar.ofField

def wShared : Problem ℚ where
  d := 2
  blockOf := #[0, 1]
  nblocks := 2
  nparams := 1
  terms := [([0], ⟨2, #[1,0, 0,1]⟩), ([1], ⟨2, #[0,1, 1,0]⟩)]
  hermitian := true
  fd := .none
  atol := 1/1000

theorem wShared_shared : wShared.sharedPair 0 1 = true := by decide +kernel

/- the evaluator on this problem (run by `#eval`; the memo table keeps the kernel from reducing it):
   `V[0,1,(1)]`       → error "ValueError: The subspaces must not share eigenvalues."
   `H_tilde[0,0,(1)]` → ok  (does not need `V`)
   `H_tilde[0,0,(2)]` → the same error -/
end witness

end Problem
end BlockDiag
end Pyma
#print axioms Pyma.BlockDiag.Problem.C20_shared
