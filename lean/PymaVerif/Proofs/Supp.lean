/-
Generic invariant of the relational semantics: every derivable element of block `(i,j)` is a
`d × d` matrix supported on rows of block `i` and columns of block `j` (or a sentinel).
-/
import PymaVerif.Proofs.DslDen
import PymaVerif.Proofs.MatBridge

namespace Pyma
namespace Dsl

variable {K : Type} [Field K] [StarRing K] [DecidableEq K] [Thresholds K]
attribute [local instance] Scalar.ofField

/-- block structure: dimension and the block of each state -/
structure Blocks where
  d : Nat
  blk : Nat → Nat

def Blocks.inB (B : Blocks) (i j a b : Nat) : Prop := B.blk a = i ∧ B.blk b = j

/-- a matrix of the right size vanishing outside block `(i,j)` -/
def MatSupp (B : Blocks) (i j : Nat) (m : Mat K) : Prop :=
  m.d = B.d ∧ ∀ a b, a < B.d → b < B.d → ¬ B.inB i j a b → m.get a b = 0

def Supp (B : Blocks) (idx : Idx) : SVal K → Prop
  | .zero => True
  | .one => idx.i = idx.j
  | .val m => MatSupp B idx.i idx.j m

structure EnvOK (B : Blocks) (env : Env K) : Prop where
  input : ∀ x idx, Supp B idx (env.input x idx)
  fnSer : ∀ f x idx w, env.fn f (.inl x) idx = .ok w → Supp B idx w
  fnVal : ∀ f v idx w, Supp B idx v → env.fn f (.inr v) idx = .ok w → Supp B idx w
  diag : ∀ v idx, Supp B idx v → Supp B idx (env.diag v idx)
  offdiag : ∀ od v idx, env.offdiag = some od → Supp B idx v → Supp B idx (od v idx)

variable {B : Blocks}

theorem supp_vadd {idx : Idx} {x y w : SVal K} (hx : Supp B idx x) (hy : Supp B idx y)
    (h : vadd x y = .ok w) : Supp B idx w := by
  cases x <;> cases y <;> simp [vadd, pure, Except.pure] at h <;> try (subst h; assumption)
  case val.val a b =>
    subst h
    obtain ⟨ha, ha'⟩ := hx
    obtain ⟨hb, hb'⟩ := hy
    refine ⟨by simp [Mat.add, Mat.ofFn, ha], ?_⟩
    intro r c hr hc hn
    simp only [Mat.add]
    rw [ha] at *
    rw [Mat.get_ofFn _ hr hc, ha' r c hr hc hn, hb' r c hr hc hn, add_zero]

theorem supp_vneg {idx : Idx} {x w : SVal K} (hx : Supp B idx x) (h : vneg x = .ok w) :
    Supp B idx w := by
  cases x <;> simp [vneg, pure, Except.pure] at h
  case zero => subst h; trivial
  case val a =>
    subst h
    obtain ⟨ha, ha'⟩ := hx
    refine ⟨by simp [Mat.neg, Mat.ofFn, ha], ?_⟩
    intro r c hr hc hn
    simp only [Mat.neg]
    rw [ha, Mat.get_ofFn _ hr hc, ha' r c hr hc hn, neg_zero]

theorem supp_vadj {idx : Idx} {x : SVal K} (hx : Supp B idx.swap x) : Supp B idx (vadj x) := by
  cases x
  case zero => trivial
  case one => exact hx.symm
  case val a =>
    obtain ⟨ha, ha'⟩ := hx
    refine ⟨by simp [Mat.adj, Mat.ofFn, ha], ?_⟩
    intro r c hr hc hn
    simp only [Mat.adj]
    rw [ha, Mat.get_ofFn _ hr hc]
    have : a.get c r = 0 := ha' c r hc hr (by
      intro h; apply hn; exact ⟨h.2, h.1⟩)
    rw [this]; show star (0 : K) = 0; exact star_zero K

theorem supp_vdiv {idx : Idx} {x w : SVal K} {k : Int} (hx : Supp B idx x) (h : vdiv x k = .ok w) :
    Supp B idx w := by
  cases x <;> simp [vdiv, pure, Except.pure] at h
  case zero => subst h; trivial
  case val a =>
    subst h
    obtain ⟨ha, ha'⟩ := hx
    refine ⟨by simp [Mat.divInt, Mat.ofFn, ha], ?_⟩
    intro r c hr hc hn
    simp only [Mat.divInt]
    rw [ha, Mat.get_ofFn _ hr hc, ha' r c hr hc hn]
    show (0 : K) / _ = 0; exact zero_div _

theorem supp_vsub {idx : Idx} {x y w : SVal K} (hx : Supp B idx x) (hy : Supp B idx y)
    (h : vsub x y = .ok w) : Supp B idx w := by
  simp only [vsub, bind, Except.bind] at h
  split at h
  · cases h
  · rename_i y' hy'
    exact supp_vadd hx (supp_vneg hy hy') h

theorem supp_markerVal {idx : Idx} {anti : Bool} {acc v r : SVal K} (hacc : Supp B idx acc)
    (hv : Supp B idx.swap v) (h : markerVal anti acc v = .ok r) : Supp B idx r := by
  simp only [markerVal, bind, Except.bind] at h
  cases anti
  · simp only [Bool.false_eq_true, ↓reduceIte, pure, Except.pure] at h
    exact supp_vadd hacc (supp_vadj hv) h
  · simp only [↓reduceIte] at h
    split at h
    · cases h
    · rename_i v' hv'
      exact supp_vadd hacc (supp_vneg (supp_vadj hv) hv') h

theorem supp_vmul {i m j : Nat} {n na nb : List Nat} {l r : SVal K}
    (hl : Supp B ⟨i, m, na⟩ l) (hr : Supp B ⟨m, j, nb⟩ r) (hlz : l.isZeroS = false)
    (hrz : r.isZeroS = false) : Supp B ⟨i, j, n⟩ (vmul l r) := by
  cases l <;> cases r <;> simp [SVal.isZeroS] at hlz hrz
  case one.one => simp only [vmul, Supp] at *; omega
  case one.val b =>
    simp only [vmul]
    have : i = m := hl
    subst this
    exact hr
  case val.one a =>
    simp only [vmul]
    have : m = j := hr
    subst this
    exact hl
  case val.val a b =>
    simp only [vmul]
    obtain ⟨ha, ha'⟩ := hl
    obtain ⟨hb, hb'⟩ := hr
    refine ⟨by simp [Mat.mul, Mat.ofFn, ha], ?_⟩
    intro x y hx hy hn
    simp only [Mat.mul]
    rw [ha, Mat.get_ofFn _ hx hy, Mat.foldl_range_eq_sum]
    apply Finset.sum_eq_zero
    intro c _
    by_cases h1 : B.blk x = i
    · by_cases h2 : B.blk y = j
      · exact absurd ⟨h1, h2⟩ hn
      · rw [hb' c.val y c.isLt hy (fun h => h2 h.2), mul_zero]
    · rw [ha' x c.val hx c.isLt (fun h => h1 h.1), zero_mul]


/-- what the invariant says about each kind of judgement -/
def SuppJ (B : Blocks) : J K → SVal K → Prop
  | .elem _ idx, v => Supp B idx v
  | .expr _ idx, v => Supp B idx v
  | .body _ idx _ acc, v => Supp B idx acc → Supp B idx v
  | .pairs _ _ idx _ acc, v => Supp B idx acc → Supp B idx v

theorem startVal_supp {env : Env K} (he : EnvOK B env) {st : Start} {idx : Idx} {v : SVal K}
    (h : startVal env st idx = some v) : Supp B idx v := by
  simp only [startVal] at h
  split at h
  · cases st with
    | none => cases h
    | zero => cases h; trivial
    | one =>
      simp only at h
      split at h
      · rename_i hij; cases h; show idx.i = idx.j; simpa using hij
      · cases h
    | input x => cases h; exact he.input _ _
  · cases h

theorem Holds.supp {p : Prog} {env : Env K} (he : EnvOK B env) {j : J K} {v : SVal K}
    (h : Holds p env j v) : SuppJ B j v := by
  induction h with
  | ser _ ih => exact ih
  | adj _ ih => exact supp_vadj ih
  | neg _ hv ih => exact supp_vneg ih hv
  | add _ _ hv iha ihb => exact supp_vadd iha ihb hv
  | sub _ _ hv iha ihb => exact supp_vsub iha ihb hv
  | divInt _ hv ih => exact supp_vdiv ih hv
  | callSer hv => exact he.fnSer _ _ _ _ hv
  | callExpr _ hv ih => exact he.fnVal _ _ _ _ ih hv
  | zero => trivial
  | iteT _ _ ih => exact ih
  | iteF _ _ ih => exact ih
  | bnil => exact fun h => h
  | markerHit _ _ hv ih => exact fun hacc => supp_markerVal hacc ih hv
  | markerMiss _ _ ih => exact ih
  | lowerHit _ _ hv ih => exact fun hacc => supp_vadd hacc ih hv
  | lowerMiss _ _ ih => exact ih
  | diagHit _ _ hv _ ihe ihb => exact fun hacc => ihb (supp_vadd hacc (he.diag _ _ ihe) hv)
  | diagMiss _ _ ih => exact ih
  | offHit _ _ hv _ ihe ihb => exact fun hacc => ihb (supp_vadd hacc ihe hv)
  | offWrap _ hod _ hv _ ihe ihb => exact fun hacc => ihb (supp_vadd hacc (he.offdiag _ _ _ hod ihe) hv)
  | offSkip _ _ _ ih => exact ih
  | default _ hv _ ihe ihb => exact fun hacc => ihb (supp_vadd hacc ihe hv)
  | pnil => exact fun h => h
  | leftZero _ _ _ _ _ ihr => exact ihr
  | leftThenRightZero _ _ _ _ _ _ _ _ ihr => exact ihr
  | rightZero _ _ _ _ _ ihr => exact ihr
  | rightThenLeftZero _ _ _ _ _ _ _ _ ihr => exact ihr
  | both _ hz _ hzr hv _ ihl ihrr ihr =>
    exact fun hacc => ihr (supp_vadd hacc (supp_vmul ihl ihrr hz hzr) hv)
  | input _ => exact he.input _ _
  | pinned _ hs => exact startVal_supp he hs
  | body _ _ _ ih => exact ih trivial
  | product _ _ ih => exact ih trivial

end Dsl
end Pyma
#print axioms Pyma.Dsl.Holds.supp
