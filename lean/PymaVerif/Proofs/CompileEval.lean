/-
C09, second half: the evaluator of compiled bodies is sound for the ring-level denotation `cSem`.
Together with `cStmtSem_compile`: whatever a compiled body returns satisfies the one-step semantics of
the source clauses.
-/
import PymaVerif.Proofs.CompileSound
import PymaVerif.Proofs.DslSound

namespace Pyma
namespace Dsl

variable {K : Type} [Field K] [StarRing K] [DecidableEq K] [Thresholds K]
attribute [local instance] Scalar.ofField
variable {B : Blocks} {p : Prog} {env : Env K}

/-! ## well-formed compiled expressions -/

mutual
/-- `Dagger` is applied to elements only, and an element with swapped index occurs only under `Dagger` -/
def wfc (dOK : Bool) : CExpr → Bool
  | .result => true
  | .zero => true
  | .elem _ sw => !sw
  | .serArg _ => false
  | .dagger (.elem _ sw) => sw || dOK
  | .dagger _ => false
  | .neg e => wfc dOK e
  | .zsum a => wfl dOK a
  | .sdiv e _ => wfc dOK e
  | .call _ (.acons (.serArg _) .anil) => true
  | .call _ (.acons e .anil) => wfc dOK e
  | .call _ _ => false
  | .ite _ t e => wfc dOK t && wfc dOK e
  | .anil => false
  | .acons _ _ => false
def wfl (dOK : Bool) : CExpr → Bool
  | .anil => true
  | .acons h t => wfc dOK h && wfl dOK t
  | _ => false
end

/-- what the lookup returns: block-supported values whose ring image is the denotation -/
def LookupSem (B : Blocks) (p : Prog) (env : Env K) (lookup : Lookup K) : Prop :=
  ∀ x idx c v c', lookup x idx c = .ok (v, c') → Supp B idx v ∧ sem B idx v = mat B p env x idx

theorem sem_sumVals (idx : Idx) : ∀ (vs : List (SVal K)) (acc w : SVal K), Supp B idx acc →
    (∀ v ∈ vs, Supp B idx v) → sumVals acc vs = .ok w →
    Supp B idx w ∧ sem B idx w = sem B idx acc + (vs.map (sem B idx)).sum := by
  intro vs
  induction vs with
  | nil =>
    intro acc w hacc _ h
    simp only [sumVals, pure, Except.pure, Except.ok.injEq] at h
    subst h
    exact ⟨hacc, by simp⟩
  | cons v vs ih =>
    intro acc w hacc hvs h
    simp only [sumVals, bind, Except.bind] at h
    cases ha : vadd acc v with
    | error e => rw [ha] at h; cases h
    | ok a =>
      rw [ha] at h
      have hv := hvs v (List.mem_cons_self)
      have hsa := supp_vadd hacc hv ha
      obtain ⟨hw, hsem⟩ := ih a w hsa (fun u hu => hvs u (List.mem_cons_of_mem _ hu)) h
      refine ⟨hw, ?_⟩
      rw [hsem, sem_vadd hacc hv ha, List.map_cons, List.sum_cons, add_assoc]

theorem evalCE_call_val (lookup : Lookup K) (idx : Idx) (res : SVal K) (f : String) (hh : CExpr) (c : Cache K)
    (hns : ∀ x, hh ≠ .serArg x) :
    evalCE env lookup idx res (.call f (.acons hh .anil)) c =
      match evalCE env lookup idx res hh c with
      | .ok (v, c) =>
          if f == "diag" then .ok (env.diag v idx, c)
          else if f == "offdiag" then
            match env.offdiag with
            | some od => .ok (od v idx, c)
            | none => .error (.scope "offdiag is None")
          else liftE (env.fn f (.inr v) idx) c
      | .error err => .error err := by
  rw [evalCE]
  · rfl
  · intro x hx
    first
      | exact hns x hx
      | (simp only [CExpr.acons.injEq, and_true] at hx; exact hns x hx)

theorem cSem_single (S : EnvSem B env) (idx : Idx) (R : MatK K B) (h : CExpr) :
    cSem S p idx R (.acons h .anil) = cSem S p idx R h := by
  rw [cSem, cSem, add_zero]

theorem cSem_call_val (S : EnvSem B env) (idx : Idx) (R : MatK K B) (f : String) (hh : CExpr)
    (hns : ∀ x, hh ≠ .serArg x) :
    cSem S p idx R (.call f (.acons hh .anil)) =
      if f == "diag" then S.diag (cSem S p idx R hh) idx
      else if f == "offdiag" then S.offdiag (cSem S p idx R hh) idx
      else S.fnVal f (cSem S p idx R hh) idx := by
  rw [cSem]
  · rw [cSem_single]
  · intro x hx
    simp only [CExpr.acons.injEq, and_true] at hx
    exact hns x hx

theorem wfc_call_val (dOK : Bool) (f : String) (hh : CExpr) (hns : ∀ x, hh ≠ .serArg x) :
    wfc dOK (.call f (.acons hh .anil)) = wfc dOK hh := by
  rw [wfc]
  intro x hx
  first
    | exact hns x hx
    | (simp only [CExpr.acons.injEq, and_true] at hx; exact hns x hx)

def PE (p : Prog) (S : EnvSem B env) (lookup : Lookup K) (idx : Idx) (dOK : Bool) (ce : CExpr) : Prop :=
  ∀ c res v c', wfc dOK ce = true → Supp B idx res → evalCE env lookup idx res ce c = .ok (v, c') →
    Supp B idx v ∧ sem B idx v = cSem S p idx (sem B idx res) ce

def PA (p : Prog) (S : EnvSem B env) (lookup : Lookup K) (idx : Idx) (dOK : Bool) (ce : CExpr) : Prop :=
  ∀ c res vs c', wfl dOK ce = true → Supp B idx res → evalCArgs env lookup idx res ce c = .ok (vs, c') →
    (∀ v ∈ vs, Supp B idx v) ∧ (vs.map (sem B idx)).sum = cSem S p idx (sem B idx res) ce

section sound
variable (S : EnvSem B env) (he : EnvOK B env) (lookup : Lookup K) (hl : LookupSem B p env lookup)
  (idx : Idx) (dOK : Bool) (hd : dOK = true → idx.swap = idx)

include he hl hd in
theorem eval_sound : ∀ ce, PE p S lookup idx dOK ce ∧ PA p S lookup idx dOK ce := by
  intro ce
  induction ce with
  | result =>
    refine ⟨?_, ?_⟩
    · intro c res v c' _ hres h
      simp only [evalCE, Except.ok.injEq, Prod.mk.injEq] at h
      obtain ⟨rfl, _⟩ := h
      exact ⟨hres, rfl⟩
    · intro c res vs c' hw; simp [wfl] at hw
  | zero =>
    refine ⟨?_, ?_⟩
    · intro c res v c' _ _ h
      simp only [evalCE, Except.ok.injEq, Prod.mk.injEq] at h
      obtain ⟨rfl, _⟩ := h
      exact ⟨trivial, rfl⟩
    · intro c res vs c' hw; simp [wfl] at hw
  | elem x sw =>
    refine ⟨?_, ?_⟩
    · intro c res v c' hw _ h
      simp only [wfc, Bool.not_eq_true'] at hw
      subst hw
      simp only [evalCE, Bool.false_eq_true, ↓reduceIte] at h
      obtain ⟨h1, h2⟩ := hl x idx c v c' h
      exact ⟨h1, by simp [cSem, h2]⟩
    · intro c res vs c' hw; simp [wfl] at hw
  | serArg x =>
    refine ⟨?_, ?_⟩
    · intro c res v c' hw; simp [wfc] at hw
    · intro c res vs c' hw; simp [wfl] at hw
  | dagger e _ =>
    refine ⟨?_, ?_⟩
    · intro c res v c' hw _ h
      cases e with
      | elem x sw =>
        simp only [wfc, Bool.or_eq_true] at hw
        simp only [evalCE] at h
        have hidx : (if sw = true then idx.swap else idx) = idx.swap := by
          cases sw
          · rcases hw with h1 | h1
            · cases h1
            · simp [hd h1]
          · rfl
        rw [hidx] at h
        cases hlk : lookup x idx.swap c with
        | error e => rw [hlk] at h; cases h
        | ok r =>
          obtain ⟨w, c1⟩ := r
          rw [hlk] at h
          simp only [Except.ok.injEq, Prod.mk.injEq] at h
          obtain ⟨rfl, _⟩ := h
          obtain ⟨h1, h2⟩ := hl x idx.swap c w c1 hlk
          refine ⟨supp_vadj h1, ?_⟩
          rw [sem_vadj h1, h2]
          simp only [cSem, hidx]
      | _ => simp [wfc] at hw
    · intro c res vs c' hw; simp [wfl] at hw
  | neg e ih =>
    refine ⟨?_, ?_⟩
    · intro c res v c' hw hres h
      simp only [wfc] at hw
      simp only [evalCE] at h
      cases hev : evalCE env lookup idx res e c with
      | error err => rw [hev] at h; cases h
      | ok r =>
        obtain ⟨w, c1⟩ := r
        rw [hev] at h
        obtain ⟨hv, rfl⟩ := liftE_ok.mp h
        obtain ⟨h1, h2⟩ := ih.1 c res w _ hw hres hev
        exact ⟨supp_vneg h1 hv, by rw [sem_vneg h1 hv, h2]; rfl⟩
    · intro c res vs c' hw; simp [wfl] at hw
  | zsum a ih =>
    refine ⟨?_, ?_⟩
    · intro c res v c' hw hres h
      simp only [wfc] at hw
      simp only [evalCE] at h
      cases hev : evalCArgs env lookup idx res a c with
      | error err => rw [hev] at h; cases h
      | ok r =>
        obtain ⟨vs, c1⟩ := r
        rw [hev] at h
        obtain ⟨hv, rfl⟩ := liftE_ok.mp h
        obtain ⟨h1, h2⟩ := ih.2 c res vs _ hw hres hev
        obtain ⟨h3, h4⟩ := sem_sumVals idx vs .zero v trivial h1 hv
        refine ⟨h3, ?_⟩
        rw [h4, h2]
        simp [cSem, sem]
    · intro c res vs c' hw; simp [wfl] at hw
  | sdiv e k ih =>
    refine ⟨?_, ?_⟩
    · intro c res v c' hw hres h
      simp only [wfc] at hw
      simp only [evalCE] at h
      cases hev : evalCE env lookup idx res e c with
      | error err => rw [hev] at h; cases h
      | ok r =>
        obtain ⟨w, c1⟩ := r
        rw [hev] at h
        obtain ⟨hv, rfl⟩ := liftE_ok.mp h
        obtain ⟨h1, h2⟩ := ih.1 c res w _ hw hres hev
        exact ⟨supp_vdiv h1 hv, by rw [sem_vdiv h1 hv, h2]; rfl⟩
    · intro c res vs c' hw; simp [wfl] at hw
  | call f a ih =>
    refine ⟨?_, ?_⟩
    · intro c res v c' hw hres h
      cases a with
      | acons hh t =>
        cases t with
        | anil =>
          -- the single argument, through the argument-list hypothesis
          have hPE : ∀ c w c1, wfc dOK hh = true → evalCE env lookup idx res hh c = .ok (w, c1) →
              Supp B idx w ∧ sem B idx w = cSem S p idx (sem B idx res) hh := by
            intro c w c1 hwh hev
            have hA : evalCArgs env lookup idx res (.acons hh .anil) c = .ok ([w], c1) := by
              simp only [evalCArgs, hev]
            obtain ⟨h1, h2⟩ := ih.2 c res [w] c1 (by simp [wfl, hwh]) hres hA
            refine ⟨h1 w (by simp), ?_⟩
            simpa [cSem] using h2
          -- what the three kinds of callee do with a value
          have hfin : ∀ (w : SVal K) (c1 : Cache K), Supp B idx w →
              (if f == "diag" then (Except.ok (env.diag w idx, c1) : Res K (SVal K))
                else if f == "offdiag" then
                  match env.offdiag with
                  | some od => .ok (od w idx, c1)
                  | none => .error (.scope "offdiag is None")
                else liftE (env.fn f (.inr w) idx) c1) = .ok (v, c') →
              Supp B idx v ∧ sem B idx v =
                (if f == "diag" then S.diag (sem B idx w) idx
                  else if f == "offdiag" then S.offdiag (sem B idx w) idx
                  else S.fnVal f (sem B idx w) idx) := by
            intro w c1 hw1 hcall
            by_cases hfd : (f == "diag") = true
            · simp only [hfd, ↓reduceIte, Except.ok.injEq, Prod.mk.injEq] at hcall ⊢
              obtain ⟨rfl, _⟩ := hcall
              exact ⟨he.diag w idx hw1, S.diag_ok w idx hw1⟩
            · simp only [hfd, Bool.false_eq_true, ↓reduceIte] at hcall ⊢
              by_cases hfo : (f == "offdiag") = true
              · simp only [hfo, ↓reduceIte] at hcall ⊢
                cases ho : env.offdiag with
                | none => rw [ho] at hcall; cases hcall
                | some od =>
                  rw [ho] at hcall
                  simp only [Except.ok.injEq, Prod.mk.injEq] at hcall
                  obtain ⟨rfl, _⟩ := hcall
                  exact ⟨he.offdiag od w idx ho hw1, S.offdiag_ok od w idx ho hw1⟩
              · simp only [hfo, Bool.false_eq_true, ↓reduceIte] at hcall ⊢
                obtain ⟨hv, _⟩ := liftE_ok.mp hcall
                exact ⟨he.fnVal f w idx v hw1 hv, S.fnVal_ok f w idx v hw1 hv⟩
          by_cases hser : ∃ x, hh = .serArg x
          · obtain ⟨x, rfl⟩ := hser
            simp only [evalCE] at h
            simp only [cSem]
            by_cases hfd : (f == "diag") = true
            · simp only [hfd, ↓reduceIte] at h ⊢
              cases hlk : lookup x idx c with
              | error e => rw [hlk] at h; cases h
              | ok r =>
                obtain ⟨w, c1⟩ := r
                rw [hlk] at h
                simp only [Except.ok.injEq, Prod.mk.injEq] at h
                obtain ⟨rfl, _⟩ := h
                obtain ⟨h1, h2⟩ := hl x idx c w c1 hlk
                exact ⟨he.diag w idx h1, by rw [S.diag_ok w idx h1, h2]⟩
            · simp only [hfd, Bool.false_eq_true, ↓reduceIte] at h ⊢
              by_cases hfo : (f == "offdiag") = true
              · simp only [hfo, ↓reduceIte] at h ⊢
                cases ho : env.offdiag with
                | none => rw [ho] at h; cases h
                | some od =>
                  rw [ho] at h
                  simp only at h
                  cases hlk : lookup x idx c with
                  | error e => rw [hlk] at h; cases h
                  | ok r =>
                    obtain ⟨w, c1⟩ := r
                    rw [hlk] at h
                    simp only [Except.ok.injEq, Prod.mk.injEq] at h
                    obtain ⟨rfl, _⟩ := h
                    obtain ⟨h1, h2⟩ := hl x idx c w c1 hlk
                    exact ⟨he.offdiag od w idx ho h1, by rw [S.offdiag_ok od w idx ho h1, h2]⟩
              · simp only [hfo, Bool.false_eq_true, ↓reduceIte] at h ⊢
                obtain ⟨hv, _⟩ := liftE_ok.mp h
                exact ⟨he.fnSer f x idx v hv, S.fnSer_ok f x idx v hv⟩
          · have hns : ∀ x, hh ≠ .serArg x := fun x hx => hser ⟨x, hx⟩
            rw [wfc_call_val dOK f hh hns] at hw
            rw [evalCE_call_val lookup idx res f hh c hns] at h
            rw [cSem_call_val S idx _ f hh hns]
            cases hev : evalCE env lookup idx res hh c with
            | error err => rw [hev] at h; cases h
            | ok r =>
              obtain ⟨w, c1⟩ := r
              rw [hev] at h
              obtain ⟨h1, h2⟩ := hPE c w c1 hw hev
              obtain ⟨h3, h4⟩ := hfin w c1 h1 h
              exact ⟨h3, by rw [h4, h2]⟩
        | _ => simp [wfc] at hw
      | _ => simp [wfc] at hw
    · intro c res vs c' hw; simp [wfl] at hw
  | ite fl t e iht ihe =>
    refine ⟨?_, ?_⟩
    · intro c res v c' hw hres h
      simp only [wfc, Bool.and_eq_true] at hw
      simp only [evalCE] at h
      cases hf : evalFlag env idx fl
      · rw [hf] at h
        simp only [Bool.false_eq_true, ↓reduceIte] at h
        obtain ⟨h1, h2⟩ := ihe.1 c res v c' hw.2 hres h
        exact ⟨h1, by rw [h2]; simp [cSem, hf]⟩
      · rw [hf] at h
        simp only [↓reduceIte] at h
        obtain ⟨h1, h2⟩ := iht.1 c res v c' hw.1 hres h
        exact ⟨h1, by rw [h2]; simp [cSem, hf]⟩
    · intro c res vs c' hw; simp [wfl] at hw
  | anil =>
    refine ⟨?_, ?_⟩
    · intro c res v c' hw; simp [wfc] at hw
    · intro c res vs c' _ _ h
      simp only [evalCArgs, Except.ok.injEq, Prod.mk.injEq] at h
      obtain ⟨rfl, _⟩ := h
      exact ⟨by simp, by simp [cSem]⟩
  | acons hh t ihh iht =>
    refine ⟨?_, ?_⟩
    · intro c res v c' hw; simp [wfc] at hw
    · intro c res vs c' hw hres h
      simp only [wfl, Bool.and_eq_true] at hw
      simp only [evalCArgs] at h
      cases hev : evalCE env lookup idx res hh c with
      | error err => rw [hev] at h; cases h
      | ok r =>
        obtain ⟨w, c1⟩ := r
        rw [hev] at h
        simp only at h
        cases hev2 : evalCArgs env lookup idx res t c1 with
        | error err => rw [hev2] at h; cases h
        | ok r2 =>
          obtain ⟨ws, c2⟩ := r2
          rw [hev2] at h
          simp only [Except.ok.injEq, Prod.mk.injEq] at h
          obtain ⟨rfl, _⟩ := h
          obtain ⟨h1, h2⟩ := ihh.1 c res w c1 hw.1 hres hev
          obtain ⟨h3, h4⟩ := iht.2 c1 res ws c2 hw.2 hres hev2
          refine ⟨?_, ?_⟩
          · intro u hu
            rcases List.mem_cons.mp hu with rfl | hu'
            · exact h1
            · exact h3 u hu'
          · simp [cSem, h2, h4]

end sound

/-! ## the reference compiler produces well-formed code -/

theorem wfl_ofList (dOK : Bool) (l : List CExpr) : wfl dOK (CExpr.ofList l) = l.all (wfc dOK) := by
  induction l with
  | nil => simp [CExpr.ofList, wfl]
  | cons x xs ih => simp [CExpr.ofList, wfl, ih]

theorem wfc_negate (dOK : Bool) (ce : CExpr) (h : wfc dOK ce = true) : wfc dOK (CExpr.negate ce) = true := by
  cases ce <;> simp_all [CExpr.negate, wfc]

theorem wfc_compileExpr (dg : Bool) (e : Expr) :
    wfc dg (compileExpr dg e) = true ∧ ∀ a ∈ (compileExpr dg e).sumArgs, wfc dg a = true := by
  induction e with
  | ser x => simp [compileExpr, wfc, CExpr.sumArgs]
  | adj x => cases dg <;> simp [compileExpr, wfc, CExpr.sumArgs]
  | neg e ih => simp [compileExpr, wfc, CExpr.sumArgs, ih.1]
  | add a b iha ihb =>
    have hall : ∀ x ∈ (compileExpr dg a).sumArgs ++ (compileExpr dg b).sumArgs, wfc dg x = true := by
      intro x hx
      rcases List.mem_append.mp hx with h | h
      · exact iha.2 x h
      · exact ihb.2 x h
    refine ⟨?_, ?_⟩
    · simp only [compileExpr, wfc, wfl_ofList, List.all_eq_true]; exact hall
    · simp only [compileExpr, CExpr.sumArgs, cargs_toList_ofList]; exact hall
  | sub a b iha ihb =>
    have hall : ∀ x ∈ (compileExpr dg a).sumArgs ++ ((compileExpr dg b).sumArgs.map CExpr.negate),
        wfc dg x = true := by
      intro x hx
      rcases List.mem_append.mp hx with h | h
      · exact iha.2 x h
      · obtain ⟨y, hy, rfl⟩ := List.mem_map.mp h
        exact wfc_negate dg y (ihb.2 y hy)
    refine ⟨?_, ?_⟩
    · simp only [compileExpr, wfc, wfl_ofList, List.all_eq_true]; exact hall
    · simp only [compileExpr, CExpr.sumArgs, cargs_toList_ofList]; exact hall
  | divInt e k ih => simp [compileExpr, wfc, CExpr.sumArgs, ih.1]
  | callSer f x => simp [compileExpr, wfc, CExpr.sumArgs, CExpr.ofList]
  | callExpr f e ih =>
    have h1 : wfc dg (compileExpr dg (.callExpr f e)) = true := by
      simp only [compileExpr, CExpr.ofList]
      rw [wfc_call_val dg f _ (compileExpr_not_serArg dg e)]
      exact ih.1
    exact ⟨h1, by simpa [compileExpr, CExpr.sumArgs] using h1⟩
  | zero => simp [compileExpr, wfc, CExpr.sumArgs]
  | ite fl t e iht ihe => simp [compileExpr, wfc, CExpr.sumArgs, iht.1, ihe.1]

theorem wfc_accumulate (dOK : Bool) (ce : CExpr) (h : ∀ a ∈ ce.sumArgs, wfc dOK a = true) :
    wfc dOK (accumulate ce) = true := by
  simp only [accumulate, wfc, wfl_ofList, List.all_cons, Bool.and_eq_true, List.all_eq_true]
  exact ⟨trivial, h⟩

theorem wfc_wrapCall (f : String) (dg : Bool) (e : Expr) :
    ∀ a ∈ (wrapCall f dg e).sumArgs, wfc dg a = true := by
  have hsingle : (wrapCall f dg e).sumArgs = [wrapCall f dg e] := by
    apply sumArgs_single; intro a; cases e <;> simp [wrapCall]
  rw [hsingle]
  intro a ha
  simp only [List.mem_singleton] at ha
  subst ha
  cases e with
  | ser x => simp [wrapCall, wfc, CExpr.ofList]
  | _ =>
    simp only [wrapCall, CExpr.ofList]
    rw [wfc_call_val dg f _ (compileExpr_not_serArg dg _)]
    exact (wfc_compileExpr dg _).1

/-! ## statements -/

section stmts
variable (S : EnvSem B env) (he : EnvOK B env) (lookup : Lookup K) (hl : LookupSem B p env lookup) (idx : Idx)

/-- well-formedness of one compiled statement at this index -/
def stmtWF (idx : Idx) : CStmt → Prop
  | .assign e => wfc false e = true
  | .lower e => wfc false e = true
  | .off e => wfc false e = true
  | .offwrap e => wfc false e = true
  | .diag e => wfc true e = true

theorem swap_of_diag (idx : Idx) (h : (idx.i == idx.j) = true) : idx.swap = idx := by
  have : idx.i = idx.j := by simpa using h
  cases idx; simp_all [Idx.swap]

include he hl in
/-- the evaluator of compiled bodies computes their ring-level denotation -/
theorem evalCStmts_sem : ∀ (stmts : List CStmt), (∀ st ∈ stmts, stmtWF idx st) →
    ∀ acc c v c', Supp B idx acc → evalCStmts env lookup idx stmts acc c = .ok (v, c') →
      Supp B idx v ∧ sem B idx v = cStmtSem S p idx stmts (sem B idx acc) := by
  intro stmts
  induction stmts with
  | nil =>
    intro _ acc c v c' hacc h
    simp only [evalCStmts, Except.ok.injEq, Prod.mk.injEq] at h
    obtain ⟨rfl, _⟩ := h
    exact ⟨hacc, rfl⟩
  | cons st rest ih =>
    intro hwf acc c v c' hacc h
    have hrest := fun st' hst' => hwf st' (List.mem_cons_of_mem _ hst')
    have hst := hwf st (List.mem_cons_self)
    have noswap : (false = true → idx.swap = idx) := fun h => by cases h
    cases st with
    | assign e =>
      simp only [evalCStmts] at h
      cases hev : evalCE env lookup idx acc e c with
      | error err => rw [hev] at h; cases h
      | ok r =>
        obtain ⟨w, c1⟩ := r
        rw [hev] at h
        obtain ⟨h1, h2⟩ := (eval_sound S he lookup hl idx false noswap e).1 c acc w c1 hst hacc hev
        obtain ⟨h3, h4⟩ := ih hrest w c1 v c' h1 h
        exact ⟨h3, by rw [h4, h2]; rfl⟩
    | lower e =>
      simp only [evalCStmts] at h
      by_cases hlow : idx.i > idx.j
      · simp only [hlow, ↓reduceIte] at h
        obtain ⟨h1, h2⟩ := (eval_sound S he lookup hl idx false noswap e).1 c acc v c' hst hacc h
        exact ⟨h1, by rw [h2]; simp [cStmtSem, hlow]⟩
      · simp only [hlow, ↓reduceIte] at h
        obtain ⟨h3, h4⟩ := ih hrest acc c v c' hacc h
        exact ⟨h3, by rw [h4]; simp [cStmtSem, hlow]⟩
    | diag e =>
      simp only [evalCStmts] at h
      by_cases hd : (idx.i == idx.j) = true
      · simp only [hd, ↓reduceIte] at h
        cases hev : evalCE env lookup idx acc e c with
        | error err => rw [hev] at h; cases h
        | ok r =>
          obtain ⟨w, c1⟩ := r
          rw [hev] at h
          obtain ⟨h1, h2⟩ := (eval_sound S he lookup hl idx true (fun _ => swap_of_diag idx hd) e).1
            c acc w c1 hst hacc hev
          obtain ⟨h3, h4⟩ := ih hrest w c1 v c' h1 h
          exact ⟨h3, by rw [h4, h2]; simp [cStmtSem, hd]⟩
      · simp only [hd, Bool.false_eq_true, ↓reduceIte] at h
        obtain ⟨h3, h4⟩ := ih hrest acc c v c' hacc h
        exact ⟨h3, by rw [h4]; simp [cStmtSem, hd]⟩
    | off e =>
      simp only [evalCStmts] at h
      by_cases hd : (idx.i != idx.j) = true
      · simp only [hd, ↓reduceIte] at h
        cases hev : evalCE env lookup idx acc e c with
        | error err => rw [hev] at h; cases h
        | ok r =>
          obtain ⟨w, c1⟩ := r
          rw [hev] at h
          obtain ⟨h1, h2⟩ := (eval_sound S he lookup hl idx false noswap e).1 c acc w c1 hst hacc hev
          obtain ⟨h3, h4⟩ := ih hrest w c1 v c' h1 h
          exact ⟨h3, by rw [h4, h2]; simp [cStmtSem, hd]⟩
      · simp only [hd, Bool.false_eq_true, ↓reduceIte] at h
        obtain ⟨h3, h4⟩ := ih hrest acc c v c' hacc h
        exact ⟨h3, by rw [h4]; simp [cStmtSem, hd]⟩
    | offwrap e =>
      simp only [evalCStmts] at h
      by_cases hd : (env.offdiag.isSome && idx.i == idx.j) = true
      · simp only [hd, ↓reduceIte] at h
        cases hev : evalCE env lookup idx acc e c with
        | error err => rw [hev] at h; cases h
        | ok r =>
          obtain ⟨w, c1⟩ := r
          rw [hev] at h
          obtain ⟨h1, h2⟩ := (eval_sound S he lookup hl idx false noswap e).1 c acc w c1 hst hacc hev
          obtain ⟨h3, h4⟩ := ih hrest w c1 v c' h1 h
          exact ⟨h3, by rw [h4, h2]; simp [cStmtSem, hd]⟩
      · simp only [hd, Bool.false_eq_true, ↓reduceIte] at h
        obtain ⟨h3, h4⟩ := ih hrest acc c v c' hacc h
        exact ⟨h3, by rw [h4]; simp [cStmtSem, hd]⟩

theorem stmtWF_compile (self : String) (body : List Stmt) :
    ∀ st ∈ body.flatMap (compileStmt self), stmtWF idx st := by
  intro st hst
  obtain ⟨s0, _, hs0⟩ := List.mem_flatMap.mp hst
  cases s0 with
  | marker anti =>
    simp only [compileStmt, List.mem_singleton] at hs0
    subst hs0
    cases anti <;> exact wfc_accumulate false _ (by simp [CExpr.sumArgs, wfc])
  | clause cd e =>
    cases cd with
    | default =>
      simp only [compileStmt, List.mem_singleton] at hs0
      subst hs0
      exact wfc_accumulate false _ (wfc_compileExpr false e).2
    | diagonal =>
      simp only [compileStmt, List.mem_singleton] at hs0
      subst hs0
      exact wfc_accumulate true _ (wfc_wrapCall "diag" true e)
    | offdiagonal =>
      simp only [compileStmt, List.mem_cons, List.mem_singleton, List.not_mem_nil, or_false] at hs0
      rcases hs0 with rfl | rfl
      · exact wfc_accumulate false _ (wfc_compileExpr false e).2
      · exact wfc_accumulate false _ (wfc_wrapCall "offdiag" false e)
    | lower =>
      simp only [compileStmt, List.mem_singleton] at hs0
      subst hs0
      exact wfc_accumulate false _ (wfc_compileExpr false e).2

include he hl in
/-- **C09 (compile soundness)**: whatever the compiled body of a series returns — run with any lookup
whose answers are the denotations of the program — is, at ring level, the one-step semantics of the
source clauses -/
theorem compile_sound (self : String) (body : List Stmt) (hb : ∀ st ∈ body, st.noReserved = true)
    (acc : SVal K) (c : Cache K) (v : SVal K) (c' : Cache K) (hacc : Supp B idx acc)
    (h : evalCStmts env lookup idx (body.flatMap (compileStmt self)) acc c = .ok (v, c')) :
    Supp B idx v ∧ sem B idx v = bodySem S p self idx body (sem B idx acc) := by
  obtain ⟨h1, h2⟩ := evalCStmts_sem S he lookup hl idx _ (stmtWF_compile idx self body) acc c v c' hacc h
  exact ⟨h1, by rw [h2, cStmtSem_compile S idx self body hb]⟩

end stmts

end Dsl
end Pyma
#print axioms Pyma.Dsl.compile_sound
