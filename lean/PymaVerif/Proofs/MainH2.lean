/-
Towards Theorem H for `main`: vanishing lemmas behind the `commuting_blocks` flag.
-/
import PymaVerif.Proofs.MainH1

namespace Pyma
namespace BlockDiag
open Dsl Generated MvPowerSeries
namespace Problem

variable {K : Type} [Field K] [StarRing K] [DecidableEq K] [Thresholds K]
attribute [local instance] Scalar.ofField
variable (p : Problem K) (R : p.Ready) (hopt : p.twoBlockOptimized = false) (Y : p.Sym) (A : p.Acc)
  (h2 : (2 : K) ≠ 0)

theorem kept_same_block {a b : Nat} (h : p.keptE a b = true) : p.blk a = p.blk b ∧ p.elimIn a b = false := by
  simp only [keptE, Bool.and_eq_true, beq_iff_eq, Bool.not_eq_true'] at h
  exact h

include R in
/-- `V` has no kept entry (the gauge condition of C03, for the model) -/
theorem V_kept_zero (m : Fin p.nparams →₀ ℕ) (a b : Fin p.d) (hk : p.keptE a.val b.val = true) :
    coeff m (p.sr "V") a b = 0 := by
  rw [coeff_sr]
  by_cases hm : m = 0
  · subst hm
    rw [p.g0_V R.wf R.tot _ ((toList_all_zero 0).mpr rfl)]; rfl
  · obtain ⟨hb, he⟩ := p.kept_same_block hk
    have hle : ¬ p.blk a.val > p.blk b.val := by omega
    rw [p.g_V_upper R.wf R.tot _ (toList_all_nonzero m hm) a b hle]
    have hne : (p.blk a.val != p.blk b.val) = false := by simp [hb]
    simp [hne, he]

include R in
theorem Hd_notkept_zero (m : Fin p.nparams →₀ ℕ) (a b : Fin p.d) (hk : p.keptE a.val b.val = false) :
    coeff m (p.sr "H'_diag") a b = 0 := by
  rw [coeff_sr]
  by_cases hm : m = 0
  · subst hm
    rw [p.g0_Hd R.wf R.tot _ ((toList_all_zero 0).mpr rfl)]; rfl
  · rw [p.g_Hd R.wf R.tot _ (toList_all_nonzero m hm)]; simp [hk]

include R A in
/-- on kept entries of a commuting block the product `V · H'_diag` vanishes: this is why the flag
may skip it -/
theorem VH_comm_zero (m : Fin p.nparams →₀ ℕ) (a b : Fin p.d) (hk : p.keptE a.val b.val = true)
    (hc : p.commuting (p.blk a.val) = true) : coeff m (p.sr "V @ H'_diag") a b = 0 := by
  rw [p.sr_VH R, coeff_mul]
  show (∑ q ∈ Finset.antidiagonal m, (coeff q.1 (p.sr "V") * coeff q.2 (p.sr "H'_diag") : Mt K p.d)) a b = 0
  rw [Matrix.sum_apply]
  apply Finset.sum_eq_zero
  intro q _
  rw [Matrix.mul_apply]
  apply Finset.sum_eq_zero
  intro c _
  by_cases hac : p.keptE a.val c.val = true
  · rw [p.V_kept_zero R q.1 a c hac, zero_mul]
  · have hcb : p.keptE c.val b.val = false := by
      by_contra hcb
      have hcb' : p.keptE c.val b.val = true := by simpa using hcb
      exact hac (A.comm_trans a b c hc hk hcb')
    rw [p.Hd_notkept_zero R q.2 c b hcb, mul_zero]

end Problem
end BlockDiag
end Pyma
