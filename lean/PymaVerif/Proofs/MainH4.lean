/-
Towards Theorem H for `main`: the equation of `Yadj`, including the blocks the `commuting_blocks`
flag skips.
-/
import PymaVerif.Proofs.MainH3

namespace Pyma
namespace BlockDiag
open Dsl Generated MvPowerSeries
namespace Problem

variable {K : Type} [Field K] [StarRing K] [DecidableEq K] [Thresholds K]
attribute [local instance] Scalar.ofField
variable (p : Problem K) (R : p.Ready) (hopt : p.twoBlockOptimized = false) (Y : p.Sym) (A : p.Acc)
  (h2 : (2 : K) ≠ 0)

theorem neg_two_inv (h2 : (2 : K) ≠ 0) : 2 * ((-2 : ℤ) : K)⁻¹ = -1 := by
  have := Problem.neg_two_inv_mul h2 (1 : K)
  rwa [mul_one] at this

theorem two_inv (h2 : (2 : K) ≠ 0) (x : K) : 2 * (((2 : ℤ) : K)⁻¹ * x) = x := by
  have : ((2 : ℤ) : K) = 2 := by push_cast; ring
  rw [this]; field_simp

include R Y A h2 in
/-- on kept entries of a commuting block `X` is anti-Hermitian: this is why the flag may skip `Yadj` -/
theorem X_comm_antiherm (n : List Nat) (hn : (n.all (· == 0)) = false) (a b : Fin p.d)
    (hk : p.keptE a.val b.val = true) (hc : p.commuting (p.blk a.val) = true) :
    star (p.g "X" n b a) + p.g "X" n a b = 0 := by
  have hkb : p.keptE b.val a.val = true := by rw [p.keptE_symm Y]; exact hk
  have hcb : p.commuting (p.blk b.val) = true := by rw [← (p.kept_same_block hk).1]; exact hc
  rw [p.g_X R.wf R.tot n hn, Matrix.add_apply, Matrix.add_apply, Matrix.add_apply, Matrix.add_apply,
    p.g_B R.wf R.tot n hn a b, p.g_B R.wf R.tot n hn b a, p.g_Ho R.wf R.tot n hn a b,
    p.g_Ho R.wf R.tot n hn b a]
  simp only [hk, hkb, hc, hcb, ↓reduceIte, add_zero, star_add, star_mul', star_sub, star_star,
    star_intCast_inv]
  have hc2 := neg_two_inv (K := K) h2
  generalize p.g "U'† @ B" n a b = q
  generalize star (p.g "U'† @ B" n b a) = q'
  generalize p.g "H'_offdiag @ U'" n a b = r
  generalize star (p.g "H'_offdiag @ U'" n b a) = r'
  generalize ((-2 : ℤ) : K)⁻¹ = c at hc2 ⊢
  have : c * (q' - q + r' + r) + r' + (c * (q - q' + r + r') + r)
      = (2 * c) * (r + r') + (r + r') := by ring
  rw [this, hc2]; ring

include R hopt Y A h2 in
theorem eqY : 2 * p.sr "Yadj" = star (p.sr "X") + p.sr "X" := by
  ext m a b
  rw [coeff_two_mul, two_mul_apply, map_add, Matrix.add_apply, coeff_star_apply, coeff_sr, coeff_sr]
  by_cases hm : m = 0
  · subst hm
    have hz := (toList_all_zero (0 : Fin p.nparams →₀ ℕ)).mpr rfl
    rw [p.g0_Y R.wf R.tot _ hz, p.g0_X R.wf R.tot _ hz]; simp
  · have hn := toList_all_nonzero m hm
    -- reduce the lower blocks to the upper ones by Hermiticity of `Yadj`
    have upper : ∀ a b : Fin p.d, ¬ p.blk a.val > p.blk b.val →
        2 * p.g "Yadj" (toList m) a b = star (p.g "X" (toList m) b a) + p.g "X" (toList m) a b := by
      intro a b hle
      rw [p.g_Y_upper R.wf R.tot hopt _ hn a b hle]
      by_cases hc : (p.keptE a.val b.val && p.commuting (p.blk a.val)) = true
      · simp only [hc, ↓reduceIte, mul_zero]
        simp only [Bool.and_eq_true] at hc
        exact (p.X_comm_antiherm R Y A h2 _ hn a b hc.1 hc.2).symm
      · simp only [hc, Bool.false_eq_true, ↓reduceIte]
        exact two_inv h2 _
    by_cases hgt : p.blk a.val > p.blk b.val
    · have hle : ¬ p.blk b.val > p.blk a.val := by omega
      have := upper b a hle
      rw [← p.Y_herm R Y _ hn a b, ← star_star (2 * star (p.g "Yadj" (toList m) b a))]
      rw [star_mul', star_star, star_ofNat, this, star_add, star_star, add_comm]
    · exact upper a b hgt

end Problem
end BlockDiag
end Pyma
