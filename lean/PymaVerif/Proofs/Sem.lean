/-
Forgetful map from model values (sentinels / array matrices) into Mathlib matrices, and how the
value operations of the evaluator look through it.
-/
import PymaVerif.Proofs.Supp

namespace Pyma
namespace Dsl

variable {K : Type} [Field K] [StarRing K] [DecidableEq K] [Thresholds K]
attribute [local instance] Scalar.ofField

abbrev MatK (K : Type) (B : Blocks) := Matrix (Fin B.d) (Fin B.d) K

/-- identity on block `i` -/
def blockId (B : Blocks) (i : Nat) : MatK K B :=
  Matrix.diagonal fun a => if B.blk a.val = i then 1 else 0

/-- meaning of a model value of block row `idx.i` -/
def sem (B : Blocks) (idx : Idx) : SVal K → MatK K B
  | .zero => 0
  | .one => blockId B idx.i
  | .val m => Mat.toMatrix B.d m

variable {B : Blocks}

theorem toMatrix_divInt (d : Nat) (x : Mat K) (k : Int) (hx : x.d = d) :
    Mat.toMatrix d (Mat.divInt x k) = ((k : K)⁻¹) • Mat.toMatrix d x := by
  subst hx
  simp only [Mat.divInt, Mat.toMatrix_ofFn]
  funext a b
  show x.get a.val b.val / (k : K) = (k : K)⁻¹ * x.get a.val b.val
  rw [div_eq_mul_inv, mul_comm]

theorem sem_vadd {idx : Idx} {x y w : SVal K} (hx : Supp B idx x) (hy : Supp B idx y)
    (h : vadd x y = .ok w) : sem B idx w = sem B idx x + sem B idx y := by
  cases x <;> cases y <;> simp [vadd, pure, Except.pure] at h <;> try (subst h; simp [sem])
  case val.val a b =>
    exact Mat.toMatrix_add _ _ _ hx.1

theorem sem_vneg {idx : Idx} {x w : SVal K} (hx : Supp B idx x) (h : vneg x = .ok w) :
    sem B idx w = -sem B idx x := by
  cases x <;> simp [vneg, pure, Except.pure] at h <;> subst h
  case zero => simp [sem]
  case val a => exact Mat.toMatrix_neg _ _ hx.1

theorem sem_vdiv {idx : Idx} {x w : SVal K} {k : Int} (hx : Supp B idx x) (h : vdiv x k = .ok w) :
    sem B idx w = ((k : K)⁻¹) • sem B idx x := by
  cases x <;> simp [vdiv, pure, Except.pure] at h <;> subst h
  case zero => simp [sem]
  case val a => exact toMatrix_divInt _ _ _ hx.1

theorem sem_vsub {idx : Idx} {x y w : SVal K} (hx : Supp B idx x) (hy : Supp B idx y)
    (h : vsub x y = .ok w) : sem B idx w = sem B idx x - sem B idx y := by
  simp only [vsub, bind, Except.bind] at h
  split at h
  · cases h
  · rename_i y' hy'
    rw [sem_vadd hx (supp_vneg hy hy') h, sem_vneg hy hy', sub_eq_add_neg]

theorem blockId_conjTranspose (i : Nat) : (blockId B i : MatK K B).conjTranspose = blockId B i := by
  simp only [blockId, Matrix.diagonal_conjTranspose]
  congr 1
  funext a
  show star (if B.blk a.val = i then (1 : K) else 0) = _
  split <;> simp

theorem sem_vadj {idx : Idx} {x : SVal K} (hx : Supp B idx.swap x) :
    sem B idx (vadj x) = (sem B idx.swap x).conjTranspose := by
  cases x
  case zero => simp [sem, vadj]
  case one =>
    have : idx.j = idx.i := hx
    simp only [sem, vadj, Idx.swap, blockId_conjTranspose, this]
  case val a => exact Mat.toMatrix_adj _ _ hx.1

/-- a supported matrix is unchanged by the block identities on its sides -/
theorem blockId_mul_of_supp {i j : Nat} {m : Mat K} (h : MatSupp B i j m) :
    blockId B i * Mat.toMatrix B.d m = Mat.toMatrix B.d m := by
  funext a b
  simp only [blockId, Matrix.diagonal_mul, Mat.toMatrix]
  split
  · rw [one_mul]
  · rename_i hne
    rw [zero_mul, h.2 a.val b.val a.isLt b.isLt (fun hh => hne hh.1)]

theorem mul_blockId_of_supp {i j : Nat} {m : Mat K} (h : MatSupp B i j m) :
    Mat.toMatrix B.d m * blockId B j = Mat.toMatrix B.d m := by
  funext a b
  simp only [blockId, Matrix.mul_diagonal, Mat.toMatrix]
  split
  · rw [mul_one]
  · rename_i hne
    rw [mul_zero, h.2 a.val b.val a.isLt b.isLt (fun hh => hne hh.2)]

theorem blockId_mul_self (i : Nat) : (blockId B i : MatK K B) * blockId B i = blockId B i := by
  simp only [blockId, Matrix.diagonal_mul_diagonal]
  congr 1
  funext a
  split <;> simp

theorem sem_vmul {i m j : Nat} {n na nb : List Nat} {l r : SVal K}
    (hl : Supp B ⟨i, m, na⟩ l) (hr : Supp B ⟨m, j, nb⟩ r) (hlz : l.isZeroS = false)
    (hrz : r.isZeroS = false) :
    sem B ⟨i, j, n⟩ (vmul l r) = sem B ⟨i, m, na⟩ l * sem B ⟨m, j, nb⟩ r := by
  cases l <;> cases r <;> simp [SVal.isZeroS] at hlz hrz
  case one.one =>
    have h1 : i = m := hl
    subst h1
    simp only [vmul, sem, blockId_mul_self]
  case one.val b =>
    have h1 : i = m := hl
    subst h1
    simp only [vmul, sem]
    exact (blockId_mul_of_supp hr).symm
  case val.one a =>
    have h1 : m = j := hr
    subst h1
    simp only [vmul, sem]
    exact (mul_blockId_of_supp hl).symm
  case val.val a b =>
    simp only [vmul, sem]
    exact Mat.toMatrix_mul _ _ _ hl.1

end Dsl
end Pyma
