/-
C02 for the model: the series `U†` and `U` returned by `main` multiply to the identity series.
-/
import PymaVerif.Proofs.MainFill

namespace Pyma
namespace BlockDiag
open Dsl Generated MvPowerSeries
namespace Problem

variable {K : Type} [Field K] [StarRing K] [DecidableEq K] [Thresholds K]
attribute [local instance] Scalar.ofField
variable (p : Problem K) (R : p.Ready) (hopt : p.twoBlockOptimized = false) (Y : p.Sym)
  (h2 : (2 : K) ≠ 0)

include R in
/-- order zero of `U` (and likewise of `U†`) is the identity matrix -/
theorem g0_one (x y : String) (hxm : x ∈ mainNames) (hx : x ≠ "H") (d : SeriesDef) (hf : findSeries main x = some d)
    (hd : d = { name := x, start := .one, body := [.clause .default (.ser y)] })
    (hy0 : ∀ n, (n.all (· == 0)) = true → p.g y n = 0)
    (n : List Nat) (hn : (n.all (· == 0)) = true) : p.g x n = 1 := by
  ext a b
  rw [Problem.g_entry p R.wf R.tot _ hxm]
  simp only [elemSem, kindOf_series (p.inputs_contains x hx) hf, hd, startVal, Idx.isOrderZero, hn,
    ↓reduceIte]
  by_cases hab : p.blk a.val = p.blk b.val
  · have hbeq : (p.blk a.val == p.blk b.val) = true := by simp [hab]
    simp only [hbeq, ↓reduceIte, sem, blockId, Matrix.diagonal_apply, Matrix.one_apply]
  · have hbeq : (p.blk a.val == p.blk b.val) = false := by simp [hab]
    have hne : a ≠ b := fun e => hab (by rw [e])
    simp only [hbeq, Bool.false_eq_true, ↓reduceIte, bodySem, exprSem, zero_add, Matrix.one_apply, hne]
    rw [mat_at, hy0 n hn]; rfl

include R in
theorem sr_U : p.sr "U" = 1 + p.sr "U'" := by
  ext m : 1
  rw [map_add, coeff_sr, coeff_sr]
  by_cases hm : m = 0
  · subst hm
    have hz := (toList_all_zero (0 : Fin p.nparams →₀ ℕ)).mpr rfl
    rw [p.g0_one R "U" "U'" (by decide) (by decide) _ find_U def_U (p.g0_P R.wf R.tot) _ hz,
      p.g0_P R.wf R.tot _ hz, add_zero]
    simp
  · rw [p.g_U R.wf R.tot _ (toList_all_nonzero m hm), coeff_one, if_neg hm, zero_add]

include R in
theorem sr_Ud : p.sr "U†" = 1 + p.sr "U'†" := by
  ext m : 1
  rw [map_add, coeff_sr, coeff_sr]
  by_cases hm : m = 0
  · subst hm
    have hz := (toList_all_zero (0 : Fin p.nparams →₀ ℕ)).mpr rfl
    rw [p.g0_one R "U†" "U'†" (by decide) (by decide) _ find_Ud def_Ud (p.g0_Q R.wf R.tot) _ hz,
      p.g0_Q R.wf R.tot _ hz, add_zero]
    simp
  · rw [p.g_Ud R.wf R.tot _ (toList_all_nonzero m hm), coeff_one, if_neg hm, zero_add]

include R hopt Y h2 in
/-- **C02 (model), first half**: `U† · U = 1` as formal power series, at every order, for every
block layout, mask, and number of parameters. -/
theorem C02_unitary : p.sr "U†" * p.sr "U" = 1 := by
  rw [p.sr_U R, p.sr_Ud R, p.sr_P R, p.sr_Q R]
  have hW := p.sr_eqW R hopt Y h2
  set W := p.sr "W"
  set V := p.sr "V"
  have e : (W - V) * (W + V) = -(2 * W) := by rw [hW]; noncomm_ring
  calc (1 + (W - V)) * (1 + (W + V)) = 1 + 2 * W + (W - V) * (W + V) := by noncomm_ring
    _ = 1 := by rw [e]; noncomm_ring

include R hopt Y h2 in
/-- the third returned series is the adjoint of the second -/
theorem C02_adjoint : star (p.sr "U") = p.sr "U†" := by
  rw [p.sr_U R, p.sr_Ud R, p.sr_P R, p.sr_Q R, star_add, star_one, star_add,
    p.sr_W_star R hopt Y h2, p.sr_V_star R Y]
  abel

end Problem
end BlockDiag
end Pyma
#print axioms Pyma.BlockDiag.Problem.C02_unitary
#print axioms Pyma.BlockDiag.Problem.C02_adjoint
