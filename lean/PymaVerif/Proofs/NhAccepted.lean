/-
C05 for the model in terms of a decidable acceptance predicate, and the Hermitian limit: on a
Hermitian accepted problem (with degenerate kept pairs) the non-Hermitian program returns exactly
the series of the Hermitian program.
-/
import PymaVerif.Proofs.NhSeries
import PymaVerif.Proofs.MainUnique
import PymaVerif.Proofs.CoreUN

namespace Pyma
namespace BlockDiag
open Dsl Generated MvPowerSeries
namespace Problem

variable {K : Type} [Field K] [StarRing K] [DecidableEq K] [Thresholds K]
attribute [local instance] Scalar.ofField
variable (p : Problem K)

/-- accepted problems of the non-Hermitian mode on which the shipped recurrences are right:
no Hermiticity and no symmetry of the mask is asked, but every kept pair must be degenerate -/
structure AcceptedN : Prop where
  wf : ∀ t ∈ p.terms, t.2.d = p.d
  blocks_lt : ∀ a : Fin p.d, p.blk a.val < p.nblocks
  atol_nonneg : 0 ≤ p.atol
  h0_diag : ∀ t ∈ p.terms, t.1 = p.zeroOrder → ∀ a b : Fin p.d, a ≠ b → t.2.get a.val b.val = 0
  diag_kept : ∀ a : Fin p.d, p.keptE a.val a.val = true
  gap : ∀ a b : Fin p.d, p.keptE a.val b.val = false →
    Scalar.absGt (p.energy a.val - p.energy b.val) p.atol = true
  no_shared : ∀ a b : Fin p.d, p.blk a.val ≠ p.blk b.val →
    Scalar.isClose (p.energy a.val) (p.energy b.val) = false
  kept_deg : ∀ a b : Fin p.d, p.keptE a.val b.val = true → p.energy a.val = p.energy b.val

variable {p}

theorem H0_spec_of (P : Prog) (hwf : p.WF)
    (hd : ∀ t ∈ p.terms, t.1 = p.zeroOrder → ∀ a b : Fin p.d, a ≠ b → t.2.get a.val b.val = 0) :
    G p.blocks P p.env "H" (toList (0 : Fin p.nparams →₀ ℕ)) = p.H0mat := by
  ext a b
  rw [G_H P hwf, toList_zero]
  simp only [H0mat, Matrix.diagonal_apply, energy, zeroOrder]
  cases ht : p.term (List.replicate p.nparams 0) with
  | none => simp
  | some m =>
    by_cases hab : a = b
    · subst hab; simp
    · simp only [hab, ↓reduceIte]
      exact hd _ (term_mem ht) rfl a b hab

theorem AcceptedN.ready (h : p.AcceptedN) : Nh.Ready p where
  wf := h.wf
  tot := fun x hx idx => p.total_nh (noShared_of h.no_shared) x hx idx
  hN := h.blocks_lt

theorem AcceptedN.accN [LawfulThresholds K] (h : p.AcceptedN) : Nh.AccN p where
  H0_spec := H0_spec_of nonhermitian h.wf h.h0_diag
  diag_kept := h.diag_kept
  gap := h.gap
  absGt_ne := fun x => LawfulThresholds.absGt_ne x p.atol h.atol_nonneg
  kept_deg := h.kept_deg

/-- **C05 (model, partial)** -/
theorem C05_partial [LawfulThresholds K] (h : p.AcceptedN) (h2 : (2 : K) ≠ 0) :
    Nh.sr p "U†" * Nh.sr p "U" = 1 ∧ Nh.sr p "U" * Nh.sr p "U†" = 1 ∧
    Nh.sr p "U†" * Nh.sr p "H" * Nh.sr p "U" = Nh.sr p "H_tilde" ∧
    (∀ m (a b : Fin p.d), p.keptE a.val b.val = false → coeff m (Nh.sr p "H_tilde") a b = 0) ∧
    (∀ m (a b : Fin p.d), p.keptE a.val b.val = true → coeff m (Nh.sr p "U" - Nh.sr p "U†") a b = 0) :=
  ⟨Nh.C05_left_inverse p h.ready h.accN h2, Nh.C05_right_inverse p h.ready h.accN h2,
    Nh.C05_main p h.ready h.accN h2, fun m a b hk => Nh.Ht_elim p h.ready h.accN m a b hk,
    fun m a b hk => Nh.C05_gauge p h.ready h.accN h2 m a b hk⟩

/-! ## the Hermitian limit -/

theorem Accepted.toN (h : p.Accepted)
    (hk : ∀ a b : Fin p.d, p.keptE a.val b.val = true → p.energy a.val = p.energy b.val) : p.AcceptedN :=
  ⟨h.wf, h.blocks_lt, h.atol_nonneg, h.h0_diag, h.diag_kept, h.gap, h.no_shared, hk⟩

theorem sr_H_eq (hwf : p.WF) : Nh.sr p "H" = p.sr "H" := by
  ext m a b
  show G p.blocks nonhermitian p.env "H" (toList m) a b = G p.blocks main p.env "H" (toList m) a b
  rw [G_H nonhermitian hwf, G_H main hwf]

/-- on Hermitian input the non-Hermitian mode returns the Hermitian result -/
theorem C05_hermitian_limit [LawfulThresholds K] (h : p.Accepted)
    (hk : ∀ a b : Fin p.d, p.keptE a.val b.val = true → p.energy a.val = p.energy b.val)
    (h2 : (2 : K) ≠ 0) :
    Nh.sr p "U" = p.sr "U" ∧ Nh.sr p "U†" = p.sr "U†" ∧ Nh.sr p "H_tilde" = p.sr "H_tilde" := by
  have hN := h.toN hk
  have RN := hN.ready
  have AN := hN.accN
  have R := h.ready
  -- the perturbations agree
  have hH' : Nh.sr p "H'_diag" + Nh.sr p "H'_offdiag" = p.sr "H'_diag" + p.sr "H'_offdiag" := by
    have e1 := Nh.sr_H p RN AN
    have e2 := p.sr_H R h.acc
    rw [sr_H_eq h.wf, e2] at e1
    have : p.H0s + (p.sr "H'_diag" + p.sr "H'_offdiag") = p.H0s + (Nh.sr p "H'_diag" + Nh.sr p "H'_offdiag") := by
      rw [← add_assoc, ← add_assoc]; exact e1
    exact (add_left_cancel this).symm
  -- the non-Hermitian output solves the non-Hermitian problem
  have sN : TheoremUN.SolN (p.ctx R h.acc h2) (Nh.sr p "U'") (Nh.sr p "U_inv'") := by
    refine ⟨Nh.F1_P p RN, Nh.F1_G p RN, Nh.inv' p RN AN h2, Nh.gauge' p RN AN h2, ?_⟩
    show (1 + Nh.sr p "U_inv'") * (p.H0s + (p.sr "H'_diag" + p.sr "H'_offdiag")) * (1 + Nh.sr p "U'")
      - p.SelS ((1 + Nh.sr p "U_inv'") * (p.H0s + (p.sr "H'_diag" + p.sr "H'_offdiag")) * (1 + Nh.sr p "U'")) = 0
    rw [← hH', ← add_assoc, Nh.main' p RN AN h2]
    have hs : p.SelS (Nh.sr p "H_tilde") = Nh.sr p "H_tilde" := by
      rw [Nh.eqHt p RN AN, map_add, Nh.H0s_sel p AN, Nh.SelS_idem]
    rw [hs, sub_self]
  -- so does the Hermitian output, with `G = P†`
  have sH : TheoremUN.SolN (p.ctx R h.acc h2) (p.sr "U'") (star (p.sr "U'")) :=
    TheoremUN.Sol.toSolN (p.sol_main R h.sym h.acc h2)
  have hSS : ∀ x, (p.ctx R h.acc h2).Sel ((p.ctx R h.acc h2).Sel x) = (p.ctx R h.acc h2).Sel x :=
    fun x => Nh.SelS_idem p x
  obtain ⟨eP, eG⟩ := TheoremUN.unique (p.ctx R h.acc h2) hSS sN sH
  obtain ⟨_, _, hadj⟩ := C02 h h2
  have hU : Nh.sr p "U" = p.sr "U" := by rw [Nh.sr_U p RN, p.sr_U R, eP]
  have hUd : Nh.sr p "U†" = p.sr "U†" := by
    rw [Nh.sr_Ud p RN, eG, ← hadj, p.sr_U R, star_add, star_one]
  refine ⟨hU, hUd, ?_⟩
  rw [← Nh.C05_main p RN AN h2, ← C01 h h2, hU, hUd, sr_H_eq h.wf]

end Problem
end BlockDiag
end Pyma
#print axioms Pyma.BlockDiag.Problem.C05_partial
#print axioms Pyma.BlockDiag.Problem.C05_hermitian_limit
