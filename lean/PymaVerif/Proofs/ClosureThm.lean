/-
`Closure.closure n r` is the smallest transitive relation on `0 … n-1` that contains `r`; it is symmetric / reflexive when `r` is, and depends on
`r` only through its values on `0 … n-1`.
-/
import PymaVerif.Model.Closure
import Mathlib.Tactic.Ring
import Mathlib.Tactic.Linarith
import Mathlib.Data.List.Forall2
import Mathlib.Logic.Relation

namespace Pyma
namespace Closure

theorem idx_lt {n a b : Nat} (ha : a < n) (hb : b < n) : a * n + b < n * n := by
  have : (a + 1) * n ≤ n * n := Nat.mul_le_mul_right n ha
  nlinarith

theorem idx_div {n a b : Nat} (hb : b < n) : (a * n + b) / n = a := by
  have hn : 0 < n := by omega
  rw [Nat.add_comm, Nat.add_mul_div_right _ _ hn, Nat.div_eq_of_lt hb, Nat.zero_add]

theorem idx_mod {n a b : Nat} (hb : b < n) : (a * n + b) % n = b := by
  rw [Nat.add_comm, Nat.add_mul_mod_self_right, Nat.mod_eq_of_lt hb]

@[simp] theorem length_ofFn (n : Nat) (r : Nat → Nat → Bool) : (ofFn n r).length = n * n := by simp [ofFn]

theorem get_ofFn {n : Nat} (r : Nat → Nat → Bool) {a b : Nat} (ha : a < n) (hb : b < n) : get n (ofFn n r) a b = r a b := by
  have hi := idx_lt ha hb
  simp [get, ofFn, ha, hb, List.getD_eq_getElem?_getD, hi, idx_div hb, idx_mod hb]

theorem get_false_of_ge {n : Nat} (t : Tab) {a b : Nat} (h : ¬ (a < n ∧ b < n)) : get n t a b = false := by
  unfold get
  by_cases ha : a < n
  · have hb : ¬ b < n := fun hb => h ⟨ha, hb⟩
    simp [ha, hb]
  · simp [ha]

/-- two tables of the right length are equal when their entries are -/
theorem ext_get {n : Nat} {t t' : Tab} (hl : t.length = n * n) (hl' : t'.length = n * n) (h : ∀ a b, a < n → b < n → get n t a b = get n t' a b) : t = t' := by
  apply List.ext_getElem (by rw [hl, hl'])
  intro i h1 h2
  have hi : i < n * n := by rw [← hl]; exact h1
  have hn : 0 < n := by
    rcases Nat.eq_zero_or_pos n with h0 | h0
    · subst h0; simp at hi
    · exact h0
  have hb : i % n < n := Nat.mod_lt _ hn
  have ha : i / n < n := Nat.div_lt_of_lt_mul (by rwa [Nat.mul_comm] at hi |> fun x => by simpa [Nat.mul_comm] using hi)
  have := h (i / n) (i % n) ha hb
  have hidx : i / n * n + i % n = i := Nat.div_add_mod' i n
  simp only [get, ha, hb, decide_true, Bool.true_and, hidx, List.getD_eq_getElem?_getD, List.getElem?_eq_getElem h1,
    List.getElem?_eq_getElem h2, Option.getD_some] at this
  exact this

/-! ### counting: a table can only grow `n·n` times -/

/-- entrywise order -/
def Le (t t' : Tab) : Prop := List.Forall₂ (fun x y => x = true → y = true) t t'

theorem count_le_of_le : ∀ {t t' : Tab}, Le t t' → t.countP id ≤ t'.countP id
  | _, _, .nil => by simp
  | x :: l, y :: l', .cons hxy hl => by
      have ih : l.countP id ≤ l'.countP id := count_le_of_le hl
      cases x <;> cases y
      · simpa [List.countP_cons] using ih
      · simp only [List.countP_cons, id, Bool.false_eq_true, ↓reduceIte]; omega
      · simp at hxy
      · simp only [List.countP_cons, id, ↓reduceIte]; omega

theorem eq_of_le_of_count : ∀ {t t' : Tab}, Le t t' → t'.countP id ≤ t.countP id → t = t'
  | _, _, .nil, _ => rfl
  | x :: l, y :: l', .cons hxy hl, hc => by
      have hle : l.countP id ≤ l'.countP id := count_le_of_le hl
      cases x <;> cases y
      · simp only [List.countP_cons, id, Bool.false_eq_true, ↓reduceIte, Nat.add_zero] at hc
        rw [eq_of_le_of_count hl hc]
      · simp only [List.countP_cons, id, Bool.false_eq_true, ↓reduceIte, Nat.add_zero] at hc
        omega
      · simp at hxy
      · simp only [List.countP_cons, id, ↓reduceIte] at hc
        rw [eq_of_le_of_count hl (by omega)]

@[simp] theorem length_step (n : Nat) (t : Tab) : (step n t).length = n * n := by simp [step]

theorem get_step {n : Nat} (t : Tab) {a b : Nat} (ha : a < n) (hb : b < n) :
    get n (step n t) a b = (get n t a b || (List.range n).any fun c => get n t a c && get n t c b) := by
  unfold step
  rw [get_ofFn _ ha hb]

theorem get_eq_getElem {n : Nat} {t : Tab} {i : Nat} (hi : i < n * n) (hl : t.length = n * n) :
    get n t (i / n) (i % n) = t[i]'(by rw [hl]; exact hi) := by
  have hn : 0 < n := by
    rcases Nat.eq_zero_or_pos n with h0 | h0
    · subst h0; simp at hi
    · exact h0
  have hb : i % n < n := Nat.mod_lt _ hn
  have ha : i / n < n := Nat.div_lt_of_lt_mul (by simpa [Nat.mul_comm] using hi)
  have hidx : i / n * n + i % n = i := Nat.div_add_mod' i n
  have h1 : i < t.length := by rw [hl]; exact hi
  simp [get, ha, hb, hidx, List.getD_eq_getElem?_getD, List.getElem?_eq_getElem h1]

theorem le_step {n : Nat} {t : Tab} (hl : t.length = n * n) : Le t (step n t) := by
  unfold Le
  rw [List.forall₂_iff_get]
  refine ⟨by rw [hl, length_step], ?_⟩
  intro i h1 h2 hx
  have hi : i < n * n := by rw [← hl]; exact h1
  have hn : 0 < n := by
    rcases Nat.eq_zero_or_pos n with h0 | h0
    · subst h0; simp at hi
    · exact h0
  have hb : i % n < n := Nat.mod_lt _ hn
  have ha : i / n < n := Nat.div_lt_of_lt_mul (by simpa [Nat.mul_comm] using hi)
  have hg := get_eq_getElem (t := step n t) hi (length_step n t)
  simp only [List.get_eq_getElem] at hx ⊢
  rw [← hg, get_step t ha hb, get_eq_getElem hi hl, hx, Bool.true_or]

theorem length_fix {n : Nat} : ∀ (f : Nat) (t : Tab), t.length = n * n → (fix n f t).length = n * n
  | 0, t, h => h
  | f + 1, t, h => by
      unfold fix
      split
      · exact h
      · exact length_fix f _ (length_step n t)

/-- with enough rounds the iteration ends in a table that `step` leaves alone -/
theorem fix_fixpoint {n : Nat} : ∀ (f : Nat) (t : Tab), t.length = n * n → n * n ≤ t.countP id + f → step n (fix n f t) = fix n f t
  | 0, t, hl, hc => by
      have hle := le_step hl
      have : (step n t).countP id ≤ t.countP id := by
        have := List.countP_le_length (p := id) (l := step n t)
        rw [length_step] at this
        omega
      exact (eq_of_le_of_count hle this).symm
  | f + 1, t, hl, hc => by
      unfold fix
      by_cases h : (step n t == t) = true
      · rw [if_pos h]; exact eq_of_beq h
      · rw [if_neg h]
        apply fix_fixpoint f _ (length_step n t)
        have hle := le_step hl
        have hlt : t.countP id < (step n t).countP id := by
          by_contra hcon
          have := eq_of_le_of_count hle (by omega)
          exact h (by rw [← this]; exact beq_self_eq_true t)
        omega

theorem get_fix_of_get {n : Nat} {a b : Nat} : ∀ (f : Nat) (t : Tab), get n t a b = true → get n (fix n f t) a b = true
  | 0, _, h => h
  | f + 1, t, h => by
      unfold fix
      split
      · exact h
      · apply get_fix_of_get f
        have ha : a < n := by unfold get at h; simp at h; exact h.1.1
        have hb : b < n := by unfold get at h; simp at h; exact h.1.2
        rw [get_step t ha hb, h, Bool.true_or]

/-- an invariant of tables that `step` preserves holds of the result -/
theorem fix_induction {n : Nat} (P : Tab → Prop) (hstep : ∀ t, P t → P (step n t)) : ∀ (f : Nat) (t : Tab), P t → P (fix n f t)
  | 0, _, h => h
  | f + 1, t, h => by
      unfold fix
      split
      · exact h
      · exact fix_induction P hstep f _ (hstep t h)

/-! ### the closure -/

variable {n : Nat} (r : Nat → Nat → Bool)

theorem closure_lt {a b : Nat} (h : closure n r a b = true) : a < n ∧ b < n := by
  unfold closure get at h
  simp at h
  exact h.1

/-- the closure contains the relation -/
theorem closure_of_rel {a b : Nat} (ha : a < n) (hb : b < n) (h : r a b = true) : closure n r a b = true :=
  get_fix_of_get _ _ (by rw [get_ofFn r ha hb]; exact h)

/-- the closure is transitive -/
theorem closure_trans {a b c : Nat} (h1 : closure n r a c = true) (h2 : closure n r c b = true) : closure n r a b = true := by
  obtain ⟨ha, hc⟩ := closure_lt r h1
  obtain ⟨_, hb⟩ := closure_lt r h2
  have hfix := fix_fixpoint (n := n) (n * n) (ofFn n r) (length_ofFn n r) (by omega)
  unfold closure at *
  rw [← hfix, get_step _ ha hb]
  apply Bool.or_eq_true_iff.mpr
  right
  exact List.any_eq_true.mpr ⟨c, List.mem_range.mpr hc, by rw [h1, h2]; rfl⟩

/-- it is the smallest such relation: inside every transitive relation that contains `r` -/
theorem closure_minimal (S : Nat → Nat → Prop) (hr : ∀ a b, a < n → b < n → r a b = true → S a b)
    (htr : ∀ a b c, a < n → b < n → c < n → S a c → S c b → S a b) {a b : Nat} (h : closure n r a b = true) : S a b := by
  have key : ∀ t : Tab, (∀ a b, get n t a b = true → S a b) → ∀ a b, get n (step n t) a b = true → S a b := by
    intro t ht a b hab
    by_cases hin : a < n ∧ b < n
    · rw [get_step t hin.1 hin.2] at hab
      rcases Bool.or_eq_true_iff.mp hab with h | h
      · exact ht a b h
      · obtain ⟨c, hc, hh⟩ := List.any_eq_true.mp h
        have hc : c < n := List.mem_range.mp hc
        rw [Bool.and_eq_true] at hh
        exact htr a b c hin.1 hin.2 hc (ht a c hh.1) (ht c b hh.2)
    · rw [get_false_of_ge _ hin] at hab; cases hab
  have := fix_induction (n := n) (fun t => ∀ a b, get n t a b = true → S a b) key (n * n) (ofFn n r)
    (by
      intro a b hab
      by_cases hin : a < n ∧ b < n
      · rw [get_ofFn r hin.1 hin.2] at hab; exact hr a b hin.1 hin.2 hab
      · rw [get_false_of_ge _ hin] at hab; cases hab)
  exact this a b h

/-- symmetric when the relation is -/
theorem closure_symm (hs : ∀ a b, a < n → b < n → r a b = r b a) (a b : Nat) : closure n r a b = closure n r b a := by
  have key : ∀ t : Tab, (∀ a b, get n t a b = get n t b a) → ∀ a b, get n (step n t) a b = get n (step n t) b a := by
    intro t ht a b
    by_cases hin : a < n ∧ b < n
    · rw [get_step t hin.1 hin.2, get_step t hin.2 hin.1, ht a b]
      congr 1
      apply Bool.eq_iff_iff.mpr
      simp only [List.any_eq_true, List.mem_range, Bool.and_eq_true]
      constructor
      · rintro ⟨c, hc, h1, h2⟩; exact ⟨c, hc, by rw [ht b c]; exact h2, by rw [ht c a]; exact h1⟩
      · rintro ⟨c, hc, h1, h2⟩; exact ⟨c, hc, by rw [ht a c]; exact h2, by rw [ht c b]; exact h1⟩
    · rw [get_false_of_ge _ hin, get_false_of_ge _ (fun h => hin ⟨h.2, h.1⟩)]
  have := fix_induction (n := n) (fun t => ∀ a b, get n t a b = get n t b a) key (n * n) (ofFn n r)
    (by
      intro a b
      by_cases hin : a < n ∧ b < n
      · rw [get_ofFn r hin.1 hin.2, get_ofFn r hin.2 hin.1]; exact hs a b hin.1 hin.2
      · rw [get_false_of_ge _ hin, get_false_of_ge _ (fun h => hin ⟨h.2, h.1⟩)])
  exact this a b

/-- only the values of the relation on `0 … n-1` matter -/
theorem closure_congr {r r' : Nat → Nat → Bool} (h : ∀ a b, a < n → b < n → r a b = r' a b) : closure n r = closure n r' := by
  have : ofFn n r = ofFn n r' := by
    unfold ofFn
    apply List.map_congr_left
    intro i hi
    have hi : i < n * n := List.mem_range.mp hi
    have hn : 0 < n := by
      rcases Nat.eq_zero_or_pos n with h0 | h0
      · subst h0; simp at hi
      · exact h0
    exact h _ _ (Nat.div_lt_of_lt_mul (by simpa [Nat.mul_comm] using hi)) (Nat.mod_lt _ hn)
  funext a b
  unfold closure
  rw [this]

/-- a relation that is already transitive is its own closure -/
theorem closure_eq_self_of_trans (htr : ∀ a b c, a < n → b < n → c < n → r a c = true → r c b = true → r a b = true) {a b : Nat}
    (ha : a < n) (hb : b < n) : closure n r a b = r a b := by
  apply Bool.eq_iff_iff.mpr
  constructor
  · intro h
    exact closure_minimal r (fun a b => r a b = true) (fun _ _ _ _ h => h) htr h
  · exact closure_of_rel r ha hb

/-- **characterisation**: `closure n r a b` holds exactly when `a` and `b` are connected by a chain of `r`-steps through states below `n` — for "equal within
atol" inside a block: by a chain of levels each within `atol` of the next (the labels of `connected_components` agree) -/
theorem closure_iff_chain {a b : Nat} :
    closure n r a b = true ↔ Relation.TransGen (fun x y => x < n ∧ y < n ∧ r x y = true) a b := by
  constructor
  · intro h
    exact closure_minimal r (fun x y => Relation.TransGen (fun x y => x < n ∧ y < n ∧ r x y = true) x y)
      (fun x y hx hy hxy => Relation.TransGen.single ⟨hx, hy, hxy⟩)
      (fun _ _ _ _ _ _ h1 h2 => Relation.TransGen.trans h1 h2) h
  · intro h
    induction h with
    | single hxy => exact closure_of_rel r hxy.1 hxy.2.1 hxy.2.2
    | tail _ hyz ih => exact closure_trans r ih (closure_of_rel r hyz.1 hyz.2.1 hyz.2.2)

end Closure
end Pyma
