/-
Completeness of the executable evaluator: every derivation of the reference semantics is found by
`getElem` given enough fuel, from any sound cache.  With the totality theorem this says that the
driver returns a value — the value of the semantics — for every element of every accepted problem.
-/
import PymaVerif.Proofs.DslSound
import PymaVerif.Proofs.DslDet

namespace Pyma
namespace Dsl

variable {K : Type} [Scalar K] {p : Prog} {env : Env K}

/-- what completeness says about each kind of judgement; the fuel bound is uniform in the cache -/
def CompJ (p : Prog) (env : Env K) : J K → SVal K → Prop
  | .elem x idx, v => ∃ F, ∀ fuel, F ≤ fuel → ∀ c, CacheOK p env c →
      ∃ c', getElem p env fuel x idx c = .ok (v, c') ∧ CacheOK p env c'
  | .expr e idx, v => ∃ F, ∀ fuel, F ≤ fuel → ∀ c, CacheOK p env c →
      ∃ c', evalExpr env (getElem p env fuel) idx e c = .ok (v, c') ∧ CacheOK p env c'
  | .body self idx st acc, v => ∃ F, ∀ fuel, F ≤ fuel → ∀ c, CacheOK p env c →
      ∃ c', evalBody env (getElem p env fuel) self idx st acc c = .ok (v, c') ∧ CacheOK p env c'
  | .pairs a b idx ps acc, v => ∃ F, ∀ fuel, F ≤ fuel → ∀ c, CacheOK p env c →
      ∃ c', evalPairs (getElem p env fuel) a b idx ps acc c = .ok (v, c') ∧ CacheOK p env c'

/-- the element step: a cached value is the right one, otherwise `compute` is run one level down -/
theorem comp_elem {x : String} {idx : Idx} {v : SVal K} (hden : Den p env x idx v) (F : Nat)
    (h : ∀ fuel, F ≤ fuel → ∀ c, CacheOK p env c →
      ∃ c', compute p env (getElem p env fuel) x idx c = .ok (v, c') ∧ CacheOK p env c') :
    CompJ p env (.elem x idx) v := by
  refine ⟨F + 1, ?_⟩
  intro fuel hf c hc
  obtain ⟨f, rfl⟩ : ∃ f, fuel = f + 1 := ⟨fuel - 1, by omega⟩
  simp only [getElem]
  cases hget : c.get? (x, idx) with
  | some w =>
    have hw := hc x idx w hget
    have : w = v := Holds.det hw _ hden
    subst this
    exact ⟨c, rfl, hc⟩
  | none =>
    obtain ⟨c', hc1, hc2⟩ := h f (by omega) c hc
    simp only [hc1]
    exact ⟨_, rfl, cacheOK_insert hc2 hden⟩

theorem Holds.complete {j : J K} {v : SVal K} (h : Holds p env j v) : CompJ p env j v := by
  induction h with
  | @ser x idx v _ ih =>
    obtain ⟨F, hF⟩ := ih
    exact ⟨F, fun fuel hf c hc => by simpa only [evalExpr] using hF fuel hf c hc⟩
  | @adj x idx v _ ih =>
    obtain ⟨F, hF⟩ := ih
    refine ⟨F, fun fuel hf c hc => ?_⟩
    obtain ⟨c', h1, h2⟩ := hF fuel hf c hc
    exact ⟨c', by simp only [evalExpr, h1], h2⟩
  | @neg e idx v w _ hv ih =>
    obtain ⟨F, hF⟩ := ih
    refine ⟨F, fun fuel hf c hc => ?_⟩
    obtain ⟨c', h1, h2⟩ := hF fuel hf c hc
    exact ⟨c', by simp only [evalExpr, h1, hv, liftE], h2⟩
  | @add a b idx x y w _ _ hv iha ihb =>
    obtain ⟨F1, hF1⟩ := iha
    obtain ⟨F2, hF2⟩ := ihb
    refine ⟨max F1 F2, fun fuel hf c hc => ?_⟩
    obtain ⟨c1, h1, hc1⟩ := hF1 fuel (by omega) c hc
    obtain ⟨c2, h2, hc2⟩ := hF2 fuel (by omega) c1 hc1
    exact ⟨c2, by simp only [evalExpr, h1, h2, hv, liftE], hc2⟩
  | @sub a b idx x y w _ _ hv iha ihb =>
    obtain ⟨F1, hF1⟩ := iha
    obtain ⟨F2, hF2⟩ := ihb
    refine ⟨max F1 F2, fun fuel hf c hc => ?_⟩
    obtain ⟨c1, h1, hc1⟩ := hF1 fuel (by omega) c hc
    obtain ⟨c2, h2, hc2⟩ := hF2 fuel (by omega) c1 hc1
    exact ⟨c2, by simp only [evalExpr, h1, h2, hv, liftE], hc2⟩
  | @divInt e k idx v w _ hv ih =>
    obtain ⟨F, hF⟩ := ih
    refine ⟨F, fun fuel hf c hc => ?_⟩
    obtain ⟨c', h1, h2⟩ := hF fuel hf c hc
    exact ⟨c', by simp only [evalExpr, h1, hv, liftE], h2⟩
  | @callSer f x idx w hv =>
    exact ⟨0, fun fuel _ c hc => ⟨c, by simp only [evalExpr, hv, liftE], hc⟩⟩
  | @callExpr f e idx v w _ hv ih =>
    obtain ⟨F, hF⟩ := ih
    refine ⟨F, fun fuel hf c hc => ?_⟩
    obtain ⟨c', h1, h2⟩ := hF fuel hf c hc
    exact ⟨c', by simp only [evalExpr, h1, hv, liftE], h2⟩
  | zero => exact ⟨0, fun fuel _ c hc => ⟨c, by simp only [evalExpr], hc⟩⟩
  | @iteT fl t e idx v hf _ ih =>
    obtain ⟨F, hF⟩ := ih
    refine ⟨F, fun fuel hfu c hc => ?_⟩
    obtain ⟨c', h1, h2⟩ := hF fuel hfu c hc
    exact ⟨c', by simp only [evalExpr, hf, ↓reduceIte, h1], h2⟩
  | @iteF fl t e idx v hf _ ih =>
    obtain ⟨F, hF⟩ := ih
    refine ⟨F, fun fuel hfu c hc => ?_⟩
    obtain ⟨c', h1, h2⟩ := hF fuel hfu c hc
    exact ⟨c', by simp only [evalExpr, hf, Bool.false_eq_true, ↓reduceIte, h1], h2⟩
  | bnil => exact ⟨0, fun fuel _ c hc => ⟨c, by simp only [evalBody], hc⟩⟩
  | @markerHit self idx anti rest acc v r hlow _ hv ih =>
    obtain ⟨F, hF⟩ := ih
    refine ⟨F, fun fuel hf c hc => ?_⟩
    obtain ⟨c', h1, h2⟩ := hF fuel hf c hc
    exact ⟨c', by simp only [evalBody, hlow, ↓reduceIte, h1, hv, liftE], h2⟩
  | @markerMiss self idx anti rest acc r hlow _ ih =>
    obtain ⟨F, hF⟩ := ih
    refine ⟨F, fun fuel hf c hc => ?_⟩
    obtain ⟨c', h1, h2⟩ := hF fuel hf c hc
    exact ⟨c', by simp only [evalBody, hlow, ↓reduceIte, h1], h2⟩
  | @lowerHit self idx e rest acc v r hlow _ hv ih =>
    obtain ⟨F, hF⟩ := ih
    refine ⟨F, fun fuel hf c hc => ?_⟩
    obtain ⟨c', h1, h2⟩ := hF fuel hf c hc
    exact ⟨c', by simp only [evalBody, hlow, ↓reduceIte, addExpr, h1, id, hv, liftE], h2⟩
  | @lowerMiss self idx e rest acc r hlow _ ih =>
    obtain ⟨F, hF⟩ := ih
    refine ⟨F, fun fuel hf c hc => ?_⟩
    obtain ⟨c', h1, h2⟩ := hF fuel hf c hc
    exact ⟨c', by simp only [evalBody, hlow, ↓reduceIte, h1], h2⟩
  | @diagHit self idx e rest acc v acc' r hd _ hv _ ihe ihb =>
    obtain ⟨F1, hF1⟩ := ihe
    obtain ⟨F2, hF2⟩ := ihb
    refine ⟨max F1 F2, fun fuel hf c hc => ?_⟩
    obtain ⟨c1, h1, hc1⟩ := hF1 fuel (by omega) c hc
    obtain ⟨c2, h2, hc2⟩ := hF2 fuel (by omega) c1 hc1
    exact ⟨c2, by simp only [evalBody, hd, ↓reduceIte, addExpr, h1, hv, liftE, h2], hc2⟩
  | @diagMiss self idx e rest acc r hd _ ih =>
    obtain ⟨F, hF⟩ := ih
    refine ⟨F, fun fuel hf c hc => ?_⟩
    obtain ⟨c', h1, h2⟩ := hF fuel hf c hc
    exact ⟨c', by simp only [evalBody, hd, Bool.false_eq_true, ↓reduceIte, h1], h2⟩
  | @offHit self idx e rest acc v acc' r hd _ hv _ ihe ihb =>
    obtain ⟨F1, hF1⟩ := ihe
    obtain ⟨F2, hF2⟩ := ihb
    refine ⟨max F1 F2, fun fuel hf c hc => ?_⟩
    obtain ⟨c1, h1, hc1⟩ := hF1 fuel (by omega) c hc
    obtain ⟨c2, h2, hc2⟩ := hF2 fuel (by omega) c1 hc1
    exact ⟨c2, by simp only [evalBody, hd, ↓reduceIte, addExpr, h1, id, hv, liftE, h2], hc2⟩
  | @offWrap self idx e rest acc v acc' r od hd hod _ hv _ ihe ihb =>
    obtain ⟨F1, hF1⟩ := ihe
    obtain ⟨F2, hF2⟩ := ihb
    refine ⟨max F1 F2, fun fuel hf c hc => ?_⟩
    obtain ⟨c1, h1, hc1⟩ := hF1 fuel (by omega) c hc
    obtain ⟨c2, h2, hc2⟩ := hF2 fuel (by omega) c1 hc1
    exact ⟨c2, by simp only [evalBody, hd, Bool.false_eq_true, ↓reduceIte, hod, addExpr, h1, hv, liftE, h2], hc2⟩
  | @offSkip self idx e rest acc r hd hod _ ih =>
    obtain ⟨F, hF⟩ := ih
    refine ⟨F, fun fuel hf c hc => ?_⟩
    obtain ⟨c', h1, h2⟩ := hF fuel hf c hc
    exact ⟨c', by simp only [evalBody, hd, Bool.false_eq_true, ↓reduceIte, hod, h1], h2⟩
  | @default self idx e rest acc v acc' r _ hv _ ihe ihb =>
    obtain ⟨F1, hF1⟩ := ihe
    obtain ⟨F2, hF2⟩ := ihb
    refine ⟨max F1 F2, fun fuel hf c hc => ?_⟩
    obtain ⟨c1, h1, hc1⟩ := hF1 fuel (by omega) c hc
    obtain ⟨c2, h2, hc2⟩ := hF2 fuel (by omega) c1 hc1
    exact ⟨c2, by simp only [evalBody, addExpr, h1, id, hv, liftE, h2], hc2⟩
  | pnil => exact ⟨0, fun fuel _ c hc => ⟨c, by simp only [evalPairs], hc⟩⟩
  | @leftZero a b idx m na nb rest acc r l hcost _ hz _ ihl ihr =>
    obtain ⟨F1, hF1⟩ := ihl
    obtain ⟨F2, hF2⟩ := ihr
    refine ⟨max F1 F2, fun fuel hf c hc => ?_⟩
    obtain ⟨c1, h1, hc1⟩ := hF1 fuel (by omega) c hc
    obtain ⟨c2, h2, hc2⟩ := hF2 fuel (by omega) c1 hc1
    exact ⟨c2, by simp only [evalPairs, hcost, ↓reduceIte, h1, hz, h2], hc2⟩
  | @leftThenRightZero a b idx m na nb rest acc r l rr hcost _ hz _ hzr _ ihl ihrr ihr =>
    obtain ⟨F1, hF1⟩ := ihl
    obtain ⟨F2, hF2⟩ := ihrr
    obtain ⟨F3, hF3⟩ := ihr
    refine ⟨max F1 (max F2 F3), fun fuel hf c hc => ?_⟩
    obtain ⟨c1, h1, hc1⟩ := hF1 fuel (by omega) c hc
    obtain ⟨c2, h2, hc2⟩ := hF2 fuel (by omega) c1 hc1
    obtain ⟨c3, h3, hc3⟩ := hF3 fuel (by omega) c2 hc2
    exact ⟨c3, by simp only [evalPairs, hcost, ↓reduceIte, h1, hz, Bool.false_eq_true, h2, hzr, h3], hc3⟩
  | @rightZero a b idx m na nb rest acc r rr hcost _ hz _ ihrr ihr =>
    obtain ⟨F1, hF1⟩ := ihrr
    obtain ⟨F2, hF2⟩ := ihr
    refine ⟨max F1 F2, fun fuel hf c hc => ?_⟩
    obtain ⟨c1, h1, hc1⟩ := hF1 fuel (by omega) c hc
    obtain ⟨c2, h2, hc2⟩ := hF2 fuel (by omega) c1 hc1
    exact ⟨c2, by simp only [evalPairs, hcost, ↓reduceIte, h1, hz, h2], hc2⟩
  | @rightThenLeftZero a b idx m na nb rest acc r l rr hcost _ hzr _ hz _ ihrr ihl ihr =>
    obtain ⟨F1, hF1⟩ := ihrr
    obtain ⟨F2, hF2⟩ := ihl
    obtain ⟨F3, hF3⟩ := ihr
    refine ⟨max F1 (max F2 F3), fun fuel hf c hc => ?_⟩
    obtain ⟨c1, h1, hc1⟩ := hF1 fuel (by omega) c hc
    obtain ⟨c2, h2, hc2⟩ := hF2 fuel (by omega) c1 hc1
    obtain ⟨c3, h3, hc3⟩ := hF3 fuel (by omega) c2 hc2
    exact ⟨c3, by simp only [evalPairs, hcost, ↓reduceIte, h1, hzr, Bool.false_eq_true, h2, hz, h3], hc3⟩
  | @both a b idx m na nb rest acc acc' r l rr _ hz _ hzr hv _ ihl ihrr ihr =>
    obtain ⟨F1, hF1⟩ := ihl
    obtain ⟨F2, hF2⟩ := ihrr
    obtain ⟨F3, hF3⟩ := ihr
    refine ⟨max F1 (max F2 F3), fun fuel hf c hc => ?_⟩
    by_cases hcost : cost na ≤ cost nb
    · obtain ⟨c1, h1, hc1⟩ := hF1 fuel (by omega) c hc
      obtain ⟨c2, h2, hc2⟩ := hF2 fuel (by omega) c1 hc1
      obtain ⟨c3, h3, hc3⟩ := hF3 fuel (by omega) c2 hc2
      exact ⟨c3, by simp only [evalPairs, hcost, ↓reduceIte, h1, hz, Bool.false_eq_true, h2, hzr, hv, h3], hc3⟩
    · obtain ⟨c1, h1, hc1⟩ := hF2 fuel (by omega) c hc
      obtain ⟨c2, h2, hc2⟩ := hF1 fuel (by omega) c1 hc1
      obtain ⟨c3, h3, hc3⟩ := hF3 fuel (by omega) c2 hc2
      exact ⟨c3, by simp only [evalPairs, hcost, ↓reduceIte, h1, hzr, Bool.false_eq_true, h2, hz, hv, h3], hc3⟩
  | @input x idx hk =>
    apply comp_elem (Holds.input hk) 0
    intro fuel _ c hc
    exact ⟨c, by simp only [compute, hk], hc⟩
  | @pinned x d idx v hk hs =>
    apply comp_elem (Holds.pinned hk hs) 0
    intro fuel _ c hc
    exact ⟨c, by simp only [compute, hk, hs], hc⟩
  | @body x d idx v hk hs hb ih =>
    obtain ⟨F, hF⟩ := ih
    apply comp_elem (Holds.body hk hs hb) F
    intro fuel hf c hc
    obtain ⟨c', h1, h2⟩ := hF fuel hf c hc
    exact ⟨c', by simp only [compute, hk, hs, h1], h2⟩
  | @product x a b idx v hk hp ih =>
    obtain ⟨F, hF⟩ := ih
    apply comp_elem (Holds.product hk hp) F
    intro fuel hf c hc
    obtain ⟨c', h1, h2⟩ := hF fuel hf c hc
    exact ⟨c', by simp only [compute, hk, h1], h2⟩

/-- **completeness**: a derivable element is computed by the evaluator, from the empty cache, with
enough fuel -/
theorem getElem_complete {x : String} {idx : Idx} {v : SVal K} (h : Den p env x idx v) :
    ∃ fuel c', getElem p env fuel x idx ∅ = .ok (v, c') := by
  obtain ⟨F, hF⟩ := Holds.complete h
  obtain ⟨c', h1, _⟩ := hF F (Nat.le_refl _) ∅ cacheOK_empty
  exact ⟨F, c', h1⟩

end Dsl
end Pyma
#print axioms Pyma.Dsl.getElem_complete
