/-
Theorem D (naturality of the reference semantics): a family of maps on values that commutes with
the value operations and with the primitives of two environments carries derivations of the one to
derivations of the other.  Used for "same algorithm, different carrier" properties (C06, C07, C14).
Generic in the program; the two scalar types may differ.
-/
import PymaVerif.Proofs.DslDen

namespace Pyma
namespace Dsl

variable {K K' : Type} [Scalar K] [Scalar K']

/-- a value map, indexed by the element position it acts at -/
structure ValMap (φ : Idx → SVal K → SVal K') : Prop where
  zero : ∀ idx, φ idx .zero = .zero
  isZero : ∀ idx v, (φ idx v).isZeroS = v.isZeroS
  vadd : ∀ idx x y w, vadd x y = .ok w → vadd (φ idx x) (φ idx y) = .ok (φ idx w)
  vneg : ∀ idx x w, vneg x = .ok w → vneg (φ idx x) = .ok (φ idx w)
  vdiv : ∀ idx x k w, vdiv x k = .ok w → vdiv (φ idx x) k = .ok (φ idx w)
  vadj : ∀ idx x, φ idx (vadj x) = vadj (φ idx.swap x)
  vmul : ∀ i m j na nb n l r, l.isZeroS = false → r.isZeroS = false →
    φ ⟨i, j, n⟩ (vmul l r) = vmul (φ ⟨i, m, na⟩ l) (φ ⟨m, j, nb⟩ r)

/-- the primitives of `env'` are those of `env` seen through `φ` -/
structure EnvMap (φ : Idx → SVal K → SVal K') (env : Env K) (env' : Env K') : Prop where
  nblocks : env'.nblocks = env.nblocks
  inputs : env'.inputs = env.inputs
  input : ∀ h idx, env'.input h idx = φ idx (env.input h idx)
  fnSer : ∀ f x idx w, env.fn f (.inl x) idx = .ok w → env'.fn f (.inl x) idx = .ok (φ idx w)
  fnVal : ∀ f v idx w, env.fn f (.inr v) idx = .ok w → env'.fn f (.inr (φ idx v)) idx = .ok (φ idx w)
  flagName : env'.flagName = env.flagName
  flagIdx : env'.flagIdx = env.flagIdx
  diag : ∀ v idx, env'.diag (φ idx v) idx = φ idx (env.diag v idx)
  offdiag_none : env.offdiag = none → env'.offdiag = none
  offdiag_some : ∀ od, env.offdiag = some od → ∃ od', env'.offdiag = some od' ∧
    ∀ v idx, od' (φ idx v) idx = φ idx (od v idx)

variable {φ : Idx → SVal K → SVal K'}

theorem ValMap.vsub (hφ : ValMap φ) (idx : Idx) (x y w : SVal K) (h : Dsl.vsub x y = .ok w) :
    Dsl.vsub (φ idx x) (φ idx y) = .ok (φ idx w) := by
  simp only [Dsl.vsub, bind, Except.bind] at h ⊢
  cases hy : Dsl.vneg y with
  | error e => rw [hy] at h; cases h
  | ok y' =>
    rw [hy] at h
    rw [hφ.vneg idx y y' hy]
    exact hφ.vadd idx x y' w h

theorem ValMap.markerVal (hφ : ValMap φ) (idx : Idx) (anti : Bool) (acc v r : SVal K)
    (h : Dsl.markerVal anti acc v = .ok r) :
    Dsl.markerVal anti (φ idx acc) (φ idx.swap v) = .ok (φ idx r) := by
  simp only [Dsl.markerVal, bind, Except.bind] at h ⊢
  cases anti
  · simp only [Bool.false_eq_true, ↓reduceIte, pure, Except.pure] at h ⊢
    rw [← hφ.vadj]
    exact hφ.vadd idx _ _ _ h
  · simp only [↓reduceIte] at h ⊢
    cases hv : Dsl.vneg (Dsl.vadj v) with
    | error e => rw [hv] at h; cases h
    | ok v' =>
      rw [hv] at h
      rw [← hφ.vadj, hφ.vneg idx _ _ hv]
      exact hφ.vadd idx _ _ _ h

/-- the image of a judgement -/
def J.map (φ : Idx → SVal K → SVal K') : J K → J K'
  | .elem x idx => .elem x idx
  | .expr e idx => .expr e idx
  | .body self idx st acc => .body self idx st (φ idx acc)
  | .pairs a b idx ps acc => .pairs a b idx ps (φ idx acc)

def J.idx : J K → Idx
  | .elem _ idx => idx
  | .expr _ idx => idx
  | .body _ idx _ _ => idx
  | .pairs _ _ idx _ _ => idx

theorem evalFlag_map {env : Env K} {env' : Env K'} (he : EnvMap φ env env') (idx : Idx) (fl : Flag) :
    evalFlag env' idx fl = evalFlag env idx fl := by
  cases fl <;> simp [evalFlag, he.flagName, he.flagIdx]

theorem kindOf_map {p : Prog} {env : Env K} {env' : Env K'} (he : EnvMap φ env env') (x : String) :
    kindOf p env' x = kindOf p env x := by
  unfold kindOf; rw [he.inputs]

theorem startVal_map {env : Env K} {env' : Env K'} (hφ : ValMap φ) (hone : ∀ idx, φ idx .one = .one)
    (he : EnvMap φ env env') (st : Start) (idx : Idx) :
    startVal env' st idx = (startVal env st idx).map (φ idx) := by
  unfold startVal
  split
  · cases st with
    | none => rfl
    | zero => simp [hφ.zero]
    | one => simp only; split <;> simp [hone]
    | input h => simp [he.input]
  · rfl

/-- **Theorem D** -/
theorem Holds.map {p : Prog} {env : Env K} {env' : Env K'} (hφ : ValMap φ) (hone : ∀ idx, φ idx .one = .one)
    (he : EnvMap φ env env') {j : J K} {v : SVal K} (h : Holds p env j v) :
    Holds p env' (j.map φ) (φ j.idx v) := by
  induction h with
  | ser _ ih => exact .ser ih
  | @adj x idx v _ ih =>
    show Holds p env' (.expr (.adj x) idx) (φ idx (vadj v))
    rw [hφ.vadj]; exact .adj ih
  | neg _ hv ih => exact .neg ih (hφ.vneg _ _ _ hv)
  | add _ _ hv iha ihb => exact .add iha ihb (hφ.vadd _ _ _ _ hv)
  | sub _ _ hv iha ihb => exact .sub iha ihb (hφ.vsub _ _ _ _ hv)
  | divInt _ hv ih => exact .divInt ih (hφ.vdiv _ _ _ _ hv)
  | callSer hv => exact .callSer (he.fnSer _ _ _ _ hv)
  | callExpr _ hv ih => exact .callExpr ih (he.fnVal _ _ _ _ hv)
  | @zero idx => show Holds p env' (.expr .zero idx) (φ idx .zero); rw [hφ.zero]; exact .zero
  | iteT hf _ ih => exact .iteT (by rw [evalFlag_map he]; exact hf) ih
  | iteF hf _ ih => exact .iteF (by rw [evalFlag_map he]; exact hf) ih
  | bnil => exact .bnil
  | markerHit hc _ hv ih => exact .markerHit hc ih (hφ.markerVal _ _ _ _ _ hv)
  | markerMiss hc _ ih => exact .markerMiss hc ih
  | lowerHit hc _ hv ih => exact .lowerHit hc ih (hφ.vadd _ _ _ _ hv)
  | lowerMiss hc _ ih => exact .lowerMiss hc ih
  | @diagHit self idx e rest acc v acc' r hc _ hv _ ihe ihb =>
    have h := hφ.vadd idx acc (env.diag v idx) acc' hv
    rw [← he.diag] at h
    exact .diagHit hc ihe h ihb
  | diagMiss hc _ ih => exact .diagMiss hc ih
  | offHit hc _ hv _ ihe ihb => exact .offHit hc ihe (hφ.vadd _ _ _ _ hv) ihb
  | @offWrap self idx e rest acc v acc' r od hc hod _ hv _ ihe ihb =>
    obtain ⟨od', h1, h2⟩ := he.offdiag_some _ hod
    have h := hφ.vadd idx acc (od v idx) acc' hv
    rw [← h2] at h
    exact .offWrap hc h1 ihe h ihb
  | offSkip hc hod _ ih => exact .offSkip hc (he.offdiag_none hod) ih
  | default _ hv _ ihe ihb => exact .default ihe (hφ.vadd _ _ _ _ hv) ihb
  | pnil => exact .pnil
  | leftZero hc _ hz _ ihl ihr => exact .leftZero hc ihl (by rw [hφ.isZero]; exact hz) ihr
  | leftThenRightZero hc _ hz _ hzr _ ihl ihrr ihr =>
    exact .leftThenRightZero hc ihl (by rw [hφ.isZero]; exact hz) ihrr (by rw [hφ.isZero]; exact hzr) ihr
  | rightZero hc _ hz _ ihrr ihr => exact .rightZero hc ihrr (by rw [hφ.isZero]; exact hz) ihr
  | rightThenLeftZero hc _ hzr _ hz _ ihrr ihl ihr =>
    exact .rightThenLeftZero hc ihrr (by rw [hφ.isZero]; exact hzr) ihl (by rw [hφ.isZero]; exact hz) ihr
  | @both a b idx m na nb rest acc acc' r l rr _ hz _ hzr hv _ ihl ihrr ihr =>
    refine .both ihl (by rw [hφ.isZero]; exact hz) ihrr (by rw [hφ.isZero]; exact hzr) ?_ ihr
    have := hφ.vadd idx _ _ _ hv
    rw [hφ.vmul idx.i m idx.j na nb idx.n l rr hz hzr] at this
    exact this
  | @input x idx hk =>
    show Holds p env' (.elem x idx) (φ idx (env.input x idx))
    rw [← he.input]
    exact .input (by rw [kindOf_map he]; exact hk)
  | pinned hk hs =>
    exact .pinned (by rw [kindOf_map he]; exact hk) (by rw [startVal_map hφ hone he, hs]; rfl)
  | body hk hs _ ih =>
    refine .body (by rw [kindOf_map he]; exact hk) (by rw [startVal_map hφ hone he, hs]; rfl) ?_
    have := ih
    simp only [J.map, J.idx, hφ.zero] at this
    exact this
  | product hk _ ih =>
    refine .product (by rw [kindOf_map he]; exact hk) ?_
    have := ih
    simp only [J.map, J.idx, hφ.zero] at this
    rw [he.nblocks]
    exact this

/-- naturality for elements -/
theorem Den.map {p : Prog} {env : Env K} {env' : Env K'} (hφ : ValMap φ) (hone : ∀ idx, φ idx .one = .one)
    (he : EnvMap φ env env') {x : String} {idx : Idx} {v : SVal K} (h : Den p env x idx v) :
    Den p env' x idx (φ idx v) :=
  Holds.map hφ hone he h

end Dsl
end Pyma
#print axioms Pyma.Dsl.Den.map
