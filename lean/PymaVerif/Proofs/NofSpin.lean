/-
C08, second stage: contexts with bosons, ladder operators and spins (no fermions).  For the finite
(spin) modes the representation invariant of the Python code is needed: the coefficient of a term does
not depend on `N_i` when the term carries `c_i` or `c_i†` (`Canon`); states have occupation 0 or 1 there.
-/
import PymaVerif.Proofs.NofBoson

namespace Pyma
namespace Nof
open Finset

/-! ## the term produced by `_multiply_op` on a spin/fermion mode -/

def opTermF (c : Ctx) (i : Nat) (q : Int) (t : Term) : Option Term :=
  let orig := pw t i
  let new := orig + q
  if new.natAbs > 1 then none else
  let base : Occ → GRat :=
    if q == 1 then
      fun N => (if orig != 0 then ofInt (Occ.get N i) else 1) * t.coeff (Occ.set N i 0)
    else
      fun N => (if orig != 0 then ofInt (1 - Occ.get N i) else 1) * t.coeff (Occ.set N i 1)
  let sign : Bool :=
    if c.kind i == .fermion then
      let idxs := List.range c.n
      let fermions := idxs.filter fun k => c.kind k == .fermion
      let preceding : Nat :=
        if orig == 1 || new == 1 then
          (fermions.filter fun k => k < i && pw t k == 1).length
        else
          (fermions.filter fun k => pw t k == 1).length +
          (idxs.filter fun k => k > i && pw t k == -1).length
      preceding % 2 == 1
    else false
  some { powers := setPw t i new, coeff := fun N => if sign then -(base N) else base N }

/-- the fermionic sign `_multiply_op` attaches to a term -/
def fsign (c : Ctx) (i : Nat) (q : Int) (t : Term) : Bool :=
  let orig := pw t i
  let new := orig + q
  if c.kind i == .fermion then
    let idxs := List.range c.n
    let fermions := idxs.filter fun k => c.kind k == .fermion
    let preceding : Nat :=
      if orig == 1 || new == 1 then
        (fermions.filter fun k => k < i && pw t k == 1).length
      else
        (fermions.filter fun k => pw t k == 1).length +
        (idxs.filter fun k => k > i && pw t k == -1).length
    preceding % 2 == 1
  else false

/-- the term without its fermionic sign -/
def opTermF0 (i : Nat) (q : Int) (t : Term) : Option Term :=
  let orig := pw t i
  let new := orig + q
  if new.natAbs > 1 then none else
  let base : Occ → GRat :=
    if q == 1 then
      fun N => (if orig != 0 then ofInt (Occ.get N i) else 1) * t.coeff (Occ.set N i 0)
    else
      fun N => (if orig != 0 then ofInt (1 - Occ.get N i) else 1) * t.coeff (Occ.set N i 1)
  some { powers := setPw t i new, coeff := base }

def negIf (b : Bool) (t : Term) : Term := { t with coeff := fun N => if b then -(t.coeff N) else t.coeff N }

theorem opTermF_eq (c : Ctx) (i : Nat) (q : Int) (t : Term) :
    opTermF c i q t = (opTermF0 i q t).map (negIf (fsign c i q t)) := by
  unfold opTermF opTermF0
  by_cases hd : (pw t i + q).natAbs > 1
  · simp [hd]
  · simp only [hd, ↓reduceIte, Option.map_some, Option.some.injEq]
    rfl

theorem fsign_false (c : Ctx) (i : Nat) (q : Int) (t : Term) (h : ¬ c.kind i = .fermion) : fsign c i q t = false := by
  have : (c.kind i == Kind.fermion) = false := by simpa using h
  simp [fsign, this]

theorem negIf_false (t : Term) : negIf false t = t := rfl

theorem multiplyOp_fin (c : Ctx) (x : Form) (i : Nat) (q : Int) (h : c.isInf i = false) :
    multiplyOp c x i q = if q.natAbs > 1 then [] else x.filterMap (opTermF c i q) := by
  unfold multiplyOp
  rw [if_neg (by simp [h])]
  rfl

/-- a term obtained by changing the power of mode `i` -/
theorem pw_of_powers (t t' : Term) (i : Nat) (v : Int) (h : t'.powers = setPw t i v) (j : Nat)
    (hi : i < t.powers.length) : pw t' j = if j = i then v else pw t j := by
  show Occ.get t'.powers j = _
  rw [h]
  exact get_set t.powers i j v hi

theorem tgt_of_powers (t t' : Term) (i : Nat) (q : Int) (s : Occ) (h : t'.powers = setPw t i (pw t i + q))
    (hi : i < s.length) (ht : i < t.powers.length) : tgt t' s = tgt t (Occ.shift s i (-q)) := by
  apply occ_ext (by simp)
  intro j hj
  have hj' : j < s.length := by simpa using hj
  rw [get_tgt _ _ _ hj', get_tgt _ _ _ (by simpa using hj'), pw_of_powers t t' i _ h j ht,
    get_shift _ _ _ _ hi]
  by_cases hji : j = i
  · subst hji; simp; ring
  · simp [hji]

theorem eq_mid_of_powers (t t' : Term) (i : Nat) (q : Int) (s : Occ)
    (h : t'.powers = setPw t i (pw t i + q)) (hi : i < s.length) (ht : i < t.powers.length) (N' : Occ)
    (hl : N'.length = s.length)
    (h1 : Occ.get N' i = Occ.get s i - q - max (pw t i) 0)
    (h2 : ∀ j, j ≠ i → j < s.length → Occ.get N' j = Occ.get (mid t' s) j) :
    N' = mid t (Occ.shift s i (-q)) := by
  apply occ_ext (by simp [hl])
  intro j hj
  have hj' : j < s.length := by rw [← hl]; exact hj
  rw [get_mid _ _ _ (by simpa using hj'), get_shift _ _ _ _ hi]
  by_cases hji : j = i
  · subst hji; simp only [↓reduceIte]; rw [h1]; ring
  · rw [h2 j hji hj', get_mid _ _ _ hj', pw_of_powers t t' i _ h j ht]; simp [hji]

theorem rest_of_powers (c : Ctx) (t t' : Term) (i : Nat) (q : Int) (s : Occ)
    (h : t'.powers = setPw t i (pw t i + q)) (hi : i < s.length) (ht : i < t.powers.length) :
    ∏ j ∈ (range c.n).erase i, modeAmp c j (Occ.get s j) (pw t' j)
      = ∏ j ∈ (range c.n).erase i, modeAmp c j (Occ.get (Occ.shift s i (-q)) j) (pw t j) := by
  apply prod_congr rfl
  intro j hj
  have hne : j ≠ i := (mem_erase.mp hj).1
  rw [pw_of_powers t t' i _ h j ht, get_shift _ _ _ _ hi]; simp [hne]

/-- representation invariant on the finite modes -/
def Canon (c : Ctx) (t : Term) : Prop :=
  ∀ i, i < c.n → c.isInf i = false → pw t i ≠ 0 → ∀ (N : Occ) (v : Int), N.length = c.n →
    t.coeff (Occ.set N i v) = t.coeff N

def FinPow (c : Ctx) (t : Term) : Prop :=
  ∀ i, i < c.n → c.isInf i = false → pw t i = -1 ∨ pw t i = 0 ∨ pw t i = 1

theorem modeAmp_fin (c : Ctx) (i : Nat) (h : c.isInf i = false) (n p : Int) :
    modeAmp c i n p = if p > 0 then n else if p < 0 then 1 - n else 1 := by
  simp [modeAmp, h]

theorem set_self (N : Occ) (i : Nat) (v : Int) (h : Occ.get N i = v) (hi : i < N.length) : Occ.set N i v = N := by
  apply occ_ext (by simp)
  intro j _
  rw [get_set _ _ _ _ hi]
  by_cases hji : j = i
  · subst hji; simp [h]
  · simp [hji]

/-- the finite-mode step, spins (no sign) -/
theorem opTermF0_amp (c : Ctx) (i : Nat) (q : Int) (t : Term) (s s' : Occ) (hi : i < c.n)
    (hfin : c.isInf i = false) (hq : q = 1 ∨ q = -1)
    (hs : s.length = c.n) (hn : Occ.get s i = 0 ∨ Occ.get s i = 1)
    (ht : t.powers.length = c.n) (hp : pw t i = -1 ∨ pw t i = 0 ∨ pw t i = 1) (hcan : Canon c t) :
    (match opTermF0 i q t with
      | some t' => ampS c t' s s'
      | none => 0)
      = ofInt (modeAmp c i (Occ.get s i) q) * ampS c t (Occ.shift s i (-q)) s' := by
  have his : i < s.length := by rw [hs]; exact hi
  have hit : i < t.powers.length := by rw [ht]; exact hi
  -- the right-hand side, unfolded at mode `i`
  have hR : ampS c t (Occ.shift s i (-q)) s'
      = if tgt t (Occ.shift s i (-q)) = s' then
          ofInt (modeAmp c i (Occ.get s i + -q) (pw t i) *
            ∏ j ∈ (range c.n).erase i, modeAmp c j (Occ.get (Occ.shift s i (-q)) j) (pw t j))
            * t.coeff (mid t (Occ.shift s i (-q))) else 0 := by
    unfold ampS specAmp
    rw [annAmp_split c t _ i hi, get_shift _ _ _ _ his, if_pos rfl]
  rw [hR]
  generalize hn0 : Occ.get s i = n at hn ⊢
  generalize hp0 : pw t i = p at hp
  -- dropped terms
  by_cases hdrop : (p + q).natAbs > 1
  · have : opTermF0 i q t = none := by simp [opTermF0, hp0, hdrop]
    rw [this]
    simp only
    have hz : modeAmp c i n q * modeAmp c i (n + -q) p = 0 := by
      rw [modeAmp_fin c i hfin, modeAmp_fin c i hfin]
      rcases hq with rfl | rfl <;> rcases hp with rfl | rfl | rfl
      · exact absurd hdrop (by decide)
      · exact absurd hdrop (by decide)
      · rcases hn with rfl | rfl <;> simp
      · rcases hn with rfl | rfl <;> simp
      · exact absurd hdrop (by decide)
      · exact absurd hdrop (by decide)
    split
    · rw [ofInt_mul, ← mul_assoc, ← mul_assoc, ← ofInt_mul, hz]
      have h0 : ofInt 0 = 0 := by ext <;> simp [ofInt]
      rw [h0, zero_mul, zero_mul]
    · simp
  · -- kept terms
    obtain ⟨t', ht', hpow⟩ : ∃ t', opTermF0 i q t = some t' ∧ t'.powers = setPw t i (pw t i + q) := by
      refine ⟨_, by simp only [opTermF0, hp0, hdrop, ↓reduceIte]; rfl, by simp [hp0]⟩
    rw [ht']
    simp only
    unfold ampS specAmp
    rw [tgt_of_powers t t' i q s hpow his hit, annAmp_split c t' s i hi,
      rest_of_powers c t t' i q s hpow his hit, pw_of_powers t t' i _ hpow i hit, if_pos rfl, hn0, hp0]
    generalize (∏ j ∈ (range c.n).erase i, modeAmp c j (Occ.get (Occ.shift s i (-q)) j) (pw t j)) = R
    by_cases htg : tgt t (Occ.shift s i (-q)) = s'
    · simp only [htg, ↓reduceIte]
      -- the coefficient of the new term
      have hcoef : t'.coeff = fun N =>
          if q == 1 then (if p != 0 then ofInt (Occ.get N i) else 1) * t.coeff (Occ.set N i 0)
          else (if p != 0 then ofInt (1 - Occ.get N i) else 1) * t.coeff (Occ.set N i 1) := by
        have := ht'
        simp only [opTermF0, hp0, hdrop, ↓reduceIte, Option.some.injEq] at this
        rw [← this]
        funext N
        split <;> rfl
      rw [hcoef]
      beta_reduce
      have hMi : Occ.get (mid t' s) i = n - max (p + q) 0 := by
        rw [get_mid _ _ _ his, pw_of_powers t t' i _ hpow i hit, if_pos rfl, hn0, hp0]
      have hMl : (mid t' s).length = s.length := by simp
      have hiM : i < (mid t' s).length := by rw [hMl]; exact his
      -- the occupation vector seen by the old coefficient
      have hset : ∀ v : Int, v = n - q - max p 0 → Occ.set (mid t' s) i v = mid t (Occ.shift s i (-q)) := by
        intro v hv
        apply eq_mid_of_powers t t' i q s hpow his hit _ (by simp)
        · rw [get_set _ _ _ _ hiM, if_pos rfl, hn0, hp0]; exact hv
        · intro j hj _
          rw [get_set _ _ _ _ hiM, if_neg hj]
      have hsame : n - max (p + q) 0 = n - q - max p 0 → mid t' s = mid t (Occ.shift s i (-q)) := by
        intro hv
        apply eq_mid_of_powers t t' i q s hpow his hit _ (by simp)
        · rw [hMi, hn0, hp0]; exact hv
        · intro j _ _; rfl
      rw [modeAmp_fin c i hfin, modeAmp_fin c i hfin, modeAmp_fin c i hfin]
      have hcanon := hcan i hi hfin
      rw [hp0] at hcanon
      have h0 : ofInt 0 = 0 := by ext <;> simp [ofInt]
      rcases hq with rfl | rfl <;> rcases hp with rfl | rfl | rfl
      · -- c†f(N) · c
        rcases hn with rfl | rfl
        · simp [hMi, h0]
        · rw [hset 0 (by norm_num)]; simp [hMi, ofInt_one]
      · -- f(N) · c
        rcases hn with rfl | rfl
        · simp [h0]
        · rw [hset 0 (by norm_num)]; simp [ofInt_one]
      · exact absurd hdrop (by decide)
      · exact absurd hdrop (by decide)
      · -- f(N) · c†
        rcases hn with rfl | rfl
        · rw [hset 1 (by norm_num)]; simp [ofInt_one]
        · simp [h0]
      · -- f(N) c · c†
        rcases hn with rfl | rfl
        · have e1 := hcanon (by decide) (mid t' s) 1 (by rw [hMl, hs])
          rw [e1, hMi, hsame (by norm_num)]; simp [ofInt_one]
        · simp [hMi, h0]
    · simp [htg]

/-- the finite-mode step for spins -/
theorem opTermF_amp (c : Ctx) (i : Nat) (q : Int) (t : Term) (s s' : Occ) (hi : i < c.n)
    (hfin : c.isInf i = false) (hnf : ¬ c.kind i = .fermion) (hq : q = 1 ∨ q = -1)
    (hs : s.length = c.n) (hn : Occ.get s i = 0 ∨ Occ.get s i = 1)
    (ht : t.powers.length = c.n) (hp : pw t i = -1 ∨ pw t i = 0 ∨ pw t i = 1) (hcan : Canon c t) :
    (match opTermF c i q t with
      | some t' => ampS c t' s s'
      | none => 0)
      = ofInt (modeAmp c i (Occ.get s i) q) * ampS c t (Occ.shift s i (-q)) s' := by
  rw [← opTermF0_amp c i q t s s' hi hfin hq hs hn ht hp hcan, opTermF_eq, fsign_false c i q t hnf]
  cases opTermF0 i q t <;> rfl

/-! ## invariants of forms and their preservation -/

structure WFT (c : Ctx) (t : Term) : Prop where
  len : t.powers.length = c.n
  fin : FinPow c t
  can : Canon c t

def WF2 (c : Ctx) (x : Form) : Prop := ∀ t ∈ x, WFT c t

theorem WF2.toWF {c : Ctx} {x : Form} (h : WF2 c x) : WF c x := fun t ht => (h t ht).len

theorem set_set_comm (N : Occ) (i j : Nat) (v w : Int) (h : i ≠ j) :
    Occ.set (Occ.set N i v) j w = Occ.set (Occ.set N j w) i v := by
  unfold Occ.set
  exact List.set_comm _ _ h

theorem set_set_same (N : Occ) (i : Nat) (v w : Int) : Occ.set (Occ.set N i v) i w = Occ.set N i w := by
  unfold Occ.set; simp

theorem get_set_ne (N : Occ) (i j : Nat) (v : Int) (h : j ≠ i) : Occ.get (Occ.set N i v) j = Occ.get N j := by
  unfold Occ.get Occ.set
  simp [List.getD_eq_getElem?_getD, List.getElem?_set, h, Ne.symm h]

theorem shift_set_comm (N : Occ) (i j : Nat) (d v : Int) (h : i ≠ j) :
    Occ.shift (Occ.set N j v) i d = Occ.set (Occ.shift N i d) j v := by
  unfold Occ.shift
  rw [get_set_ne _ _ _ _ h, set_set_comm _ _ _ _ _ (Ne.symm h)]

/-- the boson/ladder step keeps the invariants -/
theorem wft_opTerm (c : Ctx) (i : Nat) (q : Int) (t : Term) (hi : i < c.n) (hinf : c.isInf i = true)
    (h : WFT c t) : WFT c (opTerm c i q t) := by
  have hit : i < t.powers.length := by rw [h.len]; exact hi
  refine ⟨by show (t.powers.set i _).length = c.n; rw [List.length_set]; exact h.len, ?_, ?_⟩
  · intro j hj hfin
    have hji : j ≠ i := fun e => by rw [e, hinf] at hfin; cases hfin
    rw [pw_opTerm c i q t j hit, if_neg hji]
    exact h.fin j hj hfin
  · intro j hj hfin hpw N v hN
    have hji : j ≠ i := fun e => by rw [e, hinf] at hfin; cases hfin
    rw [pw_opTerm c i q t j hit, if_neg hji] at hpw
    have hc := h.can j hj hfin hpw
    by_cases hq : q > 0
    · rw [opTerm_coeff_pos c i q t hq, opTerm_coeff_pos c i q t hq, shift_set_comm _ _ _ _ _ (Ne.symm hji),
        hc _ _ (by simp [hN]), get_set_ne _ _ _ _ (Ne.symm hji)]
    · by_cases hnew : pw t i + q > 0
      · rw [opTerm_coeff_np c i q t hq hnew, opTerm_coeff_np c i q t hq hnew, hc _ _ hN,
          shift_set_comm _ _ _ _ _ (Ne.symm hji), get_set_ne _ _ _ _ (Ne.symm hji)]
      · rw [opTerm_coeff_nn c i q t hq hnew, opTerm_coeff_nn c i q t hq hnew,
          shift_set_comm _ _ _ _ _ (Ne.symm hji), hc _ _ (by simp [hN]), get_set_ne _ _ _ _ (Ne.symm hji)]

/-- the spin step keeps the invariants -/
theorem wft_opTermF0 (c : Ctx) (i : Nat) (q : Int) (t t' : Term) (hi : i < c.n)
    (hq : q = 1 ∨ q = -1) (h : WFT c t) (ht' : opTermF0 i q t = some t') :
    WFT c t' := by
  have hit : i < t.powers.length := by rw [h.len]; exact hi
  have hdrop : ¬ (pw t i + q).natAbs > 1 := by
    intro hd; simp [opTermF0, hd] at ht'
  have hpow : t'.powers = setPw t i (pw t i + q) := by
    simp only [opTermF0, hdrop, ↓reduceIte, Option.some.injEq] at ht'
    rw [← ht']
  have hcoef : t'.coeff = fun N =>
      if q == 1 then (if pw t i != 0 then ofInt (Occ.get N i) else 1) * t.coeff (Occ.set N i 0)
      else (if pw t i != 0 then ofInt (1 - Occ.get N i) else 1) * t.coeff (Occ.set N i 1) := by
    simp only [opTermF0, hdrop, ↓reduceIte, Option.some.injEq] at ht'
    rw [← ht']
    funext N
    split <;> rfl
  refine ⟨by rw [hpow]; show (t.powers.set i _).length = c.n; rw [List.length_set]; exact h.len, ?_, ?_⟩
  · intro j hj hfin
    rw [pw_of_powers t t' i _ hpow j hit]
    by_cases hji : j = i
    · rw [if_pos hji]
      have := h.fin i hi (by rw [← hji]; exact hfin)
      rcases hq with rfl | rfl <;> rcases this with e | e | e <;> rw [e] at hdrop ⊢ <;>
        first | (exfalso; revert hdrop; decide) | decide
    · rw [if_neg hji]; exact h.fin j hj hfin
  · intro j hj hfin hpw N v hN
    rw [pw_of_powers t t' i _ hpow j hit] at hpw
    rw [hcoef]
    beta_reduce
    by_cases hji : j = i
    · subst hji
      rw [if_pos rfl] at hpw
      -- the new power is non-zero, so the old one was zero
      have hp0 : pw t j = 0 := by
        have := h.fin j hi hfin
        rcases hq with rfl | rfl <;> rcases this with e | e | e <;> rw [e] at hdrop hpw <;>
          first | exact e | (exfalso; revert hdrop; decide) | (exfalso; exact hpw (by norm_num))
      simp only [hp0, bne_self_eq_false, Bool.false_eq_true, ↓reduceIte, one_mul, set_set_same]
    · rw [if_neg hji] at hpw
      have hc := h.can j hj hfin hpw
      rw [get_set_ne _ _ _ _ (Ne.symm hji), set_set_comm _ _ _ _ _ hji, hc _ _ (by simp [hN]),
        set_set_comm _ _ _ _ _ hji, hc _ _ (by simp [hN])]

theorem wft_negIf (c : Ctx) (b : Bool) (t : Term) (h : WFT c t) : WFT c (negIf b t) := by
  refine ⟨h.len, h.fin, ?_⟩
  intro j hj hfin hp N v hN
  show (if b then -(t.coeff (Occ.set N j v)) else t.coeff (Occ.set N j v)) = (if b then -(t.coeff N) else t.coeff N)
  rw [h.can j hj hfin hp N v hN]

/-- the finite-mode step keeps the invariants (any kind) -/
theorem wft_opTermF (c : Ctx) (i : Nat) (q : Int) (t t' : Term) (hi : i < c.n)
    (hq : q = 1 ∨ q = -1) (h : WFT c t) (ht' : opTermF c i q t = some t') : WFT c t' := by
  rw [opTermF_eq] at ht'
  cases h0 : opTermF0 i q t with
  | none => rw [h0] at ht'; cases ht'
  | some t0 =>
    rw [h0] at ht'
    simp only [Option.map_some, Option.some.injEq] at ht'
    rw [← ht']
    exact wft_negIf c _ t0 (wft_opTermF0 c i q t t0 hi hq h h0)

def NoFermion (c : Ctx) : Prop := ∀ i, i < c.n → ¬ c.kind i = .fermion

theorem natAbs_le_one_of (q : Int) (h : q = 1 ∨ q = -1) : ¬ q.natAbs > 1 := by
  rcases h with rfl | rfl <;> decide

theorem wf2_multiplyOp (c : Ctx) (hnf : NoFermion c) (x : Form) (i : Nat) (q : Int) (hi : i < c.n)
    (hq : c.isInf i = false → q = 1 ∨ q = -1) (h : WF2 c x) : WF2 c (multiplyOp c x i q) := by
  cases hinf : c.isInf i
  · rw [multiplyOp_fin c x i q hinf, if_neg (natAbs_le_one_of q (hq hinf))]
    intro t' ht'
    obtain ⟨t, ht, hopt⟩ := List.mem_filterMap.mp ht'
    exact wft_opTermF c i q t t' hi (hq hinf) (h t ht) hopt
  · rw [multiplyOp_inf c x i q hinf]
    intro t' ht'
    obtain ⟨t, ht, rfl⟩ := List.mem_map.mp ht'
    exact wft_opTerm c i q t hi hinf (h t ht)

theorem sum_filterMap (c : Ctx) (x : Form) (f : Term → Option Term) (s s' : Occ) :
    ((x.filterMap f).map fun t => ampS c t s s').sum
      = (x.map fun t => match f t with | some t' => ampS c t' s s' | none => 0).sum := by
  induction x with
  | nil => simp
  | cons t x ih =>
    rw [List.filterMap_cons]
    cases hf : f t with
    | none => simp [hf, ih]
    | some t' => simp [hf, ih]

/-- right multiplication by one generator power, any non-fermionic mode -/
theorem ampF_multiplyOp2 (c : Ctx) (hnf : NoFermion c) (x : Form) (i : Nat) (q : Int) (s s' : Occ)
    (hi : i < c.n) (hs : s.length = c.n) (h : WF2 c x)
    (hq : c.isInf i = false → q = 1 ∨ q = -1)
    (hv : c.isInf i = false → Occ.get s i = 0 ∨ Occ.get s i = 1) :
    ampF c (multiplyOp c x i q) s s'
      = ofInt (modeAmp c i (Occ.get s i) q) * ampF c x (Occ.shift s i (-q)) s' := by
  cases hinf : c.isInf i
  · rw [multiplyOp_fin c x i q hinf, if_neg (natAbs_le_one_of q (hq hinf))]
    unfold ampF
    rw [sum_filterMap, ← List.sum_map_mul_left]
    congr 1
    apply List.map_congr_left
    intro t ht
    have hw := h t ht
    exact opTermF_amp c i q t s s' hi hinf (hnf i hi) (hq hinf) hs (hv hinf) hw.len (hw.fin i hi hinf) hw.can
  · exact ampF_multiplyOp c x i q s s' hi hinf hs h.toWF

theorem ampF_step2 (c : Ctx) (hnf : NoFermion c) (x : Form) (i : Nat) (q : Int) (b : Bool) (s s' : Occ)
    (hi : i < c.n) (hs : s.length = c.n) (h : WF2 c x)
    (hq : b = true → c.isInf i = false → q = 1 ∨ q = -1)
    (hv : b = true → c.isInf i = false → Occ.get s i = 0 ∨ Occ.get s i = 1) :
    ampF c (if b then multiplyOp c x i q else x) s s'
      = ofInt (modeAmp c i (Occ.get s i) (if b then q else 0))
        * ampF c x (Occ.shift s i (-(if b then q else 0))) s' := by
  cases b
  · simp [modeAmp_zero, shift_zero, ofInt_one]
  · simp only [↓reduceIte]
    exact ampF_multiplyOp2 c hnf x i q s s' hi hs h (hq rfl) (hv rfl)

theorem wf2_step (c : Ctx) (hnf : NoFermion c) (x : Form) (i : Nat) (q : Int) (b : Bool) (hi : i < c.n)
    (hq : b = true → c.isInf i = false → q = 1 ∨ q = -1) (h : WF2 c x) :
    WF2 c (if b then multiplyOp c x i q else x) := by
  cases b
  · exact h
  · exact wf2_multiplyOp c hnf x i q hi (hq rfl) h

/-- a sequence of conditional steps on distinct modes (bosons, ladders, spins) -/
theorem ampF_fold2 (c : Ctx) (hnf : NoFermion c) (Q : Nat → Int) (B : Nat → Bool) (s' : Occ)
    (hQ : ∀ i, i < c.n → B i = true → c.isInf i = false → Q i = 1 ∨ Q i = -1) :
    ∀ (L : List Nat), L.Nodup → (∀ i ∈ L, i < c.n) → ∀ (y : Form) (s : Occ), WF2 c y → s.length = c.n →
      (∀ i ∈ L, B i = true → c.isInf i = false → Occ.get s i = 0 ∨ Occ.get s i = 1) →
      ∃ u : Occ, u.length = c.n ∧
        (∀ j, Occ.get u j = Occ.get s j - (if j ∈ L then (if B j then Q j else 0) else 0)) ∧
        WF2 c (L.foldl (fun acc i => if B i then multiplyOp c acc i (Q i) else acc) y) ∧
        ampF c (L.foldl (fun acc i => if B i then multiplyOp c acc i (Q i) else acc) y) s s'
          = ofInt ((L.map fun j => modeAmp c j (Occ.get s j) (if B j then Q j else 0)).prod) * ampF c y u s' := by
  intro L
  induction L with
  | nil =>
    intro _ _ y s hy hs _
    exact ⟨s, hs, by simp, hy, by simp [ofInt_one]⟩
  | cons i L ih =>
    intro hnd hlt y s hy hs hval
    have hi : i < c.n := hlt i (List.mem_cons_self)
    have hiL : i ∉ L := (List.nodup_cons.mp hnd).1
    have hy' := wf2_step c hnf y i (Q i) (B i) hi (hQ i hi) hy
    obtain ⟨u, hul, hug, hwf, hamp⟩ := ih (List.nodup_cons.mp hnd).2
      (fun j hj => hlt j (List.mem_cons_of_mem _ hj)) _ s hy' hs
      (fun j hj => hval j (List.mem_cons_of_mem _ hj))
    have hui : Occ.get u i = Occ.get s i := by rw [hug i, if_neg hiL, sub_zero]
    refine ⟨Occ.shift u i (-(if B i then Q i else 0)), by simp [hul], ?_, ?_, ?_⟩
    · intro j
      rw [get_shift _ _ _ _ (by rw [hul]; exact hi)]
      by_cases h : j = i
      · subst h
        rw [if_pos rfl, hug, if_neg hiL]; simp; ring
      · rw [if_neg h, hug]
        simp [h]
    · simpa [List.foldl_cons] using hwf
    · rw [List.foldl_cons, hamp, ampF_step2 c hnf y i (Q i) (B i) u s' hi hul hy (hQ i hi)
        (fun hb hf => by rw [hui]; exact hval i (List.mem_cons_self) hb hf)]
      rw [hui, List.map_cons, List.prod_cons, ofInt_mul]
      ring

/-! ## `_multiply_expr` with spin modes -/

/-- the value `_multiply_expr` substitutes for the number operator of mode `j` -/
def replVal (c : Ctx) (t : Term) (j : Nat) (x : Int) : Int :=
  if pw t j = 0 then x
  else if c.isInf j then (if pw t j > 0 then x + pw t j else x)
  else (if pw t j < 0 then 0 else 1)

theorem replStep_spec (c : Ctx) (t : Term) (acc : Occ) (k : Nat) (hk : k < acc.length) :
    (replStep c t acc k).length = acc.length ∧
    ∀ j, Occ.get (replStep c t acc k) j = if j = k then replVal c t k (Occ.get acc k) else Occ.get acc j := by
  unfold replStep replVal
  by_cases hp0 : pw t k = 0
  · simp only [hp0, beq_self_eq_true, ↓reduceIte]
    refine ⟨trivial, fun j => ?_⟩
    by_cases h : j = k
    · subst h; simp
    · simp [h]
  · have hb : (pw t k == 0) = false := by simpa using hp0
    simp only [hb, Bool.false_eq_true, ↓reduceIte, hp0]
    cases hinf : c.isInf k
    · simp only [Bool.false_eq_true, ↓reduceIte]
      by_cases hneg : pw t k < 0
      · simp only [hneg, ↓reduceIte]
        exact ⟨by simp, fun j => get_set _ _ _ _ hk⟩
      · simp only [hneg, ↓reduceIte]
        exact ⟨by simp, fun j => get_set _ _ _ _ hk⟩
    · simp only [↓reduceIte]
      by_cases hpos : pw t k > 0
      · simp only [hpos, ↓reduceIte]
        exact ⟨by simp, fun j => get_shift _ _ _ _ hk⟩
      · simp only [hpos, ↓reduceIte]
        refine ⟨trivial, fun j => ?_⟩
        by_cases h : j = k
        · subst h; simp
        · simp [h]

theorem repl_fold2 (c : Ctx) (t : Term) :
    ∀ k, k ≤ c.n → ∀ N : Occ, N.length = c.n →
      ((List.range k).foldl (replStep c t) N).length = c.n ∧
      ∀ j, Occ.get ((List.range k).foldl (replStep c t) N) j
        = if j < k then replVal c t j (Occ.get N j) else Occ.get N j := by
  intro k
  induction k with
  | zero => intro _ N hN; exact ⟨hN, by simp⟩
  | succ k ih =>
    intro hk N hN
    obtain ⟨hl, hg⟩ := ih (by omega) N hN
    rw [List.range_succ, List.foldl_append]
    simp only [List.foldl_cons, List.foldl_nil]
    obtain ⟨hl2, hg2⟩ := replStep_spec c t ((List.range k).foldl (replStep c t) N) k (by rw [hl]; omega)
    refine ⟨by rw [hl2, hl], fun j => ?_⟩
    rw [hg2 j]
    by_cases hjk : j = k
    · subst hjk
      rw [if_pos rfl, hg j, if_neg (Nat.lt_irrefl j), if_pos (Nat.lt_succ_self j)]
    · rw [if_neg hjk, hg j]
      by_cases hj : j < k
      · rw [if_pos hj, if_pos (by omega)]
      · rw [if_neg hj, if_neg (by omega)]

theorem get_replOcc (c : Ctx) (t : Term) (N : Occ) (hN : N.length = c.n) (j : Nat) (hj : j < c.n) :
    Occ.get (replOcc c t N) j = replVal c t j (Occ.get N j) := by
  obtain ⟨_, hg⟩ := repl_fold2 c t c.n (Nat.le_refl _) N hN
  rw [replOcc, hg j, if_pos hj]

theorem length_replOcc (c : Ctx) (t : Term) (N : Occ) (hN : N.length = c.n) : (replOcc c t N).length = c.n :=
  (repl_fold2 c t c.n (Nat.le_refl _) N hN).1

/-- on the support of the monomial, `_multiply_expr` evaluates the right factor at the state itself -/
theorem replOcc_mid2 (c : Ctx) (t : Term) (s : Occ) (hs : s.length = c.n) (hfin : FinPow c t)
    (hsupp : ∀ j, j < c.n → c.isInf j = false →
      (pw t j = 1 → Occ.get s j = 1) ∧ (pw t j = -1 → Occ.get s j = 0)) :
    replOcc c t (mid t s) = s := by
  have hml : (mid t s).length = c.n := by simp [hs]
  apply occ_ext (by rw [length_replOcc c t _ hml, hs])
  intro j hj
  have hj' : j < c.n := by rw [length_replOcc c t _ hml] at hj; exact hj
  rw [get_replOcc c t _ hml j hj', get_mid _ _ _ (by rw [hs]; exact hj')]
  unfold replVal
  by_cases hp0 : pw t j = 0
  · simp [hp0]
  · simp only [hp0, ↓reduceIte]
    cases hinf : c.isInf j
    · simp only [Bool.false_eq_true, ↓reduceIte]
      rcases hfin j hj' hinf with e | e | e
      · simp only [e]; norm_num; exact ((hsupp j hj' hinf).2 e).symm
      · exact absurd e hp0
      · simp only [e]; norm_num; exact ((hsupp j hj' hinf).1 e).symm
    · simp only [↓reduceIte]
      by_cases hpos : pw t j > 0
      · have : max (pw t j) 0 = pw t j := by omega
        simp [hpos, this]
      · have : max (pw t j) 0 = 0 := by omega
        simp [hpos, this]

theorem replOcc_set (c : Ctx) (t : Term) (N : Occ) (hN : N.length = c.n) (j : Nat) (hj : j < c.n)
    (hfin : c.isInf j = false) (hp : pw t j ≠ 0) (v : Int) :
    replOcc c t (Occ.set N j v) = replOcc c t N := by
  have hl : (Occ.set N j v).length = c.n := by simp [hN]
  apply occ_ext (by rw [length_replOcc c t _ hl, length_replOcc c t _ hN])
  intro k hk
  have hk' : k < c.n := by rw [length_replOcc c t _ hl] at hk; exact hk
  rw [get_replOcc c t _ hl k hk', get_replOcc c t _ hN k hk']
  by_cases hkj : k = j
  · subst hkj
    simp [replVal, hp, hfin]
  · rw [get_set_ne _ _ _ _ hkj]

theorem wft_exprTerm (c : Ctx) (e : Occ → GRat) (t : Term) (h : WFT c t) : WFT c (exprTerm c e t) := by
  refine ⟨h.len, h.fin, ?_⟩
  intro j hj hfin hp N v hN
  show t.coeff (Occ.set N j v) * e (replOcc c t (Occ.set N j v)) = t.coeff N * e (replOcc c t N)
  rw [h.can j hj hfin hp N v hN, replOcc_set c t N hN j hj hfin hp v]

/-- physical basis states: occupation 0 or 1 on the finite modes -/
structure Valid (c : Ctx) (s : Occ) : Prop where
  len : s.length = c.n
  bin : ∀ i, i < c.n → c.isInf i = false → Occ.get s i = 0 ∨ Occ.get s i = 1

theorem ampS_exprTerm (c : Ctx) (e : Occ → GRat) (t : Term) (s s' : Occ) (hw : WFT c t) (hs : Valid c s) :
    ampS c (exprTerm c e t) s s' = e s * ampS c t s s' := by
  unfold ampS
  have h1 : tgt (exprTerm c e t) s = tgt t s := rfl
  have h2 : annAmp c (exprTerm c e t) s = annAmp c t s := rfl
  have h3 : mid (exprTerm c e t) s = mid t s := rfl
  rw [h1]
  unfold specAmp
  rw [h2, h3]
  show (if tgt t s = s' then ofInt (annAmp c t s) * (t.coeff (mid t s) * e (replOcc c t (mid t s))) else 0) = _
  by_cases hz : annAmp c t s = 0
  · have h0 : ofInt 0 = 0 := by ext <;> simp [ofInt]
    rw [hz, h0]; split <;> simp
  · have hsupp : ∀ j, j < c.n → c.isInf j = false →
        (pw t j = 1 → Occ.get s j = 1) ∧ (pw t j = -1 → Occ.get s j = 0) := by
      intro j hj hfin
      have hne : modeAmp c j (Occ.get s j) (pw t j) ≠ 0 := by
        unfold annAmp at hz
        exact (Finset.prod_ne_zero_iff.mp hz) j (mem_range.mpr hj)
      rw [modeAmp_fin c j hfin] at hne
      constructor
      · intro hp
        rw [hp] at hne
        rcases hs.bin j hj hfin with h | h
        · rw [h] at hne; simp at hne
        · exact h
      · intro hp
        rw [hp] at hne
        rcases hs.bin j hj hfin with h | h
        · exact h
        · rw [h] at hne; simp at hne
    rw [replOcc_mid2 c t s hs.len hw.fin hsupp]
    split <;> ring

theorem ampF_multiplyExpr2 (c : Ctx) (x : Form) (e : Occ → GRat) (s s' : Occ) (hx : WF2 c x)
    (hs : Valid c s) : ampF c (multiplyExpr c x e) s s' = e s * ampF c x s s' := by
  rw [multiplyExpr_eq]
  unfold ampF
  rw [List.map_map, ← List.sum_map_mul_left]
  congr 1
  apply List.map_congr_left
  intro t ht
  exact ampS_exprTerm c e t s s' (hx t ht) hs

theorem wf2_multiplyExpr (c : Ctx) (x : Form) (e : Occ → GRat) (hx : WF2 c x) : WF2 c (multiplyExpr c x e) := by
  rw [multiplyExpr_eq]
  intro t' ht'
  obtain ⟨t, ht, rfl⟩ := List.mem_map.mp ht'
  exact wft_exprTerm c e t (hx t ht)

/-- multiplication of a form by one monomial from the right (bosons, ladders, spins) -/
theorem ampF_mulTerm2 (c : Ctx) (hnf : NoFermion c) (x : Form) (t : Term) (s s' : Occ) (hx : WF2 c x)
    (ht : WFT c t) (hs : Valid c s) :
    ampF c (mulTerm c x t) s s' = specAmp c t s * ampF c x (tgt t s) s' := by
  unfold mulTerm
  have hnd : (List.range c.n).Nodup := List.nodup_range
  have hlt : ∀ i ∈ List.range c.n, i < c.n := fun i hi => List.mem_range.mp hi
  have hndr : (List.range c.n).reverse.Nodup := List.nodup_reverse.mpr hnd
  have hltr : ∀ i ∈ (List.range c.n).reverse, i < c.n := fun i hi => List.mem_range.mp (List.mem_reverse.mp hi)
  have hQpos : ∀ i, i < c.n → decide (pw t i > 0) = true → c.isInf i = false → pw t i = 1 ∨ pw t i = -1 := by
    intro i hi hb hfin
    have hb' : pw t i > 0 := by simpa using hb
    rcases ht.fin i hi hfin with e | e | e <;> omega
  have hQneg : ∀ i, i < c.n → decide (pw t i < 0) = true → c.isInf i = false → pw t i = 1 ∨ pw t i = -1 := by
    intro i hi hb hfin
    have hb' : pw t i < 0 := by simpa using hb
    rcases ht.fin i hi hfin with e | e | e <;> omega
  -- the two inner forms are well formed
  obtain ⟨_, _, _, hp1wf, _⟩ := ampF_fold2 c hnf (fun i => pw t i) (fun i => decide (pw t i < 0)) s' hQneg
    (List.range c.n) hnd hlt x s hx hs.len (fun i hi _ hfin => hs.bin i (hlt i hi) hfin)
  have hp1wf' : WF2 c ((List.range c.n).foldl
      (fun acc i => if pw t i < 0 then multiplyOp c acc i (pw t i) else acc) x) := by simpa using hp1wf
  have hp2wf := wf2_multiplyExpr c _ t.coeff hp1wf'
  -- annihilators act first
  obtain ⟨u3, hu3l, hu3g, _, h3⟩ := ampF_fold2 c hnf (fun i => pw t i) (fun i => decide (pw t i > 0)) s' hQpos
    (List.range c.n).reverse hndr hltr _ s hp2wf hs.len
    (fun i hi _ hfin => hs.bin i (hltr i hi) hfin)
  have hu3 : u3 = mid t s := by
    apply occ_ext (by simp [hu3l, hs.len])
    intro j hj
    have hj' : j < c.n := by rw [← hu3l]; exact hj
    rw [hu3g j, get_mid _ _ _ (by rw [hs.len]; exact hj')]
    have hm : j ∈ (List.range c.n).reverse := List.mem_reverse.mpr (List.mem_range.mpr hj')
    rw [if_pos hm]
    by_cases hp : pw t j > 0
    · have : max (pw t j) 0 = pw t j := by omega
      simp [hp, this]
    · have : max (pw t j) 0 = 0 := by omega
      simp [hp, this]
  set Aprod := ((List.range c.n).reverse.map fun j =>
      modeAmp c j (Occ.get s j) (if decide (pw t j > 0) then pw t j else 0)).prod with hAdef
  have hA : Aprod = ∏ j ∈ range c.n, modeAmp c j (Occ.get s j) (if pw t j > 0 then pw t j else 0) := by
    rw [hAdef, prod_range_list]
    apply prod_congr rfl
    intro j _
    by_cases hp : pw t j > 0 <;> simp [hp]
  simp only [decide_eq_true_eq] at h3
  rw [h3, hu3]
  have h0 : ofInt 0 = 0 := by ext <;> simp [ofInt]
  by_cases hAz : Aprod = 0
  · -- some annihilator kills the state
    have hz : annAmp c t s = 0 := by
      rw [hA] at hAz
      obtain ⟨j, hj, hjz⟩ := Finset.prod_eq_zero_iff.mp hAz
      unfold annAmp
      apply Finset.prod_eq_zero hj
      by_cases hp : pw t j > 0
      · simpa [hp] using hjz
      · simp [hp, modeAmp_zero] at hjz
    rw [hAz, h0, zero_mul]
    unfold specAmp
    rw [hz, h0, zero_mul, zero_mul]
  · -- the intermediate state is physical
    have hmidv : Valid c (mid t s) := by
      refine ⟨by simp [hs.len], ?_⟩
      intro j hj hfin
      rw [get_mid _ _ _ (by rw [hs.len]; exact hj)]
      have hne : modeAmp c j (Occ.get s j) (if pw t j > 0 then pw t j else 0) ≠ 0 := by
        rw [hA] at hAz
        exact (Finset.prod_ne_zero_iff.mp hAz) j (mem_range.mpr hj)
      rcases ht.fin j hj hfin with e | e | e
      · rw [e]; norm_num; exact hs.bin j hj hfin
      · rw [e]; norm_num; exact hs.bin j hj hfin
      · rw [e] at hne ⊢
        rw [modeAmp_fin c j hfin] at hne
        norm_num at hne ⊢
        rcases hs.bin j hj hfin with h | h
        · exact absurd h hne
        · left; rw [h]; norm_num
    rw [ampF_multiplyExpr2 c _ _ _ _ hp1wf' hmidv]
    -- creators act last
    obtain ⟨u1, hu1l, hu1g, _, h1⟩ := ampF_fold2 c hnf (fun i => pw t i) (fun i => decide (pw t i < 0)) s' hQneg
      (List.range c.n) hnd hlt x (mid t s) hx hmidv.len
      (fun i hi _ hfin => hmidv.bin i (hlt i hi) hfin)
    have hu1 : u1 = tgt t s := by
      apply occ_ext (by simp [hu1l, hs.len])
      intro j hj
      have hj' : j < c.n := by rw [← hu1l]; exact hj
      rw [hu1g j, get_mid _ _ _ (by rw [hs.len]; exact hj'), get_tgt _ _ _ (by rw [hs.len]; exact hj')]
      rw [if_pos (List.mem_range.mpr hj')]
      by_cases hp : pw t j < 0
      · have : max (pw t j) 0 = 0 := by omega
        simp [hp, this]
      · by_cases hp' : pw t j > 0
        · have : max (pw t j) 0 = pw t j := by omega
          simp [hp, this]
        · have h0' : pw t j = 0 := by omega
          simp [h0']
    simp only [decide_eq_true_eq] at h1
    rw [h1, hu1]
    have hB : ((List.range c.n).map fun j =>
        modeAmp c j (Occ.get (mid t s) j) (if pw t j < 0 then pw t j else 0)).prod
        = ∏ j ∈ range c.n, modeAmp c j (Occ.get (mid t s) j) (if pw t j < 0 then pw t j else 0) := by
      rw [← List.prod_toFinset _ List.nodup_range, List.toFinset_range]
    have hAB : Aprod * (∏ j ∈ range c.n, modeAmp c j (Occ.get (mid t s) j) (if pw t j < 0 then pw t j else 0))
        = annAmp c t s := by
      rw [hA, ← Finset.prod_mul_distrib]
      unfold annAmp
      apply prod_congr rfl
      intro j hj
      have hj' := mem_range.mp hj
      rw [get_mid _ _ _ (by rw [hs.len]; exact hj')]
      by_cases hp : pw t j > 0
      · have hn : ¬ pw t j < 0 := by omega
        simp [hp, hn, modeAmp_zero]
      · by_cases hn : pw t j < 0
        · have : max (pw t j) 0 = 0 := by omega
          simp [hp, hn, modeAmp_zero, this]
        · have h0' : pw t j = 0 := by omega
          simp [h0', modeAmp_zero]
    rw [hB]
    unfold specAmp
    rw [← hAB, ofInt_mul]
    ring

/-- **C08 (bosons, ladders, spins)**: the kernel of a product is the composition of the kernels -/
theorem rep_mul2 (c : Ctx) (hnf : NoFermion c) (x y : Form) (s s'' : Occ) (hx : WF2 c x) (hy : WF2 c y)
    (hs : Valid c s) :
    ampF c (mul c x y) s s'' = (y.map fun t => specAmp c t s * ampF c x (tgt t s) s'').sum := by
  rw [mul_eq, ampF_flatMap]
  congr 1
  apply List.map_congr_left
  intro t ht
  exact ampF_mulTerm2 c hnf x t s s'' hx (hy t ht) hs

end Nof
end Pyma
#print axioms Pyma.Nof.rep_mul2
