/-
On every accepted problem the executable evaluator returns a value for every element of every series
of the shipped algorithms (no error, no fuel exhaustion for large enough fuel), and that value is the
coefficient the theorems speak about.
-/
import PymaVerif.Proofs.DslComplete
import PymaVerif.Proofs.NhAccepted
import PymaVerif.Proofs.DriverSound

namespace Pyma
namespace BlockDiag
open Dsl Generated
namespace Problem

variable {K : Type} [Field K] [StarRing K] [DecidableEq K] [Thresholds K]
attribute [local instance] Scalar.ofField
variable {p : Problem K}

/-- **C20, model level (Hermitian mode)**: an accepted problem is always answered -/
theorem driver_total (h : p.Accepted) (x : String) (hx : x ∈ mainNames) (idx : Idx) :
    ∃ fuel v c', getElem main p.env fuel x idx ∅ = .ok (v, c') := by
  obtain ⟨v, hv⟩ := p.total_main h.noShared x hx idx
  obtain ⟨fuel, c', hrun⟩ := getElem_complete hv
  exact ⟨fuel, v, c', hrun⟩

/-- the same for the non-Hermitian algorithm -/
theorem driver_total_nh (h : p.AcceptedN) (x : String) (hx : x ∈ nhNames) (idx : Idx) :
    ∃ fuel v c', getElem nonhermitian p.env fuel x idx ∅ = .ok (v, c') := by
  obtain ⟨v, hv⟩ := p.total_nh (noShared_of h.no_shared) x hx idx
  obtain ⟨fuel, c', hrun⟩ := getElem_complete hv
  exact ⟨fuel, v, c', hrun⟩

end Problem
end BlockDiag
end Pyma
#print axioms Pyma.BlockDiag.Problem.driver_total
