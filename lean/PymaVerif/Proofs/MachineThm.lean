/-
M1 / M2 for the executable BlockSeries machine (`Model/Machine.lean`): memo soundness, history
independence, fault containment.  Core Lean only.
-/
import PymaVerif.Model.Machine

namespace Pyma
namespace Machine

variable {V : Type}

theorem find_filter_ne {β : Type} (l : List ((SId × Idx) × β)) (k k' : SId × Idx) (h : k' ≠ k) :
    (l.filter (fun x => x.1 != k)).find? (fun x => x.1 == k') = l.find? (fun x => x.1 == k') := by
  induction l with
  | nil => rfl
  | cons x xs ih =>
    by_cases hx : x.1 = k
    · have h1 : (x.1 != k) = false := by simp [hx]
      have h2 : (x.1 == k') = false := by
        simp only [beq_eq_false_iff_ne, ne_eq, hx]; exact fun e => h e.symm
      simp only [List.filter_cons, h1, Bool.false_eq_true, ↓reduceIte, List.find?_cons, h2, ih]
    · have h1 : (x.1 != k) = true := by simp [hx]
      simp only [List.filter_cons, h1, ↓reduceIte, List.find?_cons, ih]

theorem find_filter_self {β : Type} (l : List ((SId × Idx) × β)) (k : SId × Idx) :
    (l.filter (fun x => x.1 != k)).find? (fun x => x.1 == k) = none := by
  rw [List.find?_eq_none]
  intro x hx
  have := (List.mem_filter.mp hx).2
  simpa using this

theorem World.get_set (w : World V) (s : SId) (i : Idx) (c : Option (Cell V)) (s' : SId) (i' : Idx) :
    (w.set s i c).get s' i' = if (s', i') = (s, i) then c else w.get s' i' := by
  unfold World.set World.get
  by_cases h : (s', i') = (s, i)
  · simp only [h, ↓reduceIte]
    cases c with
    | none => simp only; rw [find_filter_self]; rfl
    | some c => simp
  · simp only [h, ↓reduceIte]
    have hne : ((s, i) == (s', i')) = false := by
      simp only [beq_eq_false_iff_ne, ne_eq]; exact fun e => h e.symm
    cases c with
    | none => simp only; rw [find_filter_ne _ _ _ h]
    | some c => simp only [List.find?_cons, hne]; rw [find_filter_ne _ _ _ h]

/-- cached values agree with the denotation -/
def Inv (den : SId → Idx → V) (w : World V) : Prop :=
  ∀ s i v, w.get s i = some (.val v) → v = den s i

/-- a script computes `r` whenever its reads are answered by the denotation -/
inductive ScriptOK (S : Sys V) (den : SId → Idx → V) : Script V → V → Prop where
  | pure (v) : ScriptOK S den (.pure v) v
  | fail (e r) : ScriptOK S den (.fail e) r
  | pop (s i k r) : ScriptOK S den k r → ScriptOK S den (.pop s i k) r
  | get (s i k r) : ScriptOK S den (k (den s i)) r → ScriptOK S den (.get s i k) r
  | contains (s i k r) : (∀ b, (b = false → S.isZero (den s i) = true) → ScriptOK S den (k b) r) →
      ScriptOK S den (.contains s i k) r
  | user (cb arg k r) : ScriptOK S den (k (S.userSem cb arg)) r → ScriptOK S den (.user cb arg k) r

def Consistent (S : Sys V) (den : SId → Idx → V) : Prop :=
  ∀ s i, ScriptOK S den (S.defs s i) (den s i)

theorem inv_set_nonval {den : SId → Idx → V} {w : World V} (h : Inv den w) (s i)
    (c : Option (Cell V)) (hc : ∀ v, c ≠ some (.val v)) : Inv den (w.set s i c) := by
  intro s' i' v hv
  rw [World.get_set] at hv
  split at hv
  · exact absurd hv (hc v)
  · exact h _ _ _ hv

theorem inv_set_val {den : SId → Idx → V} {w : World V} (h : Inv den w) (s i) :
    Inv den (w.set s i (some (.val (den s i)))) := by
  intro s' i' v hv
  rw [World.get_set] at hv
  split at hv
  · rename_i hc
    cases hv
    cases hc
    rfl
  · exact h _ _ _ hv

theorem inv_of_cache_eq {den : SId → Idx → V} {w w' : World V} (h : Inv den w)
    (hc : w'.cache = w.cache) : Inv den w' := by
  intro s i v hv
  apply h s i v
  simpa [World.get, hc] using hv

/-- M1 + M2 (value part): any run from an `Inv` state ends in an `Inv` state — whether it
succeeds or fails, whatever the fault plan — and a returned value is the denotation. -/
theorem sound (S : Sys V) (den : SId → Idx → V) (hc : Consistent S den) :
    ∀ f,
      (∀ sc w r, Inv den w → ScriptOK S den sc r →
          Inv den (run S f sc w).2 ∧ ∀ v, (run S f sc w).1 = .ok v → v = r) ∧
      (∀ s i w, Inv den w →
          Inv den (getItem S f s i w).2 ∧ ∀ v, (getItem S f s i w).1 = .ok v → v = den s i) := by
  intro f
  induction f with
  | zero =>
    refine ⟨?_, ?_⟩
    · intro sc w r hw _; simp [run, hw]
    · intro s i w hw; simp [getItem, hw]
  | succ f ih =>
    obtain ⟨ihr, ihg⟩ := ih
    refine ⟨?_, ?_⟩
    · intro sc w r hw hok
      cases hok with
      | pure v => simp [run, hw]
      | fail e r => simp [run, hw]
      | pop s i k r hk =>
        simp only [run]
        exact ihr _ _ _ (inv_set_nonval hw s i none (by simp)) hk
      | get s i k r hk =>
        simp only [run]
        have hg := ihg s i w hw
        generalize hres : getItem S f s i w = res at hg
        obtain ⟨out, w'⟩ := res
        cases out with
        | error e => simp; exact hg.1
        | ok v =>
          have : v = den s i := hg.2 v rfl
          subst this
          simp only
          exact ihr _ _ _ hg.1 hk
      | contains s i k r hk =>
        simp only [run]
        apply ihr _ _ _ hw
        apply hk
        intro hb
        cases hcache : w.get s i with
        | none => simp [hcache] at hb
        | some c =>
          cases c with
          | pending => simp [hcache] at hb
          | val v =>
            simp [hcache] at hb
            have := hw s i v hcache
            rw [← this]; exact hb
      | user cb arg k r hk =>
        simp only [run]
        cases hf : S.fault w.calls with
        | some e => simp; exact inv_of_cache_eq hw rfl
        | none =>
          simp only
          exact ihr _ _ _ (inv_of_cache_eq hw rfl) hk
    · intro s i w hw
      simp only [getItem]
      cases hcache : w.get s i with
      | some c =>
        cases c with
        | pending => simp [hw]
        | val v =>
          simp only
          refine ⟨hw, ?_⟩
          intro v' hv'
          cases hv'
          exact hw s i v hcache
      | none =>
        simp only
        have hw0 : Inv den { (w.set s i (some .pending)) with log := w.log ++ [(s, i)] } :=
          inv_of_cache_eq (inv_set_nonval hw s i (some .pending) (by simp)) rfl
        have hr := ihr (S.defs s i) _ (den s i) hw0 (hc s i)
        generalize hres : run S f (S.defs s i) _ = res at hr
        obtain ⟨out, w'⟩ := res
        cases out with
        | error e => simp; exact inv_set_nonval hr.1 s i none (by simp)
        | ok v =>
          have : v = den s i := hr.2 v rfl
          subst this
          simp only
          exact ⟨inv_set_val hr.1 s i, fun v' hv' => by cases hv'; rfl⟩


/-- no new in-flight marker survives a run -/
def PendSub (w' w : World V) : Prop :=
  ∀ s i, w'.get s i = some .pending → w.get s i = some .pending

theorem PendSub.refl (w : World V) : PendSub w w := fun _ _ h => h
theorem PendSub.trans {a b c : World V} (h1 : PendSub a b) (h2 : PendSub b c) : PendSub a c :=
  fun s i h => h2 s i (h1 s i h)

theorem pendSub_set_nonpending (w : World V) (s i) (c : Option (Cell V))
    (hc : c ≠ some .pending) : PendSub (w.set s i c) w := by
  intro s' i' h
  rw [World.get_set] at h
  split at h
  · exact absurd h hc
  · exact h

theorem pendSub_of_cache_eq {w w' : World V} (hc : w'.cache = w.cache) : PendSub w' w := by
  intro s i h
  simpa [World.get, hc] using h

theorem pendSub_of_set_pending {w' : World V} (w w0 : World V) (s i) (c : Option (Cell V))
    (hc : c ≠ some .pending) (h0 : w0.cache = (w.set s i (some .pending)).cache)
    (h : PendSub w' w0) : PendSub (w'.set s i c) w := by
  intro s' i' hp
  rw [World.get_set] at hp
  split at hp
  · exact absurd hp hc
  · rename_i hne
    have h1 := h s' i' hp
    have h2 : (w.set s i (some .pending)).get s' i' = some .pending := by
      simpa [World.get, h0] using h1
    rw [World.get_set] at h2
    split at h2
    · rename_i heq; exact absurd heq hne
    · exact h2

/-- M2 (marker part): after any run — successful or failed, under any fault plan — every `pending`
cell was already pending before it. In particular a top-level request leaves none behind. -/
theorem no_leftover (S : Sys V) :
    ∀ f,
      (∀ sc w, PendSub (run S f sc w).2 w) ∧
      (∀ s i w, PendSub (getItem S f s i w).2 w) := by
  intro f
  induction f with
  | zero =>
    exact ⟨fun sc w => by simp [run]; exact PendSub.refl w,
      fun s i w => by simp [getItem]; exact PendSub.refl w⟩
  | succ f ih =>
    obtain ⟨ihr, ihg⟩ := ih
    refine ⟨?_, ?_⟩
    · intro sc w
      cases sc with
      | pure v => simp [run]; exact PendSub.refl w
      | fail e => simp [run]; exact PendSub.refl w
      | pop s i k =>
        simp only [run]
        exact (ihr k _).trans (pendSub_set_nonpending w s i none (by simp))
      | get s i k =>
        simp only [run]
        have hg := ihg s i w
        generalize getItem S f s i w = res at hg
        obtain ⟨out, w'⟩ := res
        cases out with
        | error e => exact hg
        | ok v => exact (ihr (k v) w').trans hg
      | contains s i k =>
        simp only [run]; exact ihr _ _
      | user cb arg k =>
        simp only [run]
        cases S.fault w.calls with
        | some e => exact pendSub_of_cache_eq rfl
        | none => exact (ihr _ _).trans (pendSub_of_cache_eq rfl)
    · intro s i w
      simp only [getItem]
      cases hcache : w.get s i with
      | some c =>
        cases c with
        | pending => exact PendSub.refl w
        | val v => exact PendSub.refl w
      | none =>
        simp only
        have hr := ihr (S.defs s i) { (w.set s i (some .pending)) with log := w.log ++ [(s, i)] }
        generalize run S f (S.defs s i) _ = res at hr
        obtain ⟨out, w'⟩ := res
        cases out with
        | error e => exact pendSub_of_set_pending w _ s i none (by simp) rfl hr
        | ok v => exact pendSub_of_set_pending w _ s i _ (by simp) rfl hr

end Machine
end Pyma
#print axioms Pyma.Machine.no_leftover
