/-
Entry-level equations of the translated `nonhermitian` program on a `BlockDiag.Problem`.
-/
import PymaVerif.Proofs.NhBasics

namespace Pyma
namespace BlockDiag
open Dsl Generated
namespace Problem
namespace Nh

variable {K : Type} [Field K] [StarRing K] [DecidableEq K] [Thresholds K]
attribute [local instance] Scalar.ofField
variable (p : Problem K) (hwf : p.WF)

/-! ## order zero -/

include hwf in
theorem g0_Hd (htot : Total p) (n : List Nat) (hn : (n.all (· == 0)) = true) : g p "H'_diag" n = 0 := by
  nh_zero p, hwf, htot, "H'_diag", nfind_Hd, ndef_Hd, hn
include hwf in
theorem g0_Ho (htot : Total p) (n : List Nat) (hn : (n.all (· == 0)) = true) : g p "H'_offdiag" n = 0 := by
  nh_zero p, hwf, htot, "H'_offdiag", nfind_Ho, ndef_Ho, hn
include hwf in
theorem g0_P (htot : Total p) (n : List Nat) (hn : (n.all (· == 0)) = true) : g p "U'" n = 0 := by
  nh_zero p, hwf, htot, "U'", nfind_P, ndef_P, hn
include hwf in
theorem g0_G (htot : Total p) (n : List Nat) (hn : (n.all (· == 0)) = true) : g p "U_inv'" n = 0 := by
  nh_zero p, hwf, htot, "U_inv'", nfind_G, ndef_G, hn
include hwf in
theorem g0_X (htot : Total p) (n : List Nat) (hn : (n.all (· == 0)) = true) : g p "X" n = 0 := by
  nh_zero p, hwf, htot, "X", nfind_X, ndef_X, hn
include hwf in
theorem g0_B (htot : Total p) (n : List Nat) (hn : (n.all (· == 0)) = true) : g p "B" n = 0 := by
  nh_zero p, hwf, htot, "B", nfind_B, ndef_B, hn

/-! ## other orders -/

include hwf in
theorem g_Hd (htot : Total p) (n : List Nat) (hn : (n.all (· == 0)) = false) (a b : Fin p.d) :
    g p "H'_diag" n a b = if p.keptE a.val b.val then g p "H" n a b else 0 := by
  nh_step p, hwf, htot, "H'_diag", nfind_Hd, ndef_Hd, hn
  by_cases hab : p.blk a.val = p.blk b.val
  · have hbeq : (p.blk a.val == p.blk b.val) = true := by simp [hab]
    simp only [hbeq, ↓reduceIte, Matrix.add_apply, Matrix.zero_apply, zero_add,
      p.diag_entry hwf _ _ _ _ a b rfl, keptE, Bool.true_and]
    cases p.elimIn a.val b.val <;> simp <;> rfl
  · have hbeq : (p.blk a.val == p.blk b.val) = false := by simp [hab]
    simp [hbeq, keptE]

include hwf in
theorem g_Ho (htot : Total p) (n : List Nat) (hn : (n.all (· == 0)) = false) (a b : Fin p.d) :
    g p "H'_offdiag" n a b = if p.keptE a.val b.val then 0 else g p "H" n a b := by
  nh_step p, hwf, htot, "H'_offdiag", nfind_Ho, ndef_Ho, hn
  by_cases hab : p.blk a.val = p.blk b.val
  · have hbne : (p.blk a.val != p.blk b.val) = false := by simp [hab]
    simp only [hbne, Bool.false_eq_true, ↓reduceIte, p.env_offdiag]
    by_cases hfd : fdIsEmpty p.fdEff = true
    · have hk : p.keptE a.val b.val = true := by simp [keptE, hab, p.elimIn_false_of_empty hfd]
      simp [hfd, hk]
    · have hbeq : (p.blk a.val == p.blk b.val) = true := by simp [hab]
      simp only [hfd, Bool.false_eq_true, ↓reduceIte, Matrix.add_apply, Matrix.zero_apply, zero_add,
        p.offdiag_entry hwf _ _ _ _ a b rfl, keptE, hbeq, Bool.true_and]
      cases p.elimIn a.val b.val <;> simp <;> rfl
  · have hbne : (p.blk a.val != p.blk b.val) = true := by simp [hab]
    have hkk : p.keptE a.val b.val = false := by simp [keptE, hab]
    simp only [hbne, ↓reduceIte, hkk, Bool.false_eq_true, Matrix.add_apply, Matrix.zero_apply, zero_add]
    rfl

include hwf in
theorem g_G (htot : Total p) (n : List Nat) (hn : (n.all (· == 0)) = false) :
    g p "U_inv'" n = -g p "U'" n - g p "U_inv' @ U'" n := by
  ext a b
  nh_step p, hwf, htot, "U_inv'", nfind_G, ndef_G, hn
  simp [Matrix.sub_apply, Matrix.neg_apply, mat_at]

include hwf in
theorem g_B (htot : Total p) (n : List Nat) (hn : (n.all (· == 0)) = false) :
    g p "B" n = g p "X" n + g p "H'_offdiag" n + g p "H'_offdiag @ U'" n := by
  ext a b
  nh_step p, hwf, htot, "B", nfind_B, ndef_B, hn
  simp [Matrix.add_apply, mat_at]

include hwf in
theorem g_U (htot : Total p) (n : List Nat) (hn : (n.all (· == 0)) = false) :
    g p "U" n = g p "U'" n := by
  ext a b
  nh_step p, hwf, htot, "U", nfind_U, ndef_U, hn
  simp [mat_at]

include hwf in
theorem g_Ud (htot : Total p) (n : List Nat) (hn : (n.all (· == 0)) = false) :
    g p "U†" n = g p "U_inv'" n := by
  ext a b
  nh_step p, hwf, htot, "U†", nfind_Ud, ndef_Ud, hn
  simp [mat_at]

include hwf in
theorem g_Ht (htot : Total p) (n : List Nat) (hn : (n.all (· == 0)) = false) (a b : Fin p.d) :
    g p "H_tilde" n a b =
      if p.keptE a.val b.val then g p "H'_diag" n a b + g p "B" n a b + g p "U_inv' @ B" n a b else 0 := by
  nh_step p, hwf, htot, "H_tilde", nfind_Ht, ndef_Ht, hn
  by_cases hab : p.blk a.val = p.blk b.val
  · have hbeq : (p.blk a.val == p.blk b.val) = true := by simp [hab]
    simp only [hbeq, ↓reduceIte, Matrix.add_apply, Matrix.zero_apply, zero_add,
      p.diag_entry hwf _ _ _ _ a b rfl, keptE, Bool.true_and]
    cases p.elimIn a.val b.val
    · simp only [Bool.false_eq_true, ↓reduceIte, Bool.not_false, Matrix.add_apply]
      rfl
    · simp
  · have hbeq : (p.blk a.val == p.blk b.val) = false := by simp [hab]
    simp [hbeq, keptE]

include hwf in
theorem g_X (htot : Total p) (n : List Nat) (hn : (n.all (· == 0)) = false) (a b : Fin p.d) :
    g p "X" n a b =
      if p.keptE a.val b.val then g p "H'_diag @ U'" n a b - g p "U' @ H'_diag" n a b
      else -(g p "H'_offdiag" n a b + g p "H'_offdiag @ U'" n a b + g p "U_inv' @ B" n a b) := by
  nh_step p, hwf, htot, "X", nfind_X, ndef_X, hn
  by_cases hab : p.blk a.val = p.blk b.val
  · have hbeq : (p.blk a.val == p.blk b.val) = true := by simp [hab]
    have hbne : (p.blk a.val != p.blk b.val) = false := by simp [hab]
    simp only [hbeq, hbne, ↓reduceIte, Bool.false_eq_true, p.env_offdiag]
    by_cases hfd : fdIsEmpty p.fdEff = true
    · have hk : p.keptE a.val b.val = true := by simp [keptE, hab, p.elimIn_false_of_empty hfd]
      simp only [hfd, ↓reduceIte, Matrix.add_apply, Matrix.zero_apply, zero_add,
        p.diag_entry hwf _ _ _ _ a b rfl, p.elimIn_false_of_empty hfd, Bool.false_eq_true, hk,
        Matrix.sub_apply]
      rfl
    · simp only [hfd, Bool.false_eq_true, ↓reduceIte, Matrix.add_apply, Matrix.zero_apply, zero_add,
        p.diag_entry hwf _ _ _ _ a b rfl, p.offdiag_entry hwf _ _ _ _ a b rfl, keptE, hbeq,
        Bool.true_and]
      cases p.elimIn a.val b.val
      · simp only [Bool.false_eq_true, ↓reduceIte, Bool.not_false, zero_add, Matrix.sub_apply]
        rfl
      · simp only [↓reduceIte, Bool.not_true, Bool.false_eq_true, add_zero, Matrix.neg_apply,
          Matrix.add_apply]
        rfl
  · have hbeq : (p.blk a.val == p.blk b.val) = false := by simp [hab]
    have hbne : (p.blk a.val != p.blk b.val) = true := by simp [hab]
    have hkk : p.keptE a.val b.val = false := by simp [keptE, hab]
    simp only [hbeq, hbne, ↓reduceIte, Bool.false_eq_true, Matrix.add_apply, Matrix.zero_apply, zero_add,
      hkk, Matrix.neg_apply]
    rfl

include hwf in
theorem g_P (htot : Total p) (n : List Nat) (hn : (n.all (· == 0)) = false) (a b : Fin p.d) :
    g p "U'" n a b =
      if p.keptE a.val b.val then ((-2 : ℤ) : K)⁻¹ * g p "U_inv' @ U'" n a b
      else if Scalar.absGt (p.energy a.val - p.energy b.val) p.atol then
        (g p "X" n a b - g p "H'_diag @ U'" n a b + g p "U' @ H'_diag" n a b)
          * (p.energy a.val - p.energy b.val)⁻¹ else 0 := by
  nh_step p, hwf, htot, "U'", nfind_P, ndef_P, hn
  by_cases hab : p.blk a.val = p.blk b.val
  · have hbeq : (p.blk a.val == p.blk b.val) = true := by simp [hab]
    have hbne : (p.blk a.val != p.blk b.val) = false := by simp [hab]
    simp only [hbeq, hbne, ↓reduceIte, Bool.false_eq_true, p.env_offdiag]
    by_cases hfd : fdIsEmpty p.fdEff = true
    · have hk : p.keptE a.val b.val = true := by simp [keptE, hab, p.elimIn_false_of_empty hfd]
      simp only [hfd, ↓reduceIte, Matrix.add_apply, Matrix.zero_apply, zero_add,
        p.diag_entry hwf _ _ _ _ a b rfl, p.elimIn_false_of_empty hfd, Bool.false_eq_true, hk,
        Matrix.smul_apply, smul_eq_mul]
      rfl
    · simp only [hfd, Bool.false_eq_true, ↓reduceIte, Matrix.add_apply, Matrix.zero_apply, zero_add,
        p.diag_entry hwf _ _ _ _ a b rfl, p.offdiag_entry hwf _ _ _ _ a b rfl, keptE, hbeq,
        Bool.true_and]
      cases p.elimIn a.val b.val
      · simp only [Bool.false_eq_true, ↓reduceIte, Bool.not_false, add_zero, Matrix.smul_apply,
          smul_eq_mul]
        rfl
      · simp only [↓reduceIte, Bool.not_true, Bool.false_eq_true, zero_add, p.solve_entry hwf,
          Matrix.add_apply, Matrix.sub_apply]
        rfl
  · have hbeq : (p.blk a.val == p.blk b.val) = false := by simp [hab]
    have hbne : (p.blk a.val != p.blk b.val) = true := by simp [hab]
    have hkk : p.keptE a.val b.val = false := by simp [keptE, hab]
    simp only [hbeq, hbne, ↓reduceIte, Bool.false_eq_true, Matrix.add_apply, Matrix.zero_apply, zero_add,
      hkk, p.solve_entry hwf, Matrix.sub_apply]
    rfl

end Nh
end Problem
end BlockDiag
end Pyma
