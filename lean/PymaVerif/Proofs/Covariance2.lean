/-
C13, first instance of the transport theorem with a non-trivial homomorphism: rescaling the
perturbation parameters, `H(λ) ↦ H(cλ)`, rescales every order of the transformation by `c^{|n|}`.
-/
import PymaVerif.Proofs.Covariance

namespace Pyma
open MvPowerSeries

section rescale
variable {K : Type} [Field K] [StarRing K] {d : Nat} {σ : Type} [DecidableEq σ]

/-- `f(λ) ↦ f(cλ)`, as a function -/
noncomputable def rs (c : K) (f : Sr σ K d) : Sr σ K d := fun m => (c ^ m.degree) • coeff m f

theorem coeff_rs (c : K) (f : Sr σ K d) (m : σ →₀ ℕ) : coeff m (rs c f) = (c ^ m.degree) • coeff m f := rfl

/-- `f(λ) ↦ f(cλ)` on power series with matrix coefficients -/
noncomputable def rescaleS (c : K) : Sr σ K d →+* Sr σ K d where
  toFun := rs c
  map_zero' := by ext m : 1; rw [coeff_rs]; simp
  map_one' := by
    ext m : 1
    rw [coeff_rs, coeff_one]
    by_cases hm : m = 0
    · subst hm; simp
    · simp [hm]
  map_add' f g := by
    ext m : 1
    rw [coeff_rs, map_add, smul_add, map_add, coeff_rs, coeff_rs]
  map_mul' f g := by
    ext m : 1
    rw [coeff_rs, coeff_mul, coeff_mul, Finset.smul_sum]
    apply Finset.sum_congr rfl
    intro q hq
    have hdeg : m.degree = q.1.degree + q.2.degree := by
      rw [← Finset.mem_antidiagonal.mp hq, map_add]
    rw [coeff_rs, coeff_rs, hdeg, pow_add, Matrix.smul_mul, Matrix.mul_smul, smul_smul, mul_comm]

theorem coeff_rescaleS (c : K) (f : Sr σ K d) (m : σ →₀ ℕ) :
    coeff m (rescaleS c f) = (c ^ m.degree) • coeff m f := rfl

end rescale

namespace BlockDiag
open Dsl Generated
namespace Problem

variable {K : Type} [Field K] [StarRing K] [DecidableEq K] [Thresholds K]
attribute [local instance] Scalar.ofField
variable (p : Problem K) (ts : List (List Nat × Mat K))

/-- **C13 (scale)**: if two accepted problems of the same shape keep the same entries and the
Hamiltonian of the second is the first with `λ ↦ cλ` (`c` real), then so is its transformation -/
theorem C13_scale [LawfulThresholds K] (hp : p.Accepted) (hq : (p.withTerms ts).Accepted) (h2 : (2 : K) ≠ 0)
    (c : K) (hc : star c = c)
    (hkept : ∀ a b : Fin p.d, (p.withTerms ts).keptE a.val b.val = p.keptE a.val b.val)
    (hH : (p.withTerms ts).sr "H" = rescaleS c (p.sr "H")) :
    (p.withTerms ts).sr "U'" = rescaleS c (p.sr "U'") := by
  let q := p.withTerms ts
  have hen : ∀ a : Fin p.d, q.energy a.val = p.energy a.val := by
    intro a
    have e1 := congrFun (congrFun (hq.acc.H0_spec) a) a
    have e2 := congrFun (congrFun (hp.acc.H0_spec) a) a
    have e3 : q.g "H" (toList (0 : Fin p.nparams →₀ ℕ)) = p.g "H" (toList (0 : Fin p.nparams →₀ ℕ)) := by
      have := congrArg (coeff (0 : Fin p.nparams →₀ ℕ)) hH
      have e' : q.g "H" (toList (0 : Fin p.nparams →₀ ℕ))
          = (c ^ (0 : Fin p.nparams →₀ ℕ).degree) • p.g "H" (toList (0 : Fin p.nparams →₀ ℕ)) := this
      simpa using e'
    rw [e3] at e1
    rw [e2] at e1
    simpa [H0mat] using e1.symm
  have hH0 : q.H0s = p.H0s := by
    unfold H0s H0mat
    congr 2
    funext a
    exact hen a
  have hsel : ∀ x : Sr (Fin p.nparams) K p.d, p.SelS x = q.SelS x := by
    intro x
    ext m a b
    rw [coeff_SelS]
    show _ = (if q.keptE a.val b.val then coeff m x a b else 0)
    rw [hkept]
  have hT : TheoremU.Hom (p.ctx hp.ready hp.acc h2) (q.ctx hq.ready hq.acc h2) (rescaleS c) 0 := by
    refine ⟨?_, ?_, ?_, ?_, fun y => by simp, by simp⟩
    · intro x
      ext m a b
      rw [coeff_rescaleS, Matrix.smul_apply, p.coeff_star_apply, p.coeff_star_apply, coeff_rescaleS,
        Matrix.smul_apply]
      simp [hc]
    · intro k x hx m hm
      rw [coeff_rescaleS, hx m hm, smul_zero]
    · intro x
      show rescaleS c (p.SelS x) = q.SelS (rescaleS c x)
      rw [← hsel]
      ext m a b
      rw [coeff_rescaleS, Matrix.smul_apply, coeff_SelS, coeff_SelS, coeff_rescaleS, Matrix.smul_apply]
      split <;> simp
    · show rescaleS c (p.H0s + (p.sr "H'_diag" + p.sr "H'_offdiag"))
        = q.H0s + (q.sr "H'_diag" + q.sr "H'_offdiag") + 0
      have e1 := p.sr_H hp.ready hp.acc
      have e2 := q.sr_H hq.ready hq.acc
      rw [add_zero, ← add_assoc, ← add_assoc, ← e1, ← e2]
      exact hH.symm
  exact (TheoremU.transport (q.ctx hq.ready hq.acc h2) hT (p.sol_main hp.ready hp.sym hp.acc h2)
    (q.sol_main hq.ready hq.sym hq.acc h2)).symm

end Problem
end BlockDiag
end Pyma
#print axioms Pyma.BlockDiag.Problem.C13_scale
